import AdeptModel.ArrayAD
import AdeptProofs.Lemmas.Tape
/-!
Helper lemmas for C03 (`AdeptModel/ArrayAD.lean`): the traversal arithmetic of `advance_index`, the location
bookkeeping of expression leaves, and the loops of the array statements.
-/
set_option linter.unusedSectionVars false
set_option linter.unusedSimpArgs false
set_option linter.unusedVariables false
namespace Adept.ArrayAD
open Adept.Tape

/-! ### generic list facts -/

theorem foldl_congr_mem {α β : Type} (f g : α → β → α) (l : List β) (a : α)
    (h : ∀ a, ∀ b ∈ l, f a b = g a b) : l.foldl f a = l.foldl g a := by
  induction l generalizing a with
  | nil => rfl
  | cons b l ih =>
    simp only [List.foldl_cons]
    rw [h a b (List.mem_cons_self ..)]
    exact ih _ (fun a c hc => h a c (List.mem_cons_of_mem _ hc))

theorem range_succ_foldl {α : Type} (f : α → Nat → α) (a : α) (n : Nat) :
    (List.range (n + 1)).foldl f a = f ((List.range n).foldl f a) n := by
  rw [List.range_succ, List.foldl_append]; rfl

/-- a loop over `n*m` positions is `n` rows of `m` -/
theorem foldl_range_mul {α : Type} (f : α → Nat → α) (a : α) (n m : Nat) :
    (List.range (n * m)).foldl f a =
    (List.range n).foldl (fun a k => (List.range m).foldl (fun a j => f a (k * m + j)) a) a := by
  induction n with
  | zero => simp
  | succ n ih =>
    rw [range_succ_foldl, ← ih, Nat.succ_mul, List.range_add, List.foldl_append, List.foldl_map]

/-! ### division facts used by the odometer -/

theorem succ_mod_lt {p d : Nat} (hd : 0 < d) (h : p % d + 1 < d) :
    (p + 1) / d = p / d ∧ (p + 1) % d = p % d + 1 := by
  rw [Nat.div_mod_unique hd]
  have := Nat.div_add_mod p d
  omega

theorem succ_mod_wrap {p d : Nat} (hd : 0 < d) (h : p % d + 1 ≥ d) :
    (p + 1) / d = p / d + 1 ∧ (p + 1) % d = 0 := by
  rw [Nat.div_mod_unique hd]
  have h1 := Nat.div_add_mod p d
  have h2 := Nat.mod_lt p hd
  rw [Nat.mul_add, Nat.mul_one]
  omega

theorem mul_add_div_mod {k m j : Nat} (hj : j < m) : (k * m + j) / m = k ∧ (k * m + j) % m = j := by
  have hm : 0 < m := by omega
  rw [Nat.div_mod_unique hm]
  rw [Nat.mul_comm]
  omega

/-! ### index order -/

def AllPos (l : List Nat) : Prop := ∀ d ∈ l, 0 < d

theorem AllPos.tail {d : Nat} {l : List Nat} (h : AllPos (d :: l)) : AllPos l :=
  fun x hx => h x (List.mem_cons_of_mem _ hx)
theorem AllPos.head {d : Nat} {l : List Nat} (h : AllPos (d :: l)) : 0 < d := h d (List.mem_cons_self ..)

theorem unflatR_zero (rd : List Nat) : unflatR rd 0 = zeros rd.length := by
  induction rd with
  | nil => rfl
  | cons d ds ih => simp [unflatR, zeros, List.replicate_succ] at *; exact ih

theorem prod_pos {rd : List Nat} (h : AllPos rd) : 0 < prod rd := by
  induction rd with
  | nil => simp [prod]
  | cons d ds ih => simp only [prod]; exact Nat.mul_pos h.head (ih h.tail)

theorem dotR_zeros (n : Nat) (rs : List Int) : dotR (zeros n) rs = 0 := by
  induction n generalizing rs with
  | zero => cases rs <;> rfl
  | succ n ih =>
    cases rs with
    | nil => rfl
    | cons s ss => simp [zeros, List.replicate_succ, dotR]; exact ih ss

theorem dotR_nil_right (ri : List Nat) : dotR ri [] = 0 := by cases ri <;> rfl

/-- `advance_index` moves from position `p` to position `p+1` of the index order, keeps the memory index equal to
    `base + Σ iₖ·sₖ`, and reports the end exactly after the last position -/
theorem advIndex_unflat (rd : List Nat) (rs : List Int) (hl : rs.length = rd.length) (hp : AllPos rd)
    (p : Nat) (base : Int) (hlt : p < prod rd) :
    advIndex rd rs (unflatR rd p) (base + dotR (unflatR rd p) rs) =
      if p + 1 < prod rd then (unflatR rd (p + 1), base + dotR (unflatR rd (p + 1)) rs, false)
      else (zeros rd.length, base, true) := by
  induction rd generalizing rs p base with
  | nil =>
    simp [prod] at hlt
    subst hlt
    cases rs with
    | nil => simp [advIndex, unflatR, prod, zeros, dotR]
    | cons _ _ => simp at hl
  | cons d ds ih =>
    cases rs with
    | nil => simp at hl
    | cons s ss =>
      have hd : 0 < d := hp.head
      have hps : 0 < prod ds := prod_pos hp.tail
      have hls : ss.length = ds.length := by simpa using hl
      simp only [prod] at hlt ⊢
      simp only [unflatR, dotR, advIndex]
      have hq : p / d < prod ds := by
        rw [Nat.div_lt_iff_lt_mul hd, Nat.mul_comm]; exact hlt
      by_cases hw : p % d + 1 ≥ d
      · -- wrap this dimension, carry into the next
        rw [if_pos hw]
        obtain ⟨e1, e2⟩ := succ_mod_wrap hd hw
        have hm : (p % d : Nat) = d - 1 := by have := Nat.mod_lt p hd; omega
        have hidx : base + (((p % d : Nat) : Int) * s + dotR (unflatR ds (p / d)) ss) - s * ((d : Int) - 1)
            = base + dotR (unflatR ds (p / d)) ss := by
          rw [hm]
          have : ((d - 1 : Nat) : Int) = (d : Int) - 1 := by omega
          rw [this, Int.mul_comm]
          omega
        rw [hidx, ih ss hls hp.tail (p / d) base hq]
        have hpd := Nat.div_add_mod p d
        by_cases hn : p / d + 1 < prod ds
        · have : p + 1 < d * prod ds := by
            have h5 : d * (p / d + 2) ≤ d * prod ds := Nat.mul_le_mul_left d (by omega)
            rw [Nat.mul_add] at h5
            omega
          rw [if_pos hn, if_pos this, e1, e2]
          simp
        · have h3 : p / d + 1 = prod ds := by omega
          have : ¬ (p + 1 < d * prod ds) := by
            rw [← h3, Nat.mul_add, Nat.mul_one]; omega
          rw [if_neg hn, if_neg this]
          simp [zeros, List.replicate_succ]
      · rw [if_neg hw]
        have hw' : p % d + 1 < d := by omega
        obtain ⟨e1, e2⟩ := succ_mod_lt hd hw'
        have : p + 1 < d * prod ds := by
          have hpd := Nat.div_add_mod p d
          have h5 : d * (p / d + 1) ≤ d * prod ds := Nat.mul_le_mul_left d (by omega)
          rw [Nat.mul_add, Nat.mul_one] at h5
          omega
        rw [if_pos this, e1, e2]
        have : (((p % d + 1 : Nat) : Int)) * s = ((p % d : Nat) : Int) * s + s := by
          rw [Int.natCast_add, Int.add_mul]; simp
        simp only [this]
        congr 1
        congr 1
        omega

/-- the `do … while (my_rank >= 0)` loop visits the rows in index order, each with its own memory index -/
theorem rowsLoop_eq {σ : Type} (row : σ → List Nat → Int → σ) (rd : List Nat) (rs : List Int)
    (hl : rs.length = rd.length) (hp : AllPos rd) (dl : Nat) (sl : Int) (base : Int) (s : σ) :
    rowsLoop row rd rs dl sl (prod rd) (zeros rd.length) base s =
      (List.range (prod rd)).foldl (fun s k => row s (unflatR rd k) (base + dotR (unflatR rd k) rs)) s := by
  have key : ∀ m p (s : σ), p + m = prod rd → 0 < m →
      rowsLoop row rd rs dl sl m (unflatR rd p) (base + dotR (unflatR rd p) rs) s =
        (List.range' p m).foldl (fun s k => row s (unflatR rd k) (base + dotR (unflatR rd k) rs)) s := by
    intro m
    induction m with
    | zero => intro p s _ h; omega
    | succ m ih =>
      intro p s hpm _
      have hlt : p < prod rd := by omega
      have hcancel : base + dotR (unflatR rd p) rs + (dl : Int) * sl - sl * (dl : Int) = base + dotR (unflatR rd p) rs := by
        rw [Int.mul_comm sl]; omega
      simp only [rowsLoop]
      rw [hcancel, advIndex_unflat rd rs hl hp p base hlt]
      by_cases hn : p + 1 < prod rd
      · rw [if_pos hn]
        simp only [Bool.false_eq_true, if_false]
        rw [ih (p + 1) _ (by omega) (by omega)]
        rw [List.range'_succ, List.foldl_cons]
      · rw [if_neg hn]
        simp only [if_true]
        have : m = 0 := by omega
        subst this
        simp [List.range']
  have hpos := prod_pos hp
  have := key (prod rd) 0 s (by omega) hpos
  rw [unflatR_zero] at this
  rw [dotR_zeros, Int.add_zero] at this
  rw [this, List.range_eq_range']

/-! ### locations of the expression leaves -/
section Locs
variable {R : Type}

/-- well-formed leaf geometry for a statement of rank `rank ≥ 1` whose innermost extent is `dl`:
    an Array leaf has as many strides as dimensions and is either an adouble (no dimensions) or of the statement's
    rank; an IndexedArray leaf has one index vector and one stride per dimension and its innermost index vector has
    `dl` entries.  (Extents of Array leaves are irrelevant to the loops: only addresses matter.) -/
def AExpr.WF (rank dl : Nat) : AExpr R → Prop
  | .arr v => v.strides.length = v.dims.length ∧ (v.dims = [] ∨ v.dims.length = rank)
  | .idx v rix => rix.length = rank ∧ v.strides.length = rank ∧ (rix.headD []).length = dl
  | .const _ => True
  | .add a b | .sub a b | .mul a b | .div a b | .max a b | .min a b => a.WF rank dl ∧ b.WF rank dl
  | .neg a | .noalias a | .abs a => a.WF rank dl

theorem setLoc_length (e : AExpr R) (ri : List Nat) : (e.setLoc ri).length = e.nArrays := by
  induction e with
  | arr v => simp only [AExpr.setLoc, AExpr.nArrays]; split <;> simp
  | idx v rix => simp [AExpr.setLoc, AExpr.nArrays]
  | const x => rfl
  | add a b iha ihb | sub a b iha ihb | mul a b iha ihb | div a b iha ihb | max a b iha ihb | min a b iha ihb =>
    simp [AExpr.setLoc, AExpr.nArrays, iha, ihb]
  | neg a ih | noalias a ih | abs a ih => simpa [AExpr.setLoc, AExpr.nArrays] using ih

theorem View.rstrides_length (v : View) : v.rstrides.length = v.strides.length := by simp [View.rstrides]

/-- `value_at_location_`/`calc_gradient_` after `set_location_(i)` address element `i` -/
theorem atLoc_setLoc (e : AExpr R) (rank dl : Nat) (hr : 0 < rank) (hw : e.WF rank dl) (j : Nat) (r : List Nat) :
    e.atLoc (e.setLoc (j :: r)) = e.at (j :: r) := by
  induction e with
  | arr v =>
    obtain ⟨h1, h2⟩ := hw
    simp only [AExpr.atLoc, AExpr.setLoc, AExpr.at]
    by_cases he : v.dims.isEmpty = true
    · simp only [he, if_true]
      have : v.dims = [] := List.isEmpty_iff.mp he
      have hs : v.rstrides = [] := by
        have : v.strides.length = 0 := by rw [h1, this]; rfl
        simp [View.rstrides, List.length_eq_zero_iff.mp this]
      rw [hs, dotR_nil_right]; simp
    · simp [he]
  | idx v rix =>
    obtain ⟨h1, h2, h3⟩ := hw
    simp only [AExpr.atLoc, AExpr.setLoc, AExpr.at]
    have hrs : v.rstrides.length = rank := by rw [View.rstrides_length, h2]
    cases hrx : rix with
    | nil => rw [hrx] at h1; simp at h1; omega
    | cons ix0 ixs =>
      cases hss : v.rstrides with
      | nil => rw [hss] at hrs; simp at hrs; omega
      | cons s0 ss =>
        simp only [List.tail_cons, List.headD_cons, xlate, dotR, List.getD_cons_succ, List.getD_cons_zero]
        congr 1
        congr 1
        rw [Int.mul_comm]
        omega
  | const x => rfl
  | add a b iha ihb | sub a b iha ihb | mul a b iha ihb | div a b iha ihb | max a b iha ihb | min a b iha ihb =>
    simp only [AExpr.atLoc, AExpr.setLoc, AExpr.at]
    rw [List.take_left' (setLoc_length a _), List.drop_left' (setLoc_length a _), iha hw.1, ihb hw.2]
  | neg a ih | noalias a ih | abs a ih =>
    simp only [AExpr.atLoc, AExpr.setLoc, AExpr.at]; rw [ih hw]

/-- `advance_location_` after `set_location_(j, r)` is `set_location_(j+1, r)` while the row lasts -/
theorem advLoc_setLoc (e : AExpr R) (rank dl : Nat) (hr : 0 < rank) (hw : e.WF rank dl) (j : Nat) (r : List Nat)
    (hj : j + 1 < dl) : e.advLoc (e.setLoc (j :: r)) = e.setLoc ((j + 1) :: r) := by
  induction e with
  | arr v =>
    obtain ⟨h1, h2⟩ := hw
    simp only [AExpr.advLoc, AExpr.setLoc]
    by_cases he : v.dims.isEmpty = true
    · simp [he]
    · simp only [he, Bool.false_eq_true, if_false, List.headD_cons]
      have hd : v.dims ≠ [] := by intro h; rw [h] at he; simp at he
      have hlen : v.rstrides.length = rank := by
        rw [View.rstrides_length, h1]; cases h2 with
        | inl h => exact absurd h hd
        | inr h => exact h
      cases hss : v.rstrides with
      | nil => rw [hss] at hlen; simp at hlen; omega
      | cons s0 ss =>
        simp only [dotR, List.headD_cons]
        have : (((j + 1 : Nat) : Int)) * s0 = (j : Int) * s0 + s0 := by
          rw [Int.natCast_add, Int.add_mul]; simp
        rw [this]
        congr 1
        omega
  | idx v rix =>
    obtain ⟨h1, h2, h3⟩ := hw
    simp only [AExpr.advLoc, AExpr.setLoc, List.getD_cons_zero, List.getD_cons_succ, List.headD_cons, List.tail_cons]
    have hc : ((j : Int) + 1 < ((rix.headD []).length : Int)) := by rw [h3]; omega
    rw [if_pos hc]
    have : ((j : Int) + 1).toNat = j + 1 := by omega
    rw [this]
    simp
  | const x => rfl
  | add a b iha ihb | sub a b iha ihb | mul a b iha ihb | div a b iha ihb | max a b iha ihb | min a b iha ihb =>
    simp only [AExpr.advLoc, AExpr.setLoc]
    rw [List.take_left' (setLoc_length a _), List.drop_left' (setLoc_length a _), iha hw.1, ihb hw.2]
  | neg a ih | noalias a ih | abs a ih =>
    simp only [AExpr.advLoc, AExpr.setLoc]; rw [ih hw]

/-- in the `++index` branch every array has innermost stride 1, so incrementing all locations is `advance_location_` -/
theorem contig_advLoc (e : AExpr R) (l : List Int) (hc : e.contig = true) (hl : l.length = e.nArrays) :
    l.map (· + 1) = e.advLoc l := by
  induction e generalizing l with
  | arr v =>
    simp only [AExpr.contig, Bool.or_eq_true, beq_iff_eq] at hc
    simp only [AExpr.advLoc, AExpr.nArrays] at hl ⊢
    by_cases he : v.dims.isEmpty = true
    · simp only [he, if_true] at hl ⊢
      simp [List.length_eq_zero_iff.mp hl]
    · simp only [he, Bool.false_eq_true, if_false] at hl ⊢
      have h1 : v.rstrides.headD 0 = 1 := by
        cases hc with
        | inl h => exact absurd h he
        | inr h => exact h
      rw [h1]
      match l, hl with
      | [x], _ => simp
  | idx v rix => simp [AExpr.contig] at hc
  | const x => simp only [AExpr.nArrays] at hl; simp [AExpr.advLoc, List.length_eq_zero_iff.mp hl]
  | add a b iha ihb | sub a b iha ihb | mul a b iha ihb | div a b iha ihb | max a b iha ihb | min a b iha ihb =>
    simp only [AExpr.contig, Bool.and_eq_true] at hc
    simp only [AExpr.nArrays] at hl
    simp only [AExpr.advLoc]
    rw [← iha _ hc.1 (by simp; omega), ← ihb _ hc.2 (by simp; omega), ← List.map_append, List.take_append_drop]
  | neg a ih | noalias a ih =>
    simp only [AExpr.contig] at hc
    simp only [AExpr.nArrays] at hl
    simp only [AExpr.advLoc]; exact ih _ hc hl
  | abs a ih => simp [AExpr.contig] at hc

/-- both branches of `assign_expression_` step the locations identically -/
theorem next_setLoc (e : AExpr R) (rank dl : Nat) (hr : 0 < rank) (hw : e.WF rank dl) (j : Nat) (r : List Nat)
    (hj : j + 1 < dl) : e.next (e.setLoc (j :: r)) = e.setLoc ((j + 1) :: r) := by
  unfold AExpr.next
  split
  · rename_i hc
    rw [contig_advLoc e _ hc (setLoc_length e _)]
    exact advLoc_setLoc e rank dl hr hw j r hj
  · exact advLoc_setLoc e rank dl hr hw j r hj

end Locs

/-! ### memory: storing a value changes neither gradient indices nor activeness -/
section MemFacts
variable {R : Type} [Zero R]

theorem store_sto? (m : Mem R) (c : Cell) (v : R) (sid : Nat) :
    (m.store c v).sto? sid =
      (m.sto? sid).map (fun x => if sid = c.1 ∧ ¬ c.2 < 0 then { x with cells := x.cells.set c.2.toNat v } else x) := by
  unfold Mem.store
  by_cases hneg : c.2 < 0
  · rw [if_pos hneg]
    have : (fun (x : Sto R) => if sid = c.1 ∧ ¬ c.2 < 0 then { x with cells := x.cells.set c.2.toNat v } else x) = id := by
      funext x; simp [hneg]
    rw [this, Option.map_id]; rfl
  · rw [if_neg hneg]
    unfold Mem.sto?
    induction m with
    | nil => rfl
    | cons p m ih =>
      rw [List.map_cons, List.find?_cons, List.find?_cons]
      have hg1 : (if p.1 = c.1 then (p.1, ({ p.2 with cells := p.2.cells.set c.2.toNat v } : Sto R)) else p).1 = p.1 := by
        split <;> rfl
      rw [hg1]
      by_cases hs : p.1 = sid
      · simp only [hs, decide_true, Option.map_some]
        by_cases hc : sid = c.1
        · have hc' : p.1 = c.1 := by rw [hs]; exact hc
          simp [hc', hc, hneg]
        · have : ¬ p.1 = c.1 := by rw [hs]; exact hc
          simp [this, hc]
      · simp only [hs, decide_false]
        exact ih

theorem store_isActive (m : Mem R) (c : Cell) (v : R) (sid : Nat) : (m.store c v).isActive sid = m.isActive sid := by
  unfold Mem.isActive
  rw [store_sto?]
  cases m.sto? sid with
  | none => rfl
  | some x => simp only [Option.map_some]; split <;> rfl

theorem store_gidx (m : Mem R) (c : Cell) (v : R) (c' : Cell) : (m.store c v).gidx c' = m.gidx c' := by
  unfold Mem.gidx
  rw [store_sto?]
  cases m.sto? c'.1 with
  | none => rfl
  | some x => simp only [Option.map_some]; split <;> rfl

theorem store_gbase (m : Mem R) (c : Cell) (v : R) (sid : Nat) :
    ((m.store c v).sto? sid).map (·.gbase) = (m.sto? sid).map (·.gbase) := by
  rw [store_sto?]
  cases m.sto? sid with
  | none => rfl
  | some x => simp only [Option.map_some]; split <;> rfl

end MemFacts

/-! ### the statement loops -/
section Loops
variable {R : Type} [Zero R] [Add R] [Sub R] [Mul R] [Div R] [Neg R] [One R] [LT R] [DecidableLT R]

/-- the innermost loop of `assign_expression_` (either branch) is the scalar statements of the row, in order -/
theorem assignRow_eq (t : View) (e : AExpr R) (rank dl : Nat) (sl : Int) (hr : 0 < rank)
    (hd : t.rdims.headD 0 = dl) (hs : t.rstrides.headD 0 = sl) (hw : e.WF rank dl)
    (s : St R) (ri : List Nat) (index : Int) :
    assignRow t e s ri index =
      (List.range dl).foldl (fun s (j : Nat) => elemStep s (t.sid, index + (j : Int) * sl) (e.at (j :: ri))) s := by
  unfold assignRow
  rw [hd, hs]
  have key : ∀ n, n ≤ dl →
      let r := (List.range n).foldl (fun (p : St R × List Int × Int) _ =>
          (elemStep p.1 (t.sid, p.2.2) (e.atLoc p.2.1), e.next p.2.1, p.2.2 + sl)) (s, e.setLoc (0 :: ri), index)
      r.1 = (List.range n).foldl (fun s (j : Nat) => elemStep s (t.sid, index + (j : Int) * sl) (e.at (j :: ri))) s ∧
      (n < dl → r.2.1 = e.setLoc (n :: ri)) ∧ r.2.2 = index + (n : Int) * sl := by
    intro n
    induction n with
    | zero => intro _; simp
    | succ n ih =>
      intro hn
      obtain ⟨h1, h2, h3⟩ := ih (by omega)
      rw [range_succ_foldl, range_succ_foldl]
      refine ⟨?_, ?_, ?_⟩
      · simp only
        rw [h1, h2 (by omega), h3, atLoc_setLoc e rank dl hr hw]
      · intro hlt
        simp only
        rw [h2 (by omega)]
        exact next_setLoc e rank dl hr hw n ri hlt
      · simp only
        rw [h3, Int.natCast_add, Int.add_mul]; simp; omega
  exact (key dl (Nat.le_refl _)).1

theorem runS_some (s : St R) (g : SMask R) (c : Cell) (x : SExpr R) :
    runS s ⟨some g, c, x⟩ = if g.eval s.mem then elemStep s c x else s := rfl

theorem runS_none (s : St R) (c : Cell) (x : SExpr R) : runS s ⟨none, c, x⟩ = elemStep s c x := rfl

/-- rows × innermost loop = positions of the index order -/
theorem rows_inner_eq_flat {σ : Type} (F : σ → List Nat → σ) (dl : Nat) (rd : List Nat) (hdl : 0 < dl) (s : σ) :
    (List.range (prod rd)).foldl (fun s k => (List.range dl).foldl (fun s j => F s (j :: unflatR rd k)) s) s =
    (List.range (prod (dl :: rd))).foldl (fun s p => F s (unflatR (dl :: rd) p)) s := by
  simp only [prod]
  rw [Nat.mul_comm, foldl_range_mul]
  congr 1
  funext a k
  apply foldl_congr_mem
  intro a j hj
  have hj' : j < dl := List.mem_range.mp hj
  obtain ⟨e1, e2⟩ := mul_add_div_mod (k := k) hj'
  simp only [unflatR, e1, e2]

/-- rows of scalar statements, each row at its memory index, are the denoted program -/
theorem rows_elem_eq_denote (t : View) (e : AExpr R) (dl : Nat) (sl : Int) (rd : List Nat)
    (rs : List Int) (hrd : t.rdims = dl :: rd) (hrs : t.rstrides = sl :: rs) (hdl : 0 < dl) (s : St R) :
    (List.range (prod rd)).foldl (fun s k => (List.range dl).foldl (fun s (j : Nat) =>
        elemStep s (t.sid, t.off + dotR (unflatR rd k) rs + (j : Int) * sl) (e.at (j :: unflatR rd k))) s) s =
      runProg s (denoteAssign t e) := by
  unfold runProg denoteAssign
  rw [hrd, List.foldl_map]
  have : ∀ (s : St R) (k : Nat),
      (List.range dl).foldl (fun s (j : Nat) =>
        elemStep s (t.sid, t.off + dotR (unflatR rd k) rs + (j : Int) * sl) (e.at (j :: unflatR rd k))) s =
      (List.range dl).foldl (fun s j => elemStep s (t.cellAt (j :: unflatR rd k)) (e.at (j :: unflatR rd k))) s := by
    intro s k
    congr 1
    funext s j
    simp only [View.cellAt, hrs, dotR]
    congr 2
    omega
  simp only [this]
  rw [rows_inner_eq_flat (fun s ri => elemStep s (t.cellAt ri) (e.at ri)) dl rd hdl]
  rfl

/-- `assign_expression_<Rank,true,true>` records and stores exactly what the scalar loop over the index order does -/
theorem assignActive_eq (t : View) (e : AExpr R) (dl : Nat) (sl : Int) (rd : List Nat) (rs : List Int)
    (hrd : t.rdims = dl :: rd) (hrs : t.rstrides = sl :: rs) (hlen : rs.length = rd.length)
    (hpos : AllPos (dl :: rd)) (hw : e.WF (rd.length + 1) dl) (s : St R) :
    assignActive t e s = runProg s (denoteAssign t e) := by
  unfold assignActive nRows
  rw [hrd, hrs]
  simp only [List.tail_cons, List.headD_cons]
  rw [rowsLoop_eq _ rd rs hlen hpos.tail]
  have hrow : ∀ (s : St R) (k : Nat),
      assignRow t e s (unflatR rd k) (t.off + dotR (unflatR rd k) rs) = _ :=
    fun s k => assignRow_eq t e (rd.length + 1) dl sl (by omega) (by rw [hrd]; rfl) (by rw [hrs]; rfl) hw s _ _
  simp only [hrow]
  exact rows_elem_eq_denote t e dl sl rd rs hrd hrs hpos.head s

/-- a passive expression pushes no operation -/
theorem at_grad_passive (e : AExpr R) (m : Mem R) (h : e.isActive m.isActive = false) (ri : List Nat) (w : Option R) :
    (e.at ri).grad m w = [] := by
  induction e generalizing w with
  | arr v => simp only [AExpr.isActive] at h; simp [AExpr.at, SExpr.grad, h]
  | idx v rix => simp only [AExpr.isActive] at h; simp [AExpr.at, SExpr.grad, h]
  | const x => rfl
  | add a b iha ihb | sub a b iha ihb | mul a b iha ihb | div a b iha ihb | max a b iha ihb | min a b iha ihb =>
    simp only [AExpr.isActive, Bool.or_eq_false_iff] at h
    simp only [AExpr.at, SExpr.grad, iha h.1, ihb h.2, List.append_nil, ite_self]
  | neg a ih | noalias a ih | abs a ih =>
    simp only [AExpr.isActive] at h
    simp only [AExpr.at, SExpr.grad, ih h]

theorem isActive_store_fun (m : Mem R) (c : Cell) (v : R) : (m.store c v).isActive = m.isActive := by
  funext sid; exact store_isActive m c v sid

/-- `assign_expression_<Rank,true,false>`: pushing the row with `push_lhs_range` and then storing the values is the
    row of scalar statements `T[j] = passive value` (each records a statement without operations) -/
theorem assignPassiveRow_eq (t : View) (e : AExpr R) (rank dl : Nat) (sl : Int) (hr : 0 < rank)
    (hd : t.rdims.headD 0 = dl) (hs : t.rstrides.headD 0 = sl) (hw : e.WF rank dl)
    (s : St R) (ri : List Nat) (index : Int) (g0 : Nat) (hsto : (s.mem.sto? t.sid).map (·.gbase) = some g0)
    (hpass : e.isActive s.mem.isActive = false) :
    assignPassiveRow t e s ri index =
      (List.range dl).foldl (fun s (j : Nat) => elemStep s (t.sid, index + (j : Int) * sl) (e.at (j :: ri))) s ∧
    (assignPassiveRow t e s ri index).mem.isActive = s.mem.isActive ∧
    ((assignPassiveRow t e s ri index).mem.sto? t.sid).map (·.gbase) = some g0 := by
  unfold assignPassiveRow
  rw [hd, hs]
  obtain ⟨y, hq, hy⟩ : ∃ y, s.mem.sto? t.sid = some y ∧ y.gbase = g0 := by
    cases hq : s.mem.sto? t.sid with
    | none => rw [hq] at hsto; simp at hsto
    | some y => rw [hq] at hsto; simp at hsto; exact ⟨y, rfl, hsto⟩
  simp only [hq, hy]
  let G : St R → Nat → St R := fun s j => elemStep s (t.sid, index + (j : Int) * sl) (e.at (j :: ri))
  let tp : Nat → List (Stmt R) := fun n => (List.range n).map (fun (k : Nat) => (⟨((g0 : Int) + index + (k : Int) * sl).toNat, []⟩ : Stmt R))
  have hG : ∀ n, ((List.range n).foldl G s).mem.isActive = s.mem.isActive ∧
      (((List.range n).foldl G s).mem.sto? t.sid).map (·.gbase) = some g0 ∧
      ((List.range n).foldl G s).tape = s.tape ++ tp n := by
    intro n
    induction n with
    | zero => exact ⟨rfl, hsto, by simp [tp]⟩
    | succ n ih =>
      obtain ⟨h1, h2, h3⟩ := ih
      rw [range_succ_foldl]
      refine ⟨?_, ?_, ?_⟩
      · show (Mem.store _ _ _).isActive = _
        rw [isActive_store_fun, h1]
      · show ((Mem.store _ _ _).sto? t.sid).map _ = _
        rw [store_gbase, h2]
      · show _ ++ [_] = _
        rw [h3, at_grad_passive e _ (by rw [h1]; exact hpass)]
        simp only [tp, List.range_succ, List.map_append, List.map_cons, List.map_nil, List.append_assoc]
        congr 3
        unfold Mem.gidx
        cases hq : ((List.range n).foldl G s).mem.sto? t.sid with
        | none => rw [hq] at h2; simp at h2
        | some y =>
          rw [hq] at h2
          simp only [Option.map_some, Option.some.injEq] at h2
          simp only [h2]
          congr 1
          omega
  have key : ∀ n, n ≤ dl →
      let r := (List.range n).foldl (fun (p : St R × List Int × Int) _ =>
          (({ p.1 with mem := p.1.mem.store (t.sid, p.2.2) ((e.atLoc p.2.1).eval p.1.mem) } : St R), e.advLoc p.2.1, p.2.2 + sl))
          (({ s with tape := pushLhsRange s.tape ((g0 : Int) + index) dl sl } : St R), e.setLoc (0 :: ri), index)
      r.1.mem = ((List.range n).foldl G s).mem ∧ r.1.tape = s.tape ++ tp dl ∧
      (n < dl → r.2.1 = e.setLoc (n :: ri)) ∧ r.2.2 = index + (n : Int) * sl := by
    intro n
    induction n with
    | zero =>
      intro _
      refine ⟨rfl, ?_, fun _ => rfl, by simp⟩
      simp only [List.range_zero, List.foldl_nil, pushLhsRange, tp]
    | succ n ih =>
      intro hn
      obtain ⟨h1, h2, h3, h4⟩ := ih (by omega)
      rw [range_succ_foldl, range_succ_foldl]
      refine ⟨?_, ?_, ?_, ?_⟩
      · simp only
        rw [h1, h3 (by omega), h4, atLoc_setLoc e rank dl hr hw]
        rfl
      · simp only; exact h2
      · intro hlt
        simp only
        rw [h3 (by omega)]
        exact advLoc_setLoc e rank dl hr hw n ri hlt
      · simp only
        rw [h4, Int.natCast_add, Int.add_mul]; simp; omega
  obtain ⟨k1, k2, _, _⟩ := key dl (Nat.le_refl _)
  obtain ⟨g1, g2, g3⟩ := hG dl
  refine ⟨?_, ?_, ?_⟩
  · have : ∀ (a b : St R), a.mem = b.mem → a.tape = b.tape → a = b := by
      intro a b h1 h2; cases a; cases b; simp_all
    apply this
    · exact k1
    · rw [k2, g3]
  · rw [k1]; exact g1
  · rw [k1]; exact g2

theorem foldl_inv_congr {α β : Type} (P : α → Prop) (f g : α → β → α) (l : List β) (a : α) (ha : P a)
    (h : ∀ a b, P a → f a b = g a b ∧ P (f a b)) : l.foldl f a = l.foldl g a ∧ P (l.foldl f a) := by
  induction l generalizing a with
  | nil => exact ⟨rfl, ha⟩
  | cons b l ih =>
    simp only [List.foldl_cons]
    obtain ⟨h1, h2⟩ := h a b ha
    rw [← h1]
    exact ih _ h2

/-- `assign_expression_<Rank,true,false>` (passive right-hand side, `push_lhs_range` per row) -/
theorem assignPassive_eq (t : View) (e : AExpr R) (dl : Nat) (sl : Int) (rd : List Nat) (rs : List Int)
    (hrd : t.rdims = dl :: rd) (hrs : t.rstrides = sl :: rs) (hlen : rs.length = rd.length)
    (hpos : AllPos (dl :: rd)) (hw : e.WF (rd.length + 1) dl) (s : St R)
    (g0 : Nat) (hsto : (s.mem.sto? t.sid).map (·.gbase) = some g0) (hpass : e.isActive s.mem.isActive = false) :
    assignPassive t e s = runProg s (denoteAssign t e) := by
  unfold assignPassive nRows
  rw [hrd, hrs]
  simp only [List.tail_cons, List.headD_cons]
  rw [rowsLoop_eq _ rd rs hlen hpos.tail]
  rw [← rows_elem_eq_denote t e dl sl rd rs hrd hrs hpos.head s]
  refine (foldl_inv_congr
    (fun (s' : St R) => s'.mem.isActive = s.mem.isActive ∧ (s'.mem.sto? t.sid).map (·.gbase) = some g0)
    _ _ _ s ⟨rfl, hsto⟩ ?_).1
  intro a k ⟨ha1, ha2⟩
  obtain ⟨r1, r2, r3⟩ := assignPassiveRow_eq t e (rd.length + 1) dl sl (by omega) (by rw [hrd]; rfl) (by rw [hrs]; rfl) hw
    a (unflatR rd k) (t.off + dotR (unflatR rd k) rs) g0 ha2 (by rw [ha1]; exact hpass)
  exact ⟨r1, by rw [r2, ha1], r3⟩

/-- `Array::operator=(const Active&)`: every element gets `d[elem] = 1·d[scalar]` -/
theorem assignScalar_eq (t : View) (c : Cell) (dl : Nat) (sl : Int) (rd : List Nat) (rs : List Int)
    (hrd : t.rdims = dl :: rd) (hrs : t.rstrides = sl :: rs) (hlen : rs.length = rd.length)
    (hpos : AllPos (dl :: rd)) (s : St R) :
    assignScalar t c s = runProg s (denoteAssign t (.arr ⟨c.1, c.2, [], []⟩)) := by
  unfold assignScalar nRows
  rw [hrd, hrs]
  simp only [List.tail_cons, List.headD_cons]
  rw [rowsLoop_eq _ rd rs hlen hpos.tail]
  rw [← rows_elem_eq_denote t _ dl sl rd rs hrd hrs hpos.head s]
  congr 1
  funext s k
  unfold assignScalarRow
  rw [hrd, hrs]
  simp only [List.headD_cons]
  have key : ∀ n,
      (List.range n).foldl (fun (p : St R × Int) _ => (elemStep p.1 (t.sid, p.2) (.cell c), p.2 + sl))
        (s, t.off + dotR (unflatR rd k) rs) =
      ((List.range n).foldl (fun s (j : Nat) => elemStep s (t.sid, t.off + dotR (unflatR rd k) rs + (j : Int) * sl)
          ((AExpr.arr (R := R) ⟨c.1, c.2, [], []⟩).at (j :: unflatR rd k))) s,
        t.off + dotR (unflatR rd k) rs + (n : Int) * sl) := by
    intro n
    induction n with
    | zero => simp
    | succ n ih =>
      rw [range_succ_foldl, range_succ_foldl, ih]
      simp only [AExpr.at, View.rstrides, List.reverse_nil, dotR_nil_right, Int.add_zero]
      congr 1
      rw [Int.natCast_add, Int.add_mul]; simp; omega
  rw [key dl]

/-! ### conditional assignment -/
section Where

def AMask.WF (rank dl : Nat) (k : AMask R) : Prop := k.a.WF rank dl ∧ k.b.WF rank dl

theorem mask_atLoc_setLoc (k : AMask R) (rank dl : Nat) (hr : 0 < rank) (hw : k.WF rank dl) (j : Nat) (r : List Nat) :
    k.atLoc (k.setLoc (j :: r)) = k.at (j :: r) := by
  unfold AMask.atLoc AMask.setLoc AMask.at
  rw [List.take_left' (setLoc_length k.a _), List.drop_left' (setLoc_length k.a _),
    atLoc_setLoc k.a rank dl hr hw.1, atLoc_setLoc k.b rank dl hr hw.2]

theorem mask_advLoc_setLoc (k : AMask R) (rank dl : Nat) (hr : 0 < rank) (hw : k.WF rank dl) (j : Nat) (r : List Nat)
    (hj : j + 1 < dl) : k.advLoc (k.setLoc (j :: r)) = k.setLoc ((j + 1) :: r) := by
  unfold AMask.advLoc AMask.setLoc
  rw [List.take_left' (setLoc_length k.a _), List.drop_left' (setLoc_length k.a _),
    advLoc_setLoc k.a rank dl hr hw.1 j r hj, advLoc_setLoc k.b rank dl hr hw.2 j r hj]

/-- the innermost loop of `assign_conditional_<true>`: whatever `is_gap` was on entry, and however the right-hand
    side's location went stale over masked-out elements, each selected element is assigned ITS element of the
    right-hand side (the `set_location` resynchronisation) -/
theorem whereRow_eq (t : View) (k : AMask R) (e : AExpr R) (rank dl : Nat) (sl : Int) (hr : 0 < rank)
    (hd : t.rdims.headD 0 = dl) (hs : t.rstrides.headD 0 = sl) (hw : e.WF rank dl) (hk : k.WF rank dl)
    (s : St R) (gap : Bool) (ri : List Nat) (index : Int) :
    (whereRow t k e (s, gap) ri index).1 =
      (List.range dl).foldl (fun s (j : Nat) =>
        runS s ⟨some (k.at (j :: ri)), (t.sid, index + (j : Int) * sl), e.at (j :: ri)⟩) s := by
  unfold whereRow
  rw [hd, hs]
  simp only
  have key : ∀ n, n ≤ dl →
      let r := (List.range n).foldl (fun (p : St R × Bool × List Int × List Int × Int) j =>
        if (k.atLoc p.2.2.1).eval p.1.mem then
          (elemStep p.1 (t.sid, p.2.2.2.2) (e.atLoc (if p.2.1 then e.setLoc (j :: ri) else p.2.2.2.1)), false,
            k.advLoc p.2.2.1, e.advLoc (if p.2.1 then e.setLoc (j :: ri) else p.2.2.2.1), p.2.2.2.2 + sl)
        else (p.1, true, k.advLoc p.2.2.1, p.2.2.2.1, p.2.2.2.2 + sl))
        (s, gap, k.setLoc (0 :: ri), e.setLoc (0 :: ri), index)
      r.1 = (List.range n).foldl (fun s (j : Nat) =>
        runS s ⟨some (k.at (j :: ri)), (t.sid, index + (j : Int) * sl), e.at (j :: ri)⟩) s ∧
      (n < dl → r.2.2.1 = k.setLoc (n :: ri)) ∧
      (n < dl → (r.2.1 = false ∨ n = 0) → r.2.2.2.1 = e.setLoc (n :: ri)) ∧
      r.2.2.2.2 = index + (n : Int) * sl := by
    intro n
    induction n with
    | zero => intro _; simp
    | succ n ih =>
      intro hn
      obtain ⟨h1, h2, h3, h4⟩ := ih (by omega)
      have hnl : n < dl := by omega
      rw [range_succ_foldl, range_succ_foldl]
      generalize (List.range n).foldl _ (s, gap, k.setLoc (0 :: ri), e.setLoc (0 :: ri), index) = r at h1 h2 h3 h4 ⊢
      obtain ⟨s', g', lb, lr, ix⟩ := r
      simp only at h1 h2 h3 h4 ⊢
      have hlb := h2 hnl
      subst hlb
      rw [mask_atLoc_setLoc k rank dl hr hk]
      have hlr : (if g' = true then e.setLoc (n :: ri) else lr) = e.setLoc (n :: ri) := by
        cases g' with
        | true => simp
        | false => simp; exact h3 hnl (Or.inl rfl)
      simp only [hlr]
      rw [← h1, runS_some]
      by_cases hm : (k.at (n :: ri)).eval s'.mem = true
      · simp only [hm, if_true]
        refine ⟨?_, ?_, ?_, ?_⟩
        · rw [atLoc_setLoc e rank dl hr hw, h4]
        · intro hlt; exact mask_advLoc_setLoc k rank dl hr hk n ri hlt
        · intro hlt _; exact advLoc_setLoc e rank dl hr hw n ri hlt
        · rw [h4, Int.natCast_add, Int.add_mul]; simp; omega
      · simp only [hm, Bool.false_eq_true, if_false]
        refine ⟨trivial, ?_, ?_, ?_⟩
        · intro hlt; exact mask_advLoc_setLoc k rank dl hr hk n ri hlt
        · intro _ h; cases h with
          | inl h => simp at h
          | inr h => omega
        · rw [h4, Int.natCast_add, Int.add_mul]; simp; omega
  exact (key dl (Nat.le_refl _)).1

theorem foldl_fst {α β γ : Type} (f : α × β → γ → α × β) (g : α → γ → α)
    (h : ∀ a b c, (f (a, b) c).1 = g a c) (l : List γ) (a : α) (b : β) :
    (l.foldl f (a, b)).1 = l.foldl g a := by
  induction l generalizing a b with
  | nil => rfl
  | cons c l ih =>
    simp only [List.foldl_cons]
    have : f (a, b) c = ((f (a, b) c).1, (f (a, b) c).2) := rfl
    rw [this, ih, h]

/-- `T.where(mask) = expr` -/
theorem whereAssign_eq (t : View) (k : AMask R) (e : AExpr R) (dl : Nat) (sl : Int) (rd : List Nat) (rs : List Int)
    (hrd : t.rdims = dl :: rd) (hrs : t.rstrides = sl :: rs) (hlen : rs.length = rd.length)
    (hpos : AllPos (dl :: rd)) (hw : e.WF (rd.length + 1) dl) (hk : k.WF (rd.length + 1) dl) (s : St R) :
    whereAssign t k e s = runProg s (denoteWhere t k e) := by
  unfold whereAssign nRows
  rw [hrd, hrs]
  simp only [List.tail_cons, List.headD_cons]
  rw [rowsLoop_eq _ rd rs hlen hpos.tail]
  rw [foldl_fst _ (fun s kk => (List.range dl).foldl (fun s (j : Nat) =>
        runS s ⟨some (k.at (j :: unflatR rd kk)), (t.sid, t.off + dotR (unflatR rd kk) rs + (j : Int) * sl),
          e.at (j :: unflatR rd kk)⟩) s)
    (fun a b c => whereRow_eq t k e (rd.length + 1) dl sl (by omega) (by rw [hrd]; rfl) (by rw [hrs]; rfl) hw hk a b _ _)]
  unfold runProg denoteWhere
  rw [hrd, List.foldl_map]
  have : ∀ (s : St R) (kk : Nat),
      (List.range dl).foldl (fun s (j : Nat) =>
        runS s ⟨some (k.at (j :: unflatR rd kk)), (t.sid, t.off + dotR (unflatR rd kk) rs + (j : Int) * sl),
          e.at (j :: unflatR rd kk)⟩) s =
      (List.range dl).foldl (fun s j => runS s ⟨some (k.at (j :: unflatR rd kk)), t.cellAt (j :: unflatR rd kk),
          e.at (j :: unflatR rd kk)⟩) s := by
    intro s kk
    congr 1
    funext s j
    simp only [View.cellAt, hrs, dotR]
    congr 3
    omega
  simp only [this]
  rw [rows_inner_eq_flat (fun s ri => runS s ⟨some (k.at ri), t.cellAt ri, e.at ri⟩) dl rd hpos.head]

end Where

/-! ### integer-vector indexed targets -/

/-- innermost loop of `IndexedArray::assign_expression_` -/
theorem idxRow_eq (t : View) (rix : List (List Nat)) (e : AExpr R) (rank : Nat) (ix0 : List Nat) (ixs : List (List Nat))
    (s0 : Int) (ss : List Int) (hr : 0 < rank) (hrix : rix = ix0 :: ixs) (hrs : t.rstrides = s0 :: ss)
    (hw : e.WF rank ix0.length) (s : St R) (ri : List Nat) (index : Int) :
    idxRow t rix e s ri index =
      (List.range ix0.length).foldl (fun s (j : Nat) =>
        elemStep s (t.cellAt (xlate rix (j :: ri))) (e.at (j :: ri))) s := by
  unfold idxRow
  rw [hrix, hrs]
  simp only [List.headD_cons, List.tail_cons]
  have key : ∀ n, n ≤ ix0.length →
      let r := (List.range n).foldl (fun (p : St R × List Int) j =>
          (elemStep p.1 (t.sid, t.off + dotR (xlate ixs ri) ss + s0 * (lookup ix0 j : Int)) (e.atLoc p.2), e.advLoc p.2))
          (s, e.setLoc (0 :: ri))
      r.1 = (List.range n).foldl (fun s (j : Nat) =>
        elemStep s (t.cellAt (xlate (ix0 :: ixs) (j :: ri))) (e.at (j :: ri))) s ∧
      (n < ix0.length → r.2 = e.setLoc (n :: ri)) := by
    intro n
    induction n with
    | zero => intro _; simp
    | succ n ih =>
      intro hn
      obtain ⟨h1, h2⟩ := ih (by omega)
      rw [range_succ_foldl, range_succ_foldl]
      refine ⟨?_, ?_⟩
      · simp only
        rw [h1, h2 (by omega), atLoc_setLoc e rank _ hr hw]
        congr 1
        simp only [View.cellAt, xlate, hrs, dotR]
        congr 1
        rw [Int.mul_comm]
        omega
      · intro hlt
        simp only
        rw [h2 (by omega)]
        exact advLoc_setLoc e rank _ hr hw n ri hlt
  exact (key _ (Nat.le_refl _)).1

theorem dotR_zero_strides (ri : List Nat) (l : List Nat) : dotR ri (l.map (fun _ => (0 : Int))) = 0 := by
  induction ri generalizing l with
  | nil => rfl
  | cons i is ih =>
    cases l with
    | nil => rfl
    | cons d ds => simp only [List.map_cons, dotR, ih ds]; simp

/-- `T(ix…) = expr` -/
theorem idxAssign_eq (t : View) (rix : List (List Nat)) (e : AExpr R) (ix0 : List Nat)
    (ixs : List (List Nat)) (s0 : Int) (ss : List Int) (hrix : rix = ix0 :: ixs) (hrs : t.rstrides = s0 :: ss)
    (hpos : AllPos (rix.map (·.length))) (hw : e.WF rix.length ix0.length) (s : St R) :
    idxAssign t rix e s = runProg s (denoteIdx t rix e) := by
  unfold idxAssign nRows
  have hmap : rix.map (·.length) = ix0.length :: ixs.map (·.length) := by rw [hrix]; rfl
  rw [hmap] at hpos ⊢
  simp only [List.tail_cons, List.headD_cons]
  rw [rowsLoop_eq _ _ _ (by simp) hpos.tail]
  have hrow : ∀ (s : St R) (k : Nat),
      idxRow t rix e s (unflatR (ixs.map (·.length)) k)
        (0 + dotR (unflatR (ixs.map (·.length)) k) ((ixs.map (·.length)).map (fun _ => (0 : Int)))) = _ :=
    fun s k => idxRow_eq t rix e rix.length ix0 ixs s0 ss (by rw [hrix]; simp) hrix hrs hw s _ _
  simp only [hrow]
  unfold runProg denoteIdx
  rw [hmap, List.foldl_map]
  rw [rows_inner_eq_flat (fun s ri => elemStep s (t.cellAt (xlate rix ri)) (e.at ri)) ix0.length _ hpos.head]
  rfl

/-- `diag_vector(expr, k)`: every element is positioned by its own `set_location`, so the loop is the scalar
    statements `v[j] = expr[i(j)]` in order -/
theorem diagVector_eq (e : AExpr R) (d0 d1 : Nat) (k : Int) (res : View) (dl : Nat) (hw : e.WF 2 dl) (s : St R) :
    diagVector e d0 d1 k res s = runProg s (denoteDiag e d0 d1 k res) := by
  unfold diagVector runProg denoteDiag
  rw [List.foldl_map]
  congr 1
  funext s j
  have hix : ∃ a r, diagIx k j = a :: r := by
    unfold diagIx; split <;> exact ⟨_, _, rfl⟩
  obtain ⟨a, r, h⟩ := hix
  rw [h, atLoc_setLoc e 2 dl (by decide) hw]
  rfl

end Loops

theorem dotR_append (a b : List Nat) (u w : List Int) (h : a.length = u.length) :
    dotR (a ++ b) (u ++ w) = dotR a u + dotR b w := by
  induction a generalizing u with
  | nil =>
    cases u with
    | nil => simp [dotR]
    | cons _ _ => simp at h
  | cons x a ih =>
    cases u with
    | nil => simp at h
    | cons y u =>
      simp only [List.cons_append, dotR]
      rw [ih u (by simpa using h)]
      omega

/-! ### the odometer of `reduce_dimension` visits the strips in index order of the result -/

theorem unflatR_length (rd : List Nat) (p : Nat) : (unflatR rd p).length = rd.length := by
  induction rd generalizing p with
  | nil => rfl
  | cons d ds ih => simp [unflatR, ih]

theorem advBoth_unflat (ds : List Nat) (hp : AllPos ds) (p : Nat) (hlt : p < prod ds) :
    advBoth ds (unflatR ds p) (unflatR ds p) =
      if p + 1 < prod ds then (unflatR ds (p + 1), unflatR ds (p + 1), false)
      else (zeros ds.length, zeros ds.length, true) := by
  induction ds generalizing p with
  | nil =>
    simp [prod] at hlt
    subst hlt
    simp [advBoth, unflatR, prod, zeros]
  | cons d ds ih =>
    have hd : 0 < d := hp.head
    have hps : 0 < prod ds := prod_pos hp.tail
    have hprod : prod (d :: ds) = d * prod ds := rfl
    rw [hprod] at hlt
    have hml := Nat.mod_lt p hd
    simp only [unflatR, advBoth]
    have hq : p / d < prod ds := by
      rw [Nat.div_lt_iff_lt_mul hd, Nat.mul_comm]; exact hlt
    by_cases hw : p % d + 1 ≥ d
    · rw [if_pos hw]
      obtain ⟨e1, e2⟩ := succ_mod_wrap hd hw
      rw [ih hp.tail (p / d) hq]
      have hpd := Nat.div_add_mod p d
      by_cases hn : p / d + 1 < prod ds
      · have : p + 1 < d * prod ds := by
          have h5 : d * (p / d + 2) ≤ d * prod ds := Nat.mul_le_mul_left d (by omega)
          rw [Nat.mul_add] at h5
          omega
        rw [if_pos hn, if_pos (by rw [hprod]; exact this), e1, e2]
      · have h3 : p / d + 1 = prod ds := by omega
        have : ¬ (p + 1 < d * prod ds) := by
          rw [← h3, Nat.mul_add, Nat.mul_one]; omega
        rw [if_neg hn, if_neg (by rw [hprod]; exact this)]
        simp [zeros, List.replicate_succ]
    · rw [if_neg hw]
      have hw' : p % d + 1 < d := by omega
      obtain ⟨e1, e2⟩ := succ_mod_lt hd hw'
      have : p + 1 < d * prod ds := by
        have hpd := Nat.div_add_mod p d
        have h5 : d * (p / d + 1) ≤ d * prod ds := Nat.mul_le_mul_left d (by omega)
        rw [Nat.mul_add, Nat.mul_one] at h5
        omega
      rw [if_pos (by rw [hprod]; exact this), e1, e2]

theorem insertAt_zero (rj : List Nat) (i : Nat) : insertAt rj 0 i = i :: rj := by simp [insertAt]

theorem insertAt_succ (x : Nat) (rj : List Nat) (k i : Nat) : insertAt (x :: rj) (k + 1) i = x :: insertAt rj k i := by
  simp [insertAt]

/-- the removed-dimension extents: `rd` without position `k` -/
def dropAt (rd : List Nat) (k : Nat) : List Nat := rd.take k ++ rd.drop (k + 1)

theorem dropAt_zero (d : Nat) (ds : List Nat) : dropAt (d :: ds) 0 = ds := by simp [dropAt]
theorem dropAt_succ (d : Nat) (ds : List Nat) (k : Nat) : dropAt (d :: ds) (k + 1) = d :: dropAt ds k := by simp [dropAt]

theorem dropAt_length (rd : List Nat) (k : Nat) (hk : k < rd.length) : (dropAt rd k).length = rd.length - 1 := by
  simp [dropAt]; omega

theorem AllPos.dropAt {rd : List Nat} (h : AllPos rd) (k : Nat) : AllPos (dropAt rd k) := by
  intro d hd
  simp only [Adept.ArrayAD.dropAt, List.mem_append] at hd
  cases hd with
  | inl hd => exact h d (List.mem_of_mem_take hd)
  | inr hd => exact h d (List.mem_of_mem_drop hd)

theorem advStrip_unflat (rd : List Nat) (k : Nat) (hp : AllPos rd) (hk : k < rd.length) (p : Nat)
    (hlt : p < prod (dropAt rd k)) :
    advStrip rd k (insertAt (unflatR (dropAt rd k) p) k 0) (unflatR (dropAt rd k) p) =
      if p + 1 < prod (dropAt rd k) then
        (insertAt (unflatR (dropAt rd k) (p + 1)) k 0, unflatR (dropAt rd k) (p + 1), false)
      else (insertAt (zeros (dropAt rd k).length) k 0, zeros (dropAt rd k).length, true) := by
  induction k generalizing rd p with
  | zero =>
    cases rd with
    | nil => simp at hk
    | cons d ds =>
      rw [dropAt_zero] at hlt ⊢
      simp only [insertAt_zero, advStrip]
      rw [advBoth_unflat ds hp.tail p hlt]
      split <;> rfl
  | succ k ih =>
    cases rd with
    | nil => simp at hk
    | cons d ds =>
      have hk' : k < ds.length := by simpa using hk
      have hd : 0 < d := hp.head
      rw [dropAt_succ] at hlt ⊢
      have hps : 0 < prod (dropAt ds k) := prod_pos (hp.tail.dropAt k)
      have hprod : prod (d :: dropAt ds k) = d * prod (dropAt ds k) := rfl
      rw [hprod] at hlt
      have hml := Nat.mod_lt p hd
      simp only [unflatR, insertAt_succ, advStrip]
      have hq : p / d < prod (dropAt ds k) := by
        rw [Nat.div_lt_iff_lt_mul hd, Nat.mul_comm]; exact hlt
      by_cases hw : p % d + 1 ≥ d
      · rw [if_pos hw]
        obtain ⟨e1, e2⟩ := succ_mod_wrap hd hw
        rw [ih ds hp.tail hk' (p / d) hq]
        have hpd := Nat.div_add_mod p d
        by_cases hn : p / d + 1 < prod (dropAt ds k)
        · have : p + 1 < d * prod (dropAt ds k) := by
            have h5 : d * (p / d + 2) ≤ d * prod (dropAt ds k) := Nat.mul_le_mul_left d (by omega)
            rw [Nat.mul_add] at h5
            omega
          rw [if_pos hn, if_pos (by rw [hprod]; exact this), e1, e2]
        · have h3 : p / d + 1 = prod (dropAt ds k) := by omega
          have : ¬ (p + 1 < d * prod (dropAt ds k)) := by
            rw [← h3, Nat.mul_add, Nat.mul_one]; omega
          rw [if_neg hn, if_neg (by rw [hprod]; exact this)]
          simp [zeros, List.replicate_succ, insertAt_succ]
      · rw [if_neg hw]
        have hw' : p % d + 1 < d := by omega
        obtain ⟨e1, e2⟩ := succ_mod_lt hd hw'
        have : p + 1 < d * prod (dropAt ds k) := by
          have hpd := Nat.div_add_mod p d
          have h5 : d * (p / d + 1) ≤ d * prod (dropAt ds k) := Nat.mul_le_mul_left d (by omega)
          rw [Nat.mul_add, Nat.mul_one] at h5
          omega
        rw [if_pos (by rw [hprod]; exact this), e1, e2]

theorem insertAt_set (rj : List Nat) (k x : Nat) (hk : k ≤ rj.length) : (insertAt rj k 0).set k x = insertAt rj k x := by
  induction k generalizing rj with
  | zero => simp [insertAt_zero]
  | succ k ih =>
    cases rj with
    | nil => simp at hk
    | cons y r =>
      rw [insertAt_succ, insertAt_succ, List.set_cons_succ, ih r (by simpa using hk)]

theorem zeros_insertAt (n k : Nat) (hk : k ≤ n) : insertAt (zeros n) k 0 = zeros (n + 1) := by
  induction k generalizing n with
  | zero => simp [insertAt_zero, zeros, List.replicate_succ]
  | succ k ih =>
    cases n with
    | zero => omega
    | succ n =>
      have : zeros (n + 1) = 0 :: zeros n := by simp [zeros, List.replicate_succ]
      rw [this, insertAt_succ, ih n (by omega)]
      simp [zeros, List.replicate_succ]

/-! ### targets -/

/-- a target array or view: at least one dimension, one stride per dimension, no empty dimension -/
structure TargetOK (t : View) : Prop where
  rank : t.dims ≠ []
  lens : t.strides.length = t.dims.length
  pos : ∀ d ∈ t.dims, 0 < d

theorem TargetOK.split {t : View} (h : TargetOK t) :
    ∃ dl rd sl rs, t.rdims = dl :: rd ∧ t.rstrides = sl :: rs ∧ rs.length = rd.length ∧ AllPos (dl :: rd) ∧
      rd.length + 1 = t.dims.length ∧ t.rdims.headD 0 = dl := by
  have hl : t.rdims.length = t.dims.length := by simp [View.rdims]
  have hs : t.rstrides.length = t.dims.length := by simp [View.rstrides, h.lens]
  have hne : t.dims.length ≠ 0 := fun h0 => h.rank (List.length_eq_zero_iff.mp h0)
  cases hrd : t.rdims with
  | nil => rw [hrd] at hl; simp at hl; omega
  | cons dl rd =>
    cases hrs : t.rstrides with
    | nil => rw [hrs] at hs; simp at hs; omega
    | cons sl rs =>
      refine ⟨dl, rd, sl, rs, rfl, rfl, ?_, ?_, ?_, rfl⟩
      · rw [hrd] at hl; rw [hrs] at hs; simp at hl hs; omega
      · intro d hd
        have : d ∈ t.rdims := by rw [hrd]; exact hd
        exact h.pos d (by simpa [View.rdims] using this)
      · rw [hrd] at hl; simpa using hl

section TempView
variable {R : Type}

theorem tempView_dims (sid : Nat) (dims : List Nat) (W : Nat) : (tempView sid dims W).1.dims = dims := by
  unfold tempView
  cases h : dims.reverse with
  | nil => simp only; exact (List.reverse_eq_nil_iff.mp h).symm
  | cons dl rest => rfl

theorem tempView_strides_length (sid : Nat) (dims : List Nat) (W : Nat) :
    (tempView sid dims W).1.strides.length = dims.length := by
  have key : ∀ (rest : List Nat) (l : List Int) (x : Int),
      (rest.foldl (fun (acc : List Int × Int) (d : Nat) => (acc.1 ++ [acc.2], acc.2 * (d : Int))) (l, x)).1.length =
        l.length + rest.length := by
    intro rest
    induction rest with
    | nil => intro l x; simp
    | cons d rest ih => intro l x; rw [List.foldl_cons, ih]; simp; omega
  unfold tempView
  cases h : dims.reverse with
  | nil => simp only; rw [List.reverse_eq_nil_iff.mp h]; rfl
  | cons dl rest =>
    simp only [List.length_reverse, key]
    have : dims.length = (dl :: rest).length := by rw [← h, List.length_reverse]
    rw [this]; simp; omega

end TempView

end Adept.ArrayAD
