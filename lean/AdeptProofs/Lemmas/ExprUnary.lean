import AdeptProofs.Lemmas.ExprReal
/-!
C01-T0: every entry of the GENERATED unary table (AdeptModel/Generated/UnaryTable.lean) is sound: on the open
domain of the function, `dexpr x (fn x)` is the derivative of `fn` at `x`.  One lemma per entry, then the table.
-/
namespace Adept.Expr
open Adept Real Filter Topology

/-- open domain of each table entry (where the function is differentiable) -/
def _root_.Adept.UFun.dom : UFun → ℝ → Prop
  | .Log | .Log10 | .Log2 | .Sqrt => fun x => 0 < x
  | .Asin | .Acos | .Atanh => fun x => -1 < x ∧ x < 1
  | .Acosh => fun x => 1 < x
  | .Tan => fun x => Real.cos x ≠ 0
  | .Abs | .Fabs | .Cbrt | .Not => fun x => x ≠ 0
  | .Ceil | .Floor | .Trunc => fun x => ∀ n : ℤ, x ≠ n
  | .Round | .Rint | .Nearbyint => fun x => ∀ n : ℤ, x ≠ n + 1 / 2
  | .Log1p => fun x => -1 < x
  | _ => fun _ => True

/-- the statement of soundness for one entry -/
def _root_.Adept.UFun.Sound (f : UFun) : Prop :=
  ∀ x : ℝ, UFun.dom f x → HasDerivAt (UFun.fn f) (UFun.dexpr f x (UFun.fn f x)) x

theorem ok_Log : UFun.Sound .Log := fun x hx =>
  (Real.hasDerivAt_log (ne_of_gt hx)).congr_deriv (by simp [UFun.dexpr])

theorem ok_Log10 : UFun.Sound .Log10 := fun x hx => by
  have h : HasDerivAt (fun x => Real.log x / Real.log 10) _ x := (Real.hasDerivAt_log (ne_of_gt hx)).div_const _
  exact h.congr_deriv (by simp [UFun.dexpr, realKConst]; field_simp)

theorem ok_Log2 : UFun.Sound .Log2 := fun x hx => by
  have h : HasDerivAt (fun x => Real.log x / Real.log 2) _ x := (Real.hasDerivAt_log (ne_of_gt hx)).div_const _
  exact h.congr_deriv (by simp [UFun.dexpr, realKConst]; field_simp)

theorem ok_Sin : UFun.Sound .Sin := fun x _ =>
  (Real.hasDerivAt_sin x).congr_deriv (by simp [UFun.dexpr, realCfun])

theorem ok_Cos : UFun.Sound .Cos := fun x _ =>
  (Real.hasDerivAt_cos x).congr_deriv (by simp [UFun.dexpr, realCfun])

theorem ok_Tan : UFun.Sound .Tan := fun x hx =>
  (Real.hasDerivAt_tan hx).congr_deriv (by simp [UFun.dexpr, realCfun]; ring)

theorem ok_Asin : UFun.Sound .Asin := fun x hx =>
  (Real.hasDerivAt_arcsin (ne_of_gt hx.1) (ne_of_lt hx.2)).congr_deriv (by simp [UFun.dexpr, realCfun]; ring_nf)

theorem ok_Acos : UFun.Sound .Acos := fun x hx =>
  (Real.hasDerivAt_arccos (ne_of_gt hx.1) (ne_of_lt hx.2)).congr_deriv (by simp [UFun.dexpr, realCfun]; ring_nf)

theorem ok_Atan : UFun.Sound .Atan := fun x _ =>
  (Real.hasDerivAt_arctan x).congr_deriv (by simp [UFun.dexpr]; ring_nf)

theorem ok_Sinh : UFun.Sound .Sinh := fun x _ =>
  (Real.hasDerivAt_sinh x).congr_deriv (by simp [UFun.dexpr, realCfun])

theorem ok_Cosh : UFun.Sound .Cosh := fun x _ =>
  (Real.hasDerivAt_cosh x).congr_deriv (by simp [UFun.dexpr, realCfun])

theorem ok_Exp : UFun.Sound .Exp := fun x _ =>
  (Real.hasDerivAt_exp x).congr_deriv (by simp [UFun.dexpr, UFun.fn, UFun.cfun, realCfun])

theorem ok_Fastexp : UFun.Sound .Fastexp := fun x _ =>
  (Real.hasDerivAt_exp x).congr_deriv (by simp [UFun.dexpr, UFun.fn, UFun.cfun, realCfun])

theorem ok_Sqrt : UFun.Sound .Sqrt := fun x hx =>
  (Real.hasDerivAt_sqrt (ne_of_gt hx)).congr_deriv (by simp [UFun.dexpr, UFun.fn, UFun.cfun, realCfun]; ring)

theorem ok_Tanh : UFun.Sound .Tanh := fun x _ => by
  have hc : Real.cosh x ≠ 0 := (Real.cosh_pos x).ne'
  have h : HasDerivAt (fun x => Real.sinh x / Real.cosh x) _ x :=
    (Real.hasDerivAt_sinh x).div (Real.hasDerivAt_cosh x) hc
  have e : (UFun.fn .Tanh : ℝ → ℝ) = fun x => Real.sinh x / Real.cosh x := by
    funext y; simp [UFun.fn, UFun.cfun, realCfun, Real.tanh_eq_sinh_div_cosh]
  rw [e]; refine h.congr_deriv ?_
  simp only [UFun.dexpr, lit_real]; field_simp

theorem ok_Abs : UFun.Sound .Abs := fun x hx => by
  rcases lt_or_gt_of_ne hx with h | h
  · exact (hasDerivAt_abs_neg h).congr_deriv (by simp [UFun.dexpr, Num.b2i, h, not_lt.mpr h.le])
  · exact (hasDerivAt_abs_pos h).congr_deriv (by simp [UFun.dexpr, Num.b2i, h, not_lt.mpr h.le])

theorem ok_Fabs : UFun.Sound .Fabs := fun x hx => by
  rcases lt_or_gt_of_ne hx with h | h
  · exact (hasDerivAt_abs_neg h).congr_deriv (by simp [UFun.dexpr, Num.b2i, h, not_lt.mpr h.le])
  · exact (hasDerivAt_abs_pos h).congr_deriv (by simp [UFun.dexpr, Num.b2i, h, not_lt.mpr h.le])

theorem ok_Expm1 : UFun.Sound .Expm1 := fun x _ => by
  have h : HasDerivAt (fun x => Real.exp x - 1) _ x := (Real.hasDerivAt_exp x).sub_const 1
  exact h.congr_deriv (by simp [UFun.dexpr, realCfun])

theorem ok_Exp2 : UFun.Sound .Exp2 := fun x _ => by
  have h : HasDerivAt (fun x : ℝ => (2:ℝ) ^ x) _ x := (Real.hasStrictDerivAt_const_rpow (by norm_num) x).hasDerivAt
  exact h.congr_deriv (by simp [UFun.dexpr, UFun.fn, UFun.cfun, realCfun, realKConst]; ring)

theorem ok_Log1p : UFun.Sound .Log1p := fun x hx => by
  have h1 : HasDerivAt (fun x : ℝ => 1 + x) 1 x := by simpa using (hasDerivAt_id x).const_add 1
  have hx' : -1 < x := hx
  have h : HasDerivAt (fun x => Real.log (1 + x)) _ x := h1.log (by intro h0; linarith)
  exact h.congr_deriv (by simp [UFun.dexpr])

theorem ok_Asinh : UFun.Sound .Asinh := fun x _ =>
  (Real.hasDerivAt_arsinh x).congr_deriv (by simp [UFun.dexpr, realCfun]; ring_nf)

theorem ok_Acosh : UFun.Sound .Acosh := fun x hx =>
  (Real.hasDerivAt_arcosh hx).congr_deriv (by simp [UFun.dexpr, realCfun]; ring_nf)

theorem ok_Erf : UFun.Sound .Erf := fun x _ =>
  (erfR_hasDerivAt x).congr_deriv (by simp [UFun.dexpr, realCfun, realKConst])

theorem ok_Erfc : UFun.Sound .Erfc := fun x _ => by
  have h : HasDerivAt (fun x => 1 - erfR x) _ x := (erfR_hasDerivAt x).const_sub 1
  exact h.congr_deriv (by simp [UFun.dexpr, realCfun, realKConst])

theorem ok_UnaryPlus : UFun.Sound .UnaryPlus := fun x _ =>
  (hasDerivAt_id x).congr_deriv (by simp [UFun.dexpr])

theorem ok_UnaryMinus : UFun.Sound .UnaryMinus := fun x _ =>
  (hasDerivAt_neg x).congr_deriv (by simp [UFun.dexpr])

theorem ok_Atanh : UFun.Sound .Atanh := fun x hx => by
  have hx1 : -1 < x := hx.1
  have hx2 : x < 1 := hx.2
  have hnum : HasDerivAt (fun x : ℝ => 1 + x) 1 x := by simpa using (hasDerivAt_id x).const_add 1
  have hden : HasDerivAt (fun x : ℝ => 1 - x) (-1) x := by simpa using (hasDerivAt_id x).const_sub 1
  have hq : HasDerivAt (fun x : ℝ => (1 + x) / (1 - x)) _ x := hnum.div hden (by linarith)
  have hpos : 0 < (1 + x) / (1 - x) := div_pos (by linarith) (by linarith)
  have hl : HasDerivAt (fun x : ℝ => 1 / 2 * Real.log ((1 + x) / (1 - x))) _ x := (hq.log hpos.ne').const_mul (1 / 2)
  have hev : (UFun.fn .Atanh : ℝ → ℝ) =ᶠ[𝓝 x] fun x => 1 / 2 * Real.log ((1 + x) / (1 - x)) := by
    have hmem : Set.Ioo (-1 : ℝ) 1 ∈ 𝓝 x := Ioo_mem_nhds hx1 hx2
    filter_upwards [hmem] with y hy
    simp only [UFun.fn, UFun.cfun, cfun_real, realCfun]
    exact Real.artanh_eq_half_log ⟨hy.1.le, hy.2.le⟩
  refine (hl.congr_of_eventuallyEq hev).congr_deriv ?_
  simp only [UFun.dexpr, lit_real]
  have h1 : (1 - x) ≠ 0 := by linarith
  have h2 : (1 + x) ≠ 0 := by linarith
  have h3 : (1 - x * x) ≠ 0 := by nlinarith
  have h4 : (1 - x ^ 2) ≠ 0 := by nlinarith
  have h5 : (1 - x * x) = (1 - x) * (1 + x) := by ring
  norm_num
  rw [h5]
  field_simp
  ring

theorem ok_Not : UFun.Sound .Not := fun x hx => by
  have hx' : x ≠ 0 := hx
  have hev : (UFun.fn .Not : ℝ → ℝ) =ᶠ[𝓝 x] fun _ => 0 := by
    filter_upwards [isOpen_ne.mem_nhds hx'] with y hy
    simp [UFun.fn, UFun.cfun, realCfun, hy]
  exact ((hasDerivAt_const x (0:ℝ)).congr_of_eventuallyEq hev).congr_deriv (by simp [UFun.dexpr])

/-- a function constant on an open interval around `x` has derivative 0 at `x` -/
theorem stair_hasDerivAt (f : ℝ → ℝ) (x a b : ℝ) (ha : a < x) (hb : x < b)
    (hc : ∀ y, a < y → y < b → f y = f x) : HasDerivAt f 0 x := by
  have hev : f =ᶠ[𝓝 x] fun _ => f x := by
    filter_upwards [Ioo_mem_nhds ha hb] with y hy using hc y hy.1 hy.2
  exact (hasDerivAt_const x (f x)).congr_of_eventuallyEq hev

theorem floor_lt_of_not_int (x : ℝ) (h : ∀ n : ℤ, x ≠ n) : (⌊x⌋ : ℝ) < x :=
  lt_of_le_of_ne (Int.floor_le x) (fun e => h ⌊x⌋ e.symm)

theorem lt_ceil_of_not_int (x : ℝ) (h : ∀ n : ℤ, x ≠ n) : x < (⌈x⌉ : ℝ) :=
  lt_of_le_of_ne (Int.le_ceil x) (fun e => h ⌈x⌉ e)

theorem ok_Floor : UFun.Sound .Floor := fun x hx => by
  have hx' : ∀ n : ℤ, x ≠ n := hx
  have h := stair_hasDerivAt (fun y => (⌊y⌋ : ℝ)) x ⌊x⌋ (⌊x⌋ + 1) (floor_lt_of_not_int x hx') (Int.lt_floor_add_one x)
    (fun y h1 h2 => by
      have : ⌊y⌋ = ⌊x⌋ := Int.floor_eq_iff.mpr ⟨h1.le, h2⟩
      simp [this])
  exact h.congr_deriv (by simp [UFun.dexpr])

theorem ok_Ceil : UFun.Sound .Ceil := fun x hx => by
  have hx' : ∀ n : ℤ, x ≠ n := hx
  have h := stair_hasDerivAt (fun y => (⌈y⌉ : ℝ)) x (⌈x⌉ - 1) ⌈x⌉ (by linarith [Int.ceil_lt_add_one x]) (lt_ceil_of_not_int x hx')
    (fun y h1 h2 => by
      have : ⌈y⌉ = ⌈x⌉ := Int.ceil_eq_iff.mpr ⟨h1, h2.le⟩
      simp [this])
  exact h.congr_deriv (by simp [UFun.dexpr])

theorem ok_Trunc : UFun.Sound .Trunc := fun x hx => by
  have hx' : ∀ n : ℤ, x ≠ n := hx
  have h : HasDerivAt truncR 0 x := by
    by_cases h0 : 0 ≤ x
    · have hf : (0:ℝ) ≤ (⌊x⌋ : ℝ) := by exact_mod_cast Int.floor_nonneg.mpr h0
      refine stair_hasDerivAt truncR x ⌊x⌋ (⌊x⌋ + 1) (floor_lt_of_not_int x hx') (Int.lt_floor_add_one x) ?_
      intro y h1 h2
      have hy : 0 ≤ y := by linarith
      have : ⌊y⌋ = ⌊x⌋ := Int.floor_eq_iff.mpr ⟨h1.le, h2⟩
      simp [truncR, hy, h0, this]
    · have hc : ((⌈x⌉ : ℤ) : ℝ) ≤ 0 := by exact_mod_cast Int.ceil_le.mpr (by push_cast; linarith)
      refine stair_hasDerivAt truncR x (⌈x⌉ - 1) ⌈x⌉ (by linarith [Int.ceil_lt_add_one x]) (lt_ceil_of_not_int x hx') ?_
      intro y h1 h2
      have hy : ¬ 0 ≤ y := by linarith
      have : ⌈y⌉ = ⌈x⌉ := Int.ceil_eq_iff.mpr ⟨h1, h2.le⟩
      simp [truncR, hy, h0, this]
  exact h.congr_deriv (by simp [UFun.dexpr])

/-- inside `(n - 1/2, n + 1/2)` there is no half-integer -/
theorem nontie_of_mem (n : ℤ) (y : ℝ) (h1 : (n : ℝ) - 1 / 2 < y) (h2 : y < (n : ℝ) + 1 / 2) :
    ∀ k : ℤ, y ≠ k + 1 / 2 := by
  intro k hk
  rw [hk] at h1 h2
  have a : (n : ℝ) - 1 < k := by linarith
  have b : (k : ℝ) < n := by linarith
  have a' : n - 1 < k := by exact_mod_cast a
  have b' : k < n := by exact_mod_cast b
  omega

/-- a function that is `⌊y + 1/2⌋` away from the half-integers has derivative 0 away from them -/
theorem halfstair_hasDerivAt (f : ℝ → ℝ) (hf : ∀ y : ℝ, (∀ k : ℤ, y ≠ k + 1 / 2) → f y = (⌊y + 1 / 2⌋ : ℝ))
    (x : ℝ) (hx : ∀ k : ℤ, x ≠ k + 1 / 2) : HasDerivAt f 0 x := by
  set n := ⌊x + 1 / 2⌋ with hn
  have h1 : (n : ℝ) ≤ x + 1 / 2 := Int.floor_le _
  have h2 : x + 1 / 2 < (n : ℝ) + 1 := Int.lt_floor_add_one _
  have h1' : (n : ℝ) < x + 1 / 2 := lt_of_le_of_ne h1 (fun e => hx (n - 1) (by push_cast; linarith))
  refine stair_hasDerivAt f x (n - 1 / 2) (n + 1 / 2) (by linarith) (by linarith) ?_
  intro y hy1 hy2
  rw [hf y (nontie_of_mem n y hy1 hy2), hf x hx]
  have : ⌊y + 1 / 2⌋ = n := Int.floor_eq_iff.mpr ⟨by linarith, by linarith⟩
  rw [this]

theorem roundR_eq (y : ℝ) (hy : ∀ k : ℤ, y ≠ k + 1 / 2) : roundR y = (⌊y + 1 / 2⌋ : ℝ) := by
  unfold roundR
  split_ifs with h0
  · rfl
  · set n := ⌊y + 1 / 2⌋ with hn
    have h1 : (n : ℝ) ≤ y + 1 / 2 := Int.floor_le _
    have h2 : y + 1 / 2 < (n : ℝ) + 1 := Int.lt_floor_add_one _
    have h1' : (n : ℝ) < y + 1 / 2 := lt_of_le_of_ne h1 (fun e => hy (n - 1) (by push_cast; linarith))
    have : ⌈y - 1 / 2⌉ = n := Int.ceil_eq_iff.mpr ⟨by linarith, by linarith⟩
    rw [this]

theorem rintR_eq (y : ℝ) (hy : ∀ k : ℤ, y ≠ k + 1 / 2) : rintR y = (⌊y + 1 / 2⌋ : ℝ) := by
  unfold rintR
  have : Int.fract y ≠ 1 / 2 := by
    intro hf
    have := Int.floor_add_fract y
    exact hy ⌊y⌋ (by linarith)
  rw [if_neg this]

theorem ok_Round : UFun.Sound .Round := fun x hx =>
  (halfstair_hasDerivAt roundR roundR_eq x hx).congr_deriv (by simp [UFun.dexpr])

theorem ok_Rint : UFun.Sound .Rint := fun x hx =>
  (halfstair_hasDerivAt rintR rintR_eq x hx).congr_deriv (by simp [UFun.dexpr])

theorem ok_Nearbyint : UFun.Sound .Nearbyint := fun x hx =>
  (halfstair_hasDerivAt rintR rintR_eq x hx).congr_deriv (by simp [UFun.dexpr])

theorem cbrt_algebra (u : ℝ) (hu : 0 < u) :
    (1:ℝ) / 3 * u ^ ((1:ℝ) / 3 - 1) = (1 / 3) / (u ^ ((1:ℝ) / 3) * u ^ ((1:ℝ) / 3)) := by
  have e1 : u ^ ((1:ℝ) / 3) * u ^ ((1:ℝ) / 3) = u ^ ((2:ℝ) / 3) := by
    rw [← Real.rpow_add hu]; norm_num
  have e2 : u ^ ((1:ℝ) / 3 - 1) = (u ^ ((2:ℝ) / 3))⁻¹ := by
    rw [← Real.rpow_neg hu.le]; norm_num
  rw [e1, e2]; ring

theorem ok_Cbrt : UFun.Sound .Cbrt := fun x hx => by
  have hx' : x ≠ 0 := hx
  rcases lt_or_gt_of_ne hx' with hneg | hpos
  · -- x < 0: cbrt y = -((-y)^(1/3)) near x
    have hu : 0 < -x := by linarith
    have h1 : HasDerivAt (fun y : ℝ => (-y) ^ ((1:ℝ) / 3)) _ x :=
      (hasDerivAt_neg x).rpow_const (Or.inl hu.ne')
    have h2 : HasDerivAt (fun y : ℝ => -((-y) ^ ((1:ℝ) / 3))) _ x := h1.neg
    have hev : (UFun.fn .Cbrt : ℝ → ℝ) =ᶠ[𝓝 x] fun y => -((-y) ^ ((1:ℝ) / 3)) := by
      filter_upwards [Iio_mem_nhds hneg] with y hy
      have : ¬ (0 ≤ y) := not_le.mpr hy
      simp [UFun.fn, UFun.cfun, realCfun, cbrtR, this]
    refine (h2.congr_of_eventuallyEq hev).congr_deriv ?_
    have hnx : ¬ (0 ≤ x) := not_le.mpr hneg
    simp only [UFun.dexpr, UFun.fn, UFun.cfun, cfun_real, realCfun, cbrtR, lit_real, if_neg hnx]
    have := cbrt_algebra (-x) hu
    norm_num at this ⊢
    linarith
  · have h1 : HasDerivAt (fun y : ℝ => y ^ ((1:ℝ) / 3)) _ x := Real.hasDerivAt_rpow_const (Or.inl hpos.ne')
    have hev : (UFun.fn .Cbrt : ℝ → ℝ) =ᶠ[𝓝 x] fun y => y ^ ((1:ℝ) / 3) := by
      filter_upwards [Ioi_mem_nhds hpos] with y hy
      have : 0 ≤ y := le_of_lt hy
      simp [UFun.fn, UFun.cfun, realCfun, cbrtR, this]
    refine (h1.congr_of_eventuallyEq hev).congr_deriv ?_
    simp only [UFun.dexpr, UFun.fn, UFun.cfun, cfun_real, realCfun, cbrtR, lit_real, if_pos hpos.le]
    have := cbrt_algebra x hpos
    norm_num at this ⊢
    linarith

/-- **T0**: every entry of the generated unary table is sound on its open domain. -/
theorem unary_table_sound (f : UFun) : UFun.Sound f := by
  cases f <;> first
    | exact ok_Log
    | exact ok_Log10
    | exact ok_Sin
    | exact ok_Cos
    | exact ok_Tan
    | exact ok_Asin
    | exact ok_Acos
    | exact ok_Atan
    | exact ok_Sinh
    | exact ok_Cosh
    | exact ok_Abs
    | exact ok_Fabs
    | exact ok_Sqrt
    | exact ok_Tanh
    | exact ok_Fastexp
    | exact ok_Exp
    | exact ok_Ceil
    | exact ok_Floor
    | exact ok_Log2
    | exact ok_Expm1
    | exact ok_Exp2
    | exact ok_Log1p
    | exact ok_Asinh
    | exact ok_Acosh
    | exact ok_Atanh
    | exact ok_Erf
    | exact ok_Erfc
    | exact ok_Cbrt
    | exact ok_Round
    | exact ok_Trunc
    | exact ok_Rint
    | exact ok_Nearbyint
    | exact ok_UnaryPlus
    | exact ok_UnaryMinus
    | exact ok_Not

end Adept.Expr
