import AdeptModel.GradAlloc
/-! Specification vocabulary for the allocator invariant (C08). Core Lean only. -/
namespace Adept.GradAlloc

/-- gaps sorted, non-empty, separated by at least one live slot, all strictly below `top - 1`
    (`lb` is the smallest admissible start of the first gap) -/
def GapsOK : Nat → List Gap → Nat → Prop
  | _,  [],            _   => True
  | lb, (a, b) :: gs, top => lb ≤ a ∧ a ≤ b ∧ b + 1 < top ∧ GapsOK (b + 2) gs top

/-- slot `j` lies in some gap -/
def isFree (gs : List Gap) (j : Nat) : Prop := ∃ g ∈ gs, g.1 ≤ j ∧ j ≤ g.2

/-- a live block: (first index, number of slots) -/
abbrev Block := Nat × Nat
def inBlock (B : Block) (j : Nat) : Prop := B.1 ≤ j ∧ j < B.1 + B.2
def isLive (L : List Block) (j : Nat) : Prop := ∃ B ∈ L, inBlock B j

/-- The allocator invariant, relative to the ghost list `L` of live blocks. -/
structure Inv (s : GA) (L : List Block) : Prop where
  gapsOK : GapsOK 0 s.gaps s.iGrad
  cursor : ∀ r, s.recent = some r → r < s.gaps.length
  le_max : s.iGrad ≤ s.maxGrad
  tile   : ∀ j, j < s.iGrad → (isFree s.gaps j ↔ ¬ isLive L j)
  below  : ∀ B ∈ L, 0 < B.2 ∧ B.1 + B.2 ≤ s.iGrad
  disj   : L.Pairwise (fun B C => ∀ j, ¬ (inBlock B j ∧ inBlock C j))
  count  : s.nReg = (L.map (fun B => (B.2 : Int))).sum

/-- ghost update of the live list (uses the index the model returns) -/
def ghost (s : GA) (L : List Block) : Op → List Block
  | .reg1 => ((reg1 s).2, 1) :: L
  | .regN n => ((regN n s).2, n) :: L
  | .unreg1 i => L.erase (i, 1)
  | .unregN i n => L.erase (i, n)
  | .newRec => L

/-- what the destructors guarantee: only live blocks are released, sizes are positive -/
def Legal (L : List Block) : Op → Prop
  | .reg1 => True
  | .regN n => 0 < n
  | .unreg1 i => (i, 1) ∈ L
  | .unregN i n => (i, n) ∈ L
  | .newRec => True

instance (L : List Block) (op : Op) : Decidable (Legal L op) := by
  cases op <;> simp only [Legal] <;> infer_instance

/-- run a history, tracking the ghost list; `none` as soon as an op is illegal -/
def runHist : GA → List Block → List Op → Option (GA × List Block)
  | s, L, [] => some (s, L)
  | s, L, op :: ops => if Legal L op then runHist (step s op).1 (ghost s L op) ops else none

end Adept.GradAlloc
