import AdeptModel.Threads
/-! Helper lemmas for C12 / C14 (core Lean only): frame properties of `step` against the footprint table, schedule
    invariants, the `n_links_` invariant. -/
namespace Adept.Threads
set_option linter.unusedSimpArgs false

@[simp] theorem upd_same {α : Type} (f : Nat → α) (t : Nat) (v : α) : upd f t v t = v := by simp [upd]
@[simp] theorem upd_other {α : Type} (f : Nat → α) {t u : Nat} (v : α) (h : u ≠ t) : upd f t v u = f u := by
  simp [upd, h]
@[simp] theorem setS_same (f : SLoc → Nat) (l : SLoc) (v : Nat) : setS f l v l = v := by simp [setS]
@[simp] theorem setS_other (f : SLoc → Nat) {l l' : SLoc} (v : Nat) (h : l' ≠ l) : setS f l v l' = f l' := by
  simp [setS, h]

/-- F1: a step of thread `t` changes neither what another thread owns nor its thread-local pointer -/
theorem step_other (c : Cfg) {t u : Nat} (op : Op) (w : World) (h : u ≠ t) :
    (step c t op w).priv u = w.priv u ∧ (step c t op w).tls u = w.tls u := by
  rcases op with ⟨k, a⟩
  cases k <;> simp only [step] <;> (repeat' split) <;> simp [modPriv, setPtr, upd, h] <;> (repeat' split) <;> simp [h]


/-- F2: a step changes a shared location only if its footprint lists a write to it -/
theorem step_shared_frame (c : Cfg) (t : Nat) (op : Op) (w : World) (l : SLoc)
    (h : l ∉ sharedWrites c op.kind) : (step c t op w).sh l = w.sh l := by
  rcases op with ⟨k, a⟩
  rcases c with ⟨tls, ca, na⟩
  cases tls <;> cases k <;> simp [sharedWrites, footprint, stackPtrLoc] at h <;>
    simp only [step] <;> (repeat' split) <;> simp [modPriv, setPtr, getPtr, setS, h] <;> (repeat' split) <;> simp_all

/-- F3: what the stepping thread sees afterwards depends only on what it saw before and on the shared locations its
    footprint lists as read -/
theorem step_congr (c : Cfg) (t : Nat) (op : Op) (w w' : World)
    (hp : w.priv t = w'.priv t) (ht : getPtr c w t = getPtr c w' t)
    (hs : ∀ l ∈ sharedReads c op.kind, w.sh l = w'.sh l) :
    (step c t op w).priv t = (step c t op w').priv t ∧ getPtr c (step c t op w) t = getPtr c (step c t op w') t := by
  rcases op with ⟨k, a⟩
  rcases c with ⟨tls, ca, na⟩
  cases tls <;> cases k <;> simp [sharedReads, footprint, stackPtrLoc] at hs <;>
    simp only [getPtr] at ht <;> simp only [step, getPtr] <;> simp_all [modPriv, setPtr, getPtr, setS, upd] <;>
    (repeat' split) <;> simp_all [modPriv, setPtr, getPtr, setS, upd]


/-! ### Hypotheses on a set of operation kinds (decidable: discharged by `decide` over the footprint table) -/

/-- every operation of the workload is of a kind in `K` -/
def UsesOnly (W : Workload) (K : List OpKind) : Prop := ∀ t, ∀ op ∈ W t, op.kind ∈ K

/-- no operation kind of `K` writes a shared location that an operation kind of `K` reads -/
def Isolated (c : Cfg) (K : List OpKind) : Prop :=
  ∀ k ∈ K, ∀ k' ∈ K, ∀ l ∈ sharedWrites c k, l ∉ sharedReads c k'

instance (c : Cfg) (K : List OpKind) : Decidable (Isolated c K) := by unfold Isolated; infer_instance

def Loc.isShared : Loc → Bool
  | .shared _ => true
  | _ => false

/-- two accesses that would race if performed by different threads: same shared location, one writes, one is plain -/
def Access.clash (a b : Access) : Bool :=
  a.loc.isShared && decide (a.loc = b.loc) && (decide (a.mode = .write) || decide (b.mode = .write)) &&
    (decide (a.kind = .plain) || decide (b.kind = .plain))

/-- whenever two operation kinds of `K` access the same shared location and one of them writes, both accesses are atomic -/
def NoPlainConflict (c : Cfg) (K : List OpKind) : Prop :=
  ∀ k ∈ K, ∀ k' ∈ K, ∀ a ∈ footprint c k, ∀ b ∈ footprint c k', a.clash b = false

instance (c : Cfg) (K : List OpKind) : Decidable (NoPlainConflict c K) := by unfold NoPlainConflict; infer_instance

/-! ### Schedules -/

theorem exec_cons (c : Cfg) (W : Workload) (t : Nat) (s : List Nat) (r : Run) :
    exec c W (t :: s) r = exec c W s (execStep c W r t) := rfl

/-- a property preserved by every step of every thread holds after every schedule -/
theorem exec_invariant (c : Cfg) (W : Workload) (P : Run → Prop)
    (hstep : ∀ r t, P r → P (execStep c W r t)) : ∀ (sched : List Nat) (r : Run), P r → P (exec c W sched r) := by
  intro sched
  induction sched with
  | nil => intro r h; exact h
  | cons t s ih => intro r h; rw [exec_cons]; exact ih _ (hstep r t h)

theorem solo_snoc (c : Cfg) (t : Nat) (ops : List Op) (op : Op) (w : World) :
    solo c t (ops ++ [op]) w = step c t op (solo c t ops w) := by
  simp [solo, List.foldl_append]

theorem take_succ_of_getElem? {α : Type} (l : List α) (i : Nat) (a : α) (h : l[i]? = some a) :
    l.take (i + 1) = l.take i ++ [a] := by
  rw [List.take_add_one, h]; rfl

theorem mem_of_getElem? {α : Type} (l : List α) (i : Nat) (a : α) (h : l[i]? = some a) : a ∈ l :=
  List.mem_of_getElem? h

/-- thread `t` alone never changes a shared location that `K` reads, if its operations are of kinds in an isolated `K` -/
theorem solo_sh (c : Cfg) (K : List OpKind) (hI : Isolated c K) (t : Nat) (l : SLoc)
    (hl : ∃ k ∈ K, l ∈ sharedReads c k) :
    ∀ (ops : List Op) (w : World), (∀ op ∈ ops, op.kind ∈ K) → (solo c t ops w).sh l = w.sh l := by
  intro ops
  induction ops with
  | nil => intro w _; rfl
  | cons op rest ih =>
    intro w h
    have h1 : (solo c t (op :: rest) w) = solo c t rest (step c t op w) := rfl
    rw [h1, ih _ (fun o ho => h o (List.mem_cons_of_mem _ ho))]
    apply step_shared_frame
    intro hw
    obtain ⟨k', hk', hr⟩ := hl
    exact hI op.kind (h op (List.mem_cons_self ..)) k' hk' l hw hr

/-- what thread `t` sees of a world when the stack pointer is thread-local -/
def view (t : Nat) (w : World) : Nat × Priv := (w.tls t, w.priv t)

/-- invariant behind non-interference -/
def NIInv (c : Cfg) (W : Workload) (K : List OpKind) (w0 : World) (r : Run) : Prop :=
  (∀ t, view t r.w = view t (solo c t ((W t).take (r.pc t)) w0)) ∧
  (∀ l, (∃ k ∈ K, l ∈ sharedReads c k) → r.w.sh l = w0.sh l)

theorem niinv_step (c : Cfg) (W : Workload) (K : List OpKind) (w0 : World) (hT : c.stackPtrTLS = true)
    (hI : Isolated c K) (hU : UsesOnly W K) (r : Run) (t : Nat) (h : NIInv c W K w0 r) :
    NIInv c W K w0 (execStep c W r t) := by
  unfold execStep
  cases hop : (W t)[r.pc t]? with
  | none => exact h
  | some op =>
    have hmem : op ∈ W t := mem_of_getElem? _ _ _ hop
    have hk : op.kind ∈ K := hU t op hmem
    obtain ⟨hv, hs⟩ := h
    refine ⟨?_, ?_⟩
    · intro u
      by_cases hu : u = t
      · subst hu
        simp only [upd_same]
        rw [take_succ_of_getElem? _ _ _ hop, solo_snoc]
        have hvu := hv u
        simp only [view, Prod.mk.injEq] at hvu
        have hsolo : ∀ l ∈ sharedReads c op.kind, r.w.sh l = (solo c u ((W u).take (r.pc u)) w0).sh l := by
          intro l hl
          rw [hs l ⟨op.kind, hk, hl⟩]
          symm
          apply solo_sh c K hI u l ⟨op.kind, hk, hl⟩
          intro o ho
          exact hU u o (List.mem_of_mem_take ho)
        have := step_congr c u op r.w (solo c u ((W u).take (r.pc u)) w0) hvu.2
          (by simp [getPtr, hT, hvu.1]) hsolo
        simp only [getPtr, hT, if_true] at this
        simp [view, this.1, this.2]
      · have := step_other c op r.w hu
        simp [view, upd_other _ _ hu, this.1, this.2]
        have hvu := hv u
        simpa [view] using hvu
    · intro l hl
      rw [← hs l hl]
      apply step_shared_frame
      intro hw
      obtain ⟨k', hk', hr⟩ := hl
      exact hI op.kind hk k' hk' l hw hr


theorem niinv_start (c : Cfg) (W : Workload) (K : List OpKind) (w0 : World) : NIInv c W K w0 (Run.start w0) := by
  refine ⟨fun t => ?_, fun l _ => rfl⟩
  simp [Run.start, solo]

theorem niinv_exec (c : Cfg) (W : Workload) (K : List OpKind) (w0 : World) (hT : c.stackPtrTLS = true)
    (hI : Isolated c K) (hU : UsesOnly W K) (sched : List Nat) : NIInv c W K w0 (exec c W sched (Run.start w0)) :=
  exec_invariant c W (NIInv c W K w0) (fun r t h => niinv_step c W K w0 hT hI hU r t h) sched _ (niinv_start c W K w0)

/-- how far thread `t` gets: one operation per occurrence in the schedule, until its list is exhausted -/
theorem exec_pc (c : Cfg) (W : Workload) (t : Nat) :
    ∀ (sched : List Nat) (r : Run), r.pc t ≤ (W t).length →
      (exec c W sched r).pc t = min (r.pc t + sched.count t) (W t).length := by
  intro sched
  induction sched with
  | nil => intro r h; simp [exec]; omega
  | cons u s ih =>
    intro r h
    rw [exec_cons]
    by_cases hu : u = t
    · subst hu
      cases hop : (W u)[r.pc u]? with
      | none =>
        have hlen : (W u).length ≤ r.pc u := List.getElem?_eq_none_iff.mp hop
        have : execStep c W r u = r := by simp [execStep, hop]
        rw [this, ih r h]; simp [List.count_cons]; omega
      | some op =>
        have hlt : r.pc u < (W u).length := (List.getElem?_eq_some_iff.mp hop).1
        have hpc : (execStep c W r u).pc u = r.pc u + 1 := by simp [execStep, hop]
        rw [ih _ (by rw [hpc]; omega), hpc]; simp [List.count_cons]; omega
    · have hpc : (execStep c W r u).pc t = r.pc t := by
        unfold execStep
        cases (W u)[r.pc u]? with
        | none => rfl
        | some op => simp [upd_other _ _ (Ne.symm hu)]
      rw [ih _ (by rw [hpc]; exact h), hpc, List.count_cons_of_ne hu]

/-- every executed step is an operation of the executing thread's own list -/
theorem trace_mem (c : Cfg) (W : Workload) (sched : List Nat) (w0 : World) :
    ∀ e ∈ (exec c W sched (Run.start w0)).trace, e.2 ∈ W e.1 := by
  apply exec_invariant c W (fun r => ∀ e ∈ r.trace, e.2 ∈ W e.1)
  · intro r t h
    unfold execStep
    cases hop : (W t)[r.pc t]? with
    | none => exact h
    | some op =>
      intro e he
      simp only [List.mem_cons] at he
      rcases he with rfl | he
      · exact mem_of_getElem? _ _ _ hop
      · exact h e he
  · intro e he; simp [Run.start] at he

/-! ### Races -/

theorem races_clash {t u : Nat} {a b : Access} (h : Races t a u b) : a.clash b = true := by
  obtain ⟨hne, hloc, hw, hk⟩ := h
  rcases a with ⟨la, ma, ka⟩
  rcases b with ⟨lb, mb, kb⟩
  cases la <;> cases lb <;> simp [concrete] at hloc
  · exact absurd hloc hne
  · exact absurd hloc hne
  · subst hloc
    simp only [Access.clash, Loc.isShared, Bool.true_and, decide_true, Bool.and_eq_true, Bool.or_eq_true, decide_eq_true_eq]
    exact ⟨hw, hk⟩

theorem mem_sharedWrites {c : Cfg} {k : OpKind} {a : Access} {l : SLoc} (ha : a ∈ footprint c k)
    (hl : a.loc = .shared l) (hm : a.mode = .write) : l ∈ sharedWrites c k := by
  rcases a with ⟨la, ma, ka⟩
  simp only at hl hm
  subst hl; subst hm
  exact List.mem_filterMap.mpr ⟨_, ha, rfl⟩

/-- no operation kind of `K` writes any shared location at all -/
def NoSharedWrite (c : Cfg) (K : List OpKind) : Prop := ∀ k ∈ K, sharedWrites c k = []

theorem noSharedWrite_isolated {c : Cfg} {K : List OpKind} (h : NoSharedWrite c K) : Isolated c K := by
  intro k hk k' _ l hl
  rw [h k hk] at hl
  simp at hl

theorem noSharedWrite_noPlainConflict {c : Cfg} {K : List OpKind} (h : NoSharedWrite c K) : NoPlainConflict c K := by
  intro k hk k' hk' a ha b hb
  cases hcl : a.clash b with
  | false => rfl
  | true =>
    exfalso
    simp only [Access.clash, Bool.and_eq_true, Bool.or_eq_true, decide_eq_true_eq] at hcl
    obtain ⟨⟨⟨hsh, heq⟩, hw⟩, _⟩ := hcl
    cases hla : a.loc with
    | tlsStackPtr => simp [hla, Loc.isShared] at hsh
    | own => simp [hla, Loc.isShared] at hsh
    | shared l =>
      rcases hw with hw | hw
      · have := mem_sharedWrites ha hla hw
        rw [h k hk] at this; simp at this
      · have := mem_sharedWrites hb (heq ▸ hla) hw
        rw [h k' hk'] at this; simp at this

/-- no two executed steps of different threads contain racing accesses -/
theorem race_free_of_noPlainConflict (c : Cfg) (W : Workload) (K : List OpKind) (hN : NoPlainConflict c K)
    (hU : UsesOnly W K) (sched : List Nat) (w0 : World) :
    ∀ e ∈ (exec c W sched (Run.start w0)).trace, ∀ e' ∈ (exec c W sched (Run.start w0)).trace,
      ∀ a ∈ footprint c e.2.kind, ∀ b ∈ footprint c e'.2.kind, ¬ Races e.1 a e'.1 b := by
  intro e he e' he' a ha b hb hr
  have hk := hU e.1 e.2 (trace_mem c W sched w0 e he)
  have hk' := hU e'.1 e'.2 (trace_mem c W sched w0 e' he')
  have := hN _ hk _ hk' a ha b hb
  rw [races_clash hr] at this
  exact Bool.noConfusion this

/-! ### The active-stack pointer -/

theorem step_tls_self (c : Cfg) (hT : c.stackPtrTLS = true) (t : Nat) (op : Op) (w : World) :
    (step c t op w).tls t = w.tls t ∨ (step c t op w).tls t = 0 ∨
      ((op.kind = .newStack ∨ op.kind = .activate) ∧ (step c t op w).tls t = op.arg + 1) := by
  rcases op with ⟨k, a⟩
  cases k <;> simp only [step, getPtr, hT] <;> (repeat' split) <;> simp_all [modPriv, setPtr, upd]

/-- invariant: a non-null pointer in thread `u` was put there by an activation executed by `u` itself -/
def ActInv (W : Workload) (r : Run) : Prop :=
  ∀ u, r.w.tls u ≠ 0 →
    ∃ op ∈ (W u).take (r.pc u), (op.kind = .newStack ∨ op.kind = .activate) ∧ r.w.tls u = op.arg + 1

theorem actinv_step (c : Cfg) (hT : c.stackPtrTLS = true) (W : Workload) (r : Run) (t : Nat) (h : ActInv W r) :
    ActInv W (execStep c W r t) := by
  unfold execStep
  cases hop : (W t)[r.pc t]? with
  | none => exact h
  | some op =>
    intro u hne
    by_cases hu : u = t
    · subst hu
      simp only [upd_same] at hne ⊢
      rw [take_succ_of_getElem? _ _ _ hop]
      rcases step_tls_self c hT u op r.w with h1 | h1 | ⟨hk, h1⟩
      · rw [h1] at hne ⊢
        obtain ⟨o, ho, hk, he⟩ := h u hne
        exact ⟨o, List.mem_append_left _ ho, hk, he⟩
      · exact absurd h1 hne
      · exact ⟨op, by simp, hk, h1⟩
    · have hs := step_other c op r.w hu
      simp only [upd_other _ _ hu] at hne ⊢
      rw [hs.2] at hne ⊢
      exact h u hne

theorem actinv_exec (c : Cfg) (hT : c.stackPtrTLS = true) (W : Workload) (sched : List Nat) (w0 : World)
    (h0 : ∀ u, w0.tls u = 0) : ActInv W (exec c W sched (Run.start w0)) := by
  apply exec_invariant c W (ActInv W) (fun r t h => actinv_step c hT W r t h)
  intro u hne
  exact absurd (h0 u) hne


/-! ### The `n_links_` machine -/
namespace NLinks

theorem sumTo_upd_ge (f : Nat → Nat) (t v : Nat) : ∀ n, n ≤ t → sumTo n (upd f t v) = sumTo n f := by
  intro n
  induction n with
  | zero => intro _; rfl
  | succ n ih =>
    intro h
    have hne : n ≠ t := by omega
    simp [sumTo, ih (by omega), upd_other f v hne]

theorem le_sumTo (f : Nat → Nat) (t : Nat) : ∀ n, t < n → f t ≤ sumTo n f := by
  intro n
  induction n with
  | zero => intro h; omega
  | succ n ih =>
    intro h
    by_cases ht : t = n
    · subst ht; simp [sumTo]
    · have := ih (by omega); simp [sumTo]; omega

theorem sumTo_upd_lt (f : Nat → Nat) (t v : Nat) : ∀ n, t < n → sumTo n (upd f t v) + f t = sumTo n f + v := by
  intro n
  induction n with
  | zero => intro h; omega
  | succ n ih =>
    intro h
    by_cases ht : t = n
    · subst ht
      simp [sumTo, sumTo_upd_ge f t v t (Nat.le_refl _)]; omega
    · have hne : n ≠ t := fun e => ht e.symm
      have := ih (by omega)
      simp [sumTo, upd_other f v hne]; omega

theorem sumTo_eq_zero (f : Nat → Nat) (n : Nat) (h : sumTo n f = 0) (t : Nat) (ht : t < n) : f t = 0 := by
  have := le_sumTo f t n ht; omega

theorem sumTo_zero_of_all (f : Nat → Nat) (h : ∀ t, f t = 0) : ∀ n, sumTo n f = 0 := by
  intro n
  induction n with
  | zero => rfl
  | succ n ih => simp [sumTo, ih, h n]

/-- the invariant of the `rmwTested` machine -/
structure Inv (T : Nat) (s : St) : Prop where
  /-- every thread's remaining program is well formed for the number of views it owns now -/
  wf : ∀ t, wfM (s.held t) (s.rem t) = true
  out : ∀ t, T ≤ t → s.held t = 0
  /-- not yet freed: the counter is exactly the number of views in existence, and there is one -/
  live : s.frees = 0 → s.count = (sumTo T s.held : Nat) ∧ 1 ≤ sumTo T s.held
  /-- freed: exactly once, and no view is left -/
  dead : s.frees ≠ 0 → s.frees = 1 ∧ sumTo T s.held = 0
  clean : s.touchedAfterFree = 0

theorem Inv.active {T : Nat} {s : St} (h : Inv T s) {t : Nat} (ht : 1 ≤ s.held t) : s.frees = 0 ∧ t < T := by
  have hT : t < T := by
    by_cases hlt : t < T
    · exact hlt
    · have := h.out t (by omega); omega
  refine ⟨?_, hT⟩
  by_cases hf : s.frees = 0
  · exact hf
  · have := (h.dead hf).2
    have := sumTo_eq_zero _ _ this t hT
    omega

theorem mexec_cons (t : Nat) (sched : List Nat) (s : St) : mexec (t :: sched) s = mexec sched (mexecStep s t) := rfl

theorem inv_step {T : Nat} {s : St} (h : Inv T s) (t : Nat) : Inv T (mexecStep s t) := by
  unfold mexecStep
  cases hrem : s.rem t with
  | nil => exact h
  | cons m r =>
    have hwf := h.wf t
    rw [hrem] at hwf
    -- frame facts for the other threads
    have hwf_other : ∀ u, u ≠ t → wfM (s.held u) (upd s.rem t r u) = true := by
      intro u hu; rw [upd_other _ _ hu]; exact h.wf u
    cases m with
    | nop =>
      simp only [wfM] at hwf
      simp only [mstep]
      refine ⟨?_, h.out, h.live, h.dead, h.clean⟩
      intro u
      by_cases hu : u = t
      · subst hu; simpa using hwf
      · exact hwf_other u hu
    | chk =>
      simp only [wfM, Bool.and_eq_true, decide_eq_true_eq] at hwf
      obtain ⟨hf, _⟩ := h.active hwf.1
      have htouch : touch { s with rem := upd s.rem t r } = { s with rem := upd s.rem t r } := by simp [touch, hf]
      simp only [mstep, htouch]
      refine ⟨?_, h.out, h.live, h.dead, h.clean⟩
      intro u
      by_cases hu : u = t
      · subst hu; simpa using hwf.2
      · exact hwf_other u hu
    | inc =>
      simp only [wfM, Bool.and_eq_true, decide_eq_true_eq] at hwf
      obtain ⟨hf, hT⟩ := h.active hwf.1
      have htouch : touch { s with rem := upd s.rem t r } = { s with rem := upd s.rem t r } := by simp [touch, hf]
      simp only [mstep, htouch]
      have hsum := sumTo_upd_lt s.held t (s.held t + 1) T hT
      obtain ⟨hc, h1⟩ := h.live hf
      refine ⟨?_, ?_, ?_, ?_, h.clean⟩
      · intro u
        by_cases hu : u = t
        · subst hu; simpa using hwf.2
        · simp only [upd_other _ _ hu]; exact h.wf u
      · intro u hu
        have : u ≠ t := by omega
        simp only [upd_other _ _ this]; exact h.out u hu
      · intro _
        dsimp only
        refine ⟨?_, by omega⟩
        rw [hc]; omega
      · intro hne; exact absurd hf hne
    | decTest =>
      simp only [wfM, Bool.and_eq_true, decide_eq_true_eq] at hwf
      obtain ⟨hf, hT⟩ := h.active hwf.1
      have htouch : touch { s with rem := upd s.rem t r } = { s with rem := upd s.rem t r } := by simp [touch, hf]
      simp only [mstep, htouch]
      have hsum := sumTo_upd_lt s.held t (s.held t - 1) T hT
      obtain ⟨hc, h1⟩ := h.live hf
      have hwfall : ∀ u, wfM (upd s.held t (s.held t - 1) u) (upd s.rem t r u) = true := by
        intro u
        by_cases hu : u = t
        · subst hu; simpa using hwf.2
        · simp only [upd_other _ _ hu]; exact h.wf u
      have houtall : ∀ u, T ≤ u → upd s.held t (s.held t - 1) u = 0 := by
        intro u hu
        have : u ≠ t := by omega
        simp only [upd_other _ _ this]; exact h.out u hu
      by_cases hz : s.count - 1 = 0
      · simp only [hz, if_true]
        refine ⟨hwfall, houtall, ?_, ?_, h.clean⟩
        · intro hc0; simp [hf] at hc0
        · intro _
          dsimp only
          refine ⟨by simp [hf], ?_⟩
          rw [hc] at hz; omega
      · simp only [hz, if_false]
        refine ⟨hwfall, houtall, ?_, ?_, h.clean⟩
        · intro _
          dsimp only
          rw [hc] at hz ⊢
          refine ⟨?_, ?_⟩ <;> omega
        · intro hne; exact absurd hf hne
    | decOnly => simp [wfM] at hwf
    | reloadTest => simp [wfM] at hwf
    | load => simp [wfM] at hwf
    | storeTest => simp [wfM] at hwf

theorem inv_exec {T : Nat} : ∀ (sched : List Nat) (s : St), Inv T s → Inv T (mexec sched s) := by
  intro sched
  induction sched with
  | nil => intro s h; exact h
  | cons t rest ih => intro s h; rw [mexec_cons]; exact ih _ (inv_step h t)

theorem inv_init (T : Nat) (h0 : Nat → Nat) (progs : Nat → List MOp)
    (hwf : ∀ t, t < T → wfM (h0 t) (progs t) = true) (hpos : ∃ t, t < T ∧ 1 ≤ h0 t) :
    Inv T (St.init T h0 progs) := by
  refine ⟨?_, ?_, ?_, ?_, rfl⟩
  · intro t
    by_cases ht : t < T
    · simp [St.init, ht, hwf t ht]
    · simp [St.init, ht, wfM]
  · intro t ht
    have : ¬ t < T := by omega
    simp [St.init, this]
  · intro _
    refine ⟨rfl, ?_⟩
    obtain ⟨t, ht, h1⟩ := hpos
    have := le_sumTo (fun t => if t < T then h0 t else 0) t T ht
    simp only [ht, if_true] at this
    simp only [St.init]; omega
  · intro hne; simp [St.init] at hne

/-- a thread that owns no view of the shared data has only `nop`s left -/
theorem wfM_zero_all_nop : ∀ (p : List MOp), wfM 0 p = true → ∀ m ∈ p, m = .nop := by
  intro p
  induction p with
  | nil => intro _ m hm; simp at hm
  | cons a r ih =>
    intro h m hm
    cases a <;> simp [wfM] at h
    simp only [List.mem_cons] at hm
    rcases hm with rfl | hm
    · rfl
    · exact ih h m hm

/-- the expansion of a well-formed API-level program is a well-formed micro-program -/
theorem wfM_expand (lead : Bool) : ∀ (p : List LOp) (h : Nat), wfL h p = true → wfM h (expandAll .rmwTested lead p) = true := by
  intro p
  induction p with
  | nil => intro h _; simp [expandAll, wfM]
  | cons a r ih =>
    intro h hw
    cases a <;> cases lead <;> simp [wfL] at hw <;>
      simp [expandAll, expand, wfM, List.flatMap_cons] <;> first
        | exact ih _ hw
        | exact ⟨hw.1, ih _ hw.2⟩
        | exact ⟨hw.1, hw.1, ih _ hw.2⟩

/-- all that is left to do touches no counter -/
def AllNop (s : St) : Prop := ∀ t, ∀ m ∈ s.rem t, m = .nop

theorem allNop_step {s : St} (h : AllNop s) (t : Nat) :
    AllNop (mexecStep s t) ∧ (mexecStep s t).count = s.count ∧ (mexecStep s t).frees = s.frees ∧
      (mexecStep s t).touchedAfterFree = s.touchedAfterFree ∧ (mexecStep s t).held = s.held := by
  unfold mexecStep
  cases hrem : s.rem t with
  | nil => exact ⟨h, rfl, rfl, rfl, rfl⟩
  | cons m r =>
    have hm : m = .nop := h t m (by rw [hrem]; simp)
    subst hm
    refine ⟨?_, rfl, rfl, rfl, rfl⟩
    intro u m hm
    simp only [mstep] at hm
    by_cases hu : u = t
    · subst hu
      simp only [upd_same] at hm
      exact h u m (by rw [hrem]; exact List.mem_cons_of_mem _ hm)
    · simp only [upd_other _ _ hu] at hm
      exact h u m hm

theorem allNop_exec : ∀ (sched : List Nat) (s : St), AllNop s →
    (mexec sched s).count = s.count ∧ (mexec sched s).frees = s.frees ∧
      (mexec sched s).touchedAfterFree = s.touchedAfterFree ∧ (mexec sched s).held = s.held := by
  intro sched
  induction sched with
  | nil => intro s _; exact ⟨rfl, rfl, rfl, rfl⟩
  | cons t rest ih =>
    intro s h
    rw [mexec_cons]
    obtain ⟨h1, h2, h3, h4, h5⟩ := allNop_step h t
    obtain ⟨i2, i3, i4, i5⟩ := ih _ h1
    exact ⟨i2.trans h2, i3.trans h3, i4.trans h4, i5.trans h5⟩

/-- soft views and private arrays expand to `nop` in every shape -/
theorem expandAll_soft (sh : Shape) (lead : Bool) :
    ∀ (p : List LOp), (∀ o ∈ p, o = .softView ∨ o = .privArray) → ∀ m ∈ expandAll sh lead p, m = .nop := by
  intro p
  induction p with
  | nil => intro _ m hm; simp [expandAll] at hm
  | cons a r ih =>
    intro h m hm
    simp only [expandAll, List.flatMap_cons, List.mem_append] at hm
    rcases hm with hm | hm
    · rcases h a (List.mem_cons_self ..) with rfl | rfl <;> simpa [expand] using hm
    · exact ih (fun o ho => h o (List.mem_cons_of_mem _ ho)) m hm

end NLinks

end Adept.Threads
