import AdeptModel.MinimizerLogic
import Mathlib.Tactic.Linarith
import Mathlib.Tactic.Ring
import Mathlib.Tactic.FieldSimp
import Mathlib.Tactic.Positivity
import Mathlib.Tactic.NormNum
import Mathlib.Algebra.Order.Field.Basic
import Mathlib.Algebra.BigOperators.Ring.Finset
import Mathlib.Algebra.Order.BigOperators.Group.Finset
/-!
Helper lemmas for C18 / C19 (decision logic of the bounded minimizers, `AdeptModel/MinimizerLogic.lean`).
Everything is over an arbitrary linear ordered field; cost, gradient, norm, cubic step, direction strategy and
Newton steps are arbitrary function arguments.
-/
namespace Adept.Minimizer
set_option linter.unusedSectionVars false

variable {α : Type} [Field α] [LinearOrder α] [IsStrictOrderedRing α]

/-! ### Vocabulary -/

/-- `x` satisfies every bound that is not the "no bound" sentinel `±big` (first `n` components) -/
def InBox (big : α) (n : Nat) (lo up x : Vec α) : Prop :=
  ∀ i < n, (-big < lo i → lo i ≤ x i) ∧ (up i < big → x i ≤ up i)

/-- `lower ≤ x ≤ upper` in the first `n` components -/
def Box (n : Nat) (lo up x : Vec α) : Prop := ∀ i < n, lo i ≤ x i ∧ x i ≤ up i

theorem Box.inBox {big : α} {n : Nat} {lo up x : Vec α} (h : Box n lo up x) : InBox big n lo up x :=
  fun i hi => ⟨fun _ => (h i hi).1, fun _ => (h i hi).2⟩

/-- the bound flags tell the truth: a variable flagged ∓1 lies on that face -/
def FlagsTrue (n : Nat) (lo up x : Vec α) (bs : Nat → Int) : Prop :=
  ∀ i < n, (bs i = -1 → x i = lo i) ∧ (bs i = 1 → x i = up i)

/-- bounds accepted by the minimizers: `¬ any(min_x >= max_x)` -/
def ValidBounds (n : Nat) (lo up : Vec α) : Prop := ∀ i < n, lo i < up i

theorem boundsInvalid_false_iff {n : Nat} {lo up : Vec α} :
    boundsInvalid n lo up = false ↔ ValidBounds n lo up := by
  unfold boundsInvalid ValidBounds
  rw [Bool.eq_false_iff]
  simp only [ne_eq, List.any_eq_true, List.mem_range, decide_eq_true_eq, not_exists, not_and, not_le, ge_iff_le]

/-! ### projection of the start, initial flags -/

theorem project_box {n : Nat} {lo up : Vec α} (hv : ValidBounds n lo up) (x : Vec α) :
    Box n lo up (project lo up x) := by
  intro i hi
  have h := (hv i hi).le
  simp only [project]
  exact ⟨le_max_left _ _, max_le h (min_le_right _ _)⟩

theorem project_of_box {n : Nat} {lo up x : Vec α} (h : Box n lo up x) :
    ∀ i < n, project lo up x i = x i := by
  intro i hi
  simp only [project, min_eq_left (h i hi).2, max_eq_right (h i hi).1]

theorem initBoundStatus_true {n : Nat} {lo up : Vec α} (hv : ValidBounds n lo up) (x : Vec α) :
    FlagsTrue n lo up (project lo up x) (initBoundStatus lo up x) := by
  intro i hi
  have h := hv i hi
  simp only [initBoundStatus, project]
  constructor
  · intro hb
    split at hb
    · rename_i h1
      rw [min_eq_left (le_trans h1 h.le), max_eq_left h1]
    · split at hb <;> simp at hb
  · intro hb
    split at hb
    · simp at hb
    · rename_i h1
      split at hb
      · rename_i h2
        rw [min_eq_right h2, max_eq_right h.le]
      · simp at hb

/-! ### nearest bound -/

/-- step length to the face of variable `j` along `d`, if it moves towards a real bound -/
def localUp (nd : α) (x d up : Vec α) (j : Nat) : α := nd * (up j - x j) / d j
def localLo (nd : α) (x d lo : Vec α) (j : Nat) : α := nd * (lo j - x j) / d j

/-- what the nearest-bound record says about itself -/
def NBGood (n : Nat) (big nd : α) (x d lo up : Vec α) (s : NB α) : Prop :=
  s.b ≤ big ∧ (s.idx = none → s.b = big ∧ s.ty = 0) ∧
  ∀ i, s.idx = some i → i < n ∧
    ((s.ty = 1 ∧ d i > 0 ∧ up i < big ∧ s.b = localUp nd x d up i) ∨
     (s.ty = -1 ∧ d i < 0 ∧ lo i > -big ∧ s.b = localLo nd x d lo i))

theorem nbStep_eq (big nd : α) (x d lo up : Vec α) (s : NB α) (ix : Nat) :
    nbStep big nd x d lo up s ix =
      if d ix > 0 ∧ up ix < big then
        (if s.b ≥ localUp nd x d up ix then ⟨localUp nd x d up ix, some ix, 1⟩ else s)
      else if d ix < 0 ∧ lo ix > -big then
        (if s.b ≥ localLo nd x d lo ix then ⟨localLo nd x d lo ix, some ix, -1⟩ else s)
      else s := rfl

theorem nbStep_b_le (big nd : α) (x d lo up : Vec α) (s : NB α) (ix : Nat) :
    (nbStep big nd x d lo up s ix).b ≤ s.b := by
  rw [nbStep_eq]
  split
  · split
    · rename_i h; exact h
    · exact le_rfl
  · split
    · split
      · rename_i h; exact h
      · exact le_rfl
    · exact le_rfl

theorem nbStep_le_local (big nd : α) (x d lo up : Vec α) (s : NB α) (ix : Nat) :
    (d ix > 0 ∧ up ix < big → (nbStep big nd x d lo up s ix).b ≤ localUp nd x d up ix) ∧
    (d ix < 0 ∧ lo ix > -big → (nbStep big nd x d lo up s ix).b ≤ localLo nd x d lo ix) := by
  constructor
  · intro h
    rw [nbStep_eq]
    rw [if_pos h]
    split
    · exact le_rfl
    · rename_i h2; exact (not_le.mp h2).le
  · intro h
    have h1 : ¬ (d ix > 0 ∧ up ix < big) := fun h' => absurd h.1 (not_lt.mpr h'.1.le)
    rw [nbStep_eq]
    rw [if_neg h1, if_pos h]
    split
    · exact le_rfl
    · rename_i h2; exact (not_le.mp h2).le

theorem nbStep_good {n : Nat} {big nd : α} {x d lo up : Vec α} {s : NB α} {ix : Nat} (hix : ix < n)
    (hs : NBGood n big nd x d lo up s) : NBGood n big nd x d lo up (nbStep big nd x d lo up s ix) := by
  rw [nbStep_eq]
  split
  · rename_i h
    split
    · rename_i h2
      refine ⟨le_trans h2 hs.1, fun h' => by simp at h', ?_⟩
      intro i hi
      simp only [Option.some.injEq] at hi
      subst hi
      exact ⟨hix, Or.inl ⟨rfl, h.1, h.2, rfl⟩⟩
    · exact hs
  · split
    · rename_i h
      split
      · rename_i h2
        refine ⟨le_trans h2 hs.1, fun h' => by simp at h', ?_⟩
        intro i hi
        simp only [Option.some.injEq] at hi
        subst hi
        exact ⟨hix, Or.inr ⟨rfl, h.1, h.2, rfl⟩⟩
      · exact hs
    · exact hs

theorem nb_foldl {n : Nat} {big nd : α} {x d lo up : Vec α} (l : List Nat) (hl : ∀ j ∈ l, j < n) (s : NB α)
    (hs : NBGood n big nd x d lo up s) :
    NBGood n big nd x d lo up (l.foldl (nbStep big nd x d lo up) s) ∧
    (l.foldl (nbStep big nd x d lo up) s).b ≤ s.b ∧
    ∀ j ∈ l, (d j > 0 ∧ up j < big → (l.foldl (nbStep big nd x d lo up) s).b ≤ localUp nd x d up j) ∧
             (d j < 0 ∧ lo j > -big → (l.foldl (nbStep big nd x d lo up) s).b ≤ localLo nd x d lo j) := by
  induction l generalizing s with
  | nil => exact ⟨hs, le_rfl, fun j hj => by simp at hj⟩
  | cons a l ih =>
    have ha : a < n := hl a (by simp)
    have hl' : ∀ j ∈ l, j < n := fun j hj => hl j (by simp [hj])
    obtain ⟨h1, h2, h3⟩ := ih hl' (nbStep big nd x d lo up s a) (nbStep_good ha hs)
    simp only [List.foldl_cons]
    refine ⟨h1, le_trans h2 (nbStep_b_le ..), ?_⟩
    intro j hj
    rcases List.mem_cons.mp hj with rfl | hj
    · have := nbStep_le_local big nd x d lo up s j
      exact ⟨fun h => le_trans h2 (this.1 h), fun h => le_trans h2 (this.2 h)⟩
    · exact h3 j hj

/-- specification of the nearest-bound loop -/
theorem nearestBound_spec (n : Nat) (big nd : α) (x d lo up : Vec α) :
    NBGood n big nd x d lo up (nearestBound n big nd x d lo up) ∧
    ∀ j < n, (d j > 0 ∧ up j < big → (nearestBound n big nd x d lo up).b ≤ localUp nd x d up j) ∧
             (d j < 0 ∧ lo j > -big → (nearestBound n big nd x d lo up).b ≤ localLo nd x d lo j) := by
  have h0 : NBGood n big nd x d lo up (⟨big, none, 0⟩ : NB α) :=
    ⟨le_rfl, fun _ => ⟨rfl, rfl⟩, fun i hi => by simp at hi⟩
  obtain ⟨h1, _, h3⟩ := nb_foldl (List.range n) (fun j hj => List.mem_range.mp hj) _ h0
  exact ⟨h1, fun j hj => h3 j (List.mem_range.mpr hj)⟩

/-- moving at most `b` (in units of the normalised direction) keeps a variable below the face it moves towards -/
theorem step_le_up {nd xj dj upj t : α} (hnd : 0 ≤ nd) (hd : 0 < dj) (hx : xj ≤ upj) (ht : 0 ≤ t)
    (htb : t ≤ nd * (upj - xj) / dj) : xj + (t * (1 / nd)) * dj ≤ upj := by
  rcases hnd.eq_or_lt with h0 | hpos
  · subst h0; simpa using hx
  · have h1 : t * dj ≤ nd * (upj - xj) := by
      have := mul_le_mul_of_nonneg_right htb hd.le
      rwa [div_mul_cancel₀ _ hd.ne'] at this
    have h2 : t * (1 / nd) * dj = t * dj / nd := by field_simp
    rw [h2]
    have h3 : t * dj / nd ≤ upj - xj := by
      rw [div_le_iff₀ hpos]; linarith
    linarith

theorem step_ge_lo {nd xj dj loj t : α} (hnd : 0 ≤ nd) (hd : dj < 0) (hx : loj ≤ xj) (ht : 0 ≤ t)
    (htb : t ≤ nd * (loj - xj) / dj) : loj ≤ xj + (t * (1 / nd)) * dj := by
  have h := step_le_up (xj := -xj) (dj := -dj) (upj := -loj) (t := t) hnd (by linarith) (by linarith) ht
    (by
      have : nd * (-loj - -xj) / -dj = nd * (loj - xj) / dj := by
        rw [div_neg, ← neg_div]; congr 1; ring
      rw [this]; exact htb)
  linarith

/-! ### line search: every step length tried, and the one accepted, lies in `[0, bound]` -/

/-- admissible step length: non-negative and, for a bound step, not beyond the bound -/
def TOk (bound t : α) : Prop := 0 ≤ t ∧ (0 ≤ bound → t ≤ bound)

def LSInv (bound : α) (st : LSState α) : Prop :=
  0 ≤ st.ss1 ∧ st.ss1 ≤ st.ss2 ∧ (0 ≤ bound → st.ss2 ≤ bound) ∧ ∀ t ∈ st.evals, TOk bound t

def ROk (bound step0 : α) (r : LSResult α) : Prop :=
  (∀ t ∈ r.evals, TOk bound t) ∧ TOk bound r.t ∧ (r.stepSize = r.t ∨ r.stepSize = step0)

theorem TOk_zero {bound : α} : TOk bound 0 := ⟨le_rfl, fun h => h⟩

theorem LSInv.ss1 {bound : α} {st : LSState α} (h : LSInv bound st) : TOk bound st.ss1 :=
  ⟨h.1, fun hb => le_trans h.2.1 (h.2.2.1 hb)⟩
theorem LSInv.ss2 {bound : α} {st : LSState α} (h : LSInv bound st) : TOk bound st.ss2 :=
  ⟨le_trans h.1 h.2.1, h.2.2.1⟩

theorem lsRevert_ok {bound : α} {st : LSState α} (h : LSInv bound st) (status : Status) (cost0 step0 : α) :
    ROk bound step0 (lsRevert st status cost0 step0) := by
  unfold lsRevert
  split
  · exact ⟨h.2.2.2, h.ss1, Or.inl rfl⟩
  · exact ⟨h.2.2.2, TOk_zero, Or.inr rfl⟩

theorem lsFinish_ok {bound : α} {st : LSState α} (h : LSInv bound st) (cost0 cf0 step0 : α) :
    ROk bound step0 (lsFinish st cost0 cf0 step0) := by
  unfold lsFinish
  split
  · exact ⟨h.2.2.2, h.ss2, Or.inl rfl⟩
  · split
    · exact ⟨h.2.2.2, h.ss1, Or.inl rfl⟩
    · exact ⟨h.2.2.2, TOk_zero, Or.inr rfl⟩

theorem cubicClamp_between {a b : α} (hab : a ≤ b) (raw : α) :
    a ≤ cubicClamp a b raw ∧ cubicClamp a b raw ≤ b := by
  unfold cubicClamp
  have h1 : (0.95 : α) = 95 / 100 := by norm_num
  have h2 : (0.05 : α) = 5 / 100 := by norm_num
  rw [h1, h2]
  constructor
  · exact le_trans (by linarith) (le_max_left _ _)
  · exact max_le (by linarith) (le_trans (min_le_left _ _) (by linarith))

theorem evals_append_ok {bound t : α} {l : List α} (hl : ∀ u ∈ l, TOk bound u) (ht : TOk bound t) :
    ∀ u ∈ l ++ [t], TOk bound u := by
  intro u hu
  rcases List.mem_append.mp hu with h | h
  · exact hl u h
  · simp only [List.mem_singleton] at h; subst h; exact ht

theorem lsRefine_ok (P : LSParams α) (phi : α → LSample α) (cubic : LSState α → α)
    (bound cost0 grad0 curv cf0 step0 : α) (k : Nat) (st : LSState α) (h : LSInv bound st) :
    ROk bound step0 (lsRefine P phi cubic cost0 grad0 curv cf0 step0 k st) := by
  induction k generalizing st with
  | zero => exact lsFinish_ok h _ _ _
  | succ k ih =>
    rw [lsRefine]
    by_cases h21 : st.ss2 ≤ st.ss1
    · rw [if_pos h21]
      split
      · exact ⟨h.2.2.2, h.ss1, Or.inl rfl⟩
      · exact ⟨h.2.2.2, TOk_zero, Or.inr rfl⟩
    · rw [if_neg h21]
      have hlt : st.ss1 ≤ st.ss2 := h.2.1
      obtain ⟨hc1, hc2⟩ := cubicClamp_between hlt (cubic st)
      have h3 : TOk bound (cubicClamp st.ss1 st.ss2 (cubic st)) :=
        ⟨le_trans h.1 hc1, fun hb => le_trans hc2 (h.2.2.1 hb)⟩
      have hev := evals_append_ok h.2.2.2 h3
      have hinv : LSInv bound { st with evals := st.evals ++ [cubicClamp st.ss1 st.ss2 (cubic st)] } :=
        ⟨h.1, h.2.1, h.2.2.1, hev⟩
      simp only []
      split
      · exact lsRevert_ok hinv _ _ _
      · split
        · exact lsRevert_ok hinv _ _ _
        · split
          · exact ⟨hev, h3, Or.inl rfl⟩
          · split
            · exact ih _ ⟨h.1, hc1, fun hb => le_trans hc2 (h.2.2.1 hb), hev⟩
            · split
              · exact ih _ ⟨le_trans h.1 hc1, hc2, h.2.2.1, hev⟩
              · exact ih _ ⟨h.1, hc1, fun hb => le_trans hc2 (h.2.2.1 hb), hev⟩

theorem extendStep_ok (P : LSParams α) (bound : α) (ss1 ss2 cf1 cf2 grad2 : α) (h1 : 0 ≤ ss1) (h12 : ss1 ≤ ss2)
    (hb : 0 ≤ bound → ss2 ≤ bound) :
    ss2 ≤ (extendStep P bound (decide (bound ≥ 0)) ss1 ss2 cf1 cf2 grad2).1 ∧
    (0 ≤ bound → (extendStep P bound (decide (bound ≥ 0)) ss1 ss2 cf1 cf2 grad2).1 ≤ bound) := by
  have e11 : (1.1 : α) = 11 / 10 := by norm_num
  have e10 : (10.0 : α) = 10 := by norm_num
  have e5 : (5.0 : α) = 5 := by norm_num
  -- the un-clamped candidate is at least ss2
  have hnew0 : ∀ new0 : α, ss2 ≤ new0 →
      ss2 ≤ (if P.maxStep > 0 ∧ new0 - ss2 > P.maxStep then ss2 + P.maxStep else new0) := by
    intro new0 h0
    split
    · rename_i hm; linarith [hm.1]
    · exact h0
  have hfin : ∀ new1 : α, ss2 ≤ new1 →
      ss2 ≤ (if (decide (bound ≥ 0) = true) ∧ new1 ≥ bound then (bound, true) else (new1, false)).1 ∧
      (0 ≤ bound → (if (decide (bound ≥ 0) = true) ∧ new1 ≥ bound then (bound, true) else (new1, false)).1 ≤ bound) := by
    intro new1 h1'
    split
    · rename_i hc
      have hb0 : 0 ≤ bound := by simpa using hc.1
      exact ⟨hb hb0, fun _ => le_rfl⟩
    · rename_i hc
      refine ⟨h1', fun hb0 => ?_⟩
      have : ¬ new1 ≥ bound := fun h' => hc ⟨by simpa using hb0, h'⟩
      exact (not_le.mp this).le
  unfold extendStep
  simp only []
  apply hfin
  apply hnew0
  split
  · rw [e11]
    exact le_trans (by linarith) (le_max_left _ _)
  · rw [e5]; linarith

theorem lsBracket_ok (P : LSParams α) (phi : α → LSample α) (cubic : LSState α → α)
    (bound cost0 grad0 curv cf0 step0 : α) (k : Nat) (st : LSState α) (h : LSInv bound st) :
    ROk bound step0 (lsBracket P phi cubic bound (decide (bound ≥ 0)) cost0 grad0 curv cf0 step0 k st) := by
  induction k generalizing st with
  | zero => exact lsFinish_ok h _ _ _
  | succ k ih =>
    rw [lsBracket]
    have hev := evals_append_ok h.2.2.2 h.ss2
    have hinv : LSInv bound { st with evals := st.evals ++ [st.ss2] } := ⟨h.1, h.2.1, h.2.2.1, hev⟩
    simp only []
    split
    · exact lsRevert_ok hinv _ _ _
    · split
      · exact lsRevert_ok hinv _ _ _
      · split
        · exact ⟨hev, h.ss2, Or.inl rfl⟩
        · split
          · exact lsRefine_ok _ _ _ _ _ _ _ _ _ _ _ ⟨h.1, h.2.1, h.2.2.1, hev⟩
          · split
            · exact ⟨hev, h.ss2, Or.inl rfl⟩
            · obtain ⟨he1, he2⟩ := extendStep_ok P bound st.ss1 st.ss2 st.cf1 (phi st.ss2).cf (phi st.ss2).dg
                h.1 h.2.1 h.2.2.1
              exact ih _ ⟨le_trans h.1 h.2.1, he1, he2, hev⟩

theorem lsInit_cases (P : LSParams α) (bound step0 grad0 : α) (hstep : 0 ≤ step0) :
    (∃ s, lsInit P bound step0 grad0 = (some s, 0, false) ∧
        (s = .uphill ∨ (s = .boundReached ∧ 0 ≤ bound ∧ bound ≤ 0))) ∨
    (∃ ss2 atB, lsInit P bound step0 grad0 = (none, ss2, atB) ∧ 0 ≤ ss2 ∧ (0 ≤ bound → ss2 ≤ bound) ∧
        (atB = true → ss2 = bound ∧ 0 ≤ bound)) := by
  unfold lsInit
  simp only []
  split
  · exact Or.inl ⟨_, rfl, Or.inl rfl⟩
  · split
    · rename_i hz
      exact Or.inl ⟨_, rfl, Or.inr ⟨rfl, by simpa using hz.1, hz.2⟩⟩
    · right
      have hclamp : 0 ≤ (if P.maxStep > 0 ∧ step0 > P.maxStep then P.maxStep else step0) := by
        split
        · rename_i hm; exact hm.1.le
        · exact hstep
      generalize (if P.maxStep > 0 ∧ step0 > P.maxStep then P.maxStep else step0) = ssc at hclamp ⊢
      by_cases hc : (decide (bound ≥ 0) = true) ∧ ssc ≥ bound
      · rw [if_pos hc]
        have hb0 : 0 ≤ bound := by simpa using hc.1
        exact ⟨_, _, rfl, hb0, fun _ => le_rfl, fun _ => ⟨rfl, hb0⟩⟩
      · rw [if_neg hc]
        refine ⟨_, _, rfl, hclamp, fun hb0 => ?_, fun h => by simp at h⟩
        have : ¬ ssc ≥ bound := fun h' => hc ⟨by simpa using hb0, h'⟩
        exact (not_le.mp this).le

/-- every step length handed to the user's function by `line_search`, and the step finally taken, is
    non-negative and, when a bound step length was supplied (`bound ≥ 0`), not larger than it -/
theorem lineSearch_ok (P : LSParams α) (phi : α → LSample α) (cubic : LSState α → α)
    (bound step0 cost0 grad0 curv : α) (u0 : Int) (hstep : 0 ≤ step0) :
    ROk bound step0 (lineSearch P phi cubic bound step0 cost0 grad0 curv u0) := by
  rcases lsInit_cases P bound step0 grad0 hstep with ⟨s, hs, _⟩ | ⟨ss2, atB, hs, h0, hb, _⟩
  · simp only [lineSearch, hs]
    exact ⟨fun t ht => by simp at ht, TOk_zero, Or.inr rfl⟩
  · simp only [lineSearch, hs]
    exact lsBracket_ok _ _ _ _ _ _ _ _ _ _ _ ⟨le_rfl, h0, hb, fun t ht => by simp at ht⟩

/-! ### line search: number of evaluations, meaning of `boundReached`, monotone cost -/

theorem lsRevert_evals (st : LSState α) (status : Status) (cost0 step0 : α) :
    (lsRevert st status cost0 step0).evals = st.evals := by
  unfold lsRevert; split <;> rfl

theorem lsFinish_evals (st : LSState α) (cost0 cf0 step0 : α) :
    (lsFinish st cost0 cf0 step0).evals = st.evals := by
  unfold lsFinish; split
  · rfl
  · split <;> rfl

theorem lsRefine_evals (P : LSParams α) (phi : α → LSample α) (cubic : LSState α → α)
    (cost0 grad0 curv cf0 step0 : α) (k : Nat) (st : LSState α) :
    (lsRefine P phi cubic cost0 grad0 curv cf0 step0 k st).evals.length ≤ st.evals.length + k := by
  induction k generalizing st with
  | zero => rw [lsRefine, lsFinish_evals]; omega
  | succ k ih =>
    rw [lsRefine]
    simp only []
    split
    · split <;> simp
    · split
      · rw [lsRevert_evals]; simp
      · split
        · rw [lsRevert_evals]; simp
        · split
          · simp
          · split
            · refine le_trans (ih _) ?_; simp; omega
            · split
              · refine le_trans (ih _) ?_; simp; omega
              · refine le_trans (ih _) ?_; simp; omega

theorem lsBracket_evals (P : LSParams α) (phi : α → LSample α) (cubic : LSState α → α) (bound : α) (isB : Bool)
    (cost0 grad0 curv cf0 step0 : α) (k : Nat) (st : LSState α) :
    (lsBracket P phi cubic bound isB cost0 grad0 curv cf0 step0 k st).evals.length ≤ st.evals.length + k + (if k = 0 then 0 else 1) := by
  induction k generalizing st with
  | zero => rw [lsBracket, lsFinish_evals]; simp
  | succ k ih =>
    rw [lsBracket]
    simp only []
    split
    · rw [lsRevert_evals]; simp
    · split
      · rw [lsRevert_evals]; simp
      · split
        · simp
        · split
          · refine le_trans (lsRefine_evals ..) ?_; simp; omega
          · split
            · simp
            · refine le_trans (ih _) ?_
              simp only [List.length_append, List.length_singleton]
              split <;> simp <;> omega

/-- `line_search` calls the user's function at most `max_line_search_iterations_ + 1` times (the bracketing loop and
    the refinement loop share one counter; the evaluation that ends the bracketing is not counted by the C++) -/
theorem lineSearch_evals_le (P : LSParams α) (phi : α → LSample α) (cubic : LSState α → α)
    (bound step0 cost0 grad0 curv : α) (u0 : Int) :
    (lineSearch P phi cubic bound step0 cost0 grad0 curv u0).evals.length ≤ P.maxIter + 1 := by
  unfold lineSearch
  split
  · simp
  · refine le_trans (lsBracket_evals ..) ?_
    simp only [List.length_nil]
    split <;> omega

/-- invariant of the bracketing loop: `at_bound` means the test point IS the bound step -/
def AtB (bound : α) (st : LSState α) : Prop := st.atBound = true → st.ss2 = bound ∧ 0 ≤ bound

/-- how `line_search` can report a bound -/
def BoundExit (bound : α) (r : LSResult α) : Prop :=
  r.exit = .boundReached → 0 ≤ bound ∧ ((r.moved = true ∧ r.t = bound) ∨ (r.moved = false ∧ bound = 0))

theorem lsRevert_exit {st : LSState α} {status : Status} {cost0 step0 : α} (hs : status ≠ .boundReached) :
    (lsRevert st status cost0 step0).exit ≠ .boundReached := by
  unfold lsRevert; split <;> exact hs

theorem lsFinish_exit (st : LSState α) (cost0 cf0 step0 : α) :
    (lsFinish st cost0 cf0 step0).exit ≠ .boundReached := by
  unfold lsFinish; split
  · simp
  · split <;> simp

theorem lsRefine_exit (P : LSParams α) (phi : α → LSample α) (cubic : LSState α → α)
    (cost0 grad0 curv cf0 step0 : α) (k : Nat) (st : LSState α) :
    (lsRefine P phi cubic cost0 grad0 curv cf0 step0 k st).exit ≠ .boundReached := by
  induction k generalizing st with
  | zero => rw [lsRefine]; exact lsFinish_exit _ _ _ _
  | succ k ih =>
    rw [lsRefine]
    simp only []
    split
    · split <;> simp
    · split
      · exact lsRevert_exit (by simp)
      · split
        · exact lsRevert_exit (by simp)
        · split
          · simp
          · split
            · exact ih _
            · split <;> exact ih _

theorem extendStep_atB (P : LSParams α) (bound : α) (ss1 ss2 cf1 cf2 grad2 : α) :
    (extendStep P bound (decide (bound ≥ 0)) ss1 ss2 cf1 cf2 grad2).2 = true →
    (extendStep P bound (decide (bound ≥ 0)) ss1 ss2 cf1 cf2 grad2).1 = bound ∧ 0 ≤ bound := by
  unfold extendStep
  simp only []
  generalize (if P.maxStep > 0 ∧ (if cf1 > cf2 + grad2 * (ss1 - ss2) then _ else _) - ss2 > P.maxStep then _ else _) = new1
  by_cases hc : (decide (bound ≥ 0) = true) ∧ new1 ≥ bound
  · rw [if_pos hc]; exact fun _ => ⟨rfl, by simpa using hc.1⟩
  · rw [if_neg hc]; intro h; simp at h

theorem lsBracket_boundExit (P : LSParams α) (phi : α → LSample α) (cubic : LSState α → α)
    (bound cost0 grad0 curv cf0 step0 : α) (k : Nat) (st : LSState α) (h : AtB bound st) :
    BoundExit bound (lsBracket P phi cubic bound (decide (bound ≥ 0)) cost0 grad0 curv cf0 step0 k st) := by
  induction k generalizing st with
  | zero => rw [lsBracket]; exact fun h' => absurd h' (lsFinish_exit _ _ _ _)
  | succ k ih =>
    rw [lsBracket]
    simp only []
    split
    · exact fun h' => absurd h' (lsRevert_exit (by simp))
    · split
      · exact fun h' => absurd h' (lsRevert_exit (by simp))
      · split
        · intro hx
          simp only at hx
          by_cases hab : st.atBound = true
          · obtain ⟨h1, h2⟩ := h hab
            exact ⟨h2, Or.inl ⟨rfl, h1⟩⟩
          · simp [hab] at hx
        · split
          · exact fun h' => absurd h' (lsRefine_exit _ _ _ _ _ _ _ _ _ _)
          · split
            · rename_i hab
              intro _
              obtain ⟨h1, h2⟩ := h hab
              exact ⟨h2, Or.inl ⟨rfl, h1⟩⟩
            · apply ih
              intro hb
              exact extendStep_atB P bound _ _ _ _ _ hb

theorem lineSearch_boundExit (P : LSParams α) (phi : α → LSample α) (cubic : LSState α → α)
    (bound step0 cost0 grad0 curv : α) (u0 : Int) (hstep : 0 ≤ step0) :
    BoundExit bound (lineSearch P phi cubic bound step0 cost0 grad0 curv u0) := by
  rcases lsInit_cases P bound step0 grad0 hstep with ⟨s, hs, hk⟩ | ⟨ss2, atB, hs, _, _, hab⟩
  · simp only [lineSearch, hs]
    intro hx
    simp only at hx
    rcases hk with rfl | ⟨_, h1, h2⟩
    · simp at hx
    · exact ⟨h1, Or.inr ⟨rfl, le_antisymm h2 h1⟩⟩
  · simp only [lineSearch, hs]
    exact lsBracket_boundExit _ _ _ _ _ _ _ _ _ _ _ hab

/-! ### line search: the cost it reports is the user's cost at the step it took, and never exceeds the start -/

/-- the reported cost is the sample at the accepted step (or the entry cost if nothing was accepted) and ≤ entry cost -/
def RCost (phi : α → LSample α) (cost0 : α) (r : LSResult α) : Prop :=
  r.cost ≤ cost0 ∧ (r.moved = true → r.cost = (phi r.t).cf) ∧ (r.moved = false → r.cost = cost0)

/-- point 1 of the line search carries an evaluated (or the entry) cost not above the entry cost -/
def C1 (phi : α → LSample α) (cost0 : α) (st : LSState α) : Prop :=
  st.cf1 ≤ cost0 ∧ (st.cf1 = (phi st.ss1).cf ∨ (¬ 0 < st.ss1 ∧ st.cf1 = cost0))

theorem lsRevert_cost {phi : α → LSample α} {cost0 : α} {st : LSState α} (h : C1 phi cost0 st) (status : Status) (step0 : α) :
    RCost phi cost0 (lsRevert st status cost0 step0) := by
  unfold lsRevert
  split
  · rename_i hp
    refine ⟨h.1, fun _ => ?_, fun hm => by simp at hm⟩
    rcases h.2 with h' | h'
    · exact h'
    · exact absurd hp h'.1
  · exact ⟨le_rfl, fun hm => by simp at hm, fun _ => rfl⟩

theorem lsFinish_cost {phi : α → LSample α} {cost0 : α} {st : LSState α} (h : C1 phi cost0 st)
    (h2 : st.cf2 = (phi st.ss2).cf ∨ ¬ st.cf2 < st.cf1) (step0 : α) :
    RCost phi cost0 (lsFinish st cost0 cost0 step0) := by
  unfold lsFinish
  split
  · rename_i hlt
    refine ⟨le_trans hlt.le h.1, fun _ => ?_, fun hm => by simp at hm⟩
    rcases h2 with h' | h'
    · exact h'
    · exact absurd hlt h'
  · split
    · rename_i hlt
      refine ⟨h.1, fun _ => ?_, fun hm => by simp at hm⟩
      rcases h.2 with h' | h'
      · exact h'
      · exact absurd h'.2 (ne_of_lt hlt)
    · exact ⟨le_rfl, fun hm => by simp at hm, fun _ => rfl⟩

theorem wolfe_cost {P : LSParams α} {cost0 grad0 curv ss : α} {s : LSample α} (ha : 0 ≤ P.armijo) (hg : grad0 ≤ 0)
    (hss : 0 ≤ ss) (hw : wolfe P cost0 grad0 curv ss s = true) : s.cf ≤ cost0 := by
  unfold wolfe at hw
  simp only [Bool.and_eq_true, decide_eq_true_eq] at hw
  have : P.armijo * ss * grad0 ≤ 0 := mul_nonpos_of_nonneg_of_nonpos (mul_nonneg ha hss) hg
  linarith [hw.1]

theorem lsRefine_cost (P : LSParams α) (phi : α → LSample α) (cubic : LSState α → α)
    (bound cost0 grad0 curv step0 : α) (ha : 0 ≤ P.armijo) (hg : grad0 ≤ 0) (k : Nat) (st : LSState α)
    (hi : LSInv bound st) (h : C1 phi cost0 st) (h2 : st.cf2 = (phi st.ss2).cf) :
    RCost phi cost0 (lsRefine P phi cubic cost0 grad0 curv cost0 step0 k st) := by
  induction k generalizing st with
  | zero => exact lsFinish_cost h (Or.inl h2) _
  | succ k ih =>
    rw [lsRefine]
    by_cases h21 : st.ss2 ≤ st.ss1
    · rw [if_pos h21]
      split
      · rename_i hlt
        refine ⟨h.1, fun _ => ?_, fun hm => by simp at hm⟩
        rcases h.2 with h' | h'
        · exact h'
        · exact absurd h'.2 (ne_of_lt hlt)
      · exact ⟨le_rfl, fun hm => by simp at hm, fun _ => rfl⟩
    · rw [if_neg h21]
      obtain ⟨hc1, hc2⟩ := cubicClamp_between hi.2.1 (cubic st)
      have h3 : TOk bound (cubicClamp st.ss1 st.ss2 (cubic st)) :=
        ⟨le_trans hi.1 hc1, fun hb => le_trans hc2 (hi.2.2.1 hb)⟩
      have hev := evals_append_ok hi.2.2.2 h3
      have h' : C1 phi cost0 { st with evals := st.evals ++ [cubicClamp st.ss1 st.ss2 (cubic st)] } := h
      simp only []
      split
      · exact lsRevert_cost h' _ _
      · split
        · exact lsRevert_cost h' _ _
        · split
          · rename_i hw
            exact ⟨wolfe_cost ha hg h3.1 hw, fun _ => rfl, fun hm => by simp at hm⟩
          · split
            · exact ih _ ⟨hi.1, hc1, fun hb => le_trans hc2 (hi.2.2.1 hb), hev⟩ h rfl
            · split
              · rename_i hlt
                exact ih _ ⟨le_trans hi.1 hc1, hc2, hi.2.2.1, hev⟩ ⟨le_trans hlt.le h.1, Or.inl rfl⟩ h2
              · exact ih _ ⟨hi.1, hc1, fun hb => le_trans hc2 (hi.2.2.1 hb), hev⟩ h rfl

theorem lsBracket_cost (P : LSParams α) (phi : α → LSample α) (cubic : LSState α → α)
    (bound cost0 grad0 curv step0 : α) (ha : 0 ≤ P.armijo) (hg : grad0 ≤ 0) (k : Nat) (st : LSState α)
    (hi : LSInv bound st) (h : C1 phi cost0 st) (h2 : ¬ st.cf2 < st.cf1) :
    RCost phi cost0 (lsBracket P phi cubic bound (decide (bound ≥ 0)) cost0 grad0 curv cost0 step0 k st) := by
  induction k generalizing st with
  | zero => exact lsFinish_cost h (Or.inr h2) _
  | succ k ih =>
    rw [lsBracket]
    have hev := evals_append_ok hi.2.2.2 hi.ss2
    have h' : C1 phi cost0 { st with evals := st.evals ++ [st.ss2] } := h
    simp only []
    split
    · exact lsRevert_cost h' _ _
    · split
      · exact lsRevert_cost h' _ _
      · split
        · rename_i hw
          exact ⟨wolfe_cost ha hg hi.ss2.1 hw, fun _ => rfl, fun hm => by simp at hm⟩
        · split
          · exact lsRefine_cost P phi cubic bound cost0 grad0 curv step0 ha hg _ _ ⟨hi.1, hi.2.1, hi.2.2.1, hev⟩ h rfl
          · rename_i hnb
            have hlt : (phi st.ss2).cf < st.cf1 := by
              by_contra hc
              exact hnb (Or.inr (not_lt.mp hc))
            split
            · exact ⟨le_trans hlt.le h.1, fun _ => rfl, fun hm => by simp at hm⟩
            · obtain ⟨he1, he2⟩ := extendStep_ok P bound st.ss1 st.ss2 st.cf1 (phi st.ss2).cf (phi st.ss2).dg
                hi.1 hi.2.1 hi.2.2.1
              exact ih _ ⟨le_trans hi.1 hi.2.1, he1, he2, hev⟩ ⟨le_trans hlt.le h.1, Or.inl rfl⟩ (lt_irrefl _)

/-- **reported cost / monotone cost** of `line_search`: the cost it leaves in `cost_function_` is the user's cost at
    the step it took (the entry cost if it took none) and does not exceed the entry cost -/
theorem lineSearch_cost (P : LSParams α) (phi : α → LSample α) (cubic : LSState α → α)
    (bound step0 cost0 grad0 curv : α) (u0 : Int) (hstep : 0 ≤ step0) (ha : 0 ≤ P.armijo) :
    RCost phi cost0 (lineSearch P phi cubic bound step0 cost0 grad0 curv u0) := by
  rcases lsInit_cases P bound step0 grad0 hstep with ⟨s, hs, _⟩ | ⟨ss2, atB, hs, h0, hb, _⟩
  · simp only [lineSearch, hs]
    exact ⟨le_rfl, fun hm => by simp at hm, fun _ => rfl⟩
  · simp only [lineSearch, hs]
    have hg : grad0 ≤ 0 := by
      by_contra hc
      have hpos : grad0 ≥ 0 := (not_le.mp hc).le
      unfold lsInit at hs
      simp only [] at hs
      rw [if_pos hpos] at hs
      simp at hs
    exact lsBracket_cost P phi cubic bound cost0 grad0 curv step0 ha hg _ _
      ⟨le_rfl, h0, hb, fun t ht => by simp at ht⟩ ⟨le_rfl, Or.inr ⟨lt_irrefl _, rfl⟩⟩ (lt_irrefl _)

/-! ### the bounded line-search minimizers: every state handed to the user lies in the box -/

/-- trace hypothesis on the "no bound" sentinel: whenever a variable moves towards a real bound, the nearest-bound
    loop registers a face (it does unless the distance exceeds `big`, the largest representable number) -/
def NBExact (n : Nat) (big nd : α) (x d lo up : Vec α) : Prop :=
  (nearestBound n big nd x d lo up).idx = none →
    ∀ j < n, ¬ (d j > 0 ∧ up j < big) ∧ ¬ (d j < 0 ∧ lo j > -big)

theorem nb_b_nonneg {n : Nat} {big nd : α} {x d lo up : Vec α} (hnd : 0 ≤ nd) (hx : InBox big n lo up x)
    {i : Nat} (hi : (nearestBound n big nd x d lo up).idx = some i) : 0 ≤ (nearestBound n big nd x d lo up).b := by
  obtain ⟨hg, _⟩ := nearestBound_spec n big nd x d lo up
  obtain ⟨hin, h⟩ := hg.2.2 i hi
  rcases h with ⟨_, hd, hu, hb⟩ | ⟨_, hd, hl, hb⟩
  · rw [hb, localUp]
    have := ((hx i hin).2 hu)
    exact div_nonneg (mul_nonneg hnd (by linarith)) hd.le
  · rw [hb, localLo]
    have := ((hx i hin).1 hl)
    rw [div_eq_mul_inv]
    have h1 : nd * (lo i - x i) ≤ 0 := mul_nonpos_of_nonneg_of_nonpos hnd (by linarith)
    have h2 : (d i)⁻¹ ≤ 0 := inv_nonpos.mpr hd.le
    exact mul_nonneg_of_nonpos_of_nonpos h1 h2

/-- every admissible step along the search line stays in the box -/
theorem linePt_inBox {n : Nat} {big nd : α} {x d lo up : Vec α} (hnd : 0 ≤ nd) (hx : InBox big n lo up x)
    (hex : NBExact n big nd x d lo up) {t : α} (ht : TOk (nbBound (nearestBound n big nd x d lo up)) t) :
    InBox big n lo up (linePt x d (1 / nd) t) := by
  obtain ⟨hg, hle⟩ := nearestBound_spec n big nd x d lo up
  have hs : 0 ≤ t * (1 / nd) := mul_nonneg ht.1 (by positivity)
  intro j hj
  have hxj := hx j hj
  simp only [linePt]
  -- the step is bounded by the distance to any face a variable moves towards
  have htb : ∀ i, (nearestBound n big nd x d lo up).idx = some i → t ≤ (nearestBound n big nd x d lo up).b := by
    intro i hi
    have h0 := nb_b_nonneg hnd hx hi
    have : nbBound (nearestBound n big nd x d lo up) = (nearestBound n big nd x d lo up).b := by
      simp [nbBound, hi, max_eq_left h0]
    rw [this] at ht
    exact ht.2 h0
  constructor
  · intro hl
    rcases lt_trichotomy (d j) 0 with hd | hd | hd
    · -- moving down towards a real lower bound
      cases hidx : (nearestBound n big nd x d lo up).idx with
      | none => exact absurd ⟨hd, hl⟩ (hex hidx j hj).2
      | some i =>
        have h1 := le_trans (htb i hidx) ((hle j hj).2 ⟨hd, hl⟩)
        exact step_ge_lo hnd hd (hxj.1 hl) ht.1 h1
    · rw [hd]; simpa using hxj.1 hl
    · have : 0 ≤ t * (1 / nd) * d j := mul_nonneg hs hd.le
      linarith [hxj.1 hl]
  · intro hu
    rcases lt_trichotomy (d j) 0 with hd | hd | hd
    · have : t * (1 / nd) * d j ≤ 0 := mul_nonpos_of_nonneg_of_nonpos hs hd.le
      linarith [hxj.2 hu]
    · rw [hd]; simpa using hxj.2 hu
    · cases hidx : (nearestBound n big nd x d lo up).idx with
      | none => exact absurd ⟨hd, hu⟩ (hex hidx j hj).1
      | some i =>
        have h1 := le_trans (htb i hidx) ((hle j hj).1 ⟨hd, hu⟩)
        exact step_le_up hnd hd (hxj.2 hu) ht.1 h1

variable {δ : Type}

/-- loop invariant for C18: current state and every state handed to the user lie in the box -/
def PInv (S : Settings α) (st : DSt α δ) : Prop :=
  InBox S.big S.n S.lo S.up st.x ∧ (∀ c ∈ st.calls, InBox S.big S.n S.lo S.up c) ∧ 0 ≤ st.stepSize

/-- assumptions on the direction strategy needed for feasibility: step sizes stay non-negative -/
def DirOK (D : DirStrategy α δ) : Prop :=
  (∀ ds it x g s, 0 ≤ s → 0 ≤ (D.dir ds it x g s).2.2) ∧ ∀ s, 0 ≤ s → 0 ≤ D.nextStep s

/-- the sentinel hypothesis for the pass that starts in `st2` (after evaluation and release) -/
def SentOK (S : Settings α) (nrm : Vec α → α) (D : DirStrategy α δ) (st2 : DSt α δ) : Prop :=
  NBExact S.n S.big (nrm (sDir D st2)) st2.x (sDir D st2) S.lo S.up

theorem lsEval_inv {S : Settings α} (f : Vec α → Sample α) {st : DSt α δ} (h : PInv S st) : PInv S (lsEval f st) := by
  unfold lsEval
  have hc : ∀ c ∈ st.calls ++ [st.x], InBox S.big S.n S.lo S.up c := by
    intro c hc
    rcases List.mem_append.mp hc with h' | h'
    · exact h.2.1 c h'
    · simp only [List.mem_singleton] at h'; subst h'; exact h.1
  split
  · simp only []
    split
    · exact ⟨h.1, hc, h.2.2⟩
    · split
      · exact ⟨h.1, hc, h.2.2⟩
      · exact ⟨h.1, hc, h.2.2⟩
  · exact h

theorem lsRelease_inv {S : Settings α} (nrm : Vec α → α) (D : DirStrategy α δ) {st : DSt α δ} (h : PInv S st) :
    PInv S (lsRelease S nrm D st) := h

theorem lsSearch_x (S : Settings α) (f : Vec α → Sample α) (nrm : Vec α → α) (cubic : LSState α → α)
    (D : DirStrategy α δ) (st : DSt α δ) :
    (lsSearch S f nrm cubic D st).x =
      if (sLS S f nrm cubic D st).moved then sPt nrm D st (sLS S f nrm cubic D st).t else st.x := rfl

theorem lsSearch_calls (S : Settings α) (f : Vec α → Sample α) (nrm : Vec α → α) (cubic : LSState α → α)
    (D : DirStrategy α δ) (st : DSt α δ) :
    (lsSearch S f nrm cubic D st).calls = st.calls ++ (sLS S f nrm cubic D st).evals.map (sPt nrm D st) := rfl

theorem lsSearch_stepSize (S : Settings α) (f : Vec α → Sample α) (nrm : Vec α → α) (cubic : LSState α → α)
    (D : DirStrategy α δ) (st : DSt α δ) :
    (lsSearch S f nrm cubic D st).stepSize = D.nextStep (sLS S f nrm cubic D st).stepSize := rfl

theorem sLS_ok (S : Settings α) (f : Vec α → Sample α) (nrm : Vec α → α) (cubic : LSState α → α)
    {D : DirStrategy α δ} {st : DSt α δ} (hD : DirOK D) (h0 : 0 ≤ st.stepSize) :
    ROk (nbBound (sNB S nrm D st)) (D.dir st.ds st.nIter st.x st.g st.stepSize).2.2 (sLS S f nrm cubic D st) :=
  lineSearch_ok _ _ _ _ _ _ _ _ _ (hD.1 st.ds st.nIter st.x st.g st.stepSize h0)

theorem lsSearch_inv {S : Settings α} (f : Vec α → Sample α) {nrm : Vec α → α} (cubic : LSState α → α)
    {D : DirStrategy α δ} {st : DSt α δ} (hn : ∀ v, 0 ≤ nrm v) (hD : DirOK D) (hs : SentOK S nrm D st)
    (h : PInv S st) : PInv S (lsSearch S f nrm cubic D st) := by
  have hstep := hD.1 st.ds st.nIter st.x st.g st.stepSize h.2.2
  have hpt : ∀ t, TOk (nbBound (sNB S nrm D st)) t → InBox S.big S.n S.lo S.up (sPt nrm D st t) :=
    fun t ht => linePt_inBox (hn _) h.1 hs ht
  have hr := sLS_ok S f nrm cubic hD h.2.2
  refine ⟨?_, ?_, ?_⟩
  · rw [lsSearch_x]
    split
    · exact hpt _ hr.2.1
    · exact h.1
  · intro c hc
    rw [lsSearch_calls] at hc
    simp only [List.mem_append, List.mem_map] at hc
    rcases hc with hc | ⟨t, ht, rfl⟩
    · exact h.2.1 c hc
    · exact hpt t (hr.1 t ht)
  · rw [lsSearch_stepSize]
    apply hD.2
    rcases hr.2.2 with h' | h'
    · rw [h']; exact hr.2.1.1
    · rw [h']; exact hstep

theorem lsPass_inv {S : Settings α} (f : Vec α → Sample α) {nrm : Vec α → α} (cubic : LSState α → α)
    {D : DirStrategy α δ} {st : DSt α δ} (hn : ∀ v, 0 ≤ nrm v) (hD : DirOK D)
    (hs : SentOK S nrm D (lsRelease S nrm D (lsEval f st))) (h : PInv S st) :
    PInv S (lsPass S f nrm cubic D st) := by
  unfold lsPass
  simp only []
  split
  · exact lsEval_inv f h
  · split
    · exact lsRelease_inv nrm D (lsEval_inv f h)
    · exact lsSearch_inv f cubic hn hD hs (lsRelease_inv nrm D (lsEval_inv f h))

/-! ### whole runs -/

theorem loopN_succ' {σ : Type} (body : σ → σ) (running : σ → Bool) (k : Nat) (s : σ) :
    loopN body running (k + 1) s =
      if running (loopN body running k s) then body (loopN body running k s) else loopN body running k s := by
  induction k generalizing s with
  | zero => rfl
  | succ k ih =>
    rw [loopN]
    by_cases h : running s
    · rw [if_pos h, ih (body s)]
      conv_rhs => rw [loopN, if_pos h]
    · rw [if_neg h]
      have : loopN body running (k + 1) s = s := by rw [loopN, if_neg h]
      rw [this, if_neg h]

/-- once the loop condition is false the state no longer changes -/
theorem loopN_stable {σ : Type} (body : σ → σ) (running : σ → Bool) (k m : Nat) (s : σ)
    (h : running (loopN body running k s) = false) : loopN body running (k + m) s = loopN body running k s := by
  induction m with
  | zero => rfl
  | succ m ih =>
    rw [← Nat.add_assoc, loopN_succ', ih, h]; simp

/-- the pass function and loop condition of `minimize_*_bounded` -/
def lsRunning (st : DSt α δ) : Bool := decide (st.status = .notYet)

/-- state after `k` passes of the main loop -/
def lsIter (S : Settings α) (f : Vec α → Sample α) (nrm : Vec α → α) (cubic : LSState α → α)
    (D : DirStrategy α δ) (st0 : DSt α δ) (k : Nat) : DSt α δ :=
  loopN (lsPass S f nrm cubic D) lsRunning k st0

theorem lsIter_inv {S : Settings α} (f : Vec α → Sample α) {nrm : Vec α → α} (cubic : LSState α → α)
    {D : DirStrategy α δ} {st0 : DSt α δ} (hn : ∀ v, 0 ≤ nrm v) (hD : DirOK D)
    (hsent : ∀ k, SentOK S nrm D (lsRelease S nrm D (lsEval f (lsIter S f nrm cubic D st0 k))))
    (h0 : PInv S st0) : ∀ k, PInv S (lsIter S f nrm cubic D st0 k) := by
  intro k
  induction k with
  | zero => exact h0
  | succ k ih =>
    unfold lsIter at ih ⊢
    rw [loopN_succ']
    split
    · exact lsPass_inv f cubic hn hD (hsent k) ih
    · exact ih

theorem lsStart_inv {S : Settings α} (hv : ValidBounds S.n S.lo S.up) (x0 : Vec α) (d0 : δ) {step0 : α}
    (h0 : 0 ≤ step0) : PInv S (lsStart S x0 d0 step0) :=
  ⟨(project_box hv x0).inBox, fun c hc => by simp [lsStart] at hc, h0⟩

theorem lsEpilogue_inv {S : Settings α} (f : Vec α → Sample α) {st : DSt α δ} (h : PInv S st) :
    PInv S (lsEpilogue S f st) := by
  unfold lsEpilogue
  split
  · refine ⟨h.1, ?_, h.2.2⟩
    intro c hc
    simp only [List.mem_append, List.mem_singleton] at hc
    rcases hc with hc | rfl
    · exact h.2.1 c hc
    · exact h.1
  · exact h

/-! ### iteration count and termination -/

theorem lsEval_nIter (f : Vec α → Sample α) (st : DSt α δ) : (lsEval f st).nIter = st.nIter := by
  unfold lsEval
  split
  · simp only []
    split
    · rfl
    · split <;> rfl
  · rfl

theorem lsPass_nIter_le (S : Settings α) (f : Vec α → Sample α) (nrm : Vec α → α) (cubic : LSState α → α)
    (D : DirStrategy α δ) (st : DSt α δ) :
    (lsPass S f nrm cubic D st).nIter ≤ st.nIter + 1 ∧
    ((lsPass S f nrm cubic D st).status = .notYet →
      (lsPass S f nrm cubic D st).nIter = st.nIter + 1 ∧ ((st.nIter + 1 : Nat) : Int) < S.maxIter) := by
  unfold lsPass
  simp only []
  split
  · rename_i h1
    exact ⟨by rw [lsEval_nIter]; omega, fun h => absurd h h1⟩
  · split
    · rename_i h2
      refine ⟨?_, fun h => absurd h h2⟩
      show (lsEval f st).nIter ≤ st.nIter + 1
      rw [lsEval_nIter]; omega
    · have hn : (lsSearch S f nrm cubic D (lsRelease S nrm D (lsEval f st))).nIter = st.nIter + 1 := by
        show (lsEval f st).nIter + 1 = st.nIter + 1
        rw [lsEval_nIter]
      refine ⟨hn.le, fun h => ⟨hn, ?_⟩⟩
      -- status notYet after the final test means the iteration count is still below the maximum
      have hst : (lsSearch S f nrm cubic D (lsRelease S nrm D (lsEval f st))).status =
          (if _ = Status.notYet ∧ (((lsRelease S nrm D (lsEval f st)).nIter + 1 : Nat) : Int) ≥ S.maxIter
            then Status.maxIter else _) := rfl
      have key : ∀ (s0 : Status) (c : Prop) [Decidable c],
          (if s0 = Status.notYet ∧ c then Status.maxIter else s0) = Status.notYet → ¬ c := by
        intro s0 c _ hh hc
        by_cases h0 : s0 = Status.notYet
        · rw [if_pos ⟨h0, hc⟩] at hh; simp at hh
        · rw [if_neg (fun h' => h0 h'.1)] at hh; exact h0 hh
      have h' := key _ _ (hst ▸ h)
      have e : (lsRelease S nrm D (lsEval f st)).nIter = st.nIter := lsEval_nIter f st
      rw [e] at h'
      exact not_le.mp h'

/-- while the loop is running the iteration counter equals the number of passes and is below the maximum -/
theorem lsIter_count (S : Settings α) (f : Vec α → Sample α) (nrm : Vec α → α) (cubic : LSState α → α)
    (D : DirStrategy α δ) (st0 : DSt α δ) (h0 : st0.nIter = 0) (k : Nat) :
    (lsIter S f nrm cubic D st0 k).nIter ≤ k ∧
    ((lsIter S f nrm cubic D st0 k).status = .notYet → (lsIter S f nrm cubic D st0 k).nIter = k ∧
      (0 < k → (k : Int) < S.maxIter)) := by
  induction k with
  | zero => exact ⟨by simp [lsIter, loopN, h0], fun _ => ⟨by simp [lsIter, loopN, h0], fun h => absurd h (by omega)⟩⟩
  | succ k ih =>
    unfold lsIter at ih ⊢
    rw [loopN_succ']
    by_cases hr : lsRunning (loopN (lsPass S f nrm cubic D) lsRunning k st0) = true
    · rw [if_pos hr]
      have hs : (loopN (lsPass S f nrm cubic D) lsRunning k st0).status = .notYet := by
        simpa [lsRunning] using hr
      obtain ⟨hk, _⟩ := ih.2 hs
      obtain ⟨p1, p2⟩ := lsPass_nIter_le S f nrm cubic D (loopN (lsPass S f nrm cubic D) lsRunning k st0)
      refine ⟨by omega, fun h => ?_⟩
      obtain ⟨q1, q2⟩ := p2 h
      rw [hk] at q1 q2
      exact ⟨q1, fun _ => q2⟩
    · rw [if_neg hr]
      refine ⟨by omega, fun h => ?_⟩
      exact absurd (by simpa [lsRunning] using h) hr

/-! ### Levenberg family: capture of the first bound reached -/

theorem minLoc_spec (val : Nat → α) (l : List Nat) :
    (minLoc val l = none ↔ l = []) ∧
    ∀ i v, minLoc val l = some (i, v) → i ∈ l ∧ v = val i ∧ ∀ j ∈ l, v ≤ val j := by
  induction l with
  | nil => exact ⟨by simp [minLoc], fun i v h => by simp [minLoc] at h⟩
  | cons a l ih =>
    refine ⟨by
      simp only [minLoc, reduceCtorEq, iff_false]
      cases h : minLoc val l with
      | none => simp
      | some p => obtain ⟨j, v⟩ := p; simp only []; split <;> simp, ?_⟩
    intro i v h
    simp only [minLoc] at h
    cases hm : minLoc val l with
    | none =>
      rw [hm] at h
      simp only [Option.some.injEq, Prod.mk.injEq] at h
      obtain ⟨rfl, rfl⟩ := h
      have hl : l = [] := ih.1.mp hm
      subst hl
      exact ⟨by simp, rfl, fun j hj => by simp at hj; subst hj; exact le_rfl⟩
    | some p =>
      obtain ⟨j, w⟩ := p
      rw [hm] at h
      simp only [] at h
      obtain ⟨hj, hw, hall⟩ := ih.2 j w hm
      split at h
      · rename_i hlt
        simp only [Option.some.injEq, Prod.mk.injEq] at h
        obtain ⟨rfl, rfl⟩ := h
        refine ⟨by simp [hj], hw, fun k hk => ?_⟩
        rcases List.mem_cons.mp hk with rfl | hk
        · exact hlt.le
        · exact hall k hk
      · rename_i hlt
        simp only [Option.some.injEq, Prod.mk.injEq] at h
        obtain ⟨rfl, rfl⟩ := h
        refine ⟨by simp, rfl, fun k hk => ?_⟩
        rcases List.mem_cons.mp hk with rfl | hk
        · exact le_rfl
        · exact le_trans (not_lt.mp hlt) (hall k hk)

/-- the two collision sets and their fractions, as in `lmCapture` -/
def colMin (n : Nat) (free : Nat → Bool) (x dx lo : Vec α) : List Nat :=
  (List.range n).filter (fun i => free i && decide (x i + dx i ≤ lo i))
def colMax (n : Nat) (free : Nat → Bool) (x dx up : Vec α) : List Nat :=
  (List.range n).filter (fun i => free i && decide (x i + dx i ≥ up i))
def fracMin (x dx lo : Vec α) (i : Nat) : α := -(x i - lo i) / dx i
def fracMax (x dx up : Vec α) (i : Nat) : α := (up i - x i) / dx i

theorem lmCapture_eq (n : Nat) (free : Nat → Bool) (x dx lo up : Vec α) :
    lmCapture n free x dx lo up =
      (if (match minLoc (fracMin x dx lo) (colMin n free x dx lo) with | none => ((1 + 1 : α), 0) | some (i, v) => (v, i)).1 ≤ 1 ∨
          (match minLoc (fracMax x dx up) (colMax n free x dx up) with | none => ((1 + 1 : α), 0) | some (i, v) => (v, i)).1 ≤ 1 then
        if (match minLoc (fracMin x dx lo) (colMin n free x dx lo) with | none => ((1 + 1 : α), 0) | some (i, v) => (v, i)).1 <
            (match minLoc (fracMax x dx up) (colMax n free x dx up) with | none => ((1 + 1 : α), 0) | some (i, v) => (v, i)).1 then
          ⟨(match minLoc (fracMin x dx lo) (colMin n free x dx lo) with | none => ((1 + 1 : α), 0) | some (i, v) => (v, i)).1,
           (match minLoc (fracMin x dx lo) (colMin n free x dx lo) with | none => ((1 + 1 : α), 0) | some (i, v) => (v, i)).2, -1⟩
        else
          ⟨(match minLoc (fracMax x dx up) (colMax n free x dx up) with | none => ((1 + 1 : α), 0) | some (i, v) => (v, i)).1,
           (match minLoc (fracMax x dx up) (colMax n free x dx up) with | none => ((1 + 1 : α), 0) | some (i, v) => (v, i)).2, 1⟩
      else ⟨1, 0, 0⟩) := rfl

theorem mem_colMin {n : Nat} {free : Nat → Bool} {x dx lo : Vec α} {i : Nat} :
    i ∈ colMin n free x dx lo ↔ i < n ∧ free i = true ∧ x i + dx i ≤ lo i := by
  simp [colMin, List.mem_filter]
theorem mem_colMax {n : Nat} {free : Nat → Bool} {x dx up : Vec α} {i : Nat} :
    i ∈ colMax n free x dx up ↔ i < n ∧ free i = true ∧ x i + dx i ≥ up i := by
  simp [colMax, List.mem_filter]

/-- what the capture record means -/
structure CaptureSpec (n : Nat) (free : Nat → Bool) (x dx lo up : Vec α) (c : Capture α) : Prop where
  /-- the fraction is the smallest collision fraction (1 when nothing collides) -/
  le_min : ∀ j ∈ colMin n free x dx lo, c.frac ≤ fracMin x dx lo j
  le_max : ∀ j ∈ colMax n free x dx up, c.frac ≤ fracMax x dx up j
  le_one : c.frac ≤ 1
  /-- the captured variable is the one whose fraction it is (F-18: `minloc`, not `maxloc`) -/
  lower : c.ty = -1 → c.idx ∈ colMin n free x dx lo ∧ c.frac = fracMin x dx lo c.idx
  upper : c.ty = 1 → c.idx ∈ colMax n free x dx up ∧ c.frac = fracMax x dx up c.idx
  none : c.ty = 0 → c.frac = 1 ∧ colMin n free x dx lo = [] ∧ colMax n free x dx up = []
  ty_cases : c.ty = -1 ∨ c.ty = 1 ∨ c.ty = 0

theorem fracMin_le_one {x dx lo : Vec α} {i : Nat} (hx : lo i ≤ x i) (hc : x i + dx i ≤ lo i) :
    fracMin x dx lo i ≤ 1 ∧ 0 ≤ fracMin x dx lo i := by
  unfold fracMin
  rcases (show dx i ≤ 0 by linarith).eq_or_lt with h0 | hneg
  · rw [h0]; simp
  · constructor
    · rw [div_le_one_of_neg hneg]; linarith
    · exact div_nonneg_of_nonpos (by linarith) hneg.le

theorem fracMax_le_one {x dx up : Vec α} {i : Nat} (hx : x i ≤ up i) (hc : x i + dx i ≥ up i) :
    fracMax x dx up i ≤ 1 ∧ 0 ≤ fracMax x dx up i := by
  unfold fracMax
  rcases (show 0 ≤ dx i by linarith).eq_or_lt with h0 | hpos
  · rw [← h0]; simp
  · constructor
    · rw [div_le_one hpos]; linarith
    · exact div_nonneg (by linarith) hpos.le

theorem lmCapture_spec (n : Nat) (free : Nat → Bool) {x dx lo up : Vec α} (hx : Box n lo up x) :
    CaptureSpec n free x dx lo up (lmCapture n free x dx lo up) := by
  rw [lmCapture_eq]
  obtain ⟨hn1, hs1⟩ := minLoc_spec (fracMin x dx lo) (colMin n free x dx lo)
  obtain ⟨hn2, hs2⟩ := minLoc_spec (fracMax x dx up) (colMax n free x dx up)
  have two : (1 : α) < 1 + 1 := by linarith [zero_lt_one (α := α)]
  cases h1 : minLoc (fracMin x dx lo) (colMin n free x dx lo) with
  | none =>
    have e1 := hn1.mp h1
    cases h2 : minLoc (fracMax x dx up) (colMax n free x dx up) with
    | none =>
      have e2 := hn2.mp h2
      simp only []
      rw [if_neg (by rintro (h | h) <;> exact absurd h (not_le.mpr two))]
      exact ⟨by simp [e1], by simp [e2], le_rfl, by simp, by simp, fun _ => ⟨rfl, e1, e2⟩, Or.inr (Or.inr rfl)⟩
    | some p =>
      obtain ⟨i2, v2⟩ := p
      obtain ⟨m2, rfl, a2⟩ := hs2 i2 v2 h2
      have hb := fracMax_le_one (hx i2 (mem_colMax.mp m2).1).2 (mem_colMax.mp m2).2.2
      simp only []
      rw [if_pos (Or.inr hb.1), if_neg (not_lt.mpr (le_trans hb.1 two.le))]
      exact ⟨by simp [e1], a2, hb.1, by simp, fun _ => ⟨m2, rfl⟩, by simp, Or.inr (Or.inl rfl)⟩
  | some p =>
    obtain ⟨i1, v1⟩ := p
    obtain ⟨m1, rfl, a1⟩ := hs1 i1 v1 h1
    have hb1 := fracMin_le_one (hx i1 (mem_colMin.mp m1).1).1 (mem_colMin.mp m1).2.2
    cases h2 : minLoc (fracMax x dx up) (colMax n free x dx up) with
    | none =>
      have e2 := hn2.mp h2
      simp only []
      rw [if_pos (Or.inl hb1.1), if_pos (lt_of_le_of_lt hb1.1 two)]
      exact ⟨a1, by simp [e2], hb1.1, fun _ => ⟨m1, rfl⟩, by simp, by simp, Or.inl rfl⟩
    | some p =>
      obtain ⟨i2, v2⟩ := p
      obtain ⟨m2, rfl, a2⟩ := hs2 i2 v2 h2
      have hb2 := fracMax_le_one (hx i2 (mem_colMax.mp m2).1).2 (mem_colMax.mp m2).2.2
      simp only []
      rw [if_pos (Or.inl hb1.1)]
      split
      · rename_i hlt
        exact ⟨a1, fun j hj => le_trans hlt.le (a2 j hj), hb1.1, fun _ => ⟨m1, rfl⟩, by simp, by simp, Or.inl rfl⟩
      · rename_i hlt
        exact ⟨fun j hj => le_trans (not_lt.mp hlt) (a1 j hj), a2, hb2.1, by simp, fun _ => ⟨m2, rfl⟩, by simp,
          Or.inr (Or.inl rfl)⟩

/-- the fraction of the step that is taken is non-negative -/
theorem lmCapture_frac_nonneg (n : Nat) (free : Nat → Bool) {x dx lo up : Vec α} (hx : Box n lo up x) :
    0 ≤ (lmCapture n free x dx lo up).frac := by
  have h := lmCapture_spec n free (dx := dx) hx
  rcases h.ty_cases with ht | ht | ht
  · obtain ⟨m, e⟩ := h.lower ht
    rw [e]; exact (fracMin_le_one (hx _ (mem_colMin.mp m).1).1 (mem_colMin.mp m).2.2).2
  · obtain ⟨m, e⟩ := h.upper ht
    rw [e]; exact (fracMax_le_one (hx _ (mem_colMax.mp m).1).2 (mem_colMax.mp m).2.2).2
  · rw [(h.none ht).1]; exact zero_le_one

/-- before the clamp of F-63 the trial state already lies in the box: the clamp only removes rounding -/
theorem lmCapture_feasible (n : Nat) (free : Nat → Bool) {x dx lo up : Vec α} (hx : Box n lo up x) :
    Box n lo up (fun i => if free i then x i + dx i * (lmCapture n free x dx lo up).frac else x i) := by
  have h := lmCapture_spec n free (dx := dx) hx
  have h0 := lmCapture_frac_nonneg n free (dx := dx) hx
  intro i hi
  by_cases hf : free i = true
  · simp only [hf, ↓reduceIte]
    set fr := (lmCapture n free x dx lo up).frac with hfr
    have hxi := hx i hi
    constructor
    · by_cases hc : x i + dx i ≤ lo i
      · have hm : i ∈ colMin n free x dx lo := mem_colMin.mpr ⟨hi, hf, hc⟩
        have hle := h.le_min i hm
        rcases (show dx i ≤ 0 by linarith).eq_or_lt with hz | hneg
        · rw [hz]; simpa using hxi.1
        · -- fr ≤ (lo - x)/dx with dx < 0  ⇒  dx*fr ≥ lo - x
          have : dx i * fracMin x dx lo i ≤ dx i * fr := mul_le_mul_of_nonpos_left hle hneg.le
          have hne : dx i ≠ 0 := hneg.ne
          have e : dx i * fracMin x dx lo i = lo i - x i := by
            unfold fracMin; field_simp; ring
          linarith
      · have hc' : lo i < x i + dx i := not_le.mp hc
        rcases le_or_gt 0 (dx i) with hp | hneg
        · have : 0 ≤ dx i * fr := mul_nonneg hp h0
          linarith
        · have : dx i ≤ dx i * fr := by
            have := mul_le_mul_of_nonpos_left h.le_one hneg.le
            simpa using this
          linarith
    · by_cases hc : x i + dx i ≥ up i
      · have hm : i ∈ colMax n free x dx up := mem_colMax.mpr ⟨hi, hf, hc⟩
        have hle := h.le_max i hm
        rcases (show 0 ≤ dx i by linarith).eq_or_lt with hz | hpos
        · rw [← hz]; simpa using hxi.2
        · have : dx i * fr ≤ dx i * fracMax x dx up i := mul_le_mul_of_nonneg_left hle hpos.le
          have hne : dx i ≠ 0 := hpos.ne'
          have e : dx i * fracMax x dx up i = up i - x i := by
            unfold fracMax; field_simp
          linarith
      · have hc' : x i + dx i < up i := not_le.mp hc
        rcases le_or_gt (dx i) 0 with hp | hpos
        · have : dx i * fr ≤ 0 := mul_nonpos_of_nonpos_of_nonneg hp h0
          linarith
        · have : dx i * fr ≤ dx i := by
            have := mul_le_mul_of_nonneg_left h.le_one hpos.le
            simpa using this
          linarith
  · simp only [hf, Bool.false_eq_true, ↓reduceIte]
    exact hx i hi

/-- the captured variable lands exactly on the face it is flagged with -/
theorem lmCapture_lands (n : Nat) (free : Nat → Bool) {x dx lo up : Vec α} (hx : Box n lo up x) :
    ((lmCapture n free x dx lo up).ty = -1 →
      x (lmCapture n free x dx lo up).idx + dx (lmCapture n free x dx lo up).idx * (lmCapture n free x dx lo up).frac
        = lo (lmCapture n free x dx lo up).idx) ∧
    ((lmCapture n free x dx lo up).ty = 1 →
      x (lmCapture n free x dx lo up).idx + dx (lmCapture n free x dx lo up).idx * (lmCapture n free x dx lo up).frac
        = up (lmCapture n free x dx lo up).idx) := by
  have h := lmCapture_spec n free (dx := dx) hx
  constructor
  · intro ht
    obtain ⟨m, e⟩ := h.lower ht
    obtain ⟨hi, _, hc⟩ := mem_colMin.mp m
    rw [e]
    rcases (show dx (lmCapture n free x dx lo up).idx ≤ 0 by linarith [(hx _ hi).1]).eq_or_lt with hz | hneg
    · rw [hz] at hc ⊢
      have := (hx _ hi).1
      simp only [add_zero] at hc
      simp only [zero_mul, add_zero]
      exact le_antisymm hc this
    · have hne : dx (lmCapture n free x dx lo up).idx ≠ 0 := hneg.ne
      unfold fracMin; field_simp; ring
  · intro ht
    obtain ⟨m, e⟩ := h.upper ht
    obtain ⟨hi, _, hc⟩ := mem_colMax.mp m
    rw [e]
    rcases (show 0 ≤ dx (lmCapture n free x dx lo up).idx by linarith [(hx _ hi).2]).eq_or_lt with hz | hpos
    · rw [← hz] at hc ⊢
      have := (hx _ hi).2
      simp only [add_zero] at hc
      simp only [zero_mul, add_zero]
      exact le_antisymm this hc
    · have hne : dx (lmCapture n free x dx lo up).idx ≠ 0 := hpos.ne'
      unfold fracMax; field_simp; ring

/-! ### Levenberg family: loop invariant -/

/-- state, every state handed to the user, and the flags -/
def LMInv (S : LMSettings α) (st : LMSt α) : Prop :=
  Box S.n S.lo S.up st.x ∧ (∀ c ∈ st.calls, Box S.n S.lo S.up c) ∧ FlagsTrue S.n S.lo S.up st.x st.bs

theorem project_eq_of_mem {lo up v : α} (h1 : lo ≤ v) (h2 : v ≤ up) : max lo (min v up) = v := by
  rw [min_eq_left h2, max_eq_right h1]

theorem lmTry_box {S : LMSettings α} (hv : ValidBounds S.n S.lo S.up) (newtonSub : Vec α → (Nat → Int) → α → Vec α)
    (st : LMSt α) : Box S.n S.lo S.up (lmTry S newtonSub st).1 := project_box hv _

/-- in exact arithmetic the clamp of F-63 changes nothing, and the flags stay truthful when the step is accepted -/
theorem lmTry_flags {S : LMSettings α} (newtonSub : Vec α → (Nat → Int) → α → Vec α)
    {st : LMSt α} (h : LMInv S st) :
    FlagsTrue S.n S.lo S.up (lmTry S newtonSub st).1
      (if (lmTry S newtonSub st).2.frac < 1 then upd st.bs (lmTry S newtonSub st).2.idx (lmTry S newtonSub st).2.ty
       else st.bs) ∧
    ∀ i < S.n, (lmTry S newtonSub st).1 i =
      (if st.bs i = 0 then st.x i + limitStep S.n S.maxStep (newtonSub st.x st.bs st.damping) i * (lmTry S newtonSub st).2.frac
       else st.x i) := by
  set dx := limitStep S.n S.maxStep (newtonSub st.x st.bs st.damping) with hdx
  set free : Nat → Bool := fun i => decide (st.bs i = 0) with hfree
  have hfe := lmCapture_feasible S.n free (dx := dx) h.1
  have hl := lmCapture_lands S.n free (dx := dx) h.1
  have hsp := lmCapture_spec S.n free (dx := dx) h.1
  have hc : (lmTry S newtonSub st).2 = lmCapture S.n free st.x dx S.lo S.up := rfl
  -- the clamp is the identity
  have hid : ∀ i < S.n, (lmTry S newtonSub st).1 i =
      (if st.bs i = 0 then st.x i + dx i * (lmTry S newtonSub st).2.frac else st.x i) := by
    intro i hi
    have := hfe i hi
    show max (S.lo i) (min (if free i = true then st.x i + dx i * (lmCapture S.n free st.x dx S.lo S.up).frac else st.x i) (S.up i)) = _
    rw [project_eq_of_mem this.1 this.2, hc]
    simp only [hfree, decide_eq_true_eq]
  refine ⟨?_, hid⟩
  intro i hi
  rw [hid i hi, hc]
  by_cases hlt : (lmCapture S.n free st.x dx S.lo S.up).frac < 1
  · rw [if_pos hlt]
    by_cases hidx : i = (lmCapture S.n free st.x dx S.lo S.up).idx
    · simp only [upd, hidx, ↓reduceIte]
      -- the captured variable was free and lands on its face
      have hfree_idx : st.bs (lmCapture S.n free st.x dx S.lo S.up).idx = 0 := by
        rcases hsp.ty_cases with ht | ht | ht
        · have := (mem_colMin.mp (hsp.lower ht).1).2.1; simpa [hfree] using this
        · have := (mem_colMax.mp (hsp.upper ht).1).2.1; simpa [hfree] using this
        · exact absurd (hsp.none ht).1 (ne_of_lt hlt)
      rw [if_pos hfree_idx]
      exact ⟨fun ht => hl.1 ht, fun ht => hl.2 ht⟩
    · simp only [upd, hidx, ↓reduceIte]
      constructor
      · intro hb
        rw [if_neg (by omega)]
        exact (h.2.2 i hi).1 hb
      · intro hb
        rw [if_neg (by omega)]
        exact (h.2.2 i hi).2 hb
  · rw [if_neg hlt]
    constructor
    · intro hb
      rw [if_neg (by omega)]
      exact (h.2.2 i hi).1 hb
    · intro hb
      rw [if_neg (by omega)]
      exact (h.2.2 i hi).2 hb

theorem calls_snoc {n : Nat} {lo up : Vec α} {l : List (Vec α)} {c : Vec α} (hl : ∀ a ∈ l, Box n lo up a)
    (hc : Box n lo up c) : ∀ a ∈ l ++ [c], Box n lo up a := by
  intro a ha
  rcases List.mem_append.mp ha with h | h
  · exact hl a h
  · simp only [List.mem_singleton] at h; subst h; exact hc

theorem lmInner_inv {S : LMSettings α} (hv : ValidBounds S.n S.lo S.up) (cost : Vec α → α × Bool)
    (newtonSub : Vec α → (Nat → Int) → α → Vec α) (k : Nat) (st : LMSt α) (h : LMInv S st) :
    LMInv S (lmInner S cost newtonSub k st) := by
  induction k generalizing st with
  | zero => exact h
  | succ k ih =>
    rw [lmInner]
    have hb := lmTry_box hv newtonSub st
    have hcalls := calls_snoc h.2.1 hb
    split
    · exact ⟨h.1, hcalls, h.2.2⟩
    · split
      · exact ⟨hb, hcalls, (lmTry_flags newtonSub h).1⟩
      · exact ih _ ⟨h.1, hcalls, h.2.2⟩

theorem releaseLM_flags {n : Nat} {lo up x : Vec α} {bs : Nat → Int} (g dx : Vec α) (h : FlagsTrue n lo up x bs) :
    FlagsTrue n lo up x (releaseLM bs g dx) := by
  intro i hi
  simp only [releaseLM]
  split
  · exact ⟨fun hb => by simp at hb, fun hb => by simp at hb⟩
  · exact h i hi

theorem releaseCG_flags {n : Nat} {lo up x : Vec α} {bs : Nat → Int} (g : Vec α) (h : FlagsTrue n lo up x bs) :
    FlagsTrue n lo up x (releaseCG bs g) := by
  intro i hi
  simp only [releaseCG]
  split
  · exact ⟨fun hb => by simp at hb, fun hb => by simp at hb⟩
  · exact h i hi

theorem lmPass_inv {S : LMSettings α} (hv : ValidBounds S.n S.lo S.up) (f : Vec α → Sample α) (cost : Vec α → α × Bool)
    (nrm : Vec α → α) (newtonFull newtonSub : Vec α → (Nat → Int) → α → Vec α) (fuel : Nat) (st : LMSt α)
    (h : LMInv S st) : LMInv S (lmPass S f cost nrm newtonFull newtonSub fuel st) := by
  unfold lmPass
  simp only []
  have hcalls := calls_snoc h.2.1 h.1
  split
  · exact ⟨h.1, hcalls, h.2.2⟩
  · split
    · exact ⟨h.1, hcalls, h.2.2⟩
    · have hfl : FlagsTrue S.n S.lo S.up st.x
          (if st.nbound > 0 then releaseLM st.bs (f st.x).grad (newtonFull st.x st.bs st.damping) else st.bs) := by
        split
        · exact releaseLM_flags _ _ h.2.2
        · exact h.2.2
      generalize (if st.nbound > 0 then releaseLM st.bs (f st.x).grad (newtonFull st.x st.bs st.damping) else st.bs) = bs1
        at hfl ⊢
      split
      · exact ⟨h.1, hcalls, hfl⟩
      · exact lmInner_inv hv cost newtonSub fuel _ ⟨h.1, hcalls, hfl⟩

/-- state after `k` passes of the outer loop -/
def lmIter (S : LMSettings α) (f : Vec α → Sample α) (cost : Vec α → α × Bool) (nrm : Vec α → α)
    (newtonFull newtonSub : Vec α → (Nat → Int) → α → Vec α) (fuel : Nat) (st0 : LMSt α) (k : Nat) : LMSt α :=
  loopN (lmPass S f cost nrm newtonFull newtonSub fuel) (fun st => decide (st.status = .notYet)) k st0

theorem lmIter_inv {S : LMSettings α} (hv : ValidBounds S.n S.lo S.up) (f : Vec α → Sample α) (cost : Vec α → α × Bool)
    (nrm : Vec α → α) (newtonFull newtonSub : Vec α → (Nat → Int) → α → Vec α) (fuel : Nat) (st0 : LMSt α)
    (h0 : LMInv S st0) (k : Nat) : LMInv S (lmIter S f cost nrm newtonFull newtonSub fuel st0 k) := by
  induction k with
  | zero => exact h0
  | succ k ih =>
    unfold lmIter at ih ⊢
    rw [loopN_succ']
    split
    · exact lmPass_inv hv f cost nrm newtonFull newtonSub fuel _ ih
    · exact ih

theorem lmStart_inv {S : LMSettings α} (hv : ValidBounds S.n S.lo S.up) (x0 : Vec α) (d0 : α) :
    LMInv S (lmStart S x0 d0) :=
  ⟨project_box hv x0, fun c hc => by simp [lmStart] at hc, initBoundStatus_true hv x0⟩

theorem lmEpilogue_inv {S : LMSettings α} (f : Vec α → Sample α) {st : LMSt α} (h : LMInv S st) :
    LMInv S (lmEpilogue S f st) := by
  unfold lmEpilogue
  split
  · exact ⟨h.1, calls_snoc h.2.1 h.1, h.2.2⟩
  · exact h

/-! ### line-search minimizers: truthful flags, meaning of "converged" -/

/-- the norm oracle is definite on the first `n` components -/
def NormDef (n : Nat) (nrm : Vec α → α) : Prop := ∀ v, 0 ≤ nrm v ∧ (nrm v = 0 → ∀ i < n, v i = 0)

/-- hypothesis on the direction strategy: the search direction vanishes on the variables held at a bound
    (true of steepest descent on the masked gradient, hence after every restart; see `cgDir`) -/
def DirZero (S : Settings α) (D : DirStrategy α δ) (st : DSt α δ) : Prop :=
  ∀ i < S.n, st.bs i ≠ 0 → sDir D st i = 0

theorem lsSearch_bs (S : Settings α) (f : Vec α → Sample α) (nrm : Vec α → α) (cubic : LSState α → α)
    (D : DirStrategy α δ) (st : DSt α δ) :
    (lsSearch S f nrm cubic D st).bs =
      (match (sNB S nrm D st).idx with
        | some i => if (sLS S f nrm cubic D st).exit = .boundReached then upd st.bs i (sNB S nrm D st).ty else st.bs
        | none => st.bs) := rfl

theorem lsSearch_flags {S : Settings α} (f : Vec α → Sample α) {nrm : Vec α → α} (cubic : LSState α → α)
    {D : DirStrategy α δ} {st : DSt α δ} (hn : NormDef S.n nrm) (hD : DirOK D) (hz : DirZero S D st)
    (h : PInv S st) (hf : FlagsTrue S.n S.lo S.up st.x st.bs) :
    FlagsTrue S.n S.lo S.up (lsSearch S f nrm cubic D st).x (lsSearch S f nrm cubic D st).bs := by
  have hstep := hD.1 st.ds st.nIter st.x st.g st.stepSize h.2.2
  have hbe : BoundExit (nbBound (sNB S nrm D st)) (sLS S f nrm cubic D st) :=
    lineSearch_boundExit _ _ _ _ _ _ _ _ _ hstep
  -- a variable whose direction component vanishes does not move
  have hstay : ∀ i, sDir D st i = 0 → (lsSearch S f nrm cubic D st).x i = st.x i := by
    intro i hi
    rw [lsSearch_x]
    split
    · simp [sPt, linePt, hi]
    · rfl
  have hold : ∀ i < S.n, st.bs i ≠ 0 →
      ((st.bs i = -1 → (lsSearch S f nrm cubic D st).x i = S.lo i) ∧
       (st.bs i = 1 → (lsSearch S f nrm cubic D st).x i = S.up i)) := by
    intro i hi hb
    rw [hstay i (hz i hi hb)]
    exact hf i hi
  intro i hi
  rw [lsSearch_bs]
  cases hidx : (sNB S nrm D st).idx with
  | none =>
    simp only []
    exact ⟨fun hb => (hold i hi (by omega)).1 hb, fun hb => (hold i hi (by omega)).2 hb⟩
  | some k =>
    simp only []
    by_cases hex : (sLS S f nrm cubic D st).exit = .boundReached
    · rw [if_pos hex]
      by_cases hik : i = k
      · subst hik
        simp only [upd, ↓reduceIte]
        -- the captured variable
        obtain ⟨hg, _⟩ := nearestBound_spec S.n S.big (nrm (sDir D st)) st.x (sDir D st) S.lo S.up
        obtain ⟨_, hcase⟩ := hg.2.2 i hidx
        have hb0 : 0 ≤ (sNB S nrm D st).b := nb_b_nonneg (hn (sDir D st)).1 h.1 hidx
        have hbnd : nbBound (sNB S nrm D st) = (sNB S nrm D st).b := by simp [nbBound, hidx, max_eq_left hb0]
        obtain ⟨_, hmv⟩ := hbe hex
        rw [hbnd] at hmv
        have hndpos : ∀ hne : sDir D st i ≠ 0, 0 < nrm (sDir D st) := by
          intro hne
          rcases (hn (sDir D st)).1.eq_or_lt with h0 | hpos
          · exact absurd ((hn (sDir D st)).2 h0.symm i hi) hne
          · exact hpos
        rcases hcase with ⟨hty, hd, _, hb⟩ | ⟨hty, hd, _, hb⟩
        · have hpos := hndpos hd.ne'
          have hty' : (sNB S nrm D st).ty = 1 := hty
          refine ⟨fun h1 => by rw [hty'] at h1; omega, fun _ => ?_⟩
          have hb' : (sNB S nrm D st).b = localUp (nrm (sDir D st)) st.x (sDir D st) S.up i := hb
          rw [lsSearch_x]
          rcases hmv with ⟨hm, ht⟩ | ⟨hm, hb0⟩
          · rw [if_pos hm, ht, hb']
            simp only [sPt, linePt, localUp]
            have h1 := hd.ne'; have h2 := hpos.ne'
            field_simp; ring
          · rw [hm]; simp only [Bool.false_eq_true, ↓reduceIte]
            rw [hb', localUp] at hb0
            have h1 := hd.ne'; have h2 := hpos.ne'
            have : nrm (sDir D st) * (S.up i - st.x i) = 0 := by
              have := div_eq_zero_iff.mp hb0
              rcases this with h' | h'
              · exact h'
              · exact absurd h' h1
            rcases mul_eq_zero.mp this with h' | h'
            · exact absurd h' h2
            · linarith
        · have hpos := hndpos hd.ne
          have hty' : (sNB S nrm D st).ty = -1 := hty
          refine ⟨fun _ => ?_, fun h1 => by rw [hty'] at h1; omega⟩
          have hb' : (sNB S nrm D st).b = localLo (nrm (sDir D st)) st.x (sDir D st) S.lo i := hb
          rw [lsSearch_x]
          rcases hmv with ⟨hm, ht⟩ | ⟨hm, hb0⟩
          · rw [if_pos hm, ht, hb']
            simp only [sPt, linePt, localLo]
            have h1 := hd.ne; have h2 := hpos.ne'
            field_simp; ring
          · rw [hm]; simp only [Bool.false_eq_true, ↓reduceIte]
            rw [hb', localLo] at hb0
            have h1 := hd.ne; have h2 := hpos.ne'
            have : nrm (sDir D st) * (S.lo i - st.x i) = 0 := by
              have := div_eq_zero_iff.mp hb0
              rcases this with h' | h'
              · exact h'
              · exact absurd h' h1
            rcases mul_eq_zero.mp this with h' | h'
            · exact absurd h' h2
            · linarith
      · simp only [upd, hik, ↓reduceIte]
        exact ⟨fun hb => (hold i hi (by omega)).1 hb, fun hb => (hold i hi (by omega)).2 hb⟩
    · rw [if_neg hex]
      exact ⟨fun hb => (hold i hi (by omega)).1 hb, fun hb => (hold i hi (by omega)).2 hb⟩

/-- what the convergence test of the line-search minimizers establishes -/
theorem lsRelease_converged {S : Settings α} {nrm : Vec α → α} {D : DirStrategy α δ} {st1 : DSt α δ}
    (h1 : st1.status = .notYet) (h : (lsRelease S nrm D st1).status = .success) :
    gradNorm nrm S.n (lsRelease S nrm D st1).bs (maskGrad (lsRelease S nrm D st1).bs st1.g) ≤ S.tol ∧
    ∀ i, ((lsRelease S nrm D st1).bs i = -1 → 0 ≤ st1.g i) ∧ ((lsRelease S nrm D st1).bs i = 1 → st1.g i ≤ 0) := by
  have hs : (lsRelease S nrm D st1).status =
      if gradNorm nrm S.n (releaseCG st1.bs st1.g) (maskGrad (releaseCG st1.bs st1.g) st1.g) ≤ S.tol
        then .success else st1.status := rfl
  have hb : (lsRelease S nrm D st1).bs = releaseCG st1.bs st1.g := rfl
  rw [hs] at h
  rw [hb]
  refine ⟨?_, ?_⟩
  · by_contra hc
    rw [if_neg hc, h1] at h
    simp at h
  · intro i
    simp only [releaseCG]
    constructor
    · intro hbi
      split at hbi
      · simp at hbi
      · rename_i hc
        exact not_lt.mp (fun hlt => hc (Or.inl ⟨hbi, hlt⟩))
    · intro hbi
      split at hbi
      · simp at hbi
      · rename_i hc
        exact not_lt.mp (fun hlt => hc (Or.inr ⟨hbi, hlt⟩))

/-- when the pass starts with an evaluation, the gradient tested is the user's gradient at the current state -/
theorem lsEval_grad (f : Vec α → Sample α) (st : DSt α δ) (h : st.upToDate < 1) :
    (lsEval f st).g = (f st.x).grad ∧ (lsEval f st).x = st.x := by
  unfold lsEval
  rw [if_pos h]
  simp only []
  split
  · exact ⟨rfl, rfl⟩
  · split <;> exact ⟨rfl, rfl⟩

/-! ### Levenberg family: termination of the inner loop, iteration count -/

/-- rejection test of one try of the inner loop -/
def lmReject (S : LMSettings α) (cost : Vec α → α × Bool) (newtonSub : Vec α → (Nat → Int) → α → Vec α) (st : LMSt α) : Bool :=
  decide ((cost (lmTry S newtonSub st).1).1 ≥ st.cost) || !(cost (lmTry S newtonSub st).1).2

/-- damping decision of one try -/
def lmDD (S : LMSettings α) (cost : Vec α → α × Bool) (newtonSub : Vec α → (Nat → Int) → α → Vec α) (st : LMSt α) : α × Bool × Bool :=
  lmDamping st.damping S.restart S.dmax S.mult S.dmin S.divd (lmReject S cost newtonSub st)

/-- state with which the inner loop carries on after a rejected try -/
def lmNext (S : LMSettings α) (cost : Vec α → α × Bool) (newtonSub : Vec α → (Nat → Int) → α → Vec α) (st : LMSt α) : LMSt α :=
  { st with calls := st.calls ++ [(lmTry S newtonSub st).1], upToDate := -1, damping := (lmDD S cost newtonSub st).1 }

theorem lmInner_succ (S : LMSettings α) (cost : Vec α → α × Bool) (newtonSub : Vec α → (Nat → Int) → α → Vec α)
    (k : Nat) (st : LMSt α) :
    lmInner S cost newtonSub (k + 1) st =
      if (lmDD S cost newtonSub st).2.2 then
        { st with calls := st.calls ++ [(lmTry S newtonSub st).1], upToDate := -1,
                  status := if !(cost (lmTry S newtonSub st).1).2 then .invalidCost else .failed }
      else if (lmDD S cost newtonSub st).2.1 then
        { st with calls := st.calls ++ [(lmTry S newtonSub st).1], upToDate := -1, x := (lmTry S newtonSub st).1,
                  cost := (cost (lmTry S newtonSub st).1).1, nIter := st.nIter + 1, damping := (lmDD S cost newtonSub st).1,
                  bs := if (lmTry S newtonSub st).2.frac < 1 then upd st.bs (lmTry S newtonSub st).2.idx (lmTry S newtonSub st).2.ty else st.bs,
                  status := if ((st.nIter + 1 : Nat) : Int) ≥ S.maxIter then .maxIter else st.status }
      else lmInner S cost newtonSub k (lmNext S cost newtonSub st) := rfl

/-- a rejected try that neither gives up nor accepts has raised the damping -/
theorem lmDD_continue {S : LMSettings α} {cost : Vec α → α × Bool} {newtonSub : Vec α → (Nat → Int) → α → Vec α}
    {st : LMSt α} (h1 : (lmDD S cost newtonSub st).2.2 = false) (h2 : (lmDD S cost newtonSub st).2.1 = false) :
    (st.damping ≤ 0 ∧ (lmDD S cost newtonSub st).1 = S.restart) ∨
    (0 < st.damping ∧ st.damping < S.dmax ∧ (lmDD S cost newtonSub st).1 = st.damping * S.mult) := by
  by_cases hr : lmReject S cost newtonSub st = true
  · by_cases h0 : st.damping ≤ 0
    · exact Or.inl ⟨h0, by simp [lmDD, lmDamping, hr, h0]⟩
    · by_cases hm : st.damping < S.dmax
      · exact Or.inr ⟨not_le.mp h0, hm, by simp [lmDD, lmDamping, hr, h0, hm]⟩
      · exfalso; simp [lmDD, lmDamping, hr, h0, hm] at h1
  · exfalso; simp [lmDD, lmDamping, hr] at h2

/-- with positive damping `d` and `dmax ≤ d * mult^K`, `K + 1` tries suffice: more fuel changes nothing -/
theorem lmInner_fuel_pos (S : LMSettings α) (cost : Vec α → α × Bool) (newtonSub : Vec α → (Nat → Int) → α → Vec α)
    (hmult : 0 < S.mult) (K : Nat) : ∀ (st : LMSt α), 0 < st.damping → S.dmax ≤ st.damping * S.mult ^ K →
    ∀ m, lmInner S cost newtonSub (K + 1 + m) st = lmInner S cost newtonSub (K + 1) st := by
  induction K with
  | zero =>
    intro st hd hK m
    simp only [pow_zero, mul_one] at hK
    rw [show 0 + 1 + m = m + 1 by omega, lmInner_succ, lmInner_succ]
    by_cases h1 : (lmDD S cost newtonSub st).2.2 = true
    · rw [if_pos h1, if_pos h1]
    · rw [if_neg h1, if_neg h1]
      by_cases h2 : (lmDD S cost newtonSub st).2.1 = true
      · rw [if_pos h2, if_pos h2]
      · -- impossible: damping is at its maximum, a rejected try gives up
        exfalso
        rcases lmDD_continue (by simpa using h1) (by simpa using h2) with ⟨h0, _⟩ | ⟨_, hlt, _⟩
        · exact absurd hd (not_lt.mpr h0)
        · exact absurd hK (not_le.mpr hlt)
  | succ K ih =>
    intro st hd hK m
    rw [show K + 1 + 1 + m = (K + 1 + m) + 1 by omega, lmInner_succ, lmInner_succ]
    by_cases h1 : (lmDD S cost newtonSub st).2.2 = true
    · rw [if_pos h1, if_pos h1]
    · rw [if_neg h1, if_neg h1]
      by_cases h2 : (lmDD S cost newtonSub st).2.1 = true
      · rw [if_pos h2, if_pos h2]
      · rw [if_neg h2, if_neg h2]
        rcases lmDD_continue (by simpa using h1) (by simpa using h2) with ⟨h0, _⟩ | ⟨_, _, he⟩
        · exact absurd hd (not_lt.mpr h0)
        · apply ih
          · show 0 < (lmDD S cost newtonSub st).1
            rw [he]; exact mul_pos hd hmult
          · show S.dmax ≤ (lmDD S cost newtonSub st).1 * S.mult ^ K
            rw [he]
            calc S.dmax ≤ st.damping * S.mult ^ (K + 1) := hK
              _ = st.damping * S.mult * S.mult ^ K := by rw [pow_succ]; ring

/-- the inner loop of the Levenberg family terminates: whatever the cost function does, at most `K + 2` trial
    steps are made, where `restart * mult^K ≥ dmax` (and `d * mult^K ≥ dmax` for the damping `d > 0` on entry) -/
theorem lmInner_fuel (S : LMSettings α) (cost : Vec α → α × Bool) (newtonSub : Vec α → (Nat → Int) → α → Vec α)
    (hmult : 0 < S.mult) (hrestart : 0 < S.restart) (K : Nat) (hK : S.dmax ≤ S.restart * S.mult ^ K)
    (st : LMSt α) (hd : st.damping ≤ 0 ∨ S.dmax ≤ st.damping * S.mult ^ K) (m : Nat) :
    lmInner S cost newtonSub (K + 2 + m) st = lmInner S cost newtonSub (K + 2) st := by
  by_cases h0 : st.damping ≤ 0
  · rw [show K + 2 + m = (K + 1 + m) + 1 by omega, show K + 2 = (K + 1) + 1 by omega, lmInner_succ, lmInner_succ]
    by_cases h1 : (lmDD S cost newtonSub st).2.2 = true
    · rw [if_pos h1, if_pos h1]
    · rw [if_neg h1, if_neg h1]
      by_cases h2 : (lmDD S cost newtonSub st).2.1 = true
      · rw [if_pos h2, if_pos h2]
      · rw [if_neg h2, if_neg h2]
        rcases lmDD_continue (by simpa using h1) (by simpa using h2) with ⟨_, he⟩ | ⟨hp, _, _⟩
        · apply lmInner_fuel_pos S cost newtonSub hmult K
          · show 0 < (lmDD S cost newtonSub st).1
            rw [he]; exact hrestart
          · show S.dmax ≤ (lmDD S cost newtonSub st).1 * S.mult ^ K
            rw [he]; exact hK
        · exact absurd hp (not_lt.mpr h0)
  · have hp : 0 < st.damping := not_le.mp h0
    have hK' : S.dmax ≤ st.damping * S.mult ^ K := hd.resolve_left h0
    have h1 := lmInner_fuel_pos S cost newtonSub hmult K st hp hK' (1 + m)
    have h2 := lmInner_fuel_pos S cost newtonSub hmult K st hp hK' 1
    rw [show K + 2 + m = K + 1 + (1 + m) by omega, h1, show K + 2 = K + 1 + 1 by omega, h2]

/-- counters of the inner loop: the iteration count grows by at most one, and if the loop hands back "not yet
    converged" a step was accepted and the count is still below the maximum -/
theorem lmInner_count (S : LMSettings α) (cost : Vec α → α × Bool) (newtonSub : Vec α → (Nat → Int) → α → Vec α)
    (k : Nat) (st : LMSt α) :
    (lmInner S cost newtonSub k st).nIter ≤ st.nIter + 1 ∧
    ((lmInner S cost newtonSub k st).status = .notYet →
      (lmInner S cost newtonSub k st).nIter = st.nIter + 1 ∧ ((st.nIter + 1 : Nat) : Int) < S.maxIter) := by
  induction k generalizing st with
  | zero => exact ⟨by simp [lmInner], fun h => by simp [lmInner] at h⟩
  | succ k ih =>
    rw [lmInner_succ]
    split
    · refine ⟨by simp, fun h => ?_⟩
      simp only at h
      split at h <;> simp at h
    · split
      · refine ⟨by simp, fun h => ⟨rfl, ?_⟩⟩
        simp only at h
        split at h
        · simp at h
        · rename_i hc; exact not_le.mp hc
      · exact ih (lmNext S cost newtonSub st)

/-! ### Levenberg family: meaning of "converged" -/

theorem lmPass_converged {S : LMSettings α} (f : Vec α → Sample α) (cost : Vec α → α × Bool) (nrm : Vec α → α)
    (newtonFull newtonSub : Vec α → (Nat → Int) → α → Vec α) (fuel : Nat) {st : LMSt α}
    (hok : (f st.x).costOk = true ∧ (f st.x).gradOk = true)
    (hgn : gradNorm nrm S.n (if st.nbound > 0 then releaseLM st.bs (f st.x).grad (newtonFull st.x st.bs st.damping) else st.bs)
      (f st.x).grad ≤ S.tol) :
    (lmPass S f cost nrm newtonFull newtonSub fuel st).status = .success ∧
    (lmPass S f cost nrm newtonFull newtonSub fuel st).x = st.x ∧
    (lmPass S f cost nrm newtonFull newtonSub fuel st).bs =
      (if st.nbound > 0 then releaseLM st.bs (f st.x).grad (newtonFull st.x st.bs st.damping) else st.bs) := by
  unfold lmPass
  simp only [hok.1, hok.2, Bool.not_true, Bool.false_eq_true, ↓reduceIte]
  rw [if_pos hgn]
  exact ⟨rfl, rfl, rfl⟩

/-- after the release test of the Levenberg family a flagged variable either has an outward-pointing gradient or a
    damped Newton step that does not point into the box -/
theorem releaseLM_held (bs : Nat → Int) (g dx : Vec α) (i : Nat) :
    (releaseLM bs g dx i = -1 → 0 ≤ g i ∨ dx i ≤ 0) ∧ (releaseLM bs g dx i = 1 → g i ≤ 0 ∨ 0 ≤ dx i) := by
  simp only [releaseLM]
  constructor
  · intro hb
    split at hb
    · simp at hb
    · rename_i hc
      by_contra hn
      push Not at hn
      exact hc (Or.inl ⟨hb, hn.1, hn.2⟩)
  · intro hb
    split at hb
    · simp at hb
    · rename_i hc
      by_contra hn
      push Not at hn
      exact hc (Or.inr ⟨hb, hn.1, hn.2⟩)

/-! ### C19: first-order conditions of the box-constrained quadratic -/

open Finset in
/-- gradient of `1/2 (x-c)ᵀ H (x-c)`, first `n` components -/
def qGrad (n : Nat) (H : Nat → Nat → α) (c x : Vec α) (i : Nat) : α := ∑ j ∈ range n, H i j * (x j - c j)

/-- first-order optimality (KKT) conditions of `min 1/2 (x-c)ᵀH(x-c)` subject to `lo ≤ x ≤ up` -/
def KKT (n : Nat) (H : Nat → Nat → α) (c lo up x : Vec α) : Prop :=
  Box n lo up x ∧ ∀ i < n,
    (x i = lo i → 0 ≤ qGrad n H c x i) ∧ (x i = up i → qGrad n H c x i ≤ 0) ∧
    (lo i < x i → x i < up i → qGrad n H c x i = 0)

open Finset in
/-- `H` is positive definite on the first `n` coordinates -/
def PosDef (n : Nat) (H : Nat → Nat → α) : Prop :=
  ∀ v : Vec α, (∃ i < n, v i ≠ 0) → 0 < ∑ i ∈ range n, v i * ∑ j ∈ range n, H i j * v j

/-- variational inequality: at a KKT point the gradient makes a non-negative product with every feasible direction -/
theorem kkt_vi {n : Nat} {H : Nat → Nat → α} {c lo up x y : Vec α} (hx : KKT n H c lo up x) (hy : Box n lo up y) :
    ∀ i < n, 0 ≤ qGrad n H c x i * (y i - x i) := by
  intro i hi
  obtain ⟨hb, hk⟩ := hx
  obtain ⟨h1, h2, h3⟩ := hk i hi
  have hxi := hb i hi
  have hyi := hy i hi
  rcases hxi.1.eq_or_lt with hlo | hlo
  · exact mul_nonneg (h1 hlo.symm) (by linarith)
  · rcases hxi.2.eq_or_lt with hup | hup
    · exact mul_nonneg_of_nonpos_of_nonpos (h2 hup) (by linarith)
    · rw [h3 hlo hup]; simp

open Finset in
theorem kkt_unique_aux {n : Nat} {H : Nat → Nat → α} {c lo up x y : Vec α} (hH : PosDef n H)
    (hx : KKT n H c lo up x) (hy : KKT n H c lo up y) : ∀ i < n, x i = y i := by
  by_contra hne
  push Not at hne
  obtain ⟨i0, hi0, hxy⟩ := hne
  have hpos := hH (fun i => x i - y i) ⟨i0, hi0, sub_ne_zero.mpr hxy⟩
  have h1 : ∀ i ∈ range n, 0 ≤ qGrad n H c x i * (y i - x i) := fun i hi => kkt_vi hx hy.1 i (mem_range.mp hi)
  have h2 : ∀ i ∈ range n, 0 ≤ qGrad n H c y i * (x i - y i) := fun i hi => kkt_vi hy hx.1 i (mem_range.mp hi)
  have hs1 := sum_nonneg h1
  have hs2 := sum_nonneg h2
  have key : ∑ i ∈ range n, (x i - y i) * ∑ j ∈ range n, H i j * (x j - y j) =
      -(∑ i ∈ range n, qGrad n H c x i * (y i - x i) + ∑ i ∈ range n, qGrad n H c y i * (x i - y i)) := by
    rw [← sum_add_distrib, ← sum_neg_distrib]
    apply sum_congr rfl
    intro i _
    have : ∑ j ∈ range n, H i j * (x j - y j) = qGrad n H c x i - qGrad n H c y i := by
      unfold qGrad
      rw [← sum_sub_distrib]
      apply sum_congr rfl
      intro j _; ring
    rw [this]; ring
  rw [key] at hpos
  linarith

/-! ### generic counting loop; Levenberg outer loop -/

theorem loop_count {σ : Type} (body : σ → σ) (status : σ → Status) (nIter : σ → Nat) (maxIter : Int)
    (hbody : ∀ s, nIter (body s) ≤ nIter s + 1 ∧
      (status (body s) = .notYet → nIter (body s) = nIter s + 1 ∧ ((nIter s + 1 : Nat) : Int) < maxIter))
    (s0 : σ) (h0 : nIter s0 = 0) (k : Nat) :
    nIter (loopN body (fun s => decide (status s = .notYet)) k s0) ≤ k ∧
    (status (loopN body (fun s => decide (status s = .notYet)) k s0) = .notYet →
      nIter (loopN body (fun s => decide (status s = .notYet)) k s0) = k ∧ (0 < k → (k : Int) < maxIter)) := by
  induction k with
  | zero => exact ⟨by simp [loopN, h0], fun _ => ⟨by simp [loopN, h0], fun h => absurd h (by omega)⟩⟩
  | succ k ih =>
    rw [loopN_succ']
    by_cases hr : decide (status (loopN body (fun s => decide (status s = .notYet)) k s0) = .notYet) = true
    · rw [if_pos hr]
      have hs : status (loopN body (fun s => decide (status s = .notYet)) k s0) = .notYet := by simpa using hr
      obtain ⟨hk, _⟩ := ih.2 hs
      obtain ⟨p1, p2⟩ := hbody (loopN body (fun s => decide (status s = .notYet)) k s0)
      refine ⟨by omega, fun h => ?_⟩
      obtain ⟨q1, q2⟩ := p2 h
      rw [hk] at q1 q2
      exact ⟨q1, fun _ => q2⟩
    · rw [if_neg hr]
      refine ⟨by omega, fun h => ?_⟩
      exact absurd (by simpa using h) hr

theorem lmPass_count (S : LMSettings α) (f : Vec α → Sample α) (cost : Vec α → α × Bool) (nrm : Vec α → α)
    (newtonFull newtonSub : Vec α → (Nat → Int) → α → Vec α) (fuel : Nat) (st : LMSt α) :
    (lmPass S f cost nrm newtonFull newtonSub fuel st).nIter ≤ st.nIter + 1 ∧
    ((lmPass S f cost nrm newtonFull newtonSub fuel st).status = .notYet →
      (lmPass S f cost nrm newtonFull newtonSub fuel st).nIter = st.nIter + 1 ∧ ((st.nIter + 1 : Nat) : Int) < S.maxIter) := by
  unfold lmPass
  simp only []
  split
  · exact ⟨by simp, fun h => by simp at h⟩
  · split
    · exact ⟨by simp, fun h => by simp at h⟩
    · generalize (if st.nbound > 0 then releaseLM st.bs (f st.x).grad (newtonFull st.x st.bs st.damping) else st.bs) = bs1
      split
      · exact ⟨by simp, fun h => by simp at h⟩
      · exact lmInner_count S cost newtonSub fuel _

theorem lmIter_count (S : LMSettings α) (f : Vec α → Sample α) (cost : Vec α → α × Bool) (nrm : Vec α → α)
    (newtonFull newtonSub : Vec α → (Nat → Int) → α → Vec α) (fuel : Nat) (st0 : LMSt α) (h0 : st0.nIter = 0) (k : Nat) :
    (lmIter S f cost nrm newtonFull newtonSub fuel st0 k).nIter ≤ k ∧
    ((lmIter S f cost nrm newtonFull newtonSub fuel st0 k).status = .notYet →
      (lmIter S f cost nrm newtonFull newtonSub fuel st0 k).nIter = k ∧ (0 < k → (k : Int) < S.maxIter)) :=
  loop_count _ (fun st : LMSt α => st.status) (fun st => st.nIter) S.maxIter
    (lmPass_count S f cost nrm newtonFull newtonSub fuel) st0 h0 k

/-! ### line-search minimizers: reported cost -/

theorem lsSearch_cost_eq (S : Settings α) (f : Vec α → Sample α) (nrm : Vec α → α) (cubic : LSState α → α)
    (D : DirStrategy α δ) (st : DSt α δ) :
    (lsSearch S f nrm cubic D st).cost = (sLS S f nrm cubic D st).cost := rfl

theorem lsEval_cost (f : Vec α → Sample α) (st : DSt α δ) (h : st.upToDate < 1 ∨ st.cost = (f st.x).cost) :
    (lsEval f st).cost = (f (lsEval f st).x).cost ∧ (lsEval f st).x = st.x ∧ (lsEval f st).stepSize = st.stepSize := by
  unfold lsEval
  split
  · simp only []
    split
    · exact ⟨rfl, rfl, rfl⟩
    · split <;> exact ⟨rfl, rfl, rfl⟩
  · rename_i hu
    exact ⟨h.resolve_left hu, rfl, rfl⟩

/-- one pass keeps `cost_function_` equal to the user's cost at the current state and never increases it -/
theorem lsPass_cost {S : Settings α} (f : Vec α → Sample α) (nrm : Vec α → α) (cubic : LSState α → α)
    {D : DirStrategy α δ} {st : DSt α δ} (hD : DirOK D) (h0 : 0 ≤ st.stepSize) (ha : 0 ≤ S.ls.armijo)
    (h : st.upToDate < 1 ∨ st.cost = (f st.x).cost) :
    (lsPass S f nrm cubic D st).cost = (f (lsPass S f nrm cubic D st).x).cost ∧
    (lsPass S f nrm cubic D st).cost ≤ (lsEval f st).cost := by
  obtain ⟨he, hx, hs⟩ := lsEval_cost f st h
  unfold lsPass
  simp only []
  split
  · exact ⟨he, le_rfl⟩
  · split
    · exact ⟨he, le_rfl⟩
    · -- the line search
      have h0' : 0 ≤ (lsRelease S nrm D (lsEval f st)).stepSize := by
        show 0 ≤ (lsEval f st).stepSize
        rw [hs]; exact h0
      have hc := lineSearch_cost S.ls (sPhi S f nrm D (lsRelease S nrm D (lsEval f st))) cubic
        (nbBound (sNB S nrm D (lsRelease S nrm D (lsEval f st))))
        (D.dir (lsRelease S nrm D (lsEval f st)).ds (lsRelease S nrm D (lsEval f st)).nIter (lsRelease S nrm D (lsEval f st)).x
          (lsRelease S nrm D (lsEval f st)).g (lsRelease S nrm D (lsEval f st)).stepSize).2.2
        (lsRelease S nrm D (lsEval f st)).cost
        (dot S.n (sDir D (lsRelease S nrm D (lsEval f st))) (lsRelease S nrm D (lsEval f st)).g *
          (1 / nrm (sDir D (lsRelease S nrm D (lsEval f st)))))
        S.curvCoeff (lsRelease S nrm D (lsEval f st)).upToDate
        (hD.1 _ _ _ _ _ h0') ha
      have hc' : RCost (sPhi S f nrm D (lsRelease S nrm D (lsEval f st))) (lsEval f st).cost
          (sLS S f nrm cubic D (lsRelease S nrm D (lsEval f st))) := hc
      rw [lsSearch_cost_eq, lsSearch_x]
      refine ⟨?_, hc'.1⟩
      by_cases hm : (sLS S f nrm cubic D (lsRelease S nrm D (lsEval f st))).moved = true
      · rw [if_pos hm, hc'.2.1 hm]; rfl
      · have hm' : (sLS S f nrm cubic D (lsRelease S nrm D (lsEval f st))).moved = false := by simpa using hm
        rw [if_neg hm, hc'.2.2 hm']
        exact he

end Adept.Minimizer
