import AdeptModel.Assign
import AdeptModel.Reduce
/-!
Specification-level vocabulary for C04 (no proofs here): the in-order loops written as folds over the index
tuples, "evaluate everything, then store", well-formedness of views and expressions, and the safety
predicates the theorems are stated with.
-/
namespace Adept.Assign

/-- a non-empty array of rank ≥ 1 whose offset vector has one entry per dimension
    (`Array::resize` clears all extents as soon as one of them is zero, so a non-empty array has none) -/
structure View.WF (v : View) : Prop where
  len : v.strides.length = v.dims.length
  pos : ∀ d ∈ v.dims, 0 < d
  rank : v.dims ≠ []

/-- the left-hand view addresses every element at a cell of its own -/
def View.Injective (v : View) : Prop := v.cells.Nodup

/-! ### the loops in specification form (index tuples in index order, addresses from coordinates) -/

def seqAssign (lhs : View) (rhs : Expr) (m : Mem) : Mem :=
  (idxs lhs.dims).foldl (fun m ix => write m (lhs.addr ix) (rhs.evalAt m ix)) m

def seqScalar (lhs : View) (x : Int) (m : Mem) : Mem :=
  (idxs lhs.dims).foldl (fun m ix => write m (lhs.addr ix) x) m

def seqWhere (lhs : View) (mask : BExpr) (rhs : Expr) (m : Mem) : Mem :=
  (idxs lhs.dims).foldl (fun m ix => if mask.evalAt m ix then write m (lhs.addr ix) (rhs.evalAt m ix) else m) m

/-! ### "first evaluate the whole right-hand side, element by element in index order, then store" -/

/-- the right-hand side evaluated as a whole in memory `m` -/
def evalAll (rhs : Expr) (dims : List Nat) (m : Mem) : List Int := (idxs dims).map (rhs.evalAt m)
def maskAll (mask : BExpr) (dims : List Nat) (m : Mem) : List Bool := (idxs dims).map (mask.evalAt m)

/-- store (address, value) pairs in list order -/
def storePairs (ps : List (Int × Int)) (m : Mem) : Mem := ps.foldl (fun m p => write m p.1 p.2) m

/-- store a list of values into the positions of a view, in index order -/
def storeAll (lhs : View) (xs : List Int) (m : Mem) : Mem := storePairs (lhs.cells.zip xs) m

/-- conditional store: position `k` is written iff `bs[k]` -/
def storeWhere (lhs : View) (bs : List Bool) (xs : List Int) (m : Mem) : Mem :=
  storePairs (((lhs.cells.zip xs).zip bs).filterMap fun p => if p.2 then some p.1 else none) m

def IView.cells (w : IView) : List Int := (idxs w.dims).map w.addr
def storeAllI (lhs : IView) (xs : List Int) (m : Mem) : Mem := storePairs (lhs.cells.zip xs) m

/-- the value the last matching pair stores, if any: "last write wins" -/
def lastWrite : List (Int × Int) → Int → Option Int
  | [], _ => none
  | (k, x) :: ps, a =>
    match lastWrite ps a with
    | some y => some y
    | none => if k = a then some x else none

/-! ### safety of reads -/

/-- cells written at earlier positions are not read at later ones (positions in index order) -/
def SafeFor (addr : List Nat → Int) (L : List (List Nat)) (reads : List Nat → List Int) : Prop :=
  L.Pairwise fun ix' ix => addr ix' ∉ reads ix

/-- the sub-expressions the user (or `op=`) wrapped in `noalias` -/
def Expr.noaliasTerms : Expr → List Expr
  | .noalias e => [e]
  | .bin _ l r => l.noaliasTerms ++ r.noaliasTerms
  | _ => []

/-- array operands the alias test looks at (those not under `noalias`) -/
def Expr.checkedLeaves : Expr → List View
  | .leaf v => [v]
  | .ileaf w => [w.a]
  | .bin _ l r => l.checkedLeaves ++ r.checkedLeaves
  | .spread _ v => [v]
  | .outer l r => [l, r]
  | _ => []

/-- every coordinate the traversal of an array of extents `dims` asks of the expression is inside the
    operand it is asked of (what the C++ dimension checks establish: `get_dimensions`, `compatible`) -/
def Expr.Conforms (dims : List Nat) : Expr → Prop
  | .leaf v => ∀ ix ∈ idxs dims, ix ∈ idxs v.dims
  | .ileaf w => ∀ ix ∈ idxs dims, pick w.sel ix ∈ idxs w.a.dims
  | .const _ => True
  | .bin _ l r => l.Conforms dims ∧ r.Conforms dims
  | .noalias e => e.Conforms dims
  | .spread d v => ∀ ix ∈ idxs dims, dropAt d ix ∈ idxs v.dims
  | .outer l r => ∀ ix ∈ idxs dims, ix.take 1 ∈ idxs l.dims ∧ ix.drop 1 ∈ idxs r.dims
  | .tmp _ => True

end Adept.Assign
