import AdeptProofs.Lemmas.GradAllocDefs
/-!
Helper lemmas for C08 (gap-list allocator invariant).  Core Lean only.
-/
namespace Adept.GradAlloc

/-! ### Lists -/

theorem dropLast_append_of_getLast? {α : Type} :
    ∀ {l : List α} {p : α}, l.getLast? = some p → l.dropLast ++ [p] = l
  | [], _, h => by simp at h
  | [x], p, h => by
    simp only [List.getLast?_singleton, Option.some.injEq] at h
    subst h; rfl
  | x :: y :: l, p, h => by
    rw [List.getLast?_cons_cons] at h
    have ih := dropLast_append_of_getLast? h
    simp only [List.dropLast_cons_cons, List.cons_append, ih]

theorem exists_split {α : Type} {l : List α} {r : Nat} (h : r < l.length) :
    ∃ pre x post, l = pre ++ x :: post ∧ pre.length = r := by
  refine ⟨l.take r, l[r], l.drop (r + 1), ?_, ?_⟩
  · rw [← List.drop_eq_getElem_cons h, List.take_append_drop]
  · rw [List.length_take]; omega

/-! ### `isFree` -/

theorem isFree_nil (j : Nat) : isFree [] j ↔ False := by
  simp [isFree]

theorem isFree_cons (a b : Nat) (gs : List Gap) (j : Nat) :
    isFree ((a, b) :: gs) j ↔ (a ≤ j ∧ j ≤ b) ∨ isFree gs j := by
  simp [isFree]

theorem isFree_append (l₁ l₂ : List Gap) (j : Nat) :
    isFree (l₁ ++ l₂) j ↔ isFree l₁ j ∨ isFree l₂ j := by
  simp only [isFree, List.mem_append]
  constructor
  · rintro ⟨g, hg | hg, hj⟩
    · exact Or.inl ⟨g, hg, hj⟩
    · exact Or.inr ⟨g, hg, hj⟩
  · rintro (⟨g, hg, hj⟩ | ⟨g, hg, hj⟩)
    · exact ⟨g, Or.inl hg, hj⟩
    · exact ⟨g, Or.inr hg, hj⟩

theorem isFree_of_mem {gs : List Gap} {g : Gap} (hg : g ∈ gs) {j : Nat}
    (h1 : g.1 ≤ j) (h2 : j ≤ g.2) : isFree gs j := ⟨g, hg, h1, h2⟩

/-! ### `GapsOK` -/

theorem GapsOK_nil (lb top : Nat) : GapsOK lb [] top := by simp [GapsOK]

theorem GapsOK_cons {lb a b top : Nat} {gs : List Gap} :
    GapsOK lb ((a, b) :: gs) top ↔ lb ≤ a ∧ a ≤ b ∧ b + 1 < top ∧ GapsOK (b + 2) gs top := by
  simp only [GapsOK]

theorem GapsOK_mono_lb : ∀ {gs : List Gap} {lb lb' top : Nat},
    lb' ≤ lb → GapsOK lb gs top → GapsOK lb' gs top
  | [], _, _, _, _, _ => GapsOK_nil _ _
  | (a, b) :: gs, lb, lb', top, hl, h => by
    rw [GapsOK_cons] at h ⊢
    exact ⟨by omega, h.2.1, h.2.2.1, h.2.2.2⟩

theorem GapsOK_bounds : ∀ {gs : List Gap} {lb top j : Nat},
    GapsOK lb gs top → isFree gs j → lb ≤ j ∧ j + 1 < top
  | [], _, _, _, _, hf => by simp [isFree_nil] at hf
  | (a, b) :: gs, lb, top, j, h, hf => by
    rw [GapsOK_cons] at h
    rw [isFree_cons] at hf
    rcases hf with hf | hf
    · omega
    · have := GapsOK_bounds h.2.2.2 hf
      omega

theorem GapsOK_append : ∀ {pre : List Gap} {lb a b top : Nat} {post : List Gap},
    GapsOK lb (pre ++ (a, b) :: post) top ↔
      GapsOK lb pre a ∧ lb ≤ a ∧ a ≤ b ∧ b + 1 < top ∧ GapsOK (b + 2) post top
  | [], lb, a, b, top, post => by
    simp only [List.nil_append, GapsOK_cons, GapsOK_nil, true_and]
  | (c, d) :: pre, lb, a, b, top, post => by
    simp only [List.cons_append, GapsOK_cons, GapsOK_append (pre := pre)]
    constructor
    · rintro ⟨h1, h2, h3, h4, h5, h6, h7, h8⟩
      exact ⟨⟨h1, h2, by omega, h4⟩, by omega, h6, h7, h8⟩
    · rintro ⟨⟨h1, h2, h3, h4⟩, h5, h6, h7, h8⟩
      exact ⟨h1, h2, by omega, h4, by omega, h6, h7, h8⟩

/-- a non-empty list that is `GapsOK` forces `lb + 1 < top` -/
theorem GapsOK_cons_lt {lb top : Nat} {x : Gap} {gs : List Gap}
    (h : GapsOK lb (x :: gs) top) : lb + 1 < top := by
  obtain ⟨a, b⟩ := x
  rw [GapsOK_cons] at h
  omega

/-- the top bound only has to be checked on the last gap -/
theorem GapsOK_of_getLast : ∀ {gs : List Gap} {lb top top' : Nat},
    GapsOK lb gs top → (∀ p, gs.getLast? = some p → p.2 + 1 < top') → GapsOK lb gs top'
  | [], _, _, _, _, _ => GapsOK_nil _ _
  | [(a, b)], lb, top, top', h, hl => by
    rw [GapsOK_cons] at h ⊢
    have := hl (a, b) (by simp)
    exact ⟨h.1, h.2.1, this, GapsOK_nil _ _⟩
  | (a, b) :: y :: gs, lb, top, top', h, hl => by
    rw [GapsOK_cons] at h ⊢
    have ih : GapsOK (b + 2) (y :: gs) top' :=
      GapsOK_of_getLast h.2.2.2 (fun p hp => hl p (by rw [List.getLast?_cons_cons]; exact hp))
    have := GapsOK_cons_lt ih
    exact ⟨h.1, h.2.1, by omega, ih⟩

theorem GapsOK_mono_top : ∀ {gs : List Gap} {lb top top' : Nat},
    top ≤ top' → GapsOK lb gs top → GapsOK lb gs top'
  | [], _, _, _, _, _ => GapsOK_nil _ _
  | (a, b) :: gs, lb, top, top', ht, h => by
    rw [GapsOK_cons] at h ⊢
    exact ⟨h.1, h.2.1, by omega, GapsOK_mono_top ht h.2.2.2⟩

/-- two OK gap lists with the same free set are equal -/
theorem GapsOK_ext : ∀ {gs gs' : List Gap} {lb lb' top top' : Nat},
    GapsOK lb gs top → GapsOK lb' gs' top' → (∀ j, isFree gs j ↔ isFree gs' j) → gs = gs'
  | [], [], _, _, _, _, _, _, _ => rfl
  | [], (c, d) :: gs', _, _, _, _, _, h', hf => by
    rw [GapsOK_cons] at h'
    have := (hf c).2 ((isFree_cons _ _ _ _).2 (Or.inl ⟨Nat.le_refl _, h'.2.1⟩))
    simp [isFree_nil] at this
  | (a, b) :: gs, [], _, _, _, _, h, _, hf => by
    rw [GapsOK_cons] at h
    have := (hf a).1 ((isFree_cons _ _ _ _).2 (Or.inl ⟨Nat.le_refl _, h.2.1⟩))
    simp [isFree_nil] at this
  | (a, b) :: gs, (c, d) :: gs', lb, lb', top, top', h, h', hf => by
    rw [GapsOK_cons] at h h'
    have hfa : ∀ j, isFree gs j → b + 2 ≤ j := fun j hj => (GapsOK_bounds h.2.2.2 hj).1
    have hfc : ∀ j, isFree gs' j → d + 2 ≤ j := fun j hj => (GapsOK_bounds h'.2.2.2 hj).1
    have hf' : ∀ j, ((a ≤ j ∧ j ≤ b) ∨ isFree gs j) ↔ ((c ≤ j ∧ j ≤ d) ∨ isFree gs' j) := by
      intro j; rw [← isFree_cons, ← isFree_cons]; exact hf j
    have hac : a = c := by
      have h1 := (hf' a).1 (Or.inl ⟨Nat.le_refl _, h.2.1⟩)
      have h2 := (hf' c).2 (Or.inl ⟨Nat.le_refl _, h'.2.1⟩)
      rcases h1 with h1 | h1 <;> rcases h2 with h2 | h2
      · omega
      · have := hfa _ h2; omega
      · have := hfc _ h1; omega
      · have := hfa _ h2; have := hfc _ h1; omega
    subst hac
    have hbd : b = d := by
      rcases Nat.lt_trichotomy b d with hlt | heq | hgt
      · have h1 := (hf' (b + 1)).2 (Or.inl ⟨by omega, by omega⟩)
        rcases h1 with h1 | h1
        · omega
        · have := hfa _ h1; omega
      · exact heq
      · have h1 := (hf' (d + 1)).1 (Or.inl ⟨by omega, by omega⟩)
        rcases h1 with h1 | h1
        · omega
        · have := hfc _ h1; omega
    subst hbd
    have : gs = gs' := by
      refine GapsOK_ext h.2.2.2 h'.2.2.2 (fun j => ?_)
      constructor
      · intro hj
        have := hfa _ hj
        rcases (hf' j).1 (Or.inr hj) with h1 | h1
        · omega
        · exact h1
      · intro hj
        have := hfc _ hj
        rcases (hf' j).2 (Or.inr hj) with h1 | h1
        · omega
        · exact h1
    rw [this]

/-! ### Live lists -/

abbrev Disj (B C : Block) : Prop := ∀ j, ¬ (inBlock B j ∧ inBlock C j)

theorem isLive_nil (j : Nat) : isLive [] j ↔ False := by simp [isLive]

theorem isLive_cons (B : Block) (L : List Block) (j : Nat) :
    isLive (B :: L) j ↔ inBlock B j ∨ isLive L j := by
  simp [isLive]

theorem isLive_erase : ∀ {L : List Block} {B : Block}, B ∈ L → L.Pairwise Disj →
    ∀ j, isLive (L.erase B) j ↔ isLive L j ∧ ¬ inBlock B j
  | [], _, hB, _, _ => by simp at hB
  | C :: L, B, hB, hp, j => by
    rw [List.pairwise_cons] at hp
    by_cases hCB : C = B
    · subst hCB
      rw [List.erase_cons_head, isLive_cons]
      constructor
      · rintro ⟨D, hD, hj⟩
        exact ⟨Or.inr ⟨D, hD, hj⟩, fun hc => hp.1 D hD j ⟨hc, hj⟩⟩
      · rintro ⟨h1 | h1, h2⟩
        · exact absurd h1 h2
        · exact h1
    · have hB' : B ∈ L := by
        rcases List.mem_cons.1 hB with h | h
        · exact absurd h.symm hCB
        · exact h
      rw [List.erase_cons_tail (by simpa using hCB), isLive_cons, isLive_cons,
        isLive_erase hB' hp.2 j]
      constructor
      · rintro (h | ⟨h1, h2⟩)
        · exact ⟨Or.inl h, fun hc => hp.1 B hB' j ⟨h, hc⟩⟩
        · exact ⟨Or.inr h1, h2⟩
      · rintro ⟨h1 | h1, h2⟩
        · exact Or.inl h1
        · exact Or.inr ⟨h1, h2⟩

theorem sum_erase (f : Block → Int) : ∀ {L : List Block} {B : Block}, B ∈ L →
    (L.map f).sum = f B + ((L.erase B).map f).sum
  | [], _, hB => by simp at hB
  | C :: L, B, hB => by
    by_cases hCB : C = B
    · subst hCB
      rw [List.erase_cons_head, List.map_cons, List.sum_cons]
    · have hB' : B ∈ L := by
        rcases List.mem_cons.1 hB with h | h
        · exact absurd h.symm hCB
        · exact h
      rw [List.erase_cons_tail (by simpa using hCB), List.map_cons, List.sum_cons,
        List.map_cons, List.sum_cons, sum_erase f hB']
      omega

/-! ### Registration -/

/-- what the erased position looks like -/
def ErasedOK (pos len len' : Nat) : Option Nat → Prop
  | none => len' = len
  | some p => pos ≤ p ∧ p < pos + len ∧ len' + 1 = len

theorem regScan_ok {n : Nat} (hn : 0 < n) : ∀ {gs : List Gap} {lb top pos : Nat}
    {gs' : List Gap} {i : Nat} {e : Option Nat},
    GapsOK lb gs top → regScan n gs pos = some (gs', i, e) →
    GapsOK lb gs' top ∧ lb ≤ i ∧ i + n < top ∧
    (∀ j, isFree gs j ↔ (isFree gs' j ∨ (i ≤ j ∧ j < i + n))) ∧
    (∀ j, isFree gs' j → ¬ (i ≤ j ∧ j < i + n)) ∧
    ErasedOK pos gs.length gs'.length e
  | [], _, _, _, _, _, _, _, h => by simp [regScan] at h
  | (a, b) :: gs, lb, top, pos, gs', i, e, hk, h => by
    rw [GapsOK_cons] at hk
    obtain ⟨h1, h2, h3, h4⟩ := hk
    simp only [regScan] at h
    split at h
    · rename_i hlen
      simp only [Option.some.injEq, Prod.mk.injEq] at h
      obtain ⟨rfl, rfl, rfl⟩ := h
      refine ⟨?_, h1, by omega, ?_, ?_, ?_⟩
      · rw [GapsOK_cons]; exact ⟨by omega, by omega, h3, h4⟩
      · intro j
        rw [isFree_cons, isFree_cons]
        constructor
        · rintro (h | h)
          · by_cases hj : j < a + n
            · exact Or.inr ⟨h.1, hj⟩
            · exact Or.inl (Or.inl ⟨by omega, h.2⟩)
          · exact Or.inl (Or.inr h)
        · rintro ((h | h) | h)
          · exact Or.inl ⟨by omega, h.2⟩
          · exact Or.inr h
          · exact Or.inl ⟨h.1, by omega⟩
      · intro j hj
        rw [isFree_cons] at hj
        rcases hj with hj | hj
        · omega
        · have := (GapsOK_bounds h4 hj).1; omega
      · simp [ErasedOK]
    · split at h
      · rename_i hlen' hlen
        simp only [Option.some.injEq, Prod.mk.injEq] at h
        obtain ⟨rfl, rfl, rfl⟩ := h
        refine ⟨GapsOK_mono_lb (by omega) h4, h1, by omega, ?_, ?_, ?_⟩
        · intro j
          rw [isFree_cons]
          constructor
          · rintro (h | h)
            · exact Or.inr ⟨h.1, by omega⟩
            · exact Or.inl h
          · rintro (h | h)
            · exact Or.inr h
            · exact Or.inl ⟨h.1, by omega⟩
        · intro j hj
          have := (GapsOK_bounds h4 hj).1; omega
        · simp [ErasedOK]
      · rename_i hlen' hlen
        split at h
        · simp at h
        · rename_i gs'' i' e' hrec
          simp only [Option.some.injEq, Prod.mk.injEq] at h
          obtain ⟨rfl, rfl, rfl⟩ := h
          obtain ⟨r1, r2, r3, r4, r5, r6⟩ := regScan_ok hn h4 hrec
          refine ⟨?_, by omega, r3, ?_, ?_, ?_⟩
          · rw [GapsOK_cons]; exact ⟨h1, h2, h3, r1⟩
          · intro j
            rw [isFree_cons, isFree_cons, r4 j]
            constructor
            · rintro (h | h | h)
              · exact Or.inl (Or.inl h)
              · exact Or.inl (Or.inr h)
              · exact Or.inr h
            · rintro ((h | h) | h)
              · exact Or.inl h
              · exact Or.inr (Or.inl h)
              · exact Or.inr (Or.inr h)
          · intro j hj
            rw [isFree_cons] at hj
            rcases hj with hj | hj
            · omega
            · exact r5 j hj
          · cases e' with
            | none => simp only [ErasedOK, List.length_cons] at r6 ⊢; omega
            | some p => simp only [ErasedOK, List.length_cons] at r6 ⊢; omega

theorem cursorAfterErase_lt {p len : Nat} {c : Option Nat}
    (hc : ∀ r, c = some r → r < len + 1) (hp : p < len + 1) :
    ∀ r', cursorAfterErase p c = some r' → r' < len := by
  intro r' h
  cases c with
  | none => simp [cursorAfterErase] at h
  | some r =>
    have := hc r rfl
    simp only [cursorAfterErase] at h
    split at h
    · simp at h
    · split at h
      · simp only [Option.some.injEq] at h; omega
      · simp only [Option.some.injEq] at h; omega

theorem regN_some_none {n : Nat} {s : GA} {gs' : List Gap} {i : Nat}
    (h : regScan n s.gaps 0 = some (gs', i, none)) :
    regN n s = ({ s with nReg := s.nReg + n, gaps := gs' }, i) := by
  simp only [regN, h]

theorem regN_some_some {n : Nat} {s : GA} {gs' : List Gap} {i p : Nat}
    (h : regScan n s.gaps 0 = some (gs', i, some p)) :
    regN n s = ({ s with nReg := s.nReg + n, gaps := gs',
                          recent := cursorAfterErase p s.recent }, i) := by
  simp only [regN, h]

theorem regN_none {n : Nat} {s : GA} (h : regScan n s.gaps 0 = none) :
    regN n s = ({ s with nReg := s.nReg + n, iGrad := s.iGrad + n,
                          maxGrad := if s.iGrad + n > s.maxGrad then s.iGrad + n else s.maxGrad },
                s.iGrad) := by
  simp only [regN, h, Nat.add_sub_cancel]

theorem count_cons {x : Int} {i n : Nat} {L : List Block}
    (h : x = (L.map (fun B => (B.2 : Int))).sum) :
    x + (n : Int) = (((i, n) :: L).map (fun B => (B.2 : Int))).sum := by
  rw [List.map_cons, List.sum_cons, ← h]; omega

/-- allocation out of a gap -/
theorem inv_alloc_gap {s s' : GA} {L : List Block} {i n : Nat} (h : Inv s L) (hn : 0 < n)
    (hg : GapsOK 0 s'.gaps s'.iGrad) (hi : s'.iGrad = s.iGrad) (hm : s'.maxGrad = s.maxGrad)
    (hc : ∀ r, s'.recent = some r → r < s'.gaps.length)
    (hcount : s'.nReg = s.nReg + n) (hin : i + n ≤ s.iGrad)
    (hf1 : ∀ j, isFree s.gaps j ↔ isFree s'.gaps j ∨ (i ≤ j ∧ j < i + n))
    (hf2 : ∀ j, isFree s'.gaps j → ¬ (i ≤ j ∧ j < i + n)) :
    Inv s' ((i, n) :: L) ∧ (∀ j, inBlock (i, n) j → ¬ isLive L j) := by
  have hfresh : ∀ j, inBlock (i, n) j → ¬ isLive L j := by
    intro j hj
    have hj' : i ≤ j ∧ j < i + n := hj
    have : isFree s.gaps j := (hf1 j).2 (Or.inr hj')
    exact (h.tile j (by omega)).1 this
  refine ⟨⟨hg, hc, by rw [hi, hm]; exact h.le_max, ?_, ?_, ?_, ?_⟩, hfresh⟩
  · intro j hj
    rw [hi] at hj
    rw [isLive_cons]
    have ht := h.tile j hj
    have h1 := hf1 j
    have h2 := hf2 j
    show _ ↔ ¬ ((i ≤ j ∧ j < i + n) ∨ _)
    constructor
    · intro hfj
      rintro (hb | hl)
      · exact h2 hfj hb
      · exact ht.1 (h1.2 (Or.inl hfj)) hl
    · intro hnot
      have : isFree s.gaps j := ht.2 (fun hl => hnot (Or.inr hl))
      rcases h1.1 this with h3 | h3
      · exact h3
      · exact absurd (Or.inl h3) hnot
  · intro B hB
    rcases List.mem_cons.1 hB with rfl | hB
    · exact ⟨hn, by rw [hi]; exact hin⟩
    · rw [hi]; exact h.below B hB
  · rw [List.pairwise_cons]
    refine ⟨?_, h.disj⟩
    intro C hC j hj
    exact hfresh j hj.1 ⟨C, hC, hj.2⟩
  · rw [hcount]; exact count_cons h.count

/-- allocation at the top of the stack -/
theorem inv_alloc_top {s : GA} {L : List Block} {n : Nat} (h : Inv s L) (hn : 0 < n) :
    Inv { s with nReg := s.nReg + n, iGrad := s.iGrad + n,
                 maxGrad := if s.iGrad + n > s.maxGrad then s.iGrad + n else s.maxGrad }
        ((s.iGrad, n) :: L) ∧ (∀ j, inBlock (s.iGrad, n) j → ¬ isLive L j) := by
  have hfresh : ∀ j, inBlock (s.iGrad, n) j → ¬ isLive L j := by
    rintro j hj ⟨C, hC, hjC⟩
    have := (h.below C hC).2
    have h1 : s.iGrad ≤ j := hj.1
    have h2 : j < C.1 + C.2 := hjC.2
    omega
  refine ⟨⟨?_, h.cursor, ?_, ?_, ?_, ?_, ?_⟩, hfresh⟩
  · exact GapsOK_mono_top (Nat.le_add_right _ _) h.gapsOK
  · show s.iGrad + n ≤ if s.iGrad + n > s.maxGrad then s.iGrad + n else s.maxGrad
    split <;> omega
  · intro j hj
    have hj : j < s.iGrad + n := hj
    show isFree s.gaps j ↔ _
    rw [isLive_cons]
    by_cases hlt : j < s.iGrad
    · have ht := h.tile j hlt
      have : ¬ inBlock (s.iGrad, n) j := fun hb => by have : s.iGrad ≤ j := hb.1; omega
      rw [ht]
      constructor
      · rintro h1 (h2 | h2)
        · exact this h2
        · exact h1 h2
      · intro h1 h2; exact h1 (Or.inr h2)
    · have hb : inBlock (s.iGrad, n) j := ⟨by show s.iGrad ≤ j; omega, hj⟩
      constructor
      · intro hf
        have := (GapsOK_bounds h.gapsOK hf).2
        omega
      · intro h1; exact absurd (Or.inl hb) h1
  · intro B hB
    show 0 < B.2 ∧ B.1 + B.2 ≤ s.iGrad + n
    rcases List.mem_cons.1 hB with rfl | hB
    · exact ⟨hn, Nat.le_refl _⟩
    · have := h.below B hB; omega
  · rw [List.pairwise_cons]
    refine ⟨?_, h.disj⟩
    intro C hC j hj
    exact hfresh j hj.1 ⟨C, hC, hj.2⟩
  · exact count_cons h.count

theorem inv_regN {s : GA} {L : List Block} (n : Nat) (hn : 0 < n) (h : Inv s L) :
    Inv (regN n s).1 (((regN n s).2, n) :: L) ∧
    (∀ j, inBlock ((regN n s).2, n) j → ¬ isLive L j) ∧
    (regN n s).2 + n ≤ (regN n s).1.maxGrad := by
  cases hscan : regScan n s.gaps 0 with
  | none =>
    rw [regN_none hscan]
    obtain ⟨h1, h2⟩ := inv_alloc_top (n := n) h hn
    refine ⟨h1, h2, ?_⟩
    show s.iGrad + n ≤ if s.iGrad + n > s.maxGrad then s.iGrad + n else s.maxGrad
    split <;> omega
  | some res =>
    obtain ⟨gs', i, e⟩ := res
    obtain ⟨r1, r2, r3, r4, r5, r6⟩ := regScan_ok hn h.gapsOK hscan
    have hmax := h.le_max
    cases e with
    | none =>
      rw [regN_some_none hscan]
      have hc : ∀ r, s.recent = some r → r < gs'.length := by
        intro r hr
        have := h.cursor r hr
        simp only [ErasedOK] at r6
        omega
      obtain ⟨h1, h2⟩ := inv_alloc_gap (s' := { s with nReg := s.nReg + n, gaps := gs' })
        h hn r1 rfl rfl hc rfl (by omega) r4 r5
      exact ⟨h1, h2, by show i + n ≤ s.maxGrad; omega⟩
    | some p =>
      rw [regN_some_some hscan]
      simp only [ErasedOK] at r6
      have hc : ∀ r, cursorAfterErase p s.recent = some r → r < gs'.length :=
        cursorAfterErase_lt (fun r hr => by have := h.cursor r hr; omega) (by omega)
      obtain ⟨h1, h2⟩ := inv_alloc_gap
        (s' := { s with nReg := s.nReg + n, gaps := gs', recent := cursorAfterErase p s.recent })
        h hn r1 rfl rfl hc rfl (by omega) r4 r5
      exact ⟨h1, h2, by show i + n ≤ s.maxGrad; omega⟩

theorem reg1_eq_regN {s : GA} {lb top : Nat} (h : GapsOK lb s.gaps top) : reg1 s = regN 1 s := by
  obtain ⟨ig, mg, nr, gaps, rc⟩ := s
  cases gaps with
  | nil => simp [reg1, regN, regScan]
  | cons x gs =>
    obtain ⟨a, b⟩ := x
    have hab : a ≤ b := by
      simp only [GapsOK_cons] at h; exact h.2.1
    by_cases hlt : a + 1 > b
    · have hlen' : b + 1 - a = 1 := by omega
      simp [reg1, regN, regScan, hlt, hlen']
    · have hlen : b + 1 - a > 1 := by omega
      simp [reg1, regN, regScan, hlt, hlen]

/-! ### Release, not at the top -/

theorem findPos_some : ∀ {gs : List Gap} {idx lb top pos p : Nat},
    GapsOK lb gs top → findPos idx gs pos = some p →
    ∃ pre a b post, gs = pre ++ (a, b) :: post ∧ p = pos + pre.length ∧
      GapsOK lb pre idx ∧ idx ≤ b + 1
  | [], _, _, _, _, _, _, h => by simp [findPos] at h
  | (c, d) :: gs, idx, lb, top, pos, p, hk, h => by
    rw [GapsOK_cons] at hk
    simp only [findPos] at h
    split at h
    · rename_i hle
      simp only [Option.some.injEq] at h
      exact ⟨[], c, d, gs, rfl, by simp [h], GapsOK_nil _ _, hle⟩
    · rename_i hle
      obtain ⟨pre, a, b, post, h1, h2, h3, h4⟩ := findPos_some hk.2.2.2 h
      refine ⟨(c, d) :: pre, a, b, post, by rw [h1]; rfl, by simp only [List.length_cons]; omega,
        ?_, h4⟩
      rw [GapsOK_cons]; exact ⟨hk.1, hk.2.1, by omega, h3⟩

theorem findPos_none : ∀ {gs : List Gap} {idx lb top pos : Nat},
    GapsOK lb gs top → findPos idx gs pos = none → GapsOK lb gs idx
  | [], _, _, _, _, _, _ => GapsOK_nil _ _
  | (c, d) :: gs, idx, lb, top, pos, hk, h => by
    rw [GapsOK_cons] at hk
    simp only [findPos] at h
    split at h
    · simp at h
    · rename_i hle
      rw [GapsOK_cons]
      exact ⟨hk.1, hk.2.1, by omega, findPos_none hk.2.2.2 h⟩

/-- `applyAt` on a list given in decomposed form -/
theorem applyAt_split (idx n : Nat) (pre : List Gap) (a b : Nat) (post : List Gap) (ins : Bool) :
    applyAt idx n (pre ++ (a, b) :: post) pre.length ins =
      if idx + n = a then
        match pre.getLast? with
        | some p =>
          if p.2 + 1 = idx then some (pre.dropLast ++ (p.1, b) :: post, pre.length - 1)
          else some (pre ++ (idx, b) :: post, pre.length)
        | none => some (pre ++ (idx, b) :: post, pre.length)
      else if idx = b + 1 then
        match post with
        | (c, d) :: post' =>
          if c = b + n + 1 then some (pre ++ (a, d) :: post', pre.length)
          else some (pre ++ (a, b + n) :: post, pre.length)
        | [] => some (pre ++ [(a, b + n)], pre.length)
      else if ins then
        some (pre ++ (idx, idx + n - 1) :: (a, b) :: post, pre.length)
      else none := by
  simp only [applyAt, List.drop_left, List.take_left]
  rfl

/-- the outcome of a release below the top: the list is still OK, the free set grew by exactly
    the block, and the new cursor is valid -/
def RelOK (idx n top : Nat) (gs gs' : List Gap) (r' : Nat) : Prop :=
  GapsOK 0 gs' top ∧ (∀ j, isFree gs' j ↔ isFree gs j ∨ (idx ≤ j ∧ j < idx + n)) ∧
  r' < gs'.length

/-- ADDED_AT_BASE -/
theorem applyAt_base_ok {idx n top : Nat} {pre : List Gap} {a b : Nat} {post : List Gap}
    {ins : Bool} {gs' : List Gap} {r' : Nat} (hn : 0 < n)
    (hk : GapsOK 0 (pre ++ (a, b) :: post) top)
    (hlive : ∀ j, idx ≤ j → j < idx + n → ¬ isFree (pre ++ (a, b) :: post) j)
    (hbase : idx + n = a)
    (h : applyAt idx n (pre ++ (a, b) :: post) pre.length ins = some (gs', r')) :
    RelOK idx n top (pre ++ (a, b) :: post) gs' r' := by
  rw [applyAt_split, if_pos hbase] at h
  have hk' := hk
  rw [GapsOK_append] at hk'
  obtain ⟨hpre, -, hab, hbt, hpost⟩ := hk'
  have hlast : ∀ p1 p2, pre.getLast? = some (p1, p2) →
      GapsOK 0 pre.dropLast p1 ∧ p1 ≤ p2 ∧ p2 < idx := by
    intro p1 p2 hp
    have hd := dropLast_append_of_getLast? hp
    have hpre' := hpre
    rw [← hd, GapsOK_append] at hpre'
    refine ⟨hpre'.1, hpre'.2.2.1, ?_⟩
    have hfree : isFree (pre ++ (a, b) :: post) p2 := by
      rw [isFree_append]
      exact Or.inl (isFree_of_mem (List.mem_of_getLast? hp) hpre'.2.2.1 (Nat.le_refl _))
    have := hpre'.2.2.2.1
    by_cases hlt : p2 < idx
    · exact hlt
    · exact absurd hfree (hlive p2 (by omega) (by omega))
  -- the common non-merging outcome
  have hplain : GapsOK 0 pre idx →
      RelOK idx n top (pre ++ (a, b) :: post) (pre ++ (idx, b) :: post) pre.length := by
    intro hpre_idx
    refine ⟨?_, ?_, ?_⟩
    · rw [GapsOK_append]
      exact ⟨hpre_idx, Nat.zero_le _, by omega, hbt, hpost⟩
    · intro j
      simp only [isFree_append, isFree_cons]
      by_cases hP : isFree pre j <;> by_cases hQ : isFree post j <;>
        simp only [hP, hQ, true_or, or_true, false_or, or_false] <;> omega
    · simp only [List.length_append, List.length_cons]; omega
  split at h
  · rename_i p hp
    obtain ⟨p1, p2⟩ := p
    obtain ⟨hd1, hd2, hd3⟩ := hlast p1 p2 hp
    have hd := dropLast_append_of_getLast? hp
    split at h
    · rename_i hmerge
      simp only [Option.some.injEq, Prod.mk.injEq] at h
      obtain ⟨rfl, rfl⟩ := h
      have hmerge : p2 + 1 = idx := hmerge
      refine ⟨?_, ?_, ?_⟩
      · rw [GapsOK_append]
        exact ⟨hd1, Nat.zero_le _, by omega, hbt, hpost⟩
      · intro j
        rw [← hd]
        simp only [List.dropLast_concat, isFree_append, isFree_cons, isFree_nil]
        by_cases hP : isFree pre.dropLast j <;> by_cases hQ : isFree post j <;>
          simp only [hP, hQ, true_or, or_true, false_or, or_false] <;> omega
      · have : pre.length = pre.dropLast.length + 1 := by
          rw [← hd]; simp
        simp only [List.length_append, List.length_cons]; omega
    · rename_i hmerge
      simp only [Option.some.injEq, Prod.mk.injEq] at h
      obtain ⟨rfl, rfl⟩ := h
      have hmerge : ¬ p2 + 1 = idx := hmerge
      apply hplain
      refine GapsOK_of_getLast hpre (fun q hq => ?_)
      rw [hp] at hq
      simp only [Option.some.injEq] at hq
      subst hq
      show p2 + 1 < idx
      omega
  · rename_i hnone
    simp only [Option.some.injEq, Prod.mk.injEq] at h
    obtain ⟨rfl, rfl⟩ := h
    apply hplain
    refine GapsOK_of_getLast hpre (fun q hq => ?_)
    rw [hnone] at hq
    simp at hq

/-- ADDED_AT_TOP -/
theorem applyAt_top_ok {idx n top : Nat} {pre : List Gap} {a b : Nat} {post : List Gap}
    {ins : Bool} {gs' : List Gap} {r' : Nat} (hn : 0 < n)
    (hk : GapsOK 0 (pre ++ (a, b) :: post) top) (htop : idx + n < top)
    (hlive : ∀ j, idx ≤ j → j < idx + n → ¬ isFree (pre ++ (a, b) :: post) j)
    (hbase : ¬ idx + n = a) (hat : idx = b + 1)
    (h : applyAt idx n (pre ++ (a, b) :: post) pre.length ins = some (gs', r')) :
    RelOK idx n top (pre ++ (a, b) :: post) gs' r' := by
  rw [applyAt_split, if_neg hbase, if_pos hat] at h
  have hk' := hk
  rw [GapsOK_append] at hk'
  obtain ⟨hpre, -, hab, hbt, hpost⟩ := hk'
  split at h
  · rename_i c d post'
    rw [GapsOK_cons] at hpost
    obtain ⟨hc1, hcd, hdt, hpost'⟩ := hpost
    have hc : idx + n ≤ c := by
      by_cases hlt : idx + n ≤ c
      · exact hlt
      · refine absurd ?_ (hlive c (by omega) (by omega))
        simp only [isFree_append, isFree_cons]
        exact Or.inr (Or.inr (Or.inl ⟨Nat.le_refl _, hcd⟩))
    split at h
    · rename_i hmerge
      simp only [Option.some.injEq, Prod.mk.injEq] at h
      obtain ⟨rfl, rfl⟩ := h
      refine ⟨?_, ?_, ?_⟩
      · rw [GapsOK_append]
        exact ⟨hpre, Nat.zero_le _, by omega, hdt, hpost'⟩
      · intro j
        simp only [isFree_append, isFree_cons]
        by_cases hP : isFree pre j <;> by_cases hQ : isFree post' j <;>
          simp only [hP, hQ, true_or, or_true, false_or, or_false] <;> omega
      · simp only [List.length_append, List.length_cons]; omega
    · rename_i hmerge
      simp only [Option.some.injEq, Prod.mk.injEq] at h
      obtain ⟨rfl, rfl⟩ := h
      refine ⟨?_, ?_, ?_⟩
      · rw [GapsOK_append, GapsOK_cons]
        exact ⟨hpre, Nat.zero_le _, by omega, by omega, by omega, hcd, hdt, hpost'⟩
      · intro j
        simp only [isFree_append, isFree_cons]
        by_cases hP : isFree pre j <;> by_cases hQ : isFree post' j <;>
          simp only [hP, hQ, true_or, or_true, false_or, or_false] <;> omega
      · simp only [List.length_append, List.length_cons]; omega
  · simp only [Option.some.injEq, Prod.mk.injEq] at h
    obtain ⟨rfl, rfl⟩ := h
    refine ⟨?_, ?_, ?_⟩
    · rw [GapsOK_append]
      exact ⟨hpre, Nat.zero_le _, by omega, by omega, GapsOK_nil _ _⟩
    · intro j
      simp only [isFree_append, isFree_cons, isFree_nil]
      by_cases hP : isFree pre j <;>
        simp only [hP, true_or, false_or, or_false] <;> omega
    · simp only [List.length_append, List.length_cons]; omega

/-- NEW_GAP (scan path only) -/
theorem applyAt_new_ok {idx n top : Nat} {pre : List Gap} {a b : Nat} {post : List Gap}
    {gs' : List Gap} {r' : Nat} (hn : 0 < n)
    (hk : GapsOK 0 (pre ++ (a, b) :: post) top) (htop : idx + n < top)
    (hlive : ∀ j, idx ≤ j → j < idx + n → ¬ isFree (pre ++ (a, b) :: post) j)
    (hbase : ¬ idx + n = a) (hat : ¬ idx = b + 1)
    (hpre_idx : GapsOK 0 pre idx) (hle : idx ≤ b + 1)
    (h : applyAt idx n (pre ++ (a, b) :: post) pre.length true = some (gs', r')) :
    RelOK idx n top (pre ++ (a, b) :: post) gs' r' := by
  rw [applyAt_split, if_neg hbase, if_neg hat, if_pos rfl] at h
  simp only [Option.some.injEq, Prod.mk.injEq] at h
  obtain ⟨rfl, rfl⟩ := h
  have hk' := hk
  rw [GapsOK_append] at hk'
  obtain ⟨hpre, -, hab, hbt, hpost⟩ := hk'
  have hgap : ∀ j, a ≤ j → j ≤ b → ¬ (idx ≤ j ∧ j < idx + n) := by
    intro j h1 h2 h3
    refine hlive j h3.1 h3.2 ?_
    simp only [isFree_append, isFree_cons]
    exact Or.inr (Or.inl ⟨h1, h2⟩)
  have ha : idx + n < a := by
    have h1 := hgap a (Nat.le_refl _) hab
    have h2 := hgap b hab (Nat.le_refl _)
    by_cases hia : idx < a
    · omega
    · have h3 := hgap idx (by omega) (by omega)
      omega
  refine ⟨?_, ?_, ?_⟩
  · rw [GapsOK_append, GapsOK_cons]
    exact ⟨hpre_idx, Nat.zero_le _, by omega, by omega, by omega, hab, hbt, hpost⟩
  · intro j
    simp only [isFree_append, isFree_cons]
    by_cases hP : isFree pre j <;> by_cases hQ : isFree post j <;>
      simp only [hP, hQ, true_or, or_true, false_or, or_false] <;> omega
  · simp only [List.length_append, List.length_cons]; omega

theorem applyAt_ok {idx n top : Nat} {pre : List Gap} {a b : Nat} {post : List Gap}
    {ins : Bool} {gs' : List Gap} {r' : Nat} (hn : 0 < n)
    (hk : GapsOK 0 (pre ++ (a, b) :: post) top) (htop : idx + n < top)
    (hlive : ∀ j, idx ≤ j → j < idx + n → ¬ isFree (pre ++ (a, b) :: post) j)
    (hins : ins = true → GapsOK 0 pre idx ∧ idx ≤ b + 1)
    (h : applyAt idx n (pre ++ (a, b) :: post) pre.length ins = some (gs', r')) :
    RelOK idx n top (pre ++ (a, b) :: post) gs' r' := by
  by_cases hbase : idx + n = a
  · exact applyAt_base_ok hn hk hlive hbase h
  · by_cases hat : idx = b + 1
    · exact applyAt_top_ok hn hk htop hlive hbase hat h
    · cases ins with
      | false =>
        rw [applyAt_split, if_neg hbase, if_neg hat] at h
        simp at h
      | true =>
        obtain ⟨h1, h2⟩ := hins rfl
        exact applyAt_new_ok hn hk htop hlive hbase hat h1 h2 h

theorem applyAt_true_ne_none (idx n : Nat) (pre : List Gap) (a b : Nat) (post : List Gap) :
    applyAt idx n (pre ++ (a, b) :: post) pre.length true ≠ none := by
  rw [applyAt_split]
  repeat' split
  all_goals simp_all

/-- what the not-at-top release achieves -/
theorem unregNotTop_ok {s : GA} {idx n : Nat} (hn : 0 < n)
    (hk : GapsOK 0 s.gaps s.iGrad) (hc : ∀ r, s.recent = some r → r < s.gaps.length)
    (htop : idx + n < s.iGrad)
    (hlive : ∀ j, idx ≤ j → j < idx + n → ¬ isFree s.gaps j) :
    (unregNotTop idx n s).iGrad = s.iGrad ∧ (unregNotTop idx n s).maxGrad = s.maxGrad ∧
    (unregNotTop idx n s).nReg = s.nReg ∧
    ∃ r', (unregNotTop idx n s).recent = some r' ∧
      RelOK idx n s.iGrad s.gaps (unregNotTop idx n s).gaps r' := by
  simp only [unregNotTop]
  split
  · rename_i gs' r' hfast
    refine ⟨rfl, rfl, rfl, r', rfl, ?_⟩
    show RelOK idx n s.iGrad s.gaps gs' r'
    split at hfast
    · simp at hfast
    · rename_i r hr
      obtain ⟨pre, x, post, hsplit, hlen⟩ := exists_split (hc r hr)
      obtain ⟨a, b⟩ := x
      rw [hsplit] at hk hlive hfast ⊢
      subst hlen
      exact applyAt_ok hn hk htop hlive (by simp) hfast
  · split
    · rename_i p hfind
      obtain ⟨pre, a, b, post, hsplit, hp, hpre, hle⟩ := findPos_some hk hfind
      simp only [Nat.zero_add] at hp
      subst hp
      split
      · rename_i gs' r' happ
        refine ⟨rfl, rfl, rfl, r', rfl, ?_⟩
        show RelOK idx n s.iGrad s.gaps gs' r'
        rw [hsplit] at hk hlive happ ⊢
        exact applyAt_ok hn hk htop hlive (fun _ => ⟨hpre, hle⟩) happ
      · rename_i happ
        rw [hsplit] at happ
        exact absurd happ (applyAt_true_ne_none _ _ _ _ _ _)
    · rename_i hfind
      refine ⟨rfl, rfl, rfl, s.gaps.length, rfl, ?_⟩
      show RelOK idx n s.iGrad s.gaps (s.gaps ++ [(idx, idx + n - 1)]) s.gaps.length
      refine ⟨?_, ?_, ?_⟩
      · rw [GapsOK_append]
        exact ⟨findPos_none hk hfind, Nat.zero_le _, by omega, by omega, GapsOK_nil _ _⟩
      · intro j
        simp only [isFree_append, isFree_cons, isFree_nil]
        by_cases hP : isFree s.gaps j <;>
          simp only [hP, true_or, false_or, or_false] <;> omega
      · simp only [List.length_append, List.length_cons, List.length_nil]; omega

/-! ### Release: the invariant -/

theorem count_erase {x : Int} {B : Block} {L : List Block} (hB : B ∈ L)
    (h : x = (L.map (fun B => (B.2 : Int))).sum) :
    x - (B.2 : Int) = ((L.erase B).map (fun B => (B.2 : Int))).sum := by
  have := sum_erase (fun B => (B.2 : Int)) hB
  rw [h, this]
  omega

/-- a released live block is not free, and lies below the top -/
theorem live_not_free {s : GA} {L : List Block} {idx n : Nat} (h : Inv s L) (hB : (idx, n) ∈ L) :
    0 < n ∧ idx + n ≤ s.iGrad ∧ ∀ j, idx ≤ j → j < idx + n → ¬ isFree s.gaps j := by
  have hb := h.below _ hB
  refine ⟨hb.1, hb.2, ?_⟩
  intro j h1 h2 hf
  have hb2 : idx + n ≤ s.iGrad := hb.2
  exact (h.tile j (by omega)).1 hf ⟨(idx, n), hB, h1, h2⟩

/-- generic release step -/
theorem inv_release {s s' : GA} {L : List Block} {idx n : Nat} (h : Inv s L)
    (hB : (idx, n) ∈ L)
    (hg : GapsOK 0 s'.gaps s'.iGrad) (hc : ∀ r, s'.recent = some r → r < s'.gaps.length)
    (hm : s'.maxGrad = s.maxGrad) (hi : s'.iGrad ≤ s.iGrad)
    (hcount : s'.nReg = s.nReg - n)
    (hfree : ∀ j, j < s'.iGrad → (isFree s'.gaps j ↔ isFree s.gaps j ∨ (idx ≤ j ∧ j < idx + n)))
    (htop : ∀ j, s'.iGrad ≤ j → j < s.iGrad → isFree s.gaps j ∨ (idx ≤ j ∧ j < idx + n)) :
    Inv s' (L.erase (idx, n)) := by
  have hle := h.le_max
  have hlive := isLive_erase hB h.disj
  refine ⟨hg, hc, by omega, ?_, ?_, ?_, ?_⟩
  · intro j hj
    rw [hfree j hj, hlive j]
    have ht := h.tile j (by omega)
    have hnf := (live_not_free h hB).2.2 j
    show _ ↔ ¬ (_ ∧ ¬ (idx ≤ j ∧ j < idx + n))
    constructor
    · rintro (hf | hb) ⟨h1, h2⟩
      · exact ht.1 hf h1
      · exact h2 hb
    · intro hnot
      by_cases hb : idx ≤ j ∧ j < idx + n
      · exact Or.inr hb
      · exact Or.inl (ht.2 (fun hl => hnot ⟨hl, hb⟩))
  · intro C hC
    have hCL := List.mem_of_mem_erase hC
    have hb := h.below C hCL
    refine ⟨hb.1, ?_⟩
    by_cases hlt : C.1 + C.2 ≤ s'.iGrad
    · exact hlt
    · exfalso
      have hj : inBlock C (C.1 + C.2 - 1) := ⟨by omega, by omega⟩
      have hl : isLive (L.erase (idx, n)) (C.1 + C.2 - 1) := ⟨C, hC, hj⟩
      rw [hlive] at hl
      rcases htop (C.1 + C.2 - 1) (by omega) (by omega) with hf | hb
      · exact (h.tile _ (by omega)).1 hf hl.1
      · exact hl.2 hb
  · exact List.Pairwise.sublist List.erase_sublist h.disj
  · rw [hcount]; exact count_erase hB h.count

theorem unregN_nottop {s : GA} {idx n : Nat} (h : ¬ idx + n = s.iGrad) :
    unregN idx n s = unregNotTop idx n { s with nReg := s.nReg - n } := by
  simp only [unregN, h, if_false]

theorem unregN_top_merge {s : GA} {idx n a b : Nat} (h : idx + n = s.iGrad)
    (hl : s.gaps.getLast? = some (a, b)) (hm : s.iGrad - n = b + 1) :
    unregN idx n s = { s with nReg := s.nReg - n, iGrad := a, gaps := s.gaps.dropLast,
                                recent := if s.recent = some (s.gaps.length - 1) then none
                                          else s.recent } := by
  simp only [unregN, h, if_true, hl, hm]

theorem unregN_top_plain {s : GA} {idx n : Nat} (h : idx + n = s.iGrad)
    (hl : ∀ a b, s.gaps.getLast? = some (a, b) → ¬ s.iGrad - n = b + 1) :
    unregN idx n s = { s with nReg := s.nReg - n, iGrad := s.iGrad - n } := by
  simp only [unregN, h, if_true]
  split
  · rename_i a b hlast
    simp only [hl a b hlast, if_false]
  · rfl

theorem isFree_of_split {gs pre : List Gap} {a b : Nat} (hd : pre ++ [(a, b)] = gs) (j : Nat) :
    isFree gs j ↔ isFree pre j ∨ (a ≤ j ∧ j ≤ b) := by
  subst hd
  simp only [isFree_append, isFree_cons, isFree_nil, or_false]

theorem GapsOK_of_split {gs pre : List Gap} {a b lb top : Nat} (hd : pre ++ [(a, b)] = gs) :
    GapsOK lb gs top ↔ GapsOK lb pre a ∧ lb ≤ a ∧ a ≤ b ∧ b + 1 < top := by
  subst hd
  rw [GapsOK_append]
  simp only [GapsOK_nil, and_true]

theorem inv_unregN {s : GA} {L : List Block} (idx n : Nat) (h : Inv s L) (hB : (idx, n) ∈ L) :
    Inv (unregN idx n s) (L.erase (idx, n)) := by
  obtain ⟨hn, hle, hnf⟩ := live_not_free h hB
  by_cases htop : idx + n = s.iGrad
  · by_cases hmerge : ∃ a b, s.gaps.getLast? = some (a, b) ∧ s.iGrad - n = b + 1
    · obtain ⟨a, b, hlast, hm⟩ := hmerge
      rw [unregN_top_merge htop hlast hm]
      have hd := dropLast_append_of_getLast? hlast
      have hk := (GapsOK_of_split hd).1 h.gapsOK
      have hfs := isFree_of_split hd
      refine inv_release h hB hk.1 ?_ rfl ?_ rfl ?_ ?_
      · intro r hr
        have hr : (if s.recent = some (s.gaps.length - 1) then none else s.recent) = some r := hr
        show r < s.gaps.dropLast.length
        rw [List.length_dropLast]
        split at hr
        · simp at hr
        · rename_i hne
          have := h.cursor r hr
          have : r ≠ s.gaps.length - 1 := fun he => hne (by rw [hr, he])
          omega
      · show a ≤ s.iGrad
        omega
      · intro j hj
        have hj : j < a := hj
        show isFree s.gaps.dropLast j ↔ _
        rw [hfs j]
        by_cases hP : isFree s.gaps.dropLast j <;>
          simp only [hP, true_or, false_or, false_iff] <;> omega
      · intro j h1 h2
        have h1 : a ≤ j := h1
        rw [hfs j]
        by_cases hjb : j ≤ b
        · exact Or.inl (Or.inr ⟨h1, hjb⟩)
        · exact Or.inr ⟨by omega, by omega⟩
    · have hl : ∀ a b, s.gaps.getLast? = some (a, b) → ¬ s.iGrad - n = b + 1 :=
        fun a b h1 h2 => hmerge ⟨a, b, h1, h2⟩
      rw [unregN_top_plain htop hl]
      refine inv_release h hB ?_ h.cursor rfl ?_ rfl ?_ ?_
      · show GapsOK 0 s.gaps (s.iGrad - n)
        refine GapsOK_of_getLast h.gapsOK (fun p hp => ?_)
        obtain ⟨a, b⟩ := p
        have hne := hl a b hp
        have hd := dropLast_append_of_getLast? hp
        have hk := (GapsOK_of_split hd).1 h.gapsOK
        have hf : isFree s.gaps b := (isFree_of_split hd b).2 (Or.inr ⟨hk.2.2.1, Nat.le_refl _⟩)
        show b + 1 < s.iGrad - n
        by_cases hlt : b < idx
        · omega
        · exact absurd hf (hnf b (by omega) (by omega))
      · show s.iGrad - n ≤ s.iGrad
        omega
      · intro j hj
        have hj : j < s.iGrad - n := hj
        show isFree s.gaps j ↔ _
        by_cases hP : isFree s.gaps j <;>
          simp only [hP, true_or, false_or, false_iff] <;> omega
      · intro j h1 h2
        have h1 : s.iGrad - n ≤ j := h1
        exact Or.inr ⟨by omega, by omega⟩
  · rw [unregN_nottop htop]
    obtain ⟨e1, e2, e3, r', e4, hrel⟩ :=
      unregNotTop_ok (s := { s with nReg := s.nReg - n }) hn h.gapsOK h.cursor
        (by show idx + n < s.iGrad; omega) hnf
    have e1' : (unregNotTop idx n { s with nReg := s.nReg - n }).iGrad = s.iGrad := e1
    refine inv_release h hB ?_ ?_ e2 ?_ e3 ?_ ?_
    · rw [e1']; exact hrel.1
    · intro r hr
      rw [e4] at hr
      simp only [Option.some.injEq] at hr
      subst hr
      exact hrel.2.2
    · rw [e1']; exact Nat.le_refl _
    · intro j _
      exact hrel.2.1 j
    · intro j h1 h2
      rw [e1'] at h1
      omega

/-! ### The statements used by `Props/C08.lean` -/

theorem inv_init : Inv stackInit [] := by
  refine ⟨GapsOK_nil _ _, ?_, ?_, ?_, ?_, List.Pairwise.nil, rfl⟩
  · intro r hr; simp [stackInit, newRecording, init] at hr
  · simp [stackInit, newRecording, init]
  · intro j hj; simp [stackInit, newRecording, init] at hj
  · intro B hB; simp at hB

theorem inv_newRecording {s : GA} {L : List Block} (h : Inv s L) : Inv (newRecording s) L :=
  ⟨h.gapsOK, h.cursor, Nat.le_succ _, h.tile, h.below, h.disj, h.count⟩

theorem inv_reg1 {s : GA} {L : List Block} (h : Inv s L) :
    Inv (reg1 s).1 (((reg1 s).2, 1) :: L) := by
  rw [reg1_eq_regN h.gapsOK]
  exact (inv_regN 1 Nat.one_pos h).1

theorem inv_step {s : GA} {L : List Block} (op : Op) (h : Inv s L) (hl : Legal L op) :
    Inv (step s op).1 (ghost s L op) := by
  cases op with
  | reg1 => exact inv_reg1 h
  | regN n => exact (inv_regN n hl h).1
  | unreg1 i => exact inv_unregN i 1 h hl
  | unregN i n => exact inv_unregN i n h hl
  | newRec => exact inv_newRecording h

theorem inv_runHist : ∀ (ops : List Op) {s s' : GA} {L L' : List Block},
    Inv s L → runHist s L ops = some (s', L') → Inv s' L'
  | [], s, s', L, L', h, hr => by
    simp only [runHist, Option.some.injEq, Prod.mk.injEq] at hr
    obtain ⟨rfl, rfl⟩ := hr
    exact h
  | op :: ops, s, s', L, L', h, hr => by
    simp only [runHist] at hr
    split at hr
    · rename_i hl
      exact inv_runHist ops (inv_step op h hl) hr
    · simp at hr

theorem inv_reachable (ops : List Op) {s : GA} {L : List Block}
    (h : runHist stackInit [] ops = some (s, L)) : Inv s L :=
  inv_runHist ops inv_init h

theorem fresh_disjoint {s : GA} {L : List Block} (n : Nat) (hn : 0 < n) (h : Inv s L) :
    (∀ j, inBlock ((regN n s).2, n) j → ¬ isLive L j) ∧
    (regN n s).2 + n ≤ (regN n s).1.maxGrad :=
  (inv_regN n hn h).2

theorem fresh_disjoint1 {s : GA} {L : List Block} (h : Inv s L) :
    (¬ isLive L (reg1 s).2) ∧ (reg1 s).2 + 1 ≤ (reg1 s).1.maxGrad := by
  rw [reg1_eq_regN h.gapsOK]
  obtain ⟨h1, h2⟩ := fresh_disjoint 1 Nat.one_pos h
  exact ⟨h1 _ ⟨Nat.le_refl _, Nat.lt_succ_self _⟩, h2⟩

theorem live_distinct_below {s : GA} {L : List Block} (h : Inv s L) :
    L.Pairwise (fun B C => ∀ j, ¬ (inBlock B j ∧ inBlock C j)) ∧
    (∀ j, isLive L j → j < s.maxGrad) ∧
    s.nReg = (L.map (fun B => (B.2 : Int))).sum := by
  refine ⟨h.disj, ?_, h.count⟩
  rintro j ⟨B, hB, hj⟩
  have := (h.below B hB).2
  have := h.le_max
  have : j < B.1 + B.2 := hj.2
  omega

theorem gaps_canonical {s s' : GA} {L : List Block} (h : Inv s L) (h' : Inv s' L)
    (ht : s.iGrad = s'.iGrad) : s.gaps = s'.gaps := by
  refine GapsOK_ext h.gapsOK h'.gapsOK (fun j => ?_)
  constructor
  · intro hf
    have hj := (GapsOK_bounds h.gapsOK hf).2
    exact (h'.tile j (by omega)).2 ((h.tile j (by omega)).1 hf)
  · intro hf
    have hj := (GapsOK_bounds h'.gapsOK hf).2
    exact (h.tile j (by omega)).2 ((h'.tile j (by omega)).1 hf)

theorem inv_forget_cursor {s : GA} {L : List Block} (h : Inv s L) :
    Inv { s with recent := none } L :=
  ⟨h.gapsOK, fun r hr => by simp at hr, h.le_max, h.tile, h.below, h.disj, h.count⟩

theorem unregNotTop_iGrad (idx n : Nat) (s : GA) : (unregNotTop idx n s).iGrad = s.iGrad := by
  simp only [unregNotTop]
  repeat' split
  all_goals rfl

theorem unregN_iGrad_cursor (idx n : Nat) (s : GA) :
    (unregN idx n s).iGrad = (unregN idx n { s with recent := none }).iGrad := by
  simp only [unregN]
  split
  · split
    · split <;> rfl
    · rfl
  · rw [unregNotTop_iGrad, unregNotTop_iGrad]

theorem cursor_irrelevant {s : GA} {L : List Block} (i n : Nat) (h : Inv s L)
    (hl : (i, n) ∈ L) :
    (unregN i n s).gaps = (unregN i n { s with recent := none }).gaps ∧
    (unregN i n s).iGrad = (unregN i n { s with recent := none }).iGrad := by
  have hi := unregN_iGrad_cursor i n s
  exact ⟨gaps_canonical (inv_unregN i n h hl) (inv_unregN i n (inv_forget_cursor h) hl) hi, hi⟩

end Adept.GradAlloc
