import AdeptModel.Expr
import Mathlib.MeasureTheory.Integral.IntervalIntegral.FundThmCalculus
import Mathlib.Analysis.SpecialFunctions.Trigonometric.Deriv
import Mathlib.Analysis.SpecialFunctions.Trigonometric.ArctanDeriv
import Mathlib.Analysis.SpecialFunctions.Trigonometric.InverseDeriv
import Mathlib.Analysis.SpecialFunctions.ExpDeriv
import Mathlib.Analysis.SpecialFunctions.Log.Deriv
import Mathlib.Analysis.SpecialFunctions.Pow.Deriv
import Mathlib.Analysis.SpecialFunctions.Sqrt
import Mathlib.Analysis.SpecialFunctions.Arsinh
import Mathlib.Analysis.SpecialFunctions.Arcosh
import Mathlib.Analysis.SpecialFunctions.Artanh
import Mathlib.Analysis.SpecialFunctions.Complex.LogDeriv
import Mathlib.Analysis.Calculus.Deriv.Abs
/-!
The noncomputable `Num ℝ` instance of the proof layer: what each C library function *is* as a real function.

* `erf` is its definition `2/√π ∫₀ˣ e^{-t²} dt` (Mathlib has no error function; the derivative is proved here
  from the fundamental theorem of calculus, so no hypothesis is needed); `erfc = 1 - erf`.
* `atan2 y x` is the argument of `x + y i` (`Complex.arg`).
* `cbrt x = sign x · |x|^{1/3}`; `exp2 x = 2^x`; `log2`, `log10` quotients of `Real.log`; `expm1`, `log1p` by definition.
* `round` rounds half away from zero, `rint`/`nearbyint` half to even, `trunc` towards zero (C semantics).
* `fastexp` is `exp`: Adept's vectorisable approximation is modelled by the function it approximates.
* decimal literals are their exact decimal value `num/den`; literals the translator recognised as a mathematical
  constant are that constant (`1/ln 10`, `1/ln 2`, `ln 2`, `2/√π`, …).
-/
namespace Adept.Expr
open Adept Real

/-- `erf x = 2/√π ∫₀ˣ e^{-t²} dt` -/
noncomputable def erfR (x : ℝ) : ℝ := 2 / √π * ∫ t in (0:ℝ)..x, Real.exp (-(t * t))

theorem erfR_hasDerivAt (x : ℝ) : HasDerivAt erfR (2 / √π * Real.exp (-(x * x))) x := by
  have hc : Continuous (fun t : ℝ => Real.exp (-(t * t))) := by fun_prop
  have h := intervalIntegral.integral_hasDerivAt_right (hc.intervalIntegrable 0 x)
    (hc.stronglyMeasurableAtFilter _ _) hc.continuousAt
  exact h.const_mul (2 / √π)

/-- C `cbrt` -/
noncomputable def cbrtR (x : ℝ) : ℝ := if 0 ≤ x then x ^ ((1:ℝ) / 3) else -((-x) ^ ((1:ℝ) / 3))
/-- C `round`: nearest integer, ties away from zero -/
noncomputable def roundR (x : ℝ) : ℝ := if 0 ≤ x then (⌊x + 1 / 2⌋ : ℝ) else (⌈x - 1 / 2⌉ : ℝ)
/-- C `trunc` -/
noncomputable def truncR (x : ℝ) : ℝ := if 0 ≤ x then (⌊x⌋ : ℝ) else (⌈x⌉ : ℝ)
/-- C `rint` / `nearbyint` in the default rounding mode: nearest integer, ties to even -/
noncomputable def rintR (x : ℝ) : ℝ :=
  if Int.fract x = 1 / 2 then (if Even ⌊x⌋ then (⌊x⌋ : ℝ) else (⌊x⌋ : ℝ) + 1) else (⌊x + 1 / 2⌋ : ℝ)
/-- C `atan2(y, x)` -/
noncomputable def atan2R (y x : ℝ) : ℝ := Complex.arg (⟨x, y⟩ : ℂ)

noncomputable def realCfun : CFun → ℝ → ℝ
  | .log => Real.log
  | .log10 => fun x => Real.log x / Real.log 10
  | .sin => Real.sin | .cos => Real.cos | .tan => Real.tan
  | .asin => Real.arcsin | .acos => Real.arccos | .atan => Real.arctan
  | .sinh => Real.sinh | .cosh => Real.cosh
  | .abs => fun x => |x| | .fabs => fun x => |x|
  | .sqrt => Real.sqrt
  | .tanh => Real.tanh
  | .fastexp => Real.exp
  | .exp => Real.exp
  | .ceil => fun x => (⌈x⌉ : ℝ)
  | .floor => fun x => (⌊x⌋ : ℝ)
  | .log2 => fun x => Real.log x / Real.log 2
  | .expm1 => fun x => Real.exp x - 1
  | .exp2 => fun x => (2:ℝ) ^ x
  | .log1p => fun x => Real.log (1 + x)
  | .asinh => Real.arsinh | .acosh => Real.arcosh | .atanh => Real.artanh
  | .erf => erfR
  | .erfc => fun x => 1 - erfR x
  | .cbrt => cbrtR
  | .round => roundR | .trunc => truncR | .rint => rintR | .nearbyint => rintR
  | .pos => fun x => x
  | .neg => fun x => -x
  | .lnot => fun x => if x = 0 then 1 else 0

noncomputable def realKConst : KConst → ℝ
  | .invLn10 => 1 / Real.log 10
  | .invLn2 => 1 / Real.log 2
  | .ln2 => Real.log 2
  | .ln10 => Real.log 10
  | .twoInvSqrtPi => 2 / √π
  | .pi => π

noncomputable instance instNumReal : Num ℝ where
  lit _ n d := (n : ℝ) / (d : ℝ)
  kconst c _ := realKConst c
  ofInt i := (i : ℝ)
  cfun := realCfun
  pow := fun a b => a ^ b
  atan2 := atan2R
  fmax := max
  fmin := min
  lt a b := decide (a < b)
  le a b := decide (a ≤ b)

@[simp] theorem lit_real (b : UInt64) (n d : Nat) : (Num.lit b n d : ℝ) = (n : ℝ) / (d : ℝ) := rfl
@[simp] theorem kconst_real (c : KConst) (b : UInt64) : (Num.kconst c b : ℝ) = realKConst c := rfl
@[simp] theorem ofInt_real (i : Int) : (Num.ofInt i : ℝ) = (i : ℝ) := rfl
@[simp] theorem cfun_real (c : CFun) : (Num.cfun c : ℝ → ℝ) = realCfun c := rfl
@[simp] theorem pow_real (a b : ℝ) : (Num.pow a b : ℝ) = a ^ b := rfl
@[simp] theorem atan2_real (a b : ℝ) : (Num.atan2 a b : ℝ) = atan2R a b := rfl
@[simp] theorem fmax_real (a b : ℝ) : (Num.fmax a b : ℝ) = max a b := rfl
@[simp] theorem fmin_real (a b : ℝ) : (Num.fmin a b : ℝ) = min a b := rfl
@[simp] theorem lt_real (a b : ℝ) : (Num.lt a b : Bool) = decide (a < b) := rfl
@[simp] theorem le_real (a b : ℝ) : (Num.le a b : Bool) = decide (a ≤ b) := rfl

end Adept.Expr
