import AdeptModel.Simd
import AdeptModel.Generated.VecTraits
/-!
# The rule the `is_vectorizable` trait of an expression node class must obey (C05)

`AdeptModel/Generated/VecTraits.lean` is the census, regenerated from include/adept/*.h by translate/vectrait.py on every run
of checks/c05.py, of every class that derives from `Expression<…>`: its trait declaration in normal form and the facts about
the class that decide whether that declaration is sound.  Core Lean only.

Why there is a rule at all: the packet loops of `Array::assign_expression_` and `reduce_inactive` advance EVERY array index of
the right-hand side themselves (`next_packet`: each index += `Packet<Type>::size`; `next_value_contiguous`: each index += 1).
A node class whose own index discipline is different — `Spread` along the last dimension (the argument's index must stay put
along a row), `OuterProduct` (the left vector's index never moves) — computes wrong elements in those loops, whatever its
`packet_at_location_` does.  The class's `advance_location_` is where that discipline is written down.
-/
namespace Adept.Simd.TraitCensus

/-- the rule, per normal form of the declaration:
* no declaration (the class inherits `Expression`'s `false`) or `false`: always sound — the packet overloads are never chosen;
* `true`: only for a class with a packet form that holds no operand and owns no array index (`Scalar`);
* `Packet<Type>::is_vectorized`: only for a class with a packet form that holds no operand and advances its own index
  (the array leaves `Array`, `FixedArray`);
* a conjunction `X::is_vectorizable && …`: only for an element-wise class — packet form, at least one operand,
  `advance_location_` forwards to every operand, unconditionally — and the conjunction must name the trait of EVERY operand
  type, `Op::is_vectorized` if the class has an operation policy, and an `is_same` test of the element types if the two sides
  can have different ones;
* `SpreadDim != E::rank + k`: only for a class with a packet form whose `advance_location_` is conditional, and then `k` must
  make the excluded value the LAST dimension of the result: `rank = E::rank + r` with `k = r - 1`;
* anything else is rejected. -/
def Node.sound (n : Node) : Bool :=
  match n.trait with
  | .absent => true
  | .constFalse => true
  | .constTrue => n.hasPacket && n.operands.isEmpty && !n.selfAdv
  | .packetType => n.hasPacket && n.operands.isEmpty && n.selfAdv
  | .conj ts opVec same =>
    n.hasPacket && !n.operands.isEmpty && !n.advCond && n.advanced == n.operands && ts == n.operandTypes
      && (!n.hasOp || opVec) && (!n.twoTypes || same)
  | .spreadDimNe k =>
    n.hasPacket && n.advCond && !n.operands.isEmpty && n.advanced == n.operands && n.rankOff == some (k + 1)
  | .other => false

/-- "a class without `packet_at_location_` never declares the trait" as a separate reading of the same table -/
def Node.noPacketMeansFalse (n : Node) : Bool :=
  n.hasPacket || n.trait == .absent || n.trait == .constFalse

/-- the declaration of the class named `cls` (first entry of the census with that name) -/
def traitOf (cls : String) : Option Trait := (vecNodes.find? (fun n => n.cls == cls)).map (·.trait)

/-- what a normal form means for an object of the class: `ops` = the traits of its operands, `opVec` = its operation has a
    packet form and the element types of its sides agree, `spreadDim ≤ eRank` = the template arguments of a `Spread` -/
def Trait.eval (t : Trait) (ops : List Bool) (opVec : Bool) (spreadDim eRank : Nat) : Bool :=
  match t with
  | .absent => false
  | .constFalse => false
  | .constTrue => true
  | .packetType => true          -- for an element type that has packets (`W > 1`: tested by `assignPlan` / `reducePlan`)
  | .conj _ ov sm => ops.all id && (!(ov || sm) || opVec)
  | .spreadDimNe k => decide ((spreadDim : Int) ≠ (eRank : Int) + k)
  | .other => false

def evalCls (cls : String) (ops : List Bool) (opVec : Bool) (spreadDim eRank : Nat) : Bool :=
  match traitOf cls with
  | some t => t.eval ops opVec spreadDim eRank
  | none => false

end Adept.Simd.TraitCensus

namespace Adept.Simd

/-- every sub-expression of a tree (the views held by `spread` / `outer` are leaves of those nodes, not sub-expressions) -/
def Expr.subterms : Expr → List Expr
  | .un b e => .un b e :: e.subterms
  | .bin b l r => .bin b l r :: (l.subterms ++ r.subterms)
  | e => [e]

/-- the node itself (not its operands) rules the packet loops out -/
def Expr.nonVecNode : Expr → Bool
  | .un opVec _ => !opVec
  | .bin opVec _ _ => !opVec
  | .spread last _ => last
  | .outer _ _ => true
  | .plain => true
  | _ => false

theorem vectorizable_of_subterms (e : Expr) (h : e.vectorizable = true) :
    ∀ s ∈ e.subterms, s.nonVecNode = false := by
  induction e with
  | arr v => intro s hs; simp only [Expr.subterms, List.mem_singleton] at hs; subst hs; rfl
  | fixed a d => intro s hs; simp only [Expr.subterms, List.mem_singleton] at hs; subst hs; rfl
  | agn => intro s hs; simp only [Expr.subterms, List.mem_singleton] at hs; subst hs; rfl
  | spread last v =>
    intro s hs; simp only [Expr.subterms, List.mem_singleton] at hs; subst hs
    simp only [Expr.vectorizable, Bool.not_eq_true'] at h; simp [Expr.nonVecNode, h]
  | outer l r => simp [Expr.vectorizable] at h
  | plain => simp [Expr.vectorizable] at h
  | un b e ih =>
    simp only [Expr.vectorizable, Bool.and_eq_true] at h
    intro s hs; simp only [Expr.subterms, List.mem_cons] at hs
    rcases hs with hs | hs
    · subst hs; simp [Expr.nonVecNode, h.1]
    · exact ih h.2 s hs
  | bin b l r ihl ihr =>
    simp only [Expr.vectorizable, Bool.and_eq_true] at h
    intro s hs; simp only [Expr.subterms, List.mem_cons, List.mem_append] at hs
    rcases hs with hs | hs | hs
    · subst hs; simp [Expr.nonVecNode, h.2]
    · exact ihl h.1.1 s hs
    · exact ihr h.1.2 s hs

theorem subterms_of_not_vectorizable (e : Expr) (h : e.vectorizable = false) :
    ∃ s ∈ e.subterms, s.nonVecNode = true := by
  induction e with
  | arr v => simp [Expr.vectorizable] at h
  | fixed a d => simp [Expr.vectorizable] at h
  | agn => simp [Expr.vectorizable] at h
  | spread last v =>
    refine ⟨.spread last v, by simp [Expr.subterms], ?_⟩
    simp only [Expr.vectorizable, Bool.not_eq_false'] at h; simp [Expr.nonVecNode, h]
  | outer l r => exact ⟨.outer l r, by simp [Expr.subterms], rfl⟩
  | plain => exact ⟨.plain, by simp [Expr.subterms], rfl⟩
  | un b e ih =>
    cases b with
    | false => exact ⟨.un false e, by simp [Expr.subterms], rfl⟩
    | true =>
      simp only [Expr.vectorizable, Bool.true_and] at h
      obtain ⟨s, hs, hn⟩ := ih h
      exact ⟨s, by simp [Expr.subterms, hs], hn⟩
  | bin b l r ihl ihr =>
    cases b with
    | false => exact ⟨.bin false l r, by simp [Expr.subterms], rfl⟩
    | true =>
      simp only [Expr.vectorizable, Bool.and_true] at h
      cases hl : l.vectorizable with
      | false =>
        obtain ⟨s, hs, hn⟩ := ihl hl
        exact ⟨s, by simp [Expr.subterms, hs], hn⟩
      | true =>
        rw [hl, Bool.true_and] at h
        obtain ⟨s, hs, hn⟩ := ihr h
        exact ⟨s, by simp [Expr.subterms, hs], hn⟩

end Adept.Simd
