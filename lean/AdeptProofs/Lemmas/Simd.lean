import AdeptModel.Simd
/-!
# Lemmas about the SIMD loop partition (C05)

Core Lean only (no Mathlib).  All statements are for an arbitrary packet size `W > 0` (the code has
`W ∈ {2,4,8,16}`), arbitrary lengths, addresses and expression trees.
-/
namespace Adept.Simd

/-! ## arithmetic of `alignment_offset_` and `iendvec` -/

theorem arrOffset_lt {W : Nat} (a : Nat) (hW : 0 < W) : arrOffset W a < W := Nat.mod_lt _ hW

/-- `alignment_offset_` is what it says: that many elements further on, the address is on a packet boundary -/
theorem arrOffset_aligned {W : Nat} (a : Nat) (hW : 0 < W) : (a + arrOffset W a) % W = 0 := by
  unfold arrOffset
  have hr : a % W < W := Nat.mod_lt _ hW
  have hd : W * (a / W) + a % W = a := Nat.div_add_mod a W
  by_cases h0 : a % W = 0
  · rw [h0, Nat.sub_zero, Nat.mod_self, Nat.add_zero]; exact h0
  · have h1 : (W - a % W) % W = W - a % W := Nat.mod_eq_of_lt (by omega)
    rw [h1]
    have h2 : a + (W - a % W) = W * (a / W + 1) := by
      rw [Nat.mul_add, Nat.mul_one]
      generalize W * (a / W) = q at hd
      omega
    rw [h2]; exact Nat.mul_mod_right _ _

/-- and it is the only offset below `W` with that property -/
theorem arrOffset_unique {W a s : Nat} (hW : 0 < W) (hs : s < W) (h : (a + s) % W = 0) : s = arrOffset W a := by
  unfold arrOffset
  have hr : a % W < W := Nat.mod_lt _ hW
  have h3 : (a % W + s) % W = 0 := by rw [Nat.add_mod] at h; rwa [Nat.mod_eq_of_lt hs] at h
  by_cases h0 : a % W = 0
  · rw [h0, Nat.zero_add, Nat.mod_eq_of_lt hs] at h3
    rw [h0, Nat.sub_zero, Nat.mod_self]; exact h3
  · rw [Nat.mod_eq_of_lt (by omega : W - a % W < W)]
    by_cases hlt : a % W + s < W
    · rw [Nat.mod_eq_of_lt hlt] at h3; omega
    · have h4 : a % W + s = (a % W + s - W) + W := by omega
      rw [h4, Nat.add_mod_right, Nat.mod_eq_of_lt (by omega)] at h3
      omega

theorem iendOf_spec {W n s : Nat} (hW : 0 < W) (hs : s ≤ n) :
    s ≤ iendOf W n s ∧ iendOf W n s ≤ n ∧ W ∣ (iendOf W n s - s) ∧ n - iendOf W n s < W := by
  unfold iendOf
  have hle : (n - s) % W ≤ n - s := Nat.mod_le _ _
  have hlt : (n - s) % W < W := Nat.mod_lt _ hW
  have hdvd : W ∣ (n - s) - (n - s) % W := Nat.dvd_sub_mod _
  refine ⟨by omega, by omega, ?_, by omega⟩
  have : (n - s) - (n - s) % W + s - s = (n - s) - (n - s) % W := by omega
  rw [this]; exact hdvd

/-! ## the branch structure -/

theorem planCore_spec {W n rows : Nat} {s : Int} {tgt : Option Nat}
    (hW : 0 < W) (hs : s < W) (hn : 2 * W ≤ n) :
    (planCore W n rows s tgt).vec = true ∧
    (planCore W n rows s tgt).istart ≤ (planCore W n rows s tgt).iend ∧
    (planCore W n rows s tgt).iend ≤ n ∧
    W ∣ ((planCore W n rows s tgt).iend - (planCore W n rows s tgt).istart) ∧
    (planCore W n rows s tgt).istart < W ∧
    (planCore W n rows s tgt).packets
      = rows * (((planCore W n rows s tgt).iend - (planCore W n rows s tgt).istart) / W) ∧
    ((planCore W n rows s tgt).istart < (planCore W n rows s tgt).iend →
      n - (planCore W n rows s tgt).iend < W ∧ 0 ≤ s ∧ ((planCore W n rows s tgt).istart : Int) = s ∧
      ¬ tgtMismatch s tgt) := by
  unfold planCore
  split
  · refine ⟨rfl, Nat.le_refl _, Nat.zero_le _, ⟨0, by simp⟩, hW, by simp, ?_⟩
    intro h; exact absurd h (Nat.lt_irrefl _)
  · rename_i hc
    have hs0 : 0 ≤ s := by
      by_cases h : s < 0
      · exact absurd (Or.inl h) hc
      · omega
    have hmm : ¬ tgtMismatch s tgt := fun h => hc (Or.inr h)
    have his : (s.toNat : Int) = s := Int.toNat_of_nonneg hs0
    have hisW : s.toNat < W := by omega
    have hisn : s.toNat ≤ n := by omega
    obtain ⟨h1, h2, h3, h4⟩ := iendOf_spec (n := n) hW hisn
    exact ⟨rfl, h1, h2, h3, hisW, rfl, fun _ => ⟨h4, hs0, his, hmm⟩⟩

/-- on the fall-back (`istartvec = iendvec = 0`) no packet is processed -/
theorem planCore_fallback {W n rows : Nat} {s : Int} {tgt : Option Nat} (h : s < 0 ∨ tgtMismatch s tgt) :
    planCore W n rows s tgt = ⟨true, 0, 0, 0⟩ := by
  unfold planCore; rw [if_pos h]

/-- when the packet loop runs at all it runs over at least one packet -/
theorem planCore_nonfallback {W n rows : Nat} {s : Int} {tgt : Option Nat}
    (hW : 0 < W) (hs : s < W) (hn : 2 * W ≤ n) (h : ¬ (s < 0 ∨ tgtMismatch s tgt)) :
    (planCore W n rows s tgt).istart + W ≤ (planCore W n rows s tgt).iend := by
  unfold planCore; rw [if_neg h]
  have hs0 : 0 ≤ s := by
    by_cases h' : s < 0
    · exact absurd (Or.inl h') h
    · omega
  have hisW : s.toNat < W := by have := Int.toNat_of_nonneg hs0; omega
  show s.toNat + W ≤ iendOf W n s.toNat
  obtain ⟨h1, h2, h3, h4⟩ := iendOf_spec (W := W) (n := n) (s := s.toNat) hW (by omega)
  have hpos : 0 < iendOf W n s.toNat - s.toNat := by omega
  have := Nat.le_of_dvd hpos h3
  omega

/-! ## leaves of an expression and the alignment negotiation -/

/-- the `Array` leaves -/
def Expr.arrLeaves : Expr → List View
  | .arr v => [v]
  | .fixed _ _ => []
  | .agn => []
  | .spread _ v => [v]
  | .outer _ r => [r]
  | .plain => []
  | .un _ e => e.arrLeaves
  | .bin _ l r => l.arrLeaves ++ r.arrLeaves

/-- the `FixedArray` leaves: address and extents -/
def Expr.fixedLeaves : Expr → List (Nat × List Nat)
  | .arr _ => []
  | .fixed a d => [(a, d)]
  | .agn => []
  | .spread _ _ => []
  | .outer _ _ => []
  | .plain => []
  | .un _ e => e.fixedLeaves
  | .bin _ l r => l.fixedLeaves ++ r.fixedLeaves

/-- what every leaf answers to `alignment_offset_<W>()` -/
def Expr.leafOffs (cfg : Cfg) (W : Nat) : Expr → List Int
  | .arr v => [(arrOffset W v.a : Int)]
  | .fixed a _ => [(fixedOffset cfg W a : Int)]
  | .agn => [(W : Int)]
  | .spread _ v => [(arrOffset W v.a : Int)]
  | .outer _ r => [(arrOffset W r.a : Int)]
  | .plain => [(W : Int)]
  | .un _ e => e.leafOffs cfg W
  | .bin _ l r => l.leafOffs cfg W ++ r.leafOffs cfg W

theorem fixedOffset_lt {cfg : Cfg} {W : Nat} (a : Nat) (hW : 0 < W) : fixedOffset cfg W a < W := by
  unfold fixedOffset; split <;> exact Nat.mod_lt _ hW

theorem leafOffs_range {cfg : Cfg} {W : Nat} (hW : 0 < W) (e : Expr) :
    ∀ o ∈ e.leafOffs cfg W, 0 ≤ o ∧ o ≤ W := by
  induction e with
  | arr v =>
    intro o ho; simp only [Expr.leafOffs, List.mem_singleton] at ho
    have := arrOffset_lt v.a hW; omega
  | fixed a d =>
    intro o ho; simp only [Expr.leafOffs, List.mem_singleton] at ho
    have := fixedOffset_lt (cfg := cfg) a hW; omega
  | agn => intro o ho; simp only [Expr.leafOffs, List.mem_singleton] at ho; omega
  | spread _ v =>
    intro o ho; simp only [Expr.leafOffs, List.mem_singleton] at ho
    have := arrOffset_lt v.a hW; omega
  | outer _ r =>
    intro o ho; simp only [Expr.leafOffs, List.mem_singleton] at ho
    have := arrOffset_lt r.a hW; omega
  | plain => intro o ho; simp only [Expr.leafOffs, List.mem_singleton] at ho; omega
  | un _ e ih => exact ih
  | bin _ l r ihl ihr =>
    intro o ho; simp only [Expr.leafOffs, List.mem_append] at ho
    rcases ho with h | h
    · exact ihl o h
    · exact ihr o h

/-- the answer of the whole tree: `-1`, or an offset that every leaf either shares or does not care about -/
theorem alignOff_leaves {cfg : Cfg} {W : Nat} (e : Expr) :
    ∀ k : Int, e.alignOff cfg W = k → k ≠ -1 → ∀ o ∈ e.leafOffs cfg W, o = k ∨ o = W := by
  induction e with
  | arr v => intro k hk _ o ho; simp only [Expr.leafOffs, List.mem_singleton] at ho; left; rw [ho, ← hk]; rfl
  | fixed a d => intro k hk _ o ho; simp only [Expr.leafOffs, List.mem_singleton] at ho; left; rw [ho, ← hk]; rfl
  | agn => intro k _ _ o ho; simp only [Expr.leafOffs, List.mem_singleton] at ho; right; exact ho
  | spread _ v => intro k hk _ o ho; simp only [Expr.leafOffs, List.mem_singleton] at ho; left; rw [ho, ← hk]; rfl
  | outer _ r => intro k hk _ o ho; simp only [Expr.leafOffs, List.mem_singleton] at ho; left; rw [ho, ← hk]; rfl
  | plain => intro k _ _ o ho; simp only [Expr.leafOffs, List.mem_singleton] at ho; right; exact ho
  | un _ e ih => intro k hk hne o ho; exact ih k hk hne o ho
  | bin _ l r ihl ihr =>
    intro k hk hne o ho
    simp only [Expr.leafOffs, List.mem_append] at ho
    simp only [Expr.alignOff] at hk
    by_cases h1 : l.alignOff cfg W = r.alignOff cfg W
    · rw [if_pos h1] at hk
      rcases ho with h | h
      · exact ihl k hk hne o h
      · exact ihr k (h1 ▸ hk) hne o h
    · rw [if_neg h1] at hk
      by_cases h2 : l.alignOff cfg W = (W : Int)
      · rw [if_pos h2] at hk
        rcases ho with h | h
        · have hW1 : (W : Int) ≠ -1 := by omega
          rcases ihl (W : Int) h2 hW1 o h with h' | h' <;> exact Or.inr h'
        · exact ihr k hk hne o h
      · rw [if_neg h2] at hk
        by_cases h3 : r.alignOff cfg W = (W : Int)
        · rw [if_pos h3] at hk
          rcases ho with h | h
          · exact ihl k hk hne o h
          · have hW1 : (W : Int) ≠ -1 := by omega
            rcases ihr (W : Int) h3 hW1 o h with h' | h' <;> exact Or.inr h'
        · rw [if_neg h3] at hk; exact absurd hk.symm hne

theorem alignOff_range {cfg : Cfg} {W : Nat} (hW : 0 < W) (e : Expr) :
    e.alignOff cfg W = -1 ∨ (0 ≤ e.alignOff cfg W ∧ e.alignOff cfg W ≤ W) := by
  induction e with
  | arr v => right; simp only [Expr.alignOff]; have := arrOffset_lt v.a hW; omega
  | fixed a d => right; simp only [Expr.alignOff]; have := fixedOffset_lt (cfg := cfg) a hW; omega
  | agn => right; simp only [Expr.alignOff]; omega
  | spread _ v => right; simp only [Expr.alignOff]; have := arrOffset_lt v.a hW; omega
  | outer _ r => right; simp only [Expr.alignOff]; have := arrOffset_lt r.a hW; omega
  | plain => right; simp only [Expr.alignOff]; omega
  | un _ e ih => exact ih
  | bin _ l r ihl ihr =>
    simp only [Expr.alignOff]
    split
    · exact ihl
    · split
      · exact ihr
      · split
        · exact ihl
        · left; rfl

theorem alignmentOffset_lt {cfg : Cfg} {W : Nat} (hW : 0 < W) (e : Expr) : e.alignmentOffset cfg W < W := by
  unfold Expr.alignmentOffset
  show (if e.alignOff cfg W < W then e.alignOff cfg W else 0) < (W : Int)
  split
  · assumption
  · omega

/-- `Expression::alignment_offset()` returns `k ≥ 0` only if every leaf has offset `k` or is agnostic -/
theorem alignmentOffset_leaves {cfg : Cfg} {W : Nat} (hW : 0 < W) (e : Expr) (k : Int)
    (hk : e.alignmentOffset cfg W = k) (h0 : 0 ≤ k) : ∀ o ∈ e.leafOffs cfg W, o = k ∨ o = W := by
  unfold Expr.alignmentOffset at hk
  have hk' : (if e.alignOff cfg W < W then e.alignOff cfg W else 0) = k := hk
  by_cases h : e.alignOff cfg W < W
  · rw [if_pos h] at hk'
    exact alignOff_leaves e k hk' (by omega)
  · rw [if_neg h] at hk'
    have hW' : e.alignOff cfg W = W := by
      rcases alignOff_range (cfg := cfg) hW e with h' | h' <;> omega
    intro o ho
    rcases alignOff_leaves e (W : Int) hW' (by omega) o ho with h' | h' <;> exact Or.inr h'

/-- two leaves that both care and disagree make the tree answer `-1` -/
theorem alignOff_clash {cfg : Cfg} {W : Nat} (e : Expr) (o₁ o₂ : Int)
    (h₁ : o₁ ∈ e.leafOffs cfg W) (h₂ : o₂ ∈ e.leafOffs cfg W)
    (n₁ : o₁ ≠ W) (n₂ : o₂ ≠ W) (hne : o₁ ≠ o₂) : e.alignOff cfg W = -1 := by
  apply Classical.byContradiction
  intro hc
  have a₁ := alignOff_leaves e _ rfl hc o₁ h₁
  have a₂ := alignOff_leaves e _ rfl hc o₂ h₂
  rcases a₁ with a₁ | a₁
  · rcases a₂ with a₂ | a₂
    · exact hne (a₁.trans a₂.symm)
    · exact n₂ a₂
  · exact n₁ a₁

theorem arrLeaves_offs {cfg : Cfg} {W : Nat} (e : Expr) :
    ∀ v ∈ e.arrLeaves, (arrOffset W v.a : Int) ∈ e.leafOffs cfg W := by
  induction e with
  | arr v => intro v' hv; simp only [Expr.arrLeaves, List.mem_singleton] at hv; subst hv; simp [Expr.leafOffs]
  | fixed a d => intro v hv; simp [Expr.arrLeaves] at hv
  | agn => intro v hv; simp [Expr.arrLeaves] at hv
  | spread _ v => intro v' hv; simp only [Expr.arrLeaves, List.mem_singleton] at hv; subst hv; simp [Expr.leafOffs]
  | outer _ r => intro v' hv; simp only [Expr.arrLeaves, List.mem_singleton] at hv; subst hv; simp [Expr.leafOffs]
  | plain => intro v hv; simp [Expr.arrLeaves] at hv
  | un _ e ih => exact ih
  | bin _ l r ihl ihr =>
    intro v hv; simp only [Expr.arrLeaves, List.mem_append] at hv
    simp only [Expr.leafOffs, List.mem_append]
    rcases hv with h | h
    · exact Or.inl (ihl v h)
    · exact Or.inr (ihr v h)

theorem fixedLeaves_offs {cfg : Cfg} {W : Nat} (e : Expr) :
    ∀ p ∈ e.fixedLeaves, (fixedOffset cfg W p.1 : Int) ∈ e.leafOffs cfg W := by
  induction e with
  | arr v => intro p hp; simp [Expr.fixedLeaves] at hp
  | fixed a d => intro p hp; simp only [Expr.fixedLeaves, List.mem_singleton] at hp; subst hp; simp [Expr.leafOffs]
  | agn => intro p hp; simp [Expr.fixedLeaves] at hp
  | spread _ v => intro p hp; simp [Expr.fixedLeaves] at hp
  | outer _ r => intro p hp; simp [Expr.fixedLeaves] at hp
  | plain => intro p hp; simp [Expr.fixedLeaves] at hp
  | un _ e ih => exact ih
  | bin _ l r ihl ihr =>
    intro p hp; simp only [Expr.fixedLeaves, List.mem_append] at hp
    simp only [Expr.leafOffs, List.mem_append]
    rcases hp with h | h
    · exact Or.inl (ihl p h)
    · exact Or.inr (ihr p h)

/-- every leaf of a contiguous tree is contiguous -/
theorem allContig_arr {cfg : Cfg} {W : Nat} (e : Expr) (h : e.allContig cfg W = true) :
    ∀ v ∈ e.arrLeaves, arrContig cfg W v = true := by
  induction e with
  | arr v => intro v' hv; simp only [Expr.arrLeaves, List.mem_singleton] at hv; subst hv; exact h
  | fixed a d => intro v hv; simp [Expr.arrLeaves] at hv
  | agn => intro v hv; simp [Expr.arrLeaves] at hv
  | spread _ v => intro v' hv; simp only [Expr.arrLeaves, List.mem_singleton] at hv; subst hv; exact h
  | outer _ r => intro v' hv; simp only [Expr.arrLeaves, List.mem_singleton] at hv; subst hv; exact h
  | plain => intro v hv; simp [Expr.arrLeaves] at hv
  | un _ e ih => exact ih h
  | bin _ l r ihl ihr =>
    simp only [Expr.allContig, Bool.and_eq_true] at h
    intro v hv; simp only [Expr.arrLeaves, List.mem_append] at hv
    rcases hv with h' | h'
    · exact ihl h.1 v h'
    · exact ihr h.2 v h'

theorem allContig_fixed {cfg : Cfg} {W : Nat} (e : Expr) (h : e.allContig cfg W = true) :
    ∀ p ∈ e.fixedLeaves, fixedContig cfg W p.2 = true := by
  induction e with
  | arr v => intro p hp; simp [Expr.fixedLeaves] at hp
  | fixed a d => intro p hp; simp only [Expr.fixedLeaves, List.mem_singleton] at hp; subst hp; exact h
  | agn => intro p hp; simp [Expr.fixedLeaves] at hp
  | spread _ v => intro p hp; simp [Expr.fixedLeaves] at hp
  | outer _ r => intro p hp; simp [Expr.fixedLeaves] at hp
  | plain => intro p hp; simp [Expr.fixedLeaves] at hp
  | un _ e ih => exact ih h
  | bin _ l r ihl ihr =>
    simp only [Expr.allContig, Bool.and_eq_true] at h
    intro p hp; simp only [Expr.fixedLeaves, List.mem_append] at hp
    rcases hp with h' | h'
    · exact ihl h.1 p h'
    · exact ihr h.2 p h'

/-! ## row starts -/

/-- memory index of the first element of the row selected by the outer indices `idx`:
    `Σ idx[k]*offset_[k]` (`Array::index_` with a zero last index) -/
def rowStart : List Int → List Nat → Int
  | o :: os, i :: is => o * i + rowStart os is
  | _, _ => 0

theorem rowStart_dvd {W : Int} : ∀ (outer : List Int) (idx : List Nat),
    (∀ o ∈ outer, W ∣ o) → W ∣ rowStart outer idx
  | [], _, _ => by simp [rowStart]
  | _ :: _, [], _ => by simp [rowStart]
  | o :: os, i :: is, h => by
    simp only [rowStart]
    apply Int.dvd_add
    · exact Int.dvd_trans (h o (List.mem_cons_self ..)) (Int.dvd_mul_right _ _)
    · exact rowStart_dvd os is (fun o' ho' => h o' (List.mem_cons_of_mem _ ho'))

/-- an address that is on a packet boundary stays on one when a multiple of `W` (row start, `j` whole packets)
    is added -/
theorem aligned_shift {W a s : Nat} {r : Int} (j : Nat) (h : (a + s) % W = 0) (hr : (W : Int) ∣ r) :
    ((a : Int) + r + s + j * W) % (W : Int) = 0 := by
  obtain ⟨q, hq⟩ := hr
  have h1 : ((a + s : Nat) : Int) % (W : Int) = 0 := by
    have := congrArg (fun x : Nat => (x : Int)) h
    simpa using this
  have h2 : (a : Int) + r + s + j * W = ((a + s : Nat) : Int) + (W : Int) * (q + j) := by
    rw [hq, Int.mul_add]; simp only [Int.natCast_add]; rw [Int.mul_comm (j : Int) (W : Int)]; omega
  rw [h2, Int.add_mul_emod_self_left]; exact h1

theorem outerOffsets_dvd (pitch : Nat) : ∀ (ds : List Nat), ∀ o ∈ outerOffsets pitch ds, pitch ∣ o
  | [] => by simp [outerOffsets]
  | [_] => by simp [outerOffsets]
  | _ :: d1 :: ds => by
    intro o ho
    have ih := outerOffsets_dvd pitch (d1 :: ds)
    simp only [outerOffsets] at ho
    split at ho
    · simp at ho
    · rename_i o1 os heq
      rw [heq] at ih
      simp only [List.mem_cons] at ho
      rcases ho with h | h | h
      · rw [h]; exact Nat.dvd_trans (ih o1 (List.mem_cons_self ..)) (Nat.dvd_mul_left _ _)
      · rw [h]; exact ih o1 (List.mem_cons_self ..)
      · exact ih o (List.mem_cons_of_mem _ h)

theorem outerOffsets_length (pitch : Nat) : ∀ (ds : List Nat), (outerOffsets pitch ds).length = ds.length
  | [] => by simp [outerOffsets]
  | [_] => by simp [outerOffsets]
  | d0 :: d1 :: ds => by
    have ih := outerOffsets_length pitch (d1 :: ds)
    simp only [outerOffsets]
    split
    · rename_i heq; rw [heq] at ih; simp at ih
    · rename_i o1 os heq; rw [heq] at ih; simp only [List.length_cons] at ih ⊢; omega

theorem rowPitch_spec {W n : Nat} (hW : 0 < W) :
    n ≤ rowPitch W n ∧ rowPitch W n < n + W ∧ (2 * W ≤ n → W ∣ rowPitch W n) ∧ (n < 2 * W → rowPitch W n = n) := by
  unfold rowPitch
  split
  · rename_i h
    have hd : W * ((n + W - 1) / W) + (n + W - 1) % W = n + W - 1 := Nat.div_add_mod _ _
    have hm : (n + W - 1) % W < W := Nat.mod_lt _ hW
    have hdv : W ∣ (n + W - 1) / W * W := Nat.dvd_mul_left _ _
    rw [Nat.mul_comm] at hd
    generalize (n + W - 1) / W * W = q at hd hdv ⊢
    exact ⟨by omega, by omega, fun _ => hdv, fun h' => by omega⟩
  · rename_i h
    exact ⟨Nat.le_refl _, by omega, fun h' => absurd h' h, fun _ => rfl⟩

/-- the test `columns_aligned_` performs establishes that every outer offset is a multiple of `W`, provided the
    array has at most two dimensions or the repaired form (all outer offsets tested) is in the tree -/
theorem columnsAligned_sound {cfg : Cfg} {W : Nat} {outer : List Int} (hW : 1 < W)
    (h : columnsAligned cfg W outer = true) (hr : outer.length ≤ 1 ∨ cfg.allOuterChecked = true) :
    ∀ o ∈ outer, (W : Int) ∣ o := by
  unfold columnsAligned at h
  rw [if_neg (by omega)] at h
  by_cases hc : cfg.allOuterChecked = true
  · rw [if_pos hc] at h
    intro o ho
    have := List.all_eq_true.mp h o ho
    exact Int.dvd_of_emod_eq_zero (by simpa using this)
  · rw [if_neg hc] at h
    rcases hr with hr | hr
    · match outer, hr, h with
      | [], _, _ => intro o ho; simp at ho
      | [o1], _, h =>
        intro o ho; simp only [List.mem_singleton] at ho; subst ho
        simp only [List.getLast?_singleton] at h
        exact Int.dvd_of_emod_eq_zero (by simpa using h)
      | _ :: _ :: _, hr, _ => simp only [List.length_cons] at hr; omega
    · exact absurd hr hc

/-! ## which accumulator receives which element -/

theorem flatten_map_append_singleton {α β : Type} (A : β → List α) (g : β → α) :
    ∀ L : List β, ((L.map (fun l => A l ++ [g l])).flatten).Perm ((L.map A).flatten ++ L.map g)
  | [] => by simp
  | x :: L => by
    have ih := flatten_map_append_singleton A g L
    simp only [List.map_cons, List.flatten_cons, List.append_assoc]
    apply List.Perm.append_left
    have h1 : ([g x] ++ (L.map (fun l => A l ++ [g l])).flatten).Perm (g x :: ((L.map A).flatten ++ L.map g)) := by
      simp only [List.singleton_append]; exact List.Perm.cons _ ih
    exact h1.trans List.perm_middle.symm

theorem laneIdx_succ (W istart P l : Nat) :
    laneIdx W istart (P + 1) l = laneIdx W istart P l ++ [istart + P * W + l] := by
  unfold laneIdx; rw [List.range_succ, List.map_append]; rfl

/-- the lanes of the packet accumulator together hold exactly the body `[istart, istart + P*W)` -/
theorem lanes_perm (W istart : Nat) : ∀ P : Nat,
    ((lanesIdx W istart P).flatten).Perm (List.range' istart (P * W))
  | 0 => by
    have : (lanesIdx W istart 0).flatten = [] := by
      unfold lanesIdx laneIdx; simp
    rw [this]; simp
  | P + 1 => by
    have ih := lanes_perm W istart P
    have h1 : lanesIdx W istart (P + 1)
        = (List.range W).map (fun l => laneIdx W istart P l ++ [istart + P * W + l]) := by
      unfold lanesIdx; apply List.map_congr_left; intro l _; exact laneIdx_succ W istart P l
    rw [h1]
    have h2 := flatten_map_append_singleton (laneIdx W istart P) (fun l => istart + P * W + l) (List.range W)
    have h3 : (List.range W).map (fun l => istart + P * W + l) = List.range' (istart + P * W) W := by
      rw [List.range_eq_range', List.map_add_range']
      simp
    have h4 : List.range' istart (P * W) ++ List.range' (istart + P * W) W = List.range' istart ((P + 1) * W) := by
      have := @List.range'_append istart (P * W) W 1
      rw [Nat.one_mul] at this
      rw [this, Nat.add_mul, Nat.one_mul]
    rw [← h4, ← h3]
    exact h2.trans (List.Perm.append_right _ ih)

/-- `[0,istart) ∪ [istart,iend) ∪ [iend,n)` is `[0,n)`, in order -/
theorem range_split {n istart iend : Nat} (h1 : istart ≤ iend) (h2 : iend ≤ n) :
    List.range n
      = List.range' 0 istart ++ (List.range' istart (iend - istart) ++ List.range' iend (n - iend)) := by
  rw [List.range_eq_range']
  have e1 := @List.range'_append istart (iend - istart) (n - iend) 1
  have e2 := @List.range'_append 0 istart ((iend - istart) + (n - iend)) 1
  rw [Nat.one_mul] at e1 e2
  have : istart + (iend - istart) = iend := by omega
  rw [this] at e1
  rw [e1]
  have : 0 + istart = istart := by omega
  rw [this] at e2
  rw [e2]
  congr 1; omega

/-- head, lanes and tail together hold every index of the row exactly once -/
theorem split_perm {W n istart iend : Nat} (h1 : istart ≤ iend) (h2 : iend ≤ n)
    (h3 : W ∣ (iend - istart)) :
    (scalarIdx n istart iend ++ (lanesIdx W istart ((iend - istart) / W)).flatten).Perm (List.range n) := by
  have hP : (iend - istart) / W * W = iend - istart := Nat.div_mul_cancel h3
  have hl := lanes_perm W istart ((iend - istart) / W)
  rw [hP] at hl
  rw [range_split h1 h2]
  unfold scalarIdx
  rw [List.append_assoc]
  apply List.Perm.append_left
  exact List.perm_append_comm.trans (List.Perm.append_right _ hl)

/-! ## value of the split reduction over a commutative monoid -/

section value
variable {α : Type} (op : α → α → α) (e : α)

/-- fold of the elements selected by an index list, as the scalar loop does it -/
def foldIdx (x : Nat → α) (z : α) (L : List Nat) : α := L.foldl (fun acc i => op acc (x i)) z

variable (hassoc : ∀ a b c, op (op a b) c = op a (op b c)) (hcomm : ∀ a b, op a b = op b a)
  (hid : ∀ a, op e a = a)
include hassoc hcomm hid

theorem foldIdx_init (x : Nat → α) (z : α) : ∀ L : List Nat, foldIdx op x z L = op z (foldIdx op x e L)
  | [] => by simp only [foldIdx, List.foldl_nil]; rw [hcomm, hid]
  | i :: L => by
    have h1 := foldIdx_init x (op z (x i)) L
    have h2 := foldIdx_init x (op e (x i)) L
    simp only [foldIdx, List.foldl_cons] at h1 h2 ⊢
    rw [h1, h2, hid, hassoc]

theorem foldIdx_append (x : Nat → α) (L₁ L₂ : List Nat) :
    foldIdx op x e (L₁ ++ L₂) = op (foldIdx op x e L₁) (foldIdx op x e L₂) := by
  have : foldIdx op x e (L₁ ++ L₂) = foldIdx op x (foldIdx op x e L₁) L₂ := by
    simp only [foldIdx, List.foldl_append]
  rw [this, foldIdx_init op e hassoc hcomm hid]

omit hid in
theorem foldIdx_perm (x : Nat → α) {L₁ L₂ : List Nat} (h : L₁.Perm L₂) :
    foldIdx op x e L₁ = foldIdx op x e L₂ := by
  unfold foldIdx
  apply List.Perm.foldl_eq' h
  intro a _ b _ z
  rw [hassoc, hassoc, hcomm (x a) (x b)]

theorem fold_lanes (x : Nat → α) : ∀ (LL : List (List Nat)) (z : α),
    (LL.map (foldIdx op x e)).foldl op z = op z (foldIdx op x e LL.flatten)
  | [], z => by simp only [List.map_nil, List.foldl_nil, List.flatten_nil, foldIdx]; rw [hcomm, hid]
  | L :: LL, z => by
    simp only [List.map_cons, List.foldl_cons, List.flatten_cons]
    rw [fold_lanes x LL, foldIdx_append op e hassoc hcomm hid, hassoc]

end value

end Adept.Simd
