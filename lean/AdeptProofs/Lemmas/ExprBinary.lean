import AdeptProofs.Lemmas.ExprReal
/-!
C01-T2 (table level): the multiplier formulas of the GENERATED binary table are the partial derivatives of the
operation, in the strong form needed for trees: along any differentiable pair of arguments the operation has the
derivative `dL·l' + dR·r'` (chain rule), where `dL`, `dR` are read from `leftMul/rightMul/leftGuard/rightGuard` of the
overload WITHOUT incoming multiplier, with `RES`, `AUX` the values `operation_store` leaves in the scratch slots.
-/
set_option linter.unusedSimpArgs false
namespace Adept.Expr
open Adept Real Filter Topology

/-- what the store path leaves in `scratch[MyScratchNum]` -/
noncomputable def _root_.Adept.BOp.res (op : BOp) (L R : ℝ) : ℝ :=
  match op.operationStore L R with
  | some (_, z) => z
  | none => op.operation false L R

/-- what the store path leaves in `scratch[MyScratchNum+1]` (policies with `operation_store`) -/
noncomputable def _root_.Adept.BOp.auxv (op : BOp) (L R : ℝ) : ℝ :=
  match op.operationStore L R with
  | some (a, _) => a
  | none => 0

/-- coefficient pushed for the left argument by the overload without incoming multiplier -/
noncomputable def _root_.Adept.BOp.dL (op : BOp) (L R : ℝ) : ℝ :=
  if op.leftGuard false L R then (op.leftMul none L R (op.res L R) (op.auxv L R)).getD 1 else 0

/-- coefficient pushed for the right argument by the overload without incoming multiplier -/
noncomputable def _root_.Adept.BOp.dR (op : BOp) (L R : ℝ) : ℝ :=
  if op.rightGuard false L R then (op.rightMul none L R (op.res L R) (op.auxv L R)).getD 1 else 0

/-- open domain of joint differentiability -/
def _root_.Adept.BOp.dom : BOp → ℝ → ℝ → Prop
  | .Divide => fun _ R => R ≠ 0
  | .Pow => fun L _ => 0 < L
  | .Atan2 => fun L R => 0 < R ∨ L ≠ 0        -- `R + L i` off the closed negative real axis
  | .Max | .Min => fun L R => L ≠ R
  | _ => fun _ _ => True

/-- over ℝ the recorded result equals the plain operation (`a * (1/b) = a / b`) -/
theorem res_eq_operation (op : BOp) (L R : ℝ) : op.res L R = op.operation false L R := by
  cases op <;> simp [BOp.res, BOp.operationStore, BOp.operation, div_eq_mul_inv]

/-- the `int`-operand overloads of max/min (ternary operator) denote the same function as fmax/fmin -/
theorem operation_mixed (op : BOp) (L R : ℝ) : op.operation true L R = op.operation false L R := by
  cases op <;> simp [BOp.operation]
  · split_ifs with h
    · exact (max_eq_right h.le).symm
    · exact (max_eq_left (not_lt.mp h)).symm
  · split_ifs with h
    · exact (min_eq_left h.le).symm
    · exact (min_eq_right (not_lt.mp h)).symm

section chain
variable {l r : ℝ → ℝ} {l' r' t : ℝ}

theorem chain_Add (hl : HasDerivAt l l' t) (hr : HasDerivAt r r' t) :
    HasDerivAt (fun s => BOp.operation .Add false (l s) (r s)) (BOp.dL .Add (l t) (r t) * l' + BOp.dR .Add (l t) (r t) * r') t :=
  (hl.add hr).congr_deriv (by simp [BOp.dL, BOp.dR, BOp.leftGuard, BOp.rightGuard, BOp.leftMul, BOp.rightMul])

theorem chain_Subtract (hl : HasDerivAt l l' t) (hr : HasDerivAt r r' t) :
    HasDerivAt (fun s => BOp.operation .Subtract false (l s) (r s))
      (BOp.dL .Subtract (l t) (r t) * l' + BOp.dR .Subtract (l t) (r t) * r') t :=
  (hl.sub hr).congr_deriv (by simp [BOp.dL, BOp.dR, BOp.leftGuard, BOp.rightGuard, BOp.leftMul, BOp.rightMul]; ring)

theorem chain_Multiply (hl : HasDerivAt l l' t) (hr : HasDerivAt r r' t) :
    HasDerivAt (fun s => BOp.operation .Multiply false (l s) (r s))
      (BOp.dL .Multiply (l t) (r t) * l' + BOp.dR .Multiply (l t) (r t) * r') t :=
  (hl.mul hr).congr_deriv (by simp [BOp.dL, BOp.dR, BOp.leftGuard, BOp.rightGuard, BOp.leftMul, BOp.rightMul]; ring)

theorem chain_Divide (hl : HasDerivAt l l' t) (hr : HasDerivAt r r' t) (hd : r t ≠ 0) :
    HasDerivAt (fun s => BOp.operation .Divide false (l s) (r s))
      (BOp.dL .Divide (l t) (r t) * l' + BOp.dR .Divide (l t) (r t) * r') t :=
  (hl.div hr hd).congr_deriv (by
    simp [BOp.dL, BOp.dR, BOp.leftGuard, BOp.rightGuard, BOp.leftMul, BOp.rightMul, BOp.res, BOp.auxv, BOp.operationStore]
    field_simp; ring)

theorem chain_Pow (hl : HasDerivAt l l' t) (hr : HasDerivAt r r' t) (hd : 0 < l t) :
    HasDerivAt (fun s => BOp.operation .Pow false (l s) (r s))
      (BOp.dL .Pow (l t) (r t) * l' + BOp.dR .Pow (l t) (r t) * r') t :=
  (hl.rpow hr hd).congr_deriv (by
    simp [BOp.dL, BOp.dR, BOp.leftGuard, BOp.rightGuard, BOp.leftMul, BOp.rightMul, BOp.res, BOp.auxv, BOp.operationStore,
      BOp.operation, realCfun]
    ring)

theorem chain_Max (hl : HasDerivAt l l' t) (hr : HasDerivAt r r' t) (hd : l t ≠ r t) :
    HasDerivAt (fun s => BOp.operation .Max false (l s) (r s))
      (BOp.dL .Max (l t) (r t) * l' + BOp.dR .Max (l t) (r t) * r') t := by
  rcases lt_or_gt_of_ne hd with h | h
  · -- l < r: the right operand is taken
    have hev : (fun s => BOp.operation .Max false (l s) (r s)) =ᶠ[𝓝 t] r := by
      filter_upwards [hl.continuousAt.eventually_lt hr.continuousAt h] with s hs
      simp [BOp.operation, max_eq_right hs.le]
    exact (hr.congr_of_eventuallyEq hev).congr_deriv (by
      simp [BOp.dL, BOp.dR, BOp.leftGuard, BOp.rightGuard, BOp.leftMul, BOp.rightMul, not_lt.mpr h.le])
  · have hev : (fun s => BOp.operation .Max false (l s) (r s)) =ᶠ[𝓝 t] l := by
      filter_upwards [hr.continuousAt.eventually_lt hl.continuousAt h] with s hs
      simp [BOp.operation, max_eq_left hs.le]
    exact (hl.congr_of_eventuallyEq hev).congr_deriv (by
      simp [BOp.dL, BOp.dR, BOp.leftGuard, BOp.rightGuard, BOp.leftMul, BOp.rightMul, h])

theorem chain_Min (hl : HasDerivAt l l' t) (hr : HasDerivAt r r' t) (hd : l t ≠ r t) :
    HasDerivAt (fun s => BOp.operation .Min false (l s) (r s))
      (BOp.dL .Min (l t) (r t) * l' + BOp.dR .Min (l t) (r t) * r') t := by
  rcases lt_or_gt_of_ne hd with h | h
  · have hev : (fun s => BOp.operation .Min false (l s) (r s)) =ᶠ[𝓝 t] l := by
      filter_upwards [hl.continuousAt.eventually_lt hr.continuousAt h] with s hs
      simp [BOp.operation, min_eq_left hs.le]
    exact (hl.congr_of_eventuallyEq hev).congr_deriv (by
      simp [BOp.dL, BOp.dR, BOp.leftGuard, BOp.rightGuard, BOp.leftMul, BOp.rightMul, h.le])
  · have hev : (fun s => BOp.operation .Min false (l s) (r s)) =ᶠ[𝓝 t] r := by
      filter_upwards [hr.continuousAt.eventually_lt hl.continuousAt h] with s hs
      simp [BOp.operation, min_eq_right hs.le]
    exact (hr.congr_of_eventuallyEq hev).congr_deriv (by
      simp [BOp.dL, BOp.dR, BOp.leftGuard, BOp.rightGuard, BOp.leftMul, BOp.rightMul, not_le.mpr h])

/-- `pow(x, c)` with a passive exponent is differentiable in `x` also at negative `x` (C `pow` is then defined for
    integer `c`, where it agrees with `Real.rpow`: `Real.rpow_intCast`) -/
theorem chain_Pow_const (hl : HasDerivAt l l' t) (c : ℝ) (hd : l t ≠ 0 ∨ 1 ≤ c) :
    HasDerivAt (fun s => BOp.operation .Pow false (l s) c) (BOp.dL .Pow (l t) c * l') t :=
  (hl.rpow_const hd).congr_deriv (by
    simp [BOp.dL, BOp.leftGuard, BOp.leftMul, BOp.res, BOp.auxv, BOp.operationStore, BOp.operation]
    ring)

/-- tie behaviour of `max` (not a derivative): the whole incoming derivative goes to the RIGHT operand -/
theorem max_tie (x : ℝ) : BOp.dL .Max x x = 0 ∧ BOp.dR .Max x x = 1 := by
  simp [BOp.dL, BOp.dR, BOp.leftGuard, BOp.rightGuard, BOp.leftMul, BOp.rightMul]

/-- tie behaviour of `min` (not a derivative): the whole incoming derivative goes to the LEFT operand -/
theorem min_tie (x : ℝ) : BOp.dL .Min x x = 1 ∧ BOp.dR .Min x x = 0 := by
  simp [BOp.dL, BOp.dR, BOp.leftGuard, BOp.rightGuard, BOp.leftMul, BOp.rightMul]

theorem atan2R_hasDerivAt (hl : HasDerivAt l l' t) (hr : HasDerivAt r r' t) (hd : 0 < r t ∨ l t ≠ 0) :
    HasDerivAt (fun s => atan2R (l s) (r s))
      (l' * r t / (r t * r t + l t * l t) - r' * l t / (r t * r t + l t * l t)) t := by
  have hf : HasDerivAt (fun s => ((r s : ℝ) : ℂ) + ((l s : ℝ) : ℂ) * Complex.I)
      ((r' : ℂ) + (l' : ℂ) * Complex.I) t :=
    (hr.ofReal_comp).add ((hl.ofReal_comp).mul_const Complex.I)
  have hmem : ((r t : ℂ) + (l t : ℂ) * Complex.I) ∈ Complex.slitPlane := by
    rw [Complex.mem_slitPlane_iff]; simpa using hd
  have hlog := hf.clog_real hmem
  have him := Complex.imCLM.hasFDerivAt.comp_hasDerivAt t hlog
  have hfun : (fun s => atan2R (l s) (r s)) = (⇑Complex.imCLM ∘ fun s => Complex.log (((r s : ℝ) : ℂ) + ((l s : ℝ) : ℂ) * Complex.I)) := by
    funext s
    simp only [Function.comp, Complex.imCLM_apply, Complex.log_im, atan2R, Complex.mk_eq_add_mul_I]
  rw [hfun]
  refine him.congr_deriv ?_
  simp only [Complex.imCLM_apply, Complex.div_im, Complex.add_re, Complex.add_im, Complex.ofReal_re, Complex.ofReal_im,
    Complex.mul_re, Complex.mul_im, Complex.I_re, Complex.I_im, Complex.normSq_apply]
  ring

theorem chain_Atan2 (hl : HasDerivAt l l' t) (hr : HasDerivAt r r' t) (hd : 0 < r t ∨ l t ≠ 0) :
    HasDerivAt (fun s => BOp.operation .Atan2 false (l s) (r s))
      (BOp.dL .Atan2 (l t) (r t) * l' + BOp.dR .Atan2 (l t) (r t) * r') t := by
  have hne : l t * l t + r t * r t ≠ 0 := by
    rcases hd with h | h
    · nlinarith [mul_self_nonneg (l t), mul_pos h h]
    · have := mul_self_pos.mpr h; nlinarith [mul_self_nonneg (r t)]
  refine (atan2R_hasDerivAt hl hr hd).congr_deriv ?_
  simp [BOp.dL, BOp.dR, BOp.leftGuard, BOp.rightGuard, BOp.leftMul, BOp.rightMul, BOp.res, BOp.auxv, BOp.operationStore]
  have hne' : r t * r t + l t * l t ≠ 0 := by rwa [add_comm]
  field_simp
  ring

/-- **T2 (table level)**: for every policy of the generated table, along any differentiable pair of arguments inside
    the domain, the operation has derivative `dL·l' + dR·r'`. -/
theorem bin_chain (op : BOp) (hl : HasDerivAt l l' t) (hr : HasDerivAt r r' t) (hd : op.dom (l t) (r t)) :
    HasDerivAt (fun s => op.operation false (l s) (r s)) (op.dL (l t) (r t) * l' + op.dR (l t) (r t) * r') t := by
  cases op
  · exact chain_Add hl hr
  · exact chain_Subtract hl hr
  · exact chain_Multiply hl hr
  · exact chain_Divide hl hr hd
  · exact chain_Pow hl hr hd
  · exact chain_Atan2 hl hr hd
  · exact chain_Max hl hr hd
  · exact chain_Min hl hr hd

end chain

/-- the partial derivatives proper: `dL` in the left argument with the right one fixed, `dR` in the right one -/
theorem bin_partials (op : BOp) (L R : ℝ) (hd : op.dom L R) :
    HasDerivAt (fun x => op.operation false x R) (op.dL L R) L ∧
    HasDerivAt (fun y => op.operation false L y) (op.dR L R) R := by
  constructor
  · have h := bin_chain op (l := fun x => x) (r := fun _ => R) (t := L) (hasDerivAt_id L) (hasDerivAt_const L R) hd
    exact h.congr_deriv (by simp)
  · have h := bin_chain op (l := fun _ => L) (r := fun y => y) (t := R) (hasDerivAt_const R L) (hasDerivAt_id R) hd
    exact h.congr_deriv (by simp)

end Adept.Expr
