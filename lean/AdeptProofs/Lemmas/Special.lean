import AdeptModel.Special
import Mathlib.Tactic.Linarith
import Mathlib.Tactic.Ring
import Mathlib.Tactic.NormNum
/-!
Specification vocabulary and helper lemmas for C17 (special matrices).

The specification side (`WF`, `InPattern`, `isSymm`, `Canonical`) is written by hand and does not mention any
generated formula; the lemmas relate it to the *generated* engine functions of
`AdeptModel/Generated/Engines.lean`, so a changed formula in `SpecialMatrix.h` breaks a proof here.
-/
set_option linter.unusedTactic false
set_option linter.unreachableTactic false
set_option linter.unusedVariables false
set_option linter.unnecessarySeqFocus false

namespace Adept.Special
open Adept.Engines

/-! ### specification -/

/-- admissible template arguments (band widths are non-negative) -/
def WF : Engine → Prop
  | .BandEngine_ROW_MAJOR L U => 0 ≤ L ∧ 0 ≤ U
  | .BandEngine_COL_MAJOR L U => 0 ≤ L ∧ 0 ≤ U
  | _ => True

/-- the dense matrix an engine stands for: element (i,j) is not a structural zero -/
def InPattern : Engine → Int → Int → Prop
  | .BandEngine_ROW_MAJOR L U, i, j => i - L ≤ j ∧ j ≤ i + U
  | .BandEngine_COL_MAJOR L U, i, j => i - L ≤ j ∧ j ≤ i + U
  | .LowerEngine_ROW_MAJOR, i, j => j ≤ i
  | .LowerEngine_COL_MAJOR, i, j => j ≤ i
  | .UpperEngine_ROW_MAJOR, i, j => i ≤ j
  | .UpperEngine_COL_MAJOR, i, j => i ≤ j
  | _, _, _ => True

/-- symmetric engines: (i,j) and (j,i) are one stored element -/
def isSymm : Engine → Bool
  | .SymmEngine_ROW_LOWER_COL_UPPER => true
  | .SymmEngine_ROW_UPPER_COL_LOWER => true
  | _ => false

/-- the positions a statement writes (what `get_row_range` has to enumerate): the pattern, and for a symmetric
    engine only the triangle that the orientation designates -/
def Canonical : Engine → Int → Int → Prop
  | .SymmEngine_ROW_LOWER_COL_UPPER, i, j => j ≤ i
  | .SymmEngine_ROW_UPPER_COL_LOWER, i, j => i ≤ j
  | e, i, j => InPattern e i j

/-! ### integer facts (the non-linear steps, stated once) -/

theorem mul_mono {a b o : Int} (h : a ≤ b) (ho : 0 ≤ o) : a * o ≤ b * o :=
  Int.mul_le_mul_of_nonneg_right h ho

theorem mul_step {a b o : Int} (h : a < b) (ho : 0 ≤ o) : a * o + o ≤ b * o := by
  have := mul_mono (show a + 1 ≤ b by omega) ho
  linarith

/-- row-major addressing `i*o + j` with `0 ≤ j < w ≤ o` is injective -/
theorem rowmajor_inj {i j i' j' w o : Int} (hj : 0 ≤ j) (hjw : j < w) (hj' : 0 ≤ j') (hjw' : j' < w) (hw : w ≤ o)
    (h : i * o + j = i' * o + j') : i = i' ∧ j = j' := by
  have ho : 0 ≤ o := by omega
  rcases Int.lt_trichotomy i i' with hlt | heq | hgt
  · have := mul_step hlt ho; omega
  · subst heq; omega
  · have := mul_step hgt ho; omega

/-- band addressing `i*o + j` with `i-L ≤ j ≤ i+U`, `L+U ≤ o` is injective -/
theorem band_inj {i j i' j' L U o : Int} (hL : 0 ≤ L) (hU : 0 ≤ U) (ho : L + U ≤ o)
    (h1 : i - L ≤ j) (h2 : j ≤ i + U) (h1' : i' - L ≤ j') (h2' : j' ≤ i' + U)
    (h : i * o + j = i' * o + j') : i = i' ∧ j = j' := by
  have ho0 : 0 ≤ o := by omega
  rcases Int.lt_trichotomy i i' with hlt | heq | hgt
  · have := mul_step hlt ho0; omega
  · subst heq; omega
  · have := mul_step hgt ho0; omega

/-! ### engine facts over the generated definitions -/

set_option hygiene false in
/-- closing tactic: split every `if`, then linear integer arithmetic (products are atoms); where the hypotheses
    force `i = j` the two are identified first so that `i*o` and `j*o` become one atom -/
macro "efin" : tactic => `(tactic| (
  (try split_ifs) <;> first
    | rfl
    | omega
    | (exfalso; omega)
    | (exfalso; exact ‹¬True› trivial)
    | (simp only [Option.some.injEq]; omega)
    | (simp only [Option.some.injEq]; split_ifs <;> omega)
    | ((have hij : i = j := by omega); subst hij; first | rfl | omega | (simp only [Option.some.injEq]; omega))))

/-- `get_scalar` reads `data[index(i,j)]` inside the pattern and a structural zero outside -/
theorem get_scalar_spec (e : Engine) (i j dim offset : Int) :
    (InPattern e i j → e.get_scalar i j dim offset = some (e.index i j offset)) ∧
    (¬ InPattern e i j → e.get_scalar i j dim offset = none) := by
  cases e <;> simp only [InPattern] <;> engine_unfold <;> constructor <;> intro h <;> efin

/-- the four element-access overloads test the same condition and address the same element -/
theorem overloads_agree (e : Engine) (i j dim offset : Int) :
    e.get_scalar_active i j dim offset = e.get_scalar i j dim offset ∧
    e.get_reference i j dim offset = e.get_scalar i j dim offset ∧
    e.get_reference_active i j dim offset = e.get_scalar i j dim offset := by
  cases e <;> engine_unfold <;> simp

theorem index_mirror (e : Engine) (hs : isSymm e = true) (i j offset : Int) :
    e.index i j offset = e.index j i offset := by
  cases e <;> simp only [isSymm] at hs <;> first | exact absurd hs (by decide) | skip
  all_goals engine_unfold
  all_goals efin

theorem transpose_colband (L U : Int) :
    Engine.transpose (.BandEngine_COL_MAJOR L U) = .BandEngine_ROW_MAJOR U L := by
  engine_unfold
  split_ifs with h
  · obtain ⟨rfl, rfl⟩ := h; rfl
  · rfl

theorem transpose_get_scalar (e : Engine) (i j dim offset : Int) :
    e.transpose.get_scalar i j dim offset = e.get_scalar j i dim offset := by
  cases e
  case BandEngine_COL_MAJOR L U =>
    rw [transpose_colband]
    engine_unfold
    efin
  all_goals engine_unfold <;> efin

/-- column-major variant of `rowmajor_inj` -/
theorem colmajor_inj {i j i' j' w o : Int} (hi : 0 ≤ i) (hiw : i < w) (hi' : 0 ≤ i') (hiw' : i' < w) (hw : w ≤ o)
    (h : i + j * o = i' + j' * o) : i = i' ∧ j = j' := by
  have := rowmajor_inj (i := j) (j := i) (i' := j') (j' := i') hi hiw hi' hiw' hw (by omega)
  omega

theorem index_injective (e : Engine) (he : WF e) (dim offset i j i' j' : Int)
    (ho : e.pack_offset dim ≤ offset) (hi0 : 0 ≤ i) (hi : i < dim) (hj0 : 0 ≤ j) (hj : j < dim)
    (hi0' : 0 ≤ i') (hi' : i' < dim) (hj0' : 0 ≤ j') (hj' : j' < dim)
    (hp : InPattern e i j) (hp' : InPattern e i' j')
    (h : e.index i j offset = e.index i' j' offset) :
    (i = i' ∧ j = j') ∨ (isSymm e = true ∧ i = j' ∧ j = i') := by
  cases e <;> simp only [WF, InPattern] at he hp hp' <;> engine_unfold at ho h <;> simp only [isSymm]
  case SquareEngine_ROW_MAJOR => exact Or.inl (rowmajor_inj hj0 hj hj0' hj' ho h)
  case SquareEngine_COL_MAJOR => exact Or.inl (colmajor_inj hi0 hi hi0' hi' ho h)
  case LowerEngine_ROW_MAJOR => exact Or.inl (rowmajor_inj hj0 hj hj0' hj' ho h)
  case LowerEngine_COL_MAJOR => exact Or.inl (colmajor_inj hi0 hi hi0' hi' ho h)
  case UpperEngine_ROW_MAJOR => exact Or.inl (rowmajor_inj hj0 hj hj0' hj' ho h)
  case UpperEngine_COL_MAJOR => exact Or.inl (colmajor_inj hi0 hi hi0' hi' ho h)
  case BandEngine_ROW_MAJOR L U =>
    exact Or.inl (band_inj he.1 he.2 (by omega) hp.1 hp.2 hp'.1 hp'.2 h)
  case BandEngine_COL_MAJOR L U =>
    left
    split_ifs at h ho with h0
    · exact band_inj he.1 he.2 (by omega) hp.1 hp.2 hp'.1 hp'.2 h
    · have := band_inj (i := j) (j := i) (i' := j') (j' := i') (L := U) (U := L) (o := offset) he.2 he.1 (by omega)
        (by omega) (by omega) (by omega) (by omega) (by omega)
      omega
  case SymmEngine_ROW_LOWER_COL_UPPER =>
    split_ifs at h
    · have := rowmajor_inj hj0 hj hj0' hj' ho h; omega
    · have := rowmajor_inj (i := i) (j := j) (i' := j') (j' := i') hj0 hj hi0' hi' ho (by omega); exact Or.inr ⟨trivial, this.1, this.2⟩
    · have := rowmajor_inj (i := j) (j := i) (i' := i') (j' := j') hi0 hi hj0' hj' ho (by omega); exact Or.inr ⟨trivial, this.2, this.1⟩
    · have := rowmajor_inj (i := j) (j := i) (i' := j') (j' := i') hi0 hi hi0' hi' ho (by omega); omega
  case SymmEngine_ROW_UPPER_COL_LOWER =>
    split_ifs at h
    · have := rowmajor_inj hj0 hj hj0' hj' ho h; omega
    · have := rowmajor_inj (i := i) (j := j) (i' := j') (j' := i') hj0 hj hi0' hi' ho (by omega); exact Or.inr ⟨trivial, this.1, this.2⟩
    · have := rowmajor_inj (i := j) (j := i) (i' := i') (j' := j') hi0 hi hj0' hj' ho (by omega); exact Or.inr ⟨trivial, this.2, this.1⟩
    · have := rowmajor_inj (i := j) (j := i) (i' := j') (j' := i') hi0 hi hi0' hi' ho (by omega); omega

theorem index_in_range (e : Engine) (he : WF e) (dim offset i j : Int) (hd : 1 ≤ dim)
    (ho : e.pack_offset dim ≤ offset) (hi0 : 0 ≤ i) (hi : i < dim) (hj0 : 0 ≤ j) (hj : j < dim)
    (hp : InPattern e i j) :
    0 ≤ e.index i j offset ∧ e.index i j offset < e.data_size dim offset := by
  cases e <;> simp only [WF, InPattern] at he hp <;> engine_unfold at ho ⊢
  all_goals (try split_ifs at ho)
  all_goals
    have hoo : 0 ≤ offset := by omega
    have f1 := mul_mono hi0 hoo
    have f2 := mul_mono (show i ≤ dim - 1 by omega) hoo
    have f3 := mul_mono hj0 hoo
    have f4 := mul_mono (show j ≤ dim - 1 by omega) hoo
    (try split_ifs) <;> constructor <;> nlinarith

theorem row_range_spec (e : Engine) (he : WF e) (dim offset i : Int) (hi0 : 0 ≤ i) (hi : i < dim) :
    (∀ j, (e.get_row_range_j_start i dim offset ≤ j ∧ j < e.get_row_range_j_end_plus_1 i dim offset) ↔
          (0 ≤ j ∧ j < dim ∧ Canonical e i j)) ∧
    (∀ j, e.get_row_range_j_start i dim offset ≤ j → j < e.get_row_range_j_end_plus_1 i dim offset →
          e.get_row_range_index_start i dim offset
            + (j - e.get_row_range_j_start i dim offset) * e.get_row_range_index_stride i dim offset
          = e.index i j offset) := by
  cases e <;> simp only [WF, Canonical, InPattern] at he ⊢ <;> engine_unfold <;> refine ⟨fun j => ?_, fun j h1 h2 => ?_⟩
  all_goals first
    | ((try split_ifs) <;> refine ⟨fun h => ⟨?_, ?_, ?_⟩, fun h => ⟨?_, ?_⟩⟩ <;> first | trivial | omega)
    | ((try split_ifs at *) <;> first | ring1 | (exfalso; omega))

theorem canonical_cover (e : Engine) (i j : Int) (hp : InPattern e i j) :
    Canonical e i j ∨ (isSymm e = true ∧ Canonical e j i) := by
  cases e <;> simp only [Canonical, InPattern, isSymm] at hp ⊢ <;> first | (left; exact hp) | skip
  all_goals (by_cases h : j ≤ i) <;> first | (left; omega) | (right; exact ⟨trivial, by omega⟩)

/-! location tests of `value_at_location` against the (i,j) tests of `get_scalar` -/
theorem band_row_test (i j o L U : Int) :
    (i * o + j ≥ i * (o + 1) - L ∧ i * o + j < i * (o + 1) - L + (1 + L + U)) ↔ ¬(j - i > U ∨ j - i < -L) := by
  have e1 : i * (o + 1) = i * o + i := by ring
  rw [e1]; omega

theorem band_col_test (i j o L U : Int) (ho : 1 ≤ o) :
    (i + j * o ≥ (i - L) * (o + 1) + L ∧ i + j * o < (i - L) * (o + 1) + L + (1 + L + U - 1) * o + 1)
      ↔ ¬(j - i > U ∨ j - i < -L) := by
  have hoo : 0 ≤ o := by omega
  have e1 : (i - L) * (o + 1) = (i - L) * o + (i - L) := by ring
  have e2 : (i + U) * o = (i - L) * o + (1 + L + U - 1) * o := by ring
  rw [e1]
  constructor
  · rintro ⟨h1, h2⟩
    by_cases c1 : j < i - L
    · have := mul_step c1 hoo; omega
    · by_cases c2 : i + U < j
      · have := mul_step c2 hoo; omega
      · omega
  · intro h
    have f1 := mul_mono (show i - L ≤ j by omega) hoo
    have f2 := mul_mono (show j ≤ i + U by omega) hoo
    omega

theorem lower_row_test (i j o : Int) : i * o + j ≤ i * (o + 1) ↔ i ≥ j := by
  have e1 : i * (o + 1) = i * o + i := by ring
  rw [e1]; omega

theorem upper_row_test (i j o : Int) : i * o + j ≥ i * (o + 1) ↔ i ≤ j := by
  have e1 : i * (o + 1) = i * o + i := by ring
  rw [e1]; omega

theorem lower_col_test (i j o : Int) (ho : 1 ≤ o) : i + j * o ≤ i * (o + 1) ↔ i ≥ j := by
  have hoo : 0 ≤ o := by omega
  have e1 : i * (o + 1) = i * o + i := by ring
  rw [e1]
  constructor
  · intro h
    by_cases c : i < j
    · have := mul_step c hoo; omega
    · omega
  · intro h
    have := mul_mono (show j ≤ i by omega) hoo; omega

theorem upper_col_test (i j o : Int) (ho : 1 ≤ o) : i + j * o ≥ i * (o + 1) ↔ i ≤ j := by
  have hoo : 0 ≤ o := by omega
  have e1 : i * (o + 1) = i * o + i := by ring
  rw [e1]
  constructor
  · intro h
    by_cases c : j < i
    · have := mul_step c hoo; omega
    · omega
  · intro h
    have := mul_mono (show i ≤ j by omega) hoo; omega

theorem ite_some_none_not {α : Type} {A c : Prop} [Decidable A] [Decidable c] (x : α) (t : A ↔ ¬ c) :
    (if A then some x else none) = (if c then none else some x) := by
  by_cases h : c
  · rw [if_pos h, if_neg (fun a => (t.mp a) h)]
  · rw [if_neg h, if_pos (t.mpr h)]

theorem ite_some_none_iff {α : Type} {A c : Prop} [Decidable A] [Decidable c] (x : α) (t : A ↔ c) :
    (if A then some x else none) = (if c then some x else none) := by
  by_cases h : c
  · rw [if_pos h, if_pos (t.mpr h)]
  · rw [if_neg h, if_neg (fun a => h (t.mp a))]

theorem value_at_spec (e : Engine) (he : WF e) (dim offset i j : Int) (hd : 1 ≤ dim) (ho : e.pack_offset dim ≤ offset) :
    e.value_at_location (e.index i j offset) (e.set_extras_1 i offset) (e.set_extras_2 i offset)
      = e.get_scalar i j dim offset := by
  cases e <;> simp only [WF] at he <;> engine_unfold at ho ⊢
  case BandEngine_ROW_MAJOR L U => exact ite_some_none_not _ (band_row_test i j offset L U)
  case BandEngine_COL_MAJOR L U =>
    split_ifs at ho with h0
    · obtain ⟨rfl, rfl⟩ := h0
      simp only [and_self, if_true]
      exact ite_some_none_not _ (band_row_test i j offset 0 0)
    · simp only [h0, if_false]
      exact ite_some_none_not _ (band_col_test i j offset L U (by omega))
  case LowerEngine_ROW_MAJOR => exact ite_some_none_iff _ (lower_row_test i j offset)
  case LowerEngine_COL_MAJOR => exact ite_some_none_iff _ (lower_col_test i j offset (by omega))
  case UpperEngine_ROW_MAJOR => exact ite_some_none_iff _ (upper_row_test i j offset)
  case UpperEngine_COL_MAJOR => exact ite_some_none_iff _ (upper_col_test i j offset (by omega))
  all_goals rfl
theorem advance_spec (e : Engine) (he : WF e) (dim offset i j : Int) (hd : 1 ≤ dim) (ho : e.pack_offset dim ≤ offset) :
    e.index i j offset + e.row_offset offset (e.index i j offset) (e.set_extras_1 i offset) (e.set_extras_2 i offset)
      = e.index i (j + 1) offset := by
  cases e <;> simp only [WF] at he <;> engine_unfold at ho ⊢
  case SymmEngine_ROW_LOWER_COL_UPPER =>
    have hoo : 0 ≤ offset := by omega
    rcases Int.lt_trichotomy i j with hlt | heq | hgt
    · have := mul_step hlt hoo
      split_ifs <;> first | ring1 | linarith | (exfalso; linarith)
    · subst heq
      split_ifs <;> first | ring1 | linarith | (exfalso; linarith)
    · have := mul_step hgt hoo
      split_ifs <;> first | ring1 | linarith | (exfalso; linarith)
  case SymmEngine_ROW_UPPER_COL_LOWER =>
    have hoo : 0 ≤ offset := by omega
    rcases Int.lt_trichotomy i j with hlt | heq | hgt
    · have := mul_step hlt hoo
      split_ifs <;> first | ring1 | linarith | (exfalso; linarith)
    · subst heq
      split_ifs <;> first | ring1 | linarith | (exfalso; linarith)
    · have := mul_step hgt hoo
      split_ifs <;> first | ring1 | linarith | ((obtain rfl : i = j + 1 := by omega); ring1) | (exfalso; linarith)
  all_goals first
    | ring1
    | ((try split_ifs at *) <;> first | ring1 | (exfalso; omega))

/-! diagonals -/
/-- super-diagonal `k ≥ 0`: `check_upper_diag` throws exactly when the diagonal is outside the pattern; otherwise
    element `t` of `diag_vector(k)` is the stored element (t, t+k) -/
theorem upper_diag_spec (e : Engine) (he : WF e) (dim offset k t : Int) (hk : 0 ≤ k) :
    (e.check_upper_diag k = false → InPattern e t (t + k) ∧
        e.upper_offset dim offset k + t * (offset + 1) = e.index t (t + k) offset) ∧
    (e.check_upper_diag k = true → ¬ InPattern e t (t + k)) := by
  cases e <;> simp only [WF, InPattern] at he ⊢ <;> engine_unfold
  all_goals (try split_ifs)
  all_goals refine ⟨fun h => ⟨?_, ?_⟩, fun h => ?_⟩
  all_goals first
    | trivial
    | ring1
    | ((try simp only [decide_eq_false_iff_not, decide_eq_true_eq, not_lt, not_le] at *); first | omega | ((obtain rfl : k = 0 := by omega); ring1))
    | (trace_state; fail "x")

/-- sub-diagonal `k < 0`: element `t` of `diag_vector(k)` is the stored element (t-k, t) -/
theorem lower_diag_spec (e : Engine) (he : WF e) (dim offset k t : Int) (hk : k < 0) :
    (e.check_lower_diag k = false → InPattern e (t - k) t ∧
        e.lower_offset dim offset k + t * (offset + 1) = e.index (t - k) t offset) ∧
    (e.check_lower_diag k = true → ¬ InPattern e (t - k) t) := by
  cases e <;> simp only [WF, InPattern] at he ⊢ <;> engine_unfold
  all_goals (try split_ifs)
  all_goals refine ⟨fun h => ⟨?_, ?_⟩, fun h => ?_⟩
  all_goals first
    | trivial
    | ring1
    | ((try simp only [decide_eq_false_iff_not, decide_eq_true_eq, not_lt, not_le] at *); first | omega | (exfalso; omega))
    | (trace_state; fail "x")

/-! sub-matrices on the diagonal -/
theorem shift_spec (e : Engine) (a i j dim dim' offset : Int) :
    e.get_scalar (a + i) (a + j) dim offset = (e.get_scalar i j dim' offset).map (fun k => (offset + 1) * a + k) := by
  cases e <;> engine_unfold
  all_goals (try split_ifs)
  all_goals first
    | rfl
    | (exfalso; omega)
    | (simp only [Option.map_some, Option.some.injEq]; first | ring1 | (split_ifs <;> first | ring1 | (exfalso; omega)))
    | (simp only [Option.map_none])
    | (trace_state; fail "x")

theorem pack_offset_mono (e : Engine) (dim dim' : Int) (h : dim' ≤ dim) : e.pack_offset dim' ≤ e.pack_offset dim := by
  cases e <;> engine_unfold <;> (try split_ifs) <;> omega

/-! ### the SpecialMatrix object -/

/-- admissible object: well-formed engine, positive dimension, offset at least the packed one -/
structure SM.Adm (m : SM) : Prop where
  wf : WF m.e
  dim_pos : 1 ≤ m.dim
  off : m.e.pack_offset m.dim ≤ m.offset

theorem SM.get_eq (m : SM) (d : Raw) (i j : Int) :
    (InPattern m.e i j → m.get d i j = d (m.base + m.e.index i j m.offset)) ∧
    (¬ InPattern m.e i j → m.get d i j = 0) := by
  have h := get_scalar_spec m.e i j m.dim m.offset
  constructor
  · intro hp; simp only [SM.get, h.1 hp]
  · intro hp; simp only [SM.get, h.2 hp]

theorem SM.ref_eq (m : SM) (act : Bool) (i j : Int) :
    (InPattern m.e i j → m.ref act i j = some (m.base + m.e.index i j m.offset)) ∧
    (¬ InPattern m.e i j → m.ref act i j = none) := by
  have h := get_scalar_spec m.e i j m.dim m.offset
  have ho := overloads_agree m.e i j m.dim m.offset
  constructor
  · intro hp; cases act <;> simp [SM.ref, ho.2.1, ho.2.2, h.1 hp]
  · intro hp; cases act <;> simp [SM.ref, ho.2.1, ho.2.2, h.2 hp]

theorem symm_all_pattern (e : Engine) (hs : isSymm e = true) (i j : Int) : InPattern e i j := by
  cases e <;> simp only [isSymm] at hs <;> first | exact absurd hs (by decide) | trivial

/-- a write through `M(i,j)` changes the dense view at (i,j), at its mirror image for a symmetric engine, and
    nowhere else -/
theorem SM.write_hits_one (m : SM) (ha : m.Adm) (d : Raw) (act : Bool) (i j k v : Int)
    (hi0 : 0 ≤ i) (hi : i < m.dim) (hj0 : 0 ≤ j) (hj : j < m.dim) (href : m.ref act i j = some k)
    (i' j' : Int) (hi0' : 0 ≤ i') (hi' : i' < m.dim) (hj0' : 0 ≤ j') (hj' : j' < m.dim) :
    m.get (d.set k v) i' j' =
      if (i' = i ∧ j' = j) ∨ (isSymm m.e = true ∧ i' = j ∧ j' = i) then v else m.get d i' j' := by
  have hp : InPattern m.e i j := by
    by_contra hn
    rw [(m.ref_eq act i j).2 hn] at href
    exact absurd href (by simp)
  have hk : k = m.base + m.e.index i j m.offset := by
    rw [(m.ref_eq act i j).1 hp] at href
    exact (Option.some.inj href).symm
  by_cases hp' : InPattern m.e i' j'
  · rw [(m.get_eq _ i' j').1 hp', (m.get_eq d i' j').1 hp']
    simp only [Raw.set_apply, hk]
    by_cases hc : (i' = i ∧ j' = j) ∨ (isSymm m.e = true ∧ i' = j ∧ j' = i)
    · rw [if_pos hc]
      rcases hc with ⟨rfl, rfl⟩ | ⟨hs, rfl, rfl⟩
      · simp
      · rw [index_mirror m.e hs]; simp
    · rw [if_neg hc, if_neg]
      intro heq
      have := index_injective m.e ha.wf m.dim m.offset i' j' i j ha.off hi0' hi' hj0' hj' hi0 hi hj0 hj hp' hp (by omega)
      exact hc this
  · rw [(m.get_eq _ i' j').2 hp', (m.get_eq d i' j').2 hp', if_neg]
    rintro (⟨rfl, rfl⟩ | ⟨hs, _, _⟩)
    · exact hp' hp
    · exact hp' (symm_all_pattern m.e hs i' j')

/-! transposition -/
theorem transpose_wf (e : Engine) (he : WF e) : WF e.transpose := by
  cases e
  case BandEngine_COL_MAJOR L U => rw [transpose_colband]; simp only [WF] at *; omega
  all_goals engine_unfold <;> simp only [WF] at * <;> first | trivial | omega

theorem transpose_pattern (e : Engine) (i j : Int) : InPattern e.transpose i j ↔ InPattern e j i := by
  cases e
  case BandEngine_COL_MAJOR L U => rw [transpose_colband]; simp only [InPattern]; omega
  all_goals engine_unfold <;> simp only [InPattern] <;> omega

theorem transpose_sizes (e : Engine) (he : WF e) (dim offset : Int) :
    e.transpose.pack_offset dim = e.pack_offset dim ∧ e.transpose.data_size dim offset = e.data_size dim offset := by
  cases e
  case BandEngine_COL_MAJOR L U =>
    rw [transpose_colband]; engine_unfold
    split_ifs with h
    · obtain ⟨rfl, rfl⟩ := h; constructor <;> rfl
    · constructor <;> omega
  case BandEngine_ROW_MAJOR L U =>
    engine_unfold
    split_ifs with h
    · obtain ⟨rfl, rfl⟩ := h; constructor <;> rfl
    · constructor <;> omega
  all_goals engine_unfold <;> constructor <;> first | trivial | rfl | omega

theorem transpose_transpose (e : Engine) : e.transpose.transpose = e := by
  cases e
  case BandEngine_COL_MAJOR L U => rw [transpose_colband]; engine_unfold
  case BandEngine_ROW_MAJOR L U =>
    have h1 : Engine.transpose (.BandEngine_ROW_MAJOR L U) = .BandEngine_COL_MAJOR U L := by engine_unfold
    rw [h1, transpose_colband]
  all_goals rfl

theorem SM.T_adm (m : SM) (ha : m.Adm) : m.T.Adm :=
  ⟨transpose_wf _ ha.wf, ha.dim_pos, by
    show m.e.transpose.pack_offset m.dim ≤ m.offset
    rw [(transpose_sizes m.e ha.wf m.dim m.offset).1]; exact ha.off⟩

theorem SM.T_get (m : SM) (d : Raw) (i j : Int) : m.T.get d i j = m.get d j i := by
  simp only [SM.get, SM.T]
  rw [transpose_get_scalar]

theorem SM.advance_setLocation (m : SM) (ha : m.Adm) (i j : Int) :
    m.advance (m.setLocation i j) = m.setLocation i (j + 1) := by
  simp only [SM.advance, SM.setLocation]
  rw [advance_spec m.e ha.wf m.dim m.offset i j ha.dim_pos ha.off]

theorem SM.valueAt_setLocation (m : SM) (ha : m.Adm) (d : Raw) (i j : Int) :
    m.valueAt d (m.setLocation i j) = m.get d i j := by
  simp only [SM.valueAt, SM.setLocation, SM.get]
  rw [value_at_spec m.e ha.wf m.dim m.offset i j ha.dim_pos ha.off]

theorem SM.rowFrom_spec (m : SM) (ha : m.Adm) (d : Raw) (i : Int) :
    ∀ (n : Nat) (j0 : Int),
      m.rowFrom d (m.setLocation i j0) n = (List.range n).map (fun (t : Nat) => m.get d i (j0 + (t : Int))) := by
  intro n
  induction n with
  | zero => intro j0; rfl
  | succ n ih =>
    intro j0
    rw [SM.rowFrom, m.valueAt_setLocation ha, m.advance_setLocation ha, ih (j0 + 1), List.range_succ_eq_map]
    simp only [List.map_cons, List.map_map, Nat.cast_zero, add_zero, List.cons.injEq, true_and]
    apply List.map_congr_left
    intro t _
    simp only [Function.comp, Nat.cast_succ]
    congr 1; ring


/-- row and column of element `t` of diagonal `k` -/
def drow (k t : Int) : Int := if k ≥ 0 then t else t - k
def dcol (k t : Int) : Int := if k ≥ 0 then t + k else t

theorem SM.diag_spec (m : SM) (ha : m.Adm) (k : Int) :
    (∀ v, m.diag k = some v →
        v.len = (if k ≥ 0 then m.dim - k else m.dim + k) ∧
        ∀ (d : Raw) (t : Int), InPattern m.e (drow k t) (dcol k t) ∧
          d (v.base + t * v.stride) = m.get d (drow k t) (dcol k t)) ∧
    (m.diag k = none → ∀ (d : Raw) (t : Int), ¬ InPattern m.e (drow k t) (dcol k t) ∧ m.get d (drow k t) (dcol k t) = 0) := by
  by_cases hk : k ≥ 0
  · simp only [SM.diag, drow, dcol, if_pos hk]
    constructor
    · intro v hv
      by_cases hc : m.e.check_upper_diag k = true
      · simp [hc] at hv
      · have hc' : m.e.check_upper_diag k = false := by simpa using hc
        simp only [hc', Bool.false_eq_true, if_false, Option.some.injEq] at hv
        subst hv
        refine ⟨rfl, fun d t => ?_⟩
        have h := (upper_diag_spec m.e ha.wf m.dim m.offset k t hk).1 hc'
        refine ⟨h.1, ?_⟩
        rw [(m.get_eq d t (t + k)).1 h.1, ← h.2]
        congr 1; ring
    · intro hn d t
      by_cases hc : m.e.check_upper_diag k = true
      · have h := (upper_diag_spec m.e ha.wf m.dim m.offset k t hk).2 hc
        exact ⟨h, (m.get_eq d t (t + k)).2 h⟩
      · have hc' : m.e.check_upper_diag k = false := by simpa using hc
        simp [hc'] at hn
  · have hk' : k < 0 := by omega
    simp only [SM.diag, drow, dcol, if_neg hk]
    constructor
    · intro v hv
      by_cases hc : m.e.check_lower_diag k = true
      · simp [hc] at hv
      · have hc' : m.e.check_lower_diag k = false := by simpa using hc
        simp only [hc', Bool.false_eq_true, if_false, Option.some.injEq] at hv
        subst hv
        refine ⟨rfl, fun d t => ?_⟩
        have h := (lower_diag_spec m.e ha.wf m.dim m.offset k t hk').1 hc'
        refine ⟨h.1, ?_⟩
        rw [(m.get_eq d (t - k) t).1 h.1, ← h.2]
        congr 1; ring
    · intro hn d t
      by_cases hc : m.e.check_lower_diag k = true
      · have h := (lower_diag_spec m.e ha.wf m.dim m.offset k t hk').2 hc
        exact ⟨h, (m.get_eq d (t - k) t).2 h⟩
      · have hc' : m.e.check_lower_diag k = false := by simpa using hc
        simp [hc'] at hn

theorem SM.sub_spec (m : SM) (ha : m.Adm) (a b : Int) :
    (m.sub a b = none ↔ ¬ (0 ≤ a ∧ a ≤ b ∧ b < m.dim)) ∧
    (∀ x, m.sub a b = some x → x.Adm ∧ x.dim = b - a + 1 ∧ ∀ (d : Raw) (i j : Int), x.get d i j = m.get d (a + i) (a + j)) := by
  by_cases hc : a < 0 ∨ a > b ∨ b ≥ m.dim
  · simp only [SM.sub, if_pos hc]
    refine ⟨⟨fun _ => by omega, fun _ => trivial⟩, fun x hx => by simp at hx⟩
  · simp only [SM.sub, if_neg hc]
    refine ⟨⟨fun h => by simp at h, fun h => absurd (by omega) h⟩, fun x hx => ?_⟩
    simp only [Option.some.injEq] at hx
    subst hx
    refine ⟨⟨ha.wf, by show 1 ≤ b - a + 1; omega, ?_⟩, rfl, fun d i j => ?_⟩
    · show m.e.pack_offset (b - a + 1) ≤ m.offset
      exact le_trans (pack_offset_mono m.e m.dim (b - a + 1) (by omega)) ha.off
    · simp only [SM.get]
      rw [shift_spec m.e a i j m.dim (b - a + 1) m.offset]
      cases m.e.get_scalar i j (b - a + 1) m.offset with
      | none => rfl
      | some k => simp only [Option.map_some]; congr 1; ring

/-! right-hand sides -/
/-- the value an expression denotes at (i,j) -/
def RExpr.val : RExpr → Int → Int → Int
  | .sm m d, i, j => m.get d i j
  | .dense f, i, j => f i j
  | .scale a c, i, j => a.val i j * c
  | .add a b, i, j => a.val i j + b.val i j
  | .bin o a b, i, j => o.apply (a.val i j) (b.val i j)
  | .binc o a c, i, j => o.apply (a.val i j) c

/-- every special-matrix operand is admissible -/
def RExpr.AllAdm : RExpr → Prop
  | .sm m _ => m.Adm
  | .dense _ => True
  | .scale a _ => a.AllAdm
  | .add a b => a.AllAdm ∧ b.AllAdm
  | .bin _ a b => a.AllAdm ∧ b.AllAdm
  | .binc _ a _ => a.AllAdm

theorem RExpr.row_spec (r : RExpr) (hr : r.AllAdm) (i j0 : Int) (n : Nat) :
    r.row i j0 n = (List.range n).map (fun (t : Nat) => r.val i (j0 + (t : Int))) := by
  induction r with
  | sm m d => exact m.rowFrom_spec hr d i n j0
  | dense f => rfl
  | scale a c ih => simp only [RExpr.row, ih hr, List.map_map]; rfl
  | add a b iha ihb =>
    simp only [RExpr.row, iha hr.1, ihb hr.2, List.zipWith_map, List.zipWith_self]
    rfl
  | bin o a b iha ihb =>
    simp only [RExpr.row, iha hr.1, ihb hr.2, List.zipWith_map, List.zipWith_self]
    rfl
  | binc o a c ih => simp only [RExpr.row, ih hr, List.map_map]; rfl

theorem RExpr.toDense_spec (r : RExpr) (hr : r.AllAdm) (n : Nat) :
    r.toDense n = (List.range n).flatMap (fun (i : Nat) => (List.range n).map (fun (j : Nat) => r.val (i : Int) (j : Int))) := by
  simp only [RExpr.toDense]
  congr 1
  funext i
  rw [r.row_spec hr]
  apply List.map_congr_left
  intro t _
  simp


/-! ### a special matrix as target of a statement -/

theorem canonical_pattern (e : Engine) (i j : Int) (h : Canonical e i j) : InPattern e i j := by
  cases e <;> simp only [Canonical, InPattern] at h ⊢ <;> first | trivial | exact h

/-- two different canonical positions never share a raw element -/
theorem canonical_inj (e : Engine) (he : WF e) (dim offset i j i' j' : Int)
    (ho : e.pack_offset dim ≤ offset) (hi0 : 0 ≤ i) (hi : i < dim) (hj0 : 0 ≤ j) (hj : j < dim)
    (hi0' : 0 ≤ i') (hi' : i' < dim) (hj0' : 0 ≤ j') (hj' : j' < dim)
    (hc : Canonical e i j) (hc' : Canonical e i' j')
    (h : e.index i j offset = e.index i' j' offset) : i = i' ∧ j = j' := by
  rcases index_injective e he dim offset i j i' j' ho hi0 hi hj0 hj hi0' hi' hj0' hj'
      (canonical_pattern e i j hc) (canonical_pattern e i' j' hc') h with h1 | ⟨hs, rfl, rfl⟩
  · exact h1
  · cases e <;> simp only [isSymm] at hs <;> first | exact absurd hs (by decide) | skip
    all_goals simp only [Canonical] at hc hc'
    all_goals constructor <;> omega

theorem SM.assignRow_miss (m : SM) (vals : List Int) : ∀ (idx stride : Int) (d : Raw) (k : Int),
    (∀ t : Nat, t < vals.length → m.base + idx + (t : Int) * stride ≠ k) → m.assignRow vals idx stride d k = d k := by
  induction vals with
  | nil => intro idx stride d k _; rfl
  | cons v vs ih =>
    intro idx stride d k h
    rw [SM.assignRow, ih]
    · have h0 := h 0 (by simp)
      simp only [Raw.set_apply]
      rw [if_neg]
      intro hk; apply h0; rw [hk]; simp
    · intro t ht
      have := h (t + 1) (by simp; omega)
      intro hk; apply this; rw [← hk]; push_cast; ring

theorem SM.assignRow_hit (m : SM) (vals : List Int) : ∀ (idx stride : Int) (d : Raw) (t0 : Nat) (h0 : t0 < vals.length),
    (∀ t : Nat, t < vals.length → t ≠ t0 → m.base + idx + (t : Int) * stride ≠ m.base + idx + (t0 : Int) * stride) →
    m.assignRow vals idx stride d (m.base + idx + (t0 : Int) * stride) = vals[t0] := by
  induction vals with
  | nil => intro idx stride d t0 h0; simp at h0
  | cons v vs ih =>
    intro idx stride d t0 h0 hinj
    rw [SM.assignRow]
    cases t0 with
    | zero =>
      rw [m.assignRow_miss]
      · simp [Raw.set_apply]
      · intro t ht
        have := hinj (t + 1) (by simp; omega) (by omega)
        intro hk; apply this; rw [← hk]; push_cast; ring
    | succ s =>
      have hs : s < vs.length := by simpa using h0
      have key : m.base + idx + ((s + 1 : Nat) : Int) * stride = m.base + (idx + stride) + (s : Int) * stride := by
        push_cast; ring
      rw [key, ih (idx + stride) stride _ s hs]
      · simp
      · intro t ht hne
        have := hinj (t + 1) (by simp; omega) (by omega)
        intro hk; apply this
        have : m.base + idx + ((t + 1 : Nat) : Int) * stride = m.base + (idx + stride) + (t : Int) * stride := by
          push_cast; ring
        rw [this, hk, key]

/-- one row of `assign_expression_`: the canonical positions of row `i` receive the right-hand side's values,
    every other raw element is untouched -/
theorem SM.assignRowOf_spec (m : SM) (ha : m.Adm) (rhs : RExpr) (hr : rhs.AllAdm) (d : Raw) (i : Nat)
    (hi : (i : Int) < m.dim) :
    (∀ j : Int, 0 ≤ j → j < m.dim → Canonical m.e i j →
        m.assignRowOf rhs d i (m.base + m.e.index i j m.offset) = rhs.val i j) ∧
    (∀ k : Int, (∀ j : Int, 0 ≤ j → j < m.dim → Canonical m.e i j → k ≠ m.base + m.e.index i j m.offset) →
        m.assignRowOf rhs d i k = d k) := by
  have hi0 : (0 : Int) ≤ i := by omega
  obtain ⟨hrange, hidx⟩ := row_range_spec m.e ha.wf m.dim m.offset i hi0 hi
  simp only [SM.assignRowOf]
  generalize hjs : m.e.get_row_range_j_start (i : Int) m.dim m.offset = js at *
  generalize hje : m.e.get_row_range_j_end_plus_1 (i : Int) m.dim m.offset = je at *
  generalize his : m.e.get_row_range_index_start (i : Int) m.dim m.offset = is at *
  generalize hst : m.e.get_row_range_index_stride (i : Int) m.dim m.offset = st at *
  have hlen : (rhs.row i js (je - js).toNat).length = (je - js).toNat := by
    rw [rhs.row_spec hr]; simp
  -- key of step t is the canonical position (i, js+t)
  have hkey : ∀ t : Nat, t < (je - js).toNat →
      m.base + is + (t : Int) * st = m.base + m.e.index i (js + t) m.offset := by
    intro t ht
    have := hidx (js + t) (by omega) (by omega)
    rw [← this]; ring
  constructor
  · intro j hj0 hj hc
    have hin := (hrange j).2 ⟨hj0, hj, hc⟩
    obtain ⟨t0, rfl⟩ : ∃ t0 : Nat, j = js + t0 := ⟨(j - js).toNat, by omega⟩
    have ht0 : t0 < (je - js).toNat := by omega
    rw [← hkey t0 ht0, m.assignRow_hit _ is st d t0 (by rw [hlen]; exact ht0)]
    · simp only [rhs.row_spec hr, List.getElem_map, List.getElem_range]
    · intro t ht hne
      rw [hlen] at ht
      rw [hkey t ht, hkey t0 ht0]
      intro heq
      have hct := ((hrange (js + t)).1 ⟨by omega, by omega⟩)
      have := canonical_inj m.e ha.wf m.dim m.offset i (js + t) i (js + t0) ha.off hi0 hi hct.1 hct.2.1 hi0 hi hj0 hj
        hct.2.2 hc (by omega)
      omega
  · intro k hk
    apply m.assignRow_miss
    intro t ht
    rw [hlen] at ht
    rw [hkey t ht]
    have hct := ((hrange (js + t)).1 ⟨by omega, by omega⟩)
    exact (hk (js + t) hct.1 hct.2.1 hct.2.2).symm

/-- `M = rhs` (no aliasing): every canonical position holds the value of the right-hand side there, and no
    other raw element changes -/
theorem SM.assign_raw (m : SM) (ha : m.Adm) (rhs : RExpr) (hr : rhs.AllAdm) (d : Raw) :
    (∀ i j : Int, 0 ≤ i → i < m.dim → 0 ≤ j → j < m.dim → Canonical m.e i j →
        m.assign rhs d (m.base + m.e.index i j m.offset) = rhs.val i j) ∧
    (∀ k : Int, (∀ i j : Int, 0 ≤ i → i < m.dim → 0 ≤ j → j < m.dim → Canonical m.e i j →
        k ≠ m.base + m.e.index i j m.offset) → m.assign rhs d k = d k) := by
  -- invariant after the first r rows
  have inv : ∀ r : Nat, (r : Int) ≤ m.dim →
      (∀ i j : Int, 0 ≤ i → i < r → 0 ≤ j → j < m.dim → Canonical m.e i j →
          (List.range r).foldl (m.assignRowOf rhs) d (m.base + m.e.index i j m.offset) = rhs.val i j) ∧
      (∀ k : Int, (∀ i j : Int, 0 ≤ i → i < r → 0 ≤ j → j < m.dim → Canonical m.e i j →
          k ≠ m.base + m.e.index i j m.offset) → (List.range r).foldl (m.assignRowOf rhs) d k = d k) := by
    intro r
    induction r with
    | zero =>
      intro _
      exact ⟨fun i j h0 h1 => by omega, fun k _ => rfl⟩
    | succ r ih =>
      intro hr1
      have hrd : (r : Int) < m.dim := by push_cast at hr1; omega
      obtain ⟨ih1, ih2⟩ := ih (by omega)
      rw [List.range_succ, List.foldl_append]
      simp only [List.foldl_cons, List.foldl_nil]
      obtain ⟨row1, row2⟩ := m.assignRowOf_spec ha rhs hr ((List.range r).foldl (m.assignRowOf rhs) d) r hrd
      constructor
      · intro i j hi0 hi hj0 hj hc
        by_cases hir : i = r
        · subst hir; exact row1 j hj0 hj hc
        · have hi' : i < r := by push_cast at hi; omega
          rw [row2, ih1 i j hi0 hi' hj0 hj hc]
          intro j' hj0' hj' hc' heq
          have := canonical_inj m.e ha.wf m.dim m.offset i j r j' ha.off hi0 (by omega) hj0 hj (by omega) hrd hj0' hj'
            hc hc' (by omega)
          exact hir this.1
      · intro k hk
        rw [row2, ih2]
        · intro i j hi0 hi hj0 hj hc
          exact hk i j hi0 (by push_cast; omega) hj0 hj hc
        · intro j hj0 hj hc
          exact hk r j (by omega) (by push_cast; omega) hj0 hj hc
  have hd : ((m.dim.toNat : Nat) : Int) = m.dim := by have := ha.dim_pos; omega
  have := inv m.dim.toNat (by omega)
  rw [hd] at this
  exact this

/-- the dense view after `M = rhs`: the pattern holds the right-hand side (for a symmetric engine the values of
    the triangle its orientation designates, mirrored), everything else is zero -/
theorem SM.assign_view (m : SM) (ha : m.Adm) (rhs : RExpr) (hr : rhs.AllAdm) (d : Raw) (i j : Int)
    (hi0 : 0 ≤ i) (hi : i < m.dim) (hj0 : 0 ≤ j) (hj : j < m.dim) :
    (Canonical m.e i j → m.get (m.assign rhs d) i j = rhs.val i j) ∧
    (isSymm m.e = true → Canonical m.e j i → m.get (m.assign rhs d) i j = rhs.val j i) ∧
    (¬ InPattern m.e i j → m.get (m.assign rhs d) i j = 0) := by
  obtain ⟨h1, _⟩ := m.assign_raw ha rhs hr d
  refine ⟨fun hc => ?_, fun hs hc => ?_, fun hn => (m.get_eq _ i j).2 hn⟩
  · rw [(m.get_eq _ i j).1 (canonical_pattern _ _ _ hc)]
    exact h1 i j hi0 hi hj0 hj hc
  · rw [(m.get_eq _ i j).1 (symm_all_pattern _ hs i j), index_mirror m.e hs]
    exact h1 j i hj0 hj hi0 hi hc

/-! ### self-referential statements: right-hand sides that read the target's own storage -/

/-- raw element `k` is a stored element of the matrix (a position of its pattern inside its dimension) -/
def SM.Stores (m : SM) (k : Int) : Prop :=
  ∃ i j : Int, 0 ≤ i ∧ i < m.dim ∧ 0 ≤ j ∧ j < m.dim ∧ InPattern m.e i j ∧ k = m.base + m.e.index i j m.offset

/-- every special-matrix leaf is an admissible object -/
def AExpr.AllAdm : AExpr → Prop
  | .sm m _ => m.Adm
  | .scale a _ => a.AllAdm
  | .add a b => a.AllAdm ∧ b.AllAdm
  | .dense _ _ _ => True
  | .noalias a => a.AllAdm
  | .bin _ a b => a.AllAdm ∧ b.AllAdm
  | .binc _ a _ => a.AllAdm

/-- every special-matrix leaf has dimension `n` (otherwise `operator=` throws `size_mismatch`) -/
def AExpr.DimIs : AExpr → Int → Prop
  | .sm m _, n => m.dim = n
  | .scale a _, n => a.DimIs n
  | .add a b, n => a.DimIs n ∧ b.DimIs n
  | .dense _ _ _, _ => True
  | .noalias a, n => a.DimIs n
  | .bin _ a b, n => a.DimIs n ∧ b.DimIs n
  | .binc _ a _, n => a.DimIs n

/-- the expression contains no `noalias(...)` wrapper (a right-hand side as the user writes it; the compound
    operators add the one wrapper around `*this` themselves) -/
def AExpr.Plain : AExpr → Prop
  | .sm _ _ => True
  | .scale a _ => a.Plain
  | .add a b => a.Plain ∧ b.Plain
  | .dense _ _ _ => True
  | .noalias _ => False
  | .bin _ a b => a.Plain ∧ b.Plain
  | .binc _ a _ => a.Plain

/-- raw element `k` is a stored element of some special-matrix leaf -/
def AExpr.Stores : AExpr → Int → Prop
  | .sm m _, k => m.Stores k
  | .scale a _, k => a.Stores k
  | .add a b, k => a.Stores k ∨ b.Stores k
  | .dense _ _ _, _ => False
  | .noalias a, k => a.Stores k
  | .bin _ a b, k => a.Stores k ∨ b.Stores k
  | .binc _ a _, k => a.Stores k

/-- raw element `k` lies in the `data_range` of some leaf -/
def AExpr.InRange : AExpr → Int → Prop
  | .sm m _, k => m.dataBegin ≤ k ∧ k ≤ m.dataEnd
  | .scale a _, k => a.InRange k
  | .add a b, k => a.InRange k ∨ b.InRange k
  | .dense _ _ _, _ => False
  | .noalias a, k => a.InRange k
  | .bin _ a b, k => a.InRange k ∨ b.InRange k
  | .binc _ a _, k => a.InRange k

/-- raw element `k` is read when the expression is evaluated at (i,j) -/
def AExpr.Reads : AExpr → Int → Int → Int → Prop
  | .sm m _, i, j, k => InPattern m.e i j ∧ k = m.base + m.e.index i j m.offset
  | .scale a _, i, j, k => a.Reads i j k
  | .add a b, i, j, k => a.Reads i j k ∨ b.Reads i j k
  | .dense _ _ _, _, _, _ => False
  | .noalias a, i, j, k => a.Reads i j k
  | .bin _ a b, i, j, k => a.Reads i j k ∨ b.Reads i j k
  | .binc _ a _, i, j, k => a.Reads i j k

/-- `data_range` spans every stored element -/
theorem SM.stores_in_range (m : SM) (ha : m.Adm) (k : Int) (h : m.Stores k) : m.dataBegin ≤ k ∧ k ≤ m.dataEnd := by
  obtain ⟨i, j, hi0, hi, hj0, hj, hp, rfl⟩ := h
  have := index_in_range m.e ha.wf m.dim m.offset i j ha.dim_pos ha.off hi0 hi hj0 hj hp
  simp only [SM.dataBegin, SM.dataEnd]
  omega

theorem AExpr.stores_in_range (r : AExpr) (hr : r.AllAdm) (k : Int) (h : r.Stores k) : r.InRange k := by
  induction r with
  | sm m l => exact m.stores_in_range hr k h
  | scale a c ih => exact ih hr h
  | add a b iha ihb =>
    rcases h with h | h
    · exact Or.inl (iha hr.1 h)
    · exact Or.inr (ihb hr.2 h)
  | dense f i j => exact h
  | noalias a ih => exact ih hr h
  | bin o a b iha ihb =>
    rcases h with h | h
    · exact Or.inl (iha hr.1 h)
    · exact Or.inr (ihb hr.2 h)
  | binc o a c ih => exact ih hr h

/-- if `is_aliased(mem1, mem2)` answers false, no leaf's `data_range` meets `[mem1, mem2]` (for an expression
    without `noalias` wrappers) -/
theorem AExpr.not_aliased_range (r : AExpr) (hp : r.Plain) (mem1 mem2 : Int) (h : r.isAliased mem1 mem2 = false) (k : Int)
    (hk : r.InRange k) : ¬ (mem1 ≤ k ∧ k ≤ mem2) := by
  induction r with
  | sm m l =>
    simp only [AExpr.isAliased, SM.isAliased, decide_eq_false_iff_not] at h
    simp only [AExpr.InRange] at hk
    omega
  | scale a c ih => exact ih hp h hk
  | add a b iha ihb =>
    simp only [AExpr.isAliased, Bool.or_eq_false_iff] at h
    rcases hk with hk | hk
    · exact iha hp.1 h.1 hk
    · exact ihb hp.2 h.2 hk
  | dense f i j => exact fun _ => hk
  | noalias a ih => exact absurd hp (by simp [AExpr.Plain])
  | bin o a b iha ihb =>
    simp only [AExpr.isAliased, Bool.or_eq_false_iff] at h
    rcases hk with hk | hk
    · exact iha hp.1 h.1 hk
    · exact ihb hp.2 h.2 hk
  | binc o a c ih => exact ih hp h hk

theorem AExpr.bind_allAdm (r : AExpr) (hr : r.AllAdm) (d : Raw) : (r.bind d).AllAdm := by
  induction r with
  | sm m l => exact hr
  | scale a c ih => exact ih hr
  | add a b iha ihb => exact ⟨iha hr.1, ihb hr.2⟩
  | dense f i j => trivial
  | noalias a ih => exact ih hr
  | bin o a b iha ihb => exact ⟨iha hr.1, ihb hr.2⟩
  | binc o a c ih => exact ih hr

/-- `next_value` after `set_location(i,j)` leaves the cursors where `set_location(i,j+1)` puts them -/
theorem AExpr.advance_setLocation (r : AExpr) (hr : r.AllAdm) (i j : Int) :
    (r.setLocation i j).advance = r.setLocation i (j + 1) := by
  induction r with
  | sm m l => simp only [AExpr.setLocation, AExpr.advance, m.advance_setLocation hr]
  | scale a c ih => simp only [AExpr.setLocation, AExpr.advance, ih hr]
  | add a b iha ihb => simp only [AExpr.setLocation, AExpr.advance, iha hr.1, ihb hr.2]
  | dense f i' j' => rfl
  | noalias a ih => simp only [AExpr.setLocation, AExpr.advance, ih hr]
  | bin o a b iha ihb => simp only [AExpr.setLocation, AExpr.advance, iha hr.1, ihb hr.2]
  | binc o a c ih => simp only [AExpr.setLocation, AExpr.advance, ih hr]

/-- the value delivered at cursor (i,j) is the value of the expression over the storage as it is at that moment -/
theorem AExpr.value_setLocation (r : AExpr) (hr : r.AllAdm) (d : Raw) (i j : Int) :
    (r.setLocation i j).value d = (r.bind d).val i j := by
  induction r with
  | sm m l => simp only [AExpr.setLocation, AExpr.value, AExpr.bind, RExpr.val, m.valueAt_setLocation hr]
  | scale a c ih => simp only [AExpr.setLocation, AExpr.value, AExpr.bind, RExpr.val, ih hr]
  | add a b iha ihb => simp only [AExpr.setLocation, AExpr.value, AExpr.bind, RExpr.val, iha hr.1, ihb hr.2]
  | dense f i' j' => rfl
  | noalias a ih => simp only [AExpr.setLocation, AExpr.value, AExpr.bind, ih hr]
  | bin o a b iha ihb => simp only [AExpr.setLocation, AExpr.value, AExpr.bind, RExpr.val, iha hr.1, ihb hr.2]
  | binc o a c ih => simp only [AExpr.setLocation, AExpr.value, AExpr.bind, RExpr.val, ih hr]

/-- the value at (i,j) depends only on the raw elements read there -/
theorem AExpr.val_congr (r : AExpr) (d d' : Raw) (i j : Int) (h : ∀ k, r.Reads i j k → d k = d' k) :
    (r.bind d).val i j = (r.bind d').val i j := by
  induction r with
  | sm m l =>
    simp only [AExpr.bind, RExpr.val]
    by_cases hp : InPattern m.e i j
    · rw [(m.get_eq d i j).1 hp, (m.get_eq d' i j).1 hp]
      exact h _ ⟨hp, rfl⟩
    · rw [(m.get_eq d i j).2 hp, (m.get_eq d' i j).2 hp]
  | scale a c ih =>
    simp only [AExpr.bind, RExpr.val]
    rw [ih h]
  | add a b iha ihb =>
    simp only [AExpr.bind, RExpr.val]
    rw [iha (fun k hk => h k (Or.inl hk)), ihb (fun k hk => h k (Or.inr hk))]
  | dense f i' j' => rfl
  | noalias a ih => exact ih h
  | bin o a b iha ihb =>
    simp only [AExpr.bind, RExpr.val]
    rw [iha (fun k hk => h k (Or.inl hk)), ihb (fun k hk => h k (Or.inr hk))]
  | binc o a c ih =>
    simp only [AExpr.bind, RExpr.val]
    rw [ih h]

/-- what is read at a position inside the dimension lies in some leaf's `data_range` -/
theorem AExpr.reads_in_range (r : AExpr) (hr : r.AllAdm) (n : Int) (hn : r.DimIs n) (i j k : Int)
    (hi0 : 0 ≤ i) (hi : i < n) (hj0 : 0 ≤ j) (hj : j < n) (h : r.Reads i j k) : r.InRange k := by
  induction r with
  | sm m l =>
    simp only [AExpr.DimIs] at hn
    subst hn
    exact m.stores_in_range hr k ⟨i, j, hi0, hi, hj0, hj, h.1, h.2⟩
  | scale a c ih => exact ih hr hn h
  | add a b iha ihb =>
    rcases h with h | h
    · exact Or.inl (iha hr.1 hn.1 h)
    · exact Or.inr (ihb hr.2 hn.2 h)
  | dense f i' j' => exact h
  | noalias a ih => exact ih hr hn h
  | bin o a b iha ihb =>
    rcases h with h | h
    · exact Or.inl (iha hr.1 hn.1 h)
    · exact Or.inr (ihb hr.2 hn.2 h)
  | binc o a c ih => exact ih hr hn h

/-- the in-place inner loop: as long as the storage still agrees with the ORIGINAL storage `d0` on everything the
    remaining steps read, and no store of this loop hits a raw element that a LATER step reads, it stores the values
    the right-hand side has over `d0` -/
theorem SM.assignRowIP_eq (m : SM) (rhs : AExpr) (hr : rhs.AllAdm) (d0 : Raw) (i : Int) (stride : Int) :
    ∀ (n : Nat) (j idx : Int) (d : Raw),
      (∀ t : Nat, t < n → ∀ k, rhs.Reads i (j + (t : Int)) k → d k = d0 k) →
      (∀ t t' : Nat, t < t' → t' < n → ¬ rhs.Reads i (j + (t' : Int)) (m.base + idx + (t : Int) * stride)) →
      m.assignRowIP n (rhs.setLocation i j) idx stride d
        = m.assignRow ((List.range n).map (fun (t : Nat) => (rhs.bind d0).val i (j + (t : Int)))) idx stride d := by
  intro n
  induction n with
  | zero => intro j idx d _ _; rfl
  | succ n ih =>
    intro j idx d hag hmiss
    have hv : (rhs.setLocation i j).value d = (rhs.bind d0).val i j := by
      rw [rhs.value_setLocation hr]
      apply rhs.val_congr d d0 i j
      intro k hk
      apply hag 0 (by omega) k
      simpa using hk
    rw [SM.assignRowIP, rhs.advance_setLocation hr, hv, List.range_succ_eq_map]
    simp only [List.map_cons, List.map_map, Nat.cast_zero, add_zero, SM.assignRow]
    have ecast : ∀ t : Nat, j + 1 + (t : Int) = j + ((t + 1 : Nat) : Int) := by intro t; push_cast; ring
    rw [ih (j + 1) (idx + stride)]
    · congr 1
      apply List.map_congr_left
      intro t _
      simp only [Function.comp, Nat.cast_succ]
      congr 1; ring
    · intro t ht k hk
      rw [ecast] at hk
      rw [Raw.set_apply, if_neg]
      · exact hag (t + 1) (by omega) k hk
      · intro heq
        apply hmiss 0 (t + 1) (by omega) (by omega)
        subst heq
        simpa using hk
    · intro t t' htt ht' hin
      rw [ecast] at hin
      apply hmiss (t + 1) (t' + 1) (by omega) (by omega)
      have e : m.base + idx + ((t + 1 : Nat) : Int) * stride = m.base + (idx + stride) + (t : Int) * stride := by
        push_cast; ring
      rw [e]; exact hin

/-- the stores of a statement never hit what a DIFFERENT position of the traversal reads -/
def SM.SafeFor (m : SM) (rhs : AExpr) : Prop :=
  ∀ i j i' j' : Int, 0 ≤ i → i < m.dim → 0 ≤ j → j < m.dim → Canonical m.e i j →
    0 ≤ i' → i' < m.dim → 0 ≤ j' → j' < m.dim → Canonical m.e i' j' → ¬ (i = i' ∧ j = j') →
    ¬ rhs.Reads i' j' (m.base + m.e.index i j m.offset)

/-- one row of the in-place assignment equals the same row of the assignment from a snapshot -/
theorem SM.assignRowOfIP_eq (m : SM) (ha : m.Adm) (rhs : AExpr) (hr : rhs.AllAdm) (d0 d : Raw)
    (hsafe : m.SafeFor rhs) (i : Nat) (hi : (i : Int) < m.dim)
    (hag : ∀ j : Int, 0 ≤ j → j < m.dim → Canonical m.e i j → ∀ k, rhs.Reads i j k → d k = d0 k) :
    m.assignRowOfIP rhs d i = m.assignRowOf (rhs.bind d0) d i := by
  have hi0 : (0 : Int) ≤ i := by omega
  obtain ⟨hrange, hidx⟩ := row_range_spec m.e ha.wf m.dim m.offset i hi0 hi
  simp only [SM.assignRowOfIP, SM.assignRowOf]
  rw [(rhs.bind d0).row_spec (rhs.bind_allAdm hr d0)]
  apply m.assignRowIP_eq rhs hr d0 i
  · intro t ht k hk
    have hc := (hrange (m.e.get_row_range_j_start i m.dim m.offset + t)).1 ⟨by omega, by omega⟩
    exact hag _ hc.1 hc.2.1 hc.2.2 k hk
  · intro t t' htt ht' hin
    have hc := (hrange (m.e.get_row_range_j_start i m.dim m.offset + t)).1 ⟨by omega, by omega⟩
    have hc' := (hrange (m.e.get_row_range_j_start i m.dim m.offset + t')).1 ⟨by omega, by omega⟩
    have hx := hidx (m.e.get_row_range_j_start i m.dim m.offset + t) (by omega) (by omega)
    have e : m.base + m.e.get_row_range_index_start i m.dim m.offset
        + (t : Int) * m.e.get_row_range_index_stride i m.dim m.offset
        = m.base + m.e.index i (m.e.get_row_range_j_start i m.dim m.offset + t) m.offset := by
      rw [← hx]; ring
    rw [e] at hin
    exact hsafe i _ i _ hi0 hi hc.1 hc.2.1 hc.2.2 hi0 hi hc'.1 hc'.2.1 hc'.2.2 (by omega) hin

/-- the in-place assignment equals the assignment from a snapshot of the storage taken before the statement,
    provided no store hits what a different position reads -/
theorem SM.assignInPlace_eq (m : SM) (ha : m.Adm) (rhs : AExpr) (hr : rhs.AllAdm) (d : Raw) (hsafe : m.SafeFor rhs) :
    m.assignInPlace rhs d = m.assign (rhs.bind d) d := by
  have key : ∀ (rows : List Nat), rows.Nodup → (∀ i ∈ rows, (i : Int) < m.dim) → ∀ d' : Raw,
      (∀ i ∈ rows, ∀ j : Int, 0 ≤ j → j < m.dim → Canonical m.e (i : Int) j → ∀ k, rhs.Reads i j k → d' k = d k) →
      rows.foldl (m.assignRowOfIP rhs) d' = rows.foldl (m.assignRowOf (rhs.bind d)) d' := by
    intro rows
    induction rows with
    | nil => intro _ _ d' _; rfl
    | cons i rest ih =>
      intro hnd hrows d' hag
      have hi : (i : Int) < m.dim := hrows i (by simp)
      have hnd' := List.nodup_cons.mp hnd
      simp only [List.foldl_cons]
      rw [m.assignRowOfIP_eq ha rhs hr d d' hsafe i hi (hag i (by simp))]
      apply ih hnd'.2 (fun i' hi' => hrows i' (by simp [hi']))
      intro i2 hi2 j2 hj20 hj2 hc2 k hk
      have hne : i ≠ i2 := fun h => hnd'.1 (h ▸ hi2)
      have hi2d : (i2 : Int) < m.dim := hrows i2 (by simp [hi2])
      have hmiss := (m.assignRowOf_spec ha (rhs.bind d) (rhs.bind_allAdm hr d) d' i hi).2 k (by
        intro j hj0 hj hc heq
        subst heq
        exact hsafe i j i2 j2 (by omega) hi hj0 hj hc (by omega) hi2d hj20 hj2 hc2 (by omega) hk)
      rw [hmiss]; exact hag i2 (by simp [hi2]) j2 hj20 hj2 hc2 k hk
  simp only [SM.assignInPlace, SM.assign]
  apply key
  · exact List.nodup_range
  · intro i hi
    have := List.mem_range.mp hi
    have := ha.dim_pos
    omega
  · intro i _ j _ _ _ k _; rfl

theorem SM.packed_adm (e : Engine) (he : WF e) (n : Int) (hn : 1 ≤ n) : (SM.packed e n).Adm :=
  ⟨he, hn, le_refl _⟩

/-- `operator=(const Expression&)` for ANY right-hand side (with or without `noalias` wrappers): if, whenever the
    alias test answers false, no store can hit what a different position reads, the statement is "evaluate the
    right-hand side over the old storage, then store" -/
theorem SM.assignExpr_gen (m : SM) (ha : m.Adm) (rhs : AExpr) (hr : rhs.AllAdm) (d : Raw)
    (hsafe : rhs.isAliased m.dataBegin m.dataEnd = false → m.SafeFor rhs) :
    (∀ i j : Int, 0 ≤ i → i < m.dim → 0 ≤ j → j < m.dim → Canonical m.e i j →
        m.assignExpr rhs d (m.base + m.e.index i j m.offset) = (rhs.bind d).val i j) ∧
    (∀ k : Int, (∀ i j : Int, 0 ≤ i → i < m.dim → 0 ≤ j → j < m.dim → Canonical m.e i j →
        k ≠ m.base + m.e.index i j m.offset) → m.assignExpr rhs d k = d k) := by
  by_cases hal : rhs.isAliased m.dataBegin m.dataEnd = true
  · -- temporary copy in fresh packed storage, then assignment from the copy
    simp only [SM.assignExpr, if_pos hal]
    have hc : (SM.packed m.e m.dim).Adm := SM.packed_adm m.e ha.wf m.dim ha.dim_pos
    obtain ⟨c1, _⟩ := (SM.packed m.e m.dim).assign_raw hc (rhs.bind d) (rhs.bind_allAdm hr d) ⟨fun _ => 0⟩
    obtain ⟨a1, a2⟩ := m.assign_raw ha
      (.sm (SM.packed m.e m.dim) ((SM.packed m.e m.dim).assign (rhs.bind d) ⟨fun _ => 0⟩)) hc d
    refine ⟨fun i j hi0 hi hj0 hj hcan => ?_, a2⟩
    rw [a1 i j hi0 hi hj0 hj hcan]
    simp only [RExpr.val]
    rw [((SM.packed m.e m.dim).get_eq _ i j).1 (canonical_pattern _ _ _ hcan)]
    exact c1 i j hi0 hi hj0 hj hcan
  · have hal' : rhs.isAliased m.dataBegin m.dataEnd = false := by simpa using hal
    simp only [SM.assignExpr, hal', Bool.false_eq_true, if_false]
    rw [m.assignInPlace_eq ha rhs hr d (hsafe hal')]
    exact m.assign_raw ha (rhs.bind d) (rhs.bind_allAdm hr d) d

/-- a right-hand side without `noalias` wrappers that the alias test clears reads nothing the statement stores -/
theorem SM.safeFor_of_not_aliased (m : SM) (ha : m.Adm) (rhs : AExpr) (hr : rhs.AllAdm) (hp : rhs.Plain)
    (hN : rhs.DimIs m.dim) (hal : rhs.isAliased m.dataBegin m.dataEnd = false) : m.SafeFor rhs := by
  intro i j i' j' hi0 hi hj0 hj hc hi0' hi' hj0' hj' _ _ hread
  have hin := rhs.reads_in_range hr m.dim hN i' j' _ hi0' hi' hj0' hj' hread
  exact rhs.not_aliased_range hp _ _ hal _ hin
    (m.stores_in_range ha _ ⟨i, j, hi0, hi, hj0, hj, canonical_pattern _ _ _ hc, rfl⟩)

/-- `M = rhs` with a right-hand side that may read M's own storage: every position `get_row_range` enumerates
    receives the value the right-hand side had there BEFORE the statement, and no other raw element changes -/
theorem SM.assignExpr_spec (m : SM) (ha : m.Adm) (rhs : AExpr) (hr : rhs.AllAdm) (hp : rhs.Plain)
    (hN : rhs.DimIs m.dim) (d : Raw) :
    (∀ i j : Int, 0 ≤ i → i < m.dim → 0 ≤ j → j < m.dim → Canonical m.e i j →
        m.assignExpr rhs d (m.base + m.e.index i j m.offset) = (rhs.bind d).val i j) ∧
    (∀ k : Int, (∀ i j : Int, 0 ≤ i → i < m.dim → 0 ≤ j → j < m.dim → Canonical m.e i j →
        k ≠ m.base + m.e.index i j m.offset) → m.assignExpr rhs d k = d k) :=
  m.assignExpr_gen ha rhs hr d (m.safeFor_of_not_aliased ha rhs hr hp hN)

/-- `noalias(*this)`: the wrapped target is read at (i,j) only in the raw element that is stored at (i,j) -/
theorem SM.safeFor_self (m : SM) (ha : m.Adm) : m.SafeFor (.noalias (.leaf m)) := by
  intro i j i' j' hi0 hi hj0 hj hc hi0' hi' hj0' hj' hc' hne hread
  simp only [AExpr.leaf, AExpr.Reads] at hread
  have := canonical_inj m.e ha.wf m.dim m.offset i j i' j' ha.off hi0 hi hj0 hj hi0' hi' hj0' hj' hc hc' (by omega)
  exact hne this

/-- `noalias(*this) OP rest` is safe as soon as `rest` is -/
theorem SM.safeFor_self_bin (m : SM) (ha : m.Adm) (rest : AExpr) (h : m.SafeFor rest) (o : BinOp) :
    m.SafeFor (.bin o (.noalias (.leaf m)) rest) := by
  intro i j i' j' hi0 hi hj0 hj hc hi0' hi' hj0' hj' hc' hne hread
  rcases hread with hread | hread
  · exact m.safeFor_self ha i j i' j' hi0 hi hj0 hj hc hi0' hi' hj0' hj' hc' hne hread
  · exact h i j i' j' hi0 hi hj0 hj hc hi0' hi' hj0' hj' hc' hne hread

/-- the compound operators `M OP= rhs` (`*this = noalias(*this) OP rhs`), `rhs` any expression without `noalias`
    wrappers whose leaves may lie anywhere in M's own Storage object: every position `get_row_range` enumerates holds
    `old M(i,j) OP rhs(i,j)` with `rhs` evaluated over the storage BEFORE the statement; no other raw element changes -/
theorem SM.compound_spec (m : SM) (ha : m.Adm) (o : BinOp) (rhs : AExpr) (hr : rhs.AllAdm) (hp : rhs.Plain)
    (hN : rhs.DimIs m.dim) (d : Raw) :
    (∀ i j : Int, 0 ≤ i → i < m.dim → 0 ≤ j → j < m.dim → Canonical m.e i j →
        m.compound o rhs d (m.base + m.e.index i j m.offset)
          = o.apply (d (m.base + m.e.index i j m.offset)) ((rhs.bind d).val i j)) ∧
    (∀ k : Int, (∀ i j : Int, 0 ≤ i → i < m.dim → 0 ≤ j → j < m.dim → Canonical m.e i j →
        k ≠ m.base + m.e.index i j m.offset) → m.compound o rhs d k = d k) := by
  have hall : (AExpr.bin o (.noalias (.leaf m)) rhs).AllAdm := ⟨ha, hr⟩
  obtain ⟨g1, g2⟩ := m.assignExpr_gen ha (.bin o (.noalias (.leaf m)) rhs) hall d (by
    intro hal
    simp only [AExpr.isAliased, Bool.false_or] at hal
    exact m.safeFor_self_bin ha rhs (m.safeFor_of_not_aliased ha rhs hr hp hN hal) o)
  refine ⟨fun i j hi0 hi hj0 hj hc => ?_, g2⟩
  rw [SM.compound, g1 i j hi0 hi hj0 hj hc]
  simp only [AExpr.bind, AExpr.leaf, RExpr.val]
  rw [(m.get_eq d i j).1 (canonical_pattern _ _ _ hc)]

/-- the compound operators with a scalar on the right, `M OP= c` -/
theorem SM.compoundScalar_spec (m : SM) (ha : m.Adm) (o : BinOp) (c : Int) (d : Raw) :
    (∀ i j : Int, 0 ≤ i → i < m.dim → 0 ≤ j → j < m.dim → Canonical m.e i j →
        m.compoundScalar o c d (m.base + m.e.index i j m.offset) = o.apply (d (m.base + m.e.index i j m.offset)) c) ∧
    (∀ k : Int, (∀ i j : Int, 0 ≤ i → i < m.dim → 0 ≤ j → j < m.dim → Canonical m.e i j →
        k ≠ m.base + m.e.index i j m.offset) → m.compoundScalar o c d k = d k) := by
  have hall : (AExpr.binc o (.noalias (.leaf m)) c).AllAdm := ha
  obtain ⟨g1, g2⟩ := m.assignExpr_gen ha (.binc o (.noalias (.leaf m)) c) hall d (by
    intro _ i j i' j' hi0 hi hj0 hj hc hi0' hi' hj0' hj' hc' hne hread
    exact m.safeFor_self ha i j i' j' hi0 hi hj0 hj hc hi0' hi' hj0' hj' hc' hne hread)
  refine ⟨fun i j hi0 hi hj0 hj hc => ?_, g2⟩
  rw [SM.compoundScalar, g1 i j hi0 hi hj0 hj hc]
  simp only [AExpr.bind, AExpr.leaf, RExpr.val]
  rw [(m.get_eq d i j).1 (canonical_pattern _ _ _ hc)]

end Adept.Special
