import AdeptProofs.Lemmas.Tape
/-!
Law-free lemmas for C02 / C13: the ORDER of the arithmetic operations is part of the statement.

Nothing in this file assumes an algebraic law.  The carrier `R` has the four operations `+ * 0 1` the model runs on
(`AdeptModel/Tape.lean`) and, for the reverse routines, the zero test `nz : R → Bool` (the C++ comparison `a != 0.0`),
about which nothing is assumed either.  Two results computed by the model are *equal* here only if they are the same
expression tree of operations, i.e. bit for bit the same on IEEE doubles.

The combinatorial part (which cells a block writes, that the blocks tile the matrix, that the layout is injective) is the
one of `Lemmas/Tape.lean`, whose lemmas about `Nat` are reused; the lemmas that mention the carrier are restated here
without `[CommRing R]`.
-/
set_option linter.unusedSectionVars false
set_option linter.unusedSimpArgs false
set_option linter.unusedVariables false
namespace Adept.Tape.LF
open Adept.Tape

variable {R : Type} [Add R] [Mul R] [Zero R] [One R]

/-! ### reading and writing list cells -/

theorem rd_set_lt (g : Vec R) (i k : Nat) (v : R) (hi : i < g.length) :
    rd (g.set i v) k = if k = i then v else rd g k := by
  unfold rd
  by_cases hk : k = i
  · subst hk
    simp [List.getD_eq_getElem?_getD, hi]
  · have hk' : i ≠ k := fun h => hk h.symm
    simp [List.getD_eq_getElem?_getD, List.getElem?_set_ne hk', hk]

theorem rd_set_ne (g : Vec R) (i k : Nat) (v : R) (hk : k ≠ i) :
    rd (g.set i v) k = rd g k := by
  unfold rd
  have hk' : i ≠ k := fun h => hk h.symm
  simp [List.getD_eq_getElem?_getD, List.getElem?_set_ne hk']

theorem rd_set_self (g : Vec R) (i : Nat) (v : R) (hi : i < g.length) :
    rd (g.set i v) i = v := by
  rw [rd_set_lt g i i v hi, if_pos rfl]

theorem rd_eq_getElem (g : Vec R) (i : Nat) (hi : i < g.length) : rd g i = g[i] := by
  unfold rd
  simp [List.getD_eq_getElem?_getD, hi]

/-- writing back what is there changes nothing (inside or outside the list) -/
theorem set_rd_self (g : Vec R) (i : Nat) : g.set i (rd g i) = g := by
  unfold rd
  by_cases hi : i < g.length
  · apply List.ext_getElem (by simp)
    intro k h1 h2
    by_cases hk : i = k
    · subst hk; simp [List.getD_eq_getElem?_getD, hi]
    · simp [List.getElem_set_ne hk]
  · exact List.set_eq_of_length_le (by omega)

/-! ### the seed vectors and the entry a unit-seeded tangent-linear pass computes -/

/-- unit vector of length `N` (seed of one lane) -/
def unit (N x : Nat) : Vec R := (List.replicate N (0 : R)).set x 1

/-- `∂(slot y)/∂(slot x)` as `Stack::compute_tangent_linear` computes it from the seed `e_x`: the expression tree, not its
    value in a ring -/
def entryFwd (t : List (Stmt R)) (N x y : Nat) : R := rd (fwd t (unit N x)) y

/-- the same entry as `Stack::compute_adjoint` computes it from the seed `e_y` -/
def entryRev (nz : R → Bool) (t : List (Stmt R)) (N x y : Nat) : R := rd (revZ nz t (unit N y)) x

/-- what a Jacobian routine leaves in the caller's buffer, for an arbitrary table `E i j` of entries: entry (i,j) in cell
    `i*depOff + j*indepOff`, every other cell untouched -/
def JacSpecE (E : Nat → Nat → R) (m n depOff indepOff : Nat) (out out' : Out R) : Prop :=
  out'.length = out.length ∧
  (∀ i j, i < m → j < n → rd out' (i * depOff + j * indepOff) = E i j) ∧
  (∀ c, (∀ i j, i < m → j < n → c ≠ i * depOff + j * indepOff) → rd out' c = rd out c)

theorem JacSpecE.unique {E : Nat → Nat → R} {m n dO iO : Nat} {out o1 o2 : Out R}
    (h1 : JacSpecE E m n dO iO out o1) (h2 : JacSpecE E m n dO iO out o2) : o1 = o2 := by
  obtain ⟨l1, v1, u1⟩ := h1
  obtain ⟨l2, v2, u2⟩ := h2
  apply List.ext_getElem (l1.trans l2.symm)
  intro c hc1 hc2
  rw [← rd_eq_getElem o1 c hc1, ← rd_eq_getElem o2 c hc2]
  by_cases h : ∃ i j, i < m ∧ j < n ∧ c = i * dO + j * iO
  · obtain ⟨i, j, hi, hj, rfl⟩ := h
    rw [v1 i j hi hj, v2 i j hi hj]
  · have h' : ∀ i j, i < m → j < n → c ≠ i * dO + j * iO := fun i j hi hj e => h ⟨i, j, hi, hj, e⟩
    rw [u1 c h', u2 c h']

/-! ### writing a set of cells (as in `Lemmas/Tape.lean`, no ring) -/

/-- `o'` is `o` with `E a b` written to `cell a b` for every `(a, b)` in `P`, nothing else changed -/
def Writes (cell : Nat → Nat → Nat) (E : Nat → Nat → R) (P : Nat → Nat → Prop) (o o' : Out R) : Prop :=
  o'.length = o.length ∧
  (∀ a b, P a b → rd o' (cell a b) = E a b) ∧
  (∀ c, (∀ a b, P a b → c ≠ cell a b) → rd o' c = rd o c)

section Writes
variable {cell : Nat → Nat → Nat} {E : Nat → Nat → R} {p q len : Nat}

theorem Writes.empty (cell : Nat → Nat → Nat) (E : Nat → Nat → R) (o : Out R) :
    Writes cell E (fun _ _ => False) o o :=
  ⟨rfl, fun _ _ h => h.elim, fun _ _ => rfl⟩

theorem Writes.congr {P Q : Nat → Nat → Prop} {o o' : Out R} (h : ∀ a b, P a b ↔ Q a b)
    (w : Writes cell E P o o') : Writes cell E Q o o' := by
  have : P = Q := by funext a b; exact propext (h a b)
  subst this; exact w

theorem Writes.single (hc : CellOK cell p q len) {o : Out R} (ho : o.length = len)
    {a b : Nat} (ha : a < p) (hb : b < q) {v : R} (hv : v = E a b) :
    Writes cell E (fun a' b' => a' = a ∧ b' = b) o (o.set (cell a b) v) := by
  refine ⟨by simp, ?_, ?_⟩
  · rintro a' b' ⟨rfl, rfl⟩
    rw [rd_set_self _ _ _ (by rw [ho]; exact hc.lt _ _ ha hb), hv]
  · intro c hcne
    exact rd_set_ne _ _ _ _ (hcne a b ⟨rfl, rfl⟩)

theorem Writes.trans (hc : CellOK cell p q len) {P Q : Nat → Nat → Prop} {o o' o'' : Out R}
    (hP : ∀ a b, P a b → a < p ∧ b < q) (hQ : ∀ a b, Q a b → a < p ∧ b < q)
    (w1 : Writes cell E P o o') (w2 : Writes cell E Q o' o'') :
    Writes cell E (fun a b => P a b ∨ Q a b) o o'' := by
  obtain ⟨l1, v1, u1⟩ := w1
  obtain ⟨l2, v2, u2⟩ := w2
  refine ⟨l2.trans l1, ?_, ?_⟩
  · intro a b hab
    by_cases hq : Q a b
    · exact v2 a b hq
    · have hp : P a b := hab.resolve_right hq
      rw [u2 _ (fun a' b' hq' e => ?_), v1 a b hp]
      obtain ⟨rfl, rfl⟩ := hc.inj a b a' b' (hP a b hp).1 (hP a b hp).2 (hQ a' b' hq').1
        (hQ a' b' hq').2 e
      exact hq hq'
  · intro c hcne
    rw [u2 c (fun a b hq => hcne a b (Or.inr hq)), u1 c (fun a b hp => hcne a b (Or.inl hp))]

theorem Writes.foldl {ι : Type} (hc : CellOK cell p q len)
    (Pk : ι → Nat → Nat → Prop) (f : Out R → ι → Out R) (l : List ι)
    (hD : ∀ k ∈ l, ∀ a b, Pk k a b → a < p ∧ b < q)
    (hstep : ∀ k ∈ l, ∀ o : Out R, o.length = len → Writes cell E (Pk k) o (f o k))
    (o : Out R) (ho : o.length = len) :
    Writes cell E (fun a b => ∃ k ∈ l, Pk k a b) o (l.foldl f o) := by
  induction l generalizing o with
  | nil => exact (Writes.empty cell E o).congr (by simp)
  | cons k l ih =>
    have w1 := hstep k (List.mem_cons_self ..) o ho
    have w2 := ih (fun k' hk' => hD k' (List.mem_cons_of_mem _ hk'))
      (fun k' hk' => hstep k' (List.mem_cons_of_mem _ hk')) (f o k) (by rw [w1.1, ho])
    have w := Writes.trans hc (hD k (List.mem_cons_self ..))
      (by rintro a b ⟨k', hk', h⟩; exact hD k' (List.mem_cons_of_mem _ hk') a b h) w1 w2
    rw [List.foldl_cons]
    exact w.congr (fun a b => by simp)

/-- the two nested copy-out loops of one block, over an arbitrary addressing and value table -/
def copyOutG (cell : Nat → Nat → Nat) (val : Nat → Nat → R) (p first size : Nat) (out : Out R) : Out R :=
  (List.range p).foldl (fun out a =>
    (List.range size).foldl (fun out i => out.set (cell a (first + i)) (val a i)) out) out

theorem copyOutG_writes (hc : CellOK cell p q len) (val : Nat → Nat → R) (first size : Nat)
    (hfs : first + size ≤ q) (hval : ∀ a i, a < p → i < size → val a i = E a (first + i))
    (o : Out R) (ho : o.length = len) :
    Writes cell E (fun a b => a < p ∧ first ≤ b ∧ b < first + size) o
      (copyOutG cell val p first size o) := by
  unfold copyOutG
  have inner : ∀ a ∈ List.range p, ∀ o : Out R, o.length = len →
      Writes cell E (fun a' b' => a' = a ∧ first ≤ b' ∧ b' < first + size) o
        ((List.range size).foldl (fun out i => out.set (cell a (first + i)) (val a i)) o) := by
    intro a ha o ho
    have ha' : a < p := List.mem_range.mp ha
    have w := Writes.foldl hc (fun i a' b' => a' = a ∧ b' = first + i)
      (fun out i => out.set (cell a (first + i)) (val a i)) (List.range size)
      (by
        rintro i hi a' b' ⟨rfl, rfl⟩
        have := List.mem_range.mp hi
        exact ⟨ha', by omega⟩)
      (by
        intro i hi o ho
        have hi' := List.mem_range.mp hi
        exact Writes.single hc ho ha' (by omega) (hval a i ha' hi'))
      o ho
    refine w.congr (fun a' b' => ?_)
    constructor
    · rintro ⟨i, hi, rfl, rfl⟩
      have := List.mem_range.mp hi
      exact ⟨rfl, by omega, by omega⟩
    · rintro ⟨rfl, h1, h2⟩
      exact ⟨b' - first, List.mem_range.mpr (by omega), rfl, by omega⟩
  have w := Writes.foldl hc (fun a a' b' => a' = a ∧ first ≤ b' ∧ b' < first + size) _
    (List.range p)
    (by
      rintro a ha a' b' ⟨rfl, h1, h2⟩
      exact ⟨List.mem_range.mp ha, by omega⟩)
    inner o ho
  refine w.congr (fun a' b' => ?_)
  constructor
  · rintro ⟨a, ha, rfl, h⟩
    exact ⟨List.mem_range.mp ha, h⟩
  · rintro ⟨ha, h⟩
    exact ⟨a', List.mem_range.mpr ha, rfl, h⟩

/-- Blocks executed in ANY order that runs each of them once: if block `ib` (whatever function `f · ib` is) writes the
    entries `E a b` of its own columns `W*ib ≤ b < W*ib + size(ib)` and nothing else, the fold over the schedule writes
    the whole table and nothing else. -/
theorem sched_writes (hc : CellOK cell p q len) (W : Nat) (hW : 0 < W) (f : Out R → Nat → Out R)
    (hblk : ∀ ib, ib < nBlocks W q → ∀ o : Out R, o.length = len →
      Writes cell E (fun a b => a < p ∧ W * ib ≤ b ∧ b < W * ib + ompBlockSize W q (nBlocks W q) ib) o (f o ib))
    (sched : List Nat) (hs : sched.Perm (List.range (nBlocks W q)))
    (o : Out R) (ho : o.length = len) :
    Writes cell E (fun a b => a < p ∧ b < q) o (sched.foldl f o) := by
  obtain ⟨hcov, hin⟩ := omp_blocks_cover W q hW
  have hmem : ∀ ib, ib ∈ sched ↔ ib < nBlocks W q := fun ib => by
    rw [hs.mem_iff, List.mem_range]
  have w := Writes.foldl hc
    (fun ib a b => a < p ∧ W * ib ≤ b ∧ b < W * ib + ompBlockSize W q (nBlocks W q) ib) f sched
    (by
      rintro ib hib a b ⟨ha, h1, h2⟩
      have := hin ib ((hmem ib).mp hib)
      exact ⟨ha, by omega⟩)
    (fun ib hib o ho => hblk ib ((hmem ib).mp hib) o ho)
    o ho
  refine w.congr (fun a b => ?_)
  constructor
  · rintro ⟨ib, hib, ha, h1, h2⟩
    have := hin ib ((hmem ib).mp hib)
    exact ⟨ha, by omega⟩
  · rintro ⟨ha, hb⟩
    obtain ⟨ib, hib, h1, h2⟩ := hcov b hb
    exact ⟨ib, (hmem ib).mpr hib, ha, h1, h2⟩

/-- two executions of the blocks, each in its own order and with its own block function, that write the same table give
    the same buffer -/
theorem sched_unique (hc : CellOK cell p q len) (W : Nat) (hW : 0 < W) (f₁ f₂ : Out R → Nat → Out R)
    (h₁ : ∀ ib, ib < nBlocks W q → ∀ o : Out R, o.length = len →
      Writes cell E (fun a b => a < p ∧ W * ib ≤ b ∧ b < W * ib + ompBlockSize W q (nBlocks W q) ib) o (f₁ o ib))
    (h₂ : ∀ ib, ib < nBlocks W q → ∀ o : Out R, o.length = len →
      Writes cell E (fun a b => a < p ∧ W * ib ≤ b ∧ b < W * ib + ompBlockSize W q (nBlocks W q) ib) o (f₂ o ib))
    (s₁ s₂ : List Nat) (hs₁ : s₁.Perm (List.range (nBlocks W q))) (hs₂ : s₂.Perm (List.range (nBlocks W q)))
    (o : Out R) (ho : o.length = len) :
    s₁.foldl f₁ o = s₂.foldl f₂ o := by
  obtain ⟨l1, v1, u1⟩ := sched_writes hc W hW f₁ h₁ s₁ hs₁ o ho
  obtain ⟨l2, v2, u2⟩ := sched_writes hc W hW f₂ h₂ s₂ hs₂ o ho
  apply List.ext_getElem (l1.trans l2.symm)
  intro c hc1 hc2
  rw [← rd_eq_getElem _ c hc1, ← rd_eq_getElem _ c hc2]
  by_cases h : ∃ a b, (a < p ∧ b < q) ∧ c = cell a b
  · obtain ⟨a, b, hab, rfl⟩ := h
    rw [v1 a b hab, v2 a b hab]
  · have h' : ∀ a b, a < p ∧ b < q → c ≠ cell a b := fun a b hab e => h ⟨a, b, hab, e⟩
    rw [u1 c h', u2 c h']

end Writes

/-! ### the serial loops are the blocks `0, 1, …, ⌈q/W⌉-1` in order -/

theorem foldl_congr_mem {α ι : Type} (f g : α → ι → α) (l : List ι) (a : α)
    (h : ∀ k ∈ l, ∀ x, f x k = g x k) : l.foldl f a = l.foldl g a := by
  induction l generalizing a with
  | nil => rfl
  | cons k l ih =>
    rw [List.foldl_cons, List.foldl_cons, h k (List.mem_cons_self ..) a]
    exact ih _ (fun k' hk' => h k' (List.mem_cons_of_mem _ hk'))

/-- `q / W` full blocks followed by the leftover block of `q % W` lanes = the blocks `0 … nBlocks-1` with the sizes the
    OpenMP loop uses, in increasing order -/
theorem serial_as_range {α : Type} (W q : Nat) (hW : 0 < W) (blk : Nat → Nat → Nat → α → α) (o : α) :
    (if q % W > 0 then
        blk (W * (q / W)) (q % W) (q % W) ((List.range (q / W)).foldl (fun out ib => blk (W * ib) W W out) o)
      else (List.range (q / W)).foldl (fun out ib => blk (W * ib) W W out) o) =
    (List.range (nBlocks W q)).foldl (fun out ib =>
      blk (W * ib) (ompBlockSize W q (nBlocks W q) ib) (ompBlockSize W q (nBlocks W q) ib) out) o := by
  have hnb := nBlocks_eq W q hW
  have hfull : ∀ nb, (nb = q / W + 1 ∨ ¬ q % W > 0) →
      (List.range (q / W)).foldl (fun out ib => blk (W * ib) W W out) o =
      (List.range (q / W)).foldl (fun out ib =>
        blk (W * ib) (ompBlockSize W q nb ib) (ompBlockSize W q nb ib) out) o := by
    intro nb hnb'
    apply foldl_congr_mem
    intro ib hib x
    have hlt := List.mem_range.mp hib
    have : ompBlockSize W q nb ib = W := by
      unfold ompBlockSize
      rw [if_neg]
      rintro ⟨h1, h2⟩
      rcases hnb' with h | h
      · omega
      · exact h h2
    rw [this]
  split
  · rename_i hr
    rw [hnb, if_pos hr, foldl_range_succ, ← hfull (q / W + 1) (Or.inl rfl)]
    have : ompBlockSize W q (q / W + 1) (q / W) = q % W := by
      unfold ompBlockSize
      rw [if_pos ⟨rfl, hr⟩]
    rw [this]
  · rename_i hr
    rw [hnb, if_neg hr]
    exact hfull (q / W) (Or.inr hr)

/-! ### the multipass buffer of one block -/

theorem zeroBuf_length (W M : Nat) : (zeroBuf W M : Buf R).length = W := by
  simp [zeroBuf]

theorem zeroBuf_getD (W M i : Nat) (hi : i < W) :
    (zeroBuf W M : Buf R).getD i [] = List.replicate M 0 := by
  simp [zeroBuf, List.getD_eq_getElem?_getD, List.getElem?_replicate, hi]

theorem seedLane_length (b : Buf R) (lane idx : Nat) : (seedLane b lane idx).length = b.length := by
  simp [seedLane]

theorem seedBlock_succ (b : Buf R) (vars : List Nat) (first size : Nat) :
    seedBlock b vars first (size + 1) =
      seedLane (seedBlock b vars first size) size (vars.getD (first + size) 0) := by
  unfold seedBlock
  rw [foldl_range_succ]

theorem seedBlock_spec (W M : Nat) (vars : List Nat) (first size : Nat) (hs : size ≤ W) :
    (seedBlock (zeroBuf W M) vars first size : Buf R).length = W ∧
    ∀ i, i < W → (seedBlock (zeroBuf W M) vars first size : Buf R).getD i [] =
      if i < size then unit M (vars.getD (first + i) 0) else List.replicate M 0 := by
  induction size with
  | zero =>
    refine ⟨zeroBuf_length W M, fun i hi => ?_⟩
    simp only [Nat.not_lt_zero, if_false]
    exact zeroBuf_getD W M i hi
  | succ size ih =>
    obtain ⟨hl, hg⟩ := ih (by omega)
    rw [seedBlock_succ]
    refine ⟨by rw [seedLane_length, hl], fun i hi => ?_⟩
    unfold seedLane
    rw [hg size (by omega), if_neg (Nat.lt_irrefl _)]
    by_cases his : i = size
    · subst his
      rw [getD_set_self _ _ _ _ (by omega), if_pos (by omega)]
      rfl
    · rw [getD_set_ne _ _ _ _ _ his, hg i hi]
      by_cases hlt : i < size
      · rw [if_pos hlt, if_pos (by omega)]
      · rw [if_neg hlt, if_neg (by omega)]

theorem kernelFwd_getD (t : List (Stmt R)) (nl : Nat) (b : Buf R) (i : Nat) (hi : i < nl)
    (hb : i < b.length) : (kernelFwd t nl b).getD i [] = fwd t (b.getD i []) := by
  simp [kernelFwd, List.getD_eq_getElem?_getD, List.getElem?_mapIdx, hi, hb]

/-- lane `i` of a forward block, whatever the number `nl ≥ size` of lanes the kernel runs on (`W` in the OpenMP routine,
    `n % W` in `jacobian_forward_kernel_extra`), is the tangent-linear pass of the seed `e_{x_{first+i}}` -/
theorem fwd_lane (t : List (Stmt R)) (W M : Nat) (vars : List Nat) (first size nl i : Nat)
    (hsz : size ≤ nl) (hnl : nl ≤ W) (hi : i < size) :
    (kernelFwd t nl (seedBlock (zeroBuf W M) vars first size)).getD i [] =
      fwd t (unit M (vars.getD (first + i) 0)) := by
  obtain ⟨hl, hg⟩ := seedBlock_spec (R := R) W M vars first size (by omega)
  rw [kernelFwd_getD t nl _ i (by omega) (by omega), hg i (by omega), if_pos hi]

/-- the statement-major loops of the C++ kernels (every lane does statement 1, then every lane does statement 2, …)
    compute lane by lane what `kernelFwd` says -/
theorem kernelFwdS_eq (t : List (Stmt R)) (nl : Nat) (b : Buf R) : kernelFwdS t nl b = kernelFwd t nl b := by
  unfold kernelFwdS kernelFwd
  induction t generalizing b with
  | nil =>
    simp only [List.foldl_nil]
    apply List.ext_getElem (by simp)
    intro i h1 h2
    simp [fwd]
  | cons s t ih =>
    rw [List.foldl_cons, ih]
    apply List.ext_getElem (by simp)
    intro i h1 h2
    simp only [List.getElem_mapIdx]
    split
    · rfl
    · rfl

/-! ### one forward block -/

theorem fwdBlock_writes (t : List (Stmt R)) (c : JacCfg) (indep dep : List Nat)
    (first size nl len : Nat) (hsz : size ≤ nl) (hnl : nl ≤ c.W) (hfs : first + size ≤ indep.length)
    (hc : CellOK (fun a b => a * c.depOff + b * c.indepOff) dep.length indep.length len)
    (o : Out R) (ho : o.length = len) :
    Writes (fun a b => a * c.depOff + b * c.indepOff)
      (fun a b => entryFwd t c.maxGrad (indep.getD b 0) (dep.getD a 0))
      (fun a b => a < dep.length ∧ first ≤ b ∧ b < first + size) o
      (fwdBlock t c indep dep first size nl o) := by
  refine copyOutG_writes hc
    (fun a i => rd ((kernelFwd t nl (seedBlock (zeroBuf c.W c.maxGrad) indep first size)).getD i [])
      (dep.getD a 0)) first size hfs ?_ o ho
  intro a i _ hi
  rw [fwd_lane t c.W c.maxGrad indep first size nl i hsz hnl hi]
  rfl

theorem jacSpecE_of_writes_fwd {E : Nat → Nat → R} {m n dO iO : Nat} {out out' : Out R}
    (w : Writes (fun a b => a * dO + b * iO) E (fun a b => a < m ∧ b < n) out out') :
    JacSpecE E m n dO iO out out' :=
  ⟨w.1, fun i j hi hj => w.2.1 i j ⟨hi, hj⟩, fun c h => w.2.2 c (fun a b hab => h a b hab.1 hab.2)⟩

/-- serial forward routine, any `W ≥ 1`: cell (i,j) holds the unit-seeded tangent-linear pass read at `y_i` -/
theorem jacFwdSerial_spec (t : List (Stmt R)) (c : JacCfg) (indep dep : List Nat) (out : Out R) (hW : 0 < c.W)
    (hl : LayoutOK dep.length indep.length c.depOff c.indepOff out.length) :
    JacSpecE (fun i j => entryFwd t c.maxGrad (indep.getD j 0) (dep.getD i 0)) dep.length indep.length
      c.depOff c.indepOff out (jacFwdSerial t c indep dep out) := by
  apply jacSpecE_of_writes_fwd
  unfold jacFwdSerial
  simp only
  rw [serial_as_range c.W indep.length hW (fun first size nl o => fwdBlock t c indep dep first size nl o) out]
  have hcov := (omp_blocks_cover c.W indep.length hW).2
  exact sched_writes (cellOK_fwd hl) c.W hW _
    (fun ib hib o ho => fwdBlock_writes t c indep dep _ _ _ _ (Nat.le_refl _)
      (ompBlockSize_le _ _ _ _ hW) (hcov ib hib) (cellOK_fwd hl) o ho)
    _ (List.Perm.refl _) out rfl

/-- forward OpenMP routine, any schedule: the same table -/
theorem jacFwdOmp_spec (t : List (Stmt R)) (c : JacCfg) (indep dep : List Nat) (sched : List Nat) (out : Out R)
    (hW : 0 < c.W) (hl : LayoutOK dep.length indep.length c.depOff c.indepOff out.length)
    (hs : sched.Perm (List.range (nBlocks c.W indep.length))) :
    JacSpecE (fun i j => entryFwd t c.maxGrad (indep.getD j 0) (dep.getD i 0)) dep.length indep.length
      c.depOff c.indepOff out (jacFwdOmp t c indep dep sched out) := by
  apply jacSpecE_of_writes_fwd
  have hcov := (omp_blocks_cover c.W indep.length hW).2
  exact sched_writes (cellOK_fwd hl) c.W hW _
    (fun ib hib o ho => fwdBlock_writes t c indep dep _ _ _ _ (ompBlockSize_le _ _ _ _ hW)
      (Nat.le_refl _) (hcov ib hib) (cellOK_fwd hl) o ho)
    sched hs out rfl

/-! ### the reverse sweep with the block-wide zero flag -/

theorem revStmtB_length (nz : R → Bool) (s : Stmt R) (nl : Nat) (b : Buf R) :
    (revStmtB nz s nl b).length = b.length := by
  simp [revStmtB]

theorem kernelRevB_length (nz : R → Bool) (t : List (Stmt R)) (nl : Nat) (b : Buf R) :
    (kernelRevB nz t nl b).length = b.length := by
  unfold kernelRevB
  induction t with
  | nil => rfl
  | cons s t ih => rw [List.foldr_cons, revStmtB_length, ih]

/-- the value block `b / W` of the reverse routines leaves for entry (row `a` of the independents, column `b` of the
    dependents): it depends on the block (the other lanes decide whether `+= m*0` is executed), not on the routine -/
def revVal (nz : R → Bool) (t : List (Stmt R)) (c : JacCfg) (indep dep : List Nat) (a b : Nat) : R :=
  let nb := nBlocks c.W dep.length
  let sz := ompBlockSize c.W dep.length nb (b / c.W)
  rd ((kernelRevB nz t sz (seedBlock (zeroBuf c.W c.maxGrad) dep (c.W * (b / c.W)) sz)).getD (b % c.W) [])
    (indep.getD a 0)

theorem revBlockB_writes (nz : R → Bool) (t : List (Stmt R)) (c : JacCfg) (indep dep : List Nat)
    (ib len : Nat) (hW : 0 < c.W) (hib : ib < nBlocks c.W dep.length)
    (hc : CellOK (fun a b => a * c.indepOff + b * c.depOff) indep.length dep.length len)
    (o : Out R) (ho : o.length = len) :
    Writes (fun a b => a * c.indepOff + b * c.depOff) (revVal nz t c indep dep)
      (fun a b => a < indep.length ∧ c.W * ib ≤ b ∧
        b < c.W * ib + ompBlockSize c.W dep.length (nBlocks c.W dep.length) ib) o
      (revBlockB nz t c indep dep (c.W * ib) (ompBlockSize c.W dep.length (nBlocks c.W dep.length) ib)
        (ompBlockSize c.W dep.length (nBlocks c.W dep.length) ib) o) := by
  have hcov := (omp_blocks_cover c.W dep.length hW).2 ib hib
  have hle := ompBlockSize_le c.W dep.length (nBlocks c.W dep.length) ib hW
  refine copyOutG_writes hc
    (fun a i => rd ((kernelRevB nz t (ompBlockSize c.W dep.length (nBlocks c.W dep.length) ib)
      (seedBlock (zeroBuf c.W c.maxGrad) dep (c.W * ib)
        (ompBlockSize c.W dep.length (nBlocks c.W dep.length) ib))).getD i [])
      (indep.getD a 0)) (c.W * ib) _ hcov ?_ o ho
  intro a i _ hi
  have hi' : i < c.W := by omega
  have h1 : (c.W * ib + i) / c.W = ib := by
    rw [Nat.mul_add_div hW, Nat.div_eq_of_lt hi', Nat.add_zero]
  have h2 : (c.W * ib + i) % c.W = i := by
    rw [Nat.mul_add_mod, Nat.mod_eq_of_lt hi']
  unfold revVal
  simp only [h1, h2]

theorem jacSpecE_of_writes_rev {E : Nat → Nat → R} {m n dO iO : Nat} {out out' : Out R}
    (w : Writes (fun a b => a * iO + b * dO) E (fun a b => a < n ∧ b < m) out out') :
    JacSpecE (fun i j => E j i) m n dO iO out out' := by
  refine ⟨w.1, fun i j hi hj => ?_, fun c h => w.2.2 c (fun a b hab => ?_)⟩
  · rw [Nat.add_comm]
    exact w.2.1 j i ⟨hj, hi⟩
  · show c ≠ a * iO + b * dO
    rw [Nat.add_comm]
    exact h b a hab.2 hab.1

theorem jacRevOmpB_spec (nz : R → Bool) (t : List (Stmt R)) (c : JacCfg) (indep dep : List Nat) (sched : List Nat)
    (out : Out R) (hW : 0 < c.W) (hl : LayoutOK dep.length indep.length c.depOff c.indepOff out.length)
    (hs : sched.Perm (List.range (nBlocks c.W dep.length))) :
    JacSpecE (fun i j => revVal nz t c indep dep j i) dep.length indep.length c.depOff c.indepOff out
      (jacRevOmpB nz t c indep dep sched out) := by
  apply jacSpecE_of_writes_rev
  exact sched_writes (cellOK_rev hl) c.W hW _
    (fun ib hib o ho => revBlockB_writes nz t c indep dep ib _ hW hib (cellOK_rev hl) o ho)
    sched hs out rfl

theorem jacRevSerialB_spec (nz : R → Bool) (t : List (Stmt R)) (c : JacCfg) (indep dep : List Nat)
    (out : Out R) (hW : 0 < c.W) (hl : LayoutOK dep.length indep.length c.depOff c.indepOff out.length) :
    JacSpecE (fun i j => revVal nz t c indep dep j i) dep.length indep.length c.depOff c.indepOff out
      (jacRevSerialB nz t c indep dep out) := by
  apply jacSpecE_of_writes_rev
  unfold jacRevSerialB
  simp only
  rw [serial_as_range c.W dep.length hW (fun first size nl o => revBlockB nz t c indep dep first size nl o) out]
  exact sched_writes (cellOK_rev hl) c.W hW _
    (fun ib hib o ho => revBlockB_writes nz t c indep dep ib _ hW hib (cellOK_rev hl) o ho)
    _ (List.Perm.refl _) out rfl

/-! ### when the block-wide flag is not observable -/

theorem scatter_skip (nz : R → Bool) (hskip : ∀ x m a : R, nz a = false → x + m * a = x)
    (ops : List (R × Nat)) (a : R) (g : Vec R) (ha : nz a = false) : scatter ops a g = g := by
  unfold scatter
  induction ops with
  | nil => rfl
  | cons p ops ih =>
    rw [List.foldl_cons]
    have : scatterStep a g p = g := by
      unfold scatterStep
      rw [hskip _ _ _ ha, set_rd_self]
    rw [this, ih]

theorem anyNz_false (nz : R → Bool) (b : Buf R) (nl lhs i : Nat) (h : anyNz nz b nl lhs = false) (hi : i < nl) :
    nz (rd (b.getD i []) lhs) = false := by
  unfold anyNz at h
  rw [List.any_eq_false] at h
  have := h i (List.mem_range.mpr hi)
  simpa using this

/-- one statement: under `hskip` every lane does exactly what `compute_adjoint` does -/
theorem revStmtB_eq (nz : R → Bool) (hskip : ∀ x m a : R, nz a = false → x + m * a = x)
    (s : Stmt R) (nl : Nat) (b : Buf R) :
    revStmtB nz s nl b = b.mapIdx (fun i lane => if i < nl then revStepZ nz s lane else lane) := by
  unfold revStmtB
  simp only
  apply List.ext_getElem (by simp)
  intro i h1 h2
  simp only [List.getElem_mapIdx]
  split
  · rename_i hi
    have hib : i < b.length := by simpa using h1
    have hlane : b.getD i [] = b[i] := by simp [List.getD_eq_getElem?_getD, hib]
    unfold revLaneB revStepZ
    simp only
    by_cases hgo : anyNz nz b nl s.lhs = true
    · rw [if_pos hgo]
      by_cases hz : nz (rd b[i] s.lhs) = true
      · rw [if_pos hz]
      · have hz' : nz (rd b[i] s.lhs) = false := by simpa using hz
        rw [if_neg hz]
        exact scatter_skip nz hskip _ _ _ hz'
    · have hgo' : anyNz nz b nl s.lhs = false := by simpa using hgo
      have := anyNz_false nz b nl s.lhs i hgo' hi
      rw [hlane] at this
      rw [if_neg hgo, if_neg (by simp [this])]
  · rfl

/-- the whole sweep: under `hskip` the reverse kernel is `compute_adjoint` lane by lane -/
theorem kernelRevB_eq (nz : R → Bool) (hskip : ∀ x m a : R, nz a = false → x + m * a = x)
    (t : List (Stmt R)) (nl : Nat) (b : Buf R) :
    kernelRevB nz t nl b = b.mapIdx (fun i lane => if i < nl then revZ nz t lane else lane) := by
  unfold kernelRevB revZ
  induction t with
  | nil =>
    simp only [List.foldr_nil]
    apply List.ext_getElem (by simp)
    intro i h1 h2
    simp
  | cons s t ih =>
    rw [List.foldr_cons, ih, revStmtB_eq nz hskip]
    apply List.ext_getElem (by simp)
    intro i h1 h2
    simp only [List.getElem_mapIdx, List.foldr_cons]
    split
    · rfl
    · rfl

/-- a block of ONE lane (every block when `W = 1`; the last block when `m % W = 1`): flag of the block = test of the lane,
    no hypothesis needed -/
theorem revStmtB_one (nz : R → Bool) (s : Stmt R) (b : Buf R) (hb : 0 < b.length) :
    revStmtB nz s 1 b = b.mapIdx (fun i lane => if i < 1 then revStepZ nz s lane else lane) := by
  unfold revStmtB
  simp only
  apply List.ext_getElem (by simp)
  intro i h1 h2
  simp only [List.getElem_mapIdx]
  split
  · rename_i hi
    have hi0 : i = 0 := by omega
    subst hi0
    have hlane : b.getD 0 [] = b[0] := by simp [List.getD_eq_getElem?_getD, hb]
    unfold revLaneB revStepZ anyNz
    simp only [List.range_one, List.any_cons, List.any_nil, Bool.or_false, hlane]
  · rfl

theorem kernelRevB_one (nz : R → Bool) (t : List (Stmt R)) (b : Buf R) (hb : 0 < b.length) :
    kernelRevB nz t 1 b = b.mapIdx (fun i lane => if i < 1 then revZ nz t lane else lane) := by
  unfold kernelRevB revZ
  induction t with
  | nil =>
    simp only [List.foldr_nil]
    apply List.ext_getElem (by simp)
    intro i h1 h2
    simp
  | cons s t ih =>
    rw [List.foldr_cons, ih, revStmtB_one nz s _ (by simpa using hb)]
    apply List.ext_getElem (by simp)
    intro i h1 h2
    simp only [List.getElem_mapIdx, List.foldr_cons]
    split
    · rfl
    · rfl

/-! ### rows of the reverse routines as unit-seeded adjoint passes -/

/-- the block of entry (·, b): first dependent, size -/
theorem revVal_one_lane (nz : R → Bool) (t : List (Stmt R)) (c : JacCfg) (indep dep : List Nat) (a b : Nat)
    (hW : c.W = 1) (hb : b < dep.length) :
    revVal nz t c indep dep a b = entryRev nz t c.maxGrad (indep.getD a 0) (dep.getD b 0) := by
  unfold revVal entryRev
  simp only [hW, Nat.div_one, Nat.mod_one, Nat.one_mul]
  have hsz : ompBlockSize 1 dep.length (nBlocks 1 dep.length) b = 1 := by
    unfold ompBlockSize
    simp [Nat.mod_one]
  rw [hsz]
  obtain ⟨hl, hg⟩ := seedBlock_spec (R := R) 1 c.maxGrad dep b 1 (Nat.le_refl _)
  rw [kernelRevB_one nz t _ (by omega)]
  have h0 := hg 0 (by omega)
  simp only [Nat.lt_irrefl, Nat.add_zero] at h0
  have : (List.mapIdx (fun i lane => if i < 1 then revZ nz t lane else lane)
      (seedBlock (zeroBuf 1 c.maxGrad) dep b 1 : Buf R)).getD 0 [] =
      revZ nz t ((seedBlock (zeroBuf 1 c.maxGrad) dep b 1 : Buf R).getD 0 []) := by
    simp [List.getD_eq_getElem?_getD, List.getElem?_mapIdx, hl]
  rw [this, h0]
  simp

theorem revVal_of_skip (nz : R → Bool) (hskip : ∀ x m a : R, nz a = false → x + m * a = x)
    (t : List (Stmt R)) (c : JacCfg) (indep dep : List Nat) (a b : Nat) (hW : 0 < c.W) (hb : b < dep.length) :
    revVal nz t c indep dep a b = entryRev nz t c.maxGrad (indep.getD a 0) (dep.getD b 0) := by
  unfold revVal entryRev
  simp only
  obtain ⟨hcov, hin⟩ := omp_blocks_cover c.W dep.length hW
  have hbd := Nat.div_add_mod b c.W
  have hbm := Nat.mod_lt b hW
  -- block b / W contains b
  obtain ⟨ib, hib, h1, h2⟩ := hcov b hb
  have hsz := ompBlockSize_le c.W dep.length (nBlocks c.W dep.length) ib hW
  have hibeq : b / c.W = ib := by
    apply Nat.div_eq_of_lt_le
    · rw [Nat.mul_comm]; exact h1
    · rw [Nat.succ_mul, Nat.mul_comm]; omega
  rw [hibeq]
  have hmod : b % c.W < ompBlockSize c.W dep.length (nBlocks c.W dep.length) ib := by
    rw [← hibeq] at h2 ⊢
    omega
  obtain ⟨hl, hg⟩ := seedBlock_spec (R := R) c.W c.maxGrad dep (c.W * ib)
    (ompBlockSize c.W dep.length (nBlocks c.W dep.length) ib) hsz
  rw [kernelRevB_eq nz hskip]
  have : (List.mapIdx (fun i lane => if i < ompBlockSize c.W dep.length (nBlocks c.W dep.length) ib
        then revZ nz t lane else lane)
      (seedBlock (zeroBuf c.W c.maxGrad) dep (c.W * ib)
        (ompBlockSize c.W dep.length (nBlocks c.W dep.length) ib) : Buf R)).getD (b % c.W) [] =
      revZ nz t ((seedBlock (zeroBuf c.W c.maxGrad) dep (c.W * ib)
        (ompBlockSize c.W dep.length (nBlocks c.W dep.length) ib) : Buf R).getD (b % c.W) []) := by
    simp [List.getD_eq_getElem?_getD, List.getElem?_mapIdx, hl, hbm, hmod]
  rw [this, hg _ hbm, if_pos hmod]
  have : c.W * ib + b % c.W = b := by rw [← hibeq]; omega
  rw [this]

/-! ### the same with an invariant: the hypothesis only has to hold for the values the buffers can hold

`hskip` above quantifies over all `x m a`; IEEE doubles do not satisfy it (`-0.0 + 0*0 = +0.0`, `x + Inf*0 = NaN`).
`SkipOK nz G Mok` restricts it to accumulator values in `G` and multipliers in `Mok`, and asks that `G` contains `0`, `1`
and is closed under the one update the sweeps perform.  Doubles satisfy `SkipOK (· != 0.0) (· is not -0.0) (· is finite)`
in round-to-nearest: a sum is `-0.0` only if both terms are, `finite * ±0 = ±0`, and `x + ±0 = x` unless `x = -0.0`. -/

structure SkipOK (nz : R → Bool) (G Mok : R → Prop) : Prop where
  zero : G 0
  one : G 1
  acc : ∀ x m a, G x → Mok m → G a → G (x + m * a)
  skip : ∀ x m a, G x → Mok m → nz a = false → x + m * a = x

/-- every cell the vector can be read at holds a value in `G` (cells outside read as `0`) -/
def AllG (G : R → Prop) (g : Vec R) : Prop := ∀ k, G (rd g k)

theorem rd_set_cases (g : Vec R) (i k : Nat) (v : R) : rd (g.set i v) k = v ∨ rd (g.set i v) k = rd g k := by
  by_cases hi : i < g.length
  · rw [rd_set_lt g i k v hi]
    by_cases hk : k = i
    · left; rw [if_pos hk]
    · right; rw [if_neg hk]
  · right
    rw [List.set_eq_of_length_le (by omega)]

theorem AllG.set {G : R → Prop} {g : Vec R} (h : AllG G g) (i : Nat) {v : R} (hv : G v) : AllG G (g.set i v) := by
  intro k
  rcases rd_set_cases g i k v with e | e
  · rw [e]; exact hv
  · rw [e]; exact h k

theorem allG_replicate {G : R → Prop} (h0 : G 0) (N : Nat) : AllG G (List.replicate N (0 : R)) := by
  intro k
  unfold rd
  by_cases hk : k < N
  · simp [List.getD_eq_getElem?_getD, List.getElem?_replicate, hk]; exact h0
  · simp [List.getD_eq_getElem?_getD, List.getElem?_replicate, hk]; exact h0

theorem allG_nil {G : R → Prop} (h0 : G 0) : AllG G ([] : Vec R) := by
  intro k
  unfold rd
  simp
  exact h0

theorem allG_unit {G : R → Prop} (h0 : G 0) (h1 : G 1) (N x : Nat) : AllG G (unit N x : Vec R) :=
  (allG_replicate h0 N).set x h1

section Good
variable {nz : R → Bool} {G Mok : R → Prop}

theorem allG_scatter (ok : SkipOK nz G Mok) (ops : List (R × Nat)) (a : R) (g : Vec R)
    (hg : AllG G g) (ha : G a) (hm : ∀ p ∈ ops, Mok p.1) : AllG G (scatter ops a g) := by
  unfold scatter
  induction ops generalizing g with
  | nil => exact hg
  | cons p ops ih =>
    rw [List.foldl_cons]
    apply ih _ _ (fun q hq => hm q (List.mem_cons_of_mem _ hq))
    unfold scatterStep
    exact hg.set _ (ok.acc _ _ _ (hg p.2) (hm p (List.mem_cons_self ..)) ha)

theorem scatter_skip_good (ok : SkipOK nz G Mok) (ops : List (R × Nat)) (a : R) (g : Vec R)
    (hg : AllG G g) (ha : nz a = false) (hm : ∀ p ∈ ops, Mok p.1) : scatter ops a g = g := by
  unfold scatter
  induction ops with
  | nil => rfl
  | cons p ops ih =>
    rw [List.foldl_cons]
    have : scatterStep a g p = g := by
      unfold scatterStep
      rw [ok.skip _ _ _ (hg p.2) (hm p (List.mem_cons_self ..)) ha, set_rd_self]
    rw [this]
    exact ih (fun q hq => hm q (List.mem_cons_of_mem _ hq))

theorem allG_revStepZ (ok : SkipOK nz G Mok) (s : Stmt R) (g : Vec R) (hg : AllG G g)
    (hm : ∀ p ∈ s.ops, Mok p.1) : AllG G (revStepZ nz s g) := by
  unfold revStepZ
  simp only
  split
  · exact allG_scatter ok _ _ _ (hg.set _ ok.zero) (hg _) hm
  · exact hg.set _ ok.zero

theorem revStmtB_eq_good (ok : SkipOK nz G Mok) (s : Stmt R) (nl : Nat) (b : Buf R)
    (hb : ∀ i (h : i < b.length), AllG G b[i]) (hm : ∀ p ∈ s.ops, Mok p.1) :
    revStmtB nz s nl b = b.mapIdx (fun i lane => if i < nl then revStepZ nz s lane else lane) := by
  unfold revStmtB
  simp only
  apply List.ext_getElem (by simp)
  intro i h1 h2
  simp only [List.getElem_mapIdx]
  split
  · rename_i hi
    have hib : i < b.length := by simpa using h1
    have hlane : b.getD i [] = b[i] := by simp [List.getD_eq_getElem?_getD, hib]
    unfold revLaneB revStepZ
    simp only
    by_cases hgo : anyNz nz b nl s.lhs = true
    · rw [if_pos hgo]
      by_cases hz : nz (rd b[i] s.lhs) = true
      · rw [if_pos hz]
      · have hz' : nz (rd b[i] s.lhs) = false := by simpa using hz
        rw [if_neg hz]
        exact scatter_skip_good ok _ _ _ ((hb i hib).set _ ok.zero) hz' hm
    · have hgo' : anyNz nz b nl s.lhs = false := by simpa using hgo
      have := anyNz_false nz b nl s.lhs i hgo' hi
      rw [hlane] at this
      rw [if_neg hgo, if_neg (by simp [this])]
  · rfl

/-- the whole sweep under `SkipOK`: the kernel is `compute_adjoint` lane by lane, and the buffers stay inside `G` -/
theorem kernelRevB_eq_good (ok : SkipOK nz G Mok) (t : List (Stmt R)) (nl : Nat) (b : Buf R)
    (hb : ∀ i (h : i < b.length), AllG G b[i]) (hm : ∀ s ∈ t, ∀ p ∈ s.ops, Mok p.1) :
    kernelRevB nz t nl b = b.mapIdx (fun i lane => if i < nl then revZ nz t lane else lane) ∧
    ∀ i (h : i < b.length), AllG G (revZ nz t b[i]) := by
  induction t with
  | nil =>
    refine ⟨?_, fun i h => hb i h⟩
    unfold kernelRevB revZ
    simp only [List.foldr_nil]
    apply List.ext_getElem (by simp)
    intro i h1 h2
    simp
  | cons s t ih =>
    obtain ⟨e, hinv⟩ := ih (fun s' hs' => hm s' (List.mem_cons_of_mem _ hs'))
    have hms := hm s (List.mem_cons_self ..)
    refine ⟨?_, fun i h => ?_⟩
    · have e' : kernelRevB nz (s :: t) nl b = revStmtB nz s nl (kernelRevB nz t nl b) := rfl
      rw [e', e, revStmtB_eq_good ok s nl _ ?_ hms]
      · apply List.ext_getElem (by simp)
        intro i h1 h2
        simp only [List.getElem_mapIdx]
        have hc : ∀ g : Vec R, revZ nz (s :: t) g = revStepZ nz s (revZ nz t g) := fun _ => rfl
        split
        · rw [hc]
        · rfl
      · intro i h
        have hib : i < b.length := by simpa using h
        simp only [List.getElem_mapIdx]
        split
        · exact hinv i hib
        · exact hb i hib
    · have hc : ∀ g : Vec R, revZ nz (s :: t) g = revStepZ nz s (revZ nz t g) := fun _ => rfl
      rw [hc]
      exact allG_revStepZ ok s _ (hinv i h) hms

theorem revVal_of_good (ok : SkipOK nz G Mok) (t : List (Stmt R)) (c : JacCfg) (indep dep : List Nat) (a b : Nat)
    (hW : 0 < c.W) (hb : b < dep.length) (hm : ∀ s ∈ t, ∀ p ∈ s.ops, Mok p.1) :
    revVal nz t c indep dep a b = entryRev nz t c.maxGrad (indep.getD a 0) (dep.getD b 0) := by
  unfold revVal entryRev
  simp only
  obtain ⟨hcov, hin⟩ := omp_blocks_cover c.W dep.length hW
  have hbd := Nat.div_add_mod b c.W
  have hbm := Nat.mod_lt b hW
  obtain ⟨ib, hib, h1, h2⟩ := hcov b hb
  have hsz := ompBlockSize_le c.W dep.length (nBlocks c.W dep.length) ib hW
  have hibeq : b / c.W = ib := by
    apply Nat.div_eq_of_lt_le
    · rw [Nat.mul_comm]; exact h1
    · rw [Nat.succ_mul, Nat.mul_comm]; omega
  rw [hibeq]
  have hmod : b % c.W < ompBlockSize c.W dep.length (nBlocks c.W dep.length) ib := by
    rw [← hibeq] at h2 ⊢
    omega
  obtain ⟨hl, hg⟩ := seedBlock_spec (R := R) c.W c.maxGrad dep (c.W * ib)
    (ompBlockSize c.W dep.length (nBlocks c.W dep.length) ib) hsz
  have hlanes : ∀ i (h : i < (seedBlock (zeroBuf c.W c.maxGrad) dep (c.W * ib)
      (ompBlockSize c.W dep.length (nBlocks c.W dep.length) ib) : Buf R).length),
      AllG G (seedBlock (zeroBuf c.W c.maxGrad) dep (c.W * ib)
        (ompBlockSize c.W dep.length (nBlocks c.W dep.length) ib) : Buf R)[i] := by
    intro i h
    have hiW : i < c.W := by rw [hl] at h; exact h
    have e : (seedBlock (zeroBuf c.W c.maxGrad) dep (c.W * ib)
        (ompBlockSize c.W dep.length (nBlocks c.W dep.length) ib) : Buf R)[i] =
        (seedBlock (zeroBuf c.W c.maxGrad) dep (c.W * ib)
        (ompBlockSize c.W dep.length (nBlocks c.W dep.length) ib) : Buf R).getD i [] := by
      simp [List.getD_eq_getElem?_getD, h]
    rw [e, hg i hiW]
    split
    · exact allG_unit ok.zero ok.one _ _
    · exact allG_replicate ok.zero _
  rw [(kernelRevB_eq_good ok t _ _ hlanes hm).1]
  have : (List.mapIdx (fun i lane => if i < ompBlockSize c.W dep.length (nBlocks c.W dep.length) ib
        then revZ nz t lane else lane)
      (seedBlock (zeroBuf c.W c.maxGrad) dep (c.W * ib)
        (ompBlockSize c.W dep.length (nBlocks c.W dep.length) ib) : Buf R)).getD (b % c.W) [] =
      revZ nz t ((seedBlock (zeroBuf c.W c.maxGrad) dep (c.W * ib)
        (ompBlockSize c.W dep.length (nBlocks c.W dep.length) ib) : Buf R).getD (b % c.W) []) := by
    simp [List.getD_eq_getElem?_getD, List.getElem?_mapIdx, hl, hbm, hmod]
  rw [this, hg _ hbm, if_pos hmod]
  have : c.W * ib + b % c.W = b := by rw [← hibeq]; omega
  rw [this]

end Good

theorem JacSpecE.congr {E E' : Nat → Nat → R} {m n dO iO : Nat} {out out' : Out R}
    (h : ∀ i j, i < m → j < n → E i j = E' i j) (w : JacSpecE E m n dO iO out out') :
    JacSpecE E' m n dO iO out out' :=
  ⟨w.1, fun i j hi hj => by rw [w.2.1 i j hi hj, h i j hi hj], w.2.2⟩

/-! ### over a commutative ring the law-free layer is the ring layer -/

section Ring
variable {S : Type} [CommRing S] [DecidableEq S]

theorem unit_eq (N x : Nat) : (unit N x : Vec S) = Adept.Tape.unit N x := rfl

theorem entryFwd_eq (t : List (Stmt S)) (N x y : Nat) : entryFwd t N x y = jacEntryFwd t N x y := rfl

/-- `revStep` is `revStepZ` with the test `a ≠ 0` -/
theorem revStepZ_decide (s : Stmt S) (g : Vec S) : revStepZ (fun a => decide (a ≠ 0)) s g = revStep s g := by
  unfold revStepZ revStep
  simp only
  by_cases h : rd g s.lhs = 0
  · simp [h]
  · simp [h]

theorem revZ_decide (t : List (Stmt S)) (g : Vec S) : revZ (fun a => decide (a ≠ 0)) t g = rev t g := by
  unfold revZ rev
  induction t with
  | nil => rfl
  | cons s t ih => rw [List.foldr_cons, List.foldr_cons, ih, revStepZ_decide]

theorem ring_skip (x m a : S) (h : (fun a : S => decide (a ≠ 0)) a = false) : x + m * a = x := by
  have : a = 0 := by simpa using h
  rw [this, mul_zero, add_zero]

/-- in a ring the block-wide flag of the reverse Jacobian sweeps is invisible: the compiled kernel is `compute_adjoint`
    lane by lane -/
theorem kernelRevB_ring (t : List (Stmt S)) (nl : Nat) (b : Buf S) :
    kernelRevB (fun a => decide (a ≠ 0)) t nl b = kernelRev t nl b := by
  rw [kernelRevB_eq _ ring_skip]
  unfold kernelRev
  apply List.ext_getElem (by simp)
  intro i h1 h2
  simp only [List.getElem_mapIdx, revZ_decide]

theorem revBlockB_ring (t : List (Stmt S)) (c : JacCfg) (indep dep : List Nat) (first size nl : Nat) (out : Out S) :
    revBlockB (fun a => decide (a ≠ 0)) t c indep dep first size nl out = revBlock t c indep dep first size nl out := by
  unfold revBlockB revBlock
  simp only [kernelRevB_ring]

theorem jacRevSerialB_ring (t : List (Stmt S)) (c : JacCfg) (indep dep : List Nat) (out : Out S) :
    jacRevSerialB (fun a => decide (a ≠ 0)) t c indep dep out = jacRevSerial t c indep dep out := by
  unfold jacRevSerialB jacRevSerial
  simp only [revBlockB_ring]

theorem jacRevOmpB_ring (t : List (Stmt S)) (c : JacCfg) (indep dep : List Nat) (sched : List Nat) (out : Out S) :
    jacRevOmpB (fun a => decide (a ≠ 0)) t c indep dep sched out = jacRevOmp t c indep dep sched out := by
  unfold jacRevOmpB jacRevOmp
  simp only [revBlockB_ring]

end Ring

end Adept.Tape.LF
