import AdeptModel.Matmul
import Mathlib.Algebra.Ring.Defs
import Mathlib.Tactic.Ring
import Mathlib.Tactic.Linarith
/-!
Helper lemmas for C15 (matrix multiplication): the BLAS write-back functions, fresh copies, the
row- and column-contiguity predicates, and the five marshalling paths of `AdeptModel/Matmul.lean`.
-/
set_option linter.unusedSectionVars false
set_option linter.unnecessarySeqFocus false
set_option linter.unusedVariables false
namespace Adept.Matmul
open Adept.Blas

/-! ### sums and lists -/

section Basic
variable {α : Type} [Add α] [Mul α] [Zero α]

theorem sumTo_congr {f g : Nat → α} : ∀ {k : Nat}, (∀ l, l < k → f l = g l) → sumTo f k = sumTo g k
  | 0, _ => rfl
  | k + 1, h => by
    simp only [sumTo]
    rw [sumTo_congr (fun l hl => h l (Nat.lt_succ_of_lt hl)), h k (Nat.lt_succ_self k)]

theorem mem_pairs {β : Type} {m n : Nat} {f : Nat → Nat → β} {x : β} :
    x ∈ pairs m n f ↔ ∃ p q, p < m ∧ q < n ∧ x = f p q := by
  simp only [pairs, List.mem_flatMap, List.mem_map, List.mem_range]
  constructor
  · rintro ⟨p, hp, q, hq, rfl⟩; exact ⟨p, q, hp, hq, rfl⟩
  · rintro ⟨p, q, hp, hq, rfl⟩; exact ⟨p, hp, q, hq, rfl⟩

theorem mem_pairs_flatten {β : Type} {m n : Nat} {c : Nat → Nat → Bool} {f : Nat → Nat → β} {x : β} :
    x ∈ (pairs m n (fun p q => if c p q then [f p q] else [])).flatten ↔ ∃ p q, p < m ∧ q < n ∧ c p q = true ∧ x = f p q := by
  simp only [List.mem_flatten, mem_pairs]
  constructor
  · rintro ⟨l, ⟨p, q, hp, hq, rfl⟩, hx⟩
    by_cases h : c p q = true
    · simp [h] at hx; exact ⟨p, q, hp, hq, h, hx⟩
    · simp [h] at hx
  · rintro ⟨p, q, hp, hq, h, rfl⟩
    exact ⟨_, ⟨p, q, hp, hq, rfl⟩, by simp [h]⟩

end Basic

/-! ### write-back of the output argument -/

section Write
variable {α : Type}

theorem writeMat_at {rows cols : Nat} {ld : Int} (val : Nat → Nat → α) (old : Int → α) {i j : Nat}
    (hi : i < rows) (hj : j < cols) (hld : (rows : Int) ≤ ld) :
    writeMat rows cols ld val old ((i : Int) + (j : Int) * ld) = val i j := by
  have hi' : (i : Int) < ld := by omega
  have h0 : (0 : Int) ≤ i := Int.natCast_nonneg i
  have hmod : ((i : Int) + (j : Int) * ld) % ld = i := by
    rw [Int.add_mul_emod_self_right]; exact Int.emod_eq_of_lt h0 hi'
  have hdiv : ((i : Int) + (j : Int) * ld) / ld = j := by
    rw [Int.add_mul_ediv_right _ _ (by omega : ld ≠ 0), Int.ediv_eq_zero_of_lt h0 hi']; simp
  have hnn : (0 : Int) ≤ (i : Int) + (j : Int) * ld :=
    Int.add_nonneg h0 (Int.mul_nonneg (Int.natCast_nonneg j) (by omega))
  unfold writeMat
  rw [hmod, hdiv]
  have : (0 : Int) ≤ (i : Int) + (j : Int) * ld ∧ (i : Int) < rows ∧ (j : Int) < cols := ⟨hnn, by omega, by omega⟩
  simp [this]

theorem writeVec_one (len : Nat) (val : Nat → α) (old : Int → α) {i : Nat} (hi : i < len) :
    writeVec len 1 val old (i : Int) = val i := by
  unfold writeVec
  have : (0 : Int) ≤ (i : Int) ∧ (i : Int) < len := ⟨Int.natCast_nonneg i, by omega⟩
  simp [this]

end Write

/-! ### views -/

theorem packRowMajor_o0_ge {pw : Nat} (hpw : 1 ≤ pw) (d0 d1 : Nat) : (d1 : Int) ≤ (packRowMajor pw d0 d1).o0 := by
  unfold packRowMajor
  simp only
  split
  · have h1 := Nat.div_add_mod (d1 + pw - 1) pw
    have h2 := Nat.mod_lt (d1 + pw - 1) (by omega : pw > 0)
    have h3 : (d1 + pw - 1) / pw * pw = pw * ((d1 + pw - 1) / pw) := Nat.mul_comm _ _
    have : d1 ≤ (d1 + pw - 1) / pw * pw := by omega
    exact_mod_cast this
  · exact Int.le_refl _

theorem packRowMajor_rowContig {pw : Nat} (hpw : 1 ≤ pw) (d0 d1 : Nat) : isRowContig (packRowMajor pw d0 d1) = true := by
  have h := packRowMajor_o0_ge hpw d0 d1
  simp only [isRowContig, Bool.and_eq_true, decide_eq_true_eq]
  exact ⟨rfl, h⟩

@[simp] theorem packRowMajor_d0 (pw d0 d1 : Nat) : (packRowMajor pw d0 d1).d0 = d0 := rfl
@[simp] theorem packRowMajor_d1 (pw d0 d1 : Nat) : (packRowMajor pw d0 d1).d1 = d1 := rfl
@[simp] theorem packRowMajor_o1 (pw d0 d1 : Nat) : (packRowMajor pw d0 d1).o1 = 1 := rfl
@[simp] theorem packRowMajor_base (pw d0 d1 : Nat) : (packRowMajor pw d0 d1).base = 0 := rfl

theorem rowContig_iff (v : View2) : isRowContig v = true ↔ v.o1 = 1 ∧ (v.d1 : Int) ≤ v.o0 := by
  simp [isRowContig]
theorem colContig_iff (v : View2) : isColContig v = true ↔ v.o0 = 1 ∧ (v.d0 : Int) ≤ v.o1 := by
  simp [isColContig]

theorem View2.T_addr (v : View2) (i k : Nat) : v.T.addr i k = v.addr k i := by
  simp only [View2.addr, View2.T]; omega

section Mats
variable {α : Type}

theorem Mat.T_get (A : Mat α) (i k : Nat) : A.T.get i k = A.get k i := by
  simp only [Mat.get, Mat.T, View2.T_addr]

variable [Add α] [Mul α] [Zero α]

theorem freshMat_get {pw : Nat} (hpw : 1 ≤ pw) (d0 d1 : Nat) (g : Nat → Nat → α) {i k : Nat} (hi : i < d0) (hk : k < d1) :
    (freshMat pw d0 d1 g).get i k = g i k := by
  have hge := packRowMajor_o0_ge hpw d0 d1
  have hk' : (k : Int) < (packRowMajor pw d0 d1).o0 := by omega
  have h0 : (0 : Int) ≤ k := Int.natCast_nonneg k
  have haddr : (freshMat pw d0 d1 g).v.addr i k = (k : Int) + (i : Int) * (packRowMajor pw d0 d1).o0 := by
    simp only [freshMat, View2.addr, packRowMajor_base, packRowMajor_o1]; omega
  have hmod : ((k : Int) + (i : Int) * (packRowMajor pw d0 d1).o0) % (packRowMajor pw d0 d1).o0 = k := by
    rw [Int.add_mul_emod_self_right]; exact Int.emod_eq_of_lt h0 hk'
  have hdiv : ((k : Int) + (i : Int) * (packRowMajor pw d0 d1).o0) / (packRowMajor pw d0 d1).o0 = i := by
    rw [Int.add_mul_ediv_right _ _ (by omega), Int.ediv_eq_zero_of_lt h0 hk']; simp
  have hnn : (0 : Int) ≤ (k : Int) + (i : Int) * (packRowMajor pw d0 d1).o0 :=
    Int.add_nonneg h0 (Int.mul_nonneg (Int.natCast_nonneg i) (by omega))
  unfold Mat.get
  rw [haddr]
  simp only [freshMat]
  rw [hmod, hdiv]
  have : (0 : Int) ≤ (k : Int) + (i : Int) * (packRowMajor pw d0 d1).o0 ∧ (k : Int) < d1 ∧ (i : Int) < d0 := ⟨hnn, by omega, by omega⟩
  simp [this]

theorem prep_d0 (pw : Nat) (A : Mat α) : (prep pw A).v.d0 = A.v.d0 := by
  unfold prep; split <;> simp [copyMat, freshMat]
theorem prep_d1 (pw : Nat) (A : Mat α) : (prep pw A).v.d1 = A.v.d1 := by
  unfold prep; split <;> simp [copyMat, freshMat]

theorem prep_contig {pw : Nat} (hpw : 1 ≤ pw) (A : Mat α) :
    isRowContig (prep pw A).v = true ∨ isColContig (prep pw A).v = true := by
  unfold prep
  split
  · left; exact packRowMajor_rowContig hpw _ _
  · rename_i h
    simp only [needsCopy, Bool.and_eq_true, Bool.not_eq_true', not_and, Bool.not_eq_false] at h
    by_cases hr : isRowContig A.v = true
    · exact Or.inl hr
    · right; exact h (by simpa using hr)

theorem prep_get {pw : Nat} (hpw : 1 ≤ pw) (A : Mat α) {i k : Nat} (hi : i < A.v.d0) (hk : k < A.v.d1) :
    (prep pw A).get i k = A.get i k := by
  unfold prep
  split
  · exact freshMat_get hpw _ _ _ hi hk
  · rfl

/-- the operand handed to BLAS is the caller's array itself or a fresh temporary -/
theorem prep_cases (pw : Nat) (A : Mat α) : prep pw A = A ∨ prep pw A = copyMat pw A := by
  unfold prep; split
  · exact Or.inr rfl
  · exact Or.inl rfl

/-- element address of a row- or column-contiguous matrix in the form BLAS uses -/
theorem addr_row {v : View2} (h : isRowContig v = true) (i k : Nat) : v.addr i k = v.base + ((k : Int) + (i : Int) * v.o0) := by
  have := (rowContig_iff v).1 h
  simp only [View2.addr, this.1]; omega
theorem addr_col {v : View2} (h : isColContig v = true) (i k : Nat) : v.addr i k = v.base + ((i : Int) + (k : Int) * v.o1) := by
  have := (colContig_iff v).1 h
  simp only [View2.addr, this.1]; omega

end Mats

/-! ### strided vectors -/

theorem vecStart_idx (base : Int) (n : Nat) (inc : Int) (j : Nat) :
    blasVectorStart base n inc + vecIdx n inc j = base + (j : Int) * inc := by
  unfold blasVectorStart vecIdx kstart
  by_cases h1 : inc > 0
  · have h2 : ¬ inc < 0 := by omega
    simp [h1, h2]
  · by_cases h3 : inc < 0
    · simp only [h1, h3, if_true, if_false]; linarith
    · have : inc = 0 := by omega
      subst this; simp

/-! ### a row- or column-contiguous matrix as BLAS reads it -/

/-- the leading dimension `matmul.h` passes for a row- or column-contiguous matrix -/
def ldOf (v : View2) : Int := if isRowContig v then v.o0 else v.o1

/-- `Contig v`: the matrix can be handed to BLAS in place -/
def Contig (v : View2) : Prop := isRowContig v = true ∨ isColContig v = true

/-- index (relative to `const_data()`) at which BLAS finds element `[i,k]` -/
def blasIdx (v : View2) (i k : Nat) : Int :=
  if isRowContig v then (k : Int) + (i : Int) * ldOf v else (i : Int) + (k : Int) * ldOf v

theorem addr_idx {v : View2} (h : Contig v) (i k : Nat) : v.base + blasIdx v i k = v.addr i k := by
  unfold blasIdx ldOf
  by_cases hr : isRowContig v = true
  · simp only [hr, if_true]; exact (addr_row hr i k).symm
  · have hc : isColContig v = true := by
      rcases h with h | h
      · exact absurd h hr
      · exact h
    simp only [hr]; exact (addr_col hc i k).symm

theorem rel_idx {α : Type} (A : Mat α) (h : Contig A.v) (i k : Nat) : A.rel (blasIdx A.v i k) = A.get i k := by
  unfold Mat.rel Mat.get; rw [addr_idx h]

/-- the leading dimension is at least the extent BLAS requires -/
theorem ldOf_ge {v : View2} (h : Contig v) : (if isRowContig v then (v.d1 : Int) else (v.d0 : Int)) ≤ ldOf v := by
  unfold ldOf
  by_cases hr : isRowContig v = true
  · simp only [hr, if_true]; exact ((rowContig_iff v).1 hr).2
  · have hc : isColContig v = true := by
      rcases h with h | h
      · exact absurd h hr
      · exact h
    simp only [hr]; exact ((colContig_iff v).1 hc).2

/-! ### dense matrix · matrix -/

section Gemm
variable {α : Type} [CommRing α]

/-- normal form of the call issued by the final branch of `matmul_(Array<2>, Array<2>)`: the result is row-major,
    so `cppblas_gemm` always rewrites: Fortran's A is the right operand, its B the left one -/
theorem gemmDense_call {pw : Nat} (hpw : 1 ≤ pw) (L Rm : Mat α) :
    (gemmDense pw L Rm).call.args =
      { ta := !isRowContig Rm.v, tb := !isRowContig L.v, m := Rm.v.d1, n := L.v.d0, k := L.v.d1,
        lda := ldOf Rm.v, ldb := ldOf L.v, ldc := (packRowMajor pw L.v.d0 Rm.v.d1).o0 } ∧
    (gemmDense pw L Rm).call.a = Rm.rel ∧ (gemmDense pw L Rm).call.b = L.rel ∧
    (gemmDense pw L Rm).call.pa = Rm.ptr ∧ (gemmDense pw L Rm).call.pb = L.ptr := by
  have hrow := packRowMajor_rowContig hpw L.v.d0 Rm.v.d1
  simp only [gemmDense, cppblasGemm, hrow, ldOf]
  cases isRowContig L.v <;> cases isRowContig Rm.v <;> simp

theorem gemmAIdx_nf (L Rm : Mat α) (ldc : Int) (j l : Nat) :
    gemmAIdx { ta := !isRowContig Rm.v, tb := !isRowContig L.v, m := Rm.v.d1, n := L.v.d0, k := L.v.d1,
               lda := ldOf Rm.v, ldb := ldOf L.v, ldc := ldc } j l = blasIdx Rm.v l j := by
  unfold gemmAIdx blasIdx; cases isRowContig Rm.v <;> simp
theorem gemmBIdx_nf (L Rm : Mat α) (ldc : Int) (l i : Nat) :
    gemmBIdx { ta := !isRowContig Rm.v, tb := !isRowContig L.v, m := Rm.v.d1, n := L.v.d0, k := L.v.d1,
               lda := ldOf Rm.v, ldb := ldOf L.v, ldc := ldc } l i = blasIdx L.v i l := by
  unfold gemmBIdx blasIdx; cases isRowContig L.v <;> simp

theorem gemmInfo_zero (c : GemmArgs) (h1 : (c.nrowa : Int) ≤ c.lda) (h1' : 1 ≤ c.lda) (h2 : (c.nrowb : Int) ≤ c.ldb) (h2' : 1 ≤ c.ldb)
    (h3 : (c.m : Int) ≤ c.ldc) (h3' : 1 ≤ c.ldc) : gemmInfo c = 0 := by
  unfold gemmInfo
  rw [if_neg (by omega), if_neg (by omega), if_neg (by omega)]

theorem gemmDense_info {pw : Nat} (hpw : 1 ≤ pw) (L Rm : Mat α) (hL : Contig L.v) (hR : Contig Rm.v)
    (hm : 1 ≤ L.v.d0) (hk : 1 ≤ L.v.d1) (hn : 1 ≤ Rm.v.d1) (hkk : L.v.d1 = Rm.v.d0) :
    gemmInfo (gemmDense pw L Rm).call.args = 0 := by
  rw [(gemmDense_call hpw L Rm).1]
  have h1 := ldOf_ge hL
  have h2 := ldOf_ge hR
  have h3 := packRowMajor_o0_ge hpw L.v.d0 Rm.v.d1
  apply gemmInfo_zero <;> simp only [GemmArgs.nrowa, GemmArgs.nrowb] <;>
    cases hl : isRowContig L.v <;> cases hr : isRowContig Rm.v <;> simp [hl, hr] at h1 h2 ⊢ <;> omega

theorem gemmDense_get {pw : Nat} (hpw : 1 ≤ pw) (L Rm : Mat α) (hL : Contig L.v) (hR : Contig Rm.v)
    (hm : 1 ≤ L.v.d0) (hk : 1 ≤ L.v.d1) (hn : 1 ≤ Rm.v.d1) (hkk : L.v.d1 = Rm.v.d0)
    {i j : Nat} (hi : i < L.v.d0) (hj : j < Rm.v.d1) :
    (gemmDense pw L Rm).ans.get i j = sumTo (fun l => L.get i l * Rm.get l j) L.v.d1 := by
  have hinfo := gemmDense_info hpw L Rm hL hR hm hk hn hkk
  obtain ⟨hargs, ha, hb, -, -⟩ := gemmDense_call hpw L Rm
  have hmem : (gemmDense pw L Rm).ans.mem =
      gemmC (gemmDense pw L Rm).call.args (gemmDense pw L Rm).call.a (gemmDense pw L Rm).call.b (fun _ => 0) := rfl
  have hv : (gemmDense pw L Rm).ans.v = packRowMajor pw L.v.d0 Rm.v.d1 := rfl
  have haddr : (gemmDense pw L Rm).ans.v.addr i j = (j : Int) + (i : Int) * (packRowMajor pw L.v.d0 Rm.v.d1).o0 := by
    rw [hv]; simp only [View2.addr, packRowMajor_base, packRowMajor_o1]; omega
  show (gemmDense pw L Rm).ans.mem ((gemmDense pw L Rm).ans.v.addr i j) = _
  rw [haddr, hmem]
  unfold gemmC
  rw [if_neg (by simpa using hinfo), ha, hb, hargs]
  simp only
  rw [writeMat_at _ _ hj hi (packRowMajor_o0_ge hpw _ _)]
  unfold gemmVal
  simp only
  apply sumTo_congr
  intro l _
  rw [gemmAIdx_nf, gemmBIdx_nf, rel_idx Rm hR, rel_idx L hL, mul_comm]

/-- every index ?GEMM reads is an element address of the operand it was given -/
theorem gemmDense_reads {pw : Nat} (hpw : 1 ≤ pw) (L Rm : Mat α) (hL : Contig L.v) (hR : Contig Rm.v) (hkk : L.v.d1 = Rm.v.d0) :
    (∀ p ∈ gemmReadA (gemmDense pw L Rm).call.args,
        ∃ l j, l < Rm.v.d0 ∧ j < Rm.v.d1 ∧ (gemmDense pw L Rm).call.pa.off + p = Rm.v.addr l j) ∧
    (∀ p ∈ gemmReadB (gemmDense pw L Rm).call.args,
        ∃ i l, i < L.v.d0 ∧ l < L.v.d1 ∧ (gemmDense pw L Rm).call.pb.off + p = L.v.addr i l) := by
  obtain ⟨hargs, -, -, hpa, hpb⟩ := gemmDense_call hpw L Rm
  rw [hargs, hpa, hpb]
  constructor
  · intro p hp
    unfold gemmReadA at hp
    split at hp
    · simp at hp
    · obtain ⟨j, l, hj, hl, rfl⟩ := mem_pairs.1 hp
      simp only at hj hl
      refine ⟨l, j, by omega, hj, ?_⟩
      rw [gemmAIdx_nf]; exact addr_idx hR l j
  · intro p hp
    unfold gemmReadB at hp
    split at hp
    · simp at hp
    · obtain ⟨l, i, hl, hi, rfl⟩ := mem_pairs.1 hp
      simp only at hl hi
      refine ⟨i, l, hi, hl, ?_⟩
      rw [gemmBIdx_nf]; exact addr_idx hL i l

end Gemm

/-! ### dense matrix · vector -/

section Gemv
variable {α : Type} [CommRing α]

theorem gemvDense_call (L : Mat α) (x : Vec α) :
    (gemvDense L x).call.args =
      { trans := isRowContig L.v, m := if isRowContig L.v then L.v.d1 else L.v.d0,
        n := if isRowContig L.v then L.v.d0 else L.v.d1, lda := ldOf L.v, incx := x.v.o, incy := 1 } ∧
    (gemvDense L x).call.a = L.rel ∧
    (gemvDense L x).call.x = (fun p => x.mem (blasVectorStart x.v.base x.v.d x.v.o + p)) ∧
    (gemvDense L x).call.pa = L.ptr ∧
    (gemvDense L x).call.px = ⟨x.buf, blasVectorStart x.v.base x.v.d x.v.o⟩ := by
  simp only [gemvDense, cppblasGemv, ldOf]
  cases isRowContig L.v <;> simp

theorem gemvInfo_zero (c : GemvArgs) (h1 : (c.m : Int) ≤ c.lda) (h1' : 1 ≤ c.lda) (h2 : c.incx ≠ 0) (h3 : c.incy ≠ 0) :
    gemvInfo c = 0 := by
  unfold gemvInfo
  rw [if_neg (by omega), if_neg h2, if_neg h3]

/-- the normal-form arguments of the ?GEMV call for a contiguous `L` -/
def gemvNF (L : Mat α) (x : Vec α) : GemvArgs :=
  { trans := isRowContig L.v, m := if isRowContig L.v then L.v.d1 else L.v.d0,
    n := if isRowContig L.v then L.v.d0 else L.v.d1, lda := ldOf L.v, incx := x.v.o, incy := 1 }

theorem gemvNF_lenx (L : Mat α) (x : Vec α) : (gemvNF L x).lenx = L.v.d1 := by
  unfold gemvNF GemvArgs.lenx; cases isRowContig L.v <;> simp
theorem gemvNF_leny (L : Mat α) (x : Vec α) : (gemvNF L x).leny = L.v.d0 := by
  unfold gemvNF GemvArgs.leny; cases isRowContig L.v <;> simp
theorem gemvNF_AIdx (L : Mat α) (x : Vec α) (i j : Nat) : gemvAIdx (gemvNF L x) i j = blasIdx L.v i j := by
  unfold gemvAIdx gemvNF blasIdx; cases isRowContig L.v <;> simp

theorem gemvDense_info (L : Mat α) (x : Vec α) (hL : Contig L.v) (hm : 1 ≤ L.v.d0) (hk : 1 ≤ L.v.d1) (hx : x.v.o ≠ 0) :
    gemvInfo (gemvDense L x).call.args = 0 := by
  rw [(gemvDense_call L x).1]
  have h1 := ldOf_ge hL
  apply gemvInfo_zero <;> simp only <;> first | exact hx | (cases hl : isRowContig L.v <;> simp [hl] at h1 ⊢ <;> omega)

theorem gemvDense_get (L : Mat α) (x : Vec α) (hL : Contig L.v) (hm : 1 ≤ L.v.d0) (hk : 1 ≤ L.v.d1)
    (hkk : L.v.d1 = x.v.d) (hx : x.v.o ≠ 0) {i : Nat} (hi : i < L.v.d0) :
    (gemvDense L x).ans.get i = sumTo (fun l => L.get i l * x.get l) L.v.d1 := by
  have hinfo := gemvDense_info L x hL hm hk hx
  obtain ⟨hargs, ha, hxx, -, -⟩ := gemvDense_call L x
  have hmem : (gemvDense L x).ans.mem =
      gemvY (gemvDense L x).call.args (gemvDense L x).call.a (gemvDense L x).call.x (fun _ => 0) := rfl
  have haddr : (gemvDense L x).ans.v.addr i = (i : Int) := by
    show (0 : Int) + (i : Int) * 1 = i
    omega
  show (gemvDense L x).ans.mem ((gemvDense L x).ans.v.addr i) = _
  rw [haddr, hmem]
  unfold gemvY
  rw [if_neg (by simpa using hinfo), ha, hxx, hargs]
  change writeVec (gemvNF L x).leny 1 (gemvVal (gemvNF L x) L.rel _) _ (i : Int) = _
  rw [writeVec_one _ _ _ (by rw [gemvNF_leny]; exact hi)]
  unfold gemvVal
  rw [gemvNF_lenx]
  apply sumTo_congr
  intro l _
  rw [gemvNF_AIdx, rel_idx L hL]
  have : (gemvNF L x).incx = x.v.o := rfl
  rw [this, hkk]
  beta_reduce
  rw [vecStart_idx]
  rfl

theorem gemvDense_reads (L : Mat α) (x : Vec α) (hL : Contig L.v) (hkk : L.v.d1 = x.v.d) :
    (∀ p ∈ gemvReadA (gemvDense L x).call.args,
        ∃ i l, i < L.v.d0 ∧ l < L.v.d1 ∧ (gemvDense L x).call.pa.off + p = L.v.addr i l) ∧
    (∀ p ∈ gemvReadX (gemvDense L x).call.args,
        ∃ l, l < x.v.d ∧ (gemvDense L x).call.px.off + p = x.v.addr l) := by
  obtain ⟨hargs, -, -, hpa, hpx⟩ := gemvDense_call L x
  rw [hargs, hpa, hpx]
  change (∀ p ∈ gemvReadA (gemvNF L x), _) ∧ (∀ p ∈ gemvReadX (gemvNF L x), _)
  constructor
  · intro p hp
    unfold gemvReadA at hp
    split at hp
    · simp at hp
    · obtain ⟨i, l, hi, hl, rfl⟩ := mem_pairs.1 hp
      rw [gemvNF_leny] at hi
      rw [gemvNF_lenx] at hl
      refine ⟨i, l, hi, hl, ?_⟩
      rw [gemvNF_AIdx]; exact addr_idx hL i l
  · intro p hp
    unfold gemvReadX at hp
    split at hp
    · simp at hp
    · simp only [List.mem_map, List.mem_range] at hp
      obtain ⟨l, hl, rfl⟩ := hp
      rw [gemvNF_lenx] at hl ⊢
      refine ⟨l, by omega, ?_⟩
      have : (gemvNF L x).incx = x.v.o := rfl
      rw [this, hkk]
      exact vecStart_idx _ _ _ _

end Gemv

/-! ### symmetric matrices -/

section Sym
variable {α : Type} [CommRing α]

theorem symIdx_cell (s : Symm α) (i j : Nat) : s.base + symIdx s.lower s.off i j = s.cell i j := by
  unfold symIdx symStored Symm.cell
  rcases Nat.lt_trichotomy i j with h | h | h
  · have h1 : i ≤ j := by omega
    have h2 : ¬ j ≤ i := by omega
    cases s.lower <;> simp [h1, h2] <;> omega
  · subst h; cases s.lower <;> simp <;> omega
  · have h1 : ¬ i ≤ j := by omega
    have h2 : j ≤ i := by omega
    cases s.lower <;> simp [h1, h2] <;> omega

theorem cell_comm (s : Symm α) (i j : Nat) : s.cell i j = s.cell j i := by
  unfold Symm.cell
  rcases Nat.lt_trichotomy i j with h | h | h
  · have h1 : i ≤ j := by omega
    have h2 : ¬ j ≤ i := by omega
    cases s.lower <;> simp [h1, h2] <;> omega
  · subst h; rfl
  · have h1 : ¬ i ≤ j := by omega
    have h2 : j ≤ i := by omega
    cases s.lower <;> simp [h1, h2] <;> omega

theorem Symm.get_comm (s : Symm α) (i j : Nat) : s.get i j = s.get j i := by
  unfold Symm.get; rw [cell_comm]

theorem sym_rel (s : Symm α) (i j : Nat) : s.rel (symIdx s.lower s.off i j) = s.get i j := by
  unfold Symm.rel Symm.get; rw [symIdx_cell]

/-- the stored triangle lies inside the matrix -/
theorem symRead_within (s : Symm α) (n : Nat) :
    ∀ p ∈ symRead s.lower n s.off, ∃ i j, i < n ∧ j < n ∧ s.base + p = s.cell i j := by
  intro p hp
  unfold symRead at hp
  obtain ⟨a, b, ha, hb, hc, rfl⟩ := mem_pairs_flatten.1 hp
  refine ⟨a, b, ha, hb, ?_⟩
  rw [← symIdx_cell]
  unfold symIdx
  rw [if_pos hc]

theorem symvInfo_zero (c : SymvArgs) (h1 : (c.n : Int) ≤ c.lda) (h1' : 1 ≤ c.lda) (h2 : c.incx ≠ 0) (h3 : c.incy ≠ 0) :
    symvInfo c = 0 := by
  unfold symvInfo
  rw [if_neg (by omega), if_neg h2, if_neg h3]

theorem symvCore_call (s : Symm α) (x : Vec α) :
    (symvCore s x).call.args = { upper := s.lower, n := x.v.d, lda := s.off, incx := x.v.o, incy := 1 } ∧
    (symvCore s x).call.a = s.rel ∧
    (symvCore s x).call.x = (fun p => x.mem (blasVectorStart x.v.base x.v.d x.v.o + p)) ∧
    (symvCore s x).call.pa = ⟨s.buf, s.base⟩ ∧
    (symvCore s x).call.px = ⟨x.buf, blasVectorStart x.v.base x.v.d x.v.o⟩ := by
  simp [symvCore, cppblasSymv]

theorem symvCore_info (s : Symm α) (x : Vec α) (hd : s.dim = x.v.d) (hn : 1 ≤ s.dim) (hoff : (s.dim : Int) ≤ s.off) (hx : x.v.o ≠ 0) :
    symvInfo (symvCore s x).call.args = 0 := by
  rw [(symvCore_call s x).1]
  apply symvInfo_zero <;> simp only <;> first | exact hx | omega

theorem symvCore_get (s : Symm α) (x : Vec α) (hd : s.dim = x.v.d) (hn : 1 ≤ s.dim) (hoff : (s.dim : Int) ≤ s.off)
    (hx : x.v.o ≠ 0) {i : Nat} (hi : i < s.dim) :
    (symvCore s x).ans.get i = sumTo (fun l => s.get i l * x.get l) s.dim := by
  have hinfo := symvCore_info s x hd hn hoff hx
  obtain ⟨hargs, ha, hxx, -, -⟩ := symvCore_call s x
  have hmem : (symvCore s x).ans.mem =
      symvY (symvCore s x).call.args (symvCore s x).call.a (symvCore s x).call.x (fun _ => 0) := rfl
  have haddr : (symvCore s x).ans.v.addr i = (i : Int) := by
    show (0 : Int) + (i : Int) * 1 = i
    omega
  show (symvCore s x).ans.mem ((symvCore s x).ans.v.addr i) = _
  rw [haddr, hmem]
  unfold symvY
  rw [if_neg (by simpa using hinfo), ha, hxx, hargs]
  simp only
  rw [writeVec_one _ _ _ (by omega)]
  unfold symvVal
  simp only
  rw [← hd]
  apply sumTo_congr
  intro l _
  rw [sym_rel, hd, vecStart_idx]
  rfl

theorem symvCore_reads (s : Symm α) (x : Vec α) (hd : s.dim = x.v.d) :
    (∀ p ∈ symvReadA (symvCore s x).call.args,
        ∃ i j, i < s.dim ∧ j < s.dim ∧ (symvCore s x).call.pa.off + p = s.cell i j) ∧
    (∀ p ∈ symvReadX (symvCore s x).call.args,
        ∃ l, l < x.v.d ∧ (symvCore s x).call.px.off + p = x.v.addr l) := by
  obtain ⟨hargs, -, -, hpa, hpx⟩ := symvCore_call s x
  rw [hargs, hpa, hpx]
  constructor
  · intro p hp
    unfold symvReadA at hp
    split at hp
    · simp at hp
    · simp only at hp
      rw [hd]
      exact symRead_within s _ p hp
  · intro p hp
    unfold symvReadX at hp
    split at hp
    · simp at hp
    · simp only [List.mem_map, List.mem_range] at hp
      obtain ⟨l, hl, rfl⟩ := hp
      exact ⟨l, hl, vecStart_idx _ _ _ _⟩

/-! symmetric · dense matrix -/

theorem symmInfo_zero (c : SymmArgs) (h1 : (c.na : Int) ≤ c.lda) (h1' : 1 ≤ c.lda) (h2 : (c.m : Int) ≤ c.ldb) (h2' : 1 ≤ c.ldb)
    (h3 : (c.m : Int) ≤ c.ldc) (h3' : 1 ≤ c.ldc) : symmInfo c = 0 := by
  unfold symmInfo
  rw [if_neg (by omega), if_neg (by omega), if_neg (by omega)]

/-- row-contiguous right-hand side: `cppblas_symm` rewrites to SIDE = R, triangle flipped, M ↔ N -/
theorem symmCore_call_row {pw : Nat} (s : Symm α) (Rm : Mat α) (hr : isRowContig Rm.v = true) :
    (symmCore pw s Rm).call.args =
      { left := false, upper := s.lower, m := Rm.v.d1, n := Rm.v.d0, lda := s.off, ldb := Rm.v.o0,
        ldc := (packRowMajor pw Rm.v.d0 Rm.v.d1).o0 } ∧
    (symmCore pw s Rm).call.a = s.rel ∧ (symmCore pw s Rm).call.b = Rm.rel ∧
    (symmCore pw s Rm).call.pa = ⟨s.buf, s.base⟩ ∧ (symmCore pw s Rm).call.pb = Rm.ptr ∧
    (symmCore pw s Rm).ans.v = packRowMajor pw Rm.v.d0 Rm.v.d1 := by
  simp [symmCore, cppblasSymm, hr]

theorem symmCore_call_col {pw : Nat} (s : Symm α) (Rm : Mat α) (hr : isRowContig Rm.v = false) :
    (symmCore pw s Rm).call.args =
      { left := true, upper := s.lower, m := Rm.v.d0, n := Rm.v.d1, lda := s.off, ldb := Rm.v.o1,
        ldc := (Rm.v.d0 : Int) } ∧
    (symmCore pw s Rm).call.a = s.rel ∧ (symmCore pw s Rm).call.b = Rm.rel ∧
    (symmCore pw s Rm).call.pa = ⟨s.buf, s.base⟩ ∧ (symmCore pw s Rm).call.pb = Rm.ptr ∧
    (symmCore pw s Rm).ans.v = packColMajor Rm.v.d0 Rm.v.d1 := by
  simp [symmCore, cppblasSymm, hr, packColMajor]

theorem symmCore_info {pw : Nat} (hpw : 1 ≤ pw) (s : Symm α) (Rm : Mat α) (hR : Contig Rm.v)
    (hd : s.dim = Rm.v.d0) (hn : 1 ≤ s.dim) (hc : 1 ≤ Rm.v.d1) (hoff : (s.dim : Int) ≤ s.off) :
    symmInfo (symmCore pw s Rm).call.args = 0 := by
  by_cases hr : isRowContig Rm.v = true
  · rw [(symmCore_call_row s Rm hr).1]
    have h1 := ((rowContig_iff _).1 hr).2
    have h3 := packRowMajor_o0_ge hpw Rm.v.d0 Rm.v.d1
    apply symmInfo_zero <;> simp only [SymmArgs.na] <;> (try simp) <;> omega
  · have hr' : isRowContig Rm.v = false := by simpa using hr
    have hcol : isColContig Rm.v = true := by
      rcases hR with h | h
      · exact absurd h hr
      · exact h
    rw [(symmCore_call_col s Rm hr').1]
    have h1 := ((colContig_iff _).1 hcol).2
    apply symmInfo_zero <;> simp only [SymmArgs.na] <;> (try simp) <;> omega

theorem symmCore_get {pw : Nat} (hpw : 1 ≤ pw) (s : Symm α) (Rm : Mat α) (hR : Contig Rm.v)
    (hd : s.dim = Rm.v.d0) (hn : 1 ≤ s.dim) (hc : 1 ≤ Rm.v.d1) (hoff : (s.dim : Int) ≤ s.off)
    {i j : Nat} (hi : i < s.dim) (hj : j < Rm.v.d1) :
    (symmCore pw s Rm).ans.get i j = sumTo (fun l => s.get i l * Rm.get l j) s.dim := by
  have hinfo := symmCore_info hpw s Rm hR hd hn hc hoff
  have hmem : (symmCore pw s Rm).ans.mem =
      symmC (symmCore pw s Rm).call.args (symmCore pw s Rm).call.a (symmCore pw s Rm).call.b (fun _ => 0) := rfl
  show (symmCore pw s Rm).ans.mem ((symmCore pw s Rm).ans.v.addr i j) = _
  rw [hmem]
  unfold symmC
  rw [if_neg (by simpa using hinfo)]
  by_cases hr : isRowContig Rm.v = true
  · obtain ⟨hargs, ha, hb, -, -, hv⟩ := symmCore_call_row (pw := pw) s Rm hr
    have haddr : (symmCore pw s Rm).ans.v.addr i j = (j : Int) + (i : Int) * (packRowMajor pw Rm.v.d0 Rm.v.d1).o0 := by
      rw [hv]; simp only [View2.addr, packRowMajor_base, packRowMajor_o1]; omega
    rw [haddr, ha, hb, hargs]
    simp only
    rw [writeMat_at _ _ hj (by omega) (packRowMajor_o0_ge hpw _ _)]
    unfold symmVal
    simp only [Bool.false_eq_true, if_false]
    rw [← hd]
    apply sumTo_congr
    intro l _
    rw [sym_rel, Symm.get_comm, mul_comm]
    congr 1
    have := addr_row hr l j
    unfold Mat.rel Mat.get
    rw [this]
  · have hr' : isRowContig Rm.v = false := by simpa using hr
    have hcol : isColContig Rm.v = true := by
      rcases hR with h | h
      · exact absurd h hr
      · exact h
    obtain ⟨hargs, ha, hb, -, -, hv⟩ := symmCore_call_col (pw := pw) s Rm hr'
    have haddr : (symmCore pw s Rm).ans.v.addr i j = (i : Int) + (j : Int) * (Rm.v.d0 : Int) := by
      rw [hv]; simp only [View2.addr, packColMajor]; omega
    rw [haddr, ha, hb, hargs]
    simp only
    rw [writeMat_at _ _ (by omega) hj (Int.le_refl _)]
    unfold symmVal
    simp only [if_true]
    rw [← hd]
    apply sumTo_congr
    intro l _
    rw [sym_rel]
    congr 1
    have := addr_col hcol l j
    unfold Mat.rel Mat.get
    rw [this]

theorem symmCore_reads {pw : Nat} (s : Symm α) (Rm : Mat α) (hR : Contig Rm.v) (hd : s.dim = Rm.v.d0) :
    (∀ p ∈ symmReadA (symmCore pw s Rm).call.args,
        ∃ i j, i < s.dim ∧ j < s.dim ∧ (symmCore pw s Rm).call.pa.off + p = s.cell i j) ∧
    (∀ p ∈ symmReadB (symmCore pw s Rm).call.args,
        ∃ l j, l < Rm.v.d0 ∧ j < Rm.v.d1 ∧ (symmCore pw s Rm).call.pb.off + p = Rm.v.addr l j) := by
  by_cases hr : isRowContig Rm.v = true
  · obtain ⟨hargs, -, -, hpa, hpb, -⟩ := symmCore_call_row (pw := pw) s Rm hr
    rw [hargs, hpa, hpb]
    constructor
    · intro p hp
      unfold symmReadA at hp
      split at hp
      · simp at hp
      · simp only [SymmArgs.na, Bool.false_eq_true, if_false] at hp
        rw [hd]; exact symRead_within s _ p hp
    · intro p hp
      unfold symmReadB at hp
      split at hp
      · simp at hp
      · obtain ⟨j, l, hj, hl, rfl⟩ := mem_pairs.1 hp
        simp only at hj hl
        refine ⟨l, j, hl, hj, ?_⟩
        exact (addr_row hr l j).symm
  · have hr' : isRowContig Rm.v = false := by simpa using hr
    have hcol : isColContig Rm.v = true := by
      rcases hR with h | h
      · exact absurd h hr
      · exact h
    obtain ⟨hargs, -, -, hpa, hpb, -⟩ := symmCore_call_col (pw := pw) s Rm hr'
    rw [hargs, hpa, hpb]
    constructor
    · intro p hp
      unfold symmReadA at hp
      split at hp
      · simp at hp
      · simp only [SymmArgs.na, if_true] at hp
        rw [hd]; exact symRead_within s _ p hp
    · intro p hp
      unfold symmReadB at hp
      split at hp
      · simp at hp
      · obtain ⟨l, j, hl, hj, rfl⟩ := mem_pairs.1 hp
        simp only at hj hl
        refine ⟨l, j, hl, hj, ?_⟩
        exact (addr_col hcol l j).symm

end Sym

/-! ### band matrices -/

section BandSec
variable {α : Type} [CommRing α]

theorem Band.T_get (b : Band α) (i j : Nat) : b.T.get j i = b.get i j := by
  unfold Band.get Band.T Band.cell
  cases hb : b.rowMajor <;> simp [or_comm] <;> split_ifs <;> first | rfl | (congr 1; omega)

theorem gbmvInfo_zero (c : GbmvArgs) (h1 : (c.kl : Int) + (c.ku : Int) + 1 ≤ c.lda) (h2 : c.incx ≠ 0) (h3 : c.incy ≠ 0) :
    gbmvInfo c = 0 := by
  unfold gbmvInfo
  rw [if_neg (by omega), if_neg h2, if_neg h3]

/-- the pointer `matmul_band` hands to ?GBMV (with the repair of F-26) -/
def bandStart (b : Band α) : Int := if b.rowMajor then b.base - (b.kl : Int) else b.base - (b.ku : Int)

theorem bandVCore_call_row (b : Band α) (x : Vec α) (hr : b.rowMajor = true) :
    (bandVCore b x).call.args =
      { trans := true, m := b.dim, n := b.dim, kl := b.ku, ku := b.kl, lda := b.off + 1, incx := x.v.o, incy := 1 } ∧
    (bandVCore b x).call.a = (fun p => b.mem (b.base - (b.kl : Int) + p)) ∧
    (bandVCore b x).call.x = (fun p => x.mem (blasVectorStart x.v.base x.v.d x.v.o + p)) ∧
    (bandVCore b x).call.pa = ⟨b.buf, b.base - (b.kl : Int)⟩ ∧
    (bandVCore b x).call.px = ⟨x.buf, blasVectorStart x.v.base x.v.d x.v.o⟩ := by
  simp [bandVCore, bandCall, cppblasGbmv, hr]

theorem bandVCore_call_col (b : Band α) (x : Vec α) (hr : b.rowMajor = false) :
    (bandVCore b x).call.args =
      { trans := false, m := b.dim, n := b.dim, kl := b.kl, ku := b.ku, lda := b.off + 1, incx := x.v.o, incy := 1 } ∧
    (bandVCore b x).call.a = (fun p => b.mem (b.base - (b.ku : Int) + p)) ∧
    (bandVCore b x).call.x = (fun p => x.mem (blasVectorStart x.v.base x.v.d x.v.o + p)) ∧
    (bandVCore b x).call.pa = ⟨b.buf, b.base - (b.ku : Int)⟩ ∧
    (bandVCore b x).call.px = ⟨x.buf, blasVectorStart x.v.base x.v.d x.v.o⟩ := by
  simp [bandVCore, bandCall, cppblasGbmv, hr]

/-- row-major storage seen by Fortran as the transpose: band element `(i,r)` of Fortran's matrix is `B[r,i]` -/
theorem band_term_row (b : Band α) (hr : b.rowMajor = true) (r i : Nat) (y : α) :
    (if inBand b.ku b.kl i r = true then b.mem (b.base - (b.kl : Int) + bandIdx b.kl (b.off + 1) i r) * y else 0) = b.get r i * y := by
  unfold Band.get
  by_cases h : i > r + b.ku ∨ r > i + b.kl
  · have hb : inBand b.ku b.kl i r = false := by
      unfold inBand; simp only [Bool.and_eq_false_imp, decide_eq_true_eq, decide_eq_false_iff_not]; omega
    simp [hb, h]
  · have hb : inBand b.ku b.kl i r = true := by
      unfold inBand; simp only [Bool.and_eq_true, decide_eq_true_eq]; omega
    rw [if_pos hb, if_neg h]
    congr 2
    unfold bandIdx Band.cell
    rw [if_pos hr]
    ring

theorem band_term_col (b : Band α) (hr : b.rowMajor = false) (r j : Nat) (y : α) :
    (if inBand b.kl b.ku r j = true then b.mem (b.base - (b.ku : Int) + bandIdx b.ku (b.off + 1) r j) * y else 0) = b.get r j * y := by
  unfold Band.get
  by_cases h : j > r + b.ku ∨ r > j + b.kl
  · have hb : inBand b.kl b.ku r j = false := by
      unfold inBand; simp only [Bool.and_eq_false_imp, decide_eq_true_eq, decide_eq_false_iff_not]; omega
    simp [hb, h]
  · have hb : inBand b.kl b.ku r j = true := by
      unfold inBand; simp only [Bool.and_eq_true, decide_eq_true_eq]; omega
    rw [if_pos hb, if_neg h]
    congr 2
    unfold bandIdx Band.cell
    rw [if_neg (by simp [hr])]
    ring

theorem bandVCore_info (b : Band α) (x : Vec α) (hoff : (b.kl : Int) + (b.ku : Int) ≤ b.off) (hx : x.v.o ≠ 0) :
    gbmvInfo (bandVCore b x).call.args = 0 := by
  cases hr : b.rowMajor
  · rw [(bandVCore_call_col b x hr).1]
    apply gbmvInfo_zero <;> simp only <;> first | exact hx | omega
  · rw [(bandVCore_call_row b x hr).1]
    apply gbmvInfo_zero <;> simp only <;> first | exact hx | omega

theorem bandVCore_get (b : Band α) (x : Vec α) (hd : b.dim = x.v.d) (hoff : (b.kl : Int) + (b.ku : Int) ≤ b.off)
    (hx : x.v.o ≠ 0) {r : Nat} (hi : r < b.dim) :
    (bandVCore b x).ans.get r = sumTo (fun l => b.get r l * x.get l) b.dim := by
  have hinfo := bandVCore_info b x hoff hx
  have hmem : (bandVCore b x).ans.mem =
      gbmvY (bandVCore b x).call.args (bandVCore b x).call.a (bandVCore b x).call.x (fun _ => 0) := rfl
  have haddr : (bandVCore b x).ans.v.addr r = (r : Int) := by
    show (0 : Int) + (r : Int) * 1 = r
    omega
  show (bandVCore b x).ans.mem ((bandVCore b x).ans.v.addr r) = _
  rw [haddr, hmem]
  unfold gbmvY
  rw [if_neg (by simpa using hinfo)]
  cases hr : b.rowMajor
  · obtain ⟨hargs, ha, hxx, -, -⟩ := bandVCore_call_col b x hr
    rw [ha, hxx, hargs]
    simp only [GbmvArgs.leny, Bool.false_eq_true, if_false]
    rw [writeVec_one _ _ _ hi]
    unfold gbmvVal
    simp only [Bool.false_eq_true, if_false]
    apply sumTo_congr
    intro l _
    rw [hd, vecStart_idx]
    exact band_term_col b hr r l _
  · obtain ⟨hargs, ha, hxx, -, -⟩ := bandVCore_call_row b x hr
    rw [ha, hxx, hargs]
    simp only [GbmvArgs.leny, if_true]
    rw [writeVec_one _ _ _ hi]
    unfold gbmvVal
    simp only [if_true]
    apply sumTo_congr
    intro l _
    rw [hd, vecStart_idx]
    exact band_term_row b hr r l _

/-- ?GBMV reads only stored band elements of the matrix and elements of the vector -/
theorem bandVCore_reads (b : Band α) (x : Vec α) (hd : b.dim = x.v.d) :
    (∀ p ∈ gbmvReadA (bandVCore b x).call.args,
        ∃ i j, i < b.dim ∧ j < b.dim ∧ j ≤ i + b.ku ∧ i ≤ j + b.kl ∧ (bandVCore b x).call.pa.off + p = b.cell i j) ∧
    (∀ p ∈ gbmvReadX (bandVCore b x).call.args,
        ∃ l, l < x.v.d ∧ (bandVCore b x).call.px.off + p = x.v.addr l) := by
  cases hr : b.rowMajor
  · obtain ⟨hargs, -, -, hpa, hpx⟩ := bandVCore_call_col b x hr
    rw [hargs, hpa, hpx]
    constructor
    · intro p hp
      unfold gbmvReadA at hp
      split at hp
      · simp at hp
      · obtain ⟨i, j, hi, hj, hc, rfl⟩ := mem_pairs_flatten.1 hp
        simp only [inBand, Bool.and_eq_true, decide_eq_true_eq] at hc hi hj
        refine ⟨i, j, hi, hj, hc.1, hc.2, ?_⟩
        unfold bandIdx Band.cell
        rw [if_neg (by simp [hr])]
        simp only
        ring
    · intro p hp
      unfold gbmvReadX at hp
      split at hp
      · simp at hp
      · simp only [List.mem_map, List.mem_range, GbmvArgs.lenx, Bool.false_eq_true, if_false] at hp
        obtain ⟨l, hl, rfl⟩ := hp
        rw [hd] at hl ⊢
        exact ⟨l, hl, vecStart_idx _ _ _ _⟩
  · obtain ⟨hargs, -, -, hpa, hpx⟩ := bandVCore_call_row b x hr
    rw [hargs, hpa, hpx]
    constructor
    · intro p hp
      unfold gbmvReadA at hp
      split at hp
      · simp at hp
      · obtain ⟨i, j, hi, hj, hc, rfl⟩ := mem_pairs_flatten.1 hp
        simp only [inBand, Bool.and_eq_true, decide_eq_true_eq] at hc hi hj
        refine ⟨j, i, hj, hi, hc.2, hc.1, ?_⟩
        unfold bandIdx Band.cell
        rw [if_pos hr]
        simp only
        ring
    · intro p hp
      unfold gbmvReadX at hp
      split at hp
      · simp at hp
      · simp only [List.mem_map, List.mem_range, GbmvArgs.lenx, if_true] at hp
        obtain ⟨l, hl, rfl⟩ := hp
        rw [hd] at hl ⊢
        exact ⟨l, hl, vecStart_idx _ _ _ _⟩

end BandSec

/-! ### band · dense matrix: one ?GBMV per column -/

section BandM
variable {α : Type} [CommRing α]

theorem writeVec_pos_hit {len : Nat} {inc : Int} (hinc : 0 < inc) (val : Nat → α) (old : Int → α) {r : Nat} (hr : r < len) :
    writeVec len inc val old ((r : Int) * inc) = val r := by
  unfold writeVec
  have h1 : ((r : Int) * inc) % inc = 0 := Int.mul_emod_left _ _
  have h2 : ((r : Int) * inc) / inc = r := Int.mul_ediv_cancel _ (by omega)
  have h3 : (0 : Int) ≤ (r : Int) * inc := Int.mul_nonneg (Int.natCast_nonneg r) (by omega)
  rw [if_pos hinc, h1, h2]
  have : (0 : Int) ≤ (r : Int) * inc ∧ (0 : Int) = 0 ∧ (r : Int) < len := ⟨h3, rfl, by omega⟩
  simp [this]

theorem writeVec_pos_miss {len : Nat} {inc : Int} (val : Nat → α) (old : Int → α) (r : Nat) {d : Int}
    (hd : d ≠ 0) (hlo : -inc < d) (hhi : d < inc) :
    writeVec len inc val old ((r : Int) * inc + d) = old ((r : Int) * inc + d) := by
  unfold writeVec
  have hinc : 0 < inc := by omega
  have hmod : ((r : Int) * inc + d) % inc ≠ 0 := by
    rw [Int.add_comm, Int.add_mul_emod_self_right]
    by_cases hpos : 0 ≤ d
    · rw [Int.emod_eq_of_lt hpos hhi]; exact hd
    · have h1 : d % inc = (d + inc) % inc := by rw [Int.add_emod_right]
      rw [h1, Int.emod_eq_of_lt (by omega) (by omega)]; omega
  rw [if_pos hinc]
  rw [if_neg (by intro h; exact hmod h.2.1)]

/-- value of result element `r` of one ?GBMV call issued by `matmul_band`, whatever vector it is applied to -/
theorem bandCall_facts (b : Band α) (xmem : Int → α) (xbuf : Buf) (xbase : Int) (xinc : Int) (py : Ptr) (incy : Int)
    (hoff : (b.kl : Int) + (b.ku : Int) ≤ b.off) (hx : xinc ≠ 0) (hy : incy ≠ 0) :
    let c := bandCall b xmem xbuf xbase b.dim xinc py incy
    gbmvInfo c.args = 0 ∧ c.args.leny = b.dim ∧ c.args.incy = incy ∧ c.py = py ∧
    ∀ r, gbmvVal c.args c.a c.x r = sumTo (fun l => b.get r l * xmem (xbase + (l : Int) * xinc)) b.dim := by
  intro c
  cases hr : b.rowMajor
  · have hargs : c.args = { trans := false, m := b.dim, n := b.dim, kl := b.kl, ku := b.ku, lda := b.off + 1, incx := xinc, incy := incy } := by
      simp [c, bandCall, cppblasGbmv, hr]
    have ha : c.a = (fun p => b.mem (b.base - (b.ku : Int) + p)) := by simp [c, bandCall, cppblasGbmv, hr]
    have hxx : c.x = (fun p => xmem (blasVectorStart xbase b.dim xinc + p)) := by simp [c, bandCall, cppblasGbmv, hr]
    have hpy : c.py = py := by simp [c, bandCall, cppblasGbmv, hr]
    refine ⟨?_, ?_, ?_, hpy, ?_⟩
    · rw [hargs]; apply gbmvInfo_zero <;> simp only <;> first | exact hx | exact hy | omega
    · rw [hargs]; simp [GbmvArgs.leny]
    · rw [hargs]
    · intro r
      rw [hargs, ha, hxx]
      unfold gbmvVal
      simp only [Bool.false_eq_true, if_false]
      apply sumTo_congr
      intro l _
      rw [vecStart_idx]
      exact band_term_col b hr r l _
  · have hargs : c.args = { trans := true, m := b.dim, n := b.dim, kl := b.ku, ku := b.kl, lda := b.off + 1, incx := xinc, incy := incy } := by
      simp [c, bandCall, cppblasGbmv, hr]
    have ha : c.a = (fun p => b.mem (b.base - (b.kl : Int) + p)) := by simp [c, bandCall, cppblasGbmv, hr]
    have hxx : c.x = (fun p => xmem (blasVectorStart xbase b.dim xinc + p)) := by simp [c, bandCall, cppblasGbmv, hr]
    have hpy : c.py = py := by simp [c, bandCall, cppblasGbmv, hr]
    refine ⟨?_, ?_, ?_, hpy, ?_⟩
    · rw [hargs]; apply gbmvInfo_zero <;> simp only <;> first | exact hx | exact hy | omega
    · rw [hargs]; simp [GbmvArgs.leny]
    · rw [hargs]
    · intro r
      rw [hargs, ha, hxx]
      unfold gbmvVal
      simp only [if_true]
      apply sumTo_congr
      intro l _
      rw [vecStart_idx]
      exact band_term_row b hr r l _

/-- the call for column `t` of the right-hand side -/
def bandMCall (pw : Nat) (b : Band α) (Rm : Mat α) (t : Nat) : GbmvCall α :=
  bandCall b Rm.mem Rm.buf (Rm.v.base + (t : Int) * Rm.v.o1) Rm.v.d0 Rm.v.o0
    ⟨.C, (t : Int) * (packRowMajor pw Rm.v.d0 Rm.v.d1).o1⟩ (packRowMajor pw Rm.v.d0 Rm.v.d1).o0

/-- effect of the call for column `t` on the cell of result element `(r,i)` -/
theorem bandMStep_at {pw : Nat} (hpw : 1 ≤ pw) (b : Band α) (Rm : Mat α) (hd : b.dim = Rm.v.d0)
    (hoff : (b.kl : Int) + (b.ku : Int) ≤ b.off) (hx : Rm.v.o0 ≠ 0)
    (m : Int → α) {t r i : Nat} (ht : t < Rm.v.d1) (hr : r < b.dim) (hi : i < Rm.v.d1) :
    bandMStep m (bandMCall pw b Rm t) ((r : Int) * (packRowMajor pw Rm.v.d0 Rm.v.d1).o0 + (i : Int)) =
      if i = t then sumTo (fun l => b.get r l * Rm.get l t) b.dim
      else m ((r : Int) * (packRowMajor pw Rm.v.d0 Rm.v.d1).o0 + (i : Int)) := by
  have hld := packRowMajor_o0_ge hpw Rm.v.d0 Rm.v.d1
  have hldpos : 0 < (packRowMajor pw Rm.v.d0 Rm.v.d1).o0 := by omega
  obtain ⟨hinfo, hleny, hincy, hpy, hval⟩ := bandCall_facts b Rm.mem Rm.buf (Rm.v.base + (t : Int) * Rm.v.o1) Rm.v.o0
    ⟨.C, (t : Int) * (packRowMajor pw Rm.v.d0 Rm.v.d1).o1⟩ (packRowMajor pw Rm.v.d0 Rm.v.d1).o0 hoff hx (by omega)
  rw [hd] at hinfo hleny hincy hpy hval
  unfold bandMStep
  have hc' : bandMCall pw b Rm t = bandCall b Rm.mem Rm.buf (Rm.v.base + (t : Int) * Rm.v.o1) Rm.v.d0 Rm.v.o0
    ⟨.C, (t : Int) * (packRowMajor pw Rm.v.d0 Rm.v.d1).o1⟩ (packRowMajor pw Rm.v.d0 Rm.v.d1).o0 := rfl
  rw [hc']
  simp only [packRowMajor_o1, Int.mul_one] at hinfo hleny hincy hpy hval ⊢
  unfold gbmvY
  rw [if_neg (by simpa using hinfo), hleny, hincy, hpy]
  by_cases hit : i = t
  · subst hit
    rw [if_pos rfl]
    have : (r : Int) * (packRowMajor pw Rm.v.d0 Rm.v.d1).o0 + (i : Int) - (i : Int) = (r : Int) * (packRowMajor pw Rm.v.d0 Rm.v.d1).o0 := by omega
    rw [this, writeVec_pos_hit hldpos _ _ (by rw [← hd]; exact hr), hval r, ← hd]
    apply sumTo_congr
    intro l _
    congr 1
    unfold Mat.get View2.addr
    congr 1
    omega
  · rw [if_neg hit]
    have : (r : Int) * (packRowMajor pw Rm.v.d0 Rm.v.d1).o0 + (i : Int) - (t : Int)
        = (r : Int) * (packRowMajor pw Rm.v.d0 Rm.v.d1).o0 + ((i : Int) - (t : Int)) := by omega
    rw [this, writeVec_pos_miss _ _ r (by omega) (by omega) (by omega)]
    congr 1
    dsimp only
    omega

/-- after the calls for the columns `< T` the cells of those columns hold the product, the others are untouched -/
theorem bandM_fold {pw : Nat} (hpw : 1 ≤ pw) (b : Band α) (Rm : Mat α) (hd : b.dim = Rm.v.d0) (hc : 1 ≤ Rm.v.d1)
    (hoff : (b.kl : Int) + (b.ku : Int) ≤ b.off) (hx : Rm.v.o0 ≠ 0) {r i : Nat} (hr : r < b.dim) (hi : i < Rm.v.d1) :
    ∀ T, T ≤ Rm.v.d1 →
      ((List.range T).map (bandMCall pw b Rm)).foldl bandMStep (fun _ => 0)
          ((r : Int) * (packRowMajor pw Rm.v.d0 Rm.v.d1).o0 + (i : Int)) =
        if i < T then sumTo (fun l => b.get r l * Rm.get l i) b.dim else 0
  | 0, _ => by simp
  | T + 1, hT => by
    rw [List.range_succ, List.map_append, List.foldl_append]
    simp only [List.map_cons, List.map_nil, List.foldl_cons, List.foldl_nil]
    rw [bandMStep_at hpw b Rm hd hoff hx _ (by omega) hr hi, bandM_fold hpw b Rm hd hc hoff hx hr hi T (by omega)]
    by_cases h1 : i = T
    · subst h1; simp
    · by_cases h2 : i < T
      · simp [h1, h2, Nat.lt_succ_of_lt h2]
      · have : ¬ i < T + 1 := by omega
        simp [h1, h2, this]

theorem bandMCore_get {pw : Nat} (hpw : 1 ≤ pw) (b : Band α) (Rm : Mat α) (hd : b.dim = Rm.v.d0) (hc : 1 ≤ Rm.v.d1)
    (hoff : (b.kl : Int) + (b.ku : Int) ≤ b.off) (hx : Rm.v.o0 ≠ 0) {r i : Nat} (hr : r < b.dim) (hi : i < Rm.v.d1) :
    (bandMCore pw b Rm).ans.get r i = sumTo (fun l => b.get r l * Rm.get l i) b.dim := by
  have hmem : (bandMCore pw b Rm).ans.mem = ((List.range Rm.v.d1).map (bandMCall pw b Rm)).foldl bandMStep (fun _ => 0) := rfl
  have haddr : (bandMCore pw b Rm).ans.v.addr r i = (r : Int) * (packRowMajor pw Rm.v.d0 Rm.v.d1).o0 + (i : Int) := by
    show (packRowMajor pw Rm.v.d0 Rm.v.d1).addr r i = _
    simp only [View2.addr, packRowMajor_base, packRowMajor_o1]; omega
  show (bandMCore pw b Rm).ans.mem ((bandMCore pw b Rm).ans.v.addr r i) = _
  rw [haddr, hmem, bandM_fold hpw b Rm hd hc hoff hx hr hi _ (Nat.le_refl _), if_pos hi]

theorem bandMCore_info {pw : Nat} (hpw : 1 ≤ pw) (b : Band α) (Rm : Mat α) (hd : b.dim = Rm.v.d0) (hc : 1 ≤ Rm.v.d1)
    (hoff : (b.kl : Int) + (b.ku : Int) ≤ b.off) (hx : Rm.v.o0 ≠ 0) :
    ∀ c ∈ (bandMCore pw b Rm).calls, gbmvInfo c.args = 0 := by
  intro c hcm
  have hcalls : (bandMCore pw b Rm).calls = (List.range Rm.v.d1).map (bandMCall pw b Rm) := rfl
  rw [hcalls] at hcm
  simp only [List.mem_map, List.mem_range] at hcm
  obtain ⟨t, _, rfl⟩ := hcm
  have hld := packRowMajor_o0_ge hpw Rm.v.d0 Rm.v.d1
  have h := (bandCall_facts b Rm.mem Rm.buf (Rm.v.base + (t : Int) * Rm.v.o1) Rm.v.o0
    ⟨.C, (t : Int) * (packRowMajor pw Rm.v.d0 Rm.v.d1).o1⟩ (packRowMajor pw Rm.v.d0 Rm.v.d1).o0 hoff hx (by omega)).1
  rw [hd] at h
  exact h

end BandM

/-! ### pushed derivative statements -/

section Stmts
variable {α : Type} [Add α] [Mul α] [Zero α]

theorem gemmOps_eq (lAct rAct : Bool) (L Rm : Mat α) (i j : Nat) :
    gemmOps lAct rAct L Rm i j =
      (if lAct then (List.range Rm.v.d0).map (fun l => (Rm.get l j, L.buf, L.v.addr i l)) else []) ++
      (if rAct then (List.range Rm.v.d0).map (fun l => (L.get i l, Rm.buf, Rm.v.addr l j)) else []) := by
  unfold gemmOps pushDep
  simp only [List.map_map]
  congr 2
  · apply List.map_congr_left
    intro l _
    simp only [Function.comp, Mat.get, View2.addr]
    have : Rm.v.base + (j : Int) * Rm.v.o1 + (l : Int) * Rm.v.o0 = Rm.v.base + (l : Int) * Rm.v.o0 + (j : Int) * Rm.v.o1 := by omega
    rw [this]
  · apply List.map_congr_left
    intro l _
    simp only [Function.comp, Mat.get, View2.addr]
    have : Rm.v.base + (j : Int) * Rm.v.o1 + (l : Int) * Rm.v.o0 = Rm.v.base + (l : Int) * Rm.v.o0 + (j : Int) * Rm.v.o1 := by omega
    rw [this]

theorem gemvOps_eq (lAct rAct : Bool) (L : Mat α) (x : Vec α) (i : Nat) :
    gemvOps lAct rAct L x i =
      (if lAct then (List.range x.v.d).map (fun l => (x.get l, L.buf, L.v.addr i l)) else []) ++
      (if rAct then (List.range x.v.d).map (fun l => (L.get i l, x.buf, x.v.addr l)) else []) := by
  unfold gemvOps pushDep
  simp only [List.map_map]
  congr 2

end Stmts

end Adept.Matmul
