import AdeptModel.Matmul
import Mathlib.Algebra.Ring.Defs
import Mathlib.Tactic.Ring
import Mathlib.Tactic.Linarith
/-!
Helper lemmas for C15 (matrix multiplication): the BLAS write-back functions, fresh copies, the
row- and column-contiguity predicates, and the five marshalling paths of `AdeptModel/Matmul.lean`.
-/
set_option linter.unusedSectionVars false
set_option linter.unnecessarySeqFocus false
set_option linter.unusedVariables false
namespace Adept.Matmul
open Adept.Blas

/-! ### sums and lists -/

section Basic
variable {α : Type} [Add α] [Mul α] [Zero α]

theorem sumTo_congr {f g : Nat → α} : ∀ {k : Nat}, (∀ l, l < k → f l = g l) → sumTo f k = sumTo g k
  | 0, _ => rfl
  | k + 1, h => by
    simp only [sumTo]
    rw [sumTo_congr (fun l hl => h l (Nat.lt_succ_of_lt hl)), h k (Nat.lt_succ_self k)]

theorem mem_pairs {β : Type} {m n : Nat} {f : Nat → Nat → β} {x : β} :
    x ∈ pairs m n f ↔ ∃ p q, p < m ∧ q < n ∧ x = f p q := by
  simp only [pairs, List.mem_flatMap, List.mem_map, List.mem_range]
  constructor
  · rintro ⟨p, hp, q, hq, rfl⟩; exact ⟨p, q, hp, hq, rfl⟩
  · rintro ⟨p, q, hp, hq, rfl⟩; exact ⟨p, hp, q, hq, rfl⟩

theorem mem_pairs_flatten {β : Type} {m n : Nat} {c : Nat → Nat → Bool} {f : Nat → Nat → β} {x : β} :
    x ∈ (pairs m n (fun p q => if c p q then [f p q] else [])).flatten ↔ ∃ p q, p < m ∧ q < n ∧ c p q = true ∧ x = f p q := by
  simp only [List.mem_flatten, mem_pairs]
  constructor
  · rintro ⟨l, ⟨p, q, hp, hq, rfl⟩, hx⟩
    by_cases h : c p q = true
    · simp [h] at hx; exact ⟨p, q, hp, hq, h, hx⟩
    · simp [h] at hx
  · rintro ⟨p, q, hp, hq, h, rfl⟩
    exact ⟨_, ⟨p, q, hp, hq, rfl⟩, by simp [h]⟩

end Basic

/-! ### write-back of the output argument -/

section Write
variable {α : Type}

theorem writeMat_at {rows cols : Nat} {ld : Int} (val : Nat → Nat → α) (old : Int → α) {i j : Nat}
    (hi : i < rows) (hj : j < cols) (hld : (rows : Int) ≤ ld) :
    writeMat rows cols ld val old ((i : Int) + (j : Int) * ld) = val i j := by
  have hi' : (i : Int) < ld := by omega
  have h0 : (0 : Int) ≤ i := Int.natCast_nonneg i
  have hmod : ((i : Int) + (j : Int) * ld) % ld = i := by
    rw [Int.add_mul_emod_self_right]; exact Int.emod_eq_of_lt h0 hi'
  have hdiv : ((i : Int) + (j : Int) * ld) / ld = j := by
    rw [Int.add_mul_ediv_right _ _ (by omega : ld ≠ 0), Int.ediv_eq_zero_of_lt h0 hi']; simp
  have hnn : (0 : Int) ≤ (i : Int) + (j : Int) * ld :=
    Int.add_nonneg h0 (Int.mul_nonneg (Int.natCast_nonneg j) (by omega))
  unfold writeMat
  rw [hmod, hdiv]
  have : (0 : Int) ≤ (i : Int) + (j : Int) * ld ∧ (i : Int) < rows ∧ (j : Int) < cols := ⟨hnn, by omega, by omega⟩
  simp [this]

theorem writeVec_one (len : Nat) (val : Nat → α) (old : Int → α) {i : Nat} (hi : i < len) :
    writeVec len 1 val old (i : Int) = val i := by
  unfold writeVec
  have : (0 : Int) ≤ (i : Int) ∧ (i : Int) < len := ⟨Int.natCast_nonneg i, by omega⟩
  simp [this]

end Write

/-! ### views -/

theorem packRowMajor_o0_ge {pw : Nat} (hpw : 1 ≤ pw) (d0 d1 : Nat) : (d1 : Int) ≤ (packRowMajor pw d0 d1).o0 := by
  unfold packRowMajor
  simp only
  split
  · have h1 := Nat.div_add_mod (d1 + pw - 1) pw
    have h2 := Nat.mod_lt (d1 + pw - 1) (by omega : pw > 0)
    have h3 : (d1 + pw - 1) / pw * pw = pw * ((d1 + pw - 1) / pw) := Nat.mul_comm _ _
    have : d1 ≤ (d1 + pw - 1) / pw * pw := by omega
    exact_mod_cast this
  · exact Int.le_refl _

theorem packRowMajor_rowContig {pw : Nat} (hpw : 1 ≤ pw) (d0 d1 : Nat) : isRowContig (packRowMajor pw d0 d1) = true := by
  have h := packRowMajor_o0_ge hpw d0 d1
  simp only [isRowContig, Bool.and_eq_true, decide_eq_true_eq]
  exact ⟨rfl, h⟩

@[simp] theorem packRowMajor_d0 (pw d0 d1 : Nat) : (packRowMajor pw d0 d1).d0 = d0 := rfl
@[simp] theorem packRowMajor_d1 (pw d0 d1 : Nat) : (packRowMajor pw d0 d1).d1 = d1 := rfl
@[simp] theorem packRowMajor_o1 (pw d0 d1 : Nat) : (packRowMajor pw d0 d1).o1 = 1 := rfl
@[simp] theorem packRowMajor_base (pw d0 d1 : Nat) : (packRowMajor pw d0 d1).base = 0 := rfl

theorem rowContig_iff (v : View2) : isRowContig v = true ↔ v.o1 = 1 ∧ (v.d1 : Int) ≤ v.o0 := by
  simp [isRowContig]
theorem colContig_iff (v : View2) : isColContig v = true ↔ v.o0 = 1 ∧ (v.d0 : Int) ≤ v.o1 := by
  simp [isColContig]

theorem View2.T_addr (v : View2) (i k : Nat) : v.T.addr i k = v.addr k i := by
  simp only [View2.addr, View2.T]; omega

section Mats
variable {α : Type}

theorem Mat.T_get (A : Mat α) (i k : Nat) : A.T.get i k = A.get k i := by
  simp only [Mat.get, Mat.T, View2.T_addr]

variable [Add α] [Mul α] [Zero α]

theorem freshMat_get {pw : Nat} (hpw : 1 ≤ pw) (d0 d1 : Nat) (g : Nat → Nat → α) {i k : Nat} (hi : i < d0) (hk : k < d1) :
    (freshMat pw d0 d1 g).get i k = g i k := by
  have hge := packRowMajor_o0_ge hpw d0 d1
  have hk' : (k : Int) < (packRowMajor pw d0 d1).o0 := by omega
  have h0 : (0 : Int) ≤ k := Int.natCast_nonneg k
  have haddr : (freshMat pw d0 d1 g).v.addr i k = (k : Int) + (i : Int) * (packRowMajor pw d0 d1).o0 := by
    simp only [freshMat, View2.addr, packRowMajor_base, packRowMajor_o1]; omega
  have hmod : ((k : Int) + (i : Int) * (packRowMajor pw d0 d1).o0) % (packRowMajor pw d0 d1).o0 = k := by
    rw [Int.add_mul_emod_self_right]; exact Int.emod_eq_of_lt h0 hk'
  have hdiv : ((k : Int) + (i : Int) * (packRowMajor pw d0 d1).o0) / (packRowMajor pw d0 d1).o0 = i := by
    rw [Int.add_mul_ediv_right _ _ (by omega), Int.ediv_eq_zero_of_lt h0 hk']; simp
  have hnn : (0 : Int) ≤ (k : Int) + (i : Int) * (packRowMajor pw d0 d1).o0 :=
    Int.add_nonneg h0 (Int.mul_nonneg (Int.natCast_nonneg i) (by omega))
  unfold Mat.get
  rw [haddr]
  simp only [freshMat]
  rw [hmod, hdiv]
  have : (0 : Int) ≤ (k : Int) + (i : Int) * (packRowMajor pw d0 d1).o0 ∧ (k : Int) < d1 ∧ (i : Int) < d0 := ⟨hnn, by omega, by omega⟩
  simp [this]

theorem prep_d0 (pw : Nat) (A : Mat α) : (prep pw A).v.d0 = A.v.d0 := by
  unfold prep; split <;> simp [copyMat, freshMat]
theorem prep_d1 (pw : Nat) (A : Mat α) : (prep pw A).v.d1 = A.v.d1 := by
  unfold prep; split <;> simp [copyMat, freshMat]

theorem prep_contig {pw : Nat} (hpw : 1 ≤ pw) (A : Mat α) :
    isRowContig (prep pw A).v = true ∨ isColContig (prep pw A).v = true := by
  unfold prep
  split
  · left; exact packRowMajor_rowContig hpw _ _
  · rename_i h
    simp only [needsCopy, Bool.and_eq_true, Bool.not_eq_true', not_and, Bool.not_eq_false] at h
    by_cases hr : isRowContig A.v = true
    · exact Or.inl hr
    · right; exact h (by simpa using hr)

theorem prep_get {pw : Nat} (hpw : 1 ≤ pw) (A : Mat α) {i k : Nat} (hi : i < A.v.d0) (hk : k < A.v.d1) :
    (prep pw A).get i k = A.get i k := by
  unfold prep
  split
  · exact freshMat_get hpw _ _ _ hi hk
  · rfl

/-- the operand handed to BLAS is the caller's array itself or a fresh temporary -/
theorem prep_cases (pw : Nat) (A : Mat α) : prep pw A = A ∨ prep pw A = copyMat pw A := by
  unfold prep; split
  · exact Or.inr rfl
  · exact Or.inl rfl

/-- element address of a row- or column-contiguous matrix in the form BLAS uses -/
theorem addr_row {v : View2} (h : isRowContig v = true) (i k : Nat) : v.addr i k = v.base + ((k : Int) + (i : Int) * v.o0) := by
  have := (rowContig_iff v).1 h
  simp only [View2.addr, this.1]; omega
theorem addr_col {v : View2} (h : isColContig v = true) (i k : Nat) : v.addr i k = v.base + ((i : Int) + (k : Int) * v.o1) := by
  have := (colContig_iff v).1 h
  simp only [View2.addr, this.1]; omega

end Mats

/-! ### strided vectors -/

theorem vecStart_idx (base : Int) (n : Nat) (inc : Int) (j : Nat) :
    blasVectorStart base n inc + vecIdx n inc j = base + (j : Int) * inc := by
  unfold blasVectorStart vecIdx kstart
  by_cases h1 : inc > 0
  · have h2 : ¬ inc < 0 := by omega
    simp [h1, h2]
  · by_cases h3 : inc < 0
    · simp only [h1, h3, if_true, if_false]; linarith
    · have : inc = 0 := by omega
      subst this; simp

/-! ### a row- or column-contiguous matrix as BLAS reads it -/

/-- the leading dimension `matmul.h` passes for a row- or column-contiguous matrix -/
def ldOf (v : View2) : Int := if isRowContig v then v.o0 else v.o1

/-- `Contig v`: the matrix can be handed to BLAS in place -/
def Contig (v : View2) : Prop := isRowContig v = true ∨ isColContig v = true

/-- index (relative to `const_data()`) at which BLAS finds element `[i,k]` -/
def blasIdx (v : View2) (i k : Nat) : Int :=
  if isRowContig v then (k : Int) + (i : Int) * ldOf v else (i : Int) + (k : Int) * ldOf v

theorem addr_idx {v : View2} (h : Contig v) (i k : Nat) : v.base + blasIdx v i k = v.addr i k := by
  unfold blasIdx ldOf
  by_cases hr : isRowContig v = true
  · simp only [hr, if_true]; exact (addr_row hr i k).symm
  · have hc : isColContig v = true := by
      rcases h with h | h
      · exact absurd h hr
      · exact h
    simp only [hr]; exact (addr_col hc i k).symm

theorem rel_idx {α : Type} (A : Mat α) (h : Contig A.v) (i k : Nat) : A.rel (blasIdx A.v i k) = A.get i k := by
  unfold Mat.rel Mat.get; rw [addr_idx h]

/-- the leading dimension is at least the extent BLAS requires -/
theorem ldOf_ge {v : View2} (h : Contig v) : (if isRowContig v then (v.d1 : Int) else (v.d0 : Int)) ≤ ldOf v := by
  unfold ldOf
  by_cases hr : isRowContig v = true
  · simp only [hr, if_true]; exact ((rowContig_iff v).1 hr).2
  · have hc : isColContig v = true := by
      rcases h with h | h
      · exact absurd h hr
      · exact h
    simp only [hr]; exact ((colContig_iff v).1 hc).2

/-! ### dense matrix · matrix -/

section Gemm
variable {α : Type} [CommRing α]

/-- normal form of the call issued by the final branch of `matmul_(Array<2>, Array<2>)`: the result is row-major,
    so `cppblas_gemm` always rewrites: Fortran's A is the right operand, its B the left one -/
theorem gemmDense_call {pw : Nat} (hpw : 1 ≤ pw) (L Rm : Mat α) :
    (gemmDense pw L Rm).call.args =
      { ta := !isRowContig Rm.v, tb := !isRowContig L.v, m := Rm.v.d1, n := L.v.d0, k := L.v.d1,
        lda := ldOf Rm.v, ldb := ldOf L.v, ldc := (packRowMajor pw L.v.d0 Rm.v.d1).o0 } ∧
    (gemmDense pw L Rm).call.a = Rm.rel ∧ (gemmDense pw L Rm).call.b = L.rel ∧
    (gemmDense pw L Rm).call.pa = Rm.ptr ∧ (gemmDense pw L Rm).call.pb = L.ptr := by
  have hrow := packRowMajor_rowContig hpw L.v.d0 Rm.v.d1
  simp only [gemmDense, cppblasGemm, hrow, ldOf]
  cases isRowContig L.v <;> cases isRowContig Rm.v <;> simp

theorem gemmAIdx_nf (L Rm : Mat α) (ldc : Int) (j l : Nat) :
    gemmAIdx { ta := !isRowContig Rm.v, tb := !isRowContig L.v, m := Rm.v.d1, n := L.v.d0, k := L.v.d1,
               lda := ldOf Rm.v, ldb := ldOf L.v, ldc := ldc } j l = blasIdx Rm.v l j := by
  unfold gemmAIdx blasIdx; cases isRowContig Rm.v <;> simp
theorem gemmBIdx_nf (L Rm : Mat α) (ldc : Int) (l i : Nat) :
    gemmBIdx { ta := !isRowContig Rm.v, tb := !isRowContig L.v, m := Rm.v.d1, n := L.v.d0, k := L.v.d1,
               lda := ldOf Rm.v, ldb := ldOf L.v, ldc := ldc } l i = blasIdx L.v i l := by
  unfold gemmBIdx blasIdx; cases isRowContig L.v <;> simp

theorem gemmInfo_zero (c : GemmArgs) (h1 : (c.nrowa : Int) ≤ c.lda) (h1' : 1 ≤ c.lda) (h2 : (c.nrowb : Int) ≤ c.ldb) (h2' : 1 ≤ c.ldb)
    (h3 : (c.m : Int) ≤ c.ldc) (h3' : 1 ≤ c.ldc) : gemmInfo c = 0 := by
  unfold gemmInfo
  rw [if_neg (by omega), if_neg (by omega), if_neg (by omega)]

theorem gemmDense_info {pw : Nat} (hpw : 1 ≤ pw) (L Rm : Mat α) (hL : Contig L.v) (hR : Contig Rm.v)
    (hm : 1 ≤ L.v.d0) (hk : 1 ≤ L.v.d1) (hn : 1 ≤ Rm.v.d1) (hkk : L.v.d1 = Rm.v.d0) :
    gemmInfo (gemmDense pw L Rm).call.args = 0 := by
  rw [(gemmDense_call hpw L Rm).1]
  have h1 := ldOf_ge hL
  have h2 := ldOf_ge hR
  have h3 := packRowMajor_o0_ge hpw L.v.d0 Rm.v.d1
  apply gemmInfo_zero <;> simp only [GemmArgs.nrowa, GemmArgs.nrowb] <;>
    cases hl : isRowContig L.v <;> cases hr : isRowContig Rm.v <;> simp [hl, hr] at h1 h2 ⊢ <;> omega

theorem gemmDense_get {pw : Nat} (hpw : 1 ≤ pw) (L Rm : Mat α) (hL : Contig L.v) (hR : Contig Rm.v)
    (hm : 1 ≤ L.v.d0) (hk : 1 ≤ L.v.d1) (hn : 1 ≤ Rm.v.d1) (hkk : L.v.d1 = Rm.v.d0)
    {i j : Nat} (hi : i < L.v.d0) (hj : j < Rm.v.d1) :
    (gemmDense pw L Rm).ans.get i j = sumTo (fun l => L.get i l * Rm.get l j) L.v.d1 := by
  have hinfo := gemmDense_info hpw L Rm hL hR hm hk hn hkk
  obtain ⟨hargs, ha, hb, -, -⟩ := gemmDense_call hpw L Rm
  have hmem : (gemmDense pw L Rm).ans.mem =
      gemmC (gemmDense pw L Rm).call.args (gemmDense pw L Rm).call.a (gemmDense pw L Rm).call.b (fun _ => 0) := rfl
  have hv : (gemmDense pw L Rm).ans.v = packRowMajor pw L.v.d0 Rm.v.d1 := rfl
  have haddr : (gemmDense pw L Rm).ans.v.addr i j = (j : Int) + (i : Int) * (packRowMajor pw L.v.d0 Rm.v.d1).o0 := by
    rw [hv]; simp only [View2.addr, packRowMajor_base, packRowMajor_o1]; omega
  show (gemmDense pw L Rm).ans.mem ((gemmDense pw L Rm).ans.v.addr i j) = _
  rw [haddr, hmem]
  unfold gemmC
  rw [if_neg (by simpa using hinfo), ha, hb, hargs]
  simp only
  rw [writeMat_at _ _ hj hi (packRowMajor_o0_ge hpw _ _)]
  unfold gemmVal
  simp only
  apply sumTo_congr
  intro l _
  rw [gemmAIdx_nf, gemmBIdx_nf, rel_idx Rm hR, rel_idx L hL, mul_comm]

/-- every index ?GEMM reads is an element address of the operand it was given -/
theorem gemmDense_reads {pw : Nat} (hpw : 1 ≤ pw) (L Rm : Mat α) (hL : Contig L.v) (hR : Contig Rm.v) (hkk : L.v.d1 = Rm.v.d0) :
    (∀ p ∈ gemmReadA (gemmDense pw L Rm).call.args,
        ∃ l j, l < Rm.v.d0 ∧ j < Rm.v.d1 ∧ (gemmDense pw L Rm).call.pa.off + p = Rm.v.addr l j) ∧
    (∀ p ∈ gemmReadB (gemmDense pw L Rm).call.args,
        ∃ i l, i < L.v.d0 ∧ l < L.v.d1 ∧ (gemmDense pw L Rm).call.pb.off + p = L.v.addr i l) := by
  obtain ⟨hargs, -, -, hpa, hpb⟩ := gemmDense_call hpw L Rm
  rw [hargs, hpa, hpb]
  constructor
  · intro p hp
    unfold gemmReadA at hp
    split at hp
    · simp at hp
    · obtain ⟨j, l, hj, hl, rfl⟩ := mem_pairs.1 hp
      simp only at hj hl
      refine ⟨l, j, by omega, hj, ?_⟩
      rw [gemmAIdx_nf]; exact addr_idx hR l j
  · intro p hp
    unfold gemmReadB at hp
    split at hp
    · simp at hp
    · obtain ⟨l, i, hl, hi, rfl⟩ := mem_pairs.1 hp
      simp only at hl hi
      refine ⟨i, l, hi, hl, ?_⟩
      rw [gemmBIdx_nf]; exact addr_idx hL i l

end Gemm

/-! ### dense matrix · vector -/

section Gemv
variable {α : Type} [CommRing α]

theorem gemvDense_call (L : Mat α) (x : Vec α) :
    (gemvDense L x).call.args =
      { trans := isRowContig L.v, m := if isRowContig L.v then L.v.d1 else L.v.d0,
        n := if isRowContig L.v then L.v.d0 else L.v.d1, lda := ldOf L.v, incx := x.v.o, incy := 1 } ∧
    (gemvDense L x).call.a = L.rel ∧
    (gemvDense L x).call.x = (fun p => x.mem (blasVectorStart x.v.base x.v.d x.v.o + p)) ∧
    (gemvDense L x).call.pa = L.ptr ∧
    (gemvDense L x).call.px = ⟨x.buf, blasVectorStart x.v.base x.v.d x.v.o⟩ := by
  simp only [gemvDense, cppblasGemv, ldOf]
  cases isRowContig L.v <;> simp

theorem gemvInfo_zero (c : GemvArgs) (h1 : (c.m : Int) ≤ c.lda) (h1' : 1 ≤ c.lda) (h2 : c.incx ≠ 0) (h3 : c.incy ≠ 0) :
    gemvInfo c = 0 := by
  unfold gemvInfo
  rw [if_neg (by omega), if_neg h2, if_neg h3]

/-- the normal-form arguments of the ?GEMV call for a contiguous `L` -/
def gemvNF (L : Mat α) (x : Vec α) : GemvArgs :=
  { trans := isRowContig L.v, m := if isRowContig L.v then L.v.d1 else L.v.d0,
    n := if isRowContig L.v then L.v.d0 else L.v.d1, lda := ldOf L.v, incx := x.v.o, incy := 1 }

theorem gemvNF_lenx (L : Mat α) (x : Vec α) : (gemvNF L x).lenx = L.v.d1 := by
  unfold gemvNF GemvArgs.lenx; cases isRowContig L.v <;> simp
theorem gemvNF_leny (L : Mat α) (x : Vec α) : (gemvNF L x).leny = L.v.d0 := by
  unfold gemvNF GemvArgs.leny; cases isRowContig L.v <;> simp
theorem gemvNF_AIdx (L : Mat α) (x : Vec α) (i j : Nat) : gemvAIdx (gemvNF L x) i j = blasIdx L.v i j := by
  unfold gemvAIdx gemvNF blasIdx; cases isRowContig L.v <;> simp

theorem gemvDense_info (L : Mat α) (x : Vec α) (hL : Contig L.v) (hm : 1 ≤ L.v.d0) (hk : 1 ≤ L.v.d1) (hx : x.v.o ≠ 0) :
    gemvInfo (gemvDense L x).call.args = 0 := by
  rw [(gemvDense_call L x).1]
  have h1 := ldOf_ge hL
  apply gemvInfo_zero <;> simp only <;> first | exact hx | (cases hl : isRowContig L.v <;> simp [hl] at h1 ⊢ <;> omega)

theorem gemvDense_get (L : Mat α) (x : Vec α) (hL : Contig L.v) (hm : 1 ≤ L.v.d0) (hk : 1 ≤ L.v.d1)
    (hkk : L.v.d1 = x.v.d) (hx : x.v.o ≠ 0) {i : Nat} (hi : i < L.v.d0) :
    (gemvDense L x).ans.get i = sumTo (fun l => L.get i l * x.get l) L.v.d1 := by
  have hinfo := gemvDense_info L x hL hm hk hx
  obtain ⟨hargs, ha, hxx, -, -⟩ := gemvDense_call L x
  have hmem : (gemvDense L x).ans.mem =
      gemvY (gemvDense L x).call.args (gemvDense L x).call.a (gemvDense L x).call.x (fun _ => 0) := rfl
  have haddr : (gemvDense L x).ans.v.addr i = (i : Int) := by
    show (0 : Int) + (i : Int) * 1 = i
    omega
  show (gemvDense L x).ans.mem ((gemvDense L x).ans.v.addr i) = _
  rw [haddr, hmem]
  unfold gemvY
  rw [if_neg (by simpa using hinfo), ha, hxx, hargs]
  change writeVec (gemvNF L x).leny 1 (gemvVal (gemvNF L x) L.rel _) _ (i : Int) = _
  rw [writeVec_one _ _ _ (by rw [gemvNF_leny]; exact hi)]
  unfold gemvVal
  rw [gemvNF_lenx]
  apply sumTo_congr
  intro l _
  rw [gemvNF_AIdx, rel_idx L hL]
  have : (gemvNF L x).incx = x.v.o := rfl
  rw [this, hkk]
  beta_reduce
  rw [vecStart_idx]
  rfl

theorem gemvDense_reads (L : Mat α) (x : Vec α) (hL : Contig L.v) (hkk : L.v.d1 = x.v.d) :
    (∀ p ∈ gemvReadA (gemvDense L x).call.args,
        ∃ i l, i < L.v.d0 ∧ l < L.v.d1 ∧ (gemvDense L x).call.pa.off + p = L.v.addr i l) ∧
    (∀ p ∈ gemvReadX (gemvDense L x).call.args,
        ∃ l, l < x.v.d ∧ (gemvDense L x).call.px.off + p = x.v.addr l) := by
  obtain ⟨hargs, -, -, hpa, hpx⟩ := gemvDense_call L x
  rw [hargs, hpa, hpx]
  change (∀ p ∈ gemvReadA (gemvNF L x), _) ∧ (∀ p ∈ gemvReadX (gemvNF L x), _)
  constructor
  · intro p hp
    unfold gemvReadA at hp
    split at hp
    · simp at hp
    · obtain ⟨i, l, hi, hl, rfl⟩ := mem_pairs.1 hp
      rw [gemvNF_leny] at hi
      rw [gemvNF_lenx] at hl
      refine ⟨i, l, hi, hl, ?_⟩
      rw [gemvNF_AIdx]; exact addr_idx hL i l
  · intro p hp
    unfold gemvReadX at hp
    split at hp
    · simp at hp
    · simp only [List.mem_map, List.mem_range] at hp
      obtain ⟨l, hl, rfl⟩ := hp
      rw [gemvNF_lenx] at hl ⊢
      refine ⟨l, by omega, ?_⟩
      have : (gemvNF L x).incx = x.v.o := rfl
      rw [this, hkk]
      exact vecStart_idx _ _ _ _

end Gemv

/-! ### symmetric matrices -/

section Sym
variable {α : Type} [CommRing α]

theorem symIdx_cell (s : Symm α) (i j : Nat) : s.base + symIdx s.lower s.off i j = s.cell i j := by
  unfold symIdx symStored Symm.cell
  rcases Nat.lt_trichotomy i j with h | h | h
  · have h1 : i ≤ j := by omega
    have h2 : ¬ j ≤ i := by omega
    cases s.lower <;> simp [h1, h2] <;> omega
  · subst h; cases s.lower <;> simp <;> omega
  · have h1 : ¬ i ≤ j := by omega
    have h2 : j ≤ i := by omega
    cases s.lower <;> simp [h1, h2] <;> omega

theorem cell_comm (s : Symm α) (i j : Nat) : s.cell i j = s.cell j i := by
  unfold Symm.cell
  rcases Nat.lt_trichotomy i j with h | h | h
  · have h1 : i ≤ j := by omega
    have h2 : ¬ j ≤ i := by omega
    cases s.lower <;> simp [h1, h2] <;> omega
  · subst h; rfl
  · have h1 : ¬ i ≤ j := by omega
    have h2 : j ≤ i := by omega
    cases s.lower <;> simp [h1, h2] <;> omega

theorem Symm.get_comm (s : Symm α) (i j : Nat) : s.get i j = s.get j i := by
  unfold Symm.get; rw [cell_comm]

theorem sym_rel (s : Symm α) (i j : Nat) : s.rel (symIdx s.lower s.off i j) = s.get i j := by
  unfold Symm.rel Symm.get; rw [symIdx_cell]

/-- the stored triangle lies inside the matrix -/
theorem symRead_within (s : Symm α) (n : Nat) :
    ∀ p ∈ symRead s.lower n s.off, ∃ i j, i < n ∧ j < n ∧ s.base + p = s.cell i j := by
  intro p hp
  unfold symRead at hp
  obtain ⟨a, b, ha, hb, hc, rfl⟩ := mem_pairs_flatten.1 hp
  refine ⟨a, b, ha, hb, ?_⟩
  rw [← symIdx_cell]
  unfold symIdx
  rw [if_pos hc]

theorem symvInfo_zero (c : SymvArgs) (h1 : (c.n : Int) ≤ c.lda) (h1' : 1 ≤ c.lda) (h2 : c.incx ≠ 0) (h3 : c.incy ≠ 0) :
    symvInfo c = 0 := by
  unfold symvInfo
  rw [if_neg (by omega), if_neg h2, if_neg h3]

theorem symvCore_call (s : Symm α) (x : Vec α) :
    (symvCore s x).call.args = { upper := s.lower, n := x.v.d, lda := s.off, incx := x.v.o, incy := 1 } ∧
    (symvCore s x).call.a = s.rel ∧
    (symvCore s x).call.x = (fun p => x.mem (blasVectorStart x.v.base x.v.d x.v.o + p)) ∧
    (symvCore s x).call.pa = ⟨s.buf, s.base⟩ ∧
    (symvCore s x).call.px = ⟨x.buf, blasVectorStart x.v.base x.v.d x.v.o⟩ := by
  simp [symvCore, cppblasSymv]

theorem symvCore_info (s : Symm α) (x : Vec α) (hd : s.dim = x.v.d) (hn : 1 ≤ s.dim) (hoff : (s.dim : Int) ≤ s.off) (hx : x.v.o ≠ 0) :
    symvInfo (symvCore s x).call.args = 0 := by
  rw [(symvCore_call s x).1]
  apply symvInfo_zero <;> simp only <;> first | exact hx | omega

theorem symvCore_get (s : Symm α) (x : Vec α) (hd : s.dim = x.v.d) (hn : 1 ≤ s.dim) (hoff : (s.dim : Int) ≤ s.off)
    (hx : x.v.o ≠ 0) {i : Nat} (hi : i < s.dim) :
    (symvCore s x).ans.get i = sumTo (fun l => s.get i l * x.get l) s.dim := by
  have hinfo := symvCore_info s x hd hn hoff hx
  obtain ⟨hargs, ha, hxx, -, -⟩ := symvCore_call s x
  have hmem : (symvCore s x).ans.mem =
      symvY (symvCore s x).call.args (symvCore s x).call.a (symvCore s x).call.x (fun _ => 0) := rfl
  have haddr : (symvCore s x).ans.v.addr i = (i : Int) := by
    show (0 : Int) + (i : Int) * 1 = i
    omega
  show (symvCore s x).ans.mem ((symvCore s x).ans.v.addr i) = _
  rw [haddr, hmem]
  unfold symvY
  rw [if_neg (by simpa using hinfo), ha, hxx, hargs]
  simp only
  rw [writeVec_one _ _ _ (by omega)]
  unfold symvVal
  simp only
  rw [← hd]
  apply sumTo_congr
  intro l _
  rw [sym_rel, hd, vecStart_idx]
  rfl

theorem symvCore_reads (s : Symm α) (x : Vec α) (hd : s.dim = x.v.d) :
    (∀ p ∈ symvReadA (symvCore s x).call.args,
        ∃ i j, i < s.dim ∧ j < s.dim ∧ (symvCore s x).call.pa.off + p = s.cell i j) ∧
    (∀ p ∈ symvReadX (symvCore s x).call.args,
        ∃ l, l < x.v.d ∧ (symvCore s x).call.px.off + p = x.v.addr l) := by
  obtain ⟨hargs, -, -, hpa, hpx⟩ := symvCore_call s x
  rw [hargs, hpa, hpx]
  constructor
  · intro p hp
    unfold symvReadA at hp
    split at hp
    · simp at hp
    · simp only at hp
      rw [hd]
      exact symRead_within s _ p hp
  · intro p hp
    unfold symvReadX at hp
    split at hp
    · simp at hp
    · simp only [List.mem_map, List.mem_range] at hp
      obtain ⟨l, hl, rfl⟩ := hp
      exact ⟨l, hl, vecStart_idx _ _ _ _⟩

/-! symmetric · dense matrix -/

theorem symmInfo_zero (c : SymmArgs) (h1 : (c.na : Int) ≤ c.lda) (h1' : 1 ≤ c.lda) (h2 : (c.m : Int) ≤ c.ldb) (h2' : 1 ≤ c.ldb)
    (h3 : (c.m : Int) ≤ c.ldc) (h3' : 1 ≤ c.ldc) : symmInfo c = 0 := by
  unfold symmInfo
  rw [if_neg (by omega), if_neg (by omega), if_neg (by omega)]

/-- row-contiguous right-hand side: `cppblas_symm` rewrites to SIDE = R, triangle flipped, M ↔ N -/
theorem symmCore_call_row {pw : Nat} (s : Symm α) (Rm : Mat α) (hr : isRowContig Rm.v = true) :
    (symmCore pw s Rm).call.args =
      { left := false, upper := s.lower, m := Rm.v.d1, n := Rm.v.d0, lda := s.off, ldb := Rm.v.o0,
        ldc := (packRowMajor pw Rm.v.d0 Rm.v.d1).o0 } ∧
    (symmCore pw s Rm).call.a = s.rel ∧ (symmCore pw s Rm).call.b = Rm.rel ∧
    (symmCore pw s Rm).call.pa = ⟨s.buf, s.base⟩ ∧ (symmCore pw s Rm).call.pb = Rm.ptr ∧
    (symmCore pw s Rm).ans.v = packRowMajor pw Rm.v.d0 Rm.v.d1 := by
  simp [symmCore, cppblasSymm, hr]

theorem symmCore_call_col {pw : Nat} (s : Symm α) (Rm : Mat α) (hr : isRowContig Rm.v = false) :
    (symmCore pw s Rm).call.args =
      { left := true, upper := s.lower, m := Rm.v.d0, n := Rm.v.d1, lda := s.off, ldb := Rm.v.o1,
        ldc := (Rm.v.d0 : Int) } ∧
    (symmCore pw s Rm).call.a = s.rel ∧ (symmCore pw s Rm).call.b = Rm.rel ∧
    (symmCore pw s Rm).call.pa = ⟨s.buf, s.base⟩ ∧ (symmCore pw s Rm).call.pb = Rm.ptr ∧
    (symmCore pw s Rm).ans.v = packColMajor Rm.v.d0 Rm.v.d1 := by
  simp [symmCore, cppblasSymm, hr, packColMajor]

theorem symmCore_info {pw : Nat} (hpw : 1 ≤ pw) (s : Symm α) (Rm : Mat α) (hR : Contig Rm.v)
    (hd : s.dim = Rm.v.d0) (hn : 1 ≤ s.dim) (hc : 1 ≤ Rm.v.d1) (hoff : (s.dim : Int) ≤ s.off) :
    symmInfo (symmCore pw s Rm).call.args = 0 := by
  by_cases hr : isRowContig Rm.v = true
  · rw [(symmCore_call_row s Rm hr).1]
    have h1 := ((rowContig_iff _).1 hr).2
    have h3 := packRowMajor_o0_ge hpw Rm.v.d0 Rm.v.d1
    apply symmInfo_zero <;> simp only [SymmArgs.na] <;> (try simp) <;> omega
  · have hr' : isRowContig Rm.v = false := by simpa using hr
    have hcol : isColContig Rm.v = true := by
      rcases hR with h | h
      · exact absurd h hr
      · exact h
    rw [(symmCore_call_col s Rm hr').1]
    have h1 := ((colContig_iff _).1 hcol).2
    apply symmInfo_zero <;> simp only [SymmArgs.na] <;> (try simp) <;> omega

theorem symmCore_get {pw : Nat} (hpw : 1 ≤ pw) (s : Symm α) (Rm : Mat α) (hR : Contig Rm.v)
    (hd : s.dim = Rm.v.d0) (hn : 1 ≤ s.dim) (hc : 1 ≤ Rm.v.d1) (hoff : (s.dim : Int) ≤ s.off)
    {i j : Nat} (hi : i < s.dim) (hj : j < Rm.v.d1) :
    (symmCore pw s Rm).ans.get i j = sumTo (fun l => s.get i l * Rm.get l j) s.dim := by
  have hinfo := symmCore_info hpw s Rm hR hd hn hc hoff
  have hmem : (symmCore pw s Rm).ans.mem =
      symmC (symmCore pw s Rm).call.args (symmCore pw s Rm).call.a (symmCore pw s Rm).call.b (fun _ => 0) := rfl
  show (symmCore pw s Rm).ans.mem ((symmCore pw s Rm).ans.v.addr i j) = _
  rw [hmem]
  unfold symmC
  rw [if_neg (by simpa using hinfo)]
  by_cases hr : isRowContig Rm.v = true
  · obtain ⟨hargs, ha, hb, -, -, hv⟩ := symmCore_call_row (pw := pw) s Rm hr
    have haddr : (symmCore pw s Rm).ans.v.addr i j = (j : Int) + (i : Int) * (packRowMajor pw Rm.v.d0 Rm.v.d1).o0 := by
      rw [hv]; simp only [View2.addr, packRowMajor_base, packRowMajor_o1]; omega
    rw [haddr, ha, hb, hargs]
    simp only
    rw [writeMat_at _ _ hj (by omega) (packRowMajor_o0_ge hpw _ _)]
    unfold symmVal
    simp only [Bool.false_eq_true, if_false]
    rw [← hd]
    apply sumTo_congr
    intro l _
    rw [sym_rel, Symm.get_comm, mul_comm]
    congr 1
    have := addr_row hr l j
    unfold Mat.rel Mat.get
    rw [this]
  · have hr' : isRowContig Rm.v = false := by simpa using hr
    have hcol : isColContig Rm.v = true := by
      rcases hR with h | h
      · exact absurd h hr
      · exact h
    obtain ⟨hargs, ha, hb, -, -, hv⟩ := symmCore_call_col (pw := pw) s Rm hr'
    have haddr : (symmCore pw s Rm).ans.v.addr i j = (i : Int) + (j : Int) * (Rm.v.d0 : Int) := by
      rw [hv]; simp only [View2.addr, packColMajor]; omega
    rw [haddr, ha, hb, hargs]
    simp only
    rw [writeMat_at _ _ (by omega) hj (Int.le_refl _)]
    unfold symmVal
    simp only [if_true]
    rw [← hd]
    apply sumTo_congr
    intro l _
    rw [sym_rel]
    congr 1
    have := addr_col hcol l j
    unfold Mat.rel Mat.get
    rw [this]

theorem symmCore_reads {pw : Nat} (s : Symm α) (Rm : Mat α) (hR : Contig Rm.v) (hd : s.dim = Rm.v.d0) :
    (∀ p ∈ symmReadA (symmCore pw s Rm).call.args,
        ∃ i j, i < s.dim ∧ j < s.dim ∧ (symmCore pw s Rm).call.pa.off + p = s.cell i j) ∧
    (∀ p ∈ symmReadB (symmCore pw s Rm).call.args,
        ∃ l j, l < Rm.v.d0 ∧ j < Rm.v.d1 ∧ (symmCore pw s Rm).call.pb.off + p = Rm.v.addr l j) := by
  by_cases hr : isRowContig Rm.v = true
  · obtain ⟨hargs, -, -, hpa, hpb, -⟩ := symmCore_call_row (pw := pw) s Rm hr
    rw [hargs, hpa, hpb]
    constructor
    · intro p hp
      unfold symmReadA at hp
      split at hp
      · simp at hp
      · simp only [SymmArgs.na, Bool.false_eq_true, if_false] at hp
        rw [hd]; exact symRead_within s _ p hp
    · intro p hp
      unfold symmReadB at hp
      split at hp
      · simp at hp
      · obtain ⟨j, l, hj, hl, rfl⟩ := mem_pairs.1 hp
        simp only at hj hl
        refine ⟨l, j, hl, hj, ?_⟩
        exact (addr_row hr l j).symm
  · have hr' : isRowContig Rm.v = false := by simpa using hr
    have hcol : isColContig Rm.v = true := by
      rcases hR with h | h
      · exact absurd h hr
      · exact h
    obtain ⟨hargs, -, -, hpa, hpb, -⟩ := symmCore_call_col (pw := pw) s Rm hr'
    rw [hargs, hpa, hpb]
    constructor
    · intro p hp
      unfold symmReadA at hp
      split at hp
      · simp at hp
      · simp only [SymmArgs.na, if_true] at hp
        rw [hd]; exact symRead_within s _ p hp
    · intro p hp
      unfold symmReadB at hp
      split at hp
      · simp at hp
      · obtain ⟨l, j, hl, hj, rfl⟩ := mem_pairs.1 hp
        simp only at hj hl
        refine ⟨l, j, hl, hj, ?_⟩
        exact (addr_col hcol l j).symm

end Sym

/-! ### band matrices -/

section BandSec
variable {α : Type} [CommRing α]

theorem Band.T_get (b : Band α) (i j : Nat) : b.T.get j i = b.get i j := by
  unfold Band.get Band.T Band.cell
  cases hb : b.rowMajor <;> simp [or_comm] <;> split_ifs <;> first | rfl | (congr 1; omega)

theorem gbmvInfo_zero (c : GbmvArgs) (h1 : (c.kl : Int) + (c.ku : Int) + 1 ≤ c.lda) (h2 : c.incx ≠ 0) (h3 : c.incy ≠ 0) :
    gbmvInfo c = 0 := by
  unfold gbmvInfo
  rw [if_neg (by omega), if_neg h2, if_neg h3]

/-- the pointer `matmul_band` hands to ?GBMV (with the repair of F-26) -/
def bandStart (b : Band α) : Int := if b.rowMajor then b.base - (b.kl : Int) else b.base - (b.ku : Int)

theorem bandVCore_call_row (b : Band α) (x : Vec α) (hr : b.rowMajor = true) :
    (bandVCore b x).call.args =
      { trans := true, m := b.dim, n := b.dim, kl := b.ku, ku := b.kl, lda := b.off + 1, incx := x.v.o, incy := 1 } ∧
    (bandVCore b x).call.a = (fun p => b.mem (b.base - (b.kl : Int) + p)) ∧
    (bandVCore b x).call.x = (fun p => x.mem (blasVectorStart x.v.base x.v.d x.v.o + p)) ∧
    (bandVCore b x).call.pa = ⟨b.buf, b.base - (b.kl : Int)⟩ ∧
    (bandVCore b x).call.px = ⟨x.buf, blasVectorStart x.v.base x.v.d x.v.o⟩ := by
  simp [bandVCore, bandCall, cppblasGbmv, hr]

theorem bandVCore_call_col (b : Band α) (x : Vec α) (hr : b.rowMajor = false) :
    (bandVCore b x).call.args =
      { trans := false, m := b.dim, n := b.dim, kl := b.kl, ku := b.ku, lda := b.off + 1, incx := x.v.o, incy := 1 } ∧
    (bandVCore b x).call.a = (fun p => b.mem (b.base - (b.ku : Int) + p)) ∧
    (bandVCore b x).call.x = (fun p => x.mem (blasVectorStart x.v.base x.v.d x.v.o + p)) ∧
    (bandVCore b x).call.pa = ⟨b.buf, b.base - (b.ku : Int)⟩ ∧
    (bandVCore b x).call.px = ⟨x.buf, blasVectorStart x.v.base x.v.d x.v.o⟩ := by
  simp [bandVCore, bandCall, cppblasGbmv, hr]

/-- row-major storage seen by Fortran as the transpose: band element `(i,r)` of Fortran's matrix is `B[r,i]` -/
theorem band_term_row (b : Band α) (hr : b.rowMajor = true) (r i : Nat) (y : α) :
    (if inBand b.ku b.kl i r = true then b.mem (b.base - (b.kl : Int) + bandIdx b.kl (b.off + 1) i r) * y else 0) = b.get r i * y := by
  unfold Band.get
  by_cases h : i > r + b.ku ∨ r > i + b.kl
  · have hb : inBand b.ku b.kl i r = false := by
      unfold inBand; simp only [Bool.and_eq_false_imp, decide_eq_true_eq, decide_eq_false_iff_not]; omega
    simp [hb, h]
  · have hb : inBand b.ku b.kl i r = true := by
      unfold inBand; simp only [Bool.and_eq_true, decide_eq_true_eq]; omega
    rw [if_pos hb, if_neg h]
    congr 2
    unfold bandIdx Band.cell
    rw [if_pos hr]
    ring

theorem band_term_col (b : Band α) (hr : b.rowMajor = false) (r j : Nat) (y : α) :
    (if inBand b.kl b.ku r j = true then b.mem (b.base - (b.ku : Int) + bandIdx b.ku (b.off + 1) r j) * y else 0) = b.get r j * y := by
  unfold Band.get
  by_cases h : j > r + b.ku ∨ r > j + b.kl
  · have hb : inBand b.kl b.ku r j = false := by
      unfold inBand; simp only [Bool.and_eq_false_imp, decide_eq_true_eq, decide_eq_false_iff_not]; omega
    simp [hb, h]
  · have hb : inBand b.kl b.ku r j = true := by
      unfold inBand; simp only [Bool.and_eq_true, decide_eq_true_eq]; omega
    rw [if_pos hb, if_neg h]
    congr 2
    unfold bandIdx Band.cell
    rw [if_neg (by simp [hr])]
    ring

theorem bandVCore_info (b : Band α) (x : Vec α) (hoff : (b.kl : Int) + (b.ku : Int) ≤ b.off) (hx : x.v.o ≠ 0) :
    gbmvInfo (bandVCore b x).call.args = 0 := by
  cases hr : b.rowMajor
  · rw [(bandVCore_call_col b x hr).1]
    apply gbmvInfo_zero <;> simp only <;> first | exact hx | omega
  · rw [(bandVCore_call_row b x hr).1]
    apply gbmvInfo_zero <;> simp only <;> first | exact hx | omega

theorem bandVCore_get (b : Band α) (x : Vec α) (hd : b.dim = x.v.d) (hoff : (b.kl : Int) + (b.ku : Int) ≤ b.off)
    (hx : x.v.o ≠ 0) {r : Nat} (hi : r < b.dim) :
    (bandVCore b x).ans.get r = sumTo (fun l => b.get r l * x.get l) b.dim := by
  have hinfo := bandVCore_info b x hoff hx
  have hmem : (bandVCore b x).ans.mem =
      gbmvY (bandVCore b x).call.args (bandVCore b x).call.a (bandVCore b x).call.x (fun _ => 0) := rfl
  have haddr : (bandVCore b x).ans.v.addr r = (r : Int) := by
    show (0 : Int) + (r : Int) * 1 = r
    omega
  show (bandVCore b x).ans.mem ((bandVCore b x).ans.v.addr r) = _
  rw [haddr, hmem]
  unfold gbmvY
  rw [if_neg (by simpa using hinfo)]
  cases hr : b.rowMajor
  · obtain ⟨hargs, ha, hxx, -, -⟩ := bandVCore_call_col b x hr
    rw [ha, hxx, hargs]
    simp only [GbmvArgs.leny, Bool.false_eq_true, if_false]
    rw [writeVec_one _ _ _ hi]
    unfold gbmvVal
    simp only [Bool.false_eq_true, if_false]
    apply sumTo_congr
    intro l _
    rw [hd, vecStart_idx]
    exact band_term_col b hr r l _
  · obtain ⟨hargs, ha, hxx, -, -⟩ := bandVCore_call_row b x hr
    rw [ha, hxx, hargs]
    simp only [GbmvArgs.leny, if_true]
    rw [writeVec_one _ _ _ hi]
    unfold gbmvVal
    simp only [if_true]
    apply sumTo_congr
    intro l _
    rw [hd, vecStart_idx]
    exact band_term_row b hr r l _

/-- ?GBMV reads only stored band elements of the matrix and elements of the vector -/
theorem bandVCore_reads (b : Band α) (x : Vec α) (hd : b.dim = x.v.d) :
    (∀ p ∈ gbmvReadA (bandVCore b x).call.args,
        ∃ i j, i < b.dim ∧ j < b.dim ∧ j ≤ i + b.ku ∧ i ≤ j + b.kl ∧ (bandVCore b x).call.pa.off + p = b.cell i j) ∧
    (∀ p ∈ gbmvReadX (bandVCore b x).call.args,
        ∃ l, l < x.v.d ∧ (bandVCore b x).call.px.off + p = x.v.addr l) := by
  cases hr : b.rowMajor
  · obtain ⟨hargs, -, -, hpa, hpx⟩ := bandVCore_call_col b x hr
    rw [hargs, hpa, hpx]
    constructor
    · intro p hp
      unfold gbmvReadA at hp
      split at hp
      · simp at hp
      · obtain ⟨i, j, hi, hj, hc, rfl⟩ := mem_pairs_flatten.1 hp
        simp only [inBand, Bool.and_eq_true, decide_eq_true_eq] at hc hi hj
        refine ⟨i, j, hi, hj, hc.1, hc.2, ?_⟩
        unfold bandIdx Band.cell
        rw [if_neg (by simp [hr])]
        simp only
        ring
    · intro p hp
      unfold gbmvReadX at hp
      split at hp
      · simp at hp
      · simp only [List.mem_map, List.mem_range, GbmvArgs.lenx, Bool.false_eq_true, if_false] at hp
        obtain ⟨l, hl, rfl⟩ := hp
        rw [hd] at hl ⊢
        exact ⟨l, hl, vecStart_idx _ _ _ _⟩
  · obtain ⟨hargs, -, -, hpa, hpx⟩ := bandVCore_call_row b x hr
    rw [hargs, hpa, hpx]
    constructor
    · intro p hp
      unfold gbmvReadA at hp
      split at hp
      · simp at hp
      · obtain ⟨i, j, hi, hj, hc, rfl⟩ := mem_pairs_flatten.1 hp
        simp only [inBand, Bool.and_eq_true, decide_eq_true_eq] at hc hi hj
        refine ⟨j, i, hj, hi, hc.2, hc.1, ?_⟩
        unfold bandIdx Band.cell
        rw [if_pos hr]
        simp only
        ring
    · intro p hp
      unfold gbmvReadX at hp
      split at hp
      · simp at hp
      · simp only [List.mem_map, List.mem_range, GbmvArgs.lenx, if_true] at hp
        obtain ⟨l, hl, rfl⟩ := hp
        rw [hd] at hl ⊢
        exact ⟨l, hl, vecStart_idx _ _ _ _⟩

end BandSec

/-! ### band · dense matrix: one ?GBMV per column -/

section BandM
variable {α : Type} [CommRing α]

theorem writeVec_pos_hit {len : Nat} {inc : Int} (hinc : 0 < inc) (val : Nat → α) (old : Int → α) {r : Nat} (hr : r < len) :
    writeVec len inc val old ((r : Int) * inc) = val r := by
  unfold writeVec
  have h1 : ((r : Int) * inc) % inc = 0 := Int.mul_emod_left _ _
  have h2 : ((r : Int) * inc) / inc = r := Int.mul_ediv_cancel _ (by omega)
  have h3 : (0 : Int) ≤ (r : Int) * inc := Int.mul_nonneg (Int.natCast_nonneg r) (by omega)
  rw [if_pos hinc, h1, h2]
  have : (0 : Int) ≤ (r : Int) * inc ∧ (0 : Int) = 0 ∧ (r : Int) < len := ⟨h3, rfl, by omega⟩
  simp [this]

theorem writeVec_pos_miss {len : Nat} {inc : Int} (val : Nat → α) (old : Int → α) (r : Nat) {d : Int}
    (hd : d ≠ 0) (hlo : -inc < d) (hhi : d < inc) :
    writeVec len inc val old ((r : Int) * inc + d) = old ((r : Int) * inc + d) := by
  unfold writeVec
  have hinc : 0 < inc := by omega
  have hmod : ((r : Int) * inc + d) % inc ≠ 0 := by
    rw [Int.add_comm, Int.add_mul_emod_self_right]
    by_cases hpos : 0 ≤ d
    · rw [Int.emod_eq_of_lt hpos hhi]; exact hd
    · have h1 : d % inc = (d + inc) % inc := by rw [Int.add_emod_right]
      rw [h1, Int.emod_eq_of_lt (by omega) (by omega)]; omega
  rw [if_pos hinc]
  rw [if_neg (by intro h; exact hmod h.2.1)]

/-- value of result element `r` of one ?GBMV call issued by `matmul_band`, whatever vector it is applied to -/
theorem bandCall_facts (b : Band α) (xmem : Int → α) (xbuf : Buf) (xbase : Int) (xinc : Int) (py : Ptr) (incy : Int)
    (hoff : (b.kl : Int) + (b.ku : Int) ≤ b.off) (hx : xinc ≠ 0) (hy : incy ≠ 0) :
    let c := bandCall b xmem xbuf xbase b.dim xinc py incy
    gbmvInfo c.args = 0 ∧ c.args.leny = b.dim ∧ c.args.incy = incy ∧ c.py = py ∧
    ∀ r, gbmvVal c.args c.a c.x r = sumTo (fun l => b.get r l * xmem (xbase + (l : Int) * xinc)) b.dim := by
  intro c
  cases hr : b.rowMajor
  · have hargs : c.args = { trans := false, m := b.dim, n := b.dim, kl := b.kl, ku := b.ku, lda := b.off + 1, incx := xinc, incy := incy } := by
      simp [c, bandCall, cppblasGbmv, hr]
    have ha : c.a = (fun p => b.mem (b.base - (b.ku : Int) + p)) := by simp [c, bandCall, cppblasGbmv, hr]
    have hxx : c.x = (fun p => xmem (blasVectorStart xbase b.dim xinc + p)) := by simp [c, bandCall, cppblasGbmv, hr]
    have hpy : c.py = py := by simp [c, bandCall, cppblasGbmv, hr]
    refine ⟨?_, ?_, ?_, hpy, ?_⟩
    · rw [hargs]; apply gbmvInfo_zero <;> simp only <;> first | exact hx | exact hy | omega
    · rw [hargs]; simp [GbmvArgs.leny]
    · rw [hargs]
    · intro r
      rw [hargs, ha, hxx]
      unfold gbmvVal
      simp only [Bool.false_eq_true, if_false]
      apply sumTo_congr
      intro l _
      rw [vecStart_idx]
      exact band_term_col b hr r l _
  · have hargs : c.args = { trans := true, m := b.dim, n := b.dim, kl := b.ku, ku := b.kl, lda := b.off + 1, incx := xinc, incy := incy } := by
      simp [c, bandCall, cppblasGbmv, hr]
    have ha : c.a = (fun p => b.mem (b.base - (b.kl : Int) + p)) := by simp [c, bandCall, cppblasGbmv, hr]
    have hxx : c.x = (fun p => xmem (blasVectorStart xbase b.dim xinc + p)) := by simp [c, bandCall, cppblasGbmv, hr]
    have hpy : c.py = py := by simp [c, bandCall, cppblasGbmv, hr]
    refine ⟨?_, ?_, ?_, hpy, ?_⟩
    · rw [hargs]; apply gbmvInfo_zero <;> simp only <;> first | exact hx | exact hy | omega
    · rw [hargs]; simp [GbmvArgs.leny]
    · rw [hargs]
    · intro r
      rw [hargs, ha, hxx]
      unfold gbmvVal
      simp only [if_true]
      apply sumTo_congr
      intro l _
      rw [vecStart_idx]
      exact band_term_row b hr r l _

/-- the call for column `t` of the right-hand side -/
def bandMCall (pw : Nat) (b : Band α) (Rm : Mat α) (t : Nat) : GbmvCall α :=
  bandCall b Rm.mem Rm.buf (Rm.v.base + (t : Int) * Rm.v.o1) Rm.v.d0 Rm.v.o0
    ⟨.C, (t : Int) * (packRowMajor pw Rm.v.d0 Rm.v.d1).o1⟩ (packRowMajor pw Rm.v.d0 Rm.v.d1).o0

/-- effect of the call for column `t` on the cell of result element `(r,i)` -/
theorem bandMStep_at {pw : Nat} (hpw : 1 ≤ pw) (b : Band α) (Rm : Mat α) (hd : b.dim = Rm.v.d0)
    (hoff : (b.kl : Int) + (b.ku : Int) ≤ b.off) (hx : Rm.v.o0 ≠ 0)
    (m : Int → α) {t r i : Nat} (ht : t < Rm.v.d1) (hr : r < b.dim) (hi : i < Rm.v.d1) :
    bandMStep m (bandMCall pw b Rm t) ((r : Int) * (packRowMajor pw Rm.v.d0 Rm.v.d1).o0 + (i : Int)) =
      if i = t then sumTo (fun l => b.get r l * Rm.get l t) b.dim
      else m ((r : Int) * (packRowMajor pw Rm.v.d0 Rm.v.d1).o0 + (i : Int)) := by
  have hld := packRowMajor_o0_ge hpw Rm.v.d0 Rm.v.d1
  have hldpos : 0 < (packRowMajor pw Rm.v.d0 Rm.v.d1).o0 := by omega
  obtain ⟨hinfo, hleny, hincy, hpy, hval⟩ := bandCall_facts b Rm.mem Rm.buf (Rm.v.base + (t : Int) * Rm.v.o1) Rm.v.o0
    ⟨.C, (t : Int) * (packRowMajor pw Rm.v.d0 Rm.v.d1).o1⟩ (packRowMajor pw Rm.v.d0 Rm.v.d1).o0 hoff hx (by omega)
  rw [hd] at hinfo hleny hincy hpy hval
  unfold bandMStep
  have hc' : bandMCall pw b Rm t = bandCall b Rm.mem Rm.buf (Rm.v.base + (t : Int) * Rm.v.o1) Rm.v.d0 Rm.v.o0
    ⟨.C, (t : Int) * (packRowMajor pw Rm.v.d0 Rm.v.d1).o1⟩ (packRowMajor pw Rm.v.d0 Rm.v.d1).o0 := rfl
  rw [hc']
  simp only [packRowMajor_o1, Int.mul_one] at hinfo hleny hincy hpy hval ⊢
  unfold gbmvY
  rw [if_neg (by simpa using hinfo), hleny, hincy, hpy]
  by_cases hit : i = t
  · subst hit
    rw [if_pos rfl]
    have : (r : Int) * (packRowMajor pw Rm.v.d0 Rm.v.d1).o0 + (i : Int) - (i : Int) = (r : Int) * (packRowMajor pw Rm.v.d0 Rm.v.d1).o0 := by omega
    rw [this, writeVec_pos_hit hldpos _ _ (by rw [← hd]; exact hr), hval r, ← hd]
    apply sumTo_congr
    intro l _
    congr 1
    unfold Mat.get View2.addr
    congr 1
    omega
  · rw [if_neg hit]
    have : (r : Int) * (packRowMajor pw Rm.v.d0 Rm.v.d1).o0 + (i : Int) - (t : Int)
        = (r : Int) * (packRowMajor pw Rm.v.d0 Rm.v.d1).o0 + ((i : Int) - (t : Int)) := by omega
    rw [this, writeVec_pos_miss _ _ r (by omega) (by omega) (by omega)]
    congr 1
    dsimp only
    omega

/-- after the calls for the columns `< T` the cells of those columns hold the product, the others are untouched -/
theorem bandM_fold {pw : Nat} (hpw : 1 ≤ pw) (b : Band α) (Rm : Mat α) (hd : b.dim = Rm.v.d0) (hc : 1 ≤ Rm.v.d1)
    (hoff : (b.kl : Int) + (b.ku : Int) ≤ b.off) (hx : Rm.v.o0 ≠ 0) {r i : Nat} (hr : r < b.dim) (hi : i < Rm.v.d1) :
    ∀ T, T ≤ Rm.v.d1 →
      ((List.range T).map (bandMCall pw b Rm)).foldl bandMStep (fun _ => 0)
          ((r : Int) * (packRowMajor pw Rm.v.d0 Rm.v.d1).o0 + (i : Int)) =
        if i < T then sumTo (fun l => b.get r l * Rm.get l i) b.dim else 0
  | 0, _ => by simp
  | T + 1, hT => by
    rw [List.range_succ, List.map_append, List.foldl_append]
    simp only [List.map_cons, List.map_nil, List.foldl_cons, List.foldl_nil]
    rw [bandMStep_at hpw b Rm hd hoff hx _ (by omega) hr hi, bandM_fold hpw b Rm hd hc hoff hx hr hi T (by omega)]
    by_cases h1 : i = T
    · subst h1; simp
    · by_cases h2 : i < T
      · simp [h1, h2, Nat.lt_succ_of_lt h2]
      · have : ¬ i < T + 1 := by omega
        simp [h1, h2, this]

theorem bandMCore_get {pw : Nat} (hpw : 1 ≤ pw) (b : Band α) (Rm : Mat α) (hd : b.dim = Rm.v.d0) (hc : 1 ≤ Rm.v.d1)
    (hoff : (b.kl : Int) + (b.ku : Int) ≤ b.off) (hx : Rm.v.o0 ≠ 0) {r i : Nat} (hr : r < b.dim) (hi : i < Rm.v.d1) :
    (bandMCore pw b Rm).ans.get r i = sumTo (fun l => b.get r l * Rm.get l i) b.dim := by
  have hmem : (bandMCore pw b Rm).ans.mem = ((List.range Rm.v.d1).map (bandMCall pw b Rm)).foldl bandMStep (fun _ => 0) := rfl
  have haddr : (bandMCore pw b Rm).ans.v.addr r i = (r : Int) * (packRowMajor pw Rm.v.d0 Rm.v.d1).o0 + (i : Int) := by
    show (packRowMajor pw Rm.v.d0 Rm.v.d1).addr r i = _
    simp only [View2.addr, packRowMajor_base, packRowMajor_o1]; omega
  show (bandMCore pw b Rm).ans.mem ((bandMCore pw b Rm).ans.v.addr r i) = _
  rw [haddr, hmem, bandM_fold hpw b Rm hd hc hoff hx hr hi _ (Nat.le_refl _), if_pos hi]

theorem bandMCore_info {pw : Nat} (hpw : 1 ≤ pw) (b : Band α) (Rm : Mat α) (hd : b.dim = Rm.v.d0) (hc : 1 ≤ Rm.v.d1)
    (hoff : (b.kl : Int) + (b.ku : Int) ≤ b.off) (hx : Rm.v.o0 ≠ 0) :
    ∀ c ∈ (bandMCore pw b Rm).calls, gbmvInfo c.args = 0 := by
  intro c hcm
  have hcalls : (bandMCore pw b Rm).calls = (List.range Rm.v.d1).map (bandMCall pw b Rm) := rfl
  rw [hcalls] at hcm
  simp only [List.mem_map, List.mem_range] at hcm
  obtain ⟨t, _, rfl⟩ := hcm
  have hld := packRowMajor_o0_ge hpw Rm.v.d0 Rm.v.d1
  have h := (bandCall_facts b Rm.mem Rm.buf (Rm.v.base + (t : Int) * Rm.v.o1) Rm.v.o0
    ⟨.C, (t : Int) * (packRowMajor pw Rm.v.d0 Rm.v.d1).o1⟩ (packRowMajor pw Rm.v.d0 Rm.v.d1).o0 hoff hx (by omega)).1
  rw [hd] at h
  exact h

end BandM

/-! ### pushed derivative statements -/

section Stmts
variable {α : Type} [Add α] [Mul α] [Zero α]

theorem gemmOps_eq (lAct rAct : Bool) (L Rm : Mat α) (i j : Nat) :
    gemmOps lAct rAct L Rm i j =
      (if lAct then (List.range Rm.v.d0).map (fun l => (Rm.get l j, L.buf, L.v.addr i l)) else []) ++
      (if rAct then (List.range Rm.v.d0).map (fun l => (L.get i l, Rm.buf, Rm.v.addr l j)) else []) := by
  unfold gemmOps pushDep
  simp only [List.map_map]
  congr 2
  · apply List.map_congr_left
    intro l _
    simp only [Function.comp, Mat.get, View2.addr]
    have : Rm.v.base + (j : Int) * Rm.v.o1 + (l : Int) * Rm.v.o0 = Rm.v.base + (l : Int) * Rm.v.o0 + (j : Int) * Rm.v.o1 := by omega
    rw [this]
  · apply List.map_congr_left
    intro l _
    simp only [Function.comp, Mat.get, View2.addr]
    have : Rm.v.base + (j : Int) * Rm.v.o1 + (l : Int) * Rm.v.o0 = Rm.v.base + (l : Int) * Rm.v.o0 + (j : Int) * Rm.v.o1 := by omega
    rw [this]

theorem gemvOps_eq (lAct rAct : Bool) (L : Mat α) (x : Vec α) (i : Nat) :
    gemvOps lAct rAct L x i =
      (if lAct then (List.range x.v.d).map (fun l => (x.get l, L.buf, L.v.addr i l)) else []) ++
      (if rAct then (List.range x.v.d).map (fun l => (L.get i l, x.buf, x.v.addr l)) else []) := by
  unfold gemvOps pushDep
  simp only [List.map_map]
  congr 2

end Stmts

/-! ### the statements an active product records (`gemvRecord`, `gemmRecord`, `bandVRecord`) -/

section Tape
variable {α : Type} [Add α] [Mul α] [Zero α]

theorem flatMap_congr' {β γ : Type} {l : List β} {f g : β → List γ} (h : ∀ a ∈ l, f a = g a) : l.flatMap f = l.flatMap g := by
  induction l with
  | nil => rfl
  | cons a l ih =>
    rw [List.flatMap_cons, List.flatMap_cons, h a (List.mem_cons_self ..), ih (fun x hx => h x (List.mem_cons_of_mem _ hx))]

theorem pairs_congr {β : Type} {m n : Nat} {f g : Nat → Nat → β} (h : ∀ p q, p < m → q < n → f p q = g p q) :
    pairs m n f = pairs m n g := by
  unfold pairs
  apply flatMap_congr'
  intro p hp
  apply List.map_congr_left
  intro q hq
  exact h p q (List.mem_range.1 hp) (List.mem_range.1 hq)

theorem pushDependence_eq (blk : Buf) (idx : Int) (mult : Int → α) (m0 : Int) (n : Nat) (is ms : Int) :
    pushDependence blk idx mult m0 n is ms =
      (List.range n).map (fun (l : Nat) => (mult (m0 + (l : Int) * ms), (⟨blk, idx + (l : Int) * is⟩ : Ptr))) := by
  unfold pushDependence pushDep
  simp only [List.map_map]
  rfl

/-- closed form of the matrix · vector recording loop: statement `i` has the left-hand side `C + addr ans [i]` and the
    operations `x[k]·d L[i,k]` then `L[i,k]·d x[k]` -/
theorem gemvRecord_eq (gl gr : Grad) (L : Mat α) (x : Vec α) (ans : View1) :
    gemvRecord gl gr L x ans =
      if gl.act || gr.act then
        (List.range ans.d).map (fun (i : Nat) =>
          ({ lhs := ⟨.C, ans.addr i⟩,
             ops := (if gl.act then (List.range x.v.d).map (fun (k : Nat) => (x.get k, gl.idx (L.v.addr i k))) else []) ++
                    (if gr.act then (List.range x.v.d).map (fun (k : Nat) => (L.get i k, gr.idx (x.v.addr k))) else []) } : Stmt α))
      else [] := by
  unfold gemvRecord
  split
  · apply List.map_congr_left
    intro i _
    simp only [pushDependence_eq]
    congr 2
    · split
      · apply List.map_congr_left
        intro k _
        simp only [Vec.get, View1.addr, Grad.idx, View2.addr]
        congr 2
        omega
      · rfl
    · split
      · apply List.map_congr_left
        intro k _
        simp only [Mat.get, View1.addr, Grad.idx, View2.addr]
        congr 2
        omega
      · rfl
  · rfl

/-- closed form of the matrix · matrix recording loop -/
theorem gemmRecord_eq (gl gr : Grad) (L Rm : Mat α) (ans : View2) :
    gemmRecord gl gr L Rm ans =
      if gl.act || gr.act then
        pairs ans.d0 ans.d1 (fun (i j : Nat) =>
          ({ lhs := ⟨.C, ans.addr i j⟩,
             ops := (if gl.act then (List.range Rm.v.d0).map (fun (k : Nat) => (Rm.get k j, gl.idx (L.v.addr i k))) else []) ++
                    (if gr.act then (List.range Rm.v.d0).map (fun (k : Nat) => (L.get i k, gr.idx (Rm.v.addr k j))) else []) } : Stmt α))
      else [] := by
  unfold gemmRecord
  split
  · apply pairs_congr
    intro i j _ _
    simp only [pushDependence_eq]
    congr 2
    · split
      · apply List.map_congr_left
        intro k _
        apply Prod.ext
        · show Rm.mem _ = Rm.mem _
          congr 1
          simp only [View2.addr]
          omega
        · show (⟨gl.blk, _⟩ : Ptr) = ⟨gl.blk, _⟩
          congr 1
          simp only [View2.addr]
          omega
      · rfl
    · split
      · apply List.map_congr_left
        intro k _
        apply Prod.ext
        · show L.mem _ = L.mem _
          congr 1
        · show (⟨gr.blk, _⟩ : Ptr) = ⟨gr.blk, _⟩
          congr 1
          simp only [View2.addr]
          omega
      · rfl
  · rfl

/-- the in-band column range of row `i` as `matmul_band` computes it is exactly the set of in-band columns -/
theorem band_range_iff {kl ku dim i : Nat} (hi : i < dim) (k : Nat) :
    (bandJStart kl i ≤ k ∧ k < bandJEnd ku dim i) ↔ (k < dim ∧ k ≤ i + ku ∧ i ≤ k + kl) := by
  unfold bandJStart bandJEnd
  split <;> split <;> omega

theorem band_range_le {kl ku dim i : Nat} (hi : i < dim) :
    bandJStart kl i ≤ i ∧ i < bandJEnd ku dim i ∧ bandJEnd ku dim i ≤ dim := by
  unfold bandJStart bandJEnd
  split <;> split <;> omega

/-- closed form of the band · active-vector recording loop: statement `i` has the operations `B.mem(cell i k)·d x[k]`
    for `k = j_start, …, j_end_plus_1 − 1`, both storage orders -/
theorem bandVRecord_eq (b : Band α) (gr : Grad) (x : Vec α) (ans : View1) :
    bandVRecord b gr x ans =
      if gr.act then
        (List.range ans.d).map (fun (i : Nat) =>
          ({ lhs := ⟨.C, ans.addr i⟩,
             ops := (List.range (bandJEnd b.ku b.dim i - bandJStart b.kl i)).map (fun (l : Nat) =>
                      (b.mem (b.cell i (bandJStart b.kl i + l)), gr.idx (x.v.addr (bandJStart b.kl i + l)))) } : Stmt α))
      else [] := by
  unfold bandVRecord
  split
  · apply List.map_congr_left
    intro i _
    simp only [pushDependence_eq]
    congr 1
    apply List.map_congr_left
    intro l _
    apply Prod.ext
    · show b.mem _ = b.mem _
      congr 1
      cases hb : b.rowMajor <;> simp only [Band.cell, hb, Bool.false_eq_true, if_false, if_true] <;> push_cast <;> ring
    · show (⟨gr.blk, _⟩ : Ptr) = ⟨gr.blk, _⟩
      congr 1
      simp only [View1.addr]
      push_cast
      ring
  · rfl

/-- the statement of result element `(i,j)` of a matrix · matrix product in closed form -/
def gemmStmt (gl gr : Grad) (L Rm : Mat α) (ans : View2) (i j : Nat) : Stmt α :=
  { lhs := ⟨.C, ans.addr i j⟩,
    ops := (if gl.act then (List.range Rm.v.d0).map (fun (k : Nat) => (Rm.get k j, gl.idx (L.v.addr i k))) else []) ++
           (if gr.act then (List.range Rm.v.d0).map (fun (k : Nat) => (L.get i k, gr.idx (Rm.v.addr k j))) else []) }

/-- the statement of result element `i` of a matrix · vector product in closed form -/
def gemvStmt (gl gr : Grad) (L : Mat α) (x : Vec α) (ans : View1) (i : Nat) : Stmt α :=
  { lhs := ⟨.C, ans.addr i⟩,
    ops := (if gl.act then (List.range x.v.d).map (fun (k : Nat) => (x.get k, gl.idx (L.v.addr i k))) else []) ++
           (if gr.act then (List.range x.v.d).map (fun (k : Nat) => (L.get i k, gr.idx (x.v.addr k))) else []) }

/-- the statement of result element `i` of a band · active-vector product in closed form -/
def bandStmt (b : Band α) (gr : Grad) (x : Vec α) (ans : View1) (i : Nat) : Stmt α :=
  { lhs := ⟨.C, ans.addr i⟩,
    ops := (List.range (bandJEnd b.ku b.dim i - bandJStart b.kl i)).map (fun (l : Nat) =>
             (b.mem (b.cell i (bandJStart b.kl i + l)), gr.idx (x.v.addr (bandJStart b.kl i + l)))) }

theorem gemmRecord_eq' (gl gr : Grad) (L Rm : Mat α) (ans : View2) (h : (gl.act || gr.act) = true) :
    gemmRecord gl gr L Rm ans = pairs ans.d0 ans.d1 (gemmStmt gl gr L Rm ans) := by
  rw [gemmRecord_eq, if_pos h]; rfl

theorem gemvRecord_eq' (gl gr : Grad) (L : Mat α) (x : Vec α) (ans : View1) (h : (gl.act || gr.act) = true) :
    gemvRecord gl gr L x ans = (List.range ans.d).map (gemvStmt gl gr L x ans) := by
  rw [gemvRecord_eq, if_pos h]; rfl

theorem bandVRecord_eq' (b : Band α) (gr : Grad) (x : Vec α) (ans : View1) (h : gr.act = true) :
    bandVRecord b gr x ans = (List.range ans.d).map (bandStmt b gr x ans) := by
  rw [bandVRecord_eq, if_pos h]; rfl

end Tape

/-! ### the differential a recorded statement denotes -/

section TapeDiff
variable {α : Type} [CommRing α]

/-- `Σ m·d(idx)` over a list of operations -/
def opsVal (ops : List (α × Ptr)) (d : Ptr → α) : α := ops.foldr (fun p acc => p.1 * d p.2 + acc) 0

theorem Stmt.diff_eq (s : Stmt α) (d : Ptr → α) : s.diff d = opsVal s.ops d := rfl

theorem opsVal_nil (d : Ptr → α) : opsVal ([] : List (α × Ptr)) d = 0 := rfl

theorem opsVal_cons (p : α × Ptr) (l : List (α × Ptr)) (d : Ptr → α) : opsVal (p :: l) d = p.1 * d p.2 + opsVal l d := rfl

theorem opsVal_append (a b : List (α × Ptr)) (d : Ptr → α) : opsVal (a ++ b) d = opsVal a d + opsVal b d := by
  induction a with
  | nil => simp [opsVal_nil]
  | cons p a ih => simp only [List.cons_append, opsVal_cons, ih]; ring

theorem opsVal_range_map (f : Nat → α × Ptr) (n : Nat) (d : Ptr → α) :
    opsVal ((List.range n).map f) d = sumTo (fun k => (f k).1 * d (f k).2) n := by
  induction n with
  | zero => rfl
  | succ n ih =>
    rw [List.range_succ, List.map_append, opsVal_append, ih]
    simp only [List.map_cons, List.map_nil, opsVal_cons, opsVal_nil, sumTo]
    ring

/-- the value depends on `d` only at the gradient indices the operations name -/
theorem opsVal_congr {ops : List (α × Ptr)} {d d' : Ptr → α} (h : ∀ op ∈ ops, d op.2 = d' op.2) : opsVal ops d = opsVal ops d' := by
  induction ops with
  | nil => rfl
  | cons p l ih =>
    rw [opsVal_cons, opsVal_cons, h p (List.mem_cons_self ..), ih (fun op hop => h op (List.mem_cons_of_mem _ hop))]

theorem sumTo_add (f g : Nat → α) (n : Nat) : sumTo (fun k => f k + g k) n = sumTo f n + sumTo g n := by
  induction n with
  | zero => simp [sumTo]
  | succ n ih => simp only [sumTo, ih]; ring

theorem sumTo_zero (n : Nat) : sumTo (fun _ => (0 : α)) n = 0 := by
  induction n with
  | zero => rfl
  | succ n ih => simp [sumTo, ih]

theorem sumTo_mul_left (c : α) (f : Nat → α) (n : Nat) : sumTo (fun k => c * f k) n = c * sumTo f n := by
  induction n with
  | zero => simp [sumTo]
  | succ n ih => simp only [sumTo, ih]; ring

/-- terms below `js` vanish: the sum may start at `js` -/
theorem sumTo_zero_below (f : Nat → α) (js n : Nat) (h : ∀ k, k < js → f k = 0) :
    sumTo f (js + n) = sumTo (fun l => f (js + l)) n := by
  induction n with
  | zero =>
    show sumTo f js = 0
    rw [sumTo_congr (g := fun _ => (0 : α)) (fun l hl => h l hl), sumTo_zero]
  | succ n ih =>
    show sumTo f (js + n) + f (js + n) = sumTo (fun l => f (js + l)) n + f (js + n)
    rw [ih]

/-- terms from `je` on vanish: the sum may stop at `je` -/
theorem sumTo_zero_above (f : Nat → α) (je m : Nat) (h : ∀ k, je ≤ k → f k = 0) : sumTo f (je + m) = sumTo f je := by
  induction m with
  | zero => rfl
  | succ m ih =>
    show sumTo f (je + m) + f (je + m) = _
    rw [ih, h _ (Nat.le_add_right _ _), add_zero]

/-- a sum whose terms vanish outside the window `[js, je)` -/
theorem sumTo_window (f : Nat → α) {js je dim : Nat} (h1 : js ≤ je) (h2 : je ≤ dim)
    (h : ∀ k, k < dim → ¬ (js ≤ k ∧ k < je) → f k = 0) :
    sumTo f dim = sumTo (fun l => f (js + l)) (je - js) := by
  -- cut the terms at and beyond `dim` first so that the hypothesis applies everywhere
  let g : Nat → α := fun k => if k < dim then f k else 0
  have hg : sumTo f dim = sumTo g dim := sumTo_congr (fun l hl => by simp [g, hl])
  have hg0 : ∀ k, ¬ (js ≤ k ∧ k < je) → g k = 0 := by
    intro k hk
    by_cases hd : k < dim
    · simp only [g, hd, if_true]; exact h k hd hk
    · simp [g, hd]
  rw [hg, show dim = je + (dim - je) by omega, sumTo_zero_above g je _ (fun k hk => hg0 k (by omega)),
    show je = js + (je - js) by omega, sumTo_zero_below g js _ (fun k hk => hg0 k (by omega))]
  have : js + (je - js) - js = je - js := by omega
  rw [this]
  apply sumTo_congr
  intro l hl
  have : js + l < dim := by omega
  simp [g, this]

/-- **the differential of the defining sum.**  Perturbing the factors of `Σₖ aₖ·bₖ` by `ε·da`, `ε·db` changes it by
    `ε·Σₖ (bₖ·daₖ + aₖ·dbₖ)` up to the second-order term: the first-order coefficient is what a statement records -/
theorem sumTo_product_rule (a b da db : Nat → α) (e : α) (n : Nat) :
    sumTo (fun k => (a k + e * da k) * (b k + e * db k)) n =
      sumTo (fun k => a k * b k) n + e * sumTo (fun k => b k * da k + a k * db k) n + e * e * sumTo (fun k => da k * db k) n := by
  induction n with
  | zero => simp [sumTo]
  | succ n ih => simp only [sumTo, ih]; ring

/-- the differential denoted by the statement of result element `(i,j)` of a dense matrix · matrix product -/
theorem gemm_stmt_diff (gl gr : Grad) (L Rm : Mat α) (i j : Nat) (d : Ptr → α) :
    opsVal ((if gl.act then (List.range Rm.v.d0).map (fun (k : Nat) => (Rm.get k j, gl.idx (L.v.addr i k))) else []) ++
            (if gr.act then (List.range Rm.v.d0).map (fun (k : Nat) => (L.get i k, gr.idx (Rm.v.addr k j))) else [])) d =
      sumTo (fun k => (if gl.act then Rm.get k j * d (gl.idx (L.v.addr i k)) else 0) +
                      (if gr.act then L.get i k * d (gr.idx (Rm.v.addr k j)) else 0)) Rm.v.d0 := by
  rw [opsVal_append, sumTo_add]
  congr 1
  · cases gl.act
    · simp [opsVal_nil, sumTo_zero]
    · simp only [if_true]; exact opsVal_range_map _ _ _
  · cases gr.act
    · simp [opsVal_nil, sumTo_zero]
    · simp only [if_true]; exact opsVal_range_map _ _ _

theorem gemv_stmt_diff (gl gr : Grad) (L : Mat α) (x : Vec α) (i : Nat) (d : Ptr → α) :
    opsVal ((if gl.act then (List.range x.v.d).map (fun (k : Nat) => (x.get k, gl.idx (L.v.addr i k))) else []) ++
            (if gr.act then (List.range x.v.d).map (fun (k : Nat) => (L.get i k, gr.idx (x.v.addr k))) else [])) d =
      sumTo (fun k => (if gl.act then x.get k * d (gl.idx (L.v.addr i k)) else 0) +
                      (if gr.act then L.get i k * d (gr.idx (x.v.addr k)) else 0)) x.v.d := by
  rw [opsVal_append, sumTo_add]
  congr 1
  · cases gl.act
    · simp [opsVal_nil, sumTo_zero]
    · simp only [if_true]; exact opsVal_range_map _ _ _
  · cases gr.act
    · simp [opsVal_nil, sumTo_zero]
    · simp only [if_true]; exact opsVal_range_map _ _ _

/-- the band statement of row `i` denotes `Σₖ B[i,k]·d x[k]` over ALL `k < dim`: the terms it omits are those where
    `B[i,k]` is structurally zero -/
theorem band_stmt_diff (b : Band α) (gr : Grad) (x : Vec α) {i : Nat} (hi : i < b.dim) (d : Ptr → α) :
    opsVal ((List.range (bandJEnd b.ku b.dim i - bandJStart b.kl i)).map (fun (l : Nat) =>
              (b.mem (b.cell i (bandJStart b.kl i + l)), gr.idx (x.v.addr (bandJStart b.kl i + l))))) d =
      sumTo (fun k => b.get i k * d (gr.idx (x.v.addr k))) b.dim := by
  rw [opsVal_range_map]
  obtain ⟨h1, h2, h3⟩ := band_range_le (kl := b.kl) (ku := b.ku) hi
  rw [sumTo_window (fun k => b.get i k * d (gr.idx (x.v.addr k))) (js := bandJStart b.kl i) (je := bandJEnd b.ku b.dim i)
    (by omega) h3]
  · apply sumTo_congr
    intro l hl
    have hin := (band_range_iff (kl := b.kl) (ku := b.ku) hi (bandJStart b.kl i + l)).1 ⟨by omega, by omega⟩
    simp only [Band.get]
    rw [if_neg (by omega)]
  · intro k hk hout
    have : ¬ (k < b.dim ∧ k ≤ i + b.ku ∧ i ≤ k + b.kl) := fun hh => hout ((band_range_iff hi k).2 hh)
    simp only [Band.get]
    rw [if_pos (by omega), zero_mul]

end TapeDiff

/-! ### the tangent-linear sweep over what a product records -/

section Forward
variable {α : Type} [CommRing α]

theorem fwd_cons (s : Stmt α) (S : List (Stmt α)) (d : Ptr → α) : fwd (s :: S) d = fwd S (fwdStep d s) := rfl

theorem fwd_append (A B : List (Stmt α)) (d : Ptr → α) : fwd (A ++ B) d = fwd B (fwd A d) := by
  unfold fwd; rw [List.foldl_append]

/-- a gradient index no statement assigns keeps its differential -/
theorem fwd_frame {S : List (Stmt α)} {d : Ptr → α} {p : Ptr} (h : ∀ s ∈ S, s.lhs ≠ p) : fwd S d p = d p := by
  induction S generalizing d with
  | nil => rfl
  | cons s0 S ih =>
    rw [fwd_cons, ih (fun s hs => h s (List.mem_cons_of_mem _ hs))]
    unfold fwdStep
    rw [if_neg (fun e => h s0 (List.mem_cons_self ..) e.symm)]

/-- statements that never read what any of them assigns, with left-hand sides that determine the statement: after the
    sweep every left-hand side holds the value of its own statement on the incoming differentials -/
theorem fwd_hit {S : List (Stmt α)} (hR : ∀ s ∈ S, ∀ op ∈ s.ops, ∀ s' ∈ S, s'.lhs ≠ op.2)
    (hinj : ∀ s ∈ S, ∀ s' ∈ S, s.lhs = s'.lhs → s = s') (d : Ptr → α) : ∀ s ∈ S, fwd S d s.lhs = s.diff d := by
  induction S generalizing d with
  | nil => intro s hs; cases hs
  | cons s0 S ih =>
    intro s hs
    rw [fwd_cons]
    have hdiff : ∀ s' ∈ s0 :: S, s'.diff (fwdStep d s0) = s'.diff d := by
      intro s' hs'
      apply opsVal_congr
      intro op hop
      unfold fwdStep
      rw [if_neg (fun e => hR s' hs' op hop s0 (List.mem_cons_self ..) e.symm)]
    have ih' := ih (fun a ha op hop b hb => hR a (List.mem_cons_of_mem _ ha) op hop b (List.mem_cons_of_mem _ hb))
      (fun a ha b hb => hinj a (List.mem_cons_of_mem _ ha) b (List.mem_cons_of_mem _ hb)) (fwdStep d s0)
    by_cases hex : ∃ s' ∈ S, s'.lhs = s.lhs
    · obtain ⟨s', hs', e⟩ := hex
      have : s' = s := hinj s' (List.mem_cons_of_mem _ hs') s hs e
      subst this
      rw [ih' s' hs', hdiff s' hs]
    · rw [fwd_frame (fun s' hs' e => hex ⟨s', hs', e⟩)]
      have hs0 : s = s0 := by
        rcases List.mem_cons.1 hs with h | h
        · exact h
        · exact absurd ⟨s, h, rfl⟩ hex
      subst hs0
      unfold fwdStep
      rw [if_pos rfl]

/-- cells of a packed row-major array: distinct elements have distinct cells, all inside the allocation -/
theorem rowmajor_inj {o0 : Int} {d1 : Nat} (h : (d1 : Int) ≤ o0) {i k i' k' : Nat} (hk : k < d1) (hk' : k' < d1)
    (e : (i : Int) * o0 + (k : Int) = (i' : Int) * o0 + (k' : Int)) : i = i' ∧ k = k' := by
  have hi : i = i' := by
    rcases Nat.lt_trichotomy i i' with hlt | heq | hgt
    · exfalso
      have h1 : ((i : Int) + 1) * o0 ≤ (i' : Int) * o0 := Int.mul_le_mul_of_nonneg_right (by omega) (by omega)
      have h2 : ((i : Int) + 1) * o0 = (i : Int) * o0 + o0 := by ring
      omega
    · exact heq
    · exfalso
      have h1 : ((i' : Int) + 1) * o0 ≤ (i : Int) * o0 := Int.mul_le_mul_of_nonneg_right (by omega) (by omega)
      have h2 : ((i' : Int) + 1) * o0 = (i' : Int) * o0 + o0 := by ring
      omega
  subst hi
  exact ⟨rfl, by omega⟩

theorem rowmajor_bound {o0 : Int} {d0 d1 : Nat} (h : (d1 : Int) ≤ o0) {i k : Nat} (hi : i < d0) (hk : k < d1) :
    0 ≤ (i : Int) * o0 + (k : Int) ∧ (i : Int) * o0 + (k : Int) < o0 * (d0 : Int) := by
  have ho : (0 : Int) ≤ o0 := by omega
  have h0 : (0 : Int) ≤ (i : Int) * o0 := Int.mul_nonneg (by omega) ho
  have h1 : ((i : Int) + 1) * o0 ≤ (d0 : Int) * o0 := Int.mul_le_mul_of_nonneg_right (by omega) ho
  have h2 : ((i : Int) + 1) * o0 = (i : Int) * o0 + o0 := by ring
  have h3 : (d0 : Int) * o0 = o0 * (d0 : Int) := by ring
  omega

theorem packRowMajor_addr (pw d0 d1 : Nat) (i k : Nat) :
    (packRowMajor pw d0 d1).addr i k = (i : Int) * (packRowMajor pw d0 d1).o0 + (k : Int) := by
  simp only [View2.addr, packRowMajor_base, packRowMajor_o1]; omega

end Forward

/-! ### end to end: the sweep over everything a product records, copies included -/

section Pipeline
variable {α : Type} [CommRing α]

theorem mem_ops_cases {a b : Bool} {n : Nat} {f g : Nat → α × Ptr} {op : α × Ptr}
    (h : op ∈ (if a then (List.range n).map f else []) ++ (if b then (List.range n).map g else [])) :
    (a = true ∧ ∃ k, k < n ∧ op = f k) ∨ (b = true ∧ ∃ k, k < n ∧ op = g k) := by
  rcases List.mem_append.1 h with h | h
  · left
    cases a
    · simp at h
    · simp only [if_true, List.mem_map, List.mem_range] at h
      obtain ⟨k, hk, e⟩ := h
      exact ⟨rfl, k, hk, e.symm⟩
  · right
    cases b
    · simp at h
    · simp only [if_true, List.mem_map, List.mem_range] at h
      obtain ⟨k, hk, e⟩ := h
      exact ⟨rfl, k, hk, e.symm⟩

theorem prepRecord_copy {pw : Nat} (g : Grad) (A : Mat α) (t : Int) (h : needsCopy A.v = true) :
    prepRecord pw g A t = ({ act := g.act, blk := .T, g0 := t }, copyRecord g A (packRowMajor pw A.v.d0 A.v.d1) t,
      if g.act then t + (packRowMajor pw A.v.d0 A.v.d1).o0 * (A.v.d0 : Int) else t) := by
  unfold prepRecord; rw [if_pos h]; rfl

theorem prepRecord_nocopy {pw : Nat} (g : Grad) (A : Mat α) (t : Int) (h : needsCopy A.v = false) :
    prepRecord pw g A t = (g, [], t) := by
  unfold prepRecord; rw [if_neg (by simp [h])]

theorem prep_copy {pw : Nat} (A : Mat α) (h : needsCopy A.v = true) : prep pw A = copyMat pw A := by
  unfold prep; rw [if_pos h]

theorem prep_nocopy {pw : Nat} (A : Mat α) (h : needsCopy A.v = false) : prep pw A = A := by
  unfold prep; rw [if_neg (by simp [h])]

theorem blk_ne_T {g : Grad} (hg : g.blk = .L ∨ g.blk = .R) : g.blk ≠ .T := by
  rcases hg with h | h <;> rw [h] <;> decide
theorem blk_ne_C {g : Grad} (hg : g.blk = .L ∨ g.blk = .R) : g.blk ≠ .C := by
  rcases hg with h | h <;> rw [h] <;> decide

/-- nothing that `matmul` records from `T+t` on assigns a gradient index of the operand's elements: they are not result
    indices, and if they are `T` indices (an operand `promote_array` converted before `matmul_` was entered) they lie below `t` -/
def GradOutside (g : Grad) (A : Mat α) (t : Int) : Prop :=
  g.blk ≠ .C ∧ (g.blk = .T → ∀ i k, i < A.v.d0 → k < A.v.d1 → g.g0 + A.v.addr i k < t)

def GradOutsideV (g : Grad) (x : Vec α) (t : Int) : Prop :=
  g.blk ≠ .C ∧ (g.blk = .T → ∀ k, k < x.v.d → g.g0 + x.v.addr k < t)

/-- an operand whose gradients live in the caller's blocks -/
theorem GradOutside.of_operand {g : Grad} (hg : g.blk = .L ∨ g.blk = .R) (A : Mat α) (t : Int) : GradOutside g A t :=
  ⟨blk_ne_C hg, fun h => absurd h (blk_ne_T hg)⟩
theorem GradOutsideV.of_operand {g : Grad} (hg : g.blk = .L ∨ g.blk = .R) (x : Vec α) (t : Int) : GradOutsideV g x t :=
  ⟨blk_ne_C hg, fun h => absurd h (blk_ne_T hg)⟩

theorem GradOutside.mono {g : Grad} {A : Mat α} {t t' : Int} (h : GradOutside g A t) (ht : t ≤ t') : GradOutside g A t' :=
  ⟨h.1, fun hb i k hi hk => by have := h.2 hb i k hi hk; omega⟩

theorem GradOutside.T {g : Grad} {A : Mat α} {t : Int} (h : GradOutside g A t) : GradOutside g A.T t :=
  ⟨h.1, fun hb i k hi hk => by
    have := h.2 hb k i hk hi
    have e : A.T.v.addr i k = A.v.addr k i := View2.T_addr A.v i k
    rw [e]; exact this⟩

/-- a pointer outside the range `[t, t')` of `T`, from `GradOutside` -/
theorem GradOutside.frame {g : Grad} {A : Mat α} {t t' : Int} (h : GradOutside g A t) {i k : Nat} (hi : i < A.v.d0) (hk : k < A.v.d1) :
    (g.idx (A.v.addr i k)).buf ≠ .T ∨ (g.idx (A.v.addr i k)).off < t ∨ t' ≤ (g.idx (A.v.addr i k)).off := by
  by_cases hb : g.blk = .T
  · exact Or.inr (Or.inl (h.2 hb i k hi hk))
  · exact Or.inl hb

theorem GradOutsideV.frame {g : Grad} {x : Vec α} {t t' : Int} (h : GradOutsideV g x t) {k : Nat} (hk : k < x.v.d) :
    (g.idx (x.v.addr k)).buf ≠ .T ∨ (g.idx (x.v.addr k)).off < t ∨ t' ≤ (g.idx (x.v.addr k)).off := by
  by_cases hb : g.blk = .T
  · exact Or.inr (Or.inl (h.2 hb k hk))
  · exact Or.inl hb

/-- the element-wise conversion / copy into a fresh packed array whose gradient block is `T+t …`: the sweep over its
    statements leaves `Σ src` in the gradient index of each element and touches nothing outside `T ∩ [t, t + o0·d0)`,
    provided the statements do not read what they assign -/
theorem convRecord_spec {pw : Nat} (hpw : 1 ≤ pw) (d0 d1 : Nat) (t : Int) (src : Nat → Nat → List (α × Ptr))
    (hsrc : ∀ i k, i < d0 → k < d1 → ∀ op ∈ src i k, op.2.buf ≠ .T ∨ op.2.off < t) (d : Ptr → α) :
    (∀ p : Ptr, (p.buf ≠ .T ∨ p.off < t ∨ t + (packRowMajor pw d0 d1).o0 * (d0 : Int) ≤ p.off) →
        fwd (convRecord (packRowMajor pw d0 d1) t d0 d1 src) d p = d p) ∧
    (∀ i k, i < d0 → k < d1 →
        fwd (convRecord (packRowMajor pw d0 d1) t d0 d1 src) d ⟨.T, t + (packRowMajor pw d0 d1).addr i k⟩ = opsVal (src i k) d) := by
  have hge := packRowMajor_o0_ge hpw d0 d1
  have hmem : ∀ s ∈ convRecord (packRowMajor pw d0 d1) t d0 d1 src, ∃ i k, i < d0 ∧ k < d1 ∧
      s = ({ lhs := ⟨.T, t + (packRowMajor pw d0 d1).addr i k⟩, ops := src i k } : Stmt α) := fun s hs => mem_pairs.1 hs
  constructor
  · intro p hp
    apply fwd_frame
    intro s hs e
    obtain ⟨i, k, hi, hk, rfl⟩ := hmem s hs
    have hb := rowmajor_bound (d0 := d0) hge hi hk
    rw [← packRowMajor_addr] at hb
    rcases hp with hp | hp | hp
    · exact hp (by rw [← e])
    · rw [← e] at hp; simp only at hp; omega
    · rw [← e] at hp; simp only at hp; omega
  · intro i k hi hk
    have hs : ({ lhs := ⟨.T, t + (packRowMajor pw d0 d1).addr i k⟩, ops := src i k } : Stmt α) ∈
        convRecord (packRowMajor pw d0 d1) t d0 d1 src := mem_pairs.2 ⟨i, k, hi, hk, rfl⟩
    refine fwd_hit (S := convRecord (packRowMajor pw d0 d1) t d0 d1 src) ?_ ?_ d _ hs
    · intro s hs op hop s' hs' e
      obtain ⟨i1, k1, hi1, hk1, rfl⟩ := hmem s hs
      obtain ⟨i2, k2, hi2, hk2, rfl⟩ := hmem s' hs'
      have hb := rowmajor_bound (d0 := d0) hge hi2 hk2
      rw [← packRowMajor_addr] at hb
      rcases hsrc i1 k1 hi1 hk1 op hop with h | h
      · exact h (by rw [← e])
      · rw [← e] at h; simp only at h; omega
    · intro s hs s' hs' e
      obtain ⟨i1, k1, _, hk1, rfl⟩ := hmem s hs
      obtain ⟨i2, k2, _, hk2, rfl⟩ := hmem s' hs'
      simp only [Ptr.mk.injEq, true_and, packRowMajor_addr] at e
      obtain ⟨rfl, rfl⟩ := rowmajor_inj (i := i1) (i' := i2) hge hk1 hk2 (by omega)
      rfl

/-- what `prep` does to the gradients of an operand: the statements assign only `T` indices in `[t, t')`; the element
    `(i,k)` of the array handed on has a gradient index outside `C`, below `t'` if it is a `T` index, and after the sweep
    it carries the differential of the operand's element `(i,k)` -/
theorem prepRecord_spec {pw : Nat} (hpw : 1 ≤ pw) (g : Grad) (A : Mat α) (t : Int) (hg : GradOutside g A t) (d : Ptr → α) :
    (prepRecord pw g A t).1.act = g.act ∧ t ≤ (prepRecord pw g A t).2.2 ∧
    (∀ p : Ptr, (p.buf ≠ .T ∨ p.off < t ∨ (prepRecord pw g A t).2.2 ≤ p.off) → fwd (prepRecord pw g A t).2.1 d p = d p) ∧
    (g.act = true → ∀ i k, i < A.v.d0 → k < A.v.d1 →
        ((prepRecord pw g A t).1.idx ((prep pw A).v.addr i k)).buf ≠ .C ∧
        (((prepRecord pw g A t).1.idx ((prep pw A).v.addr i k)).buf = .T →
            ((prepRecord pw g A t).1.idx ((prep pw A).v.addr i k)).off < (prepRecord pw g A t).2.2) ∧
        fwd (prepRecord pw g A t).2.1 d ((prepRecord pw g A t).1.idx ((prep pw A).v.addr i k)) = d (g.idx (A.v.addr i k))) := by
  cases hc : needsCopy A.v
  · -- handed on unchanged
    rw [prepRecord_nocopy g A t hc, prep_nocopy A hc]
    refine ⟨rfl, Int.le_refl _, fun _ _ => rfl, ?_⟩
    intro _ i k hi hk
    exact ⟨hg.1, fun h => hg.2 h i k hi hk, rfl⟩
  · rw [prepRecord_copy g A t hc, prep_copy A hc]
    have hge := packRowMajor_o0_ge hpw A.v.d0 A.v.d1
    have hvol : (0 : Int) ≤ (packRowMajor pw A.v.d0 A.v.d1).o0 * (A.v.d0 : Int) :=
      Int.mul_nonneg (by omega) (by omega)
    have hsrc : ∀ i k, i < A.v.d0 → k < A.v.d1 → ∀ op ∈ [((1 : α), g.idx (A.v.addr i k))], op.2.buf ≠ .T ∨ op.2.off < t := by
      intro i k hi hk op hop
      simp only [List.mem_singleton] at hop
      subst hop
      rcases hg.frame (t' := t) hi hk with h | h | h
      · exact Or.inl h
      · exact Or.inr h
      · by_cases hb : g.blk = .T
        · exact Or.inr (hg.2 hb i k hi hk)
        · exact Or.inl hb
    obtain ⟨hfr, hval⟩ := convRecord_spec hpw A.v.d0 A.v.d1 t (fun (i k : Nat) => [((1 : α), g.idx (A.v.addr i k))]) hsrc d
    refine ⟨rfl, ?_, ?_, ?_⟩
    · show t ≤ (if g.act then _ else t)
      split <;> omega
    · intro p hp
      unfold copyRecord
      cases hact : g.act
      · rfl
      · simp only [hact, if_true] at hp ⊢
        exact hfr p hp
    · intro hact i k hi hk
      have hb := rowmajor_bound (d0 := A.v.d0) hge hi hk
      rw [← packRowMajor_addr] at hb
      have hv : (copyMat pw A).v = packRowMajor pw A.v.d0 A.v.d1 := rfl
      rw [hv]
      refine ⟨by simp only [Grad.idx]; decide, fun _ => ?_, ?_⟩
      · simp only [Grad.idx, hact, if_true]; omega
      · unfold copyRecord
        rw [if_pos hact]
        simp only [Grad.idx] at hval ⊢
        rw [hval i k hi hk]
        simp [opsVal]

/-- matrix · matrix, every layout (operands handed on as they are or copied, in every combination): after the sweep
    over everything that was recorded the gradient index of result element `(i,j)` holds
    `Σₖ R[k,j]·dL[i,k] + L[i,k]·dR[k,j]` in terms of the differentials of the ORIGINAL operands' cells -/
theorem matmulMMTape_fwd {pw : Nat} (hpw : 1 ≤ pw) (gl gr : Grad) (t : Int) (L Rm : Mat α)
    (hgl : GradOutside gl L t) (hgr : GradOutside gr Rm t)
    (hact : (gl.act || gr.act) = true) (hkk : L.v.d1 = Rm.v.d0) (d : Ptr → α)
    {i j : Nat} (hi : i < L.v.d0) (hj : j < Rm.v.d1) :
    fwd (matmulMMTape pw gl gr t L Rm) d ⟨.C, (gemmDense pw (prep pw L) (prep pw Rm)).ans.v.addr i j⟩ =
      sumTo (fun k => (if gl.act then Rm.get k j * d (gl.idx (L.v.addr i k)) else 0) +
                      (if gr.act then L.get i k * d (gr.idx (Rm.v.addr k j)) else 0)) L.v.d1 := by
  obtain ⟨hLa, hLt, hLf, hLe⟩ := prepRecord_spec hpw gl L t hgl d
  obtain ⟨hRa, -, hRf, hRe⟩ := prepRecord_spec hpw gr Rm (prepRecord pw gl L t).2.2 (hgr.mono hLt) (fwd (prepRecord pw gl L t).2.1 d)
  unfold matmulMMTape
  simp only []
  rw [fwd_append, fwd_append]
  generalize hpl : prepRecord pw gl L t = pl at *
  generalize hpr : prepRecord pw gr Rm pl.2.2 = pr at *
  have hol : (gemmDense pw (prep pw L) (prep pw Rm)).l = prep pw L := rfl
  have hor : (gemmDense pw (prep pw L) (prep pw Rm)).r = prep pw Rm := rfl
  have hov : (gemmDense pw (prep pw L) (prep pw Rm)).ans.v = packRowMajor pw L.v.d0 Rm.v.d1 := by
    show packRowMajor pw (prep pw L).v.d0 (prep pw Rm).v.d1 = _
    rw [prep_d0, prep_d1]
  rw [hol, hor, hov, gemmRecord_eq' _ _ _ _ _ (by rw [hLa, hRa]; exact hact)]
  have hge := packRowMajor_o0_ge hpw L.v.d0 Rm.v.d1
  have hRd0 : (prep pw Rm).v.d0 = Rm.v.d0 := prep_d0 pw Rm
  generalize hS : pairs (packRowMajor pw L.v.d0 Rm.v.d1).d0 (packRowMajor pw L.v.d0 Rm.v.d1).d1
    (gemmStmt pl.1 pr.1 (prep pw L) (prep pw Rm) (packRowMajor pw L.v.d0 Rm.v.d1)) = S
  have hmemS : ∀ s ∈ S, ∃ i j, i < L.v.d0 ∧ j < Rm.v.d1 ∧
      s = gemmStmt pl.1 pr.1 (prep pw L) (prep pw Rm) (packRowMajor pw L.v.d0 Rm.v.d1) i j := by
    intro s hs
    rw [← hS] at hs
    exact mem_pairs.1 hs
  have hsij : gemmStmt pl.1 pr.1 (prep pw L) (prep pw Rm) (packRowMajor pw L.v.d0 Rm.v.d1) i j ∈ S := by
    rw [← hS]
    exact mem_pairs.2 ⟨i, j, hi, hj, rfl⟩
  have hhit := fwd_hit (S := S) ?_ ?_ (fwd pr.2.1 (fwd pl.2.1 d)) _ hsij
  · show fwd S _ (gemmStmt pl.1 pr.1 (prep pw L) (prep pw Rm) (packRowMajor pw L.v.d0 Rm.v.d1) i j).lhs = _
    rw [hhit, Stmt.diff_eq]
    show opsVal (_ ++ _) _ = _
    rw [gemm_stmt_diff, hRd0, ← hkk]
    apply sumTo_congr
    intro k hk
    congr 1
    · rw [hLa]
      cases hga : gl.act
      · rfl
      · simp only [if_true]
        obtain ⟨-, hT, hval⟩ := hLe hga i k hi hk
        rw [prep_get hpw Rm (by omega) hj, hRf _ ?_, hval]
        by_cases hb : (pl.1.idx ((prep pw L).v.addr i k)).buf = .T
        · exact Or.inr (Or.inl (hT hb))
        · exact Or.inl hb
    · rw [hRa]
      cases hga : gr.act
      · rfl
      · simp only [if_true]
        obtain ⟨-, -, hval⟩ := hRe hga k j (by omega) hj
        rw [prep_get hpw L hi hk, hval, hLf _ (hgr.frame (by omega) hj)]
  · -- no statement of the product reads a result index
    intro s hs op hop s' hs' e
    obtain ⟨i1, j1, hi1, hj1, rfl⟩ := hmemS s hs
    obtain ⟨i2, j2, _, _, rfl⟩ := hmemS s' hs'
    rcases mem_ops_cases hop with ⟨ha, k, hk, rfl⟩ | ⟨ha, k, hk, rfl⟩
    · rw [hLa] at ha
      exact (hLe ha i1 k hi1 (by omega)).1 (congrArg Ptr.buf e).symm
    · rw [hRa] at ha
      exact (hRe ha k j1 (by omega) hj1).1 (congrArg Ptr.buf e).symm
  · intro s hs s' hs' e
    obtain ⟨i1, j1, _, hj1, rfl⟩ := hmemS s hs
    obtain ⟨i2, j2, _, hj2, rfl⟩ := hmemS s' hs'
    simp only [gemmStmt, Ptr.mk.injEq, true_and, packRowMajor_addr] at e
    obtain ⟨rfl, rfl⟩ := rowmajor_inj (i := i1) (i' := i2) hge hj1 hj2 e
    rfl

/-- matrix · vector, every layout of the matrix (copied or not) and every stride of the vector -/
theorem matmulMVTape_fwd {pw : Nat} (hpw : 1 ≤ pw) (gl gr : Grad) (t : Int) (L : Mat α) (x : Vec α)
    (hgl : GradOutside gl L t) (hgr : GradOutsideV gr x t)
    (hact : (gl.act || gr.act) = true) (hkk : L.v.d1 = x.v.d) (d : Ptr → α)
    {i : Nat} (hi : i < L.v.d0) :
    fwd (matmulMVTape pw gl gr t L x) d ⟨.C, (gemvDense (prep pw L) x).ans.v.addr i⟩ =
      sumTo (fun k => (if gl.act then x.get k * d (gl.idx (L.v.addr i k)) else 0) +
                      (if gr.act then L.get i k * d (gr.idx (x.v.addr k)) else 0)) L.v.d1 := by
  unfold matmulMVTape
  simp only []
  obtain ⟨t1, ht1, het1⟩ : ∃ t1, t ≤ t1 ∧ (if (needsCopy L.v && (gl.act || gr.act)) = true then t + (L.v.d0 : Int) else t) = t1 := by
    refine ⟨_, ?_, rfl⟩
    split <;> omega
  rw [het1]
  obtain ⟨hLa, -, hLf, hLe⟩ := prepRecord_spec hpw gl L t1 (hgl.mono ht1) d
  rw [fwd_append]
  generalize hpl : prepRecord pw gl L t1 = pl at *
  have hol : (gemvDense (prep pw L) x).l = prep pw L := rfl
  have hov : (gemvDense (prep pw L) x).ans.v = { base := 0, d := L.v.d0, o := 1 } := by
    show ({ base := 0, d := (prep pw L).v.d0, o := 1 } : View1) = _
    rw [prep_d0]
  rw [hol, hov, gemvRecord_eq' _ _ _ _ _ (by rw [hLa]; exact hact)]
  generalize hS : (List.range ({ base := 0, d := L.v.d0, o := 1 } : View1).d).map
    (gemvStmt pl.1 gr (prep pw L) x { base := 0, d := L.v.d0, o := 1 }) = S
  have hmemS : ∀ s ∈ S, ∃ i, i < L.v.d0 ∧ s = gemvStmt pl.1 gr (prep pw L) x { base := 0, d := L.v.d0, o := 1 } i := by
    intro s hs
    rw [← hS] at hs
    obtain ⟨i, hi, rfl⟩ := List.mem_map.1 hs
    exact ⟨i, List.mem_range.1 hi, rfl⟩
  have hsi : gemvStmt pl.1 gr (prep pw L) x { base := 0, d := L.v.d0, o := 1 } i ∈ S := by
    rw [← hS]
    exact List.mem_map.2 ⟨i, List.mem_range.2 hi, rfl⟩
  have hhit := fwd_hit (S := S) ?_ ?_ (fwd pl.2.1 d) _ hsi
  · show fwd S _ (gemvStmt pl.1 gr (prep pw L) x { base := 0, d := L.v.d0, o := 1 } i).lhs = _
    rw [hhit, Stmt.diff_eq]
    show opsVal (_ ++ _) _ = _
    rw [gemv_stmt_diff, ← hkk]
    apply sumTo_congr
    intro k hk
    congr 1
    · rw [hLa]
      cases hga : gl.act
      · rfl
      · simp only [if_true]
        rw [(hLe hga i k hi hk).2.2]
    · cases hga : gr.act
      · rfl
      · simp only [if_true]
        have hfr : (gr.idx (x.v.addr k)).buf ≠ .T ∨ (gr.idx (x.v.addr k)).off < t1 ∨ pl.2.2 ≤ (gr.idx (x.v.addr k)).off := by
          rcases hgr.frame (t' := pl.2.2) (show k < x.v.d by omega) with h | h | h
          · exact Or.inl h
          · exact Or.inr (Or.inl (by omega))
          · exact Or.inr (Or.inr h)
        rw [prep_get hpw L hi hk, hLf _ hfr]
  · intro s hs op hop s' hs' e
    obtain ⟨i1, hi1, rfl⟩ := hmemS s hs
    obtain ⟨i2, _, rfl⟩ := hmemS s' hs'
    rcases mem_ops_cases hop with ⟨ha, k, hk, rfl⟩ | ⟨ha, k, hk, rfl⟩
    · rw [hLa] at ha
      exact (hLe ha i1 k hi1 (by omega)).1 (congrArg Ptr.buf e).symm
    · exact hgr.1 (congrArg Ptr.buf e).symm
  · intro s hs s' hs' e
    obtain ⟨i1, _, rfl⟩ := hmemS s hs
    obtain ⟨i2, _, rfl⟩ := hmemS s' hs'
    simp only [gemvStmt, Ptr.mk.injEq, true_and, View1.addr] at e
    have : i1 = i2 := by omega
    subst this
    rfl

/-- vector · matrix (recorded as `matmul_(right.T(), left)`) -/
theorem matmulVMTape_fwd {pw : Nat} (hpw : 1 ≤ pw) (gl gr : Grad) (t : Int) (x : Vec α) (Rm : Mat α)
    (hgl : GradOutsideV gl x t) (hgr : GradOutside gr Rm t)
    (hact : (gl.act || gr.act) = true) (hkk : x.v.d = Rm.v.d0) (d : Ptr → α)
    {j : Nat} (hj : j < Rm.v.d1) :
    fwd (matmulVMTape pw gl gr t x Rm) d ⟨.C, (gemvDense (prep pw Rm.T) x).ans.v.addr j⟩ =
      sumTo (fun k => (if gl.act then Rm.get k j * d (gl.idx (x.v.addr k)) else 0) +
                      (if gr.act then x.get k * d (gr.idx (Rm.v.addr k j)) else 0)) Rm.v.d0 := by
  unfold matmulVMTape
  rw [matmulMVTape_fwd hpw gr gl t Rm.T x hgr.T hgl (by rw [Bool.or_comm]; exact hact) (by exact hkk.symm) d (by exact hj)]
  show sumTo _ Rm.v.d0 = _
  apply sumTo_congr
  intro k _
  have : Rm.T.v.addr j k = Rm.v.addr k j := View2.T_addr Rm.v j k
  rw [Mat.T_get, this, add_comm]

/-- band · active vector, any `(dim, LDiags, UDiags)`, both storage orders, any stride of the vector: after the sweep
    the gradient index of result element `i` holds `Σₖ B[i,k]·dx[k]` over all `k < dim` -/
theorem matmulBandVTape_fwd (b : Band α) (gr : Grad) (hgr : gr.blk ≠ .C) (x : Vec α) (hact : gr.act = true)
    (hd : b.dim = x.v.d) (d : Ptr → α) {i : Nat} (hi : i < b.dim) :
    fwd (matmulBandVTape b gr x) d ⟨.C, (bandVCore b x).ans.v.addr i⟩ =
      sumTo (fun k => b.get i k * d (gr.idx (x.v.addr k))) b.dim := by
  unfold matmulBandVTape
  have hov : (bandVCore b x).ans.v = { base := 0, d := x.v.d, o := 1 } := rfl
  rw [hov, bandVRecord_eq' _ _ _ _ hact]
  generalize hS : (List.range ({ base := 0, d := x.v.d, o := 1 } : View1).d).map
    (bandStmt b gr x { base := 0, d := x.v.d, o := 1 }) = S
  have hmemS : ∀ s ∈ S, ∃ i, i < x.v.d ∧ s = bandStmt b gr x { base := 0, d := x.v.d, o := 1 } i := by
    intro s hs
    rw [← hS] at hs
    obtain ⟨i, hi, rfl⟩ := List.mem_map.1 hs
    exact ⟨i, List.mem_range.1 hi, rfl⟩
  have hsi : bandStmt b gr x { base := 0, d := x.v.d, o := 1 } i ∈ S := by
    rw [← hS]
    exact List.mem_map.2 ⟨i, List.mem_range.2 (by show i < x.v.d; omega), rfl⟩
  have hhit := fwd_hit (S := S) ?_ ?_ d _ hsi
  · show fwd S _ (bandStmt b gr x { base := 0, d := x.v.d, o := 1 } i).lhs = _
    rw [hhit, Stmt.diff_eq]
    exact band_stmt_diff b gr x hi d
  · intro s hs op hop s' hs' e
    obtain ⟨i1, _, rfl⟩ := hmemS s hs
    obtain ⟨i2, _, rfl⟩ := hmemS s' hs'
    simp only [bandStmt, List.mem_map, List.mem_range] at hop
    obtain ⟨l, _, rfl⟩ := hop
    exact hgr (congrArg Ptr.buf e).symm
  · intro s hs s' hs' e
    obtain ⟨i1, _, rfl⟩ := hmemS s hs
    obtain ⟨i2, _, rfl⟩ := hmemS s' hs'
    simp only [bandStmt, Ptr.mk.injEq, true_and, View1.addr] at e
    have : i1 = i2 := by omega
    subst this
    rfl

/-- active vector · band (the band matrix re-described as its transpose) -/
theorem matmulVBandTape_fwd (b : Band α) (gl : Grad) (hgl : gl.blk ≠ .C) (x : Vec α) (hact : gl.act = true)
    (hd : b.dim = x.v.d) (d : Ptr → α) {j : Nat} (hj : j < b.dim) :
    fwd (matmulVBandTape gl x b) d ⟨.C, (bandVCore b.T x).ans.v.addr j⟩ =
      sumTo (fun k => b.get k j * d (gl.idx (x.v.addr k))) b.dim := by
  unfold matmulVBandTape
  rw [matmulBandVTape_fwd b.T gl hgl x hact (by exact hd) d (by exact hj)]
  show sumTo _ b.dim = _
  apply sumTo_congr
  intro k _
  rw [Band.T_get]

/-- an ACTIVE left operand that `promote_array` converted element-wise (expression, special matrix) before `matmul_` was
    entered: the sweep over the conversion statements followed by everything the product records leaves
    `Σₖ R[k,j]·(Σ src i k) + X[i,k]·dR[k,j]`, i.e. the differentials flow through the conversion's statements whatever their
    operations are (`2·`, `1·+1·`, none for a structural zero) -/
theorem promotedMM_fwd {pw : Nat} (hpw : 1 ≤ pw) (d0 d1 : Nat) (lval : Nat → Nat → α) (src : Nat → Nat → List (α × Ptr))
    (hsrc : ∀ i k, i < d0 → k < d1 → ∀ op ∈ src i k, op.2.buf ≠ .T ∨ op.2.off < 0)
    (gr : Grad) (hgr : gr.blk = .L ∨ gr.blk = .R) (Rm : Mat α) (hkk : d1 = Rm.v.d0) (d : Ptr → α)
    {i j : Nat} (hi : i < d0) (hj : j < Rm.v.d1) :
    fwd (convRecord (packRowMajor pw d0 d1) 0 d0 d1 src ++
         matmulMMTape pw ⟨true, .T, 0⟩ gr ((packRowMajor pw d0 d1).o0 * (d0 : Int)) (freshMat pw d0 d1 lval) Rm) d
        ⟨.C, (gemmDense pw (prep pw (freshMat pw d0 d1 lval)) (prep pw Rm)).ans.v.addr i j⟩ =
      sumTo (fun k => Rm.get k j * opsVal (src i k) d + (if gr.act then lval i k * d (gr.idx (Rm.v.addr k j)) else 0)) d1 := by
  have hge := packRowMajor_o0_ge hpw d0 d1
  obtain ⟨hfr, hval⟩ := convRecord_spec hpw d0 d1 0 src hsrc d
  have hXv : (freshMat pw d0 d1 lval).v = packRowMajor pw d0 d1 := rfl
  have hgl : GradOutside (⟨true, .T, 0⟩ : Grad) (freshMat pw d0 d1 lval) ((packRowMajor pw d0 d1).o0 * (d0 : Int)) := by
    refine ⟨by decide, fun _ i k hi hk => ?_⟩
    have hb := rowmajor_bound (d0 := d0) hge (show i < d0 from hi) (show k < d1 from hk)
    rw [hXv, packRowMajor_addr]
    simp only
    omega
  rw [fwd_append, matmulMMTape_fwd hpw ⟨true, .T, 0⟩ gr _ (freshMat pw d0 d1 lval) Rm hgl (GradOutside.of_operand hgr _ _)
    (by simp) (by exact hkk) _ (by exact hi) hj]
  show sumTo _ d1 = _
  apply sumTo_congr
  intro k hk
  simp only [if_true]
  congr 1
  · have : (⟨true, .T, 0⟩ : Grad).idx ((freshMat pw d0 d1 lval).v.addr i k) = ⟨.T, 0 + (packRowMajor pw d0 d1).addr i k⟩ := rfl
    rw [this, hval i k hi hk]
  · cases gr.act
    · rfl
    · simp only [if_true]
      rw [freshMat_get hpw d0 d1 lval hi hk, hfr _ (Or.inl (blk_ne_T hgr))]

end Pipeline

end Adept.Matmul
