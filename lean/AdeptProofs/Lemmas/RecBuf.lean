import AdeptModel.RecBuf
/-! Helper lemmas for the recording-buffer model (C09). Core Lean only. -/
namespace Adept.RecBuf

/-- well-formed buffer state: counts within capacity, statement stack has room to double -/
def WF (b : B) : Prop := b.nOps ≤ b.allocOps ∧ b.nSt ≤ b.allocSt ∧ 0 < b.allocSt

/-- operations that can still be pushed -/
def free (b : B) : Nat := b.allocOps - b.nOps

theorem grow_ge' (alloc min : Nat) : alloc + min ≤ grow alloc min ∨ min = 0 := by
  unfold grow; split <;> omega

theorem grow_mono (alloc min : Nat) : alloc ≤ grow alloc min := by
  unfold grow; split <;> omega

theorem grow_double (alloc min : Nat) : 2 * alloc ≤ grow alloc min := by
  unfold grow; split <;> omega

/-- `check_space(k)`: afterwards at least `k` operations can be pushed, nothing is lost, no fault -/
theorem step_check (b : B) (k : Nat) (hw : WF b) :
    WF (step b (.check k)).1 ∧ (step b (.check k)).2 = false ∧
    (step b (.check k)).1.nOps = b.nOps ∧ (step b (.check k)).1.nSt = b.nSt ∧
    k ≤ free (step b (.check k)).1 ∧ free b ≤ free (step b (.check k)).1 := by
  obtain ⟨h1, h2, h3⟩ := hw
  have hg := grow_ge' b.allocOps k
  have hm := grow_mono b.allocOps k
  simp only [step, WF, free]
  split <;> refine ⟨⟨?_, ?_, ?_⟩, ?_, ?_, ?_, ?_, ?_⟩ <;> (try simp only []) <;> (try simp) <;> omega

theorem step_preOps (b : B) (k : Nat) (hw : WF b) :
    WF (step b (.preOps k)).1 ∧ (step b (.preOps k)).2 = false ∧
    (step b (.preOps k)).1.nOps = b.nOps ∧ (step b (.preOps k)).1.nSt = b.nSt ∧
    k ≤ free (step b (.preOps k)).1 ∧ free b ≤ free (step b (.preOps k)).1 := by
  obtain ⟨h1, h2, h3⟩ := hw
  have hg := grow_ge' b.allocOps k
  have hm := grow_mono b.allocOps k
  simp only [step, WF, free]
  split <;> refine ⟨⟨?_, ?_, ?_⟩, ?_, ?_, ?_, ?_, ?_⟩ <;> (try simp only []) <;> (try simp) <;> omega

theorem step_preSt (b : B) (k : Nat) (hw : WF b) :
    WF (step b (.preSt k)).1 ∧ (step b (.preSt k)).2 = false ∧
    (step b (.preSt k)).1.nOps = b.nOps ∧ (step b (.preSt k)).1.nSt = b.nSt ∧
    free (step b (.preSt k)).1 = free b := by
  obtain ⟨h1, h2, h3⟩ := hw
  have hm := grow_mono b.allocSt k
  simp only [step, WF, free]
  split <;> refine ⟨⟨?_, ?_, ?_⟩, ?_, ?_, ?_, ?_⟩ <;> (try simp only []) <;> (try simp) <;> omega

/-- `push_rhs` with room left: no fault, one operation more -/
theorem step_push (b : B) (hw : WF b) (hf : 0 < free b) :
    WF (step b .push).1 ∧ (step b .push).2 = false ∧ free (step b .push).1 = free b - 1 ∧
    (step b .push).1.nOps = b.nOps + 1 := by
  obtain ⟨h1, h2, h3⟩ := hw
  simp only [free] at hf
  simp only [step, WF, free, decide_eq_false_iff_not]
  refine ⟨⟨?_, ?_, ?_⟩, ?_, ?_, ?_⟩ <;> (try simp) <;> omega

theorem step_pushIdx (b : B) (num stride : Nat) (hw : WF b) (hf : (num - 1) * stride < free b) :
    WF (step b (.pushIdx num stride)).1 ∧ (step b (.pushIdx num stride)).2 = false ∧
    free (step b (.pushIdx num stride)).1 = free b - 1 := by
  obtain ⟨h1, h2, h3⟩ := hw
  simp only [free] at hf
  simp only [step, WF, free, decide_eq_false_iff_not]
  refine ⟨⟨?_, ?_, ?_⟩, ?_, ?_⟩ <;> (try simp) <;> omega

/-- `push_lhs` never faults: the statement stack grows on demand -/
theorem step_lhs (b : B) (hw : WF b) :
    WF (step b .lhs).1 ∧ (step b .lhs).2 = false ∧ free (step b .lhs).1 = free b ∧
    (step b .lhs).1.nSt = b.nSt + 1 := by
  obtain ⟨h1, h2, h3⟩ := hw
  have hd := grow_double b.allocSt 0
  simp only [step, WF, free, decide_eq_false_iff_not]
  split <;> refine ⟨⟨?_, ?_, ?_⟩, ?_, ?_, ?_⟩ <;> (try simp only []) <;> (try simp) <;> omega

/-- `push_lhs_range(first, n, stride)` never faults either -/
theorem step_lhsRange (b : B) (n : Nat) (hw : WF b) :
    WF (step b (.lhsRange n)).1 ∧ (step b (.lhsRange n)).2 = false ∧
    free (step b (.lhsRange n)).1 = free b ∧ (step b (.lhsRange n)).1.nSt = b.nSt + n := by
  obtain ⟨h1, h2, h3⟩ := hw
  have hg := grow_ge' b.allocSt n
  have hm := grow_mono b.allocSt n
  simp only [step, WF, free, decide_eq_false_iff_not]
  split <;> refine ⟨⟨?_, ?_, ?_⟩, ?_, ?_, ?_⟩ <;> (try simp only []) <;> (try simp) <;> omega

theorem run_nil (b : B) : run b [] = (b, false) := rfl

theorem foldl_stepAcc_flag (es : List Ev) (b : B) :
    (es.foldl stepAcc (b, true)).2 = true := by
  induction es generalizing b with
  | nil => rfl
  | cons e es ih => simp only [List.foldl_cons, stepAcc, Bool.true_or]; exact ih _

theorem run_cons (b : B) (e : Ev) (es : List Ev) (h : (step b e).2 = false) :
    run b (e :: es) = run (step b e).1 es := by
  simp only [run, List.foldl_cons, stepAcc, Bool.false_or, h]

/-- The discipline theorem: from ANY well-formed buffer state (any capacity, any fill level) a
    disciplined stream runs without a single out-of-range write and leaves a well-formed state. -/
theorem disciplined_safe (es : List Ev) (b : B) (f : Nat) (hw : WF b) (hf : f ≤ free b)
    (hd : disciplined f es = true) : (run b es).2 = false ∧ WF (run b es).1 := by
  induction es generalizing b f with
  | nil => exact ⟨rfl, hw⟩
  | cons e es ih =>
    cases e with
    | check k =>
      obtain ⟨w, nf, _, _, hk, hm⟩ := step_check b k hw
      rw [run_cons b _ es nf]
      simp only [disciplined] at hd
      exact ih _ (max f k) w (by omega) hd
    | push =>
      simp only [disciplined, Bool.and_eq_true, decide_eq_true_eq] at hd
      obtain ⟨w, nf, hfree, _⟩ := step_push b hw (by omega)
      rw [run_cons b _ es nf]
      exact ih _ (f - 1) w (by omega) hd.2
    | pushIdx num stride =>
      simp only [disciplined, Bool.and_eq_true, decide_eq_true_eq] at hd
      obtain ⟨w, nf, hfree⟩ := step_pushIdx b num stride hw (by omega)
      rw [run_cons b _ es nf]
      exact ih _ (f - 1) w (by omega) hd.2
    | lhs =>
      obtain ⟨w, nf, hfree, _⟩ := step_lhs b hw
      rw [run_cons b _ es nf]
      simp only [disciplined] at hd
      exact ih _ f w (by omega) hd
    | lhsRange n =>
      obtain ⟨w, nf, hfree, _⟩ := step_lhsRange b n hw
      rw [run_cons b _ es nf]
      simp only [disciplined] at hd
      exact ih _ f w (by omega) hd
    | preOps k =>
      obtain ⟨w, nf, _, _, hk, hm⟩ := step_preOps b k hw
      rw [run_cons b _ es nf]
      simp only [disciplined] at hd
      exact ih _ (max f k) w (by omega) hd
    | preSt k =>
      obtain ⟨w, nf, _, _, hfree⟩ := step_preSt b k hw
      rw [run_cons b _ es nf]
      simp only [disciplined] at hd
      exact ih _ f w (by omega) hd

theorem initial_WF (len : Nat) (h : 0 < len) : WF (initial len) := by
  have : WF ⟨0, len, 0, len⟩ := ⟨Nat.zero_le _, Nat.zero_le _, h⟩
  exact (step_lhs _ this).1

theorem newRecording_WF (b : B) (hw : WF b) : WF (newRecording b) := by
  have : WF { b with nOps := 0, nSt := 0 } := ⟨Nat.zero_le _, Nat.zero_le _, hw.2.2⟩
  exact (step_lhs _ this).1

/-- number of operations / statements an event records, independent of any capacity -/
def opsOf : Ev → Nat
  | .push => 1 | .pushIdx _ _ => 1 | _ => 0
def stmtsOf : Ev → Nat
  | .lhs => 1 | .lhsRange n => n | _ => 0

theorem step_counts (b : B) (e : Ev) :
    (step b e).1.nOps = b.nOps + opsOf e ∧ (step b e).1.nSt = b.nSt + stmtsOf e := by
  cases e <;> simp only [step, opsOf, stmtsOf] <;> (try split) <;> simp

theorem run_counts (es : List Ev) (b : B) :
    (run b es).1.nOps = b.nOps + (es.map opsOf).sum ∧ (run b es).1.nSt = b.nSt + (es.map stmtsOf).sum := by
  unfold run
  suffices h : ∀ (acc : B × Bool), (es.foldl stepAcc acc).1.nOps = acc.1.nOps + (es.map opsOf).sum ∧
      (es.foldl stepAcc acc).1.nSt = acc.1.nSt + (es.map stmtsOf).sum from h (b, false)
  induction es with
  | nil => intro acc; simp
  | cons e es ih =>
    intro acc
    simp only [List.foldl_cons, List.map_cons, List.sum_cons]
    obtain ⟨h1, h2⟩ := ih (stepAcc acc e)
    obtain ⟨c1, c2⟩ := step_counts acc.1 e
    simp only [stepAcc] at h1 h2 ⊢
    rw [h1, h2, c1, c2]; omega

end Adept.RecBuf
