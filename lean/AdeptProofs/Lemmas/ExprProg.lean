import AdeptProofs.Lemmas.ExprTree
import AdeptProofs.Lemmas.Tape
/-!
C01 T4–T6: straight-line programs.  A program is a list of recording statements already resolved to gradient
indices (the resolution handle ↦ index is the allocator's business, M3/C08, and is compared with the implementation
index by index in the correspondence runs); the environment is indexed by gradient index, which is what makes slot
reuse harmless: a (re)initialising statement overwrites the slot.
-/
namespace Adept.Expr
open Adept Real Adept.Tape

/-- recording statements whose derivative content is determined by the program itself -/
inductive PStmt
  | assign (lhs : Nat) (e : Node ℝ)      -- x = expression / copy / compound (unpacked) / construct from expression
  | passive (lhs : Nat) (c : ℝ)          -- x = passive value / construct from passive
  | shift (lhs : Nat) (c : ℝ)            -- x += c, x -= c with a passive c: the value changes, nothing is recorded

def updF (g : Nat → ℝ) (i : Nat) (v : ℝ) : Nat → ℝ := fun j => if j = i then v else g j

/-- arbitrary content of the uninitialised `ScratchVector` -/
def scr0 : Scratch ℝ := fun _ => 0

/-- effect of a statement on the values (indexed by gradient index) -/
noncomputable def PStmt.exec : PStmt → (Nat → ℝ) → (Nat → ℝ)
  | .assign lhs e, env => updF env lhs (e.rebind env).eval
  | .passive lhs c, env => updF env lhs c
  | .shift lhs c, env => updF env lhs (env lhs + c)

/-- what the statement appends to the tape (`none`: nothing is recorded) -/
noncomputable def PStmt.record : PStmt → (Nat → ℝ) → Option (Stmt ℝ)
  | .assign lhs e, env => some ⟨lhs, ((e.rebind env).valueAndGradient scr0).2⟩
  | .passive lhs _, _ => some ⟨lhs, []⟩
  | .shift _ _, _ => none

noncomputable def run : List PStmt → (Nat → ℝ) → (Nat → ℝ)
  | [], env => env
  | st :: rest, env => run rest (st.exec env)

/-- the tape recorded by running the program from `env` -/
noncomputable def tapeOf : List PStmt → (Nat → ℝ) → List (Stmt ℝ)
  | [], _ => []
  | st :: rest, env => (st.record env).toList ++ tapeOf rest (st.exec env)

/-- every statement is executed inside the domains of its functions -/
def ProgDom : List PStmt → (Nat → ℝ) → Prop
  | [], _ => True
  | .assign lhs e :: rest, env =>
      (e.rebind env).wf = true ∧ (e.rebind env).dom ∧ ProgDom rest ((PStmt.assign lhs e).exec env)
  | st :: rest, env => ProgDom rest (st.exec env)

/-- tangent-linear sweep on functions (the list version of `AdeptModel/Tape.lean` is related below) -/
def fwdStepF (s : Stmt ℝ) (g : Nat → ℝ) : Nat → ℝ := updF g s.lhs (dotOps s.ops g)
def fwdF (t : List (Stmt ℝ)) (g : Nat → ℝ) : Nat → ℝ := t.foldl (fun g s => fwdStepF s g) g

theorem fwdF_cons (s : Stmt ℝ) (t : List (Stmt ℝ)) (g : Nat → ℝ) : fwdF (s :: t) g = fwdF t (fwdStepF s g) := rfl
theorem fwdF_append (a b : List (Stmt ℝ)) (g : Nat → ℝ) : fwdF (a ++ b) g = fwdF b (fwdF a g) := by
  simp [fwdF, List.foldl_append]

/-- **T6** (statement level): the value a recording statement stores is the plain evaluation of its right-hand side -/
theorem valueAndGradient_fst (e : Node ℝ) (init : Scratch ℝ) : (e.valueAndGradient init).1 = e.eval := by
  unfold Node.valueAndGradient; exact store_fst e 0 init

theorem valueAndGradient_snd (e : Node ℝ) (init : Scratch ℝ) :
    (e.valueAndGradient init).2 = e.grad 0 (e.store 0 init).2 none := rfl

/-- one statement: the updated environment is differentiable along the curve with derivative `fwdStepF` -/
theorem exec_hasDerivAt (st : PStmt) (γ : ℝ → Nat → ℝ) (γ' : Nat → ℝ) (t₀ : ℝ)
    (hγ : ∀ i, HasDerivAt (fun t => γ t i) (γ' i) t₀)
    (hd : ∀ lhs e, st = .assign lhs e → (e.rebind (γ t₀)).wf = true ∧ (e.rebind (γ t₀)).dom) :
    ∀ i, HasDerivAt (fun t => st.exec (γ t) i) (fwdF (st.record (γ t₀)).toList γ' i) t₀ := by
  intro i
  cases st with
  | assign lhs e =>
    obtain ⟨hwf, hdom⟩ := hd lhs e rfl
    have h := grad_hasDerivAt γ γ' t₀ hγ e 0 _ hwf hdom (store_ScrOK (e.rebind (γ t₀)) 0 scr0)
    simp only [PStmt.exec, PStmt.record, Option.toList, fwdF, List.foldl_cons, List.foldl_nil, fwdStepF, updF,
      valueAndGradient_snd]
    by_cases hi : i = lhs
    · simp only [hi, if_true]; exact h
    · simp only [hi, if_false]; exact hγ i
  | passive lhs c =>
    simp only [PStmt.exec, PStmt.record, Option.toList, fwdF, List.foldl_cons, List.foldl_nil, fwdStepF, updF, dotOps_nil]
    by_cases hi : i = lhs
    · simp only [hi, if_true]; exact hasDerivAt_const t₀ c
    · simp only [hi, if_false]; exact hγ i
  | shift lhs c =>
    simp only [PStmt.exec, PStmt.record, Option.toList, fwdF, List.foldl_nil, updF]
    by_cases hi : i = lhs
    · simp only [hi, if_true]; exact (hγ lhs).add_const c
    · simp only [hi, if_false]; exact hγ i

/-- **T4**: along any differentiable curve of initial values, the final environment of a straight-line program is
    differentiable and its derivative is the tangent-linear sweep of the recorded tape applied to the curve's velocity -/
theorem program_tangent (P : List PStmt) : ∀ (γ : ℝ → Nat → ℝ) (γ' : Nat → ℝ) (t₀ : ℝ),
    (∀ i, HasDerivAt (fun t => γ t i) (γ' i) t₀) → ProgDom P (γ t₀) →
    ∀ i, HasDerivAt (fun t => run P (γ t) i) (fwdF (tapeOf P (γ t₀)) γ' i) t₀ := by
  induction P with
  | nil => intro γ γ' t₀ hγ _ i; exact hγ i
  | cons st rest ih =>
    intro γ γ' t₀ hγ hdom i
    have hstep := exec_hasDerivAt st γ γ' t₀ hγ (by
      intro lhs e he; subst he; exact ⟨hdom.1, hdom.2.1⟩)
    have hrest : ProgDom rest (st.exec (γ t₀)) := by
      cases st with
      | assign lhs e => exact hdom.2.2
      | passive lhs c => exact hdom
      | shift lhs c => exact hdom
    have := ih (fun t => st.exec (γ t)) (fwdF (st.record (γ t₀)).toList γ') t₀ hstep hrest i
    simp only [run, tapeOf, fwdF_append]
    exact this

/-! ### T5: the adjoint sweep of the recorded tape returns the gradient -/

theorem rd_fwdStep (s : Stmt ℝ) (g : Vec ℝ) (hl : s.lhs < g.length) :
    rd (fwdStep s g) = fwdStepF s (rd g) := by
  funext j
  unfold fwdStep fwdStepF updF
  rw [rd_set_lt g s.lhs j _ hl, rhsVal_eq_sum]
  rfl

theorem rd_fwd (N : Nat) (t : List (Stmt ℝ)) : ∀ (g : Vec ℝ), WF t N → g.length = N → rd (fwd t g) = fwdF t (rd g) := by
  induction t with
  | nil => intro g _ _; rfl
  | cons s t ih =>
    intro g hwf hg
    obtain ⟨⟨hl, _⟩, ht'⟩ := WF_cons hwf
    rw [fwd_cons, fwdF_cons, ih (fwdStep s g) ht' (by rw [fwdStep_length]; exact hg), rd_fwdStep s g (by omega)]

theorem rd_unit (N x : Nat) (hx : x < N) : rd (unit N x : Vec ℝ) = fun i => if i = x then 1 else 0 := by
  funext i
  unfold unit
  rw [rd_set_lt _ x i 1 (by simpa using hx), rd_replicate_zero]

theorem updF_self (env : Nat → ℝ) (x : Nat) : updF env x (env x) = env := by
  funext j; unfold updF; split_ifs with h
  · rw [h]
  · rfl

/-- **T5**: seeding output slot `y` with 1 and running the adjoint sweep over the recorded tape leaves at input slot `x`
    the partial derivative of the final value of `y` with respect to the initial value of `x`. -/
theorem adjoint_is_gradient (P : List PStmt) (env₀ : Nat → ℝ) (N x y : Nat) (hx : x < N) (hy : y < N)
    (hwf : WF (tapeOf P env₀) N) (hdom : ProgDom P env₀) :
    HasDerivAt (fun τ => run P (updF env₀ x τ) y) (jacEntryRev (tapeOf P env₀) N x y) (env₀ x) := by
  have hγ : ∀ i, HasDerivAt (fun τ => updF env₀ x τ i) ((fun i => if i = x then (1:ℝ) else 0) i) (env₀ x) := by
    intro i
    unfold updF
    by_cases hi : i = x
    · simp only [hi, if_true]; exact hasDerivAt_id (env₀ x)
    · simp only [hi, if_false]; exact hasDerivAt_const _ _
  have h := program_tangent P (fun τ => updF env₀ x τ) (fun i => if i = x then (1:ℝ) else 0) (env₀ x) hγ
    (by simp only [updF_self]; exact hdom) y
  simp only [updF_self] at h
  rw [← jac_fwd_eq_rev N _ x y hwf hx hy]
  unfold jacEntryFwd
  rw [rd_fwd N _ _ hwf (unit_length N x), rd_unit N x hx]
  exact h

/-! ### the statement forms of `AdeptModel/Expr.lean` (`St`) record what `PStmt.record` says -/

/-- `x = expression` (also copy assignment, construction from an expression, and — unpacked — the compound operators):
    the statement appended to the tape is `⟨index of x, pushed operations⟩`, nothing stays pending, and the value stored
    in `x` is the plain evaluation of the expression -/
theorem assign_records (s : St ℝ) (h : Nat) (x : Var ℝ) (e : Node ℝ) (init : Scratch ℝ) (hp : s.pend = []) :
    (s.assign h x e init).tape = s.tape ++ [⟨x.idx, (e.valueAndGradient init).2⟩] ∧
    (s.assign h x e init).pend = [] ∧
    ((s.assign h x e init).var? h).map (fun v => (v.idx, v.val)) = some (x.idx, e.eval) := by
  refine ⟨?_, ?_, ?_⟩
  · simp [St.assign, St.pushRhs, St.pushLhs, St.setVar, hp]
  · simp [St.assign, St.pushRhs, St.pushLhs, St.setVar]
  · simp [St.assign, St.pushRhs, St.pushLhs, St.setVar, St.var?, valueAndGradient_fst]

/-- `x op= expression` is `x = x op expression` -/
theorem compound_is_assign (s : St ℝ) (h : Nat) (x : Var ℝ) (op : BOp) (e : Node ℝ) (init : Scratch ℝ) :
    s.compound h x op e init = s.assign h x (.bin op (.active x.idx x.val) e) init := rfl

/-- `x = passive`: an empty statement for the slot of `x` -/
theorem assignPassive_records (s : St ℝ) (h : Nat) (x : Var ℝ) (c : ℝ) (hp : s.pend = []) :
    (s.assignPassive h x c).tape = s.tape ++ [⟨x.idx, []⟩] := by
  simp [St.assignPassive, St.pushLhs, St.setVar, hp]

/-- `x += passive`, `x -= passive` record nothing -/
theorem compoundPassiveAddSub_records (s : St ℝ) (h : Nat) (x : Var ℝ) (sub : Bool) (c : ℝ) :
    (s.compoundPassiveAddSub h x sub c).tape = s.tape := by
  simp [St.compoundPassiveAddSub, St.setVar]

end Adept.Expr
