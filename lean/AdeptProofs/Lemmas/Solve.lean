import AdeptModel.Solve
/-!
# Helper lemmas for C16 (marshalling of solve/inv to LAPACK)

Core Lean only.  Everything is generic in the carrier `α` (only `0 1 + *` are used to *state* the defining
equations; no algebraic law is needed because the numerical content is delegated to the LAPACK contract)
and in the LAPACK implementation `L`.
-/
set_option linter.unusedSimpArgs false
set_option linter.unusedSectionVars false
namespace Adept.Solve
open Adept.Lapack

variable {α : Type}

/-! ## sums and the predicates of the contract respect pointwise equality on the index range -/
theorem sumTo_congr [Zero α] [Add α] {n : Nat} {f g : Nat → α} (h : ∀ j, j < n → f j = g j) : sumTo n f = sumTo n g := by
  induction n with
  | zero => rfl
  | succ k ih =>
    simp only [sumTo]
    rw [ih (fun j hj => h j (Nat.lt_succ_of_lt hj)), h k (Nat.lt_succ_self k)]

section Congr
variable [Zero α] [One α] [Add α] [Mul α]
set_option linter.unusedSectionVars false

theorem singular_congr {n : Nat} {M M' : Nat → Nat → α} (h : ∀ i j, i < n → j < n → M i j = M' i j) :
    Singular n M → Singular n M' := by
  rintro ⟨v, hv, hk⟩
  refine ⟨v, hv, fun i hi => ?_⟩
  rw [← hk i hi]
  exact sumTo_congr (fun j hj => by rw [h i j hi hj])

theorem singular_iff_congr {n : Nat} {M M' : Nat → Nat → α} (h : ∀ i j, i < n → j < n → M i j = M' i j) :
    Singular n M ↔ Singular n M' :=
  ⟨singular_congr h, singular_congr (fun i j hi hj => (h i j hi hj).symm)⟩

theorem isSolution_congr {n nrhs : Nat} {M M' X X' B B' : Nat → Nat → α}
    (hM : ∀ i j, i < n → j < n → M i j = M' i j)
    (hX : ∀ j k, j < n → k < nrhs → X j k = X' j k)
    (hB : ∀ i k, i < n → k < nrhs → B i k = B' i k) :
    IsSolution n nrhs M X B → IsSolution n nrhs M' X' B' := by
  intro hs i hi k hk
  rw [← hB i k hi hk, ← hs i hi k hk]
  exact sumTo_congr (fun j hj => by rw [hM i j hi hj, hX j k hj hk])

theorem isInverse_congr {n : Nat} {M M' R R' : Nat → Nat → α}
    (hM : ∀ i j, i < n → j < n → M i j = M' i j)
    (hR : ∀ i j, i < n → j < n → R i j = R' i j) :
    IsInverse n M R → IsInverse n M' R' := by
  intro hs i hi k hk
  obtain ⟨h1, h2⟩ := hs i hi k hk
  refine ⟨?_, ?_⟩
  · rw [← h1]; exact sumTo_congr (fun j hj => by rw [hM i j hi hj, hR j k hj hk])
  · rw [← h2]; exact sumTo_congr (fun j hj => by rw [hR i j hi hj, hM j k hj hk])

end Congr

/-! ## index arithmetic of the copies -/

theorem colmajor_div {n i j : Nat} (hi : i < n) : (i + j * n) / n = j := by
  have hn : 0 < n := Nat.lt_of_le_of_lt (Nat.zero_le i) hi
  rw [Nat.add_mul_div_right _ _ hn, Nat.div_eq_of_lt hi, Nat.zero_add]

theorem colmajor_mod {n i j : Nat} (hi : i < n) : (i + j * n) % n = i := by
  rw [Nat.add_mul_mod_self_right, Nat.mod_eq_of_lt hi]

/-- the column-major temporary holds the operand: what `?gesv`/`?getrf` see with `lda = rows` is `A` -/
theorem fillColMajor_geMat (A : Mat α) (old : Buf α) {i j : Nat} (hi : i < A.rows) (hj : j < A.cols) :
    geMat A.rows (fillColMajor A old) i j = A.get i j := by
  have hn : A.rows ≠ 0 := by omega
  simp only [geMat, fillColMajor, hn, if_false, colmajor_div hi, colmajor_mod hi, hj, if_true]

theorem fillVec_get (b : Vec α) (old : Buf α) {i : Nat} (hi : i < b.n) : fillVec b old i = b.get i := by
  simp only [fillVec, hi, if_true]

/-- a vector right-hand side is an `n × 1` column-major matrix whatever the leading dimension -/
theorem fillVec_geMat (b : Vec α) (old : Buf α) (ld : Nat) {i : Nat} (hi : i < b.n) :
    geMat ld (fillVec b old) i 0 = b.get i := by
  simp only [geMat, Nat.zero_mul, Nat.add_zero, fillVec_get b old hi]

theorem fillRowMajor_view (A : Mat α) (old : Buf α) {i j : Nat} (hi : i < A.rows) (hj : j < A.cols) :
    (Mat.ofView A.rows A.cols 0 A.cols 1 (fillRowMajor A old)).get i j = A.get i j := by
  have hn : A.cols ≠ 0 := by omega
  have h1 : (0 + i * A.cols + j * 1) / A.cols = i := by
    rw [Nat.zero_add, Nat.mul_one, Nat.add_comm, colmajor_div hj]
  have h2 : (0 + i * A.cols + j * 1) % A.cols = j := by
    rw [Nat.zero_add, Nat.mul_one, Nat.add_comm, colmajor_mod hj]
  simp only [Mat.ofView, fillRowMajor, hn, if_false, h1, h2, hi, if_true]

/-! ## the orientation ↦ uplo lemma -/

/-- a `SymmMatrix` object is symmetric by construction (`SymmEngine::index` mirrors) -/
theorem symIndex_symm (o : Orient) (i j offset : Nat) : symIndex o i j offset = symIndex o j i offset := by
  rcases Nat.lt_trichotomy i j with h | h | h
  · have h1 : ¬ i ≥ j := by omega
    have h2 : j ≥ i := by omega
    have h3 : i ≤ j := by omega
    have h4 : ¬ j ≤ i := by omega
    cases o <;> simp only [symIndex, h1, h2, h3, h4, if_true, if_false] <;> exact Nat.add_comm _ _
  · subst h; rfl
  · have h1 : i ≥ j := by omega
    have h2 : ¬ j ≥ i := by omega
    have h3 : ¬ i ≤ j := by omega
    have h4 : j ≤ i := by omega
    cases o <;> simp only [symIndex, h1, h2, h3, h4, if_true, if_false] <;> exact Nat.add_comm _ _

theorem Sym.ofStorage_symm (o : Orient) (n off offset : Nat) (buf : Buf α) (i j : Nat) :
    (Sym.ofStorage o n off offset buf).get i j = (Sym.ofStorage o n off offset buf).get j i := by
  simp only [Sym.ofStorage, symIndex_symm o i j]

/-- **input side**: the `SymmMatrix` temporary `A_` (offset `n`, stored triangle copied, the rest junk `old`)
    read by a Fortran routine as column-major with `uplo = uploOf orient` and `lda = n` is the operand.
    (`ROW_LOWER_COL_UPPER` ↦ `'U'`, `ROW_UPPER_COL_LOWER` ↦ `'L'`: the row-major lower triangle is the
    column-major upper triangle.) -/
theorem fillSym_syMat (S : Sym α) (old : Buf α) (hsym : ∀ i j, S.get i j = S.get j i)
    {i j : Nat} (hi : i < S.n) (hj : j < S.n) :
    syMat (uploOf S.orient) S.n (fillSym S old) i j = S.get i j := by
  have hn : S.n ≠ 0 := by omega
  cases ho : S.orient with
  | rowLower =>
    simp only [uploOf, syMat]
    split
    · next hij =>
      simp only [fillSym, hn, if_false, colmajor_div hi, colmajor_mod hi, ho, Orient.stored, hj, hij,
        decide_true, and_self, if_true]
      exact hsym j i
    · next hij =>
      have hji : j ≤ i := by omega
      simp only [fillSym, hn, if_false, colmajor_div hj, colmajor_mod hj, ho, Orient.stored, hi, hji,
        decide_true, and_self, if_true]
  | rowUpper =>
    simp only [uploOf, syMat]
    split
    · next hij =>
      simp only [fillSym, hn, if_false, colmajor_div hi, colmajor_mod hi, ho, Orient.stored, hj, hij,
        decide_true, and_self, if_true]
      exact hsym j i
    · next hij =>
      have hji : i ≤ j := by omega
      simp only [fillSym, hn, if_false, colmajor_div hj, colmajor_mod hj, ho, Orient.stored, hi, hji,
        decide_true, and_self, if_true]

/-- **output side**: reading the buffer back as a `SymmMatrix` of the same orientation (offset `n`) gives
    the symmetric matrix the Fortran routine denotes by `(uplo, lda = n)` -/
theorem ofStorage_syMat (o : Orient) (n : Nat) (buf : Buf α) (i j : Nat) :
    (Sym.ofStorage o n 0 n buf).get i j = syMat (uploOf o) n buf i j := by
  cases o with
  | rowLower =>
    simp only [Sym.ofStorage, symIndex, uploOf, syMat, Nat.zero_add]
    by_cases h1 : i ≥ j <;> by_cases h2 : i ≤ j <;> simp only [h1, h2, if_true, if_false]
    · have : i = j := by omega
      subst this; rw [Nat.add_comm]
    · rw [Nat.add_comm]
    · omega
  | rowUpper =>
    simp only [Sym.ofStorage, symIndex, uploOf, syMat, Nat.zero_add]
    by_cases h1 : i ≤ j <;> by_cases h2 : j ≤ i <;> simp only [h1, h2, if_true, if_false]
    · have : i = j := by omega
      subst this; rw [Nat.add_comm]
    · rw [Nat.add_comm]
    · omega

/-! ## the heap: everything that existed before a call is left alone -/

/-- `h'` extends `h`: no buffer of `h` has been written, buffers may have been added -/
def Heap.Extends (h h' : Heap α) : Prop := h.next ≤ h'.next ∧ ∀ id, id < h.next → h'.mem id = h.mem id

theorem Heap.Extends.refl (h : Heap α) : h.Extends h := ⟨Nat.le_refl _, fun _ _ => rfl⟩

theorem Heap.Extends.trans {h1 h2 h3 : Heap α} (a : h1.Extends h2) (b : h2.Extends h3) : h1.Extends h3 :=
  ⟨Nat.le_trans a.1 b.1, fun id hid => by rw [b.2 id (Nat.lt_of_lt_of_le hid a.1), a.2 id hid]⟩

/-! ## what the property demands of each entry point -/
section Specs
variable [Zero α] [One α] [Add α] [Mul α]

/-- vector solve with the `n × n` matrix `M` and right-hand side `b`, started in heap `h` -/
def VecSpec (n : Nat) (M : Nat → Nat → α) (b : Vec α) (h : Heap α) (o : Out α (Vec α)) : Prop :=
  (∀ x, o.res = .ok x → x.n = b.n ∧ ∀ i, i < n → sumTo n (fun j => M i j * x.get j) = b.get i) ∧
  (Singular n M → o.res = .error .matrix_ill_conditioned) ∧
  (¬ Singular n M → ∃ x, o.res = .ok x) ∧
  h.Extends o.heap

/-- matrix solve -/
def MatSpec (n : Nat) (M : Nat → Nat → α) (B : Mat α) (h : Heap α) (o : Out α (Mat α)) : Prop :=
  (∀ X, o.res = .ok X → X.rows = B.rows ∧ X.cols = B.cols ∧ IsSolution n B.cols M X.get B.get) ∧
  (Singular n M → o.res = .error .matrix_ill_conditioned) ∧
  (¬ Singular n M → ∃ X, o.res = .ok X) ∧
  h.Extends o.heap

/-- inversion; `ρ` is the result type, `get` its element function -/
def InvSpec {ρ : Type} (get : ρ → Nat → Nat → α) (n : Nat) (M : Nat → Nat → α) (h : Heap α) (o : Out α ρ) : Prop :=
  (∀ R, o.res = .ok R → IsInverse n M (get R)) ∧
  (Singular n M → o.res = .error .matrix_ill_conditioned) ∧
  (¬ Singular n M → ∃ R, o.res = .ok R) ∧
  h.Extends o.heap

theorem VecSpec.congr {n : Nat} {M M' : Nat → Nat → α} {b b' : Vec α} {h h0 : Heap α} {o : Out α (Vec α)}
    (hM : ∀ i j, i < n → j < n → M i j = M' i j) (hn : b.n = b'.n) (hb : ∀ i, i < n → b.get i = b'.get i)
    (hh : h0.Extends h) (s : VecSpec n M b h o) : VecSpec n M' b' h0 o := by
  obtain ⟨s1, s2, s3, s4⟩ := s
  refine ⟨fun x hx => ?_, fun hs => s2 (singular_congr (fun i j hi hj => (hM i j hi hj).symm) hs),
    fun hs => s3 (fun hs' => hs (singular_congr hM hs')), hh.trans s4⟩
  obtain ⟨e1, e2⟩ := s1 x hx
  refine ⟨by rw [e1, hn], fun i hi => ?_⟩
  rw [← hb i hi, ← e2 i hi]
  exact sumTo_congr (fun j hj => by rw [hM i j hi hj])

theorem MatSpec.congr {n : Nat} {M M' : Nat → Nat → α} {B B' : Mat α} {h h0 : Heap α} {o : Out α (Mat α)}
    (hM : ∀ i j, i < n → j < n → M i j = M' i j) (hr : B.rows = B'.rows) (hc : B.cols = B'.cols)
    (hB : ∀ i k, i < n → k < B.cols → B.get i k = B'.get i k)
    (hh : h0.Extends h) (s : MatSpec n M B h o) : MatSpec n M' B' h0 o := by
  obtain ⟨s1, s2, s3, s4⟩ := s
  refine ⟨fun X hX => ?_, fun hs => s2 (singular_congr (fun i j hi hj => (hM i j hi hj).symm) hs),
    fun hs => s3 (fun hs' => hs (singular_congr hM hs')), hh.trans s4⟩
  obtain ⟨e1, e2, e3⟩ := s1 X hX
  refine ⟨by rw [e1, hr], by rw [e2, hc], ?_⟩
  rw [← hc]
  exact isSolution_congr hM (fun _ _ _ _ => rfl) hB e3

theorem InvSpec.congr {ρ : Type} {get : ρ → Nat → Nat → α} {n : Nat} {M M' : Nat → Nat → α} {h h0 : Heap α}
    {o : Out α ρ} (hM : ∀ i j, i < n → j < n → M i j = M' i j) (hh : h0.Extends h)
    (s : InvSpec get n M h o) : InvSpec get n M' h0 o := by
  obtain ⟨s1, s2, s3, s4⟩ := s
  exact ⟨fun R hR => isInverse_congr hM (fun _ _ _ _ => rfl) (s1 R hR),
    fun hs => s2 (singular_congr (fun i j hi hj => (hM i j hi hj).symm) hs),
    fun hs => s3 (fun hs' => hs (singular_congr hM hs')), hh.trans s4⟩

/-! ## solve.cpp, function by function -/
variable (L : Impl α)

theorem solveGenVec_res (h : Heap α) (A : Mat α) (b : Vec α) :
    (solveGenVec L h A b).res =
      if (L.gesv A.rows 1 (fillColMajor A (h.mem h.next)) A.rows (fillVec b (h.mem (h.next + 1))) A.rows).info ≠ 0
      then .error .matrix_ill_conditioned
      else .ok { n := b.n, get := (L.gesv A.rows 1 (fillColMajor A (h.mem h.next)) A.rows
                                    (fillVec b (h.mem (h.next + 1))) A.rows).b } := by
  simp only [solveGenVec, Heap.alloc, Heap.store]
  simp

theorem solveGenVec_extends (h : Heap α) (A : Mat α) (b : Vec α) : h.Extends (solveGenVec L h A b).heap := by
  simp only [solveGenVec, Heap.alloc, Heap.store]
  refine ⟨by simp only []; omega, fun id hid => ?_⟩
  have h1 : id ≠ h.next := by omega
  have h2 : id ≠ h.next + 1 := by omega
  simp only [h1, h2, if_false]

/-- `solve(Array<2>, Array<1>)` for a square `A` and a right-hand side of matching length -/
theorem solveGenVec_spec (hL : Contract L) (h : Heap α) (A : Mat α) (b : Vec α)
    (hsq : A.rows = A.cols) (hb : b.n = A.rows) :
    VecSpec A.rows A.get b h (solveGenVec L h A b) := by
  have hA : ∀ i j, i < A.rows → j < A.rows →
      geMat A.rows (fillColMajor A (h.mem h.next)) i j = A.get i j :=
    fun i j hi hj => fillColMajor_geMat A _ hi (hsq ▸ hj)
  refine ⟨fun x hx => ?_, fun hs => ?_, fun hs => ?_, solveGenVec_extends L h A b⟩
  · rw [solveGenVec_res] at hx
    split at hx
    · cases hx
    · next hinfo =>
      have hinfo : (L.gesv A.rows 1 (fillColMajor A (h.mem h.next)) A.rows
          (fillVec b (h.mem (h.next + 1))) A.rows).info = 0 := by
        simpa using hinfo
      have hs := hL.gesv_ok A.rows 1 _ A.rows _ A.rows (Nat.le_refl _) (Nat.le_refl _) hinfo
      injection hx with hx
      subst hx
      refine ⟨rfl, fun i hi => ?_⟩
      have := hs i hi 0 (by omega)
      rw [fillVec_geMat b _ _ (hb ▸ hi)] at this
      rw [← this]
      exact sumTo_congr (fun j hj => by rw [hA i j hi hj]; simp only [geMat, Nat.zero_mul, Nat.add_zero])
  · rw [solveGenVec_res]
    have := hL.gesv_sing A.rows 1 (fillColMajor A (h.mem h.next)) A.rows (fillVec b (h.mem (h.next + 1))) A.rows
      (Nat.le_refl _) (Nat.le_refl _) (singular_congr (fun i j hi hj => (hA i j hi hj).symm) hs)
    rw [if_pos (by omega)]
  · rw [solveGenVec_res]
    have := hL.gesv_reg A.rows 1 (fillColMajor A (h.mem h.next)) A.rows (fillVec b (h.mem (h.next + 1))) A.rows
      (Nat.le_refl _) (Nat.le_refl _) (fun hs' => hs (singular_congr hA hs'))
    rw [if_neg (by omega)]
    exact ⟨_, rfl⟩

theorem solveGenMat_res (h : Heap α) (A B : Mat α) :
    (solveGenMat L h A B).res =
      if (L.gesv A.rows B.cols (fillColMajor A (h.mem h.next)) A.rows (fillColMajor B (h.mem (h.next + 1))) A.rows).info ≠ 0
      then .error .matrix_ill_conditioned
      else .ok { rows := B.rows, cols := B.cols,
                 get := fun i j => (L.gesv A.rows B.cols (fillColMajor A (h.mem h.next)) A.rows
                                     (fillColMajor B (h.mem (h.next + 1))) A.rows).b (i + j * B.rows) } := by
  simp only [solveGenMat, Heap.alloc, Heap.store]
  simp

theorem solveGenMat_extends (h : Heap α) (A B : Mat α) : h.Extends (solveGenMat L h A B).heap := by
  simp only [solveGenMat, Heap.alloc, Heap.store]
  refine ⟨by simp only []; omega, fun id hid => ?_⟩
  have h1 : id ≠ h.next := by omega
  have h2 : id ≠ h.next + 1 := by omega
  simp only [h1, h2, if_false]

/-- `solve(Array<2>, Array<2>)`: `A` square, `B` with as many rows, any number of columns -/
theorem solveGenMat_spec (hL : Contract L) (h : Heap α) (A B : Mat α)
    (hsq : A.rows = A.cols) (hb : B.rows = A.rows) :
    MatSpec A.rows A.get B h (solveGenMat L h A B) := by
  have hA : ∀ i j, i < A.rows → j < A.rows →
      geMat A.rows (fillColMajor A (h.mem h.next)) i j = A.get i j :=
    fun i j hi hj => fillColMajor_geMat A _ hi (hsq ▸ hj)
  have hB : ∀ i k, i < A.rows → k < B.cols →
      geMat A.rows (fillColMajor B (h.mem (h.next + 1))) i k = B.get i k :=
    fun i k hi hk => by rw [← hb]; exact fillColMajor_geMat B _ (hb ▸ hi) hk
  refine ⟨fun X hX => ?_, fun hs => ?_, fun hs => ?_, solveGenMat_extends L h A B⟩
  · rw [solveGenMat_res] at hX
    split at hX
    · cases hX
    · next hinfo =>
      have hinfo : (L.gesv A.rows B.cols (fillColMajor A (h.mem h.next)) A.rows
          (fillColMajor B (h.mem (h.next + 1))) A.rows).info = 0 := by
        simpa using hinfo
      have hs := hL.gesv_ok A.rows B.cols _ A.rows _ A.rows (Nat.le_refl _) (Nat.le_refl _) hinfo
      injection hX with hX
      subst hX
      refine ⟨rfl, rfl, ?_⟩
      refine isSolution_congr hA (fun j k _ _ => ?_) hB hs
      simp only [geMat, hb]
  · rw [solveGenMat_res]
    have := hL.gesv_sing A.rows B.cols (fillColMajor A (h.mem h.next)) A.rows (fillColMajor B (h.mem (h.next + 1)))
      A.rows (Nat.le_refl _) (Nat.le_refl _) (singular_congr (fun i j hi hj => (hA i j hi hj).symm) hs)
    rw [if_pos (by omega)]
  · rw [solveGenMat_res]
    have := hL.gesv_reg A.rows B.cols (fillColMajor A (h.mem h.next)) A.rows (fillColMajor B (h.mem (h.next + 1)))
      A.rows (Nat.le_refl _) (Nat.le_refl _) (fun hs' => hs (singular_congr hA hs'))
    rw [if_neg (by omega)]
    exact ⟨_, rfl⟩

theorem solveSymMat_res (h : Heap α) (S : Sym α) (B : Mat α) :
    (solveSymMat L h S B).res =
      if (L.sysv (uploOf S.orient) S.n B.cols (fillSym S (h.mem h.next)) S.n
            (fillColMajor B (h.mem (h.next + 1))) B.rows).info ≠ 0
      then .error .matrix_ill_conditioned
      else .ok { rows := B.rows, cols := B.cols,
                 get := fun i j => (L.sysv (uploOf S.orient) S.n B.cols (fillSym S (h.mem h.next)) S.n
                                     (fillColMajor B (h.mem (h.next + 1))) B.rows).b (i + j * B.rows) } := by
  simp only [solveSymMat, Heap.alloc, Heap.store]
  simp

theorem solveSymMat_extends (h : Heap α) (S : Sym α) (B : Mat α) : h.Extends (solveSymMat L h S B).heap := by
  simp only [solveSymMat, Heap.alloc, Heap.store]
  refine ⟨by simp only []; omega, fun id hid => ?_⟩
  have h1 : id ≠ h.next := by omega
  have h2 : id ≠ h.next + 1 := by omega
  simp only [h1, h2, if_false]

/-- `solve(SymmMatrix, Array<2>)`, both orientations -/
theorem solveSymMat_spec (hL : Contract L) (h : Heap α) (S : Sym α) (B : Mat α)
    (hsym : ∀ i j, S.get i j = S.get j i) (hb : B.rows = S.n) :
    MatSpec S.n S.get B h (solveSymMat L h S B) := by
  have hA : ∀ i j, i < S.n → j < S.n →
      syMat (uploOf S.orient) S.n (fillSym S (h.mem h.next)) i j = S.get i j :=
    fun i j hi hj => fillSym_syMat S _ hsym hi hj
  have hB : ∀ i k, i < S.n → k < B.cols →
      geMat B.rows (fillColMajor B (h.mem (h.next + 1))) i k = B.get i k :=
    fun i k hi hk => fillColMajor_geMat B _ (hb ▸ hi) hk
  have hle : S.n ≤ B.rows := by omega
  refine ⟨fun X hX => ?_, fun hs => ?_, fun hs => ?_, solveSymMat_extends L h S B⟩
  · rw [solveSymMat_res] at hX
    split at hX
    · cases hX
    · next hinfo =>
      have hinfo : (L.sysv (uploOf S.orient) S.n B.cols (fillSym S (h.mem h.next)) S.n
            (fillColMajor B (h.mem (h.next + 1))) B.rows).info = 0 := by
        simpa using hinfo
      have hs := hL.sysv_ok (uploOf S.orient) S.n B.cols _ S.n _ B.rows (Nat.le_refl _) hle hinfo
      injection hX with hX
      subst hX
      refine ⟨rfl, rfl, ?_⟩
      refine isSolution_congr hA (fun j k _ _ => ?_) hB hs
      simp only [geMat]
  · rw [solveSymMat_res]
    have := hL.sysv_sing (uploOf S.orient) S.n B.cols (fillSym S (h.mem h.next)) S.n
      (fillColMajor B (h.mem (h.next + 1))) B.rows (Nat.le_refl _) hle
      (singular_congr (fun i j hi hj => (hA i j hi hj).symm) hs)
    rw [if_pos (by omega)]
  · rw [solveSymMat_res]
    have := hL.sysv_reg (uploOf S.orient) S.n B.cols (fillSym S (h.mem h.next)) S.n
      (fillColMajor B (h.mem (h.next + 1))) B.rows (Nat.le_refl _) hle (fun hs' => hs (singular_congr hA hs'))
    rw [if_neg (by omega)]
    exact ⟨_, rfl⟩

/-! ### temporaries made by the generic templates and by the fallback -/

theorem densify_extends (h : Heap α) (M : Mat α) : h.Extends (densify h M).1 := by
  simp only [densify, Heap.alloc, Heap.store]
  refine ⟨by simp only []; omega, fun id hid => ?_⟩
  have h1 : id ≠ h.next := by omega
  simp only [h1, if_false]

theorem densify_rows (h : Heap α) (M : Mat α) : (densify h M).2.rows = M.rows := rfl
theorem densify_cols (h : Heap α) (M : Mat α) : (densify h M).2.cols = M.cols := rfl

theorem densify_get (h : Heap α) (M : Mat α) {i j : Nat} (hi : i < M.rows) (hj : j < M.cols) :
    (densify h M).2.get i j = M.get i j := by
  simp only [densify, Heap.alloc, Heap.store, if_true]
  exact fillRowMajor_view M _ hi hj

theorem densifyVec_extends (h : Heap α) (v : Vec α) : h.Extends (densifyVec h v).1 := by
  simp only [densifyVec, Heap.alloc, Heap.store]
  refine ⟨by simp only []; omega, fun id hid => ?_⟩
  have h1 : id ≠ h.next := by omega
  simp only [h1, if_false]

theorem densifyVec_n (h : Heap α) (v : Vec α) : (densifyVec h v).2.n = v.n := rfl

theorem densifyVec_get (h : Heap α) (v : Vec α) {i : Nat} (hi : i < v.n) : (densifyVec h v).2.get i = v.get i := by
  simp [densifyVec, Heap.alloc, Heap.store, Vec.ofView, fillVec, hi]

/-- the second attempt of the symmetric vector form (fix F-21): `solve(Array<2,T,false>(A), b)` started in any
    heap `h5` that extends the caller's -/
theorem fallback_spec (hL : Contract L) (h h5 : Heap α) (hext : h.Extends h5) (S : Sym α) (b : Vec α)
    (hb : b.n = S.n) (log : List Call) :
    VecSpec S.n S.get b h
      { heap := (solveGenVec L (densify h5 S.toMat).1 (densify h5 S.toMat).2 b).heap, log := log,
        res := (solveGenVec L (densify h5 S.toMat).1 (densify h5 S.toMat).2 b).res } := by
  have s := solveGenVec_spec L hL (densify h5 S.toMat).1 (densify h5 S.toMat).2 b rfl hb
  have s' : VecSpec S.n S.get b h (solveGenVec L (densify h5 S.toMat).1 (densify h5 S.toMat).2 b) :=
    VecSpec.congr (fun i j hi hj => densify_get h5 S.toMat hi hj) rfl (fun _ _ => rfl)
      (hext.trans (densify_extends h5 S.toMat)) s
  exact s'

theorem solveSymVec_spec (hL : Contract L) (h : Heap α) (S : Sym α) (b : Vec α)
    (hsym : ∀ i j, S.get i j = S.get j i) (hb : b.n = S.n) :
    VecSpec S.n S.get b h (solveSymVec L h S b) := by
  have hA : ∀ i j, i < S.n → j < S.n →
      syMat (uploOf S.orient) S.n (fillSym S (h.mem h.next)) i j = S.get i j :=
    fun i j hi hj => fillSym_syMat S _ hsym hi hj
  have hle : S.n ≤ b.n := by omega
  have hext : ∀ (f g f' g' : Buf α), h.Extends
      { next := h.next + 1 + 1,
        mem := fun i => if i = h.next + 1 then f else if i = h.next then g else if i = h.next + 1 then f' else
                          if i = h.next then g' else h.mem i } := by
    intro f g f' g'
    refine ⟨by simp only []; omega, fun id hid => ?_⟩
    have h1 : id ≠ h.next := by omega
    have h2 : id ≠ h.next + 1 := by omega
    simp only [h1, h2, if_false]
  simp only [solveSymVec, Heap.alloc, Heap.store]
  simp
  split
  · next hinfo =>
    have hs := hL.sysv_ok (uploOf S.orient) S.n 1 _ S.n _ b.n (Nat.le_refl _) hle hinfo
    refine ⟨fun x hx => ?_, fun hsing => ?_, fun _ => ⟨_, rfl⟩, hext _ _ _ _⟩
    · injection hx with hx
      subst hx
      refine ⟨rfl, fun i hi => ?_⟩
      have := hs i hi 0 (by omega)
      rw [fillVec_geMat b _ _ (hb ▸ hi)] at this
      rw [← this]
      exact sumTo_congr (fun j hj => by rw [hA i j hi hj]; simp only [geMat, Nat.zero_mul, Nat.add_zero])
    · have := hL.sysv_sing (uploOf S.orient) S.n 1 (fillSym S (h.mem h.next)) S.n
        (fillVec b (h.mem (h.next + 1))) b.n (Nat.le_refl _) hle
        (singular_congr (fun i j hi hj => (hA i j hi hj).symm) hsing)
      omega
  · exact fallback_spec L hL h _ (hext _ _ _ _) S b hb _

/-! ## inv.cpp -/

/-- `inv(Array<2>)` of a non-square matrix: `invalid_operation`, before anything is allocated or called -/
theorem invGen_nonsquare (h : Heap α) (A : Mat α) (hns : A.rows ≠ A.cols) :
    invGen L h A = { heap := h, log := [], res := .error .invalid_operation } := by
  simp only [invGen, hns, ne_eq, not_false_eq_true, if_true]

/-- `inv(Array<2>)` of a square matrix -/
theorem invGen_spec (hL : Contract L) (h : Heap α) (A : Mat α) (hsq : A.rows = A.cols) :
    InvSpec Mat.get A.rows A.get h (invGen L h A) := by
  have hA : ∀ i j, i < A.rows → j < A.rows →
      geMat A.rows (fillColMajor A (h.mem h.next)) i j = A.get i j :=
    fun i j hi hj => fillColMajor_geMat A _ hi (hsq ▸ hj)
  have hext : ∀ (f g : Buf α), h.Extends
      { next := h.next + 1,
        mem := fun i => if i = h.next then f else if i = h.next then g else h.mem i } := by
    intro f g
    refine ⟨by simp only []; omega, fun id hid => ?_⟩
    have h1 : id ≠ h.next := by omega
    simp only [h1, if_false]
  have hext3 : ∀ (f g k : Buf α), h.Extends
      { next := h.next + 1,
        mem := fun i => if i = h.next then f else if i = h.next then g else if i = h.next then k else h.mem i } := by
    intro f g k
    refine ⟨by simp only []; omega, fun id hid => ?_⟩
    have h1 : id ≠ h.next := by omega
    simp only [h1, if_false]
  rw [invGen, if_neg (fun hne => hne hsq)]
  simp only [Heap.alloc, Heap.store]
  simp
  split
  · next hinfo =>
    obtain ⟨hk0, hk⟩ := hL.getri_ok A.rows (fillColMajor A (h.mem h.next)) A.rows (Nat.le_refl _) hinfo
    rw [if_pos hk0]
    refine ⟨fun R hR => ?_, fun hs => ?_, fun _ => ⟨_, rfl⟩, hext3 _ _ _⟩
    · injection hR with hR
      subst hR
      exact isInverse_congr hA (fun i j _ _ => rfl) hk
    · have := hL.getrf_sing A.rows (fillColMajor A (h.mem h.next)) A.rows (Nat.le_refl _)
        (singular_congr (fun i j hi hj => (hA i j hi hj).symm) hs)
      omega
  · next hinfo =>
    refine ⟨fun R hR => (by cases hR), fun _ => rfl, fun hs => ?_, hext _ _⟩
    have := hL.getrf_reg A.rows (fillColMajor A (h.mem h.next)) A.rows (Nat.le_refl _)
      (fun hs' => hs (singular_congr hA hs'))
    exact absurd this hinfo

/-- `inv(SymmMatrix)`, both orientations: the returned `SymmMatrix` is the inverse -/
theorem invSym_spec (hL : Contract L) (h : Heap α) (S : Sym α) (hsym : ∀ i j, S.get i j = S.get j i) :
    InvSpec Sym.get S.n S.get h (invSym L h S) := by
  have hA : ∀ i j, i < S.n → j < S.n →
      syMat (uploOf S.orient) S.n (fillSym S (h.mem h.next)) i j = S.get i j :=
    fun i j hi hj => fillSym_syMat S _ hsym hi hj
  have hext : ∀ (f g : Buf α), h.Extends
      { next := h.next + 1,
        mem := fun i => if i = h.next then f else if i = h.next then g else h.mem i } := by
    intro f g
    refine ⟨by simp only []; omega, fun id hid => ?_⟩
    have h1 : id ≠ h.next := by omega
    simp only [h1, if_false]
  have hext3 : ∀ (f g k : Buf α), h.Extends
      { next := h.next + 1,
        mem := fun i => if i = h.next then f else if i = h.next then g else if i = h.next then k else h.mem i } := by
    intro f g k
    refine ⟨by simp only []; omega, fun id hid => ?_⟩
    have h1 : id ≠ h.next := by omega
    simp only [h1, if_false]
  simp only [invSym, Heap.alloc, Heap.store]
  simp
  split
  · next hinfo =>
    obtain ⟨hk0, hk⟩ := hL.sytri_ok (uploOf S.orient) S.n (fillSym S (h.mem h.next)) S.n (Nat.le_refl _) hinfo
    rw [if_pos hk0]
    refine ⟨fun R hR => ?_, fun hs => ?_, fun _ => ⟨_, rfl⟩, hext3 _ _ _⟩
    · injection hR with hR
      subst hR
      exact isInverse_congr hA (fun i j _ _ => (ofStorage_syMat S.orient S.n _ i j).symm) hk
    · have := hL.sytrf_sing (uploOf S.orient) S.n (fillSym S (h.mem h.next)) S.n (Nat.le_refl _)
        (singular_congr (fun i j hi hj => (hA i j hi hj).symm) hs)
      omega
  · next hinfo =>
    refine ⟨fun R hR => (by cases hR), fun _ => rfl, fun hs => ?_, hext _ _⟩
    have := hL.sytrf_reg (uploOf S.orient) S.n (fillSym S (h.mem h.next)) S.n (Nat.le_refl _)
      (fun hs' => hs (singular_congr hA hs'))
    exact absurd this hinfo

/-! ## overload resolution: every argument form -/

/-- well-formed rank-2 argument: a `SymmMatrix` object is symmetric (true by construction, `Sym.ofStorage_symm`) -/
def MatArg.WF : MatArg α → Prop
  | .symm s => ∀ i j, s.get i j = s.get j i
  | _ => True

theorem MatSpec.of_eq {n : Nat} {M : Nat → Nat → α} {B : Mat α} {h : Heap α} {o o' : Out α (Mat α)}
    (hr : o'.res = o.res) (hh : o'.heap = o.heap) (s : MatSpec n M B h o) : MatSpec n M B h o' := by
  unfold MatSpec at *
  rw [hr, hh]; exact s

/-- the generic template: both operands evaluated into fresh dense objects, then the general form -/
theorem solveVec_generic_spec (hL : Contract L) (h : Heap α) (M : Mat α) (v : Vec α)
    (hsq : M.rows = M.cols) (hb : v.n = M.rows) :
    VecSpec M.rows M.get v h
      (solveGenVec L (densifyVec (densify h M).1 v).1 (densify h M).2 (densifyVec (densify h M).1 v).2) := by
  have s := solveGenVec_spec L hL (densifyVec (densify h M).1 v).1 (densify h M).2 (densifyVec (densify h M).1 v).2
    hsq hb
  exact VecSpec.congr (fun i j hi hj => densify_get h M hi (hsq ▸ hj)) (densifyVec_n _ v)
    (fun i hi => densifyVec_get _ v (hb ▸ hi))
    ((densify_extends h M).trans (densifyVec_extends _ v)) s

/-- **`solve(A, b)` for every argument form** (dense object of any layout, `SymmMatrix` of either orientation,
    arbitrary expressions on either side) -/
theorem solveVec_spec (hL : Contract L) (h : Heap α) (A : MatArg α) (b : VecArg α) (hwf : A.WF)
    (hsq : A.mat.rows = A.mat.cols) (hb : b.vec.n = A.mat.rows) :
    VecSpec A.mat.rows A.mat.get b.vec h (solveVec L h A b) := by
  cases A with
  | dense m =>
    cases b with
    | obj v => exact solveGenVec_spec L hL h m v hsq hb
    | expr v => exact solveVec_generic_spec L hL h m v hsq hb
  | symm s =>
    cases b with
    | obj v => exact solveSymVec_spec L hL h s v hwf hb
    | expr v => exact solveVec_generic_spec L hL h s.toMat v hsq hb
  | expr m =>
    cases b with
    | obj v => exact solveVec_generic_spec L hL h m v hsq hb
    | expr v => exact solveVec_generic_spec L hL h m v hsq hb

theorem solveMat_generic_spec (hL : Contract L) (h : Heap α) (M B : Mat α)
    (hsq : M.rows = M.cols) (hb : B.rows = M.rows) :
    MatSpec M.rows M.get B h
      (solveGenMat L (densify (densify h M).1 B).1 (densify h M).2 (densify (densify h M).1 B).2) := by
  have s := solveGenMat_spec L hL (densify (densify h M).1 B).1 (densify h M).2 (densify (densify h M).1 B).2
    hsq hb
  exact MatSpec.congr (fun i j hi hj => densify_get h M hi (hsq ▸ hj)) (densify_rows _ B) (densify_cols _ B)
    (fun i k hi hk => densify_get _ B (hb ▸ hi) hk)
    ((densify_extends h M).trans (densify_extends _ B)) s

/-- **`solve(A, B)` for every argument form** -/
theorem solveMat_spec (hL : Contract L) (h : Heap α) (A B : MatArg α) (hwf : A.WF)
    (hsq : A.mat.rows = A.mat.cols) (hb : B.mat.rows = A.mat.rows) :
    MatSpec A.mat.rows A.mat.get B.mat h (solveMat L h A B) := by
  cases A with
  | dense m =>
    cases B with
    | dense b => exact solveGenMat_spec L hL h m b hsq hb
    | symm b => exact solveMat_generic_spec L hL h m b.toMat hsq hb
    | expr b => exact solveMat_generic_spec L hL h m b hsq hb
  | symm s =>
    cases B with
    | dense b => exact solveSymMat_spec L hL h s b hwf hb
    | symm b =>
      have s0 := solveSymMat_spec L hL (densify h b.toMat).1 s (densify h b.toMat).2 hwf hb
      exact MatSpec.congr (fun _ _ _ _ => rfl) (densify_rows h b.toMat) (densify_cols h b.toMat)
        (fun i k hi hk => densify_get h b.toMat (hb ▸ hi) hk) (densify_extends h b.toMat) s0
    | expr b => exact solveMat_generic_spec L hL h s.toMat b hsq hb
  | expr m =>
    cases B with
    | dense b => exact solveMat_generic_spec L hL h m b hsq hb
    | symm b => exact solveMat_generic_spec L hL h m b.toMat hsq hb
    | expr b => exact solveMat_generic_spec L hL h m b hsq hb

theorem InvSpec.map {ρ σ : Type} {get : σ → Nat → Nat → α} {f : ρ → σ} {n : Nat} {M : Nat → Nat → α} {h : Heap α}
    {o : Out α ρ} (s : InvSpec (fun r => get (f r)) n M h o) : InvSpec get n M h (mapRes f o) := by
  obtain ⟨s1, s2, s3, s4⟩ := s
  refine ⟨fun R hR => ?_, fun hs => ?_, fun hs => ?_, s4⟩
  · simp only [mapRes] at hR
    split at hR
    · next r hr => injection hR with hR; subst hR; exact s1 r hr
    · cases hR
  · simp only [mapRes, s2 hs]
  · obtain ⟨R, hR⟩ := s3 hs
    exact ⟨f R, by simp only [mapRes, hR]⟩

/-- **`inv(A)` for every square argument form** -/
theorem inv_spec (hL : Contract L) (h : Heap α) (A : MatArg α) (hwf : A.WF) (hsq : A.mat.rows = A.mat.cols) :
    InvSpec (fun R => R.mat.get) A.mat.rows A.mat.get h (inv L h A) := by
  cases A with
  | dense m => exact InvSpec.map (invGen_spec L hL h m hsq)
  | symm s => exact InvSpec.map (invSym_spec L hL h s hwf)
  | expr m =>
    have s0 := invGen_spec L hL (densify h m).1 (densify h m).2 hsq
    exact InvSpec.map (InvSpec.congr (fun i j hi hj => densify_get h m hi (hsq ▸ hj)) (densify_extends h m) s0)

/-- `inv` of a non-square dense object or expression: `invalid_operation`, no LAPACK call -/
theorem inv_nonsquare (h : Heap α) (A : MatArg α) (hns : A.mat.rows ≠ A.mat.cols) :
    (inv L h A).res = .error .invalid_operation ∧ (inv L h A).log = [] ∧ h.Extends (inv L h A).heap := by
  cases A with
  | dense m =>
    simp only [inv, mapRes, invGen_nonsquare L h m hns]
    exact ⟨trivial, trivial, Heap.Extends.refl h⟩
  | symm s => exact absurd rfl hns
  | expr m =>
    simp only [inv, mapRes, invGen_nonsquare L (densify h m).1 (densify h m).2 hns]
    exact ⟨trivial, trivial, densify_extends h m⟩


/-! ## frames without any hypothesis (whatever LAPACK does, whatever the shapes) -/

theorem solveSymVec_extends (h : Heap α) (S : Sym α) (b : Vec α) : h.Extends (solveSymVec L h S b).heap := by
  have hext : ∀ (f g f' g' : Buf α), h.Extends
      { next := h.next + 1 + 1,
        mem := fun i => if i = h.next + 1 then f else if i = h.next then g else if i = h.next + 1 then f' else
                          if i = h.next then g' else h.mem i } := by
    intro f g f' g'
    refine ⟨by simp only []; omega, fun id hid => ?_⟩
    have h1 : id ≠ h.next := by omega
    have h2 : id ≠ h.next + 1 := by omega
    simp only [h1, h2, if_false]
  simp only [solveSymVec, Heap.alloc, Heap.store]
  simp
  split
  · exact hext _ _ _ _
  · exact (hext _ _ _ _).trans ((densify_extends _ _).trans (solveGenVec_extends L _ _ _))

theorem invGen_extends (h : Heap α) (A : Mat α) : h.Extends (invGen L h A).heap := by
  have hext : ∀ (f g : Buf α), h.Extends
      { next := h.next + 1,
        mem := fun i => if i = h.next then f else if i = h.next then g else h.mem i } := by
    intro f g
    refine ⟨by simp only []; omega, fun id hid => ?_⟩
    have h1 : id ≠ h.next := by omega
    simp only [h1, if_false]
  have hext3 : ∀ (f g k : Buf α), h.Extends
      { next := h.next + 1,
        mem := fun i => if i = h.next then f else if i = h.next then g else if i = h.next then k else h.mem i } := by
    intro f g k
    refine ⟨by simp only []; omega, fun id hid => ?_⟩
    have h1 : id ≠ h.next := by omega
    simp only [h1, if_false]
  by_cases hsq : A.rows = A.cols
  · rw [invGen, if_neg (fun hne => hne hsq)]
    simp only [Heap.alloc, Heap.store]
    simp
    split
    · exact hext3 _ _ _
    · exact hext _ _
  · rw [invGen_nonsquare L h A hsq]
    exact Heap.Extends.refl h

theorem invSym_extends (h : Heap α) (S : Sym α) : h.Extends (invSym L h S).heap := by
  have hext : ∀ (f g : Buf α), h.Extends
      { next := h.next + 1,
        mem := fun i => if i = h.next then f else if i = h.next then g else h.mem i } := by
    intro f g
    refine ⟨by simp only []; omega, fun id hid => ?_⟩
    have h1 : id ≠ h.next := by omega
    simp only [h1, if_false]
  have hext3 : ∀ (f g k : Buf α), h.Extends
      { next := h.next + 1,
        mem := fun i => if i = h.next then f else if i = h.next then g else if i = h.next then k else h.mem i } := by
    intro f g k
    refine ⟨by simp only []; omega, fun id hid => ?_⟩
    have h1 : id ≠ h.next := by omega
    simp only [h1, if_false]
  simp only [invSym, Heap.alloc, Heap.store]
  simp
  split
  · exact hext3 _ _ _
  · exact hext _ _

/-- `solve(A,b)`, every overload -/
theorem solveVec_extends (h : Heap α) (A : MatArg α) (b : VecArg α) : h.Extends (solveVec L h A b).heap := by
  have gen : ∀ (M : Mat α) (v : Vec α), h.Extends
      (solveGenVec L (densifyVec (densify h M).1 v).1 (densify h M).2 (densifyVec (densify h M).1 v).2).heap :=
    fun M v => (densify_extends h M).trans ((densifyVec_extends _ v).trans (solveGenVec_extends L _ _ _))
  cases A with
  | dense m =>
    cases b with
    | obj v => exact solveGenVec_extends L h m v
    | expr v => exact gen m v
  | symm s =>
    cases b with
    | obj v => exact solveSymVec_extends L h s v
    | expr v => exact gen s.toMat v
  | expr m =>
    cases b with
    | obj v => exact gen m v
    | expr v => exact gen m v

/-- `solve(A,B)`, every overload -/
theorem solveMat_extends (h : Heap α) (A B : MatArg α) : h.Extends (solveMat L h A B).heap := by
  have gen : ∀ (M N : Mat α), h.Extends
      (solveGenMat L (densify (densify h M).1 N).1 (densify h M).2 (densify (densify h M).1 N).2).heap :=
    fun M N => (densify_extends h M).trans ((densify_extends _ N).trans (solveGenMat_extends L _ _ _))
  cases A with
  | dense m =>
    cases B with
    | dense b => exact solveGenMat_extends L h m b
    | symm b => exact gen m b.toMat
    | expr b => exact gen m b
  | symm s =>
    cases B with
    | dense b => exact solveSymMat_extends L h s b
    | symm b => exact (densify_extends h b.toMat).trans (solveSymMat_extends L _ s _)
    | expr b => exact gen s.toMat b
  | expr m =>
    cases B with
    | dense b => exact gen m b
    | symm b => exact gen m b.toMat
    | expr b => exact gen m b

/-- `inv(A)`, every overload -/
theorem inv_extends (h : Heap α) (A : MatArg α) : h.Extends (inv L h A).heap := by
  cases A with
  | dense m => exact invGen_extends L h m
  | symm s => exact invSym_extends L h s
  | expr m => exact (densify_extends h m).trans (invGen_extends L _ _)


end Specs

end Adept.Solve
