import AdeptModel.Lapack
import Mathlib.LinearAlgebra.Matrix.NonsingularInverse
import Mathlib.LinearAlgebra.Matrix.ToLinearEquiv
/-!
# The LAPACK contract of `AdeptModel/Lapack.lean` is satisfiable over every field

`classicalImpl K` solves by `A⁻¹·B` (Mathlib's nonsingular inverse) when `det A ≠ 0` and returns `info = 1`
otherwise; `classicalImpl_contract` proves `Contract (classicalImpl K)`.  Hence the theorems of C16, which
are of the form `∀ L, Contract L → …`, are not vacuous.  Also: the kernel-vector notion of singularity used by
the contract is `det = 0`.  (Proof layer only: noncomputable, never linked into the model driver.)
-/
set_option linter.unusedSectionVars false
namespace Adept.Lapack
open Matrix

variable {K : Type} [Field K]

/-- the leading `n × m` block of an index function as a Mathlib matrix -/
def toM (n m : Nat) (M : Nat → Nat → K) : Matrix (Fin n) (Fin m) K := fun i j => M i j

theorem sumTo_eq_sum (n : Nat) (f : Nat → K) : sumTo n f = ∑ j : Fin n, f j := by
  induction n with
  | zero => simp [sumTo]
  | succ k ih => rw [sumTo, ih, Fin.sum_univ_castSucc]; simp

theorem sumTo_mul_eq (n m : Nat) (A X : Nat → Nat → K) {i k : Nat} (hi : i < n) (hk : k < m) :
    sumTo n (fun j => A i j * X j k) = (toM n n A * toM n m X) ⟨i, hi⟩ ⟨k, hk⟩ := by
  rw [sumTo_eq_sum, Matrix.mul_apply]
  rfl

/-- exact singularity in the sense of the contract is `det = 0` -/
theorem singular_iff_det (n : Nat) (M : Nat → Nat → K) : Singular n M ↔ (toM n n M).det = 0 := by
  classical
  rw [← Matrix.exists_mulVec_eq_zero_iff]
  constructor
  · rintro ⟨v, ⟨j, hj, hvj⟩, hk⟩
    refine ⟨fun j => v j, ?_, ?_⟩
    · intro h0
      exact hvj (congrFun h0 ⟨j, hj⟩)
    · funext i
      have := hk i i.isLt
      rw [sumTo_eq_sum] at this
      simpa [Matrix.mulVec, dotProduct, toM] using this
  · rintro ⟨w, hw, hmv⟩
    obtain ⟨j, hj⟩ := Function.ne_iff.mp hw
    refine ⟨fun j => if h : j < n then w ⟨j, h⟩ else 0, ⟨j, j.isLt, by simpa using hj⟩, fun i hi => ?_⟩
    rw [sumTo_eq_sum]
    have := congrFun hmv ⟨i, hi⟩
    simpa [Matrix.mulVec, dotProduct, toM] using this

/-- write an `n × m` matrix into a column-major buffer with leading dimension `ld` -/
noncomputable def writeBack (n m ld : Nat) (X : Matrix (Fin n) (Fin m) K) (old : Buf K) : Buf K :=
  fun k => if h : k % ld < n ∧ k / ld < m then X ⟨k % ld, h.1⟩ ⟨k / ld, h.2⟩ else old k

theorem writeBack_geMat {n m ld : Nat} (X : Matrix (Fin n) (Fin m) K) (old : Buf K) (hld : n ≤ ld)
    {i k : Nat} (hi : i < n) (hk : k < m) :
    geMat ld (writeBack n m ld X old) i k = X ⟨i, hi⟩ ⟨k, hk⟩ := by
  have hil : i < ld := Nat.lt_of_lt_of_le hi hld
  have h1 : (i + k * ld) % ld = i := by rw [Nat.add_mul_mod_self_right, Nat.mod_eq_of_lt hil]
  have h2 : (i + k * ld) / ld = k := by
    rw [Nat.add_mul_div_right _ _ (Nat.lt_of_le_of_lt (Nat.zero_le _) hil), Nat.div_eq_of_lt hil, Nat.zero_add]
  simp only [geMat, writeBack, h1, h2, hi, hk, and_self, dif_pos]

theorem toM_writeBack {n m ld : Nat} (X : Matrix (Fin n) (Fin m) K) (old : Buf K) (hld : n ≤ ld) :
    toM n m (geMat ld (writeBack n m ld X old)) = X := by
  funext i k
  exact writeBack_geMat X old hld i.isLt k.isLt

open Classical in
/-- solve `M·X = B` for the matrix `M` the routine sees -/
noncomputable def clSolve (M : Nat → Nat → K) (n nrhs : Nat) (a b : Buf K) (ldb : Nat) : SolveOut K :=
  if (toM n n M).det = 0 then { a := a, b := b, info := 1 }
  else { a := a, b := writeBack n nrhs ldb ((toM n n M)⁻¹ * toM n nrhs (geMat ldb b)) b, info := 0 }

open Classical in
noncomputable def clFac (M : Nat → Nat → K) (n : Nat) (a : Buf K) : FacOut K :=
  { a := a, ipiv := [], info := if (toM n n M).det = 0 then 1 else 0 }

open Classical in
noncomputable def clInv (M : Nat → Nat → K) (n : Nat) (a : Buf K) (lda : Nat) : InvOut K :=
  if (toM n n M).det = 0 then { a := a, info := 1 }
  else { a := writeBack n n lda (toM n n M)⁻¹ a, info := 0 }

/-- an implementation by Mathlib's nonsingular inverse (the "factorisation" left by `?getrf`/`?sytrf` is the
    matrix itself: the contract fixes no format) -/
noncomputable def classicalImpl (K : Type) [Field K] : Impl K where
  gesv n nrhs a lda b ldb := clSolve (geMat lda a) n nrhs a b ldb
  sysv u n nrhs a lda b ldb := clSolve (syMat u lda a) n nrhs a b ldb
  getrf n a lda := clFac (geMat lda a) n a
  getri n a lda _ := clInv (geMat lda a) n a lda
  sytrf u n a lda := clFac (syMat u lda a) n a
  sytri u n a lda _ := clInv (syMat u lda a) n a lda

theorem clSolve_ok (M : Nat → Nat → K) (n nrhs : Nat) (a b : Buf K) (ldb : Nat) (hld : n ≤ ldb)
    (h0 : (clSolve M n nrhs a b ldb).info = 0) :
    IsSolution n nrhs M (geMat ldb (clSolve M n nrhs a b ldb).b) (geMat ldb b) := by
  classical
  unfold clSolve at h0 ⊢
  split at h0
  · simp at h0
  · next hdet =>
    rw [if_neg hdet]
    intro i hi k hk
    rw [sumTo_mul_eq n nrhs M _ hi hk, toM_writeBack _ _ hld,
      Matrix.mul_nonsing_inv_cancel_left _ _ (isUnit_iff_ne_zero.mpr hdet)]
    rfl

theorem clSolve_sing (M : Nat → Nat → K) (n nrhs : Nat) (a b : Buf K) (ldb : Nat) (hs : Singular n M) :
    0 < (clSolve M n nrhs a b ldb).info := by
  classical
  unfold clSolve
  rw [if_pos ((singular_iff_det n M).mp hs)]
  show (0 : Int) < 1
  decide

theorem clSolve_reg (M : Nat → Nat → K) (n nrhs : Nat) (a b : Buf K) (ldb : Nat) (hs : ¬ Singular n M) :
    (clSolve M n nrhs a b ldb).info = 0 := by
  classical
  unfold clSolve
  rw [if_neg (fun h => hs ((singular_iff_det n M).mpr h))]

theorem clFac_sing (M : Nat → Nat → K) (n : Nat) (a : Buf K) (hs : Singular n M) : 0 < (clFac M n a).info := by
  classical
  unfold clFac
  simp only [(singular_iff_det n M).mp hs, if_true]
  decide

theorem clFac_reg (M : Nat → Nat → K) (n : Nat) (a : Buf K) (hs : ¬ Singular n M) : (clFac M n a).info = 0 := by
  classical
  unfold clFac
  have hdet : ¬ (toM n n M).det = 0 := fun h => hs ((singular_iff_det n M).mpr h)
  simp only [hdet, if_false]

theorem clFac_info (M : Nat → Nat → K) (n : Nat) (a : Buf K) (h0 : (clFac M n a).info = 0) :
    (toM n n M).det ≠ 0 := by
  classical
  unfold clFac at h0
  intro hdet
  simp [hdet] at h0

theorem delta_eq (n : Nat) {i k : Nat} (hi : i < n) (hk : k < n) :
    (delta i k : K) = (1 : Matrix (Fin n) (Fin n) K) ⟨i, hi⟩ ⟨k, hk⟩ := by
  simp [delta, Matrix.one_apply, Fin.ext_iff]

theorem syMat_symm (u : Uplo) (ld : Nat) (a : Buf K) (i j : Nat) : syMat u ld a i j = syMat u ld a j i := by
  rcases Nat.lt_trichotomy i j with h | h | h
  · have h1 : i ≤ j := by omega
    have h2 : ¬ j ≤ i := by omega
    cases u <;> simp [syMat, h1, h2]
  · subst h; rfl
  · have h1 : ¬ i ≤ j := by omega
    have h2 : j ≤ i := by omega
    cases u <;> simp [syMat, h1, h2]

theorem toM_syMat_writeBack {n ld : Nat} (u : Uplo) (X : Matrix (Fin n) (Fin n) K) (old : Buf K) (hld : n ≤ ld)
    (hX : Xᵀ = X) : toM n n (syMat u ld (writeBack n n ld X old)) = X := by
  funext i k
  have e1 := writeBack_geMat X old hld i.isLt k.isLt
  have e2 := writeBack_geMat X old hld k.isLt i.isLt
  have hs : X k i = X i k := by
    have := congrFun (congrFun hX i) k
    simpa [Matrix.transpose_apply] using this
  simp only [geMat] at e1 e2
  show syMat u ld (writeBack n n ld X old) i k = X i k
  cases u <;> simp only [syMat] <;> split <;> simp only [e1, e2, hs]

theorem isInverse_of_toM {n : Nat} (M R : Nat → Nat → K) (hdet : (toM n n M).det ≠ 0)
    (hR : toM n n R = (toM n n M)⁻¹) : IsInverse n M R := by
  classical
  intro i hi k hk
  have hu : IsUnit (toM n n M).det := isUnit_iff_ne_zero.mpr hdet
  refine ⟨?_, ?_⟩
  · rw [sumTo_mul_eq n n M R hi hk, hR, Matrix.mul_nonsing_inv _ hu, delta_eq n hi hk]
  · rw [sumTo_mul_eq n n R M hi hk, hR, Matrix.nonsing_inv_mul _ hu, delta_eq n hi hk]

theorem clInv_ge (n : Nat) (a : Buf K) (lda : Nat) (hld : n ≤ lda) (hdet : (toM n n (geMat lda a)).det ≠ 0) :
    (clInv (geMat lda a) n a lda).info = 0 ∧
    IsInverse n (geMat lda a) (geMat lda (clInv (geMat lda a) n a lda).a) := by
  classical
  unfold clInv
  rw [if_neg hdet]
  exact ⟨rfl, isInverse_of_toM _ _ hdet (toM_writeBack _ _ hld)⟩

theorem clInv_sy (u : Uplo) (n : Nat) (a : Buf K) (lda : Nat) (hld : n ≤ lda)
    (hdet : (toM n n (syMat u lda a)).det ≠ 0) :
    (clInv (syMat u lda a) n a lda).info = 0 ∧
    IsInverse n (syMat u lda a) (syMat u lda (clInv (syMat u lda a) n a lda).a) := by
  classical
  unfold clInv
  rw [if_neg hdet]
  refine ⟨rfl, isInverse_of_toM _ _ hdet (toM_syMat_writeBack u _ _ hld ?_)⟩
  rw [Matrix.transpose_nonsing_inv]
  congr 1
  funext i k
  exact syMat_symm u lda a k i

/-- **the contract is satisfiable** over every field -/
theorem classicalImpl_contract (K : Type) [Field K] : Contract (classicalImpl K) where
  gesv_ok n nrhs a lda b ldb _ hb h0 := clSolve_ok (geMat lda a) n nrhs a b ldb hb h0
  gesv_sing n nrhs a lda b ldb _ _ hs := clSolve_sing (geMat lda a) n nrhs a b ldb hs
  gesv_reg n nrhs a lda b ldb _ _ hs := clSolve_reg (geMat lda a) n nrhs a b ldb hs
  sysv_ok u n nrhs a lda b ldb _ hb h0 := clSolve_ok (syMat u lda a) n nrhs a b ldb hb h0
  sysv_sing u n nrhs a lda b ldb _ _ hs := clSolve_sing (syMat u lda a) n nrhs a b ldb hs
  sysv_reg u n nrhs a lda b ldb _ _ hs := clSolve_reg (syMat u lda a) n nrhs a b ldb hs
  getrf_sing n a lda _ hs := clFac_sing (geMat lda a) n a hs
  getrf_reg n a lda _ hs := clFac_reg (geMat lda a) n a hs
  getri_ok n a lda hld h0 := clInv_ge n a lda hld (clFac_info (geMat lda a) n a h0)
  sytrf_sing u n a lda _ hs := clFac_sing (syMat u lda a) n a hs
  sytrf_reg u n a lda _ hs := clFac_reg (syMat u lda a) n a hs
  sytri_ok u n a lda hld h0 := clInv_sy u n a lda hld (clFac_info (syMat u lda a) n a h0)

end Adept.Lapack
