import AdeptModel.IndexedViews
import AdeptProofs.Lemmas.Views
/-!
Helper lemmas for the integer-vector indexing part of C06 (`AdeptModel/IndexedViews.lean`).  Core Lean only.

Contents: outcomes of `checkIdx` / `selValue` / `selSize`; `ixDims` computes the documented extents and
rank; `translateCoords` returns the index map `expandSel` (and, in the checked build, only in-range
coordinates; its only error after a successful constructor is `index_out_of_bounds`); admissible
selectors (`SelsAdm`) give in-range parent indices in both builds; `allIndices` enumerates in-range
indices; the store list of an assignment; `applyStores` (last store wins, other cells untouched).
-/
namespace Adept.Views

/-! ### `get_value_with_len` -/

theorem checkIdx_ok {c : Bool} {len : Nat} {i j : Int} (h : checkIdx c len i = .ok j) :
    j = i ∧ (c = true → 0 ≤ i ∧ i < len) := by
  unfold checkIdx at h
  split at h
  · cases h
  · cases h
    refine ⟨rfl, ?_⟩
    intro hc
    subst hc
    simp_all

theorem checkIdx_err {c : Bool} {len : Nat} {i : Int} {e : Err} (h : checkIdx c len i = .error e) :
    e = .index_out_of_bounds ∧ c = true ∧ ¬ (0 ≤ i ∧ i < len) := by
  unfold checkIdx at h
  split at h
  · cases h
    rename_i hc
    refine ⟨rfl, ?_⟩
    cases c <;> simp_all
    omega
  · cases h

theorem checkIdx_inRange (c : Bool) {len : Nat} {i : Int} (h : 0 ≤ i ∧ i < len) : checkIdx c len i = .ok i := by
  unfold checkIdx
  have : ¬ (i < 0 ∨ i ≥ (len : Int)) := by omega
  cases c <;> simp [this]

theorem checkIdx_unchecked (len : Nat) (i : Int) : checkIdx false len i = .ok i := by
  simp [checkIdx]

theorem getIndex_err {c : Bool} {e : EndExpr} {len : Nat} {x : Err} (h : getIndexWithLen c e len = .error x) :
    x = .index_out_of_bounds ∧ c = true := by
  unfold getIndexWithLen at h
  simp only at h
  split at h
  · cases h
    rename_i hc
    refine ⟨rfl, ?_⟩
    cases c <;> simp_all
  · cases h

theorem getIndex_inRange (c : Bool) {e : EndExpr} {len : Nat} (h : 0 ≤ e.resolve len ∧ e.resolve len < len) :
    getIndexWithLen c e len = .ok (e.resolve len) := by
  unfold getIndexWithLen
  have : ¬ (e.resolve len < 0 ∨ e.resolve len ≥ (len : Int)) := by omega
  cases c <;> simp [this]

/-- a successful `get_value_with_len` returns the value the selector denotes; in the checked build that
    value is a valid index of the dimension -/
theorem selValue_ok {c : Bool} {d : Nat} {s : Sel} {j i : Int} (hj : 0 ≤ j) (h : selValue c d s j = .ok i) :
    i = selIndex d s j ∧ (c = true → 0 ≤ i ∧ i < d) := by
  cases s with
  | «at» e =>
    simp only [selValue] at h
    obtain ⟨h1, h2⟩ := checkIdx_ok h
    subst h1
    exact ⟨rfl, h2⟩
  | range b e st =>
    simp only [selValue] at h
    cases hb : getIndexWithLen c b d with
    | error x => simp [hb, bind, Except.bind] at h
    | ok bi =>
      simp only [hb, bind, Except.bind] at h
      obtain ⟨hb1, _⟩ := getIndex_ok hb
      obtain ⟨h1, h2⟩ := checkIdx_ok h
      subst hb1 h1
      exact ⟨rfl, h2⟩
  | all =>
    simp only [selValue] at h
    obtain ⟨h1, h2⟩ := checkIdx_ok h
    subst h1
    exact ⟨rfl, h2⟩
  | vec es =>
    simp only [selValue] at h
    cases he : es[j.toNat]? with
    | none => simp [he] at h
    | some e =>
      simp only [he] at h
      obtain ⟨h1, h2⟩ := checkIdx_ok h
      subst h1
      refine ⟨?_, h2⟩
      simp only [selIndex, List.getD_eq_getElem?_getD, he, Option.getD_some]

/-! ### `get_size_with_len`, `set_dimensions_` -/

/-- the extent a non-scalar selector contributes -/
def selExtent (d : Nat) : Sel → Nat
  | .at _ => 1
  | .range b e s => ((e.resolve d + s.resolve d - b.resolve d).tdiv (s.resolve d)).toNat
  | .all => d
  | .vec es => es.length

theorem selSize_ok {c : Bool} {d n : Nat} {s : Sel} (h : selSize c d s = .ok n) :
    n = selExtent d s ∧
    (match s with
     | .range b e st => st.resolve d ≠ 0 ∧ (n : Int) = (e.resolve d + st.resolve d - b.resolve d).tdiv (st.resolve d) ∧
         (c = true → (0 ≤ b.resolve d ∧ b.resolve d < d) ∧ (0 ≤ e.resolve d ∧ e.resolve d < d))
     | _ => True) := by
  cases s with
  | «at» e => simp only [selSize] at h; cases h; exact ⟨rfl, trivial⟩
  | all => simp only [selSize] at h; cases h; exact ⟨rfl, trivial⟩
  | vec es => simp only [selSize] at h; cases h; exact ⟨rfl, trivial⟩
  | range b e st =>
    simp only [selSize] at h
    cases hr : updateRange c d 0 b e (st.resolve d) with
    | error x => simp [hr, bind, Except.bind] at h
    | ok r =>
      obtain ⟨inc, m, o⟩ := r
      simp only [hr, bind, Except.bind] at h
      cases h
      obtain ⟨_, _, h3, h4, h5⟩ := updateRange_ok hr
      refine ⟨?_, h3, h4, h5⟩
      simp only [selExtent]
      omega

/-- shape of one step of `ixDims` on a non-scalar selector -/
theorem ixDims_cons_ok {c : Bool} {d : Nat} {ds : List Nat} {s : Sel} {ss : List Sel} {dims : List Nat}
    (hs : ∀ e, s ≠ .at e) (h : ixDims c (d :: ds) (s :: ss) = .ok dims) :
    ∃ n rest, selSize c d s = .ok n ∧ ixDims c ds ss = .ok rest ∧ dims = n :: rest := by
  cases s with
  | «at» e => exact absurd rfl (hs e)
  | range b e st =>
    simp only [ixDims] at h
    cases h1 : selSize c d (.range b e st) with
    | error x => simp [h1, bind, Except.bind] at h
    | ok n =>
      cases h2 : ixDims c ds ss with
      | error x => simp [h1, h2, bind, Except.bind] at h
      | ok rest =>
        simp only [h1, h2, bind, Except.bind] at h
        cases h
        exact ⟨n, rest, rfl, rfl, rfl⟩
  | all =>
    simp only [ixDims] at h
    cases h1 : selSize c d .all with
    | error x => simp [h1, bind, Except.bind] at h
    | ok n =>
      cases h2 : ixDims c ds ss with
      | error x => simp [h1, h2, bind, Except.bind] at h
      | ok rest =>
        simp only [h1, h2, bind, Except.bind] at h
        cases h
        exact ⟨n, rest, rfl, rfl, rfl⟩
  | vec es =>
    simp only [ixDims] at h
    cases h1 : selSize c d (.vec es) with
    | error x => simp [h1, bind, Except.bind] at h
    | ok n =>
      cases h2 : ixDims c ds ss with
      | error x => simp [h1, h2, bind, Except.bind] at h
      | ok rest =>
        simp only [h1, h2, bind, Except.bind] at h
        cases h
        exact ⟨n, rest, rfl, rfl, rfl⟩

theorem selExtents_cons {d : Nat} {ds : List Nat} {s : Sel} {ss : List Sel} (hs : ∀ e, s ≠ .at e) :
    selExtents (d :: ds) (s :: ss) = selExtent d s :: selExtents ds ss := by
  cases s with
  | «at» e => exact absurd rfl (hs e)
  | range b e st => rfl
  | all => rfl
  | vec es => rfl

theorem nonScalarCount_cons {s : Sel} {ss : List Sel} (hs : ∀ e, s ≠ .at e) :
    nonScalarCount (s :: ss) = nonScalarCount ss + 1 := by
  cases s with
  | «at» e => exact absurd rfl (hs e)
  | range b e st => rfl
  | all => rfl
  | vec es => rfl

/-- `set_dimensions_` yields the documented extents, one per non-scalar argument, and needs one argument
    per dimension of the array -/
theorem ixDims_ok (c : Bool) : ∀ (ds : List Nat) (ss : List Sel) (dims : List Nat), ixDims c ds ss = .ok dims →
    dims = selExtents ds ss ∧ dims.length = nonScalarCount ss ∧ ss.length = ds.length := by
  intro ds
  induction ds with
  | nil =>
    intro ss dims h
    cases ss with
    | nil => simp only [ixDims] at h; cases h; exact ⟨rfl, rfl, rfl⟩
    | cons s ss => simp [ixDims] at h
  | cons d ds ih =>
    intro ss dims h
    cases ss with
    | nil => simp [ixDims] at h
    | cons s ss =>
      by_cases hs : ∃ e, s = .at e
      · obtain ⟨e, rfl⟩ := hs
        simp only [ixDims] at h
        obtain ⟨h1, h2, h3⟩ := ih ss dims h
        exact ⟨by simpa [selExtents] using h1, by simpa [nonScalarCount] using h2, by simp [h3]⟩
      · have hs' : ∀ e, s ≠ .at e := fun e he => hs ⟨e, he⟩
        obtain ⟨n, rest, h1, h2, rfl⟩ := ixDims_cons_ok hs' h
        obtain ⟨i1, i2, i3⟩ := ih ss rest h2
        obtain ⟨j1, _⟩ := selSize_ok h1
        refine ⟨?_, ?_, by simp [i3]⟩
        · rw [selExtents_cons hs', ← i1, ← j1]
        · rw [nonScalarCount_cons hs']; simp [i2]

/-! ### `translate_coords_` -/

/-- unfolding of one step of `translateCoords` on a scalar selector -/
theorem translateCoords_at {c : Bool} {d : Nat} {ds : List Nat} {e : EndExpr} {ss : List Sel} {ix : List Int} :
    translateCoords c (d :: ds) (.at e :: ss) ix =
      (do let i ← selValue c d (.at e) 0; let r ← translateCoords c ds ss ix; .ok (i :: r)) := by
  simp only [translateCoords]

/-- … and on a non-scalar selector -/
theorem translateCoords_cons {c : Bool} {d : Nat} {ds : List Nat} {s : Sel} {ss : List Sel} {j : Int} {ix : List Int}
    (hs : ∀ e, s ≠ .at e) :
    translateCoords c (d :: ds) (s :: ss) (j :: ix) =
      (do let i ← selValue c d s j; let r ← translateCoords c ds ss ix; .ok (i :: r)) := by
  cases s with
  | «at» e => exact absurd rfl (hs e)
  | range b e st => simp only [translateCoords]
  | all => simp only [translateCoords]
  | vec es => simp only [translateCoords]

theorem translateCoords_nil_ix {c : Bool} {d : Nat} {ds : List Nat} {s : Sel} {ss : List Sel}
    (hs : ∀ e, s ≠ .at e) : translateCoords c (d :: ds) (s :: ss) [] = .error .bad_rank := by
  cases s with
  | «at» e => exact absurd rfl (hs e)
  | range b e st => simp only [translateCoords]
  | all => simp only [translateCoords]
  | vec es => simp only [translateCoords]

theorem expandSel_at {d : Nat} {ds : List Nat} {e : EndExpr} {ss : List Sel} {ix : List Int} :
    expandSel (d :: ds) (.at e :: ss) ix = selIndex d (.at e) 0 :: expandSel ds ss ix := by
  simp only [expandSel]

theorem expandSel_cons {d : Nat} {ds : List Nat} {s : Sel} {ss : List Sel} {j : Int} {ix : List Int}
    (hs : ∀ e, s ≠ .at e) :
    expandSel (d :: ds) (s :: ss) (j :: ix) = selIndex d s j :: expandSel ds ss ix := by
  cases s with
  | «at» e => exact absurd rfl (hs e)
  | range b e st => simp only [expandSel]
  | all => simp only [expandSel]
  | vec es => simp only [expandSel]

/-- a successful `translate_coords_` returns the index map `expandSel` (one coordinate per dimension of
    the array); in the checked build every coordinate is a valid index of its dimension -/
theorem translateCoords_ok (c : Bool) : ∀ (ds : List Nat) (ss : List Sel) (ix r : List Int),
    (∀ j ∈ ix, 0 ≤ j) → translateCoords c ds ss ix = .ok r →
    r = expandSel ds ss ix ∧ r.length = ds.length ∧ (c = true → InRange r ds) := by
  intro ds
  induction ds with
  | nil =>
    intro ss ix r _ h
    cases ss with
    | nil =>
      cases ix with
      | nil => simp only [translateCoords] at h; cases h; exact ⟨by simp [expandSel], rfl, fun _ => trivial⟩
      | cons j ix => simp [translateCoords] at h
    | cons s ss => simp [translateCoords] at h
  | cons d ds ih =>
    intro ss ix r hpos h
    cases ss with
    | nil => simp [translateCoords] at h
    | cons s ss =>
      by_cases hs : ∃ e, s = .at e
      · obtain ⟨e, rfl⟩ := hs
        rw [translateCoords_at] at h
        cases h1 : selValue c d (.at e) 0 with
        | error x => simp [h1, bind, Except.bind] at h
        | ok i =>
          cases h2 : translateCoords c ds ss ix with
          | error x => simp [h1, h2, bind, Except.bind] at h
          | ok r' =>
            simp only [h1, h2, bind, Except.bind] at h
            cases h
            obtain ⟨a1, a2⟩ := selValue_ok (Int.le_refl 0) h1
            obtain ⟨b1, b2, b3⟩ := ih ss ix r' hpos h2
            refine ⟨by rw [expandSel_at, a1, b1], by simp [b2], fun hc => ⟨a2 hc, b3 hc⟩⟩
      · have hs' : ∀ e, s ≠ .at e := fun e he => hs ⟨e, he⟩
        cases ix with
        | nil => rw [translateCoords_nil_ix hs'] at h; cases h
        | cons j ix =>
          rw [translateCoords_cons hs'] at h
          cases h1 : selValue c d s j with
          | error x => simp [h1, bind, Except.bind] at h
          | ok i =>
            cases h2 : translateCoords c ds ss ix with
            | error x => simp [h1, h2, bind, Except.bind] at h
            | ok r' =>
              simp only [h1, h2, bind, Except.bind] at h
              cases h
              obtain ⟨a1, a2⟩ := selValue_ok (hpos j (by simp)) h1
              obtain ⟨b1, b2, b3⟩ := ih ss ix r' (fun k hk => hpos k (by simp [hk])) h2
              refine ⟨by rw [expandSel_cons hs', a1, b1], by simp [b2], fun hc => ⟨a2 hc, b3 hc⟩⟩

theorem InRange_nonneg : ∀ {ix : List Int} {ds : List Nat}, InRange ix ds → ∀ j ∈ ix, 0 ≤ j
  | [], [], _ => by simp
  | i :: is, d :: ds, h => by
    intro j hj
    simp only [List.mem_cons] at hj
    rcases hj with rfl | hj
    · exact h.1.1
    · exact InRange_nonneg h.2 j hj
  | [], _ :: _, h => by simp [InRange] at h
  | _ :: _, [], h => by simp [InRange] at h

/-- after a successful constructor, value number `j < size` of an index object can only fail the range test -/
theorem selValue_total {c : Bool} {d n : Nat} {s : Sel} {j : Int} (hn : selSize c d s = .ok n)
    (hj : 0 ≤ j ∧ j < n) :
    (∃ i, selValue c d s j = .ok i) ∨ (c = true ∧ selValue c d s j = .error .index_out_of_bounds) := by
  cases hv : selValue c d s j with
  | ok i => exact Or.inl ⟨i, rfl⟩
  | error x =>
    right
    cases s with
    | «at» e =>
      simp only [selValue] at hv
      obtain ⟨rfl, hc, _⟩ := checkIdx_err hv
      exact ⟨hc, rfl⟩
    | all =>
      simp only [selValue] at hv
      obtain ⟨rfl, hc, _⟩ := checkIdx_err hv
      exact ⟨hc, rfl⟩
    | range b e st =>
      simp only [selValue] at hv
      cases hb : getIndexWithLen c b d with
      | error y =>
        obtain ⟨rfl, hc⟩ := getIndex_err hb
        simp only [hb, bind, Except.bind] at hv
        cases hv
        exact ⟨hc, rfl⟩
      | ok bi =>
        simp only [hb, bind, Except.bind] at hv
        obtain ⟨rfl, hc, _⟩ := checkIdx_err hv
        exact ⟨hc, rfl⟩
    | vec es =>
      simp only [selValue] at hv
      simp only [selSize] at hn
      cases hn
      have hlt : j.toNat < es.length := by omega
      simp only [List.getElem?_eq_getElem hlt] at hv
      obtain ⟨rfl, hc, _⟩ := checkIdx_err hv
      exact ⟨hc, rfl⟩

/-- the only way `translate_coords_` fails for an in-range element of a constructed indexed array is the
    range test of the checked build -/
theorem translateCoords_err (c : Bool) : ∀ (ds : List Nat) (ss : List Sel) (dims : List Nat) (ix : List Int) (x : Err),
    ixDims c ds ss = .ok dims → InRange ix dims → translateCoords c ds ss ix = .error x →
    c = true ∧ x = .index_out_of_bounds := by
  intro ds
  induction ds with
  | nil =>
    intro ss dims ix x hd hix h
    cases ss with
    | nil =>
      simp only [ixDims] at hd; cases hd
      cases ix with
      | nil => simp [translateCoords] at h
      | cons j ix => simp [InRange] at hix
    | cons s ss => simp [ixDims] at hd
  | cons d ds ih =>
    intro ss dims ix x hd hix h
    cases ss with
    | nil => simp [ixDims] at hd
    | cons s ss =>
      by_cases hs : ∃ e, s = .at e
      · obtain ⟨e, rfl⟩ := hs
        simp only [ixDims] at hd
        rw [translateCoords_at] at h
        cases h1 : selValue c d (.at e) 0 with
        | error y =>
          simp only [h1, bind, Except.bind] at h
          cases h
          simp only [selValue] at h1
          obtain ⟨rfl, hc, _⟩ := checkIdx_err h1
          exact ⟨hc, rfl⟩
        | ok i =>
          cases h2 : translateCoords c ds ss ix with
          | error y =>
            simp only [h1, h2, bind, Except.bind] at h
            cases h
            exact ih ss dims ix _ hd hix h2
          | ok r' => simp [h1, h2, bind, Except.bind] at h
      · have hs' : ∀ e, s ≠ .at e := fun e he => hs ⟨e, he⟩
        obtain ⟨n, rest, g1, g2, rfl⟩ := ixDims_cons_ok hs' hd
        cases ix with
        | nil => simp [InRange] at hix
        | cons j ix =>
          obtain ⟨hj, hix'⟩ := hix
          rw [translateCoords_cons hs'] at h
          cases h1 : selValue c d s j with
          | error y =>
            simp only [h1, bind, Except.bind] at h
            cases h
            rcases selValue_total g1 hj with ⟨i, hi⟩ | ⟨hc, he⟩
            · rw [hi] at h1; cases h1
            · rw [he] at h1; cases h1; exact ⟨hc, rfl⟩
          | ok i =>
            cases h2 : translateCoords c ds ss ix with
            | error y =>
              simp only [h1, h2, bind, Except.bind] at h
              cases h
              exact ih ss rest ix _ g2 hix' h2
            | ok r' => simp [h1, h2, bind, Except.bind] at h

/-! ### admissible selectors -/

/-- the values selector `s` can produce for a dimension of extent `d` are valid indices: scalar index,
    range end points and every index-vector entry (after resolving `end`) lie in `0 … d-1` -/
def SelAdm (d : Nat) : Sel → Prop
  | .at e => 0 ≤ e.resolve d ∧ e.resolve d < d
  | .range b e _ => (0 ≤ b.resolve d ∧ b.resolve d < d) ∧ (0 ≤ e.resolve d ∧ e.resolve d < d)
  | .all => True
  | .vec es => ∀ e ∈ es, 0 ≤ e.resolve d ∧ e.resolve d < d

def SelsAdm : List Nat → List Sel → Prop
  | d :: ds, s :: ss => SelAdm d s ∧ SelsAdm ds ss
  | _, _ => True

/-- an admissible selector yields an in-range value, without error, in both builds -/
theorem selValue_adm {c : Bool} {d n : Nat} {s : Sel} {j : Int} (hadm : SelAdm d s) (hn : selSize c d s = .ok n)
    (hj : 0 ≤ j ∧ j < n) :
    selValue c d s j = .ok (selIndex d s j) ∧ 0 ≤ selIndex d s j ∧ selIndex d s j < d := by
  cases s with
  | «at» e =>
    simp only [SelAdm] at hadm
    simp only [selValue, selIndex]
    exact ⟨checkIdx_inRange c hadm, hadm⟩
  | all =>
    simp only [selSize] at hn; cases hn
    simp only [selValue, selIndex]
    exact ⟨checkIdx_inRange c hj, hj⟩
  | range b e st =>
    obtain ⟨hb, he⟩ := hadm
    obtain ⟨_, hs, hnn, _⟩ := selSize_ok hn
    have hr := range_elem_inRange hb he hs hnn hj.1 hj.2
    have hmul : st.resolve d * j = j * st.resolve d := Int.mul_comm _ _
    simp only [selValue, selIndex, getIndex_inRange c hb, bind, Except.bind]
    rw [hmul]
    exact ⟨checkIdx_inRange c hr, hr⟩
  | vec es =>
    simp only [selSize] at hn; cases hn
    have hlt : j.toNat < es.length := by omega
    have hmem : es[j.toNat] ∈ es := List.getElem_mem hlt
    have := hadm _ hmem
    simp only [selValue, selIndex, List.getElem?_eq_getElem hlt, List.getD_eq_getElem?_getD, Option.getD_some]
    exact ⟨checkIdx_inRange c this, this⟩

/-- admissible selectors: `translate_coords_` succeeds in both builds with an in-range parent index -/
theorem translateCoords_adm (c : Bool) : ∀ (ds : List Nat) (ss : List Sel) (dims : List Nat) (ix : List Int),
    SelsAdm ds ss → ixDims c ds ss = .ok dims → InRange ix dims →
    translateCoords c ds ss ix = .ok (expandSel ds ss ix) ∧ InRange (expandSel ds ss ix) ds := by
  intro ds
  induction ds with
  | nil =>
    intro ss dims ix _ hd hix
    cases ss with
    | nil =>
      simp only [ixDims] at hd; cases hd
      cases ix with
      | nil => simp [translateCoords, expandSel, InRange]
      | cons j ix => simp [InRange] at hix
    | cons s ss => simp [ixDims] at hd
  | cons d ds ih =>
    intro ss dims ix hadm hd hix
    cases ss with
    | nil => simp [ixDims] at hd
    | cons s ss =>
      obtain ⟨ha, hadm'⟩ := hadm
      by_cases hs : ∃ e, s = .at e
      · obtain ⟨e, rfl⟩ := hs
        simp only [ixDims] at hd
        obtain ⟨i1, i2⟩ := ih ss dims ix hadm' hd hix
        have hv := selValue_adm (c := c) (n := 1) (j := 0) ha (by simp [selSize]) (by omega)
        rw [translateCoords_at, expandSel_at, hv.1, i1]
        exact ⟨rfl, hv.2, i2⟩
      · have hs' : ∀ e, s ≠ .at e := fun e he => hs ⟨e, he⟩
        obtain ⟨n, rest, g1, g2, rfl⟩ := ixDims_cons_ok hs' hd
        cases ix with
        | nil => simp [InRange] at hix
        | cons j ix =>
          obtain ⟨hj, hix'⟩ := hix
          obtain ⟨i1, i2⟩ := ih ss rest ix hadm' g2 hix'
          have hv := selValue_adm ha g1 hj
          rw [translateCoords_cons hs', expandSel_cons hs', hv.1, i1]
          exact ⟨rfl, hv.2, i2⟩

/-- unchecked build: `translate_coords_` never fails on an in-range element, whatever the selectors hold -/
theorem translateCoords_unchecked (ds : List Nat) (ss : List Sel) (dims : List Nat) (ix : List Int)
    (hd : ixDims false ds ss = .ok dims) (hix : InRange ix dims) :
    translateCoords false ds ss ix = .ok (expandSel ds ss ix) := by
  cases h : translateCoords false ds ss ix with
  | ok r =>
    obtain ⟨h1, _⟩ := translateCoords_ok false ds ss ix r (InRange_nonneg hix) h
    rw [h1]
  | error x =>
    have := (translateCoords_err false ds ss dims ix x hd hix h).1
    cases this

/-! ### enumeration -/

theorem allIndices_inRange : ∀ (ds : List Nat) (ix : List Int), ix ∈ allIndices ds → InRange ix ds := by
  intro ds
  induction ds with
  | nil =>
    intro ix h
    simp only [allIndices, List.mem_singleton] at h
    subst h
    trivial
  | cons d ds ih =>
    intro ix h
    simp only [allIndices, List.mem_flatMap, List.mem_range, List.mem_map] at h
    obtain ⟨i, hi, r, hr, rfl⟩ := h
    exact ⟨⟨by omega, by omega⟩, ih r hr⟩

/-! ### stores -/

/-- every store goes to the cell of an element of the indexed array, and stores happen in element order -/
theorem storesGo_mem (c : Bool) (iv : IView) : ∀ (ixs : List (List Int)) (xs : List Int) (st : List (Int × Int)) (e : Option Err),
    storesGo c iv ixs xs = (st, e) → ∀ p ∈ st, ∃ ix ∈ ixs, ixAddr c iv ix = .ok p.1 := by
  intro ixs
  induction ixs with
  | nil => intro xs st e h; simp only [storesGo] at h; cases h; simp
  | cons ix ixs ih =>
    intro xs st e h
    cases xs with
    | nil => simp only [storesGo] at h; cases h; simp
    | cons x xs =>
      simp only [storesGo] at h
      cases ha : ixAddr c iv ix with
      | error y => simp only [ha] at h; cases h; simp
      | ok a =>
        simp only [ha] at h
        rcases hr : storesGo c iv ixs xs with ⟨st', e'⟩
        simp only [hr] at h
        cases h
        intro p hp
        simp only [List.mem_cons] at hp
        rcases hp with rfl | hp
        · exact ⟨ix, by simp, ha⟩
        · obtain ⟨ix', h1, h2⟩ := ih xs st' _ hr p hp
          exact ⟨ix', by simp [h1], h2⟩

/-- when every element has an address, the assignment stores value `k` to the cell of element `k`, for every
    element, and raises nothing -/
theorem storesGo_total (c : Bool) (iv : IView) (f : List Int → Int) : ∀ (ixs : List (List Int)) (xs : List Int),
    (∀ ix ∈ ixs, ixAddr c iv ix = .ok (f ix)) → xs.length = ixs.length →
    storesGo c iv ixs xs = ((ixs.map f).zip xs, none) := by
  intro ixs
  induction ixs with
  | nil => intro xs _ _; simp [storesGo]
  | cons ix ixs ih =>
    intro xs h hl
    cases xs with
    | nil => simp at hl
    | cons x xs =>
      simp only [storesGo, h ix (by simp)]
      rw [ih xs (fun i hi => h i (by simp [hi])) (by simpa using hl)]
      simp

/-- a cell that no store names keeps its value -/
theorem applyStores_other : ∀ (st : List (Int × Int)) (mem : Int → Int) (a : Int),
    (∀ p ∈ st, p.1 ≠ a) → applyStores mem st a = mem a := by
  intro st
  induction st with
  | nil => intro mem a _; rfl
  | cons p st ih =>
    intro mem a h
    obtain ⟨c, x⟩ := p
    simp only [applyStores]
    rw [ih _ a (fun q hq => h q (by simp [hq]))]
    have : a ≠ c := fun hac => h (c, x) (by simp) hac.symm
    simp [this]

/-- a cell that some store names holds one of the stored values for it (the last one) -/
theorem applyStores_mem : ∀ (st : List (Int × Int)) (mem : Int → Int) (a : Int),
    (∃ p ∈ st, p.1 = a) → ∃ p ∈ st, p.1 = a ∧ applyStores mem st a = p.2 := by
  intro st
  induction st with
  | nil => intro mem a h; simp at h
  | cons p st ih =>
    intro mem a h
    obtain ⟨c, x⟩ := p
    simp only [applyStores]
    by_cases hlater : ∃ q ∈ st, q.1 = a
    · obtain ⟨q, hq, h1, h2⟩ := ih (fun b => if b = c then x else mem b) a hlater
      exact ⟨q, by simp [hq], h1, h2⟩
    · have hnone : ∀ q ∈ st, q.1 ≠ a := fun q hq hqa => hlater ⟨q, hq, hqa⟩
      rw [applyStores_other st _ a hnone]
      obtain ⟨q, hq, hqa⟩ := h
      simp only [List.mem_cons] at hq
      rcases hq with hq | hq
      · subst hq
        simp only at hqa
        subst hqa
        exact ⟨(c, x), by simp, rfl, by simp⟩
      · exact absurd hqa (hnone q hq)

/-! ### the constructor, the whole read and the whole assignment -/

theorem indexed_ok {v : View} {sels : List Sel} {c : Bool} {iv : IView} (h : indexed v sels c = .ok iv) :
    sels.any Sel.isVec = true ∧ ixDims c v.dims sels = .ok iv.dims ∧ iv.parent = v ∧ iv.sels = sels := by
  unfold indexed at h
  split at h
  · cases h
  · rename_i hv
    cases hd : ixDims c v.dims sels with
    | error x => simp [hd, bind, Except.bind] at h
    | ok dims =>
      simp only [hd, bind, Except.bind] at h
      cases h
      exact ⟨by simpa using hv, rfl, rfl, rfl⟩

/-- the index map has one coordinate per dimension of the array -/
theorem expandSel_length (c : Bool) : ∀ (ds : List Nat) (ss : List Sel) (dims : List Nat) (ix : List Int),
    ixDims c ds ss = .ok dims → ix.length = dims.length → (expandSel ds ss ix).length = ds.length := by
  intro ds
  induction ds with
  | nil =>
    intro ss dims ix hd _
    cases ss with
    | nil => simp [expandSel]
    | cons s ss => simp [ixDims] at hd
  | cons d ds ih =>
    intro ss dims ix hd hl
    cases ss with
    | nil => simp [ixDims] at hd
    | cons s ss =>
      by_cases hs : ∃ e, s = .at e
      · obtain ⟨e, rfl⟩ := hs
        simp only [ixDims] at hd
        rw [expandSel_at]
        simp [ih ss dims ix hd hl]
      · have hs' : ∀ e, s ≠ .at e := fun e he => hs ⟨e, he⟩
        obtain ⟨n, rest, _, g2, rfl⟩ := ixDims_cons_ok hs' hd
        cases ix with
        | nil => simp at hl
        | cons j ix =>
          rw [expandSel_cons hs']
          simp [ih ss rest ix g2 (by simpa using hl)]

theorem mapM_ok_of_forall {α β : Type} (f : α → Except Err β) (g : α → β) : ∀ (l : List α),
    (∀ x ∈ l, f x = .ok (g x)) → l.mapM f = .ok (l.map g) := by
  intro l
  induction l with
  | nil => intro _; rfl
  | cons x l ih =>
    intro h
    rw [List.mapM_cons, h x (by simp), ih (fun y hy => h y (by simp [hy]))]
    rfl

theorem mapM_err_of_exists {α β : Type} (f : α → Except Err β) (E : Err) : ∀ (l : List α),
    (∃ x ∈ l, ∃ e, f x = .error e) → (∀ x ∈ l, ∀ e, f x = .error e → e = E) → l.mapM f = .error E := by
  intro l
  induction l with
  | nil => intro h _; simp at h
  | cons x l ih =>
    intro h hall
    rw [List.mapM_cons]
    cases hx : f x with
    | error e =>
      have := hall x (by simp) e hx
      subst this
      rfl
    | ok y =>
      obtain ⟨z, hz, e, he⟩ := h
      simp only [List.mem_cons] at hz
      rcases hz with rfl | hz
      · rw [hx] at he; cases he
      · rw [ih ⟨z, hz, e, he⟩ (fun w hw => hall w (by simp [hw]))]
        rfl

theorem allIndices_complete : ∀ (ds : List Nat) (ix : List Int), InRange ix ds → ix ∈ allIndices ds := by
  intro ds
  induction ds with
  | nil =>
    intro ix h
    cases ix with
    | nil => simp [allIndices]
    | cons i ix => simp [InRange] at h
  | cons d ds ih =>
    intro ix h
    cases ix with
    | nil => simp [InRange] at h
    | cons i ix =>
      obtain ⟨hi, hr⟩ := h
      simp only [allIndices, List.mem_flatMap, List.mem_range, List.mem_map]
      refine ⟨i.toNat, by omega, ix, ih ix hr, ?_⟩
      congr 1
      omega

theorem exists_inRange : ∀ (dims : List Nat), (∀ n ∈ dims, n ≠ 0) → ∃ ix, InRange ix dims := by
  intro dims
  induction dims with
  | nil => intro _; exact ⟨[], trivial⟩
  | cons n dims ih =>
    intro h
    obtain ⟨ix, hix⟩ := ih (fun m hm => h m (by simp [hm]))
    have := h n (by simp)
    exact ⟨0 :: ix, ⟨by omega, by omega⟩, hix⟩

/-- checked build, constructor passed, no zero extent: if some scalar index or index-vector entry is
    outside its dimension, some element of the indexed array denotes an index outside the parent -/
theorem exists_oob_index : ∀ (ds : List Nat) (ss : List Sel) (dims : List Nat),
    ixDims true ds ss = .ok dims → (∀ n ∈ dims, n ≠ 0) → ¬ SelsAdm ds ss →
    ∃ ix, InRange ix dims ∧ ¬ InRange (expandSel ds ss ix) ds := by
  intro ds
  induction ds with
  | nil =>
    intro ss dims _ _ hadm
    cases ss <;> simp [SelsAdm] at hadm
  | cons d ds ih =>
    intro ss dims hd hnz hadm
    cases ss with
    | nil => simp [SelsAdm] at hadm
    | cons s ss =>
      simp only [SelsAdm] at hadm
      by_cases hs : ∃ e, s = .at e
      · obtain ⟨e, rfl⟩ := hs
        simp only [ixDims] at hd
        by_cases ha : SelAdm d (.at e)
        · obtain ⟨ix, h1, h2⟩ := ih ss dims hd hnz (fun hb => hadm ⟨ha, hb⟩)
          refine ⟨ix, h1, ?_⟩
          rw [expandSel_at]
          exact fun h => h2 h.2
        · obtain ⟨ix, h1⟩ := exists_inRange dims hnz
          refine ⟨ix, h1, ?_⟩
          rw [expandSel_at]
          exact fun h => ha h.1
      · have hs' : ∀ e, s ≠ .at e := fun e he => hs ⟨e, he⟩
        obtain ⟨n, rest, g1, g2, rfl⟩ := ixDims_cons_ok hs' hd
        have hn : n ≠ 0 := hnz n (by simp)
        have hnz' : ∀ m ∈ rest, m ≠ 0 := fun m hm => hnz m (by simp [hm])
        by_cases ha : SelAdm d s
        · obtain ⟨ix, h1, h2⟩ := ih ss rest g2 hnz' (fun hb => hadm ⟨ha, hb⟩)
          refine ⟨0 :: ix, ⟨⟨by omega, by omega⟩, h1⟩, ?_⟩
          rw [expandSel_cons hs']
          exact fun h => h2 h.2
        · obtain ⟨ix, h1⟩ := exists_inRange rest hnz'
          cases s with
          | «at» e => exact absurd rfl (hs' e)
          | all => exact absurd trivial ha
          | range b e st =>
            obtain ⟨_, _, _, h5⟩ := selSize_ok g1
            exact absurd (h5 rfl) ha
          | vec es =>
            simp only [selSize] at g1
            cases g1
            simp only [SelAdm] at ha
            have : ∃ e ∈ es, ¬ (0 ≤ e.resolve d ∧ e.resolve d < d) := by
              false_or_by_contra
              rename_i hcon
              apply ha
              intro e he
              false_or_by_contra
              rename_i hbad
              exact hcon ⟨e, he, hbad⟩
            obtain ⟨e, he, hbad⟩ := this
            obtain ⟨j, hj, rfl⟩ := List.mem_iff_getElem.mp he
            refine ⟨(j : Int) :: ix, ⟨⟨by omega, by omega⟩, h1⟩, ?_⟩
            rw [expandSel_cons hs']
            intro h
            apply hbad
            have h0 := h.1
            simp only [selIndex, Int.toNat_natCast, List.getD_eq_getElem?_getD, List.getElem?_eq_getElem hj,
              Option.getD_some] at h0
            exact h0

theorem storesGo_err (c : Bool) (iv : IView) (E : Err) : ∀ (ixs : List (List Int)) (xs : List Int),
    (∃ ix ∈ ixs, ∃ e, ixAddr c iv ix = .error e) → (∀ ix ∈ ixs, ∀ e, ixAddr c iv ix = .error e → e = E) →
    ixs.length ≤ xs.length → (storesGo c iv ixs xs).2 = some E := by
  intro ixs
  induction ixs with
  | nil => intro xs h _ _; simp at h
  | cons ix ixs ih =>
    intro xs h hall hl
    cases xs with
    | nil => simp at hl
    | cons x xs =>
      simp only [storesGo]
      cases ha : ixAddr c iv ix with
      | error e =>
        have := hall ix (by simp) e ha
        subst this
        rfl
      | ok a =>
        obtain ⟨z, hz, e, he⟩ := h
        simp only [List.mem_cons] at hz
        rcases hz with rfl | hz
        · rw [ha] at he; cases he
        · have := ih xs ⟨z, hz, e, he⟩ (fun w hw => hall w (by simp [hw])) (by simpa using hl)
          simp only
          exact this

theorem ixAddr_ok {c : Bool} {iv : IView} {ix : List Int} {a : Int} (h : ixAddr c iv ix = .ok a) :
    ∃ r, translateCoords c iv.parent.dims iv.sels ix = .ok r ∧ a = addr iv.parent r := by
  unfold ixAddr at h
  cases hr : translateCoords c iv.parent.dims iv.sels ix with
  | error x => simp [hr, bind, Except.bind] at h
  | ok r =>
    simp only [hr, bind, Except.bind] at h
    cases h
    exact ⟨r, rfl, rfl⟩

theorem ixAddr_err {c : Bool} {iv : IView} {ix : List Int} {e : Err} (h : ixAddr c iv ix = .error e) :
    translateCoords c iv.parent.dims iv.sels ix = .error e := by
  unfold ixAddr at h
  cases hr : translateCoords c iv.parent.dims iv.sels ix with
  | error x => simp only [hr, bind, Except.bind] at h; cases h; rfl
  | ok r => simp [hr, bind, Except.bind] at h

theorem isEmpty_false {iv : IView} (h : iv.isEmpty = false) : ∀ n ∈ iv.dims, n ≠ 0 := by
  intro n hn h0
  subst h0
  have : iv.isEmpty = true := by
    simp only [IView.isEmpty, List.any_eq_true]
    exact ⟨0, hn, by simp⟩
  rw [h] at this
  cases this

/-- decidable equality of read results (for the concrete examples in `Props/C06.lean`) -/
instance instDecEqReadResult : DecidableEq (Except Err (List Int))
  | .ok a, .ok b => if h : a = b then isTrue (by rw [h]) else isFalse (by intro h'; cases h'; exact h rfl)
  | .error a, .error b => if h : a = b then isTrue (by rw [h]) else isFalse (by intro h'; cases h'; exact h rfl)
  | .ok _, .error _ => isFalse (by intro h; cases h)
  | .error _, .ok _ => isFalse (by intro h; cases h)

end Adept.Views
