import AdeptProofs.Lemmas.StackProto
/-!
Helper definitions and lemmas for C11, part A (misuse of the stack protocol, `AdeptModel/StackProto.lean`):
a small operation type over the protocol state covering the operations that can be misused, the run of a
history, and the history with its failing operations removed.
-/
namespace Adept.StackProto
open Adept.Tape Adept.GradAlloc

/-- the protocol operations that have a documented misuse -/
inductive POp
  | seed (idx : Nat) (v : Int)                         -- `x.set_gradient(v)`
  | get (idx : Nat)                                    -- `x.get_gradient()`
  | fwd | rev                                          -- `compute_tangent_linear` / `compute_adjoint`
  | jacPtr (mode : JMode) (dO iO : Int) (nc : Nat) (fill : Int)
  | jacMat (mode : JMode) (rows cols : Nat)
  | append (lhs x : Nat) (m : Int)                     -- `append_derivative_dependence`
  | stack2                                             -- a second activating `Stack` in the thread
deriving Repr

/-- what an operation shows to the caller: values, or the exception class -/
abbrev Out := Except Exc (List Int)

/-- one operation as the driver performs it: a failed operation keeps the state it was given, except
    `seed`, whose lazy `initialize_gradients()` precedes its range test (`Stack::set_gradients`) -/
def stepOp (s : St) : POp → St × Out
  | .seed i v => match s.seed i v with
    | (s', none) => (s', .ok [])
    | (s', some e) => (s', .error e)
  | .get i => match s.getGrad i with
    | .ok g => (s, .ok [g])
    | .error e => (s, .error e)
  | .fwd => match s.forward with
    | .ok s' => (s', .ok [])
    | .error e => (s, .error e)
  | .rev => match s.reverse with
    | .ok s' => (s', .ok [])
    | .error e => (s, .error e)
  | .jacPtr m dO iO nc fill => (s, s.jacPtr m dO iO nc fill)
  | .jacMat m r c => (s, s.jacMat m r c)
  | .append lhs x m => match s.appendDependence lhs x m with
    | .ok s' => (s', .ok [])
    | .error e => (s, .error e)
  | .stack2 => (s, .error .stack_already_active)

def Out.failed : Out → Bool
  | .ok _ => false
  | .error _ => true

/-- the only failing operation that leaves a trace: a first `seed` (it has initialised the working vector) -/
def leavesTrace (s : St) : POp → Bool
  | .seed _ _ => !s.gradInit
  | _ => false

/-- is this operation removed from the history? (it failed and left no trace) -/
def dropped (s : St) (o : POp) : Bool := (stepOp s o).2.failed && !leavesTrace s o

/-- final state and the outputs, in order -/
def run (s : St) : List POp → St × List Out
  | [] => (s, [])
  | o :: os =>
    let r := stepOp s o
    let rest := run r.1 os
    (rest.1, r.2 :: rest.2)

/-- the same run, showing only the outputs of the operations that are not removed -/
def runKept (s : St) : List POp → St × List Out
  | [] => (s, [])
  | o :: os =>
    let r := stepOp s o
    let rest := runKept r.1 os
    if dropped s o then rest else (rest.1, r.2 :: rest.2)

/-- the history with its failing operations removed -/
def dropFailed (s : St) : List POp → List POp
  | [] => []
  | o :: os => if dropped s o then dropFailed (stepOp s o).1 os else o :: dropFailed (stepOp s o).1 os

theorem seed_fail_state (s : St) (i : Nat) (v : Int) (e : Exc) (s' : St) (h : s.seed i v = (s', some e)) :
    s' = (if s.gradInit then s else s.initGradients) ∧ e = .gradient_out_of_range := by
  by_cases hi : s.gradInit = true
  · rw [seed_of_init s i v hi] at h
    split at h
    · simp only [Prod.mk.injEq, Option.some.injEq] at h
      exact ⟨by rw [if_pos hi]; exact h.1.symm, h.2.symm⟩
    · simp at h
  · have hi' : s.gradInit = false := by simpa using hi
    rw [seed_of_not_init s i v hi', seed_of_init _ i v (initGradients_gradInit s)] at h
    split at h
    · simp only [Prod.mk.injEq, Option.some.injEq] at h
      exact ⟨by rw [if_neg hi]; exact h.1.symm, h.2.symm⟩
    · simp at h

/-- a removed operation returned the state unchanged -/
theorem dropped_state (s : St) (o : POp) (h : dropped s o = true) : (stepOp s o).1 = s := by
  unfold dropped at h
  simp only [Bool.and_eq_true, Bool.not_eq_true'] at h
  obtain ⟨hf, ht⟩ := h
  cases o with
  | seed i v =>
    simp only [leavesTrace, Bool.not_eq_false'] at ht
    simp only [stepOp] at hf ⊢
    cases hs : s.seed i v with
    | mk s' r =>
      cases r with
      | none => simp [hs, Out.failed] at hf
      | some e =>
        have := (seed_fail_state s i v e s' hs).1
        simp [this, ht]
  | get i => simp only [stepOp]; split <;> rfl
  | fwd =>
    simp only [stepOp] at hf ⊢
    cases hfw : s.forward with
    | ok s' => simp [hfw, Out.failed] at hf
    | error e => rfl
  | rev =>
    simp only [stepOp] at hf ⊢
    cases hfw : s.reverse with
    | ok s' => simp [hfw, Out.failed] at hf
    | error e => rfl
  | jacPtr m dO iO nc fill => rfl
  | jacMat m r c => rfl
  | append lhs x m =>
    simp only [stepOp] at hf ⊢
    cases hfw : s.appendDependence lhs x m with
    | ok s' => simp [hfw, Out.failed] at hf
    | error e => rfl
  | stack2 => rfl

theorem run_dropFailed (s : St) (ops : List POp) : run s (dropFailed s ops) = runKept s ops := by
  induction ops generalizing s with
  | nil => rfl
  | cons o os ih =>
    unfold dropFailed runKept
    cases hd : dropped s o with
    | true =>
      simp only [if_true]
      rw [dropped_state s o hd]
      exact ih s
    | false =>
      simp only [Bool.false_eq_true, if_false]
      show (let r := stepOp s o; let rest := run r.1 (dropFailed (stepOp s o).1 os); (rest.1, r.2 :: rest.2)) = _
      simp only [ih]

theorem runKept_state (s : St) (ops : List POp) : (runKept s ops).1 = (run s ops).1 := by
  induction ops generalizing s with
  | nil => rfl
  | cons o os ih =>
    unfold runKept run
    cases hd : dropped s o with
    | true => simp only [if_true]; exact ih _
    | false => simp only [Bool.false_eq_true, if_false]; exact ih _

/-! ### bounds of the sweeps -/

/-- every gradient index mentioned by a statement is below `n` -/
def stmtBelow (n : Nat) (st : Stmt Int) : Prop := st.lhs < n ∧ ∀ p ∈ st.ops, p.2 < n
/-- every gradient index recorded on the tape is below `n` -/
def TapeBelow (t : List (Stmt Int)) (n : Nat) : Prop := ∀ st ∈ t, stmtBelow n st

theorem TapeBelow.mono {t : List (Stmt Int)} {n m : Nat} (h : TapeBelow t n) (hnm : n ≤ m) : TapeBelow t m :=
  fun st hst => ⟨Nat.lt_of_lt_of_le (h st hst).1 hnm, fun p hp => Nat.lt_of_lt_of_le ((h st hst).2 p hp) hnm⟩

theorem initGradients_length (s : St) : s.initGradients.grad.length = s.ga.maxGrad := by
  rw [initGradients_grad, List.length_replicate]

/-! ### range writes -/

theorem writeFrom_length (g : List Int) (i : Nat) (vs : List Int) : (writeFrom g i vs).length = g.length := by
  induction vs generalizing g i with
  | nil => rfl
  | cons v vs ih => simp [writeFrom, ih]

theorem writeFrom_outside (g : List Int) (st : Nat) (vs : List Int) (i : Nat) (h : i < st ∨ st + vs.length ≤ i) :
    (writeFrom g st vs).getD i 0 = g.getD i 0 := by
  induction vs generalizing g st with
  | nil => rfl
  | cons v vs ih =>
    simp only [writeFrom]
    rw [ih (g.set st v) (st + 1) (by simp only [List.length_cons] at h; omega)]
    have hne : st ≠ i := by simp only [List.length_cons] at h; omega
    simp [List.getD_eq_getElem?_getD, List.getElem?_set_ne hne]

theorem writeFrom_inside (g : List Int) (st : Nat) (vs : List Int) (j : Nat) (hj : j < vs.length)
    (hl : st + vs.length ≤ g.length) : (writeFrom g st vs).getD (st + j) 0 = vs.getD j 0 := by
  induction vs generalizing g st j with
  | nil => simp at hj
  | cons v vs ih =>
    simp only [writeFrom]
    simp only [List.length_cons] at hl hj
    cases j with
    | zero =>
      have h1 := writeFrom_outside (g.set st v) (st + 1) vs st (Or.inl (Nat.lt_succ_self st))
      have : st < g.length := by omega
      simp only [Nat.add_zero]
      rw [h1]
      simp [List.getD_eq_getElem?_getD, List.getElem?_set_self this]
    | succ j =>
      have := ih (g.set st v) (st + 1) j (by omega) (by simp only [List.length_set]; omega)
      rw [show st + (j + 1) = st + 1 + j by omega, this]
      simp

end Adept.StackProto
