import AdeptProofs.Lemmas.RecBuf
import AdeptModel.RecBufSites
/-! the recording sites keep the reservation discipline, for all sizes. Core Lean only. -/
namespace Adept.RecBuf
open Sites

theorem disciplined_mono (es : List Ev) (f f' : Nat) (h : f ≤ f') (hd : disciplined f es = true) :
    disciplined f' es = true := by
  induction es generalizing f f' with
  | nil => rfl
  | cons e es ih =>
    cases e with
    | check k => simp only [disciplined] at hd ⊢; exact ih _ _ (by omega) hd
    | push =>
      simp only [disciplined, Bool.and_eq_true, decide_eq_true_eq] at hd ⊢
      exact ⟨by omega, ih _ _ (by omega) hd.2⟩
    | pushIdx a b =>
      simp only [disciplined, Bool.and_eq_true, decide_eq_true_eq] at hd ⊢
      exact ⟨by omega, ih _ _ (by omega) hd.2⟩
    | lhs => simp only [disciplined] at hd ⊢; exact ih _ _ h hd
    | lhsRange n => simp only [disciplined] at hd ⊢; exact ih _ _ h hd
    | preOps k => simp only [disciplined] at hd ⊢; exact ih _ _ (by omega) hd
    | preSt k => simp only [disciplined] at hd ⊢; exact ih _ _ h hd

/-- `k` pushes need `k` free entries and leave `f - k` -/
theorem disciplined_pushes (k f : Nat) (rest : List Ev) (h : k ≤ f) :
    disciplined f (List.replicate k Ev.push ++ rest) = disciplined (f - k) rest := by
  induction k generalizing f with
  | zero => simp
  | succ k ih =>
    simp only [List.replicate_succ, List.cons_append, disciplined]
    have : decide (0 < f) = true := by simp; omega
    rw [this, Bool.true_and, ih (f - 1) (by omega)]
    congr 1; omega

theorem disciplined_stmt (n f : Nat) (rest : List Ev) (h : n ≤ f) :
    disciplined f (stmtEvents n ++ rest) = disciplined (f - n) rest := by
  unfold stmtEvents
  rw [List.append_assoc, disciplined_pushes n f _ h]
  simp [disciplined]

/-- `size` statements of `n` operations each need `n*size` free entries -/
theorem disciplined_stmts (n size f : Nat) (rest : List Ev) (h : n * size ≤ f) :
    disciplined f ((List.replicate size (stmtEvents n)).flatten ++ rest) = disciplined (f - n * size) rest := by
  induction size generalizing f with
  | zero => simp
  | succ s ih =>
    have h1 : n ≤ f := by
      have : n * (s + 1) = n * s + n := Nat.mul_succ n s
      omega
    simp only [List.replicate_succ, List.flatten_cons, List.append_assoc]
    rw [disciplined_stmt n f _ h1, ih (f - n) (by rw [Nat.mul_succ] at h; omega)]
    congr 1; rw [Nat.mul_succ]; omega

theorem disciplined_masked (n f : Nat) (mask : List Bool) (h : n * mask.length ≤ f) :
    disciplined f (mask.map fun m => if m then stmtEvents n else []).flatten = true := by
  induction mask generalizing f with
  | nil => rfl
  | cons m ms ih =>
    have hlen : n * (m :: ms).length = n * ms.length + n := by simp [Nat.mul_succ]
    cases m with
    | false =>
      simp only [List.map_cons, List.flatten_cons, Bool.false_eq_true, if_false, List.nil_append]
      exact ih f (by omega)
    | true =>
      simp only [List.map_cons, List.flatten_cons, if_true]
      rw [disciplined_stmt n f _ (by omega)]
      exact ih (f - n) (by omega)

theorem scalarAssign_ok (nA f : Nat) : disciplined f (siteScalarAssign nA nA) = true := by
  unfold siteScalarAssign
  simp only [disciplined]
  have := disciplined_stmt nA (max f nA) [] (by omega)
  simp only [List.append_nil] at this
  rw [this]; rfl

theorem addDep_ok (n k f : Nat) (h : k ≤ n) : disciplined f (siteAddDep n k) = true := by
  unfold siteAddDep
  simp only [disciplined]
  have := disciplined_stmt k (max f n) [] (by omega)
  simp only [List.append_nil] at this
  rw [this]; rfl

theorem appendDep_ok (n k f : Nat) (h : k ≤ n) : disciplined f (siteAppendDep n k) = true := by
  unfold siteAppendDep
  simp only [disciplined]
  have := disciplined_pushes k (max f n) [] (by omega)
  simp only [List.append_nil] at this
  rw [this]; rfl

theorem arrayAssign_ok (nA size f : Nat) : disciplined f (siteArrayAssign (nA * size) nA size) = true := by
  unfold siteArrayAssign
  simp only [disciplined]
  have := disciplined_stmts nA size (max f (nA * size)) [] (by omega)
  simp only [List.append_nil] at this
  rw [this]; rfl

theorem arrayFromScalar_ok (size f : Nat) : disciplined f (siteArrayFromScalar size size) = true := by
  unfold siteArrayFromScalar
  simp only [disciplined]
  have := disciplined_stmts 1 size (max f size) [] (by omega)
  simp only [List.append_nil] at this
  rw [this]; rfl

theorem conditional_ok (nA f : Nat) (mask : List Bool) :
    disciplined f (siteConditional (nA * mask.length) nA mask) = true := by
  unfold siteConditional
  simp only [disciplined]
  exact disciplined_masked nA _ mask (by omega)

theorem disciplined_insert (es₁ es₂ : List Ev) (e : Ev) (f : Nat) (he : ∀ g rest, disciplined g rest = true → disciplined g (e :: rest) = true)
    (hd : disciplined f (es₁ ++ es₂) = true) : disciplined f (es₁ ++ e :: es₂) = true := by
  induction es₁ generalizing f with
  | nil => exact he f es₂ hd
  | cons x xs ih =>
    cases x with
    | check k => simp only [List.cons_append, disciplined] at hd ⊢; exact ih _ hd
    | push =>
      simp only [List.cons_append, disciplined, Bool.and_eq_true] at hd ⊢
      exact ⟨hd.1, ih _ hd.2⟩
    | pushIdx a b =>
      simp only [List.cons_append, disciplined, Bool.and_eq_true] at hd ⊢
      exact ⟨hd.1, ih _ hd.2⟩
    | lhs => simp only [List.cons_append, disciplined] at hd ⊢; exact ih _ hd
    | lhsRange n => simp only [List.cons_append, disciplined] at hd ⊢; exact ih _ hd
    | preOps k => simp only [List.cons_append, disciplined] at hd ⊢; exact ih _ hd
    | preSt k => simp only [List.cons_append, disciplined] at hd ⊢; exact ih _ hd

theorem preallocate_harmless (es₁ es₂ : List Ev) (k : Nat) (f : Nat) (hd : disciplined f (es₁ ++ es₂) = true) :
    disciplined f (es₁ ++ Ev.preOps k :: es₂) = true ∧ disciplined f (es₁ ++ Ev.preSt k :: es₂) = true ∧
    opsOf (Ev.preOps k) = 0 ∧ stmtsOf (Ev.preOps k) = 0 ∧ opsOf (Ev.preSt k) = 0 ∧ stmtsOf (Ev.preSt k) = 0 := by
  refine ⟨?_, ?_, rfl, rfl, rfl, rfl⟩
  · apply disciplined_insert es₁ es₂ _ f _ hd
    intro g rest h; simp only [disciplined]; exact disciplined_mono rest g _ (by omega) h
  · apply disciplined_insert es₁ es₂ _ f _ hd
    intro g rest h; simp only [disciplined]; exact h

/-- a stream without `push_rhs_indices` whose pushes fit in the free entries is disciplined (checks only help) -/
theorem disciplined_of_pushCount (es : List Ev) (f : Nat) (hn : noIdx es = true) (hc : pushCount es ≤ f) :
    disciplined f es = true := by
  induction es generalizing f with
  | nil => rfl
  | cons e es ih =>
    cases e with
    | check k => simp only [disciplined]; exact ih _ (by simpa [noIdx] using hn) (by simp only [pushCount] at hc; omega)
    | push =>
      simp only [pushCount] at hc
      simp only [disciplined, Bool.and_eq_true, decide_eq_true_eq]
      exact ⟨by omega, ih _ (by simpa [noIdx] using hn) (by omega)⟩
    | pushIdx a b => simp [noIdx] at hn
    | lhs => simp only [disciplined]; exact ih _ (by simpa [noIdx] using hn) (by simpa [pushCount] using hc)
    | lhsRange n => simp only [disciplined]; exact ih _ (by simpa [noIdx] using hn) (by simpa [pushCount] using hc)
    | preOps k => simp only [disciplined]; exact ih _ (by simpa [noIdx] using hn) (by simp only [pushCount] at hc; omega)
    | preSt k => simp only [disciplined]; exact ih _ (by simpa [noIdx] using hn) (by simpa [pushCount] using hc)

/-- a prefix whose pushes fit, followed by a stream that is disciplined on its own -/
theorem disciplined_append (a b : List Ev) (f : Nat) (hn : noIdx a = true) (hc : pushCount a ≤ f)
    (hb : disciplined 0 b = true) : disciplined f (a ++ b) = true := by
  induction a generalizing f with
  | nil => exact disciplined_mono b 0 f (Nat.zero_le _) hb
  | cons e es ih =>
    cases e with
    | check k => simp only [List.cons_append, disciplined]; exact ih _ (by simpa [noIdx] using hn) (by simp only [pushCount] at hc; omega)
    | push =>
      simp only [pushCount] at hc
      simp only [List.cons_append, disciplined, Bool.and_eq_true, decide_eq_true_eq]
      exact ⟨by omega, ih _ (by simpa [noIdx] using hn) (by omega)⟩
    | pushIdx a b => simp [noIdx] at hn
    | lhs => simp only [List.cons_append, disciplined]; exact ih _ (by simpa [noIdx] using hn) (by simpa [pushCount] using hc)
    | lhsRange n => simp only [List.cons_append, disciplined]; exact ih _ (by simpa [noIdx] using hn) (by simpa [pushCount] using hc)
    | preOps k => simp only [List.cons_append, disciplined]; exact ih _ (by simpa [noIdx] using hn) (by simp only [pushCount] at hc; omega)
    | preSt k => simp only [List.cons_append, disciplined]; exact ih _ (by simpa [noIdx] using hn) (by simpa [pushCount] using hc)

theorem noIdx_append (a b : List Ev) : noIdx (a ++ b) = (noIdx a && noIdx b) := by
  induction a with
  | nil => simp [noIdx]
  | cons e es ih => cases e <;> simp [noIdx, ih]

theorem pushCount_append (a b : List Ev) : pushCount (a ++ b) = pushCount a + pushCount b := by
  induction a with
  | nil => simp [pushCount]
  | cons e es ih => cases e <;> simp only [List.cons_append, pushCount, ih] <;> omega

/-- `L` blocks with at most `c` pushes each have at most `c * L` pushes -/
theorem flatten_bound (blocks : List (List Ev)) (c : Nat)
    (h : ∀ b ∈ blocks, noIdx b = true ∧ pushCount b ≤ c) :
    noIdx blocks.flatten = true ∧ pushCount blocks.flatten ≤ c * blocks.length := by
  induction blocks with
  | nil => simp [noIdx, pushCount]
  | cons b bs ih =>
    obtain ⟨h1, h2⟩ := h b (by simp)
    obtain ⟨i1, i2⟩ := ih (fun x hx => h x (by simp [hx]))
    simp only [List.flatten_cons, noIdx_append, pushCount_append, List.length_cons, h1, i1, Bool.and_self, true_and]
    rw [Nat.mul_succ]; omega

theorem reduceDim_ok (reserve c : Nat) (strips : List (List Ev)) (f : Nat)
    (h : ∀ s ∈ strips, noIdx s = true ∧ pushCount s ≤ c) (hr : c * strips.length ≤ reserve) :
    disciplined f (siteReduceDim reserve strips) = true := by
  obtain ⟨h1, h2⟩ := flatten_bound strips c h
  unfold siteReduceDim
  simp only [disciplined]
  exact disciplined_of_pushCount _ _ h1 (by omega)

theorem reduceAll_ok (reserve c : Nat) (elems : List (List Ev)) (tail : List Ev) (f : Nat)
    (h : ∀ s ∈ elems, noIdx s = true ∧ pushCount s ≤ c) (hr : c * elems.length ≤ reserve)
    (ht : disciplined 0 tail = true) :
    disciplined f (siteReduceAll reserve elems tail) = true := by
  obtain ⟨h1, h2⟩ := flatten_bound elems c h
  unfold siteReduceAll
  simp only [disciplined]
  exact disciplined_append _ _ _ h1 (by omega) ht

theorem specialFromScalar_ok (size stored f : Nat) (h : stored ≤ size) :
    disciplined f (Ev.check size :: (List.replicate stored (stmtEvents 1)).flatten) = true := by
  simp only [disciplined]
  have := disciplined_stmts 1 stored (max f size) [] (by omega)
  simp only [List.append_nil] at this
  rw [this]; rfl

/-- a stream that is disciplined from `f`, followed by one that is disciplined from nothing -/
theorem disciplined_append_any (a b : List Ev) (f : Nat) (ha : disciplined f a = true) (hb : disciplined 0 b = true) :
    disciplined f (a ++ b) = true := by
  induction a generalizing f with
  | nil => exact disciplined_mono b 0 f (Nat.zero_le _) hb
  | cons e es ih =>
    cases e with
    | check k => simp only [List.cons_append, disciplined] at ha ⊢; exact ih _ ha
    | push =>
      simp only [List.cons_append, disciplined, Bool.and_eq_true, decide_eq_true_eq] at ha ⊢
      exact ⟨ha.1, ih _ ha.2⟩
    | pushIdx a b =>
      simp only [List.cons_append, disciplined, Bool.and_eq_true, decide_eq_true_eq] at ha ⊢
      exact ⟨ha.1, ih _ ha.2⟩
    | lhs => simp only [List.cons_append, disciplined] at ha ⊢; exact ih _ ha
    | lhsRange n => simp only [List.cons_append, disciplined] at ha ⊢; exact ih _ ha
    | preOps k => simp only [List.cons_append, disciplined] at ha ⊢; exact ih _ ha
    | preSt k => simp only [List.cons_append, disciplined] at ha ⊢; exact ih _ ha

/-- blocks that are each disciplined from nothing (they reserve for themselves) can be concatenated -/
theorem disciplined_flatten_self (blocks : List (List Ev)) (f : Nat) (h : ∀ b ∈ blocks, disciplined 0 b = true) :
    disciplined f blocks.flatten = true := by
  induction blocks generalizing f with
  | nil => rfl
  | cons b bs ih =>
    simp only [List.flatten_cons]
    exact disciplined_append_any b _ f (disciplined_mono b 0 f (Nat.zero_le _) (h b (by simp)))
      (ih 0 (fun x hx => h x (by simp [hx])))

/-- `push_derivative_dependence(…, n)` reserves `n` and pushes `n` -/
theorem pushDep_ok (n f : Nat) (rest : List Ev) (hr : disciplined 0 rest = true) :
    disciplined f (sitePushDep n ++ rest) = true := by
  unfold sitePushDep Sites.Stack_2
  simp only [List.cons_append, disciplined]
  rw [disciplined_pushes n (max f n) rest (by omega)]
  exact disciplined_mono rest 0 _ (Nat.zero_le _) hr

theorem matmulElem_ok (n : Nat) (l r : Bool) : disciplined 0 (siteMatmulElem n l r) = true := by
  unfold siteMatmulElem
  have hl : disciplined 0 [Ev.lhs] = true := rfl
  cases l <;> cases r <;> simp only [if_true, if_false, Bool.false_eq_true, List.nil_append, List.append_assoc]
  · exact hl
  · exact pushDep_ok n 0 _ hl
  · exact pushDep_ok n 0 _ hl
  · exact pushDep_ok n 0 _ (pushDep_ok n 0 _ hl)

theorem matmul_ok (elems n f : Nat) (l r : Bool) : disciplined f (siteMatmul elems n l r) = true := by
  unfold siteMatmul
  apply disciplined_flatten_self
  intro b hb
  rw [List.eq_of_mem_replicate hb]
  exact matmulElem_ok n l r

theorem matmulBandVec_ok (dim ld ud f : Nat) : disciplined f (siteMatmulBandVec dim ld ud) = true := by
  unfold siteMatmulBandVec
  apply disciplined_flatten_self
  intro b hb
  obtain ⟨i, _, rfl⟩ := List.mem_map.1 hb
  exact pushDep_ok _ 0 _ rfl

end Adept.RecBuf
