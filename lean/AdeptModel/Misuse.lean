/-
C11, part B — array operations that the manual documents as raising an exception when misused, over three pools:
passive `Array<1..4, int|Real>` objects (`State.arrs`; `intVector`, `intMatrix`, `Vector`, `Matrix`, …), FixedArray /
SymmMatrix / TridiagMatrix objects (`State.specs`) and active arrays `Array<1|2,Real,true>` inside a recording (`State.acts`).

An array is its extents and its logical content in row-major index order (what `operator()` shows), so the
model is independent of strides, padding and storage order.  Every operation returns the new pool *and*
`Except Err Out`: an operation that fails returns the pool it was given, except `fill` (`a << v1, v2, …`), whose
documented partial effect — the elements written before the exception stay written — is returned explicitly.

Transcribed (code-shaped, tests in the order the C++ makes them) from
  include/adept/Array.h       constructors, resize(const Index*), resize(Index,…), operator=(const Expression&),
                              operator+= …, where()/assign_conditional, diag_vector, submatrix_on_diagonal, link,
                              permute, reshape, operator()(int…), operator()(range)
  include/adept/ExpressionSize.h   compatible
  include/adept/BinaryOperation.h  get_dimensions_ (my_get_dimensions<true,true>)
  include/adept/Allocator.h   operator<<(Array&,E), Allocator<Rank,A>::operator<< (scalar / expression), complete_row
  include/adept/matmul.h      check_inner_dimensions, matmul_ (2,1) (2,2) (1,2)
  include/adept/RangeIndex.h  get_index_with_len (ADEPT_BOUNDS_CHECKING)
  adept/inv.cpp               inv(const Array<2,Type,false>&)  (the non-square test only; see `Op.inv`)
  adept/solve.cpp             solve(A, b), solve(A, B): the shape tests
  include/adept/reduce.h      reduce_inactive, reduce_dimension, reduce_active, the two-argument forms of rank-1
                              expressions, find, minloc, maxloc, dot_product, diag_vector(Expression), diag_matrix(Expression)
  include/adept/outer_product.h, spread.h   get_dimensions_
  include/adept/where.h       Where::operator=(EitherOr)
  include/adept/FixedArray.h  operator=(Expression), where / assign_conditional, diag_vector, submatrix_on_diagonal
  include/adept/SpecialMatrix.h   resize(Index), resize(Index,Index), operator=(Expression), link, submatrix_on_diagonal
Core Lean only.
-/
namespace Adept.Misuse

inductive Err
  | size_mismatch | inner_dimension_mismatch | empty_array | invalid_dimension | index_out_of_bounds
  | invalid_operation
  | bad          -- not an operation of the protocol (unknown handle, wrong rank or element type): `bad-op`
  | unmodelled   -- well-formed, but outside what this model describes (the generator never produces it)
  | wild         -- a store outside the allocated memory (modelled fault; the theorems show it cannot occur)
deriving Repr, DecidableEq

def Err.name : Err → String
  | .size_mismatch => "size_mismatch"
  | .inner_dimension_mismatch => "inner_dimension_mismatch"
  | .empty_array => "empty_array"
  | .invalid_dimension => "invalid_dimension"
  | .index_out_of_bounds => "index_out_of_bounds"
  | .invalid_operation => "invalid_operation"
  | .bad => "bad-op"
  | .unmodelled => "unmodelled"
  | .wild => "WILD-ACCESS"

structure Arr where
  dbl : Bool                -- element type Real (true) or int (false)
  dims : List Nat           -- extents; length = rank (1 … 4); the empty array has every extent 0
  vals : List Int           -- logical content, row-major index order; length = product of the extents
deriving Repr, DecidableEq

/-- FixedArray<Real,false,3> / FixedArray<Real,false,2,3>, SymmMatrix, TridiagMatrix (all passive, Real) -/
inductive SCls | fix | sym | tri
deriving Repr, DecidableEq

/-- a special object: for `sym` / `tri`, `a.dims = [n, n]` and `a.vals` is the full logical `n × n` content -/
structure SArr where
  cls : SCls
  a : Arr
deriving Repr, DecidableEq

/-- one row of a Jacobian, sparse: (variable, coefficient); read through `Der.coef` only -/
abbrev Der := List (Nat × Int)

/-- an active array while a recording is going on: values, and for every element its derivative with respect to the
    variables of the recording (`rec` gives every element of every active array a variable of its own) -/
structure AArr where
  a : Arr
  der : List Der            -- one row per element
  inp : Bool := false       -- the object (its gradient indices) is unchanged since the last `rec`
  vars : List Nat := []     -- then: the variables of its elements
deriving Repr, DecidableEq

structure State where
  bounds : Bool := false    -- built with ADEPT_BOUNDS_CHECKING
  arrs : List (Nat × Arr) := []
  specs : List (Nat × SArr) := []
  acts : List (Nat × AArr) := []
  nvar : Nat := 0
deriving Repr, DecidableEq

def State.get? (s : State) (k : Nat) : Option Arr := (s.arrs.find? (·.1 = k)).map (·.2)
def State.getS? (s : State) (k : Nat) : Option SArr := (s.specs.find? (·.1 = k)).map (·.2)
def State.getA? (s : State) (k : Nat) : Option AArr := (s.acts.find? (·.1 = k)).map (·.2)
/-- a handle names one object: storing under `k` in one pool removes `k` from the others -/
def State.put (s : State) (k : Nat) (a : Arr) : State :=
  { s with arrs := (k, a) :: s.arrs.filter (·.1 ≠ k), specs := s.specs.filter (·.1 ≠ k), acts := s.acts.filter (·.1 ≠ k) }
def State.putS (s : State) (k : Nat) (a : SArr) : State :=
  { s with specs := (k, a) :: s.specs.filter (·.1 ≠ k), arrs := s.arrs.filter (·.1 ≠ k), acts := s.acts.filter (·.1 ≠ k) }
def State.putA (s : State) (k : Nat) (a : AArr) : State :=
  { s with acts := (k, a) :: s.acts.filter (·.1 ≠ k), arrs := s.arrs.filter (·.1 ≠ k), specs := s.specs.filter (·.1 ≠ k) }

def Arr.rank (a : Arr) : Nat := a.dims.length
/-- `Array::empty()`: `dimensions_[0] == 0` -/
def Arr.isEmpty (a : Arr) : Bool := a.dims.headD 0 == 0
def prod (ds : List Nat) : Nat := ds.foldl (· * ·) 1
def Arr.sameKind (a b : Arr) : Bool := a.dbl == b.dbl && a.rank == b.rank

/-- the harness fills freshly allocated (uninitialised) storage with this pattern -/
def pattern (seed : Int) (n : Nat) : List Int := (List.range n).map fun (t : Nat) => (seed + 3 * Int.ofNat t) % 7 - 3

/-! ### row-major index arithmetic for any rank -/

/-- flat index of the multi-index `idx` in an array of extents `dims` -/
def encode (dims idx : List Nat) : Nat := (List.zip dims idx).foldl (fun acc p => acc * p.1 + p.2) 0

/-- multi-index of the flat index `t` -/
def decode (dims : List Nat) (t : Nat) : List Nat :=
  (dims.foldr (fun d (acc : List Nat × Nat) => ((acc.2 % d) :: acc.1, acc.2 / d)) ([], t)).1

/-! ### creation and resizing -/

/-- the loop of `Array::resize(const Index* dim)`: a negative extent raises `invalid_dimension` *before* anything is
    released; the first zero extent clears the array (`none`) without looking at the later ones -/
def resizeLoop : List Int → Except Err (Option (List Nat))
  | [] => .ok (some [])
  | d :: ds =>
    if d < 0 then .error .invalid_dimension
    else if d = 0 then .ok none
    else match resizeLoop ds with
      | .error e => .error e
      | .ok none => .ok none
      | .ok (some r) => .ok (some (d.toNat :: r))

/-- the array `resize` leaves: cleared, or the new extents with fresh storage (filled by the harness) -/
def resizedArr (dbl : Bool) (rank : Nat) (seed : Int) : Option (List Nat) → Arr
  | none => ⟨dbl, List.replicate rank 0, []⟩
  | some ds => ⟨dbl, ds, pattern seed (prod ds)⟩

/-- `Array(m0[,m1])` → `resize_<Rank>` → `resize(dim)`; an exception leaves no object -/
def newArr (dbl : Bool) (seed : Int) (dims : List Int) : Except Err Arr :=
  match resizeLoop dims with
  | .error e => .error e
  | .ok r => .ok (resizedArr dbl dims.length seed r)

/-- `resize(Index m0, Index m1 = -1, …)`: every extent is validated first -/
def resizeInt (a : Arr) (seed : Int) (dims : List Int) : Except Err Arr :=
  if dims.any (· < 0) then .error .invalid_dimension
  else match resizeLoop dims with
    | .error e => .error e
    | .ok r => .ok (resizedArr a.dbl a.rank seed r)

/-- `resize(const ExpressionSize<Rank>&)`, `resize_row_major`, `resize_column_major` -/
def resizeDims (a : Arr) (seed : Int) (dims : List Int) : Except Err Arr :=
  match resizeLoop dims with
  | .error e => .error e
  | .ok r => .ok (resizedArr a.dbl a.rank seed r)

/-! ### element-wise expressions and assignment -/

inductive BinOp | add | sub | mul
deriving Repr, DecidableEq

def BinOp.ap : BinOp → Int → Int → Int
  | .add, x, y => x + y
  | .sub, x, y => x - y
  | .mul, x, y => x * y

/-- `BinaryOperation::get_dimensions_` for two array operands: `left.get_dimensions(dim) &&
    right.get_dimensions(right_dim) && compatible(dim, right_dim)`; `none` = the expression is invalid -/
def exprDims (x y : Arr) : Option (List Nat) := if x.dims == y.dims then some x.dims else none

def exprVals (op : BinOp) (x y : Arr) : List Int := List.zipWith op.ap x.vals y.vals

/-- `Array::operator=(const Expression&)`: (1) invalid expression ⇒ `size_mismatch`; (2) empty target ⇒ resized
    to the expression; (3) extents differ ⇒ `size_mismatch`; (4) element-wise copy.  The target is not touched
    before the tests have passed. -/
def assign (t : Arr) (d : Option (List Nat)) (vals : List Int) : Except Err Arr :=
  match d with
  | none => .error .size_mismatch
  | some d =>
    if t.isEmpty then .ok { t with dims := d, vals := vals }
    else if d != t.dims then .error .size_mismatch
    else .ok { t with vals := vals }

/-- `a.where(m > 0) = x`: `where()` compares the extents of the mask with the target's (`dims != dimensions_`),
    `assign_conditional` those of the right-hand side; an empty target is left alone -/
def whereAssign (t m x : Arr) : Except Err Arr :=
  if m.dims != t.dims then .error .size_mismatch
  else if x.dims != t.dims then .error .size_mismatch
  else if t.isEmpty then .ok t
  else .ok { t with vals := List.zipWith (fun tv mx => if mx.1 > 0 then mx.2 else tv) t.vals (List.zip m.vals x.vals) }

/-! ### filling with `<<` (Allocator.h) -/

/-- an object on the right of `<<`: a scalar or an array (rank ≤ rank of the target) -/
inductive Piece
  | s (v : Int)
  | a (x : Arr)
deriving Repr, DecidableEq

/-- `Allocator<1,A>`: `coords_[0]`; `obj_size_` is an `ExpressionSize<0>` and plays no role -/
structure Al1 where
  vals : List Int
  c : Nat
deriving Repr, DecidableEq

/-- elements `at_ … at_ + xs.length − 1` of the target's memory are overwritten with `xs` -/
def writeRun (vals : List Int) (at_ : Nat) (xs : List Int) : List Int :=
  (List.range xs.length).foldl (fun v t => v.set (at_ + t) (xs.getD t 0)) vals

/-- the same write as the machine performs it: an index at or beyond the allocated length is a fault (`none`),
    not a silently dropped store -/
def writeRunChk (vals : List Int) (at_ : Nat) (xs : List Int) : Option (List Int) :=
  if at_ + xs.length ≤ vals.length then some (writeRun vals at_ xs) else none

/-- one `<< piece` into a vector of length `n`; an exception leaves the allocator (and the elements written so far)
    as it is; `Err.wild` = the store would have gone outside the allocated memory -/
def al1Step (n : Nat) (al : Al1) : Piece → Al1 × Option Err
  | .s v =>
    if al.c ≥ n then (al, some .index_out_of_bounds)                 -- complete_row<1>()
    else match writeRunChk al.vals al.c [v] with
      | some vals' => ({ vals := vals', c := al.c + 1 }, none)
      | none => (al, some .wild)
  | .a x =>
    if x.isEmpty then (al, none)                                       -- an empty object contributes nothing
    else if al.c ≥ n then (al, some .index_out_of_bounds)             -- complete_row<1>()
    else if al.c + x.vals.length > n then (al, some .index_out_of_bounds)   -- the fit test
    else match writeRunChk al.vals al.c x.vals with
      | some vals' => ({ vals := vals', c := al.c + x.vals.length }, none)
      | none => (al, some .wild)

/-- `Allocator<2,A>` for an `R × C` target: `coords_ = (r, c)`, `obj_size_[0] = obj` -/
structure Al2 where
  vals : List Int
  r : Nat
  c : Nat
  obj : Nat
deriving Repr, DecidableEq

/-- `complete_row<2>()`: move to the next row of objects or raise; `obj_size_.set_all(0)` -/
def al2CompleteRow (R : Nat) (al : Al2) : Except Err Al2 :=
  if al.r + al.obj < R then .ok { al with r := al.r + al.obj, c := 0, obj := 0 }
  else .error .index_out_of_bounds

/-- write the `p × q` block `xs` (row-major) with its corner at `(r, c)` of an array with rows of length `C`;
    `none` = some store would have gone outside the allocated memory -/
def writeBlockChk (C : Nat) (vals : List Int) (r c q : Nat) : Nat → List Int → Option (List Int)
  | 0, _ => some vals
  | p + 1, xs => match writeRunChk vals (r * C + c) (xs.take q) with
    | none => none
    | some v' => writeBlockChk C v' (r + 1) c q p (xs.drop q)

/-- what the allocator needs to know of a piece: its rows and columns, the leading extent `partial_copy` derives from
    it, whether it is a scalar (the scalar overload of `operator<<`) and whether it is a rank-2 object (only then does
    the fit test look at the rows) -/
structure Shape where
  p : Nat
  q : Nat
  lead : Nat
  scalar : Bool
  mat : Bool
deriving Repr, DecidableEq

def Piece.shape : Piece → Shape
  | .s _ => ⟨1, 1, 1, true, false⟩
  | .a x => match x.dims with
    | [m] => ⟨1, m, 1, false, false⟩        -- a rank-1 object is a row; partial_copy gives leading extent 1
    | [p, q] => ⟨p, q, p, false, true⟩
    | _ => ⟨0, 0, 0, false, false⟩

def Piece.elems : Piece → List Int
  | .s v => [v]
  | .a x => x.vals

/-- `if (coords_[1] == 0) partial_copy(xx.dimensions(), obj_size_)`: the first object of a row fixes the leading extent -/
def Al2.withLead (a : Al2) (lead : Nat) : Al2 := if a.c = 0 then { a with obj := lead } else a

/-- everything `operator<<` does before it stores: row completion, the test that the objects on one row have the
    same leading extent, the fit test.  Returns the allocator positioned at the corner of the piece. -/
def al2Place (R C : Nat) (al : Al2) (sh : Shape) : Except Err Al2 :=
  if sh.scalar then
    -- if (coords_[1] >= size_[1]) { complete_row(); obj_size_.set_all(1); }
    -- else if (coords_[1] == 0) obj_size_ = scalar_size_; else if (obj_size_ != scalar_size_) throw
    if al.c ≥ C then (match al2CompleteRow R al with
      | .ok a => .ok { a with obj := 1 }
      | .error e => .error e)
    else if al.c = 0 then .ok { al with obj := 1 }
    else if al.obj ≠ 1 then .error .index_out_of_bounds
    else .ok al
  else
    match (if al.c ≥ C then al2CompleteRow R al else .ok al) with
    | .error e => .error e
    | .ok a =>
      -- if (coords_[1] == 0) obj_size_ = leading; else if (obj_size_ != leading) throw
      if a.c ≠ 0 ∧ a.obj ≠ sh.lead then .error .index_out_of_bounds
      -- the fit test: every extent of the object must lie inside the target from the current position
      else if sh.mat ∧ a.r + sh.p > R then .error .index_out_of_bounds
      else if a.c + sh.q > C then .error .index_out_of_bounds
      else .ok (a.withLead sh.lead)

/-- place, then store the block and advance `coords_[1]`; an exception leaves everything written so far -/
def al2Put (R C : Nat) (al : Al2) (sh : Shape) (xs : List Int) : Al2 × Option Err :=
  match al2Place R C al sh with
  | .error e => (al, some e)
  | .ok a => match writeBlockChk C a.vals a.r a.c sh.q sh.p xs with
    | some vals' => ({ a with vals := vals', c := a.c + sh.q }, none)
    | none => (al, some .wild)

def al2Step (R C : Nat) (al : Al2) (pc : Piece) : Al2 × Option Err :=
  match pc with
  | .s _ => al2Put R C al pc.shape pc.elems
  | .a x => if x.isEmpty then (al, none) else al2Put R C al pc.shape pc.elems

def al1Run (n : Nat) (al : Al1) : List Piece → Al1 × Option Err
  | [] => (al, none)
  | p :: ps => match al1Step n al p with
    | (al', none) => al1Run n al' ps
    | (al', some e) => (al', some e)

def al2Run (R C : Nat) (al : Al2) : List Piece → Al2 × Option Err
  | [] => (al, none)
  | p :: ps => match al2Step R C al p with
    | (al', none) => al2Run R C al' ps
    | (al', some e) => (al', some e)

/-- `t << p1 << p2 …`: an empty target raises `empty_array` before anything else; otherwise the pieces are placed one
    after the other and the first that does not fit raises `index_out_of_bounds`, the earlier ones staying written -/
def fill (t : Arr) (ps : List Piece) : Arr × Option Err :=
  if t.isEmpty then (t, some .empty_array)
  else match t.dims with
    | [n] => let r := al1Run n ⟨t.vals, 0⟩ ps; ({ t with vals := r.1.vals }, r.2)
    | [R, C] => let r := al2Run R C ⟨t.vals, 0, 0, 0⟩ ps; ({ t with vals := r.1.vals }, r.2)
    | _ => (t, some .bad)

/-! ### views that need a square / non-empty / in-range argument -/

def at2 (a : Arr) (i j : Nat) : Int := a.vals.getD (i * a.dims.getD 1 0 + j) 0

/-- result of a view-returning member function: extents and logical content -/
abbrev View := List Nat × List Int

/-- `Matrix::diag_vector(offdiag)`: empty ⇒ empty vector; non-square ⇒ `invalid_operation`; a diagonal beyond the
    last one would have a negative length ⇒ `invalid_dimension` (raised by the view constructor) -/
def diagVector (a : Arr) (o : Int) : Except Err View :=
  if a.isEmpty then .ok ([0], [])
  else
    let n := a.dims.getD 0 0
    if n ≠ a.dims.getD 1 0 then .error .invalid_operation
    else
      let len : Int := if o ≥ 0 then min (n : Int) ((n : Int) - o) else min ((n : Int) + o) n
      if len < 0 then .error .invalid_dimension
      else .ok ([len.toNat], (List.range len.toNat).map fun i =>
        if o ≥ 0 then at2 a i (i + o.toNat) else at2 a (i + (-o).toNat) i)

/-- `Matrix::submatrix_on_diagonal(ibegin, iend)` -/
def subDiag (a : Arr) (ib ie : Int) : Except Err View :=
  let n := a.dims.getD 0 0
  if n ≠ a.dims.getD 1 0 then .error .invalid_operation
  else if ib < 0 ∨ ib > ie ∨ ie ≥ (n : Int) then .error .index_out_of_bounds
  else
    let len := (ie - ib + 1).toNat
    .ok ([len, len], (List.range (len * len)).map fun t => at2 a (ib.toNat + t / len) (ib.toNat + t % len))

/-- `Matrix::permute(i0, i1)`: a missing argument (−1) ⇒ `invalid_dimension`; then `permute(const Index*)`:
    empty ⇒ `empty_array`; out of range ⇒ `invalid_dimension`; repeated ⇒ `invalid_dimension` -/
def permute2 (a : Arr) (p0 p1 : Int) : Except Err View :=
  if p0 = -1 ∨ p1 = -1 then .error .invalid_dimension
  else if a.isEmpty then .error .empty_array
  else if ¬ (0 ≤ p0 ∧ p0 < 2 ∧ 0 ≤ p1 ∧ p1 < 2) then .error .invalid_dimension
  else if p0 = p1 then .error .invalid_dimension
  else
    let R := a.dims.getD 0 0
    let C := a.dims.getD 1 0
    if p0 = 0 then .ok ([R, C], a.vals)
    else .ok ([C, R], (List.range (C * R)).map fun t => at2 a (t % R) (t / R))

/-- `inv(A)`: a non-square matrix ⇒ `invalid_operation` (tested first).  Of the success path only what needs no
    arithmetic is modelled: a matrix with exactly one entry ±1 in every row and column has its transpose as inverse. -/
def isSignedPerm (a : Arr) : Bool :=
  let n := a.dims.getD 0 0
  (List.range n).all fun i =>
    ((List.range n).filter fun j => at2 a i j ≠ 0).length == 1 &&
    ((List.range n).filter fun j => at2 a j i ≠ 0).length == 1 &&
    (List.range n).all fun j => at2 a i j == 0 || at2 a i j == 1 || at2 a i j == -1

def invMat (a : Arr) : Except Err View :=
  let n := a.dims.getD 0 0
  if n ≠ a.dims.getD 1 0 then .error .invalid_operation
  else if a.isEmpty then .error .unmodelled
  else if isSignedPerm a then .ok ([n, n], (List.range (n * n)).map fun t => at2 a (t % n) (t / n))
  else .error .unmodelled

/-- `check_inner_dimensions` + the extents of the product; `(2,1)`, `(2,2)` as coded, `(1,2)` is
    `matmul_(right.T(), left)`.  The emptiness test comes first. -/
def matmulDims (x y : Arr) : Except Err (List Nat) :=
  let (l1, r0, out) : Nat × Nat × List Nat := match x.dims, y.dims with
    | [m, k], [k'] => (k, k', [m])
    | [m, k], [k', n] => (k, k', [m, n])
    | [k], [k', n] => (k, k', [n])
    | _, _ => (0, 0, [])
  if x.isEmpty || y.isEmpty then .error .empty_array
  else if l1 ≠ r0 then .error .inner_dimension_mismatch
  else .ok out

def matmulVals (x y : Arr) : List Int :=
  match x.dims, y.dims with
  | [m, k], [_] => (List.range m).map fun i => ((List.range k).map fun t => at2 x i t * y.vals.getD t 0).foldl (· + ·) 0
  | [m, k], [_, n] => (List.range (m * n)).map fun e =>
      ((List.range k).map fun t => at2 x (e / n) t * at2 y t (e % n)).foldl (· + ·) 0
  | [k], [_, n] => (List.range n).map fun j => ((List.range k).map fun t => x.vals.getD t 0 * at2 y t j).foldl (· + ·) 0
  | _, _ => []

/-- `get_index_with_len` under ADEPT_BOUNDS_CHECKING, one index after the other -/
def getElem (bounds : Bool) (a : Arr) (idx : List Int) : Except Err Int :=
  let inRange := (List.zip idx a.dims).all fun p => 0 ≤ p.1 && p.1 < (p.2 : Int)
  if !inRange then (if bounds then .error .index_out_of_bounds else .error .unmodelled)
  else match idx, a.dims with
    | [i], [_] => .ok (a.vals.getD i.toNat 0)
    | [i, j], [_, _] => .ok (at2 a i.toNat j.toNat)
    | [_, _, _], [_, _, _] => .ok (a.vals.getD (encode a.dims (idx.map Int.toNat)) 0)
    | [_, _, _, _], [_, _, _, _] => .ok (a.vals.getD (encode a.dims (idx.map Int.toNat)) 0)
    | _, _ => .error .bad

/-- `v(range(b, e))` on a vector: with bounds checking both ends must be valid indices; a reversed range would
    have a negative length ⇒ `invalid_dimension` (view constructor) -/
def rangeView (bounds : Bool) (a : Arr) (b e : Int) : Except Err View :=
  let n : Int := a.dims.getD 0 0
  if ¬ (0 ≤ b ∧ b < n ∧ 0 ≤ e ∧ e < n) then (if bounds then .error .index_out_of_bounds else .error .unmodelled)
  else if e - b + 1 < 0 then .error .invalid_dimension
  else .ok ([(e - b + 1).toNat], (a.vals.drop b.toNat).take (e - b + 1).toNat)

/-- `v.reshape(r, c)`: the product must be the length of the vector, and no extent may be negative -/
def reshape2 (a : Arr) (r c : Int) : Except Err View :=
  if r * c ≠ (a.dims.getD 0 0 : Int) then .error .invalid_dimension
  else if r < 0 ∨ c < 0 then .error .invalid_dimension
  else .ok ([r.toNat, c.toNat], a.vals)


/-! ### expressions that are not assignments: reductions (reduce.h) -/

inductive RedFn | sum | mean | product | minval | maxval | norm2 | all | any | count
deriving Repr, DecidableEq

/-- a result that need not be an integer: `mean` is a quotient, `norm2` a square root (printed by the driver as the
    correctly rounded double) -/
inductive Num
  | int (v : Int)
  | rat (n : Int) (d : Nat)
  | sqrt (n : Nat)
deriving Repr, DecidableEq

def RedFn.isBool : RedFn → Bool
  | .all | .any | .count => true
  | _ => false

/-- the reduction of a non-empty list (for `all` / `any` / `count`: of the 0/1 values of the comparison) -/
def redList (fn : RedFn) (vals : List Int) : Num :=
  match fn with
  | .sum => .int (vals.foldl (· + ·) 0)
  | .mean => .rat (vals.foldl (· + ·) 0) vals.length
  | .product => .int (vals.foldl (· * ·) 1)
  | .minval => .int (vals.foldl min (vals.headD 0))
  | .maxval => .int (vals.foldl max (vals.headD 0))
  | .norm2 => .sqrt (vals.foldl (fun s v => s + (v * v).toNat) 0)
  | .all => .int (if vals.all (· ≠ 0) then 1 else 0)
  | .any => .int (if vals.any (· ≠ 0) then 1 else 0)
  | .count => .int ((vals.filter (· ≠ 0)).length)

/-- `reduce_inactive`: an invalid expression ⇒ `size_mismatch`; an empty one gives 0 (whatever the function) -/
def reduceWhole (fn : RedFn) (d : Option (List Nat)) (vals : List Int) : Except Err Num :=
  match d with
  | none => .error .size_mismatch
  | some d => if d.headD 0 == 0 then .ok (.int 0) else .ok (redList fn vals)

/-- flat indices of the `t`-th strip along dimension `dim` -/
def stripIdx (dims : List Nat) (dim : Nat) (t : Nat) : List Nat :=
  let oi := decode (dims.eraseIdx dim) t
  (List.range (dims.getD dim 0)).map fun q => encode dims (oi.take dim ++ [q] ++ oi.drop dim)

/-- result of a reduction along a dimension: a scalar (rank-1 argument) or an array of one rank less -/
inductive RedOut
  | scalar (x : Num)
  | arr (dims : List Nat) (vals : List Num)
deriving Repr, DecidableEq

/-- `fn(expr, dim)`.  Rank 1 (the two-argument forms of DEFINE_REDUCE_FUNCTION): `dim ≠ 0` ⇒ `invalid_dimension`, tested
    before the expression is looked at.  Rank > 1 (`reduce_dimension`): invalid expression ⇒ `size_mismatch`; empty ⇒ the
    empty array; `dim` outside `0 … rank−1` ⇒ `invalid_dimension`.  (The pinned tree tests `dim ≥ rank` only and overruns
    a stack buffer for a negative `dim`: finding reported by the C11 check; the model transcribes the tree with the test
    completed.) -/
def reduceDim (fn : RedFn) (rank : Nat) (d : Option (List Nat)) (vals : List Int) (dim : Int) : Except Err RedOut :=
  if rank = 1 then
    if dim ≠ 0 then .error .invalid_dimension
    else match reduceWhole fn d vals with
      | .ok x => .ok (.scalar x)
      | .error e => .error e
  else match d with
    | none => .error .size_mismatch
    | some d =>
      if d.headD 0 == 0 then .ok (.arr (List.replicate (rank - 1) 0) [])
      else if dim < 0 ∨ dim ≥ (rank : Int) then .error .invalid_dimension
      else
        let od := d.eraseIdx dim.toNat
        .ok (.arr od ((List.range (prod od)).map fun t => redList fn ((stripIdx d dim.toNat t).map fun i => vals.getD i 0)))

/-- the 0/1 values of `x > y` -/
def gtVals (x y : Arr) : List Int := List.zipWith (fun p q => if p > q then 1 else 0) x.vals y.vals

/-! ### minloc, maxloc, find, dot_product -/

/-- index of the first smallest (largest) element; 0 for an empty list -/
def locList (isMin : Bool) (vals : List Int) : Nat :=
  ((List.range vals.length).foldl (fun (best : Nat × Int) i =>
      let v := vals.getD i 0
      if (if isMin then v < best.2 else v > best.2) then (i, v) else best) (0, vals.headD 0)).1

/-- `minloc` / `maxloc` of a rank-1 expression: invalid ⇒ `size_mismatch` -/
def locOp (isMin : Bool) (d : Option (List Nat)) (vals : List Int) : Except Err Nat :=
  match d with
  | none => .error .size_mismatch
  | some _ => .ok (locList isMin vals)

/-- `find(x > y)`: the indices of the true elements -/
def findOp (x y : Arr) : Except Err View :=
  if x.dims != y.dims then .error .size_mismatch
  else
    let ix := (List.range x.vals.length).filter fun i => x.vals.getD i 0 > y.vals.getD i 0
    .ok ([ix.length], ix.map Int.ofNat)

/-- `dot_product(x, y)` is `sum(x * y)` -/
def dotOp (x y : Arr) : Except Err Int :=
  match reduceWhole .sum (exprDims x y) (exprVals .mul x y) with
  | .ok (.int v) => .ok v
  | .ok _ => .error .bad
  | .error e => .error e

/-! ### outer_product, spread, diag_vector / diag_matrix of an expression -/

/-- `T = outer_product(x + y, z)`: the sum is evaluated into a vector first (`size_mismatch` if its operands disagree);
    an outer product without elements is an invalid expression (`get_dimensions_` returns false) -/
def outerOp (t x y z : Arr) : Except Err Arr :=
  if x.dims != y.dims then .error .size_mismatch
  else if x.isEmpty || z.isEmpty then .error .size_mismatch
  else
    let e := exprVals .add x y
    assign t (some [e.length, z.vals.length]) (e.flatMap fun p => z.vals.map fun r => p * r)

/-- `T = spread<D>(x + y, n)`: extents of `x` with `n` inserted at position `D` (and `dims[0] = 0` if `n = 0`); an empty
    target is resized to them (`resize`: a negative `n` ⇒ `invalid_dimension`, a zero extent ⇒ stays empty) -/
def spreadDims (x : Arr) (D : Nat) (n : Int) : List Int :=
  let ed0 : List Int := (x.dims.take D).map Int.ofNat ++ [n] ++ (x.dims.drop D).map Int.ofNat
  if n = 0 then ed0.set 0 0 else ed0

def spreadOp (t x y : Arr) (D : Nat) (n : Int) : Except Err Arr :=
  if x.dims != y.dims then .error .size_mismatch
  else
    let ed := spreadDims x D n
    let e := exprVals .add x y
    let inner := prod (x.dims.drop D)
    let vals := (List.range (prod (x.dims.take D))).flatMap fun o =>
      (List.range n.toNat).flatMap fun _ => (e.drop (o * inner)).take inner
    if t.isEmpty then
      match resizeLoop ed with
      | .error err => .error err
      | .ok none => .ok t
      | .ok (some ds) => .ok { t with dims := ds, vals := vals }
    else if ed != t.dims.map Int.ofNat then .error .size_mismatch
    else .ok { t with vals := vals }

/-- length of the diagonal `o` of an `R × C` expression (negative: no such diagonal) -/
def diagLen (R C : Nat) (o : Int) : Int := if o ≥ 0 then min (R : Int) ((C : Int) - o) else min ((R : Int) + o) C

/-- flat indices of the elements of diagonal `o` -/
def diagIdx (C : Nat) (o : Int) (len : Nat) : List Nat :=
  (List.range len).map fun j => if o ≥ 0 then j * C + j + o.toNat else (j + (-o).toNat) * C + j

/-- `diag_vector(x + y, o)`: invalid ⇒ `size_mismatch`; the result vector is constructed with the length of the diagonal,
    a negative one ⇒ `invalid_dimension` -/
def diagvOp (x y : Arr) (o : Int) : Except Err View :=
  if x.dims != y.dims then .error .size_mismatch
  else
    let R := x.dims.getD 0 0
    let C := x.dims.getD 1 0
    let len := diagLen R C o
    if len < 0 then .error .invalid_dimension
    else
      let e := exprVals .add x y
      .ok ([len.toNat], (diagIdx C o len.toNat).map fun i => e.getD i 0)

/-- `diag_matrix(x + y)`: the sum is evaluated into a vector first -/
def diagmOp (x y : Arr) : Except Err View :=
  if x.dims != y.dims then .error .size_mismatch
  else
    let e := exprVals .add x y
    let n := e.length
    .ok ([n, n], (List.range (n * n)).map fun t => if t / n = t % n then e.getD (t / n) 0 else 0)

/-! ### where with expressions as mask and right-hand side; either_or -/

/-- `t.where(m1 > m2) = x + y`: `where()` wants a valid mask of the extents of the target, `assign_conditional` a valid
    right-hand side of those extents; an empty target is left alone -/
def whereExpr (t m1 m2 x y : Arr) : Except Err Arr :=
  if m1.dims != m2.dims then .error .size_mismatch
  else if m1.dims != t.dims then .error .size_mismatch
  else if x.dims != y.dims then .error .size_mismatch
  else if x.dims != t.dims then .error .size_mismatch
  else if t.isEmpty then .ok t
  else
    let mv := gtVals m1 m2
    let e := exprVals .add x y
    .ok { t with vals := (List.range t.vals.length).map fun i => if mv.getD i 0 > 0 then e.getD i 0 else t.vals.getD i 0 }

/-- one conditional assignment of `Where::operator=(EitherOr)`: `t[m > 0 == sense] = x` -/
def condAssign (t m x : Arr) (sense : Bool) : Except Err Arr :=
  if x.dims != t.dims then .error .size_mismatch
  else if t.isEmpty then .ok t
  else .ok { t with vals := (List.range t.vals.length).map fun i =>
      if (decide (m.vals.getD i 0 > 0)) == sense then x.vals.getD i 0 else t.vals.getD i 0 }

/-- `t.where(m > 0) = either_or(c, d)`: the mask is tested by `where()`; then `d` is assigned where the mask is false, then
    `c` where it is true, each with its own size test.  A wrongly sized `c` is therefore reported after `d` has been
    stored: the partial effect is returned explicitly (as for `fill`).  `mIsT` / `cIsT`: the mask / `c` is the target
    itself, so the second assignment sees it as the first one left it. -/
def eitherOr (t m c d : Arr) (mIsT cIsT : Bool) : Arr × Option Err :=
  if m.dims != t.dims then (t, some .size_mismatch)
  else match condAssign t m d false with
    | .error e => (t, some e)
    | .ok t1 => match condAssign t1 (if mIsT then t1 else m) (if cIsT then t1 else c) true with
      | .error e => (t1, some e)
      | .ok t2 => (t2, none)

/-! ### solve -/

/-- `solve(A, b)`: a non-square `A` ⇒ `invalid_operation`, then a right-hand side with another number of rows ⇒
    `size_mismatch`.  Of the success path only signed permutation matrices are modelled (`x = Aᵀ b`). -/
def solveOp (a b : Arr) : Except Err View :=
  let n := a.dims.getD 0 0
  if n ≠ a.dims.getD 1 0 then .error .invalid_operation
  else if n ≠ b.dims.getD 0 0 then .error .size_mismatch
  else if a.isEmpty then .error .unmodelled
  else if !isSignedPerm a then .error .unmodelled
  else match b.dims with
    | [_] => .ok ([n], (List.range n).map fun i => ((List.range n).map fun q => at2 a q i * b.vals.getD q 0).foldl (· + ·) 0)
    | [_, m] => .ok ([n, m], (List.range (n * m)).map fun e =>
        ((List.range n).map fun q => at2 a q (e / m) * at2 b q (e % m)).foldl (· + ·) 0)
    | _ => .error .bad

/-! ### FixedArray, SymmMatrix, TridiagMatrix -/

/-- what a square special matrix keeps of an `n × n` expression: SymmMatrix (row-major lower) reads the lower triangle
    and mirrors it, TridiagMatrix the three central diagonals -/
def project (c : SCls) (n : Nat) (vals : List Int) : List Int :=
  match c with
  | .fix => vals
  | .sym => (List.range (n * n)).map fun t => vals.getD (max (t / n) (t % n) * n + min (t / n) (t % n)) 0
  | .tri => (List.range (n * n)).map fun t => if t / n ≤ t % n + 1 ∧ t % n ≤ t / n + 1 then vals.getD t 0 else 0

/-- `SpecialMatrix(n)`, `SpecialMatrix(n, m)`, `resize(n)`, `resize(n, m)`: the two-extent form must be square, then a
    negative extent ⇒ `invalid_dimension` (both before the old data is released) -/
def squareExtent : List Int → Except Err Nat
  | [n] => if n < 0 then .error .invalid_dimension else .ok n.toNat
  | [n, m] => if n ≠ m then .error .invalid_dimension else if n < 0 then .error .invalid_dimension else .ok n.toNat
  | _ => .error .bad

def freshSpec (c : SCls) (seed : Int) (n : Nat) : SArr :=
  ⟨c, ⟨true, [n, n], project c n (pattern seed (n * n))⟩⟩

/-- `SpecialMatrix::operator=(Expression)` / `FixedArray::operator=(Expression)`: invalid ⇒ `size_mismatch`; an empty
    square matrix is resized (`resize(d0, d1)`: not square ⇒ `invalid_dimension`); other extents ⇒ `size_mismatch` -/
def assignS (t : SArr) (d : Option (List Nat)) (vals : List Int) : Except Err SArr :=
  match d with
  | none => .error .size_mismatch
  | some d =>
    match t.cls with
    | .fix => if d != t.a.dims then .error .size_mismatch else .ok { t with a := { t.a with vals := vals } }
    | c =>
      if t.a.isEmpty then
        (if d.getD 0 0 ≠ d.getD 1 0 then .error .invalid_dimension
         else .ok { t with a := { t.a with dims := d, vals := project c (d.getD 0 0) vals } })
      else if d != t.a.dims then .error .size_mismatch
      else .ok { t with a := { t.a with vals := project c (d.getD 0 0) vals } }

/-! ### active arrays: values and derivatives -/

def Der.ins (v : Nat) (c : Int) : Der → Der
  | [] => if c = 0 then [] else [(v, c)]
  | (w, e) :: r =>
    if v < w then (if c = 0 then (w, e) :: r else (v, c) :: (w, e) :: r)
    else if v = w then (if e + c = 0 then r else (w, e + c) :: r)
    else (w, e) :: Der.ins v c r

/-- `ca·a + cb·b` -/
def Der.lin (ca : Int) (a : Der) (cb : Int) (b : Der) : Der :=
  b.foldl (fun acc p => Der.ins p.1 (cb * p.2) acc) (a.foldl (fun acc p => Der.ins p.1 (ca * p.2) acc) [])

def Der.coef (d : Der) (v : Nat) : Int := (d.filter (·.1 = v)).foldl (fun s p => s + p.2) 0

/-- derivative rows of `x op y` -/
def exprDer (op : BinOp) (x y : AArr) : List Der :=
  (List.range x.a.vals.length).map fun t =>
    let dx := x.der.getD t []
    let dy := y.der.getD t []
    match op with
    | .add => Der.lin 1 dx 1 dy
    | .sub => Der.lin 1 dx (-1) dy
    | .mul => Der.lin (y.a.vals.getD t 0) dx (x.a.vals.getD t 0) dy

def freshAct (a : Arr) : AArr := { a := a, der := a.vals.map fun _ => [] }

/-- assignment to an active array: the tests of `assign`; an empty target gets new storage (it is no longer the object
    that was an input of the recording) -/
def assignA (t : AArr) (d : Option (List Nat)) (vals : List Int) (der : List Der) : Except Err AArr :=
  match assign t.a d vals with
  | .error e => .error e
  | .ok a => .ok (if t.a.isEmpty then { a := a, der := der } else { t with a := a, der := der })

/-- value and derivative of the reduction of a non-empty list (sum, product, minval, maxval) -/
def redListA (fn : RedFn) (vals : List Int) (der : List Der) : Int × Der :=
  match fn with
  | .product =>
    (List.range vals.length).foldl (fun (acc : Int × Der) i =>
      let v := vals.getD i 0
      (acc.1 * v, Der.lin v acc.2 acc.1 (der.getD i []))) (1, [])
  | .minval => let i := locList true vals; (vals.getD i 0, der.getD i [])
  | .maxval => let i := locList false vals; (vals.getD i 0, der.getD i [])
  | _ => (vals.foldl (· + ·) 0, der.foldl (fun acc d => Der.lin 1 acc 1 d) [])

/-- `reduce_active`: as `reduceWhole`; `mean` and `norm2` of a valid expression have non-integer derivatives and are
    outside the model -/
def reduceWholeA (fn : RedFn) (d : Option (List Nat)) (vals : List Int) (der : List Der) : Except Err (Int × Der) :=
  match d with
  | none => .error .size_mismatch
  | some d =>
    if fn == .mean || fn == .norm2 || fn.isBool then .error .unmodelled
    else if d.headD 0 == 0 then .ok (0, []) else .ok (redListA fn vals der)

/-- `reduce_dimension` for an active matrix expression (rank 2): the tests of `reduceDim` -/
def reduceDimA (fn : RedFn) (d : Option (List Nat)) (vals : List Int) (der : List Der) (dim : Int) :
    Except Err (List Nat × List (Int × Der)) :=
  match d with
  | none => .error .size_mismatch
  | some d =>
    if d.headD 0 == 0 then .ok ([0], [])
    else if dim < 0 ∨ dim ≥ 2 then .error .invalid_dimension
    else if fn == .mean || fn == .norm2 || fn.isBool then .error .unmodelled
    else
      let od := d.eraseIdx dim.toNat
      .ok (od, (List.range (prod od)).map fun t =>
        let ix := stripIdx d dim.toNat t
        redListA fn (ix.map fun i => vals.getD i 0) (ix.map fun i => der.getD i []))

/-! ### the operations of the protocol -/

inductive Item
  | s (v : Int)
  | a (h : Nat)
deriving Repr, DecidableEq

inductive Op
  | new (k : Nat) (dbl : Bool) (seed : Int) (dims : List Int)
  | resize (k : Nat) (seed : Int) (dims : List Int)
  | resized (k : Nat) (seed : Int) (dims : List Int)
  | asg (k i : Nat) (op : BinOp) (j : Nat)
  | cp (k i : Nat)
  | comp (k : Nat) (op : BinOp) (i : Nat)
  | whr (k m i : Nat)
  | fill (k : Nat) (items : List Item)
  | diag (k : Nat) (o : Int)
  | subdiag (k : Nat) (ib ie : Int)
  | inv (k : Nat)
  | link (k i : Nat)
  | matmul (k i j : Nat)
  | permute (k : Nat) (p0 p1 : Int)
  | get (k : Nat) (idx : List Int)
  | range (k : Nat) (b e : Int)
  | reshape (k : Nat) (r c : Int)
  | clear (k : Nat)
  -- expressions that are not assignments of a plain element-wise expression (passive dynamic arrays)
  | red (fn : RedFn) (i : Nat) (op : BinOp) (j : Nat)              -- fn(X op Y); all/any/count: fn(X > Y)
  | redd (fn : RedFn) (i : Nat) (op : BinOp) (j : Nat) (dim : Int) -- fn(X op Y, dim)
  | loc (isMin : Bool) (i : Nat) (op : BinOp) (j : Nat)            -- minloc / maxloc (X op Y)
  | find (i j : Nat)                                               -- find(X > Y)
  | dot (i j : Nat)                                                -- dot_product(X, Y)
  | outer (k i j z : Nat)                                          -- T = outer_product(X + Y, Z)
  | spread (k D i j : Nat) (n : Int)                               -- T = spread<D>(X + Y, n)
  | diagv (i j : Nat) (o : Int)                                    -- diag_vector(X + Y, o)
  | diagm (i j : Nat)                                              -- diag_matrix(X + Y)
  | whrx (k m1 m2 i j : Nat)                                       -- T.where(M1 > M2) = X + Y
  | eor (k m c d : Nat)                                            -- T.where(M > 0) = either_or(C, D)
  | solve (k i : Nat)                                              -- solve(A, b)
  -- FixedArray / SymmMatrix / TridiagMatrix
  | newS (k : Nat) (cls : SCls) (seed : Int) (dims : List Int)
  | resizeS (k : Nat) (seed : Int) (dims : List Int)
  | clearS (k : Nat)
  | linkS (k i : Nat)
  | subdiagS (k : Nat) (ib ie : Int)
  | diagF (k : Nat) (o : Int)
  | asgS (k i : Nat) (op : BinOp) (j : Nat)     -- special target; operands: Real arrays, or special matrices of its class
  | asgDS (k i : Nat) (op : BinOp) (j : Nat)    -- Real array target; operands: two special matrices, or (FixedArray, array)
  | cpS (k i : Nat)
  | cpDS (k i : Nat)
  | compS (k : Nat) (op : BinOp) (i : Nat)
  | whrF (k m i : Nat)
  -- active arrays
  | record
  | newA (k : Nat) (seed : Int) (dims : List Int)
  | resizeA (k : Nat) (seed : Int) (dims : List Int)
  | resizedA (k : Nat) (seed : Int) (dims : List Int)
  | clearA (k : Nat)
  | asgA (k i : Nat) (op : BinOp) (j : Nat)
  | cpA (k i : Nat)
  | compA (k : Nat) (op : BinOp) (i : Nat)
  | whrA (k m i : Nat)
  | reda (k : Nat) (fn : RedFn) (i : Nat) (op : BinOp) (j : Nat)                -- T = fn(X op Y)  (every element)
  | redda (k : Nat) (fn : RedFn) (i : Nat) (op : BinOp) (j : Nat) (dim : Int)   -- T = fn(X op Y, dim)
  | diagva (k i j : Nat) (o : Int)                                              -- T = diag_vector(X + Y, o)
  | jac (k i : Nat)                             -- d(elements of K) / d(variables of the input array I)
deriving Repr, DecidableEq

/-- what an operation shows besides the arrays involved: nothing, a view, or one element -/
inductive Out
  | none
  | view (v : View)
  | elem (x : Int)
  | num (x : Num)
  | nview (dims : List Nat) (vals : List Num)
deriving Repr, DecidableEq

abbrev Res := Except Err Out

def resolve (s : State) (rank : Nat) : List Item → Option (List Piece)
  | [] => some []
  | .s v :: is => (resolve s rank is).map (Piece.s v :: ·)
  | .a h :: is => match s.get? h with
    | some x => if x.rank ≤ rank then (resolve s rank is).map (Piece.a x :: ·) else none
    | none => none

/-- store the result of an array-valued operation, or hand back the pool untouched -/
def commit (s : State) (k : Nat) : Except Err Arr → State × Res
  | .ok a => (s.put k a, .ok .none)
  | .error e => (s, .error e)

def viewRes (s : State) : Except Err View → State × Res
  | .ok v => (s, .ok (.view v))
  | .error e => (s, .error e)


/-! ### the new operation kinds -/

def badOp (s : State) : State × Res := (s, .error .bad)

def commitS (s : State) (k : Nat) : Except Err SArr → State × Res
  | .ok a => (s.putS k a, .ok .none)
  | .error e => (s, .error e)

def commitA (s : State) (k : Nat) : Except Err AArr → State × Res
  | .ok a => (s.putA k a, .ok .none)
  | .error e => (s, .error e)

/-- which function / operator combinations the driver offers -/
def redOk (fn : RedFn) (op : BinOp) (x : Arr) : Bool :=
  (fn.isBool || op != .sub) && (x.dbl || !(fn == .mean || fn == .norm2))

def redRes (s : State) : Except Err RedOut → State × Res
  | .ok (.scalar x) => (s, .ok (.num x))
  | .ok (.arr d v) => (s, .ok (.nview d v))
  | .error e => (s, .error e)

def redVals (fn : RedFn) (op : BinOp) (x y : Arr) : List Int := if fn.isBool then gtVals x y else exprVals op x y

def recArr (nv : Nat) (a : AArr) : AArr :=
  { a with der := (List.range a.a.vals.length).map (fun i => [(nv + i, 1)]), inp := true,
           vars := (List.range a.a.vals.length).map (nv + ·) }

/-- `new_recording`: every element of every active array becomes a variable of the recording -/
def recAll : Nat → List (Nat × AArr) → Nat × List (Nat × AArr)
  | nv, [] => (nv, [])
  | nv, (k, a) :: r => let q := recAll (nv + a.a.vals.length) r; (q.1, (k, recArr nv a) :: q.2)

def whereAssignA (t m x : AArr) : Except Err AArr :=
  match whereAssign t.a m.a x.a with
  | .error e => .error e
  | .ok a =>
    let der := (List.range t.a.vals.length).map fun i => if (m.a.vals.getD i 0) > 0 then x.der.getD i [] else t.der.getD i []
    .ok { t with a := a, der := der }

def isNumFn (fn : RedFn) : Bool := !fn.isBool
def isIntFn (fn : RedFn) : Bool := fn == .sum || fn == .product || fn == .minval || fn == .maxval

/-- operands of an assignment to a special target `t`: two Real arrays of its rank, or two special matrices of its class -/
def specOperand (s : State) (t : SArr) (i : Nat) : Option Arr :=
  match s.get? i with
  | some x => if x.dbl && x.rank == t.a.rank then some x else none
  | none => match s.getS? i with
    | some x => if x.cls == t.cls && t.cls != .fix then some x.a else none
    | none => none

def step2 (s : State) : Op → State × Res
  | .red fn i op j => match s.get? i, s.get? j with
    | some x, some y =>
      if x.sameKind y && redOk fn op x then
        (match reduceWhole fn (exprDims x y) (redVals fn op x y) with
         | .ok v => (s, .ok (.num v))
         | .error e => (s, .error e))
      else badOp s
    | _, _ => badOp s
  | .redd fn i op j dim => match s.get? i, s.get? j with
    | some x, some y =>
      if x.sameKind y && redOk fn op x && !(fn.isBool && x.rank == 1) then
        redRes s (reduceDim fn x.rank (exprDims x y) (redVals fn op x y) dim)
      else badOp s
    | _, _ => badOp s
  | .loc isMin i op j => match s.get? i, s.get? j with
    | some x, some y =>
      if x.sameKind y && x.rank == 1 then
        (match locOp isMin (exprDims x y) (exprVals op x y) with
         | .ok v => (s, .ok (.elem v))
         | .error e => (s, .error e))
      else badOp s
    | _, _ => badOp s
  | .find i j => match s.get? i, s.get? j with
    | some x, some y => if x.sameKind y && x.rank == 1 then viewRes s (findOp x y) else badOp s
    | _, _ => badOp s
  | .dot i j => match s.get? i, s.get? j with
    | some x, some y =>
      if x.sameKind y && x.rank == 1 then
        (match dotOp x y with
         | .ok v => (s, .ok (.elem v))
         | .error e => (s, .error e))
      else badOp s
    | _, _ => badOp s
  | .outer k i j z => match s.get? k, s.get? i, s.get? j, s.get? z with
    | some t, some x, some y, some zz =>
      if t.rank == 2 && x.rank == 1 && x.sameKind y && x.sameKind zz && t.dbl == x.dbl then commit s k (outerOp t x y zz) else badOp s
    | _, _, _, _ => badOp s
  | .spread k D i j n => match s.get? k, s.get? i, s.get? j with
    | some t, some x, some y =>
      if x.sameKind y && (x.rank == 1 || x.rank == 2) && t.rank == x.rank + 1 && t.dbl == x.dbl && D ≤ x.rank then
        commit s k (spreadOp t x y D n)
      else badOp s
    | _, _, _ => badOp s
  | .diagv i j o => match s.get? i, s.get? j with
    | some x, some y => if x.sameKind y && x.rank == 2 then viewRes s (diagvOp x y o) else badOp s
    | _, _ => badOp s
  | .diagm i j => match s.get? i, s.get? j with
    | some x, some y => if x.sameKind y && x.rank == 1 then viewRes s (diagmOp x y) else badOp s
    | _, _ => badOp s
  | .whrx k m1 m2 i j => match s.get? k, s.get? m1, s.get? m2, s.get? i, s.get? j with
    | some t, some a1, some a2, some x, some y =>
      if t.sameKind a1 && t.sameKind a2 && t.sameKind x && t.sameKind y then commit s k (whereExpr t a1 a2 x y) else badOp s
    | _, _, _, _, _ => badOp s
  | .eor k m c d => match s.get? k, s.get? m, s.get? c, s.get? d with
    | some t, some mk, some cc, some dd =>
      if t.sameKind mk && t.sameKind cc && t.sameKind dd then
        match eitherOr t mk cc dd (m == k) (c == k) with
        | (t', none) => (s.put k t', .ok .none)
        | (t', some e) => (if t' = t then s else s.put k t', .error e)
      else badOp s
    | _, _, _, _ => badOp s
  | .solve k i => match s.get? k, s.get? i with
    | some a, some b =>
      if a.dbl && b.dbl && a.rank == 2 && (b.rank == 1 || b.rank == 2) then viewRes s (solveOp a b) else badOp s
    | _, _ => badOp s
  -- ------------------------------------------------------------ FixedArray / SymmMatrix / TridiagMatrix
  | .newS k cls seed dims =>
    match cls with
    | .fix =>
      if dims = [3] ∨ dims = [2, 3] then
        let d := dims.map Int.toNat
        (s.putS k ⟨.fix, ⟨true, d, pattern seed (prod d)⟩⟩, .ok .none)
      else badOp s
    | c =>
      if dims.length = 1 ∨ dims.length = 2 then
        match squareExtent dims with
        | .ok n => (s.putS k (freshSpec c seed n), .ok .none)
        | .error e => (s, .error e)
      else badOp s
  | .resizeS k seed dims => match s.getS? k with
    | some t =>
      if t.cls != .fix && (dims.length = 1 ∨ dims.length = 2) then
        match squareExtent dims with
        | .ok n => (s.putS k (freshSpec t.cls seed n), .ok .none)
        | .error e => (s, .error e)
      else badOp s
    | none => badOp s
  | .clearS k => match s.getS? k with
    | some t => if t.cls != .fix then (s.putS k ⟨t.cls, ⟨true, [0, 0], []⟩⟩, .ok .none) else badOp s
    | none => badOp s
  | .linkS k i => match s.getS? k, s.getS? i with
    | some t, some x =>
      if t.cls == x.cls && t.cls != .fix then
        (if x.a.isEmpty then (s, .error .empty_array) else (s.putS k x, .ok .none))
      else badOp s
    | _, _ => badOp s
  | .subdiagS k ib ie => match s.getS? k with
    | some t => if t.a.rank == 2 then viewRes s (subDiag t.a ib ie) else badOp s
    | none => badOp s
  | .diagF k o => match s.getS? k with
    | some t => if t.cls == .fix && t.a.rank == 2 then viewRes s (diagVector t.a o) else badOp s
    | none => badOp s
  | .asgS k i op j => match s.getS? k with
    | some t =>
      (match specOperand s t i, specOperand s t j with
       | some x, some y =>
         if (s.get? i).isSome == (s.get? j).isSome then commitS s k (assignS t (exprDims x y) (exprVals op x y)) else badOp s
       | _, _ => badOp s)
    | none => badOp s
  | .asgDS k i op j => match s.get? k with
    | some t =>
      (match s.getS? i with
       | some x =>
         if x.cls == .fix then
           (match s.get? j with
            | some y => if t.dbl && y.dbl && t.rank == x.a.rank && y.rank == x.a.rank then
                commit s k (assign t (exprDims x.a y) (exprVals op x.a y)) else badOp s
            | none => badOp s)
         else
           (match s.getS? j with
            | some y => if t.dbl && t.rank == 2 && x.cls == y.cls then
                commit s k (assign t (exprDims x.a y.a) (exprVals op x.a y.a)) else badOp s
            | none => badOp s)
       | none => badOp s)
    | none => badOp s
  | .cpS k i => match s.getS? k with
    | some t => (match specOperand s t i with
      | some x => commitS s k (assignS t (some x.dims) x.vals)
      | none => badOp s)
    | none => badOp s
  | .cpDS k i => match s.get? k, s.getS? i with
    | some t, some x =>
      if t.dbl && t.rank == 2 && x.cls != .fix then commit s k (assign t (some x.a.dims) x.a.vals) else badOp s
    | _, _ => badOp s
  | .compS k op i => match s.getS? k with
    | some t => (match specOperand s t i with
      | some x => commitS s k (assignS t (exprDims t.a x) (exprVals op t.a x))
      | none => badOp s)
    | none => badOp s
  | .whrF k m i => match s.getS? k, s.get? m, s.get? i with
    | some t, some mk, some x =>
      if t.cls == .fix && mk.dbl && x.dbl && mk.rank == t.a.rank && x.rank == t.a.rank then
        (match whereAssign t.a mk x with
         | .ok a => (s.putS k { t with a := a }, .ok .none)
         | .error e => (s, .error e))
      else badOp s
    | _, _, _ => badOp s
  -- ------------------------------------------------------------ active arrays
  | .record => let q := recAll s.nvar s.acts; ({ s with acts := q.2, nvar := q.1 }, .ok .none)
  | .newA k seed dims =>
    if dims.length = 1 ∨ dims.length = 2 then
      match newArr true seed dims with
      | .ok a => (s.putA k (freshAct a), .ok .none)
      | .error e => (s, .error e)
    else badOp s
  | .resizeA k seed dims => match s.getA? k with
    | some t => if dims.length = t.a.rank then
        (match resizeInt t.a seed dims with
         | .ok a => (s.putA k (freshAct a), .ok .none)
         | .error e => (s, .error e))
      else badOp s
    | none => badOp s
  | .resizedA k seed dims => match s.getA? k with
    | some t => if dims.length = t.a.rank then
        (match resizeDims t.a seed dims with
         | .ok a => (s.putA k (freshAct a), .ok .none)
         | .error e => (s, .error e))
      else badOp s
    | none => badOp s
  | .clearA k => match s.getA? k with
    | some t => (s.putA k (freshAct ⟨true, List.replicate t.a.rank 0, []⟩), .ok .none)
    | none => badOp s
  | .asgA k i op j => match s.getA? k, s.getA? i, s.getA? j with
    | some t, some x, some y =>
      if t.a.sameKind x.a && t.a.sameKind y.a then
        commitA s k (assignA t (exprDims x.a y.a) (exprVals op x.a y.a) (exprDer op x y))
      else badOp s
    | _, _, _ => badOp s
  | .cpA k i => match s.getA? k, s.getA? i with
    | some t, some x => if t.a.sameKind x.a then commitA s k (assignA t (some x.a.dims) x.a.vals x.der) else badOp s
    | _, _ => badOp s
  | .compA k op i => match s.getA? k, s.getA? i with
    | some t, some x =>
      if t.a.sameKind x.a then commitA s k (assignA t (exprDims t.a x.a) (exprVals op t.a x.a) (exprDer op t x)) else badOp s
    | _, _ => badOp s
  | .whrA k m i => match s.getA? k, s.getA? m, s.getA? i with
    | some t, some mk, some x =>
      if t.a.sameKind x.a && t.a.sameKind mk.a then commitA s k (whereAssignA t mk x) else badOp s
    | _, _, _ => badOp s
  | .reda k fn i op j => match s.getA? k, s.getA? i, s.getA? j with
    | some t, some x, some y =>
      if x.a.sameKind y.a && isNumFn fn && op != .sub then
        match reduceWholeA fn (exprDims x.a y.a) (exprVals op x.a y.a) (exprDer op x y) with
        | .ok r => (s.putA k { t with a := { t.a with vals := t.a.vals.map fun _ => r.1 }, der := t.a.vals.map fun _ => r.2 }, .ok .none)
        | .error e => (s, .error e)
      else badOp s
    | _, _, _ => badOp s
  | .redda k fn i op j dim => match s.getA? k, s.getA? i, s.getA? j with
    | some t, some x, some y =>
      if t.a.rank == 1 && x.a.rank == 2 && y.a.rank == 2 && isIntFn fn && op == .add then
        match reduceDimA fn (exprDims x.a y.a) (exprVals op x.a y.a) (exprDer op x y) dim with
        | .error e => (s, .error e)
        | .ok r => (match assign t.a (some r.1) (r.2.map (·.1)) with
          | .error e => (s, .error e)
          -- the temporary is move-assigned: the target may take over its storage, so it is no longer an input
          | .ok a => (s.putA k { a := a, der := r.2.map (·.2) }, .ok .none))
      else badOp s
    | _, _, _ => badOp s
  | .diagva k i j o => match s.getA? k, s.getA? i, s.getA? j with
    | some t, some x, some y =>
      if t.a.rank == 1 && x.a.rank == 2 && y.a.rank == 2 then
        match diagvOp x.a y.a o with
        | .error e => (s, .error e)
        | .ok v =>
          let ix := diagIdx (x.a.dims.getD 1 0) o (v.1.headD 0)
          let dr := exprDer .add x y
          (match assign t.a (some v.1) v.2 with
           | .error e => (s, .error e)
           | .ok a => (s.putA k { a := a, der := ix.map fun q => dr.getD q [] }, .ok .none))
      else badOp s
    | _, _, _ => badOp s
  | .jac k i => match s.getA? k, s.getA? i with
    | some t, some x =>
      if !x.inp || x.a.isEmpty || t.a.isEmpty then (s, .error .unmodelled)
      else (s, .ok (.view ([t.a.vals.length, x.vars.length], t.der.flatMap fun row => x.vars.map (Der.coef row))))
    | _, _ => badOp s
  | _ => badOp s

def step (s : State) : Op → State × Res
  | .new k dbl seed dims =>
    if 1 ≤ dims.length ∧ dims.length ≤ 4 then commit s k (newArr dbl seed dims) else (s, .error .bad)
  | .resize k seed dims => match s.get? k with
    | some t => if dims.length = t.rank then commit s k (resizeInt t seed dims) else (s, .error .bad)
    | none => (s, .error .bad)
  | .resized k seed dims => match s.get? k with
    | some t => if dims.length = t.rank then commit s k (resizeDims t seed dims) else (s, .error .bad)
    | none => (s, .error .bad)
  | .asg k i op j => match s.get? k, s.get? i, s.get? j with
    | some t, some x, some y =>
      if t.sameKind x && t.sameKind y then commit s k (assign t (exprDims x y) (exprVals op x y)) else (s, .error .bad)
    | _, _, _ => (s, .error .bad)
  | .cp k i => match s.get? k, s.get? i with
    | some t, some x => if t.sameKind x then commit s k (assign t (some x.dims) x.vals) else (s, .error .bad)
    | _, _ => (s, .error .bad)
  | .comp k op i => match s.get? k, s.get? i with
    -- `a op= b` is `a = noalias(a op b)`
    | some t, some x =>
      if t.sameKind x then commit s k (assign t (exprDims t x) (exprVals op t x)) else (s, .error .bad)
    | _, _ => (s, .error .bad)
  | .whr k m i => match s.get? k, s.get? m, s.get? i with
    | some t, some mk, some x =>
      if t.sameKind x && t.rank == mk.rank then commit s k (whereAssign t mk x) else (s, .error .bad)
    | _, _, _ => (s, .error .bad)
  | .fill k items => match s.get? k with
    | some t => match resolve s t.rank items with
      | some ps => if ps = [] then (s, .error .bad) else
        match fill t ps with
        | (t', none) => (s.put k t', .ok .none)
        | (t', some e) => (if t' = t then s else s.put k t', .error e)
      | none => (s, .error .bad)
    | none => (s, .error .bad)
  | .diag k o => match s.get? k with
    | some t => if t.rank = 2 then viewRes s (diagVector t o) else (s, .error .bad)
    | none => (s, .error .bad)
  | .subdiag k ib ie => match s.get? k with
    | some t => if t.rank = 2 then viewRes s (subDiag t ib ie) else (s, .error .bad)
    | none => (s, .error .bad)
  | .inv k => match s.get? k with
    | some t => if t.rank = 2 ∧ t.dbl then viewRes s (invMat t) else (s, .error .bad)
    | none => (s, .error .bad)
  | .link k i => match s.get? k, s.get? i with
    -- `a.link(b)`: `!b.data()` ⇒ `empty_array` before `a` is cleared; the harness then detaches `a` again
    -- (deep copy), so the pool holds no shared data
    | some t, some x =>
      if t.sameKind x then (if x.isEmpty then (s, .error .empty_array) else (s.put k x, .ok .none)) else (s, .error .bad)
    | _, _ => (s, .error .bad)
  | .matmul k i j => match s.get? k, s.get? i, s.get? j with
    | some t, some x, some y =>
      if t.dbl && x.dbl && y.dbl && x.rank + y.rank > 2 && x.rank ≤ 2 && y.rank ≤ 2 && 1 ≤ x.rank && 1 ≤ y.rank
          && t.rank + 2 == x.rank + y.rank then
        match matmulDims x y with
        | .error e => (s, .error e)
        | .ok d => commit s k (assign t (some d) (matmulVals x y))
      else (s, .error .bad)
    | _, _, _ => (s, .error .bad)
  | .permute k p0 p1 => match s.get? k with
    | some t => if t.rank = 2 then viewRes s (permute2 t p0 p1) else (s, .error .bad)
    | none => (s, .error .bad)
  | .get k idx => match s.get? k with
    | some t => if idx.length = t.rank then
        (match getElem s.bounds t idx with
         | .ok x => (s, .ok (.elem x))
         | .error e => (s, .error e))
      else (s, .error .bad)
    | none => (s, .error .bad)
  | .range k b e => match s.get? k with
    | some t => if t.rank = 1 then viewRes s (rangeView s.bounds t b e) else (s, .error .bad)
    | none => (s, .error .bad)
  | .reshape k r c => match s.get? k with
    | some t => if t.rank = 1 then viewRes s (reshape2 t r c) else (s, .error .bad)
    | none => (s, .error .bad)
  | .clear k => match s.get? k with
    | some t => (s.put k ⟨t.dbl, List.replicate t.rank 0, []⟩, .ok .none)
    | none => (s, .error .bad)
  | o => step2 s o

end Adept.Misuse
