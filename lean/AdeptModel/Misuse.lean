/-
C11, part B — array operations that the manual documents as raising an exception when misused, over a pool of
passive `Array<1|2, int|Real>` objects (`intVector`, `intMatrix`, `Vector`, `Matrix`).

An array is its extents and its logical content in row-major index order (what `operator()` shows), so the
model is independent of strides, padding and storage order.  Every operation returns the new pool *and*
`Except Err Out`: an operation that fails returns the pool it was given, except `fill` (`a << v1, v2, …`), whose
documented partial effect — the elements written before the exception stay written — is returned explicitly.

Transcribed (code-shaped, tests in the order the C++ makes them) from
  include/adept/Array.h       constructors, resize(const Index*), resize(Index,…), operator=(const Expression&),
                              operator+= …, where()/assign_conditional, diag_vector, submatrix_on_diagonal, link,
                              permute, reshape, operator()(int…), operator()(range)
  include/adept/ExpressionSize.h   compatible
  include/adept/BinaryOperation.h  get_dimensions_ (my_get_dimensions<true,true>)
  include/adept/Allocator.h   operator<<(Array&,E), Allocator<Rank,A>::operator<< (scalar / expression), complete_row
  include/adept/matmul.h      check_inner_dimensions, matmul_ (2,1) (2,2) (1,2)
  include/adept/RangeIndex.h  get_index_with_len (ADEPT_BOUNDS_CHECKING)
  adept/inv.cpp               inv(const Array<2,Type,false>&)  (the non-square test only; see `Op.inv`)
Core Lean only.
-/
namespace Adept.Misuse

inductive Err
  | size_mismatch | inner_dimension_mismatch | empty_array | invalid_dimension | index_out_of_bounds
  | invalid_operation
  | bad          -- not an operation of the protocol (unknown handle, wrong rank or element type): `bad-op`
  | unmodelled   -- well-formed, but outside what this model describes (the generator never produces it)
  | wild         -- a store outside the allocated memory (modelled fault; the theorems show it cannot occur)
deriving Repr, DecidableEq

def Err.name : Err → String
  | .size_mismatch => "size_mismatch"
  | .inner_dimension_mismatch => "inner_dimension_mismatch"
  | .empty_array => "empty_array"
  | .invalid_dimension => "invalid_dimension"
  | .index_out_of_bounds => "index_out_of_bounds"
  | .invalid_operation => "invalid_operation"
  | .bad => "bad-op"
  | .unmodelled => "unmodelled"
  | .wild => "WILD-ACCESS"

structure Arr where
  dbl : Bool                -- element type Real (true) or int (false)
  dims : List Nat           -- extents; length = rank (1 or 2); the empty array has every extent 0
  vals : List Int           -- logical content, row-major index order; length = product of the extents
deriving Repr, DecidableEq

structure State where
  bounds : Bool := false    -- built with ADEPT_BOUNDS_CHECKING
  arrs : List (Nat × Arr) := []
deriving Repr, DecidableEq

def State.get? (s : State) (k : Nat) : Option Arr := (s.arrs.find? (·.1 = k)).map (·.2)
def State.put (s : State) (k : Nat) (a : Arr) : State :=
  { s with arrs := (k, a) :: s.arrs.filter (·.1 ≠ k) }

def Arr.rank (a : Arr) : Nat := a.dims.length
/-- `Array::empty()`: `dimensions_[0] == 0` -/
def Arr.isEmpty (a : Arr) : Bool := a.dims.headD 0 == 0
def prod (ds : List Nat) : Nat := ds.foldl (· * ·) 1
def Arr.sameKind (a b : Arr) : Bool := a.dbl == b.dbl && a.rank == b.rank

/-- the harness fills freshly allocated (uninitialised) storage with this pattern -/
def pattern (seed : Int) (n : Nat) : List Int := (List.range n).map fun (t : Nat) => (seed + 3 * Int.ofNat t) % 7 - 3

/-! ### creation and resizing -/

/-- the loop of `Array::resize(const Index* dim)`: a negative extent raises `invalid_dimension` *before* anything is
    released; the first zero extent clears the array (`none`) without looking at the later ones -/
def resizeLoop : List Int → Except Err (Option (List Nat))
  | [] => .ok (some [])
  | d :: ds =>
    if d < 0 then .error .invalid_dimension
    else if d = 0 then .ok none
    else match resizeLoop ds with
      | .error e => .error e
      | .ok none => .ok none
      | .ok (some r) => .ok (some (d.toNat :: r))

/-- the array `resize` leaves: cleared, or the new extents with fresh storage (filled by the harness) -/
def resizedArr (dbl : Bool) (rank : Nat) (seed : Int) : Option (List Nat) → Arr
  | none => ⟨dbl, List.replicate rank 0, []⟩
  | some ds => ⟨dbl, ds, pattern seed (prod ds)⟩

/-- `Array(m0[,m1])` → `resize_<Rank>` → `resize(dim)`; an exception leaves no object -/
def newArr (dbl : Bool) (seed : Int) (dims : List Int) : Except Err Arr :=
  match resizeLoop dims with
  | .error e => .error e
  | .ok r => .ok (resizedArr dbl dims.length seed r)

/-- `resize(Index m0, Index m1 = -1, …)`: every extent is validated first -/
def resizeInt (a : Arr) (seed : Int) (dims : List Int) : Except Err Arr :=
  if dims.any (· < 0) then .error .invalid_dimension
  else match resizeLoop dims with
    | .error e => .error e
    | .ok r => .ok (resizedArr a.dbl a.rank seed r)

/-- `resize(const ExpressionSize<Rank>&)`, `resize_row_major`, `resize_column_major` -/
def resizeDims (a : Arr) (seed : Int) (dims : List Int) : Except Err Arr :=
  match resizeLoop dims with
  | .error e => .error e
  | .ok r => .ok (resizedArr a.dbl a.rank seed r)

/-! ### element-wise expressions and assignment -/

inductive BinOp | add | sub | mul
deriving Repr, DecidableEq

def BinOp.ap : BinOp → Int → Int → Int
  | .add, x, y => x + y
  | .sub, x, y => x - y
  | .mul, x, y => x * y

/-- `BinaryOperation::get_dimensions_` for two array operands: `left.get_dimensions(dim) &&
    right.get_dimensions(right_dim) && compatible(dim, right_dim)`; `none` = the expression is invalid -/
def exprDims (x y : Arr) : Option (List Nat) := if x.dims == y.dims then some x.dims else none

def exprVals (op : BinOp) (x y : Arr) : List Int := List.zipWith op.ap x.vals y.vals

/-- `Array::operator=(const Expression&)`: (1) invalid expression ⇒ `size_mismatch`; (2) empty target ⇒ resized
    to the expression; (3) extents differ ⇒ `size_mismatch`; (4) element-wise copy.  The target is not touched
    before the tests have passed. -/
def assign (t : Arr) (d : Option (List Nat)) (vals : List Int) : Except Err Arr :=
  match d with
  | none => .error .size_mismatch
  | some d =>
    if t.isEmpty then .ok { t with dims := d, vals := vals }
    else if d != t.dims then .error .size_mismatch
    else .ok { t with vals := vals }

/-- `a.where(m > 0) = x`: `where()` compares the extents of the mask with the target's (`dims != dimensions_`),
    `assign_conditional` those of the right-hand side; an empty target is left alone -/
def whereAssign (t m x : Arr) : Except Err Arr :=
  if m.dims != t.dims then .error .size_mismatch
  else if x.dims != t.dims then .error .size_mismatch
  else if t.isEmpty then .ok t
  else .ok { t with vals := List.zipWith (fun tv mx => if mx.1 > 0 then mx.2 else tv) t.vals (List.zip m.vals x.vals) }

/-! ### filling with `<<` (Allocator.h) -/

/-- an object on the right of `<<`: a scalar or an array (rank ≤ rank of the target) -/
inductive Piece
  | s (v : Int)
  | a (x : Arr)
deriving Repr, DecidableEq

/-- `Allocator<1,A>`: `coords_[0]`; `obj_size_` is an `ExpressionSize<0>` and plays no role -/
structure Al1 where
  vals : List Int
  c : Nat
deriving Repr, DecidableEq

/-- elements `at_ … at_ + xs.length − 1` of the target's memory are overwritten with `xs` -/
def writeRun (vals : List Int) (at_ : Nat) (xs : List Int) : List Int :=
  (List.range xs.length).foldl (fun v t => v.set (at_ + t) (xs.getD t 0)) vals

/-- the same write as the machine performs it: an index at or beyond the allocated length is a fault (`none`),
    not a silently dropped store -/
def writeRunChk (vals : List Int) (at_ : Nat) (xs : List Int) : Option (List Int) :=
  if at_ + xs.length ≤ vals.length then some (writeRun vals at_ xs) else none

/-- one `<< piece` into a vector of length `n`; an exception leaves the allocator (and the elements written so far)
    as it is; `Err.wild` = the store would have gone outside the allocated memory -/
def al1Step (n : Nat) (al : Al1) : Piece → Al1 × Option Err
  | .s v =>
    if al.c ≥ n then (al, some .index_out_of_bounds)                 -- complete_row<1>()
    else match writeRunChk al.vals al.c [v] with
      | some vals' => ({ vals := vals', c := al.c + 1 }, none)
      | none => (al, some .wild)
  | .a x =>
    if x.isEmpty then (al, none)                                       -- an empty object contributes nothing
    else if al.c ≥ n then (al, some .index_out_of_bounds)             -- complete_row<1>()
    else if al.c + x.vals.length > n then (al, some .index_out_of_bounds)   -- the fit test
    else match writeRunChk al.vals al.c x.vals with
      | some vals' => ({ vals := vals', c := al.c + x.vals.length }, none)
      | none => (al, some .wild)

/-- `Allocator<2,A>` for an `R × C` target: `coords_ = (r, c)`, `obj_size_[0] = obj` -/
structure Al2 where
  vals : List Int
  r : Nat
  c : Nat
  obj : Nat
deriving Repr, DecidableEq

/-- `complete_row<2>()`: move to the next row of objects or raise; `obj_size_.set_all(0)` -/
def al2CompleteRow (R : Nat) (al : Al2) : Except Err Al2 :=
  if al.r + al.obj < R then .ok { al with r := al.r + al.obj, c := 0, obj := 0 }
  else .error .index_out_of_bounds

/-- write the `p × q` block `xs` (row-major) with its corner at `(r, c)` of an array with rows of length `C`;
    `none` = some store would have gone outside the allocated memory -/
def writeBlockChk (C : Nat) (vals : List Int) (r c q : Nat) : Nat → List Int → Option (List Int)
  | 0, _ => some vals
  | p + 1, xs => match writeRunChk vals (r * C + c) (xs.take q) with
    | none => none
    | some v' => writeBlockChk C v' (r + 1) c q p (xs.drop q)

/-- what the allocator needs to know of a piece: its rows and columns, the leading extent `partial_copy` derives from
    it, whether it is a scalar (the scalar overload of `operator<<`) and whether it is a rank-2 object (only then does
    the fit test look at the rows) -/
structure Shape where
  p : Nat
  q : Nat
  lead : Nat
  scalar : Bool
  mat : Bool
deriving Repr, DecidableEq

def Piece.shape : Piece → Shape
  | .s _ => ⟨1, 1, 1, true, false⟩
  | .a x => match x.dims with
    | [m] => ⟨1, m, 1, false, false⟩        -- a rank-1 object is a row; partial_copy gives leading extent 1
    | [p, q] => ⟨p, q, p, false, true⟩
    | _ => ⟨0, 0, 0, false, false⟩

def Piece.elems : Piece → List Int
  | .s v => [v]
  | .a x => x.vals

/-- `if (coords_[1] == 0) partial_copy(xx.dimensions(), obj_size_)`: the first object of a row fixes the leading extent -/
def Al2.withLead (a : Al2) (lead : Nat) : Al2 := if a.c = 0 then { a with obj := lead } else a

/-- everything `operator<<` does before it stores: row completion, the test that the objects on one row have the
    same leading extent, the fit test.  Returns the allocator positioned at the corner of the piece. -/
def al2Place (R C : Nat) (al : Al2) (sh : Shape) : Except Err Al2 :=
  if sh.scalar then
    -- if (coords_[1] >= size_[1]) { complete_row(); obj_size_.set_all(1); }
    -- else if (coords_[1] == 0) obj_size_ = scalar_size_; else if (obj_size_ != scalar_size_) throw
    if al.c ≥ C then (match al2CompleteRow R al with
      | .ok a => .ok { a with obj := 1 }
      | .error e => .error e)
    else if al.c = 0 then .ok { al with obj := 1 }
    else if al.obj ≠ 1 then .error .index_out_of_bounds
    else .ok al
  else
    match (if al.c ≥ C then al2CompleteRow R al else .ok al) with
    | .error e => .error e
    | .ok a =>
      -- if (coords_[1] == 0) obj_size_ = leading; else if (obj_size_ != leading) throw
      if a.c ≠ 0 ∧ a.obj ≠ sh.lead then .error .index_out_of_bounds
      -- the fit test: every extent of the object must lie inside the target from the current position
      else if sh.mat ∧ a.r + sh.p > R then .error .index_out_of_bounds
      else if a.c + sh.q > C then .error .index_out_of_bounds
      else .ok (a.withLead sh.lead)

/-- place, then store the block and advance `coords_[1]`; an exception leaves everything written so far -/
def al2Put (R C : Nat) (al : Al2) (sh : Shape) (xs : List Int) : Al2 × Option Err :=
  match al2Place R C al sh with
  | .error e => (al, some e)
  | .ok a => match writeBlockChk C a.vals a.r a.c sh.q sh.p xs with
    | some vals' => ({ a with vals := vals', c := a.c + sh.q }, none)
    | none => (al, some .wild)

def al2Step (R C : Nat) (al : Al2) (pc : Piece) : Al2 × Option Err :=
  match pc with
  | .s _ => al2Put R C al pc.shape pc.elems
  | .a x => if x.isEmpty then (al, none) else al2Put R C al pc.shape pc.elems

def al1Run (n : Nat) (al : Al1) : List Piece → Al1 × Option Err
  | [] => (al, none)
  | p :: ps => match al1Step n al p with
    | (al', none) => al1Run n al' ps
    | (al', some e) => (al', some e)

def al2Run (R C : Nat) (al : Al2) : List Piece → Al2 × Option Err
  | [] => (al, none)
  | p :: ps => match al2Step R C al p with
    | (al', none) => al2Run R C al' ps
    | (al', some e) => (al', some e)

/-- `t << p1 << p2 …`: an empty target raises `empty_array` before anything else; otherwise the pieces are placed one
    after the other and the first that does not fit raises `index_out_of_bounds`, the earlier ones staying written -/
def fill (t : Arr) (ps : List Piece) : Arr × Option Err :=
  if t.isEmpty then (t, some .empty_array)
  else match t.dims with
    | [n] => let r := al1Run n ⟨t.vals, 0⟩ ps; ({ t with vals := r.1.vals }, r.2)
    | [R, C] => let r := al2Run R C ⟨t.vals, 0, 0, 0⟩ ps; ({ t with vals := r.1.vals }, r.2)
    | _ => (t, some .bad)

/-! ### views that need a square / non-empty / in-range argument -/

def at2 (a : Arr) (i j : Nat) : Int := a.vals.getD (i * a.dims.getD 1 0 + j) 0

/-- result of a view-returning member function: extents and logical content -/
abbrev View := List Nat × List Int

/-- `Matrix::diag_vector(offdiag)`: empty ⇒ empty vector; non-square ⇒ `invalid_operation`; a diagonal beyond the
    last one would have a negative length ⇒ `invalid_dimension` (raised by the view constructor) -/
def diagVector (a : Arr) (o : Int) : Except Err View :=
  if a.isEmpty then .ok ([0], [])
  else
    let n := a.dims.getD 0 0
    if n ≠ a.dims.getD 1 0 then .error .invalid_operation
    else
      let len : Int := if o ≥ 0 then min (n : Int) ((n : Int) - o) else min ((n : Int) + o) n
      if len < 0 then .error .invalid_dimension
      else .ok ([len.toNat], (List.range len.toNat).map fun i =>
        if o ≥ 0 then at2 a i (i + o.toNat) else at2 a (i + (-o).toNat) i)

/-- `Matrix::submatrix_on_diagonal(ibegin, iend)` -/
def subDiag (a : Arr) (ib ie : Int) : Except Err View :=
  let n := a.dims.getD 0 0
  if n ≠ a.dims.getD 1 0 then .error .invalid_operation
  else if ib < 0 ∨ ib > ie ∨ ie ≥ (n : Int) then .error .index_out_of_bounds
  else
    let len := (ie - ib + 1).toNat
    .ok ([len, len], (List.range (len * len)).map fun t => at2 a (ib.toNat + t / len) (ib.toNat + t % len))

/-- `Matrix::permute(i0, i1)`: a missing argument (−1) ⇒ `invalid_dimension`; then `permute(const Index*)`:
    empty ⇒ `empty_array`; out of range ⇒ `invalid_dimension`; repeated ⇒ `invalid_dimension` -/
def permute2 (a : Arr) (p0 p1 : Int) : Except Err View :=
  if p0 = -1 ∨ p1 = -1 then .error .invalid_dimension
  else if a.isEmpty then .error .empty_array
  else if ¬ (0 ≤ p0 ∧ p0 < 2 ∧ 0 ≤ p1 ∧ p1 < 2) then .error .invalid_dimension
  else if p0 = p1 then .error .invalid_dimension
  else
    let R := a.dims.getD 0 0
    let C := a.dims.getD 1 0
    if p0 = 0 then .ok ([R, C], a.vals)
    else .ok ([C, R], (List.range (C * R)).map fun t => at2 a (t % R) (t / R))

/-- `inv(A)`: a non-square matrix ⇒ `invalid_operation` (tested first).  Of the success path only what needs no
    arithmetic is modelled: a matrix with exactly one entry ±1 in every row and column has its transpose as inverse. -/
def isSignedPerm (a : Arr) : Bool :=
  let n := a.dims.getD 0 0
  (List.range n).all fun i =>
    ((List.range n).filter fun j => at2 a i j ≠ 0).length == 1 &&
    ((List.range n).filter fun j => at2 a j i ≠ 0).length == 1 &&
    (List.range n).all fun j => at2 a i j == 0 || at2 a i j == 1 || at2 a i j == -1

def invMat (a : Arr) : Except Err View :=
  let n := a.dims.getD 0 0
  if n ≠ a.dims.getD 1 0 then .error .invalid_operation
  else if a.isEmpty then .error .unmodelled
  else if isSignedPerm a then .ok ([n, n], (List.range (n * n)).map fun t => at2 a (t % n) (t / n))
  else .error .unmodelled

/-- `check_inner_dimensions` + the extents of the product; `(2,1)`, `(2,2)` as coded, `(1,2)` is
    `matmul_(right.T(), left)`.  The emptiness test comes first. -/
def matmulDims (x y : Arr) : Except Err (List Nat) :=
  let (l1, r0, out) : Nat × Nat × List Nat := match x.dims, y.dims with
    | [m, k], [k'] => (k, k', [m])
    | [m, k], [k', n] => (k, k', [m, n])
    | [k], [k', n] => (k, k', [n])
    | _, _ => (0, 0, [])
  if x.isEmpty || y.isEmpty then .error .empty_array
  else if l1 ≠ r0 then .error .inner_dimension_mismatch
  else .ok out

def matmulVals (x y : Arr) : List Int :=
  match x.dims, y.dims with
  | [m, k], [_] => (List.range m).map fun i => ((List.range k).map fun t => at2 x i t * y.vals.getD t 0).foldl (· + ·) 0
  | [m, k], [_, n] => (List.range (m * n)).map fun e =>
      ((List.range k).map fun t => at2 x (e / n) t * at2 y t (e % n)).foldl (· + ·) 0
  | [k], [_, n] => (List.range n).map fun j => ((List.range k).map fun t => x.vals.getD t 0 * at2 y t j).foldl (· + ·) 0
  | _, _ => []

/-- `get_index_with_len` under ADEPT_BOUNDS_CHECKING, one index after the other -/
def getElem (bounds : Bool) (a : Arr) (idx : List Int) : Except Err Int :=
  let inRange := (List.zip idx a.dims).all fun p => 0 ≤ p.1 && p.1 < (p.2 : Int)
  if !inRange then (if bounds then .error .index_out_of_bounds else .error .unmodelled)
  else match idx, a.dims with
    | [i], [_] => .ok (a.vals.getD i.toNat 0)
    | [i, j], [_, _] => .ok (at2 a i.toNat j.toNat)
    | _, _ => .error .bad

/-- `v(range(b, e))` on a vector: with bounds checking both ends must be valid indices; a reversed range would
    have a negative length ⇒ `invalid_dimension` (view constructor) -/
def rangeView (bounds : Bool) (a : Arr) (b e : Int) : Except Err View :=
  let n : Int := a.dims.getD 0 0
  if ¬ (0 ≤ b ∧ b < n ∧ 0 ≤ e ∧ e < n) then (if bounds then .error .index_out_of_bounds else .error .unmodelled)
  else if e - b + 1 < 0 then .error .invalid_dimension
  else .ok ([(e - b + 1).toNat], (a.vals.drop b.toNat).take (e - b + 1).toNat)

/-- `v.reshape(r, c)`: the product must be the length of the vector, and no extent may be negative -/
def reshape2 (a : Arr) (r c : Int) : Except Err View :=
  if r * c ≠ (a.dims.getD 0 0 : Int) then .error .invalid_dimension
  else if r < 0 ∨ c < 0 then .error .invalid_dimension
  else .ok ([r.toNat, c.toNat], a.vals)

/-! ### the operations of the protocol -/

inductive Item
  | s (v : Int)
  | a (h : Nat)
deriving Repr, DecidableEq

inductive Op
  | new (k : Nat) (dbl : Bool) (seed : Int) (dims : List Int)
  | resize (k : Nat) (seed : Int) (dims : List Int)
  | resized (k : Nat) (seed : Int) (dims : List Int)
  | asg (k i : Nat) (op : BinOp) (j : Nat)
  | cp (k i : Nat)
  | comp (k : Nat) (op : BinOp) (i : Nat)
  | whr (k m i : Nat)
  | fill (k : Nat) (items : List Item)
  | diag (k : Nat) (o : Int)
  | subdiag (k : Nat) (ib ie : Int)
  | inv (k : Nat)
  | link (k i : Nat)
  | matmul (k i j : Nat)
  | permute (k : Nat) (p0 p1 : Int)
  | get (k : Nat) (idx : List Int)
  | range (k : Nat) (b e : Int)
  | reshape (k : Nat) (r c : Int)
  | clear (k : Nat)
deriving Repr, DecidableEq

/-- what an operation shows besides the arrays involved: nothing, a view, or one element -/
inductive Out
  | none
  | view (v : View)
  | elem (x : Int)
deriving Repr, DecidableEq

abbrev Res := Except Err Out

def resolve (s : State) (rank : Nat) : List Item → Option (List Piece)
  | [] => some []
  | .s v :: is => (resolve s rank is).map (Piece.s v :: ·)
  | .a h :: is => match s.get? h with
    | some x => if x.rank ≤ rank then (resolve s rank is).map (Piece.a x :: ·) else none
    | none => none

/-- store the result of an array-valued operation, or hand back the pool untouched -/
def commit (s : State) (k : Nat) : Except Err Arr → State × Res
  | .ok a => (s.put k a, .ok .none)
  | .error e => (s, .error e)

def viewRes (s : State) : Except Err View → State × Res
  | .ok v => (s, .ok (.view v))
  | .error e => (s, .error e)

def step (s : State) : Op → State × Res
  | .new k dbl seed dims =>
    if dims.length = 1 ∨ dims.length = 2 then commit s k (newArr dbl seed dims) else (s, .error .bad)
  | .resize k seed dims => match s.get? k with
    | some t => if dims.length = t.rank then commit s k (resizeInt t seed dims) else (s, .error .bad)
    | none => (s, .error .bad)
  | .resized k seed dims => match s.get? k with
    | some t => if dims.length = t.rank then commit s k (resizeDims t seed dims) else (s, .error .bad)
    | none => (s, .error .bad)
  | .asg k i op j => match s.get? k, s.get? i, s.get? j with
    | some t, some x, some y =>
      if t.sameKind x && t.sameKind y then commit s k (assign t (exprDims x y) (exprVals op x y)) else (s, .error .bad)
    | _, _, _ => (s, .error .bad)
  | .cp k i => match s.get? k, s.get? i with
    | some t, some x => if t.sameKind x then commit s k (assign t (some x.dims) x.vals) else (s, .error .bad)
    | _, _ => (s, .error .bad)
  | .comp k op i => match s.get? k, s.get? i with
    -- `a op= b` is `a = noalias(a op b)`
    | some t, some x =>
      if t.sameKind x then commit s k (assign t (exprDims t x) (exprVals op t x)) else (s, .error .bad)
    | _, _ => (s, .error .bad)
  | .whr k m i => match s.get? k, s.get? m, s.get? i with
    | some t, some mk, some x =>
      if t.sameKind x && t.rank == mk.rank then commit s k (whereAssign t mk x) else (s, .error .bad)
    | _, _, _ => (s, .error .bad)
  | .fill k items => match s.get? k with
    | some t => match resolve s t.rank items with
      | some ps => if ps = [] then (s, .error .bad) else
        match fill t ps with
        | (t', none) => (s.put k t', .ok .none)
        | (t', some e) => (if t' = t then s else s.put k t', .error e)
      | none => (s, .error .bad)
    | none => (s, .error .bad)
  | .diag k o => match s.get? k with
    | some t => if t.rank = 2 then viewRes s (diagVector t o) else (s, .error .bad)
    | none => (s, .error .bad)
  | .subdiag k ib ie => match s.get? k with
    | some t => if t.rank = 2 then viewRes s (subDiag t ib ie) else (s, .error .bad)
    | none => (s, .error .bad)
  | .inv k => match s.get? k with
    | some t => if t.rank = 2 ∧ t.dbl then viewRes s (invMat t) else (s, .error .bad)
    | none => (s, .error .bad)
  | .link k i => match s.get? k, s.get? i with
    -- `a.link(b)`: `!b.data()` ⇒ `empty_array` before `a` is cleared; the harness then detaches `a` again
    -- (deep copy), so the pool holds no shared data
    | some t, some x =>
      if t.sameKind x then (if x.isEmpty then (s, .error .empty_array) else (s.put k x, .ok .none)) else (s, .error .bad)
    | _, _ => (s, .error .bad)
  | .matmul k i j => match s.get? k, s.get? i, s.get? j with
    | some t, some x, some y =>
      if t.dbl && x.dbl && y.dbl && x.rank + y.rank > 2 && x.rank ≤ 2 && y.rank ≤ 2 && 1 ≤ x.rank && 1 ≤ y.rank
          && t.rank + 2 == x.rank + y.rank then
        match matmulDims x y with
        | .error e => (s, .error e)
        | .ok d => commit s k (assign t (some d) (matmulVals x y))
      else (s, .error .bad)
    | _, _, _ => (s, .error .bad)
  | .permute k p0 p1 => match s.get? k with
    | some t => if t.rank = 2 then viewRes s (permute2 t p0 p1) else (s, .error .bad)
    | none => (s, .error .bad)
  | .get k idx => match s.get? k with
    | some t => if idx.length = t.rank then
        (match getElem s.bounds t idx with
         | .ok x => (s, .ok (.elem x))
         | .error e => (s, .error e))
      else (s, .error .bad)
    | none => (s, .error .bad)
  | .range k b e => match s.get? k with
    | some t => if t.rank = 1 then viewRes s (rangeView s.bounds t b e) else (s, .error .bad)
    | none => (s, .error .bad)
  | .reshape k r c => match s.get? k with
    | some t => if t.rank = 1 then viewRes s (reshape2 t r c) else (s, .error .bad)
    | none => (s, .error .bad)
  | .clear k => match s.get? k with
    | some t => (s.put k ⟨t.dbl, List.replicate t.rank 0, []⟩, .ok .none)
    | none => (s, .error .bad)

end Adept.Misuse
