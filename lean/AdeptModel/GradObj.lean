import AdeptModel.GradAlloc
/-!
Object layer above the gradient-slot allocator (model M3, property C08): the objects that CALL
`Stack::register_gradient(s)` / `unregister_gradient(s)`.

Transcribed from
  include/adept/Active.h        every constructor: `gradient_index_(ADEPT_ACTIVE_STACK->register_gradient())`;
                                `~Active`: `unregister_gradient(gradient_index_)`
  include/adept/Storage.h       `Storage(n, IsActive)`: `alloc_aligned` (may throw) THEN `register_gradients(n)`;
                                `~Storage`: `unregister_gradients(gradient_index_, n_)`; `add_link`, `remove_link` (delete this at 0)
  include/adept/Array.h         `Array(dims)`, `Array(Array&)` (shares), `link`, `operator()` views (`Array(data, storage, dims, offset)`:
                                `add_link` + `GradientIndex::set(data_, storage_)`), `resize`, `clear`, `operator=` on an empty array
                                (`resize(dims)`), `~Array` (`remove_link`), `swap(Array&, Array&)`, `pack_row_major_`
  include/adept/SpecialMatrix.h the same discipline; `Engine::pack_offset`, `Engine::data_size`
  include/adept/FixedArray.h    `GradientIndex(length_, false)`: `register_gradients(length_)`; `~FixedArray`: `unregister(length_)`
  include/adept/GradientIndex.h

The state mirrors what the C++ objects hold (an `Active` holds its index, a `Storage` holds `n_`, `n_links_`, `gradient_index_`, an
`Array` holds `storage_`, `data_ - storage_->data()`, `dimensions_`, `offset_`, and the `GradientIndex` value); every call of the
allocator goes through `call…`, which also appends the call to `log`, so that the sequence of allocator operations an object-level
history performs is part of the state (it is the history the allocator theorems of C08 are about).

Object-level operations (`OOp`) are EXPANDED into primitive member-level actions (`Prim`): what the C++ does is a sequence of
`register`, `unregister`, `new Storage`, `add_link`, `remove_link`; the theorems are proved for every sequence of primitives.

Core Lean only (this file is linked into the `adept_model` driver).
-/
namespace Adept.GradObj
open Adept.GradAlloc

/-- (first gradient index, number of slots) — same as `GradAlloc.Block` of the proofs -/
abbrev Blk := Nat × Nat

/-- a `Storage<Real>` object of an ACTIVE array, on the heap -/
structure Stor where
  sid   : Nat          -- identity (address)
  n     : Nat          -- n_
  links : Nat          -- n_links_
  gi    : Nat          -- gradient_index_
deriving Repr, DecidableEq

/-- objects that hold their gradient slots themselves -/
structure OwnObj where
  scalar : Bool        -- true: every element is an `Active` (released by `unregister_gradient`);
                       -- false: one block registered with `register_gradients(N)` (active FixedArray)
  bs     : List Blk    -- the blocks it holds, in element order
  cap    : Nat := 0    -- std::vector<adouble>::capacity()
  tag    : Nat := 0    -- 0 adouble, 1 FixedArray, 2 std::vector<adouble>, 3 adouble[n]  (static type; bookkeeping of the driver)
deriving Repr, DecidableEq

/-- an active `Array<Rank>` or `SpecialMatrix` object.  For special matrices `dims`/`strides` encode the memory footprint:
    square-like engines `[dim, dim]`/`[offset, 1]`, band engines `[dim]`/`[offset+1]` (so that `ext + 1 = Engine::data_size`). -/
structure ArrObj where
  kind    : Nat                    -- static type: 1,2,3 = aVector, aMatrix, aArray3D; 10 aSquareMatrix, 11 aSymmMatrix,
                                   -- 14 aTridiagMatrix, 15 aDiagMatrix
  st      : Option Nat := none     -- storage_ (sid), none = null pointer
  off     : Nat := 0               -- data_ - storage_->data()
  dims    : List Nat := []         -- dimensions_
  strides : List Nat := []         -- offset_
  g       : Option Nat := none     -- GradientIndex<true>::value_, none = -9999
deriving Repr, DecidableEq

structure OS where
  ga      : GA := stackInit
  heap    : List Stor := []
  owns    : List (Nat × OwnObj) := []
  arrs    : List (Nat × ArrObj) := []
  nextSid : Nat := 0
  packet  : Nat := 2               -- Packet<Real>::size of the build
  log     : List Op := []          -- allocator calls made so far, newest first
  ub      : Bool := false          -- a dangling `storage_` pointer was followed / more links removed than set
deriving Repr

def init : OS := {}

/-! ### calls of the allocator -/
def callReg1 (s : OS) : OS × Nat :=
  let r := reg1 s.ga
  ({ s with ga := r.1, log := Op.reg1 :: s.log }, r.2)
def callRegN (n : Nat) (s : OS) : OS × Nat :=
  let r := regN n s.ga
  ({ s with ga := r.1, log := Op.regN n :: s.log }, r.2)
def callUnreg1 (i : Nat) (s : OS) : OS :=
  { s with ga := unreg1 i s.ga, log := Op.unreg1 i :: s.log }
def callUnregN (i n : Nat) (s : OS) : OS :=
  { s with ga := unregN i n s.ga, log := Op.unregN i n :: s.log }
def callNewRec (s : OS) : OS :=
  { s with ga := newRecording s.ga, log := Op.newRec :: s.log }

/-! ### memory layout of arrays -/

/-- extent minus one of a view: `Σ (dimensions_[i]-1)*offset_[i]` (`Array::data_range`) -/
def ext : List Nat → List Nat → Nat
  | d :: ds, s :: ss => (d - 1) * s + ext ds ss
  | _, _ => 0

/-- row length of `pack_row_major_`: rounded up to the packet size when at least two packets long -/
def rowLen (P d : Nat) : Nat := if d ≥ P * 2 then ((d + P - 1) / P) * P else d

/-- `(offset_[0], offset_)` after `Array::pack_row_major_` -/
def packAux (P : Nat) : List Nat → Nat × List Nat
  | [] => (0, [])
  | [_] => (1, [1])
  | [_, d1] => (rowLen P d1, [rowLen P d1, 1])
  | _ :: d1 :: d2 :: rest =>
    let r := packAux P (d1 :: d2 :: rest)
    (d1 * r.1, (d1 * r.1) :: r.2)

/-- `(dimensions_, offset_, data volume)` of a freshly allocated object of static type `kind` asked for `dims`
    (`Array::resize`: `data_vol = offset_[0]*dimensions_[0]`; `SpecialMatrix::resize(dim)`: `Engine::data_size(dim, pack_offset(dim))`) -/
def layout (kind P : Nat) (dims : List Nat) : List Nat × List Nat × Nat :=
  if kind < 10 then
    let r := packAux P dims
    (dims, r.2, dims.headD 0 * r.1)
  else
    let d := dims.headD 0
    if kind = 14 then ([d], [3], (d - 1) * 3 + 1)           -- BandEngine<ROW_MAJOR,1,1>: offset = diagonals-1 = 2
    else if kind = 15 then ([d], [1], (d - 1) * 1 + 1)      -- BandEngine<ROW_MAJOR,0,0>: offset = 0
    else ([d, d], [d, 1], (d - 1) * d + d)                  -- SquareEngine and its heirs: offset = dim

/-- number of dimensions `resize` takes for a static type -/
def nArgs (kind : Nat) : Nat := if kind < 10 then kind else 1

/-- one index argument of `Array::operator()`: an integer or `stride(lo, hi, st)` (`range(lo,hi)` = stride 1, `__` = whole) -/
inductive Ix
  | fix (i : Nat)
  | rng (lo hi st : Nat)
deriving Repr, DecidableEq

/-- `(data_ shift, dimensions_, offset_)` of the view `A(args…)` -/
def sliceAux : List Ix → List Nat → List Nat → Option (Nat × List Nat × List Nat)
  | [], [], [] => some (0, [], [])
  | .fix i :: xs, d :: ds, s :: ss =>
    if i < d then
      match sliceAux xs ds ss with
      | some (o, ds', ss') => some (i * s + o, ds', ss')
      | none => none
    else none
  | .rng lo hi st :: xs, d :: ds, s :: ss =>
    if lo ≤ hi ∧ hi < d ∧ 0 < st then
      match sliceAux xs ds ss with
      | some (o, ds', ss') => some (lo * s + o, ((hi - lo) / st + 1) :: ds', (st * s) :: ss')
      | none => none
    else if hi < lo ∧ lo < d ∧ 0 < st ∧ lo < hi + 2 * st then
      -- an EMPTY selection `stride(lo, hi, st)` with `hi < lo`: `RangeIndex::size = (hi - lo + st)/st` in `int` arithmetic is 0
      -- when `-st < hi - lo + st < st`; `data_` still moves by `lo * offset_`
      match sliceAux xs ds ss with
      | some (o, ds', ss') => some (lo * s + o, 0 :: ds', (st * s) :: ss')
      | none => none
    else none
  | _, _, _ => none

/-- the view constructor `Array(data, storage, dims, offset)`: if ANY extent is zero ALL extents are zero (as `resize` does) -/
def canonDims (ds : List Nat) : List Nat := if ds.any (fun d => d == 0) then ds.map (fun _ => 0) else ds

/-- the view `A(args…)` as the view constructor stores it -/
def sliceView (xs : List Ix) (ds ss : List Nat) : Option (Nat × List Nat × List Nat) :=
  match sliceAux xs ds ss with
  | some (o, ds', ss') => some (o, canonDims ds', ss')
  | none => none

/-- `Array::empty()` (`dimensions_[0] == 0`): no storage, or an empty view (all extents zero) that still holds a link -/
def isEmptyArr (a : ArrObj) : Bool := a.st.isNone || a.dims.any (fun d => d == 0)

def nRanges : List Ix → Nat
  | [] => 0
  | .fix _ :: xs => nRanges xs
  | .rng _ _ _ :: xs => nRanges xs + 1

/-! ### tables -/
def putOwn (s : OS) (h : Nat) (o : OwnObj) : OS :=
  { s with owns := (h, o) :: s.owns.filter (fun p => p.1 != h) }
def putArr (s : OS) (h : Nat) (a : ArrObj) : OS :=
  { s with arrs := (h, a) :: s.arrs.filter (fun p => p.1 != h) }
def findStor (s : OS) (sid : Nat) : Option Stor := s.heap.find? (fun t => t.sid == sid)

def insertAt (l : List Blk) (pos : Nat) (b : Blk) : List Blk := l.take pos ++ b :: l.drop pos

/-! ### primitive, member-level actions -/
inductive Prim
  | ownNew (h : Nat) (scalar : Bool) (tag : Nat)   -- an object with no gradient registered yet comes to exist
  | ownPush (h n pos : Nat)       -- it registers a block: `register_gradient()` (scalar) or `register_gradients(n)`; element position `pos`
  | ownDrop (h k : Nat)           -- it releases its k-th block: `unregister_gradient(i)` (scalar) or `unregister_gradients(i, n)`
  | ownSetCap (h c : Nat)
  | ownDel (h : Nat)              -- the (emptied) object ceases to exist
  | arrNew (h kind : Nat)         -- `Array()` : data_(0), storage_(0), dimensions_(0)
  | arrRelease (h : Nat)          -- `clear()`: `storage_->remove_link(); storage_ = 0; …; GradientIndex::clear()`
  | arrAlloc (h : Nat) (dims : List Nat)   -- on an array with `storage_ == 0`: `storage_ = new Storage(data_vol, true)` and the rest of `resize`
  | arrShare (h src : Nat) (spec : Option (List Ix))   -- on an array with `storage_ == 0`: take `src`'s storage (or a view of it), `add_link`
  | arrSwap (h1 h2 : Nat)         -- `swap(Array&, Array&)`
  | arrDel (h : Nat)              -- an array with `storage_ == 0` ceases to exist
  | newRec
deriving Repr, DecidableEq

def emptyArr (kind : Nat) : ArrObj := { kind := kind }

/-- `Storage::remove_link()` for the storage `sid` -/
def removeLink (s : OS) (sid : Nat) : OS :=
  match findStor s sid with
  | none => { s with ub := true }
  | some t =>
    if t.links = 0 then { s with ub := true }            -- C++ throws invalid_operation
    else if t.links = 1 then
      -- `delete this`: ~Storage unregisters (gradient_index_ >= 0 for active data)
      let s2 := callUnregN t.gi t.n s
      { s2 with heap := s2.heap.filter (fun u => u.sid != sid) }
    else { s with heap := s.heap.map (fun u => if u.sid == sid then { u with links := u.links - 1 } else u) }

def pstep (s : OS) : Prim → OS
  | .ownNew h sc tag =>
    match s.owns.lookup h with
    | some _ => s
    | none => { s with owns := (h, { scalar := sc, bs := [], cap := 0, tag := tag }) :: s.owns }
  | .ownPush h n pos =>
    match s.owns.lookup h with
    | none => s
    | some o =>
      if o.scalar then
        if n = 1 then
          let r := callReg1 s
          putOwn r.1 h { o with bs := insertAt o.bs pos (r.2, 1) }
        else s
      else if 0 < n then
        let r := callRegN n s
        putOwn r.1 h { o with bs := insertAt o.bs pos (r.2, n) }
      else s
  | .ownDrop h k =>
    match s.owns.lookup h with
    | none => s
    | some o =>
      match o.bs[k]? with
      | none => s
      | some b =>
        let s1 := if o.scalar then callUnreg1 b.1 s else callUnregN b.1 b.2 s
        putOwn s1 h { o with bs := o.bs.eraseIdx k }
  | .ownSetCap h c =>
    match s.owns.lookup h with
    | none => s
    | some o => putOwn s h { o with cap := c }
  | .ownDel h =>
    match s.owns.lookup h with
    | none => s
    | some o => if o.bs.isEmpty then { s with owns := s.owns.filter (fun p => p.1 != h) } else s
  | .arrNew h kind =>
    match s.arrs.lookup h with
    | some _ => s
    | none => { s with arrs := (h, emptyArr kind) :: s.arrs }
  | .arrRelease h =>
    match s.arrs.lookup h with
    | none => s
    | some a =>
      let s1 := match a.st with
                | none => s
                | some sid => removeLink s sid
      putArr s1 h (emptyArr a.kind)
  | .arrAlloc h dims =>
    match s.arrs.lookup h with
    | none => s
    | some a =>
      if a.st.isSome then s
      else if dims ≠ [] ∧ dims.length = nArgs a.kind ∧ dims.all (fun d => 0 < d) then
        let lay := layout a.kind s.packet dims
        let r := callRegN lay.2.2 s
        let s1 := r.1
        let sid := s1.nextSid
        putArr { s1 with heap := { sid := sid, n := lay.2.2, links := 1, gi := r.2 } :: s1.heap, nextSid := sid + 1 } h
          { a with st := some sid, off := 0, dims := lay.1, strides := lay.2.1, g := some r.2 }
      else s
  | .arrShare h src spec =>
    match s.arrs.lookup h, s.arrs.lookup src with
    | some a, some b =>
      if a.st.isSome then s
      else
        match b.st with
        | none => s                       -- copy of an empty array: stays empty
        | some sid =>
          let view := match spec with
                      | none => some (0, b.dims, b.strides)
                      | some xs => sliceView xs b.dims b.strides
          match view, findStor s sid with
          | some (o, ds, ss), some t =>
            -- add_link
            let s1 := { s with heap := s.heap.map (fun u => if u.sid == sid then { u with links := u.links + 1 } else u) }
            -- copy construction / link take `rhs.gradient_index()`, a view computes `storage gradient index + (data_ - storage data)`
            let g := match spec with
                     | none => b.g
                     | some _ => some (t.gi + (b.off + o))
            putArr s1 h { a with st := some sid, off := b.off + o, dims := ds, strides := ss, g := g }
          | some _, none => { s with ub := true }
          | none, _ => s
    | _, _ => s
  | .arrSwap h1 h2 =>
    match s.arrs.lookup h1, s.arrs.lookup h2 with
    | some a1, some a2 =>
      if h1 = h2 then s
      else { s with arrs := (h1, a2) :: (h2, a1) :: s.arrs.filter (fun p => p.1 != h1 && p.1 != h2) }
    | _, _ => s
  | .arrDel h =>
    match s.arrs.lookup h with
    | none => s
    | some a => if a.st.isSome then s else { s with arrs := s.arrs.filter (fun p => p.1 != h) }
  | .newRec => callNewRec s

def prun (s : OS) : List Prim → OS
  | [] => s
  | p :: ps => prun (pstep s p) ps

/-! ### object-level operations and what the C++ does for each -/
inductive OOp
  | act (h : Nat)                 -- `new adouble` / `adouble(passive)` / `adouble(const adouble&)` / `adouble(expression)`
  | actTemp (h : Nat)             -- `new adouble(f(expr))`, `adouble f(adouble x) { return x; }`: parameter and result are registered,
                                  -- the parameter is released at the end of the full expression
  | swapAct (h1 h2 : Nat)         -- `std::swap(adouble&, adouble&)`: a temporary adouble is registered and released
  | fixed (h n : Nat)             -- `new FixedArray<Real,true,n>`
  | vecNew (h : Nat)              -- `new std::vector<adouble>`
  | vecPush (h : Nat)             -- `emplace_back()`: on reallocation libstdc++ constructs the new element, copy-constructs the old ones
                                  -- in order (Active has no move constructor), then destroys the old ones in order
  | vecPop (h : Nat)              -- `pop_back()`
  | vecErase (h k : Nat)          -- `erase(begin()+k)`: elements are assigned downwards, the LAST element is destroyed
  | blkNew (h n : Nat)            -- `new adouble[n]` (constructed in order; `delete[]` destroys in reverse order)
  | del (h : Nat)                 -- `delete` of whatever `h` is
  | arr (h kind : Nat) (dims : List Nat) (fault : Bool)   -- `new aVector(n)` … ; `fault`: the data allocation throws std::bad_alloc
  | copy (h src : Nat)            -- `new Array(*src)`
  | slice (h src : Nat) (spec : List Ix)                  -- `new Array((*src)(spec…))`
  | link (h src : Nat)            -- `*h >>= *src`
  | resize (h : Nat) (dims : List Nat) (fault : Bool)
  | clear (h : Nat)
  | assign (h src : Nat)          -- `*h = *src` (arrays of the same rank)
  | swapArr (h1 h2 : Nat)         -- `swap(*h1, *h2)`
  | newRec
  | listFixed (h : Nat) (dims : List Nat) (active : Bool)
                                  -- `new FixedArray<Real,active,dims…>{{…},…}` (FixedArray.h, the seven `std::initializer_list` constructors:
                                  -- `GradientIndex<IsActive>(length_, false)` registers `length_` slots, then `*this = list` registers nothing)
  | listArr (h : Nat) (dims : List Nat) (active : Bool)
                                  -- `new Array<rank,Real,active>{{…},…}` (Array.h, the seven `std::initializer_list` constructors:
                                  -- `data_(0), storage_(0), dimensions_(0)` then `*this = list`: `empty()`, so `resize(shape of the list)`);
                                  -- rank = `dims.length`
  | assignList (h : Nat) (dims : List Nat)
                                  -- `*h = {{…},…}`, a list of shape `dims`: `operator=(std::initializer_list…)`: an `empty()` Array is resized to
                                  -- the shape of the list (an empty VIEW gives its link back first), otherwise nothing is registered or released
  | linkTemp (h src : Nat) (spec : List Ix)
                                  -- `*h >>= (*src)(spec…)`: `Array::operator>>=(Array&&)` = `link(Array&)` on the temporary view, which is
                                  -- destroyed at the end of the full expression
deriving Repr, DecidableEq

/-- product of the extents -/
def prodDims : List Nat → Nat
  | [] => 1
  | d :: ds => d * prodDims ds

/-- handle of temporaries (never used by a history) -/
def TMP : Nat := 4000000000

def isAct (s : OS) (h : Nat) : Bool :=
  match s.owns.lookup h with
  | some o => o.tag == 0
  | none => false

/-- do the views `a` and `b` overlap in memory (`is_aliased_`: same allocation, `ptr_begin <= mem2 && ptr_end >= mem1`) -/
def aliased (a b : ArrObj) : Bool :=
  match a.st, b.st with
  | some x, some y => x == y && (a.off ≤ b.off + ext b.dims b.strides) && (b.off ≤ a.off + ext a.dims a.strides)
  | _, _ => false

def freshHandle (s : OS) (h : Nat) : Bool := (s.owns.lookup h).isNone && (s.arrs.lookup h).isNone

/-- the primitive actions of an object-level operation; `none`: the operation is not applicable (driver prints bad-op) -/
def expand (s : OS) : OOp → Option (List Prim)
  | .act h => if freshHandle s h then some [.ownNew h true 0, .ownPush h 1 0] else none
  | .actTemp h =>
    if freshHandle s h then
      some [.ownNew TMP true 0, .ownPush TMP 1 0, .ownNew h true 0, .ownPush h 1 0, .ownDrop TMP 0, .ownDel TMP]
    else none
  | .swapAct h1 h2 =>
    if isAct s h1 && isAct s h2 && h1 != h2 then some [.ownNew TMP true 0, .ownPush TMP 1 0, .ownDrop TMP 0, .ownDel TMP] else none
  | .fixed h n => if freshHandle s h && 0 < n then some [.ownNew h false 1, .ownPush h n 0] else none
  | .vecNew h => if freshHandle s h then some [.ownNew h true 2] else none
  | .vecPush h =>
    match s.owns.lookup h with
    | some o =>
      if o.tag != 2 then none
      else
        let len := o.bs.length
        if len < o.cap then some [.ownPush h 1 len]
        else
          -- _M_realloc_insert: new capacity max(1, 2*len); new element first, then the copies, then the old elements go
          some ([.ownPush h 1 len] ++ (List.range len).map (fun j => Prim.ownPush h 1 (len + j))
                ++ List.replicate len (.ownDrop h 0) ++ [.ownSetCap h (if len = 0 then 1 else 2 * len)])
    | none => none
  | .vecPop h =>
    match s.owns.lookup h with
    | some o => if o.tag == 2 && 0 < o.bs.length then some [.ownDrop h (o.bs.length - 1)] else none
    | none => none
  | .vecErase h k =>
    match s.owns.lookup h with
    | some o => if o.tag == 2 && k < o.bs.length then some [.ownDrop h (o.bs.length - 1)] else none
    | none => none
  | .blkNew h n =>
    if freshHandle s h && 0 < n then some (.ownNew h true 3 :: (List.range n).map (fun j => Prim.ownPush h 1 j)) else none
  | .del h =>
    match s.owns.lookup h, s.arrs.lookup h with
    | some o, _ =>
      if o.tag == 3 then some ((List.range o.bs.length).reverse.map (fun j => Prim.ownDrop h j) ++ [.ownDel h])
      else some (List.replicate o.bs.length (.ownDrop h 0) ++ [.ownDel h])
    | none, some _ => some [.arrRelease h, .arrDel h]
    | none, none => none
  | .arr h kind dims fault =>
    if freshHandle s h && dims.length == nArgs kind then
      if dims.any (fun d => d == 0) then some [.arrNew h kind]        -- resize with a zero dimension: `clear()`
      else if fault then some [.arrNew h kind, .arrDel h]             -- Storage constructor throws before registering; no object
      else some [.arrNew h kind, .arrAlloc h dims]
    else none
  | .copy h src =>
    match s.arrs.lookup src with
    | some b => if freshHandle s h then some [.arrNew h b.kind, .arrShare h src none] else none
    | none => none
  | .slice h src spec =>
    match s.arrs.lookup src with
    | some b =>
      if freshHandle s h && b.kind < 4 && b.st.isSome && 0 < nRanges spec && (sliceAux spec b.dims b.strides).isSome then
        some [.arrNew h (nRanges spec), .arrShare h src (some spec)]
      else none
    | none => none
  | .link h src =>
    match s.arrs.lookup h, s.arrs.lookup src with
    | some a, some b =>
      if a.kind != b.kind || h == src then none
      else if b.st.isNone then some []        -- `link` to an empty array throws empty_array before anything is touched
      else some [.arrRelease h, .arrShare h src none]
    | _, _ => none
  | .resize h dims fault =>
    match s.arrs.lookup h with
    | some a =>
      if dims.length != nArgs a.kind then none
      else if dims.any (fun d => d == 0) then some [.arrRelease h]
      else if fault then some [.arrRelease h]                          -- the old data are released, the new allocation throws
      else some [.arrRelease h, .arrAlloc h dims]
    | none => none
  | .clear h =>
    match s.arrs.lookup h with
    | some _ => some [.arrRelease h]
    | none => none
  | .assign h src =>
    match s.arrs.lookup h, s.arrs.lookup src with
    | some a, some b =>
      if a.kind != b.kind || a.kind ≥ 10 || h == src then none
      else if isEmptyArr a then
        -- `empty()` (first extent zero): `resize(rhs dims)`; a zero extent there means `clear()`.  An empty VIEW holds a link: it goes.
        if isEmptyArr b then (if a.st.isSome then some [.arrRelease h] else some [])
        else if a.st.isSome then some [.arrRelease h, .arrAlloc h b.dims]
        else some [.arrAlloc h b.dims]                                 -- assignment to an empty array: `resize(dims)`
      else if isEmptyArr b then some []                                -- size_mismatch is thrown
      else if a.dims != b.dims then some []                            -- size_mismatch is thrown
      else if aliased a b then
        -- `Array copy; copy = rhs;` a temporary array is allocated, filled, read and destroyed
        some [.arrNew TMP a.kind, .arrAlloc TMP b.dims, .arrRelease TMP, .arrDel TMP]
      else some []
    | _, _ => none
  | .swapArr h1 h2 =>
    match s.arrs.lookup h1, s.arrs.lookup h2 with
    | some a, some b => if a.kind == b.kind && a.kind < 10 && h1 != h2 then some [.arrSwap h1 h2] else none
    | _, _ => none
  | .newRec => some [.newRec]
  | .listFixed h dims active =>
    if freshHandle s h && dims != [] && dims.all (fun d => 0 < d) then
      if active then some [.ownNew h false 5, .ownPush h (prodDims dims) 0]
      else some [.ownNew h false 4]                                    -- `GradientIndex<false>`: nothing to register
    else none
  | .listArr h dims active =>
    if freshHandle s h && dims != [] && dims.length < 8 && dims.all (fun d => 0 < d) then
      if active then some [.arrNew h dims.length, .arrAlloc h dims]
      else some [.ownNew h false 4]                                    -- `Storage(n, false)`: `gradient_index_ = -1`, nothing registered
    else none
  | .assignList h dims =>
    match s.owns.lookup h, s.arrs.lookup h with
    | some o, _ => if o.tag == 4 || o.tag == 5 then some [] else none
    | none, some a =>
      if a.kind ≥ 10 || dims.length != a.kind || !dims.all (fun d => 0 < d) then none
      else if isEmptyArr a then
        if a.st.isSome then some [.arrRelease h, .arrAlloc h dims] else some [.arrAlloc h dims]
      else if a.dims == dims then some []
      else none
    | none, none => none
  | .linkTemp h src spec =>
    match s.arrs.lookup h, s.arrs.lookup src with
    | some a, some b =>
      if h == src || b.kind ≥ 4 || b.st.isNone || nRanges spec == 0 || a.kind != nRanges spec
         || (sliceAux spec b.dims b.strides).isNone || (s.arrs.lookup TMP).isSome then none
      else
        -- the temporary view (`add_link`), `link`: `clear()` then take the temporary's storage (`add_link`), `~Array` of the temporary
        some [.arrNew TMP (nRanges spec), .arrShare TMP src (some spec), .arrRelease h, .arrShare h TMP none, .arrRelease TMP, .arrDel TMP]
    | _, _ => none

/-- one object-level step (an inapplicable operation changes nothing) -/
def ostep (s : OS) (op : OOp) : OS :=
  match expand s op with
  | some ps => prun s ps
  | none => s

def orun (s : OS) : List OOp → OS
  | [] => s
  | op :: ops => orun (ostep s op) ops

/-- the allocator operations performed so far, oldest first -/
def trace (s : OS) : List Op := s.log.reverse

end Adept.GradObj
