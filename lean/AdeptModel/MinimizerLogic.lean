/-
Decision logic of `adept::Minimizer` (properties C18, C19).

Transcribed from
  adept/minimize_conjugate_gradient.cpp     minimize_conjugate_gradient_bounded
  adept/minimize_limited_memory_bfgs.cpp    minimize_limited_memory_bfgs_bounded
  adept/minimize_levenberg_marquardt.cpp    minimize_levenberg_marquardt_bounded
  adept/line_search.cpp                     line_search, line_search_gradient_check
as they read AFTER the fixes F-17 (bracketing loop counts its iterations), F-18 (`minloc` for the captured upper
bound), F-20 (non-finite exit of the line search restores step and cost), F-60 (a zero-length bound step reports
the bound instead of starting an unbounded search), F-61 (accepted Levenberg step updates the reported cost),
F-63 (Levenberg trial state clamped onto the box).

Conventions
* numbers live in any type `α` with the field operations and a decidable order (`Rat` when executed, a linear
  ordered field in the theorems); vectors are total functions `Nat → α` of which the first `n` entries matter;
* everything the C++ obtains from the user or from floating-point-only operations is an ARGUMENT: the cost /
  gradient oracle `f`, the Euclidean norm `nrm` (a square root), the cubic interpolation step of the line search
  (`cubic`, a square root), the search-direction strategy (`DirStrategy`), the damped Newton steps of the
  Levenberg family (`newtonFull`, `newtonSub`, LAPACK).  Theorems quantify over all of them;
* `big` is `std::numeric_limits<Real>::max()`, the library's "no bound" sentinel;
* every state handed to a user callback is appended to a `calls` list, which is what C18 talks about.

Core Lean only (this file is linked into the `adept_model` driver).
-/
namespace Adept.Minimizer

abbrev Vec (α : Type) := Nat → α

/-- `MinimizerStatus` (Minimizer.h) -/
inductive Status where
  | success | maxIter | failed | uphill | boundReached | invalidCost | invalidGrad | invalidBounds | notYet
deriving DecidableEq, Repr, Inhabited

/-- numeric value of the C++ enumerator -/
def Status.code : Status → Nat
  | .success => 0 | .maxIter => 2 | .failed => 3 | .uphill => 4 | .boundReached => 5
  | .invalidCost => 6 | .invalidGrad => 7 | .invalidBounds => 8 | .notYet => 10

/-- functional update of one entry -/
def upd {β : Type} (v : Nat → β) (i : Nat) (a : β) : Nat → β := fun j => if j = i then a else v j

/-- `loopN body running N s`: at most `N` passes of `while (running) body` -/
def loopN {σ : Type} (body : σ → σ) (running : σ → Bool) : Nat → σ → σ
  | 0, s => s
  | k + 1, s => if running s then loopN body running k (body s) else s

/-! ## Pure decision functions -/
section Order
variable {α : Type} [LT α] [LE α] [Max α] [Min α] [DecidableLT α] [DecidableLE α]

/-- `any(min_x >= max_x)` -/
def boundsInvalid (n : Nat) (lo up : Vec α) : Bool := (List.range n).any (fun i => decide (lo i ≥ up i))

/-- `x = max(min_x, min(x, max_x))` -/
def project (lo up x : Vec α) : Vec α := fun i => max (lo i) (min (x i) (up i))

/-- `bound_status.where(x >= max_x) = 1; bound_status.where(x <= min_x) = -1;` (the second overrides the first) -/
def initBoundStatus (lo up x : Vec α) : Nat → Int :=
  fun i => if x i ≤ lo i then -1 else if x i ≥ up i then 1 else 0

/-- number of free variables, `nx - count(bound_status != 0)` -/
def nFree (n : Nat) (bs : Nat → Int) : Nat := ((List.range n).filter (fun i => bs i = 0)).length

variable [Zero α]

/-- release rule of the line-search minimizers: the steepest-descent direction leaves the bound -/
def releaseCG (bs : Nat → Int) (g : Vec α) : Nat → Int :=
  fun i => if (bs i = -1 ∧ g i < 0) ∨ (bs i = 1 ∧ g i > 0) then 0 else bs i

/-- release rule of the Levenberg family: gradient sign AND sign of the damped Newton step -/
def releaseLM (bs : Nat → Int) (g dx : Vec α) : Nat → Int :=
  fun i => if (bs i = -1 ∧ g i < 0 ∧ dx i > 0) ∨ (bs i = 1 ∧ g i > 0 ∧ dx i < 0) then 0 else bs i

/-- `gradient.where(bound_status != 0) = 0.0` -/
def maskGrad (bs : Nat → Int) (g : Vec α) : Vec α := fun i => if bs i ≠ 0 then 0 else g i

/-- `gradient_norm_`: norm over the free components, 0 if none is free (`nrm` is `norm2`) -/
def gradNorm (nrm : Vec α → α) (n : Nat) (bs : Nat → Int) (g : Vec α) : α :=
  if nFree n bs > 0 then nrm (maskGrad bs g) else 0

/-- `gradient_norm_ <= converged_gradient_norm_` -/
def converged (nrm : Vec α → α) (n : Nat) (bs : Nat → Int) (g : Vec α) (tol : α) : Bool :=
  decide (gradNorm nrm n bs g ≤ tol)

end Order

section Field
variable {α : Type} [Zero α] [One α] [Add α] [Sub α] [Mul α] [Div α] [Neg α] [LT α] [LE α] [Max α] [Min α]
  [DecidableLT α] [DecidableLE α]

/-- result of the nearest-bound loop: `bound_step_size`, `i_nearest_bound` (`none` = -1), `i_bound_type` -/
structure NB (α : Type) where
  b : α
  idx : Option Nat
  ty : Int

/-- one pass of `for (ix = 0; ix < nx; ++ix)`; `nd` is `dir_scaling = norm2(direction)` -/
def nbStep (big nd : α) (x d lo up : Vec α) (s : NB α) (ix : Nat) : NB α :=
  if d ix > 0 ∧ up ix < big then
    let l := nd * (up ix - x ix) / d ix
    if s.b ≥ l then ⟨l, some ix, 1⟩ else s
  else if d ix < 0 ∧ lo ix > -big then
    let l := nd * (lo ix - x ix) / d ix
    if s.b ≥ l then ⟨l, some ix, -1⟩ else s
  else s

/-- step length (in units of the normalised direction) to the first face along `d`, and which face -/
def nearestBound (n : Nat) (big nd : α) (x d lo up : Vec α) : NB α :=
  (List.range n).foldl (nbStep big nd x d lo up) ⟨big, none, 0⟩

def absv (a : α) : α := if a < 0 then -a else a

/-- `maxval(abs(dx))` -/
def maxAbs (n : Nat) (dx : Vec α) : α := (List.range n).foldl (fun m i => max m (absv (dx i))) 0

/-- `if (max_step_size_ > 0) { if (max_dx > max_step_size_) dx *= max_step_size_/max_dx; }` -/
def limitStep (n : Nat) (mss : α) (dx : Vec α) : Vec α :=
  if mss > 0 then
    let m := maxAbs n dx
    if m > mss then fun i => dx i * (mss / m) else dx
  else dx

/-- first index of `cands` at which `val` is minimal (`minloc`: strict `<` against the running minimum) -/
def minLoc (val : Nat → α) : List Nat → Option (Nat × α)
  | [] => none
  | i :: is =>
    match minLoc val is with
    | none => some (i, val i)
    | some (j, v) => if v < val i then some (j, v) else some (i, val i)

/-- outcome of the collision test: fraction of the step taken, captured variable, its bound type (0 = none) -/
structure Capture (α : Type) where
  frac : α
  idx : Nat
  ty : Int

/-- "Check for collision with new bounds" (`free i` = variable `i` is in play; `dx` is `sub_dx` scattered) -/
def lmCapture (n : Nat) (free : Nat → Bool) (x dx lo up : Vec α) : Capture α :=
  let newMin := (List.range n).filter (fun i => free i && decide (x i + dx i ≤ lo i))
  let newMax := (List.range n).filter (fun i => free i && decide (x i + dx i ≥ up i))
  let minFrac : Nat → α := fun i => -(x i - lo i) / dx i
  let maxFrac : Nat → α := fun i => (up i - x i) / dx i
  let pmin : α × Nat := match minLoc minFrac newMin with | none => (1 + 1, 0) | some (i, v) => (v, i)
  let pmax : α × Nat := match minLoc maxFrac newMax with | none => (1 + 1, 0) | some (i, v) => (v, i)
  if pmin.1 ≤ 1 ∨ pmax.1 ≤ 1 then
    if pmin.1 < pmax.1 then ⟨pmin.1, pmin.2, -1⟩ else ⟨pmax.1, pmax.2, 1⟩
  else ⟨1, 0, 0⟩

/-- `new_x = x; new_x(ifree) += frac*sub_dx; new_x = max(min_x, min(new_x, max_x))` -/
def lmTrial (free : Nat → Bool) (x dx lo up : Vec α) (frac : α) : Vec α :=
  project lo up (fun i => if free i then x i + dx i * frac else x i)

/-- damping update of the Levenberg family.  `reject = new_cost >= cost || cost_invalid`.
    result: (new damping, accepted, gave up) -/
def lmDamping (damping restart dmax mult dmin divd : α) (reject : Bool) : α × Bool × Bool :=
  if reject then
    if damping ≤ 0 then (restart, false, false)
    else if damping < dmax then (damping * mult, false, false)
    else (damping, false, true)
  else
    (if damping > dmin then damping / divd else 0, true, false)

/-- answer of the user's `calc_cost_function_gradient` / `calc_cost_function_gradient_hessian` -/
structure Sample (α : Type) where
  cost : α
  grad : Vec α
  costOk : Bool
  gradOk : Bool

/-- dot product of the first `n` entries -/
def dot (n : Nat) (u v : Vec α) : α := (List.range n).foldl (fun s i => s + u i * v i) 0

/-! ## The bounded Levenberg / Levenberg-Marquardt minimizer -/

structure LMSettings (α : Type) where
  n : Nat
  lo : Vec α
  up : Vec α
  maxIter : Int
  tol : α
  ensure : Int
  maxStep : α
  restart : α     -- levenberg_damping_restart_
  dmax : α        -- levenberg_damping_max_
  mult : α        -- levenberg_damping_multiplier_
  dmin : α        -- levenberg_damping_min_
  divd : α        -- levenberg_damping_divider_

structure LMSt (α : Type) where
  x : Vec α
  bs : Nat → Int
  cost : α
  damping : α
  upToDate : Int
  nIter : Nat
  status : Status
  startCost : α
  gnorm : α
  nbound : Nat            -- the C++ variable `nbound` (recounted only after the release block)
  calls : List (Vec α)

/-- the trial state of one pass of the inner loop: limited, captured, clamped step from `st` -/
def lmTry (S : LMSettings α) (newtonSub : Vec α → (Nat → Int) → α → Vec α) (st : LMSt α) : Vec α × Capture α :=
  let free : Nat → Bool := fun i => decide (st.bs i = 0)
  let dx := limitStep S.n S.maxStep (newtonSub st.x st.bs st.damping)
  let c := lmCapture S.n free st.x dx S.lo S.up
  (lmTrial free st.x dx S.lo S.up c.frac, c)

/-- inner `while(true)`: try steps with increasing damping.  `newtonSub x bs damping` is the damped Newton step
    over the free variables (0 elsewhere), an arbitrary function here; `cost` is the user's `calc_cost_function`
    with its finiteness.  Structural recursion on `fuel` (`C18_lm_inner_terminates`: `K + 2` tries suffice when
    `restart * mult^K ≥ dmax`). -/
def lmInner (S : LMSettings α) (cost : Vec α → α × Bool) (newtonSub : Vec α → (Nat → Int) → α → Vec α) :
    Nat → LMSt α → LMSt α
  | 0, st => { st with status := .failed }
  | k + 1, st =>
    let newX := (lmTry S newtonSub st).1
    let c := (lmTry S newtonSub st).2
    let newCost := (cost newX).1
    let ok := (cost newX).2
    let reject := decide (newCost ≥ st.cost) || !ok
    let dd := lmDamping st.damping S.restart S.dmax S.mult S.dmin S.divd reject
    if dd.2.2 then                       -- damping at its maximum: give up
      { st with calls := st.calls ++ [newX], upToDate := -1, status := if !ok then .invalidCost else .failed }
    else if dd.2.1 then                  -- cost reduced: accept
      { st with calls := st.calls ++ [newX], upToDate := -1, x := newX, cost := newCost, nIter := st.nIter + 1,
                damping := dd.1, bs := if c.frac < 1 then upd st.bs c.idx c.ty else st.bs,
                status := if ((st.nIter + 1 : Nat) : Int) ≥ S.maxIter then .maxIter else st.status }
    else lmInner S cost newtonSub k { st with calls := st.calls ++ [newX], upToDate := -1, damping := dd.1 }

/-- one pass of the outer `do { } while (status_ == NOT_YET_CONVERGED)` -/
def lmPass (S : LMSettings α) (f : Vec α → Sample α) (cost : Vec α → α × Bool) (nrm : Vec α → α)
    (newtonFull newtonSub : Vec α → (Nat → Int) → α → Vec α) (innerFuel : Nat) (st : LMSt α) : LMSt α :=
  let s := f st.x
  let st1 : LMSt α := { st with cost := s.cost, upToDate := 2, calls := st.calls ++ [st.x],
                                 startCost := if st.nIter = 0 then s.cost else st.startCost }
  if !s.costOk then { st1 with status := .invalidCost }
  else if !s.gradOk then { st1 with status := .invalidGrad }
  else
    let bs1 := if st1.nbound > 0 then releaseLM st1.bs s.grad (newtonFull st1.x st1.bs st1.damping) else st1.bs
    let gn := gradNorm nrm S.n bs1 s.grad
    let st2 : LMSt α := { st1 with bs := bs1, gnorm := gn, nbound := S.n - nFree S.n bs1 }
    if gn ≤ S.tol then { st2 with status := .success }
    else lmInner S cost newtonSub innerFuel st2

def lmEpilogue (S : LMSettings α) (f : Vec α → Sample α) (st : LMSt α) : LMSt α :=
  if st.upToDate < S.ensure then { st with cost := (f st.x).cost, calls := st.calls ++ [st.x] } else st

def lmStart (S : LMSettings α) (x0 : Vec α) (damping0 : α) : LMSt α :=
  { x := project S.lo S.up x0, bs := initBoundStatus S.lo S.up x0, cost := 0, damping := damping0, upToDate := -1,
    nIter := 0, status := .notYet, startCost := 0, gnorm := 0,
    nbound := S.n - nFree S.n (initBoundStatus S.lo S.up x0), calls := [] }

/-- `minimize_levenberg_marquardt_bounded` -/
def lmMinimize (S : LMSettings α) (f : Vec α → Sample α) (cost : Vec α → α × Bool) (nrm : Vec α → α)
    (newtonFull newtonSub : Vec α → (Nat → Int) → α → Vec α) (x0 : Vec α) (damping0 : α) (innerFuel passes : Nat) : LMSt α :=
  if boundsInvalid S.n S.lo S.up then { (lmStart S x0 damping0) with x := x0, status := .invalidBounds }
  else
    lmEpilogue S f (loopN (lmPass S f cost nrm newtonFull newtonSub innerFuel) (fun st => decide (st.status = .notYet))
      passes (lmStart S x0 damping0))

section Sci
variable [OfScientific α]

/-! ## Line search -/

/-- what the user's function returns along the search line at step `t` -/
structure LSample (α : Type) where
  cf : α            -- cost
  dg : α            -- gradient in the (normalised) search direction
  costOk : Bool     -- std::isfinite(cf)
  gradOk : Bool     -- all(isfinite(gradient))

structure LSParams (α : Type) where
  maxStep : α       -- max_step_size_ (<= 0: none)
  armijo : α        -- armijo_coeff_
  maxIter : Nat     -- max_line_search_iterations_

/-- Wolfe conditions of `line_search_gradient_check` -/
def wolfe (P : LSParams α) (cost0 grad0 curv ss : α) (s : LSample α) : Bool :=
  decide (s.cf ≤ cost0 + P.armijo * ss * grad0) && decide (absv s.dg ≤ -curv * grad0)

structure LSResult (α : Type) where
  exit : Status
  moved : Bool       -- x was updated: x := x + (t*dir_scaling)*direction
  t : α              -- the accepted step length (0 if not moved)
  cost : α           -- cost_function_ on exit
  upToDate : Int     -- state_up_to_date on exit
  stepSize : α       -- step_size on exit
  evals : List α     -- every step length handed to the user's function, oldest first

/-- step-size extension of the bracketing loop ("look further ahead") with its three clamps -/
def extendStep (P : LSParams α) (bound : α) (isBound : Bool) (ss1 ss2 cf1 cf2 grad2 : α) : α × Bool :=
  let new0 : α :=
    if cf1 > cf2 + grad2 * (ss1 - ss2) then
      let curvature := 2.0 * (cf1 - cf2 - grad2 * (ss1 - ss2)) / ((ss1 - ss2) * (ss1 - ss2))
      max (ss1 + 1.1 * (ss2 - ss1)) (min (ss2 - grad2 / curvature) (ss1 + 10.0 * (ss2 - ss1)))
    else ss2 + 5.0 * (ss2 - ss1)
  let new1 := if P.maxStep > 0 ∧ new0 - ss2 > P.maxStep then ss2 + P.maxStep else new0
  if isBound ∧ new1 ≥ bound then (bound, true) else (new1, false)

/-- the same with the Newton value supplied (used by the driver to re-evaluate logged clamps) -/
def extendClamp (P : LSParams α) (bound : α) (isBound : Bool) (quad : Bool) (raw ss1 ss2 : α) : α × Bool :=
  let new0 : α :=
    if quad then max (ss1 + 1.1 * (ss2 - ss1)) (min raw (ss1 + 10.0 * (ss2 - ss1)))
    else ss2 + 5.0 * (ss2 - ss1)
  let new1 := if P.maxStep > 0 ∧ new0 - ss2 > P.maxStep then ss2 + P.maxStep else new0
  if isBound ∧ new1 ≥ bound then (bound, true) else (new1, false)

/-- "at least 5% away from each end" -/
def cubicClamp (ss1 ss2 raw : α) : α := max (0.95 * ss1 + 0.05 * ss2) (min (0.05 * ss1 + 0.95 * ss2) raw)

/-- state of the two loops of `line_search` (suffixes as in the C++) -/
structure LSState (α : Type) where
  ss1 : α
  ss2 : α
  cf1 : α
  cf2 : α
  grad1 : α
  grad2 : α
  atBound : Bool
  evals : List α

/-- exit "revert to previous step" taken when the cost or gradient is not finite (after F-20) -/
def lsRevert (st : LSState α) (status : Status) (cost0 step0 : α) : LSResult α :=
  if st.ss1 > 0 then ⟨status, true, st.ss1, st.cf1, -1, st.ss1, st.evals⟩
  else ⟨status, false, 0, cost0, -1, step0, st.evals⟩

/-- tail of `line_search` after both loops ("Maximum iterations reached") -/
def lsFinish (st : LSState α) (cost0 cf0 step0 : α) : LSResult α :=
  if st.cf2 < st.cf1 then ⟨.success, true, st.ss2, st.cf2, -1, st.ss2, st.evals⟩
  else if st.cf1 < cf0 then ⟨.success, true, st.ss1, st.cf1, -1, st.ss1, st.evals⟩
  else ⟨.failed, false, 0, cost0, -1, step0, st.evals⟩

/-- second loop: "reduce the bounds until we get sufficiently close to the minimum".
    Structural recursion on `iterations_remaining`. `cubic` is the minimiser of the interpolating cubic. -/
def lsRefine (P : LSParams α) (phi : α → LSample α) (cubic : LSState α → α) (cost0 grad0 curv cf0 step0 : α) :
    Nat → LSState α → LSResult α
  | 0, st => lsFinish st cost0 cf0 step0
  | k + 1, st =>
    if st.ss2 ≤ st.ss1 then
      if st.cf1 < cf0 then ⟨.success, true, st.ss1, st.cf1, -1, st.ss1, st.evals⟩   -- state_up_to_date keeps the value of the last check
      else ⟨.failed, false, 0, cost0, -1, step0, st.evals⟩
    else
      let ss3 := cubicClamp st.ss1 st.ss2 (cubic st)
      let s := phi ss3
      let st := { st with evals := st.evals ++ [ss3] }
      if !s.costOk then lsRevert st .invalidCost cost0 step0
      else if !s.gradOk then lsRevert st .invalidGrad cost0 step0
      else if wolfe P cost0 grad0 curv ss3 s then ⟨.success, true, ss3, s.cf, 1, ss3, st.evals⟩
      else if s.dg > 0 then lsRefine P phi cubic cost0 grad0 curv cf0 step0 k { st with ss2 := ss3, cf2 := s.cf, grad2 := s.dg }
      else if s.cf < st.cf1 then lsRefine P phi cubic cost0 grad0 curv cf0 step0 k { st with ss1 := ss3, cf1 := s.cf, grad1 := s.dg }
      else lsRefine P phi cubic cost0 grad0 curv cf0 step0 k { st with ss2 := ss3, cf2 := s.cf, grad2 := s.dg }

/-- first loop: "bound the minimum" (after F-17 every pass consumes one of `iterations_remaining`) -/
def lsBracket (P : LSParams α) (phi : α → LSample α) (cubic : LSState α → α) (bound : α) (isBound : Bool)
    (cost0 grad0 curv cf0 step0 : α) : Nat → LSState α → LSResult α
  | 0, st => lsFinish st cost0 cf0 step0
  | k + 1, st =>
    let s := phi st.ss2
    let st := { st with evals := st.evals ++ [st.ss2] }
    if !s.costOk then lsRevert st .invalidCost cost0 step0
    else if !s.gradOk then lsRevert st .invalidGrad cost0 step0
    else if wolfe P cost0 grad0 curv st.ss2 s then
      ⟨if st.atBound then .boundReached else .success, true, st.ss2, s.cf, 1, st.ss2, st.evals⟩
    else
      let st := { st with cf2 := s.cf, grad2 := s.dg }
      if s.dg > 0 ∨ s.cf ≥ st.cf1 then
        lsRefine P phi cubic cost0 grad0 curv cf0 step0 (k + 1) st        -- break: the refinement loop sees the same counter
      else if st.atBound then ⟨.boundReached, true, st.ss2, s.cf, 1, st.ss2, st.evals⟩
      else
        let e := extendStep P bound isBound st.ss1 st.ss2 st.cf1 s.cf s.dg
        lsBracket P phi cubic bound isBound cost0 grad0 curv cf0 step0 k
          { st with ss1 := st.ss2, cf1 := s.cf, grad1 := s.dg, ss2 := e.1, atBound := e.2 }

/-- initial decisions of `line_search`: uphill / zero-length bound step (F-60) / clamp of the first step.
    `bound < 0` means "no bound" (the C++ default argument -1.0). result: (early exit?, ss2, at_bound) -/
def lsInit (P : LSParams α) (bound step0 grad0 : α) : Option Status × α × Bool :=
  let isBound := decide (bound ≥ 0)
  if grad0 ≥ 0 then (some .uphill, 0, false)
  else if isBound ∧ bound ≤ 0 then (some .boundReached, 0, false)
  else
    let ss2 := if P.maxStep > 0 ∧ step0 > P.maxStep then P.maxStep else step0
    if isBound ∧ ss2 ≥ bound then (none, bound, true) else (none, ss2, false)

/-- `Minimizer::line_search`.  `cost0` = `cost_function_` on entry, `grad0` = gradient along the direction at 0,
    `upToDate0` = `state_up_to_date` on entry -/
def lineSearch (P : LSParams α) (phi : α → LSample α) (cubic : LSState α → α) (bound step0 cost0 grad0 curv : α)
    (upToDate0 : Int) : LSResult α :=
  match lsInit P bound step0 grad0 with
  | (some st, _, _) => ⟨st, false, 0, cost0, upToDate0, step0, []⟩
  | (none, ss2, atB) =>
    lsBracket P phi cubic bound (decide (bound ≥ 0)) cost0 grad0 curv cost0 step0 P.maxIter
      ⟨0, ss2, cost0, cost0, grad0, grad0, atB, []⟩

/-! ## The bounded line-search minimizers (Conjugate-Gradient, Conjugate-Gradient-FR, L-BFGS) -/

structure Settings (α : Type) where
  n : Nat
  big : α                 -- numeric_limits<Real>::max()
  lo : Vec α
  up : Vec α
  maxIter : Int           -- max_iterations_
  tol : α                 -- converged_gradient_norm_
  ensure : Int            -- ensure_updated_state_
  ls : LSParams α
  curvCoeff : α           -- cg_curvature_coeff_ / the interpolated L-BFGS coefficient (taken as constant)

/-- how the search direction is produced and what happens when the active set changes or the line search fails.
    `δ` is the private state of the strategy (previous gradient, direction, restart bookkeeping, L-BFGS history). -/
structure DirStrategy (α δ : Type) where
  /-- the bound status changed through a release (`do_restart = true` / `iteration_last_restart = n_iterations_`) -/
  onRelease : δ → Nat → δ
  /-- direction for this iteration from (iteration, x, masked gradient, step_size): direction, new state, step_size passed to the line search -/
  dir : δ → Nat → Vec α → Vec α → α → Vec α × δ × α
  /-- a bound was reached -/
  onBound : δ → Nat → δ
  /-- the line search failed with the given status: `some δ` = carry on (CG restarts once), `none` = give up -/
  onFail : δ → Nat → Option δ
  /-- step size for the next iteration from the step just taken (CG doubles it) -/
  nextStep : α → α

structure DSt (α δ : Type) where
  x : Vec α
  bs : Nat → Int
  cost : α                -- cost_function_
  g : Vec α               -- gradient (masked once the iteration has passed the release test)
  upToDate : Int          -- state_up_to_date
  stepSize : α
  nIter : Nat             -- n_iterations_
  status : Status
  startCost : α
  gnorm : α               -- gradient_norm_
  ds : δ
  calls : List (Vec α)    -- every state handed to calc_cost_function / calc_cost_function_gradient

/-- a point of the search line: `x + (t*dir_scaling)*direction` -/
def linePt (x d : Vec α) (scale t : α) : Vec α := fun i => x i + (t * scale) * d i

/-- "if (state_up_to_date < 1)": evaluate cost and gradient at x, test that they are finite -/
def lsEval {δ : Type} (f : Vec α → Sample α) (st : DSt α δ) : DSt α δ :=
  if st.upToDate < 1 then
    let s := f st.x
    let st1 : DSt α δ :=
      { st with cost := s.cost, g := s.grad, upToDate := 1, calls := st.calls ++ [st.x],
                startCost := (if st.nIter = 0 then s.cost else st.startCost) }
    if !s.costOk then { st1 with status := .invalidCost }
    else if !s.gradOk then { st1 with status := .invalidGrad }
    else st1
  else st

/-- release test, masking of the gradient, convergence test -/
def lsRelease {δ : Type} (S : Settings α) (nrm : Vec α → α) (D : DirStrategy α δ) (st1 : DSt α δ) : DSt α δ :=
  let bs1 := releaseCG st1.bs st1.g
  let released := (List.range S.n).any (fun i => decide (bs1 i ≠ st1.bs i))
  let ds1 := if released then D.onRelease st1.ds st1.nIter else st1.ds
  let g := maskGrad bs1 st1.g
  let gn := gradNorm nrm S.n bs1 g
  { st1 with bs := bs1, g := g, gnorm := gn, ds := ds1, status := if gn ≤ S.tol then .success else st1.status }

/-- the bound step length handed to `line_search`: `std::max(bound_step_size, 0.0)` (F-60: rounding may have left a
    free variable an ulp beyond its face) or `-1.0`, the default argument, when no face is ahead -/
def nbBound (nb : NB α) : α := match nb.idx with | some _ => max nb.b 0 | none => -1

/-- "Find search direction" -/
def sDir {δ : Type} (D : DirStrategy α δ) (st2 : DSt α δ) : Vec α :=
  (D.dir st2.ds st2.nIter st2.x st2.g st2.stepSize).1

/-- "Distance to the nearest bound"; `nrm (sDir ..)` is `dir_scaling = norm2(direction)` of the driver -/
def sNB {δ : Type} (S : Settings α) (nrm : Vec α → α) (D : DirStrategy α δ) (st2 : DSt α δ) : NB α :=
  nearestBound S.n S.big (nrm (sDir D st2)) st2.x (sDir D st2) S.lo S.up

/-- the search line; `1 / nrm (sDir ..)` is `dir_scaling = 1.0/norm2(direction)` of `line_search` -/
def sPt {δ : Type} (nrm : Vec α → α) (D : DirStrategy α δ) (st2 : DSt α δ) : α → Vec α :=
  linePt st2.x (sDir D st2) (1 / nrm (sDir D st2))

/-- the user's function along the search line, as `line_search_gradient_check` sees it -/
def sPhi {δ : Type} (S : Settings α) (f : Vec α → Sample α) (nrm : Vec α → α) (D : DirStrategy α δ) (st2 : DSt α δ) :
    α → LSample α :=
  fun t => ⟨(f (sPt nrm D st2 t)).cost, dot S.n (sDir D st2) (f (sPt nrm D st2 t)).grad * (1 / nrm (sDir D st2)),
            (f (sPt nrm D st2 t)).costOk, (f (sPt nrm D st2 t)).gradOk⟩

/-- the call of `line_search` -/
def sLS {δ : Type} (S : Settings α) (f : Vec α → Sample α) (nrm : Vec α → α) (cubic : LSState α → α)
    (D : DirStrategy α δ) (st2 : DSt α δ) : LSResult α :=
  lineSearch S.ls (sPhi S f nrm D st2) cubic (nbBound (sNB S nrm D st2))
    (D.dir st2.ds st2.nIter st2.x st2.g st2.stepSize).2.2 st2.cost
    (dot S.n (sDir D st2) st2.g * (1 / nrm (sDir D st2))) S.curvCoeff st2.upToDate

/-- direction, nearest bound, line search, capture of the bound reached, status and counters -/
def lsSearch {δ : Type} (S : Settings α) (f : Vec α → Sample α) (nrm : Vec α → α) (cubic : LSState α → α)
    (D : DirStrategy α δ) (st2 : DSt α δ) : DSt α δ :=
  let dr := D.dir st2.ds st2.nIter st2.x st2.g st2.stepSize
  let nb := sNB S nrm D st2
  let pt := sPt nrm D st2
  let r := sLS S f nrm cubic D st2
  let x' := if r.moved then pt r.t else st2.x     -- `x += (ss*dir_scaling)*direction`, not executed when nothing was accepted
  -- the gradient array holds the gradient at x' only if the line search ended on an accepted Wolfe point
  let g' := if r.upToDate = 1 ∧ !r.evals.isEmpty then (f x').grad else st2.g
  -- "if (ls_status == MINIMIZER_STATUS_BOUND_REACHED)"
  let captured : Bool := decide (r.exit = .boundReached) && nb.idx.isSome
  let bs3 : Nat → Int := match nb.idx with
    | some i => if r.exit = .boundReached then upd st2.bs i nb.ty else st2.bs
    | none => st2.bs
  let ds3 := if captured then D.onBound dr.2.1 st2.nIter else dr.2.1
  let lsStatus : Status := if captured then .success else r.exit
  let fail := D.onFail ds3 st2.nIter
  let status0 : Status := if lsStatus = .success then .notYet else match fail with | some _ => .notYet | none => lsStatus
  let ds4 := if lsStatus = .success then ds3 else match fail with | some d' => d' | none => ds3
  let nIter := st2.nIter + 1
  { st2 with x := x', cost := r.cost, upToDate := r.upToDate, g := g', calls := st2.calls ++ r.evals.map pt,
             bs := bs3, ds := ds4, stepSize := D.nextStep r.stepSize, nIter := nIter,
             status := if status0 = .notYet ∧ (nIter : Int) ≥ S.maxIter then .maxIter else status0 }

/-- one pass of the main loop of `minimize_*_bounded` (body of `while (status_ == NOT_YET_CONVERGED)`) -/
def lsPass {δ : Type} (S : Settings α) (f : Vec α → Sample α) (nrm : Vec α → α) (cubic : LSState α → α)
    (D : DirStrategy α δ) (st : DSt α δ) : DSt α δ :=
  let st1 := lsEval f st
  if st1.status ≠ .notYet then st1          -- `break` on a non-finite cost or gradient
  else
    let st2 := lsRelease S nrm D st1
    if st2.status ≠ .notYet then st2        -- `break` on convergence
    else lsSearch S f nrm cubic D st2

/-- the `ensure_updated_state` epilogue -/
def lsEpilogue {δ : Type} (S : Settings α) (f : Vec α → Sample α) (st : DSt α δ) : DSt α δ :=
  if st.upToDate < S.ensure then { st with cost := (f st.x).cost, calls := st.calls ++ [st.x] } else st

/-- initial state of `minimize_*_bounded` after the projection of the start -/
def lsStart {δ : Type} (S : Settings α) (x0 : Vec α) (d0 : δ) (step0 : α) : DSt α δ :=
  { x := project S.lo S.up x0, bs := initBoundStatus S.lo S.up x0, cost := 0, g := fun _ => 0, upToDate := -1,
    stepSize := step0, nIter := 0, status := .notYet, startCost := 0, gnorm := 0, ds := d0, calls := [] }

/-- `minimize_conjugate_gradient_bounded` / `minimize_limited_memory_bfgs_bounded`: status and final state, or
    `invalidBounds` with the state untouched.  `passes` bounds the number of loop passes (see `C18_ls_terminates`:
    `max maxIter 1` passes always suffice). -/
def lsMinimize {δ : Type} (S : Settings α) (f : Vec α → Sample α) (nrm : Vec α → α) (cubic : LSState α → α)
    (D : DirStrategy α δ) (x0 : Vec α) (d0 : δ) (step0 : α) (passes : Nat) : DSt α δ :=
  if boundsInvalid S.n S.lo S.up then
    { (lsStart S x0 d0 step0) with x := x0, status := .invalidBounds }
  else
    lsEpilogue S f (loopN (lsPass S f nrm cubic D) (fun st => decide (st.status = .notYet)) passes (lsStart S x0 d0 step0))

/-! ### The Conjugate-Gradient direction strategy -/

structure CGState (α : Type) where
  dir : Vec α
  prevGrad : Vec α
  doRestart : Bool
  lastRestart : Nat       -- iteration_at_last_restart

/-- "Find search direction" of the Conjugate-Gradient minimizers (`fr`: Fletcher-Reeves, else Polak-Ribière) -/
def cgDir (n : Nat) (fr : Bool) (c : CGState α) (it : Nat) (_x g : Vec α) (step : α) : Vec α × CGState α × α :=
  let doRestart := c.doRestart || decide (it - c.lastRestart > n)
  if doRestart then
    let d : Vec α := fun i => -(g i)
    (d, { dir := d, prevGrad := g, doRestart := false, lastRestart := it }, step)
  else
    let beta : α :=
      if fr then dot n g g / dot n c.prevGrad c.prevGrad
      else max (dot n g (fun i => g i - c.prevGrad i) / dot n c.prevGrad c.prevGrad) 0
    let d : Vec α := fun i => beta * c.dir i - g i
    (d, { dir := d, prevGrad := g, doRestart := false, lastRestart := if beta ≤ 0 then it else c.lastRestart }, step)

def cgStrategy (n : Nat) (fr : Bool) : DirStrategy α (CGState α) where
  onRelease := fun c _ => { c with doRestart := true }
  dir := cgDir n fr
  onBound := fun c _ => { c with doRestart := true }
  onFail := fun c it => if c.lastRestart ≠ it then some { c with doRestart := true } else none
  nextStep := fun s => s * 2.0

def cgInit : CGState α := { dir := fun _ => 0, prevGrad := fun _ => 0, doRestart := true, lastRestart := 0 }

end Sci

end Field

end Adept.Minimizer
