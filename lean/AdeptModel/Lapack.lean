/-!
# M9 — LAPACK contracts (the six routines Adept's `solve`/`inv` use)

Contract-level specification of `?gesv ?sysv ?getrf ?getri ?sytrf ?sytri` (the Fortran entry points
declared in `adept/cpplapack.h`) as *total functions on column-major buffers* described by
`(n, lda, uplo)`, transcribed from the Netlib reference documentation:

* `?gesv (n, nrhs, A, lda, ipiv, B, ldb, info)`: on exit with `info = 0`, `B` holds `X` with `A·X = B`;
  `info = i > 0`: `U(i,i)` is exactly zero, the factorisation has been completed but no solution computed;
  `A` is overwritten by the factors in either case.
* `?sysv (uplo, …)`: the same for the symmetric matrix of which only the `uplo` triangle is referenced.
* `?getrf` + `?getri`: `A` is overwritten by its inverse; `info > 0`: exactly singular.
* `?sytrf` + `?sytri`: the `uplo` triangle is overwritten by that triangle of the (symmetric) inverse.

`Impl α` is the signature of an implementation, `Contract L` what the proofs of C16 assume about it
(a hypothesis, not an axiom: every theorem is `∀ L, Contract L → …`).  `ratImpl` is an executable
instance over `Rat` (exact Gauss–Jordan elimination) used by the `adept_model solve` driver; it is
validated against an independent exact oracle (Python `Fraction`s) by checks/c16.py on every run.
Core Lean only.
-/
namespace Adept.Lapack

/-- a buffer handed to a Fortran routine: element `k` of the allocation (total; what lies outside the
    part a routine is entitled to touch is simply never looked at) -/
abbrev Buf (α : Type) := Nat → α

inductive Uplo | U | L
  deriving DecidableEq, Repr

def Uplo.letter : Uplo → String
  | .U => "U"
  | .L => "L"

/-- is `(i,j)` in the triangle (diagonal included) that `uplo` designates? -/
def Uplo.inTri : Uplo → Nat → Nat → Bool
  | .U, i, j => decide (i ≤ j)
  | .L, i, j => decide (j ≤ i)

section Spec
variable {α : Type} [Zero α] [One α] [Add α] [Mul α]

/-- `Σ_{j<n} f j` -/
def sumTo (n : Nat) (f : Nat → α) : α :=
  match n with
  | 0 => 0
  | k + 1 => sumTo k f + f k

/-- the general matrix a Fortran routine sees in a column-major buffer with leading dimension `ld` -/
def geMat (ld : Nat) (a : Buf α) (i j : Nat) : α := a (i + j * ld)

/-- the symmetric matrix denoted by the `uplo` triangle of a column-major buffer: the other triangle is
    NOT referenced -/
def syMat (u : Uplo) (ld : Nat) (a : Buf α) (i j : Nat) : α :=
  match u with
  | .U => if i ≤ j then a (i + j * ld) else a (j + i * ld)
  | .L => if j ≤ i then a (i + j * ld) else a (j + i * ld)

/-- `M·X = B` on `n` rows and `nrhs` columns -/
def IsSolution (n nrhs : Nat) (M X B : Nat → Nat → α) : Prop :=
  ∀ i, i < n → ∀ k, k < nrhs → sumTo n (fun j => M i j * X j k) = B i k

/-- exactly singular: a non-zero vector in the kernel -/
def Singular (n : Nat) (M : Nat → Nat → α) : Prop :=
  ∃ v : Nat → α, (∃ j, j < n ∧ v j ≠ 0) ∧ ∀ i, i < n → sumTo n (fun j => M i j * v j) = 0

def delta (i k : Nat) : α := if i = k then 1 else 0

/-- `R` is the inverse of `M`: both products are the identity -/
def IsInverse (n : Nat) (M R : Nat → Nat → α) : Prop :=
  ∀ i, i < n → ∀ k, k < n →
    sumTo n (fun j => M i j * R j k) = delta i k ∧ sumTo n (fun j => R i j * M j k) = delta i k

end Spec

/-- what a solver leaves behind: the overwritten `A` (factors), the overwritten `B`, `info` -/
structure SolveOut (α : Type) where
  a : Buf α
  b : Buf α
  info : Int

/-- what a factorisation leaves behind -/
structure FacOut (α : Type) where
  a : Buf α
  ipiv : List Int
  info : Int

/-- what an inversion-from-factors leaves behind -/
structure InvOut (α : Type) where
  a : Buf α
  info : Int

/-- signature of an implementation of the six routines (arguments in the Fortran order, work arrays
    and the output-only `ipiv` of the drivers omitted) -/
structure Impl (α : Type) where
  gesv  : (n nrhs : Nat) → (a : Buf α) → (lda : Nat) → (b : Buf α) → (ldb : Nat) → SolveOut α
  sysv  : Uplo → (n nrhs : Nat) → (a : Buf α) → (lda : Nat) → (b : Buf α) → (ldb : Nat) → SolveOut α
  getrf : (n : Nat) → (a : Buf α) → (lda : Nat) → FacOut α
  getri : (n : Nat) → (a : Buf α) → (lda : Nat) → (ipiv : List Int) → InvOut α
  sytrf : Uplo → (n : Nat) → (a : Buf α) → (lda : Nat) → FacOut α
  sytri : Uplo → (n : Nat) → (a : Buf α) → (lda : Nat) → (ipiv : List Int) → InvOut α

/-- The LAPACK contract assumed by C16, for argument lists that pass LAPACK's own argument checks
    (`lda ≥ n`, `ldb ≥ n`).  Nothing is said about the contents of `A` and `B` after a failed call,
    nor about the format of the factors. -/
structure Contract {α : Type} [Zero α] [One α] [Add α] [Mul α] (L : Impl α) : Prop where
  gesv_ok : ∀ n nrhs a lda b ldb, n ≤ lda → n ≤ ldb → (L.gesv n nrhs a lda b ldb).info = 0 →
    IsSolution n nrhs (geMat lda a) (geMat ldb (L.gesv n nrhs a lda b ldb).b) (geMat ldb b)
  gesv_sing : ∀ n nrhs a lda b ldb, n ≤ lda → n ≤ ldb → Singular n (geMat lda a) →
    0 < (L.gesv n nrhs a lda b ldb).info
  gesv_reg : ∀ n nrhs a lda b ldb, n ≤ lda → n ≤ ldb → ¬ Singular n (geMat lda a) →
    (L.gesv n nrhs a lda b ldb).info = 0
  sysv_ok : ∀ u n nrhs a lda b ldb, n ≤ lda → n ≤ ldb → (L.sysv u n nrhs a lda b ldb).info = 0 →
    IsSolution n nrhs (syMat u lda a) (geMat ldb (L.sysv u n nrhs a lda b ldb).b) (geMat ldb b)
  sysv_sing : ∀ u n nrhs a lda b ldb, n ≤ lda → n ≤ ldb → Singular n (syMat u lda a) →
    0 < (L.sysv u n nrhs a lda b ldb).info
  sysv_reg : ∀ u n nrhs a lda b ldb, n ≤ lda → n ≤ ldb → ¬ Singular n (syMat u lda a) →
    (L.sysv u n nrhs a lda b ldb).info = 0
  getrf_sing : ∀ n a lda, n ≤ lda → Singular n (geMat lda a) → 0 < (L.getrf n a lda).info
  getrf_reg : ∀ n a lda, n ≤ lda → ¬ Singular n (geMat lda a) → (L.getrf n a lda).info = 0
  getri_ok : ∀ n a lda, n ≤ lda → (L.getrf n a lda).info = 0 →
    (L.getri n (L.getrf n a lda).a lda (L.getrf n a lda).ipiv).info = 0 ∧
    IsInverse n (geMat lda a) (geMat lda (L.getri n (L.getrf n a lda).a lda (L.getrf n a lda).ipiv).a)
  sytrf_sing : ∀ u n a lda, n ≤ lda → Singular n (syMat u lda a) → 0 < (L.sytrf u n a lda).info
  sytrf_reg : ∀ u n a lda, n ≤ lda → ¬ Singular n (syMat u lda a) → (L.sytrf u n a lda).info = 0
  sytri_ok : ∀ u n a lda, n ≤ lda → (L.sytrf u n a lda).info = 0 →
    (L.sytri u n (L.sytrf u n a lda).a lda (L.sytrf u n a lda).ipiv).info = 0 ∧
    IsInverse n (syMat u lda a) (syMat u lda (L.sytri u n (L.sytrf u n a lda).a lda (L.sytrf u n a lda).ipiv).a)

/-! ## Executable instance over `Rat`: exact Gauss–Jordan elimination -/

abbrev RMat := Array (Array Rat)

def RMat.at (m : RMat) (i j : Nat) : Rat := (m.getD i #[]).getD j 0

def readGe (n ld : Nat) (a : Buf Rat) : RMat :=
  Array.ofFn (n := n) fun i => Array.ofFn (n := n) fun j => geMat ld a i.val j.val

def readSy (u : Uplo) (n ld : Nat) (a : Buf Rat) : RMat :=
  Array.ofFn (n := n) fun i => Array.ofFn (n := n) fun j => syMat u ld a i.val j.val

def readRhs (n nrhs ld : Nat) (b : Buf Rat) : RMat :=
  Array.ofFn (n := n) fun i => Array.ofFn (n := nrhs) fun k => geMat ld b i.val k.val

/-- row `i` of `m` minus `f` times row `k` -/
def rowAxpy (f : Rat) (rk ri : Array Rat) : Array Rat :=
  Array.ofFn (n := ri.size) fun j => ri.getD j.val 0 - f * rk.getD j.val 0

/-- one elimination step on the augmented rows at column `k`: `none` if no pivot is left in the column -/
def gjStep (n : Nat) (rows : RMat) (k : Nat) : Option RMat :=
  match (List.range n).find? (fun i => k ≤ i ∧ rows.at i k ≠ 0) with
  | none => none
  | some p =>
    let rp := rows.getD p #[]
    let rk := rows.getD k #[]
    let rows := (rows.setIfInBounds p rk).setIfInBounds k rp
    let piv := rp.getD k 0
    let rkn := rp.map (· / piv)
    let rows := rows.setIfInBounds k rkn
    some (Array.ofFn (n := rows.size) fun i =>
      if i.val = k then rkn else rowAxpy ((rows.getD i.val #[]).getD k 0) rkn (rows.getD i.val #[]))

/-- Gauss–Jordan on `[M | R]` (`n` rows): `.inr X` with `M·X = R`, or `.inl k` with `k` the (0-based) column
    in which no pivot was found (`M` exactly singular) -/
def gaussJordan (n : Nat) (M R : RMat) : Nat ⊕ RMat :=
  let aug : RMat := Array.ofFn (n := n) fun i => (M.getD i.val #[]) ++ (R.getD i.val #[])
  let rec go (fuel k : Nat) (rows : RMat) : Nat ⊕ RMat :=
    match fuel with
    | 0 => .inr rows
    | f + 1 =>
      match gjStep n rows k with
      | none => .inl k
      | some rows' => go f (k + 1) rows'
  match go n 0 aug with
  | .inl k => .inl k
  | .inr rows => .inr (rows.map fun r => r.extract n r.size)

def identity (n : Nat) : RMat :=
  Array.ofFn (n := n) fun i => Array.ofFn (n := n) fun j => if i.val = j.val then 1 else 0

/-- write an `n × m` matrix into a column-major buffer with leading dimension `ld` (rest untouched) -/
def writeGe (n m ld : Nat) (X : RMat) (old : Buf Rat) : Buf Rat :=
  fun k => if ld = 0 then old k else
    let i := k % ld
    let j := k / ld
    if i < n ∧ j < m then X.at i j else old k

/-- write only the `uplo` triangle -/
def writeSy (u : Uplo) (n ld : Nat) (X : RMat) (old : Buf Rat) : Buf Rat :=
  fun k => if ld = 0 then old k else
    let i := k % ld
    let j := k / ld
    if i < n ∧ j < n ∧ u.inTri i j = true then X.at i j else old k

/-- the executable instance.  Conventions where LAPACK leaves freedom: `info = k+1` for the first column
    without a pivot; on failure `B` is left alone and `A` is left as received; the "factorisation" written by
    `?getrf`/`?sytrf` is the matrix itself (the contract does not fix a format), `?getri`/`?sytri` invert it. -/
def ratImpl : Impl Rat where
  gesv n nrhs a lda b ldb :=
    match gaussJordan n (readGe n lda a) (readRhs n nrhs ldb b) with
    | .inl k => { a := a, b := b, info := (k : Int) + 1 }
    | .inr X => { a := a, b := writeGe n nrhs ldb X b, info := 0 }
  sysv u n nrhs a lda b ldb :=
    match gaussJordan n (readSy u n lda a) (readRhs n nrhs ldb b) with
    | .inl k => { a := a, b := b, info := (k : Int) + 1 }
    | .inr X => { a := a, b := writeGe n nrhs ldb X b, info := 0 }
  getrf n a lda :=
    match gaussJordan n (readGe n lda a) (identity n) with
    | .inl k => { a := a, ipiv := [], info := (k : Int) + 1 }
    | .inr _ => { a := a, ipiv := (List.range n).map (fun (i : Nat) => (i : Int) + 1), info := 0 }
  getri n a lda _ :=
    match gaussJordan n (readGe n lda a) (identity n) with
    | .inl k => { a := a, info := (k : Int) + 1 }
    | .inr X => { a := writeGe n n lda X a, info := 0 }
  sytrf u n a lda :=
    match gaussJordan n (readSy u n lda a) (identity n) with
    | .inl k => { a := a, ipiv := [], info := (k : Int) + 1 }
    | .inr _ => { a := a, ipiv := (List.range n).map (fun (i : Nat) => (i : Int) + 1), info := 0 }
  sytri u n a lda _ :=
    match gaussJordan n (readSy u n lda a) (identity n) with
    | .inl k => { a := a, info := (k : Int) + 1 }
    | .inr X => { a := writeSy u n lda X a, info := 0 }

end Adept.Lapack
