/-
M4 — the recording buffers of `adept::internal::StackStorageOrig`: the operation stack
(`multiplier_`/`index_`, `n_operations_`, `n_allocated_operations_`) and the statement stack
(`statement_`, `n_statements_`, `n_allocated_statements_`).

Transcribed from include/adept/StackStorageOrig.h (push_rhs, push_rhs_indices, push_lhs, push_lhs_range,
check_space) and adept/StackStorageOrig.cpp (grow_operation_stack, grow_statement_stack), plus
Stack::preallocate_statements / preallocate_operations (Stack.h).

Only the *bookkeeping* is modelled: which index each event writes and how long the arrays are.  An event
stream is what a recording site does to the buffers (hook H1 logs it from the real code).  Core Lean only.
-/
namespace Adept.RecBuf

structure B where
  nOps : Nat
  allocOps : Nat
  nSt : Nat
  allocSt : Nat
deriving Repr, DecidableEq

inductive Ev
  | check (k : Nat)              -- check_space(k)
  | push                         -- push_rhs
  | pushIdx (num stride : Nat)   -- push_rhs_indices<Num,Stride>
  | lhs                          -- push_lhs
  | lhsRange (n : Nat)           -- push_lhs_range(first, n, stride)
  | preOps (n : Nat)             -- preallocate_operations(n)
  | preSt (n : Nat)              -- preallocate_statements(n)
deriving Repr, DecidableEq

/-- `new_size = 2*alloc; if (min > 0 && new_size < alloc+min) new_size += min` -/
def grow (alloc min : Nat) : Nat :=
  if 0 < min ∧ 2 * alloc < alloc + min then 2 * alloc + min else 2 * alloc

/-- one event: the new state and whether the event wrote at or beyond an allocated length -/
def step (b : B) : Ev → B × Bool
  | .check k =>
    (if b.allocOps < b.nOps + k + 1 then { b with allocOps := grow b.allocOps k } else b, false)
  | .push => ({ b with nOps := b.nOps + 1 }, decide (b.allocOps ≤ b.nOps))
  | .pushIdx num stride => ({ b with nOps := b.nOps + 1 }, decide (b.allocOps ≤ b.nOps + (num - 1) * stride))
  | .lhs =>
    let b' := if b.nSt ≥ b.allocSt then { b with allocSt := grow b.allocSt 0 } else b
    ({ b' with nSt := b'.nSt + 1 }, decide (b'.allocSt ≤ b'.nSt))
  | .lhsRange n =>
    let b' := if b.nSt + n > b.allocSt then { b with allocSt := grow b.allocSt n } else b
    ({ b' with nSt := b'.nSt + n }, decide (0 < n ∧ b'.allocSt < b'.nSt + n))
  | .preOps n =>
    (if b.allocOps < b.nOps + n + 1 then { b with allocOps := grow b.allocOps n } else b, false)
  | .preSt n =>
    (if b.nSt + n + 1 ≥ b.allocSt then { b with allocSt := grow b.allocSt n } else b, false)

def stepAcc (acc : B × Bool) (e : Ev) : B × Bool :=
  let r := step acc.1 e
  (r.1, acc.2 || r.2)

/-- run an event stream; the flag says whether any event faulted -/
def run (b : B) (es : List Ev) : B × Bool := es.foldl stepAcc (b, false)

/-- state after `Stack::Stack()`: both arrays have `ADEPT_INITIAL_STACK_LENGTH` entries and
    `new_recording()` has pushed the null statement -/
def initial (len : Nat) : B := (step ⟨0, len, 0, len⟩ .lhs).1

/-- `new_recording()`: `clear_stack()` then the null statement -/
def newRecording (b : B) : B := (step { b with nOps := 0, nSt := 0 } .lhs).1

/-! ### The reservation discipline

`free` is the number of operations that may still be pushed without a check.  `check k` guarantees
`free ≥ k` (and never lowers it); every push consumes one.  A stream is *disciplined* from `free` if it
never pushes at `free = 0`. -/

def disciplined : Nat → List Ev → Bool
  | _, [] => true
  | free, .check k :: es => disciplined (max free k) es
  | free, .push :: es => decide (0 < free) && disciplined (free - 1) es
  | free, .pushIdx num stride :: es => decide ((num - 1) * stride < free) && disciplined (free - 1) es
  | free, .lhs :: es => disciplined free es
  | free, .lhsRange _ :: es => disciplined free es
  | free, .preOps k :: es => disciplined (max free k) es
  | free, .preSt _ :: es => disciplined free es

/-- position of the first event that breaks the discipline (for reporting) -/
def firstUndisciplined : Nat → List Ev → Nat → Option Nat
  | _, [], _ => none
  | free, .check k :: es, i => firstUndisciplined (max free k) es (i + 1)
  | free, .push :: es, i => if 0 < free then firstUndisciplined (free - 1) es (i + 1) else some i
  | free, .pushIdx num stride :: es, i =>
    if (num - 1) * stride < free then firstUndisciplined (free - 1) es (i + 1) else some i
  | free, .lhs :: es, i => firstUndisciplined free es (i + 1)
  | free, .lhsRange _ :: es, i => firstUndisciplined free es (i + 1)
  | free, .preOps k :: es, i => firstUndisciplined (max free k) es (i + 1)
  | free, .preSt _ :: es, i => firstUndisciplined free es (i + 1)

/-- search for an adversarial start: initial capacity `len ≤ maxLen` and fill level `pad`
    (operations already on the stack, reserved one at a time) from which the stream faults -/
def findAdversary (es : List Ev) (maxLen : Nat) : Option (Nat × Nat) :=
  (List.range maxLen).findSome? fun l =>
    let len := l + 1
    (List.range (2 * len + 2)).findSome? fun pad =>
      let b0 := (run (initial len) ((List.replicate pad [Ev.check 1, Ev.push]).flatten)).1
      if (run b0 es).2 then some (len, pad) else none

end Adept.RecBuf
