import AdeptModel.Assign
/-
M5 (reduction part) — `sum mean product minval maxval norm2 all any count find minloc maxloc dot_product`
of include/adept/reduce.h, whole (`reduce_inactive`) and along one dimension (`reduce_dimension`), as
definitional folds over the element list of the argument in index order.  `spread` and `outer_product`
are expression nodes of `AdeptModel/Assign.lean` (`Expr.spread`, `Expr.outer`).

As coded: every whole-array function returns 0 (false) for an empty argument (`dims[0] == 0 → total = 0`,
also for `product`, `minval`, `maxval`, `all`); `minloc`/`maxloc` compare strictly, so the *first* extremum
wins, and return 0 for an empty argument.  `mean` is returned as the pair (sum, n) and `norm2` as the sum of
squares: the final `/ n` and `sqrt` are done in the element type by the C++ (`int`: truncating; `double`:
correctly rounded) and by the check's canonicaliser, not in this integer model.

Core Lean only.
-/
namespace Adept.Assign

/-- elements of an expression of extents `dims`, in index order (what `next_value` delivers) -/
def Expr.elems (e : Expr) (dims : List Nat) (m : Mem) : List Int := (idxs dims).map (e.evalAt m)
def BExpr.elems (b : BExpr) (dims : List Nat) (m : Mem) : List Bool := (idxs dims).map (b.evalAt m)

inductive RFn | sum | mean | product | minval | maxval | norm2
deriving Repr, DecidableEq

/-- result of a numeric reduction: a value, or a quotient `num / den` (mean), or `sqrt rad` (norm2) -/
inductive RVal
  | val (x : Int)
  | quot (num : Int) (den : Nat)
  | sqrt (rad : Int)
deriving Repr, DecidableEq

def imax (a b : Int) : Int := if a < b then b else a
def imin (a b : Int) : Int := if b < a then b else a

/-- the fold each policy class performs on a NON-EMPTY element list (`first_value`, `accumulate`, `finish`);
    for `minval`/`maxval` the start value ±inf / INT_MAX/INT_MIN is absorbed by the first element -/
def RFn.fold : RFn → List Int → RVal
  | .sum, xs => .val (xs.foldl (· + ·) 0)
  | .mean, xs => .quot (xs.foldl (· + ·) 0) xs.length
  | .product, xs => .val (xs.foldl (· * ·) 1)
  | .minval, xs => .val (match xs with | [] => 0 | x :: r => r.foldl imin x)
  | .maxval, xs => .val (match xs with | [] => 0 | x :: r => r.foldl imax x)
  | .norm2, xs => .sqrt (xs.foldl (fun t x => t + x * x) 0)

/-- `reduce_inactive<Func>(rhs)` -/
def reduceAll (f : RFn) (e : Expr) (dims : List Nat) (m : Mem) : RVal :=
  if dims.head? == some 0 then .val 0 else f.fold (e.elems dims m)

/-- put `k` at position `d` -/
def insertAt : Nat → Nat → List Nat → List Nat
  | 0, k, is => k :: is
  | _ + 1, k, [] => [k]
  | d + 1, k, i :: is => i :: insertAt d k is

/-- the strip of the argument along dimension `d` that is reduced into element `ixr` of the result -/
def Expr.strip (e : Expr) (dims : List Nat) (d : Nat) (m : Mem) (ixr : List Nat) : List Int :=
  (List.range (dims.getD d 0)).map fun k => e.evalAt m (insertAt d k ixr)
def BExpr.strip (b : BExpr) (dims : List Nat) (d : Nat) (m : Mem) (ixr : List Nat) : List Bool :=
  (List.range (dims.getD d 0)).map fun k => b.evalAt m (insertAt d k ixr)

/-- `reduce_dimension<Func>(rhs, d, total)`: result of extents `dims` without `d`, elements in index order;
    an empty argument gives an empty result -/
def reduceDim (f : RFn) (e : Expr) (dims : List Nat) (d : Nat) (m : Mem) : List RVal :=
  if dims.head? == some 0 then [] else (idxs (dropAt d dims)).map fun ixr => f.fold (e.strip dims d m ixr)

inductive BFn | all | any | count
deriving Repr, DecidableEq

def BFn.fold : BFn → List Bool → Int
  | .all, bs => if bs.foldl (· && ·) true then 1 else 0
  | .any, bs => if bs.foldl (· || ·) false then 1 else 0
  | .count, bs => bs.foldl (fun t b => t + (if b then 1 else 0)) 0

def reduceAllB (f : BFn) (b : BExpr) (dims : List Nat) (m : Mem) : Int :=
  if dims.head? == some 0 then 0 else f.fold (b.elems dims m)

def reduceDimB (f : BFn) (b : BExpr) (dims : List Nat) (d : Nat) (m : Mem) : List Int :=
  if dims.head? == some 0 then [] else (idxs (dropAt d dims)).map fun ixr => f.fold (b.strip dims d m ixr)

/-- `find(bool vector)`: indices of the true elements, in order -/
def findL : List Bool → Nat → List Nat
  | [], _ => []
  | b :: bs, i => if b then i :: findL bs (i + 1) else findL bs (i + 1)
def find (b : BExpr) (n : Nat) (m : Mem) : List Nat := findL (b.elems [n] m) 0

/-- `minloc` / `maxloc` (rank 1): running extremum starts at plus/minus infinity (`none`), strict comparison -/
def locLoop (better : Int → Int → Bool) : List Int → Nat → Option Int → Nat → Nat
  | [], _, _, loc => loc
  | x :: xs, i, none, _ => locLoop better xs (i + 1) (some x) i
  | x :: xs, i, some r, loc => if better x r then locLoop better xs (i + 1) (some x) i else locLoop better xs (i + 1) (some r) loc
def minloc (e : Expr) (n : Nat) (m : Mem) : Nat := locLoop (fun x r => decide (x < r)) (e.elems [n] m) 0 none 0
def maxloc (e : Expr) (n : Nat) (m : Mem) : Nat := locLoop (fun x r => decide (x > r)) (e.elems [n] m) 0 none 0

/-- `dot_product(l, r)` is `sum(l*r)` -/
def dotProduct (l r : Expr) (n : Nat) (m : Mem) : RVal := reduceAll .sum (.bin .mul l r) [n] m

end Adept.Assign
