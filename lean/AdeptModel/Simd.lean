/-!
# SIMD loop partition, alignment negotiation, row padding, reduction split (model for C05)

Core Lean only.  Code-shaped transcription of the *index and alignment logic* that decides which
elements of a passive array statement are evaluated with packets (SIMD vectors of `W` elements):

* `Array::alignment_offset_<n>()`, `Array::columns_aligned_<Rank>()`, `Array::all_arrays_contiguous_()`,
  `Array::pack_row_major_()`, the two vectorized overloads of `Array::assign_expression_`
  (include/adept/Array.h);
* `FixedArray::alignment_offset_<n>()`, `FixedArray::all_arrays_contiguous_()` (include/adept/FixedArray.h);
* `Expression::alignment_offset()`, the fall-back `Expression::alignment_offset_<n>()`
  (include/adept/Expression.h), `BinaryOperation::alignment_offset_<n>()`,
  `BinaryOperation::all_arrays_contiguous_()` (include/adept/BinaryOperation.h), the pass-through
  versions of `UnaryOperation`, `NoAlias`, `BinaryOpScalarLeft/Right`;
* the vectorized `reduce_inactive` (include/adept/reduce.h);
* the compile-time trait `is_vectorizable` of every expression node class, which selects between the packet overloads and
  the element-by-element overloads of `Array::assign_expression_` and `reduce_inactive` (`Expr.vectorizable`): the
  element-wise nodes (`UnaryOperation`, `BinaryOperation`, `BinaryOpScalarLeft/Right`, `NoAlias`) are vectorizable when their
  operands are and their operation has a packet form (`Op::is_vectorized`, same element type on both sides); `Spread` only
  when the spread dimension is not the last dimension of the result (include/adept/spread.h); `OuterProduct`
  (include/adept/outer_product.h), `IndexedArray`, `SpecialMatrix`, bool-valued nodes never.  The census of these traits over
  ALL node classes is regenerated from the sources (translate/vectrait.py -> AdeptModel/Generated/VecTraits.lean).

Nothing here is about floating point: lane-wise equality of the intrinsics with the scalar operation and
all rounding statements are observed by checks/c05.py, not proved.

Addresses are in units of `sizeof(Type)` (the C++ divides the pointer by `sizeof(Type)` first).
`W` is `Packet<Type>::size`.

Three code sites exist in a pinned and a repaired form (findings F-51, F-52, F-53); `Cfg` says which form
the working tree has.  checks/c05.py reads the three sites from the sources, passes the flags to the
driver, and the hook counters validate the choice on every run.
-/
namespace Adept.Simd

/-- which form three code sites have in the working tree (`false` = as pinned) -/
structure Cfg where
  /-- `FixedArray::alignment_offset_<n>` returns the distance *to the next* packet boundary, like
      `Array::alignment_offset_<n>` (repaired); pinned: `(addr/sizeof(Type)) % n`, the distance *from the
      previous* boundary -/
  fixedToBoundary : Bool := false
  /-- `FixedArray::all_arrays_contiguous_` tests that the row pitch (the last extent) is a multiple of the
      packet size when rank > 1 (repaired); pinned: `return true` -/
  fixedRowsChecked : Bool := false
  /-- `Array::columns_aligned_` tests every `offset_[0 … Rank-2]` (repaired); pinned: only `offset_[Rank-2]` -/
  allOuterChecked : Bool := false
deriving DecidableEq, Repr

def Cfg.pinned : Cfg := {}
def Cfg.repaired : Cfg := ⟨true, true, true⟩

/-! ## leaves -/

/-- `Array::alignment_offset_<n>()`: `(n - (addr/sizeof(Type)) % n) % n`, the number of elements before
    the first one on a packet boundary -/
def arrOffset (W a : Nat) : Nat := (W - a % W) % W

/-- `FixedArray::alignment_offset_<n>()` -/
def fixedOffset (cfg : Cfg) (W a : Nat) : Nat :=
  if cfg.fixedToBoundary then (W - a % W) % W else a % W

/-- `Array::pack_row_major_`, the pitch `offset_[Rank-2]` chosen for a last extent `n`:
    rounded up to a multiple of the packet size if `n >= Packet<Type>::size*2`, else `n` -/
def rowPitch (W n : Nat) : Nat := if 2 * W ≤ n then (n + W - 1) / W * W else n

/-- offsets of dimensions `0 … Rank-2` (outermost first) given the extents of those dimensions and the
    pitch of dimension `Rank-2`: `offset_[i] = dimensions_[i+1]*offset_[i+1]` (loop of `pack_row_major_`,
    `pack_row_major_contiguous_` and `FixedArray::offset_helper`) -/
def outerOffsets (pitch : Nat) : List Nat → List Nat
  | [] => []
  | [_] => [pitch]
  | _ :: d1 :: ds =>
    match outerOffsets pitch (d1 :: ds) with
    | [] => []
    | o1 :: os => (d1 * o1) :: o1 :: os

/-- `pack_row_major_`: offsets of dimensions `0 … Rank-2` of a freshly resized `Array` -/
def packRowMajor (W : Nat) (outerDims : List Nat) (n : Nat) : List Nat :=
  outerOffsets (rowPitch W n) outerDims

/-- `pack_row_major_contiguous_` and `FixedArray`: no padding -/
def packContiguous (outerDims : List Nat) (n : Nat) : List Nat := outerOffsets n outerDims

/-- a strided view of memory: what `Array<Rank,Type>` holds -/
structure View where
  /-- address of `data_` divided by `sizeof(Type)` -/
  a : Nat
  /-- `dimensions_[0 … Rank-2]` -/
  outerDims : List Nat := []
  /-- `offset_[0 … Rank-2]` -/
  outer : List Int := []
  /-- `dimensions_[Rank-1]` -/
  n : Nat
  /-- `offset_[Rank-1]` -/
  inner : Int := 1
deriving Repr

/-- `Array::columns_aligned_<Rank>()`: `true` for rank 1 or unvectorized types, else
    `offset_[Rank-2] % Packet<Type>::size == 0` (pinned) -/
def columnsAligned (cfg : Cfg) (W : Nat) (outer : List Int) : Bool :=
  if W ≤ 1 then true
  else if cfg.allOuterChecked then outer.all (fun o => o % (W : Int) == 0)
  else match outer.getLast? with
    | none => true
    | some o => o % (W : Int) == 0

/-- `Array::all_arrays_contiguous_()`: `offset_[Rank-1] == 1 && columns_aligned_<Rank>()` -/
def arrContig (cfg : Cfg) (W : Nat) (v : View) : Bool :=
  v.inner == 1 && columnsAligned cfg W v.outer

/-- `FixedArray::all_arrays_contiguous_()`; `dims` = all extents, outermost first -/
def fixedContig (cfg : Cfg) (W : Nat) (dims : List Nat) : Bool :=
  if cfg.fixedRowsChecked then
    dims.length < 2 || (match dims.getLast? with | none => true | some n => n % W == 0)
  else true

/-! ## expression trees -/

/-- the part of an array expression that matters for vectorization -/
inductive Expr
  /-- an `Array` -/
  | arr (v : View)
  /-- a `FixedArray` at address `a` with extents `dims` (outermost first), stored contiguously -/
  | fixed (a : Nat) (dims : List Nat)
  /-- a scalar, or any other node that uses the fall-back `alignment_offset_<n>() { return n; }` -/
  | agn
  /-- unary operation / `noalias` / scalar-array operation: passes its argument's answer through.
      `opVec` = the operation has a packet form: `Op<Type>::is_vectorized` (`UnaryOperation`: unary minus, sqrt, fastexp yes;
      abs, exp, log, sin … no), `Op::is_vectorized && is_same<scalar type, element type>` (`BinaryOpScalarLeft/Right`:
      + - * / max min yes; pow, atan2, comparisons no), always for `noalias`; `false` also stands for the bool-valued
      `UnaryBoolOperation` (isnan …), which keeps `Expression`'s fall-back trait -/
  | un (opVec : Bool) (e : Expr)
  /-- `BinaryOperation` of two array expressions; `opVec` = `Op::is_vectorized && is_same<L::type,R::type>`
      (+ - * / max min on operands of one type yes; pow, atan2, comparisons, && ||, mixed float/double no) -/
  | bin (opVec : Bool) (l r : Expr)
  /-- `Spread<SpreadDim,Type,E>` (spread.h): holds its argument as an `Array` (a shallow copy of an array argument, else a
      fresh copy of the evaluated argument); `last` = the spread dimension is the last dimension of the result
      (`SpreadDim == E::rank`): then `advance_location_` must NOT move the argument's index along a row, which the packet
      loops (they advance every index themselves) cannot honour -/
  | spread (last : Bool) (v : View)
  /-- `OuterProduct` (outer_product.h) of two vectors held as `Array<1>`: the left index must not move along a row;
      never vectorizable; `alignment_offset_` / `all_arrays_contiguous_` answer for the right vector -/
  | outer (l r : View)
  /-- a leaf that keeps `Expression`'s fall-back `is_vectorizable = false`, `alignment_offset_<n>() = n`,
      `all_arrays_contiguous_() = true`: `IndexedArray`; also `SpecialMatrix` (declares `false`) -/
  | plain
deriving Repr

/-- the compile-time trait `is_vectorizable` of the expression's type (for an element type that has packets at all:
    `Packet<Type>::is_vectorized`, i.e. `W > 1`, is tested by the callers) -/
def Expr.vectorizable : Expr → Bool
  | .arr _ => true                     -- Array.h: Packet<Type>::is_vectorized
  | .fixed _ _ => true                 -- FixedArray.h: Packet<Type>::is_vectorized
  | .agn => true                       -- Expression.h, Scalar: true
  | .un opVec e => opVec && e.vectorizable
  | .bin opVec l r => l.vectorizable && r.vectorizable && opVec
  | .spread last _ => !last            -- spread.h: SpreadDim != E::rank
  | .outer _ _ => false                -- outer_product.h
  | .plain => false                   -- Expression.h fall-back

/-- `alignment_offset_<n>()` over the tree: a leaf's offset `0 … n-1`, `n` = "alignment does not matter",
    `-1` = clash -/
def Expr.alignOff (cfg : Cfg) (W : Nat) : Expr → Int
  | .arr v => arrOffset W v.a
  | .fixed a _ => fixedOffset cfg W a
  | .agn => W
  | .spread _ v => arrOffset W v.a
  | .outer _ r => arrOffset W r.a
  | .plain => W
  | .un _ e => e.alignOff cfg W
  | .bin _ l r =>
    -- BinaryOperation::alignment_offset_<n>()
    let lo := l.alignOff cfg W
    let ro := r.alignOff cfg W
    if lo = ro then lo
    else if lo = W then ro
    else if ro = W then lo
    else -1

/-- `Expression::alignment_offset()`: `val < Packet<Type>::size ? val : 0` -/
def Expr.alignmentOffset (cfg : Cfg) (W : Nat) (e : Expr) : Int :=
  let v := e.alignOff cfg W
  if v < W then v else 0

/-- `all_arrays_contiguous_()` over the tree -/
def Expr.allContig (cfg : Cfg) (W : Nat) : Expr → Bool
  | .arr v => arrContig cfg W v
  | .fixed _ dims => fixedContig cfg W dims
  | .agn => true
  | .spread _ v => arrContig cfg W v
  | .outer _ r => arrContig cfg W r
  | .plain => true
  | .un _ e => e.allContig cfg W
  | .bin _ l r => l.allContig cfg W && r.allContig cfg W

/-! ## the loop partition -/

/-- what the hook H2 records: was a vectorizable branch entered, `istartvec`, `iendvec`, packets processed -/
structure Plan where
  vec : Bool
  istart : Nat
  iend : Nat
  packets : Nat
deriving DecidableEq, Repr

def Plan.scalar : Plan := ⟨false, 0, 0, 0⟩

/-- `iendvec = dims[last]-istartvec; iendvec -= iendvec % Packet<Type>::size; iendvec += istartvec;`
    (`n ≥ 2W > s` on every path that reaches it, so the C++ `int` arithmetic never goes negative) -/
def iendOf (W n s : Nat) : Nat := (n - s) - (n - s) % W + s

/-- number of rows visited by the `do … while (my_rank >= 0)` loop: product of the outer extents -/
def rowsOf (outerDims : List Nat) : Nat := outerDims.foldr (· * ·) 1

/-- `istartvec != alignment_offset_<Packet<Type>::size>()` (assignment only; a reduction has no target) -/
def tgtMismatch (s : Int) : Option Nat → Prop
  | some t => s ≠ (t : Int)
  | none => False

instance (s : Int) (o : Option Nat) : Decidable (tgtMismatch s o) := by
  cases o <;> simp only [tgtMismatch] <;> exact inferInstance

/-- the branch structure shared by both vectorized `assign_expression_` overloads and `reduce_inactive`;
    `tgtOff = none` for a reduction (no target to agree with) -/
def planCore (W n rows : Nat) (s : Int) (tgtOff : Option Nat) : Plan :=
  if s < 0 ∨ tgtMismatch s tgtOff then
    ⟨true, 0, 0, 0⟩                      -- istartvec = iendvec = 0: every element takes the scalar loop
  else
    let is := s.toNat
    let ie := iendOf W n is
    ⟨true, is, ie, rows * ((ie - is) / W)⟩

/-- `Array::assign_expression_` for a passive target and a passive right-hand side of the same type.  The overload
    is chosen by `expr_cast<E>::is_vectorizable`: a right-hand side whose type is not vectorizable is evaluated by the
    element-by-element overload, which has no packet loop (the hook stays silent: `Plan.scalar`).  Vectorizable:
    rank 1: `offset_[0] == 1`; rank > 1: `all_arrays_contiguous_()`; the model's `arrContig` is both,
    because `columnsAligned` is `true` when there is no outer dimension -/
def assignPlan (cfg : Cfg) (W : Nat) (t : View) (rhs : Expr) : Plan :=
  if W ≤ 1 then Plan.scalar
  else if rhs.vectorizable && 2 * W ≤ t.n && arrContig cfg W t && rhs.allContig cfg W then
    planCore W t.n (rowsOf t.outerDims) (rhs.alignmentOffset cfg W) (some (arrOffset W t.a))
  else Plan.scalar

/-- `reduce_inactive` over an expression whose extents are `outerDims ++ [n]`: the vectorized overload is chosen by
    `E::is_vectorizable && Packet<Type>::is_vectorized` (and the accumulator having the element type) -/
def reducePlan (cfg : Cfg) (W : Nat) (outerDims : List Nat) (n : Nat) (rhs : Expr) : Plan :=
  if W ≤ 1 then Plan.scalar
  else if rhs.vectorizable && 2 * W ≤ n && rhs.allContig cfg W then
    planCore W n (rowsOf outerDims) (rhs.alignmentOffset cfg W) none
  else Plan.scalar

/-- `A.where(B) = C` (where.h -> `Array::assign_conditional_`): evaluated element by element whatever `C` is; there is
    no packet loop on this path -/
def wherePlan : Plan := Plan.scalar

/-! ## which accumulator receives which element (reduce_inactive, one row) -/

/-- lane `l` of the packet accumulator after the packets `[0,P)` of a body starting at `istart`:
    the elements at indices `istart + p*W + l` -/
def laneIdx (W istart P l : Nat) : List Nat := (List.range P).map (fun p => istart + p * W + l)

/-- indices accumulated into the scalar `total`: head `[0,istart)` then tail `[iend,n)` -/
def scalarIdx (n istart iend : Nat) : List Nat := List.range' 0 istart ++ List.range' iend (n - iend)

/-- all lanes, lane 0 first (the order `hsum`-like horizontal reductions see them) -/
def lanesIdx (W istart P : Nat) : List (List Nat) := (List.range W).map (laneIdx W istart P)

/-- value of the vectorized reduction of one row `x` (as a function of the index) over an arbitrary
    operation `op` with starting value `e`: `total` accumulates head and tail in index order, every lane of
    `ptotal` starts from `e` and accumulates its elements, `accumulate_packet2` folds the lanes into one
    scalar (lane order) and combines it with `total` -/
def reduceVec {α : Type} (op : α → α → α) (e : α) (x : Nat → α) (W n istart iend : Nat) : α :=
  let total := (scalarIdx n istart iend).foldl (fun acc i => op acc (x i)) e
  let lanes := (lanesIdx W istart ((iend - istart) / W)).map (fun is => is.foldl (fun acc i => op acc (x i)) e)
  op total (lanes.foldl op e)

/-- the scalar reduction of the same row -/
def reduceScalar {α : Type} (op : α → α → α) (e : α) (x : Nat → α) (n : Nat) : α :=
  (List.range n).foldl (fun acc i => op acc (x i)) e

end Adept.Simd
