/-
C20 — interpolation (`adept::interp`, `adept::interp2d`, `adept::interp3d`).

Transcribed from
  include/adept/interp.h   internal::extract_interp_extrap,
                           internal::InterpHelper<Array<1,XType,false>>::interp_get_indices_weights,
                           interp (Array overload), interp2d, interp3d

THIS MODEL TRANSCRIBES THE *FIXED* CODE (fixes/F-15.patch).  In the pinned tree the 1-D routine
tests `xii <= x(0)` / `xii >= x(jmax)` (reverse ordering: `>=` / `<=`) before looking at the
extrapolation policy, so under ADEPT_EXTRAPOLATE_CONSTANT a query exactly on an end knot got the
extrapolation value (knots 1 2 4, data 10 20 40, value -1: queries 1 and 4 gave -1).  The fix adds
`|| xii == x(0)` (resp. `|| xii == x(jmax)`) to the clamp test of the four end branches, so a query
on an end knot copies the end value whatever the policy; this is `endBranch` below.  The old behaviour
is `endBranch` without the `Ext.beq` disjunct (see the note at `endBranch`).

Numbers.  Knots and data are elements of an ordered field `α`.  The driver instantiates `α := Rat`
(exact regime of the correspondence check: every intermediate double is exact, so the C++ agrees with
this model exactly, apart from the sign of zero, which is not modelled) and `α := Float` (float regime:
the model repeats the C++ operation order in binary64 and must agree bit for bit; there `fin r` is only
used for finite `r`, overflow is outside the tested range).  Queries, the extrapolation value and
results are `Ext α`: a finite value, `+inf`, `-inf` or NaN, with the IEEE-754 rules for comparisons
(anything with NaN is false) and arithmetic (`inf - inf`, `0 * inf` = NaN, …).
The functions are generic over the notation classes only, so the proof layer can instantiate `α`
with any linear ordered field.

Core Lean only (this file is linked into the `adept_model` driver).
-/
namespace Adept.Interp

/-- what a C++ `double` can hold, over an exact field `α` -/
inductive Ext (α : Type) where
  | fin (r : α)
  | pinf
  | ninf
  | nan
deriving Repr, Inhabited

/-- C `round()` (halves away from zero) on the exact field -/
class HasRound (α : Type) where
  roundC : α → α

instance : HasRound Rat where
  roundC r := if 0 ≤ r then ((r + 1/2).floor : Int) else -(((-r + 1/2).floor : Int) : Rat)

namespace Ext
variable {α : Type} [Zero α] [One α] [Add α] [Sub α] [Mul α] [Div α] [LT α] [LE α]
  [DecidableLT α] [DecidableLE α]

/-- IEEE `a < b` -/
def blt : Ext α → Ext α → Bool
  | fin a, fin b => decide (a < b)
  | nan, _ => false
  | _, nan => false
  | ninf, ninf => false
  | ninf, _ => true
  | _, ninf => false
  | pinf, _ => false
  | _, pinf => true

/-- IEEE `a <= b` -/
def ble : Ext α → Ext α → Bool
  | fin a, fin b => decide (a ≤ b)
  | nan, _ => false
  | _, nan => false
  | ninf, _ => true
  | _, ninf => false
  | _, pinf => true
  | pinf, _ => false

/-- IEEE `a > b`, `a >= b`, `a == b` -/
def bgt (a b : Ext α) : Bool := blt b a
def bge (a b : Ext α) : Bool := ble b a
def beq : Ext α → Ext α → Bool
  | fin a, fin b => decide (a ≤ b) && decide (b ≤ a)     -- `a == b` without assuming decidable equality on `α`
  | pinf, pinf => true
  | ninf, ninf => true
  | _, _ => false

/-- `inf * b` for finite `b` (`pos` = sign of the infinity) -/
def infTimes (pos : Bool) (b : α) : Ext α :=
  if 0 < b then (if pos then pinf else ninf)
  else if b < 0 then (if pos then ninf else pinf)
  else nan

def add : Ext α → Ext α → Ext α
  | fin a, fin b => fin (a + b)
  | nan, _ => nan
  | _, nan => nan
  | pinf, ninf => nan
  | ninf, pinf => nan
  | pinf, _ => pinf
  | _, pinf => pinf
  | ninf, _ => ninf
  | _, ninf => ninf

def sub : Ext α → Ext α → Ext α
  | fin a, fin b => fin (a - b)
  | nan, _ => nan
  | _, nan => nan
  | pinf, pinf => nan
  | ninf, ninf => nan
  | pinf, _ => pinf
  | _, ninf => pinf
  | ninf, _ => ninf
  | _, pinf => ninf

def mul : Ext α → Ext α → Ext α
  | fin a, fin b => fin (a * b)
  | nan, _ => nan
  | _, nan => nan
  | pinf, fin b => infTimes true b
  | ninf, fin b => infTimes false b
  | fin a, pinf => infTimes true a
  | fin a, ninf => infTimes false a
  | pinf, pinf => pinf
  | ninf, ninf => pinf
  | pinf, ninf => ninf
  | ninf, pinf => ninf

/-- division; a zero divisor is taken to be `+0` (never reached for strictly monotone knots) -/
def div : Ext α → Ext α → Ext α
  | fin a, fin b =>
    if b < 0 ∨ 0 < b then fin (a / b)
    else if 0 < a then pinf else if a < 0 then ninf else nan
  | nan, _ => nan
  | _, nan => nan
  | fin _, _ => fin 0
  | pinf, fin b => if 0 ≤ b then pinf else ninf
  | ninf, fin b => if 0 ≤ b then ninf else pinf
  | _, _ => nan

instance : Add (Ext α) := ⟨add⟩
instance : Sub (Ext α) := ⟨sub⟩
instance : Mul (Ext α) := ⟨mul⟩
instance : Div (Ext α) := ⟨div⟩

/-- `round()` of a double -/
def round [HasRound α] : Ext α → Ext α
  | fin a => fin (HasRound.roundC a)
  | e => e

end Ext

open Ext

/-! ## option word -/

def ADEPT_INTERPOLATE_LINEAR : Nat := 0
def ADEPT_INTERPOLATE_NEAREST : Nat := 16      -- (1u<<4)
def ADEPT_EXTRAPOLATE_DEFAULT : Nat := 0
def ADEPT_EXTRAPOLATE_LINEAR : Nat := 1
def ADEPT_EXTRAPOLATE_CLAMP : Nat := 2
def ADEPT_EXTRAPOLATE_CONSTANT : Nat := 3

inductive Err where
  | sizeMismatch      -- adept::size_mismatch
  | arrayException    -- adept::array_exception
deriving Repr, DecidableEq

def Err.name : Err → String
  | .sizeMismatch => "size_mismatch"
  | .arrayException => "array_exception"

/-- `internal::extract_interp_extrap`.  `options` is a 32-bit unsigned word; `options & 15` is
    `options % 16` and `options & ~15` is `options - options % 16`.  Returns (interp_scheme, extrap_policy). -/
def extractInterpExtrap (options : Nat) : Except Err (Nat × Nat) :=
  let interp_scheme := options - options % 16
  let extrap_policy := options % 16
  if interp_scheme ≠ ADEPT_INTERPOLATE_LINEAR ∧ interp_scheme ≠ ADEPT_INTERPOLATE_NEAREST then
    .error .arrayException            -- "Interpolation scheme not understood"
  else if extrap_policy > ADEPT_EXTRAPOLATE_CONSTANT then
    .error .arrayException            -- "Extrapolation policy not understood"
  else if interp_scheme = ADEPT_INTERPOLATE_NEAREST ∧ extrap_policy = ADEPT_EXTRAPOLATE_LINEAR then
    .error .arrayException            -- "Linear extrapolation not available with nearest-neighbour interpolation"
  else if extrap_policy = ADEPT_EXTRAPOLATE_DEFAULT then
    if interp_scheme = ADEPT_INTERPOLATE_LINEAR then .ok (interp_scheme, ADEPT_EXTRAPOLATE_LINEAR)
    else .ok (interp_scheme, ADEPT_EXTRAPOLATE_CLAMP)
  else .ok (interp_scheme, extrap_policy)

section generic
variable {α : Type} [Zero α] [One α] [Add α] [Sub α] [Mul α] [Div α] [LT α] [LE α]
  [DecidableLT α] [DecidableLE α]

/-! ## 1-D: `interp` -/

/-- what the loop body of `interp` decides for one query before the interpolation formula -/
inductive Sel1 where
  | extrap                       -- `ans[i] = extrap_value; continue;`
  | copy (j : Nat)               -- `ans[i] = y[j]; continue;`
  | pair (jmin jmax : Nat)       -- fall through to the formula with this pair
deriving Repr, DecidableEq

/-- normal ordering: `while (jmax > jmin+1) { jmid = jmin + (jmax-jmin)/2;
    if (xii > x(jmid)) jmin = jmid; else jmax = jmid; }` -/
def bisectInc (x : Nat → α) (q : Ext α) (jmin jmax : Nat) : Nat × Nat :=
  if jmax > jmin + 1 then
    let jmid := jmin + (jmax - jmin) / 2
    if bgt q (fin (x jmid)) then bisectInc x q jmid jmax else bisectInc x q jmin jmid
  else (jmin, jmax)
termination_by jmax - jmin
decreasing_by all_goals omega

/-- reverse ordering: the same loop with `if (xii < x(jmid))` -/
def bisectDec (x : Nat → α) (q : Ext α) (jmin jmax : Nat) : Nat × Nat :=
  if jmax > jmin + 1 then
    let jmid := jmin + (jmax - jmin) / 2
    if blt q (fin (x jmid)) then bisectDec x q jmid jmax else bisectDec x q jmin jmid
  else (jmin, jmax)
termination_by jmax - jmin
decreasing_by all_goals omega

/-- One of the four end branches of `interp` (FIXED code):
    ```
    if (extrap_policy == ADEPT_EXTRAPOLATE_LINEAR)  { jmax = 1;  /  jmin = jmax-1; }
    else if (extrap_policy == ADEPT_EXTRAPOLATE_CLAMP || xii == x(jend)) { ans[i] = y[jend]; continue; }
    else { ans[i] = extrap_value; continue; }
    ```
    `jend` is the end knot tested (0 or n-1), `(lo, hi)` the end segment used for linear extrapolation.
    Pinned (unfixed) code: the same without `|| xii == x(jend)`; then with knots 1 2 4, the constant
    policy and `q = 1` this returns `.extrap` although `q` is a knot (finding F-15). -/
def endBranch (x : Nat → α) (policy : Nat) (q : Ext α) (jend lo hi : Nat) : Sel1 :=
  if policy = ADEPT_EXTRAPOLATE_LINEAR then .pair lo hi
  else if policy = ADEPT_EXTRAPOLATE_CLAMP ∨ beq q (fin (x jend)) = true then .copy jend
  else .extrap

/-- loop body of `interp` up to the formula, for `n = x.size() ≥ 2` knots.
    `inc` is the outcome of `x(0) < x(1)`. -/
def select1 (n : Nat) (x : Nat → α) (inc : Bool) (policy : Nat) (q : Ext α) : Sel1 :=
  let jmax := n - 1
  if inc then
    if ble q (fin (x 0)) then endBranch x policy q 0 0 1
    else if bge q (fin (x jmax)) then endBranch x policy q jmax (jmax - 1) jmax
    else let p := bisectInc x q 0 jmax; .pair p.1 p.2
  else
    if bge q (fin (x 0)) then endBranch x policy q 0 0 1
    else if ble q (fin (x jmax)) then endBranch x policy q jmax (jmax - 1) jmax
    else let p := bisectDec x q 0 jmax; .pair p.1 p.2

/-- `((xii-x(jmin))*y[jmax] + (x(jmax)-xii)*y[jmin]) / (x(jmax)-x(jmin))` for one element of the slice.
    When `y[j]` is an Adept expression (a slice of an array with trailing dimensions, or active data)
    `operator/(Expression, floating-point scalar)` (BinaryOperation.h) multiplies by `1.0/r` instead of
    dividing; `recip` says so.  Over an exact field both forms are equal (`linFormula_recip` in the proof
    layer); the distinction matters for the binary64 instance only. -/
def linFormula (recip : Bool) (x : Nat → α) (y : Nat → α) (q : Ext α) (jmin jmax : Nat) : Ext α :=
  let num := (q - fin (x jmin)) * fin (y jmax) + (fin (x jmax) - q) * fin (y jmin)
  let den := fin (x jmax) - fin (x jmin)
  if recip then num * (fin 1 / den) else num / den

/-- which of the pair the nearest-neighbour scheme takes:
    normal ordering `xii-x(jmin) > x(jmax)-xii`, reverse ordering `xii-x(jmin) < x(jmax)-xii` → `jmax`, else `jmin` -/
def nearestPick (x : Nat → α) (inc : Bool) (q : Ext α) (jmin jmax : Nat) : Nat :=
  let a := q - fin (x jmin)
  let b := fin (x jmax) - q
  if (if inc then bgt a b else blt a b) then jmax else jmin

/-- value of one output element (`y` = the data along the interpolated dimension for one trailing index) -/
def eval1 (recip : Bool) (x : Nat → α) (y : Nat → α) (inc : Bool) (scheme : Nat) (ev : Ext α) (q : Ext α) :
    Sel1 → Ext α
  | .extrap => ev
  | .copy j => fin (y j)
  | .pair jmin jmax =>
    if scheme = ADEPT_INTERPOLATE_LINEAR then linFormula recip x y q jmin jmax
    else fin (y (nearestPick x inc q jmin jmax))

/-- the interpolation weights of one output: (knot index, weight).  These are the partial
    derivatives of `eval1` with respect to the data values it reads (`C20_active_weights`). -/
def weights1 (x : Nat → α) (inc : Bool) (scheme : Nat) (q : Ext α) : Sel1 → List (Nat × Ext α)
  | .extrap => []
  | .copy j => [(j, fin 1)]
  | .pair jmin jmax =>
    if scheme = ADEPT_INTERPOLATE_LINEAR then
      let d := fin (x jmax) - fin (x jmin)
      [(jmin, (fin (x jmax) - q) / d), (jmax, (q - fin (x jmin)) / d)]
    else [(nearestPick x inc q jmin jmax, fin 1)]

/-! ## 2-D / 3-D: `interp_get_indices_weights` -/

/-- normal ordering: `Index jj = 0; while (jj < x.size()-2 && x(jj+1) < xii) ++jj;` -/
def scanUp (n : Nat) (x : Nat → α) (q : Ext α) (jj : Nat) : Nat :=
  if jj + 2 < n ∧ blt (fin (x (jj + 1))) q = true then scanUp n x q (jj + 1) else jj
termination_by n - jj
decreasing_by omega

/-- reverse ordering: `Index jj = x.size()-2; while (jj > 0 && x(jj) < xii) --jj;` -/
def scanDown (x : Nat → α) (q : Ext α) : Nat → Nat
  | 0 => 0
  | jj + 1 => if blt (fin (x (jj + 1))) q then scanDown x q jj else jj + 1

/-- index, weight of the first element, validity -/
structure IW (α : Type) where
  ind0 : Nat
  weight0 : Ext α
  valid : Bool := true

/-- the out-of-range branches of `interp_get_indices_weights`: `ind0` and the end segment `(lo, lo+1)`;
    when the policy is neither linear nor clamp the weight is left unset in the C++ (never read,
    because `is_valid(i)` is false); the model puts NaN there -/
def offEnd (x : Nat → α) (policy : Nat) (q : Ext α) (ind : Nat) (clampWeight : α) : IW α :=
  if policy = ADEPT_EXTRAPOLATE_LINEAR then
    { ind0 := ind, weight0 := (fin (x (ind + 1)) - q) / (fin (x (ind + 1)) - fin (x ind)) }
  else if policy = ADEPT_EXTRAPOLATE_CLAMP then { ind0 := ind, weight0 := fin clampWeight }
  else { ind0 := ind, weight0 := nan, valid := false }

/-- one query of `interp_get_indices_weights` before the final rounding (`n = x.size() ≥ 2`);
    `inc` is the outcome of `x(1) > x(0)` -/
def indexWeight (n : Nat) (x : Nat → α) (inc : Bool) (policy : Nat) (q : Ext α) : IW α :=
  let e := n - 1
  if inc then
    if bge q (fin (x 0)) && ble q (fin (x e)) then
      let jj := scanUp n x q 0
      { ind0 := jj, weight0 := (fin (x (jj + 1)) - q) / (fin (x (jj + 1)) - fin (x jj)) }
    else if blt q (fin (x 0)) then offEnd x policy q 0 1          -- weight0 = (x(1)-xii)/(x(1)-x(0)) | 1.0
    else offEnd x policy q (n - 2) 0                               -- (x(end)-xii)/(x(end)-x(end-1)) | 0.0
  else
    if ble q (fin (x 0)) && bge q (fin (x e)) then
      let jj := scanDown x q (n - 2)
      { ind0 := jj, weight0 := (fin (x (jj + 1)) - q) / (fin (x (jj + 1)) - fin (x jj)) }
    else if bgt q (fin (x 0)) then offEnd x policy q 0 1
    else offEnd x policy q (n - 2) 0

/-- `if (interp_scheme == ADEPT_INTERPOLATE_NEAREST) weight0 = round(weight0);` -/
def roundIf [HasRound α] (scheme : Nat) (w : IW α) : IW α :=
  if scheme = ADEPT_INTERPOLATE_NEAREST then { w with weight0 := Ext.round w.weight0 } else w

def indexWeightR [HasRound α] (n : Nat) (x : Nat → α) (inc : Bool) (scheme policy : Nat) (q : Ext α) : IW α :=
  roundIf scheme (indexWeight n x inc policy q)

/-- body of the final loop of `interp2d` for one element of the slice; `m i j` = `M[i][j]` -/
def eval2 (m : Nat → Nat → α) (ev : Ext α) (wx wy : IW α) : Ext α :=
  if wx.valid && wy.valid then
    let xw := wx.weight0; let yw := wy.weight0; let i := wx.ind0; let j := wy.ind0
    yw * (xw * fin (m i j) + (fin 1 - xw) * fin (m (i + 1) j))
      + (fin 1 - yw) * (xw * fin (m i (j + 1)) + (fin 1 - xw) * fin (m (i + 1) (j + 1)))
  else ev

/-- interpolation weights of one `interp2d` output: ((i, j), weight) -/
def weights2 (wx wy : IW α) : List ((Nat × Nat) × Ext α) :=
  if wx.valid && wy.valid then
    let xw := wx.weight0; let yw := wy.weight0; let i := wx.ind0; let j := wy.ind0
    [((i, j), yw * xw), ((i + 1, j), yw * (fin 1 - xw)),
     ((i, j + 1), (fin 1 - yw) * xw), ((i + 1, j + 1), (fin 1 - yw) * (fin 1 - xw))]
  else []

/-- body of the final loop of `interp3d`; `m i j k` = `M[i][j][k]` -/
def eval3 (m : Nat → Nat → Nat → α) (ev : Ext α) (wx wy wz : IW α) : Ext α :=
  if wx.valid && wy.valid && wz.valid then
    let xw := wx.weight0; let yw := wy.weight0; let zw := wz.weight0
    let i := wx.ind0; let j := wy.ind0; let k := wz.ind0
    xw * (yw * (zw * fin (m i j k) + (fin 1 - zw) * fin (m i j (k + 1)))
          + (fin 1 - yw) * (zw * fin (m i (j + 1) k) + (fin 1 - zw) * fin (m i (j + 1) (k + 1))))
      + (fin 1 - xw) *
        (yw * (zw * fin (m (i + 1) j k) + (fin 1 - zw) * fin (m (i + 1) j (k + 1)))
          + (fin 1 - yw) * (zw * fin (m (i + 1) (j + 1) k) + (fin 1 - zw) * fin (m (i + 1) (j + 1) (k + 1))))
  else ev

def weights3 (wx wy wz : IW α) : List ((Nat × Nat × Nat) × Ext α) :=
  if wx.valid && wy.valid && wz.valid then
    let xw := wx.weight0; let yw := wy.weight0; let zw := wz.weight0
    let i := wx.ind0; let j := wy.ind0; let k := wz.ind0
    let u := fin (1 : α)
    [((i, j, k), xw * (yw * zw)), ((i, j, k + 1), xw * (yw * (u - zw))),
     ((i, j + 1, k), xw * ((u - yw) * zw)), ((i, j + 1, k + 1), xw * ((u - yw) * (u - zw))),
     ((i + 1, j, k), (u - xw) * (yw * zw)), ((i + 1, j, k + 1), (u - xw) * (yw * (u - zw))),
     ((i + 1, j + 1, k), (u - xw) * ((u - yw) * zw)), ((i + 1, j + 1, k + 1), (u - xw) * ((u - yw) * (u - zw)))]
  else []

/-! ## array level: sizes, exceptions, trailing dimensions -/

/-- result of one call: dimensions, values (row-major), and per output element its
    interpolation weights as (flat row-major index into the data, weight) -/
structure Result (α : Type) where
  dims : List Nat
  vals : List (Ext α)
  jac : List (List (Nat × Ext α))

def prod (l : List Nat) : Nat := l.foldl (· * ·) 1

/-- dimensions of a freshly constructed `Array(dims)`: an array with an empty dimension is cleared -/
def arrayDims (dims : List Nat) : List Nat :=
  if dims.any (· = 0) then dims.map (fun _ => 0) else dims

/-- `interp(x, y, xi, options, extrap_value)`: `ydims` = dimensions of `y`, `data` its elements in
    row-major order; `exprSlices` = "`y[j]` is an Adept expression" (trailing dimensions or active data) -/
def interp1 (exprSlices : Bool) (xs : Array α) (ydims : List Nat) (data : Array α) (xi : List (Ext α))
    (options : Nat) (ev : Ext α) : Except Err (Result α) :=
  let n := xs.size
  let t := prod (ydims.drop 1)                 -- elements per slice `y[j]`
  let x := fun j => xs.getD j 0
  let yk := fun (k j : Nat) => data.getD (j * t + k) 0
  let dims := arrayDims (xi.length :: ydims.drop 1)
  if n ≠ ydims.headD 0 then .error .sizeMismatch
  else if n = 0 then .error .sizeMismatch
  else if n = 1 then
    -- single point: copied to all outputs whatever their coordinate (the option word is not decoded)
    .ok { dims := dims
          vals := xi.flatMap fun _ => (List.range t).map fun k => fin (yk k 0)
          jac := xi.flatMap fun _ => (List.range t).map fun k => [(k, fin 1)] }
  else
    match extractInterpExtrap options with
    | .error e => .error e
    | .ok (scheme, policy) =>
      let inc := decide (x 0 < x 1)
      .ok { dims := dims
            vals := xi.flatMap fun q =>
              let s := select1 n x inc policy q
              (List.range t).map fun k => eval1 exprSlices x (yk k) inc scheme ev q s
            jac := xi.flatMap fun q =>
              let s := select1 n x inc policy q
              (List.range t).map fun k => (weights1 x inc scheme q s).map fun (j, w) => (j * t + k, w) }

/-- `interp2d(x, y, M, xi, yi, options, extrap_value)` -/
def interp2 [HasRound α] (xs ys : Array α) (mdims : List Nat) (data : Array α) (xi yi : List (Ext α))
    (options : Nat) (ev : Ext α) : Except Err (Result α) :=
  let nx := xs.size; let ny := ys.size
  let t := prod (mdims.drop 2)
  let x := fun j => xs.getD j 0
  let y := fun j => ys.getD j 0
  let m := fun (k i j : Nat) => data.getD ((i * ny + j) * t + k) 0
  if nx ≠ mdims.getD 0 0 then .error .sizeMismatch
  else if ny ≠ mdims.getD 1 0 then .error .sizeMismatch
  else if nx < 2 ∨ ny < 2 then .error .sizeMismatch
  else if xi.length ≠ yi.length then .error .sizeMismatch
  else
    match extractInterpExtrap options with
    | .error e => .error e
    | .ok (scheme, policy) =>
      let incx := decide (x 1 > x 0); let incy := decide (y 1 > y 0)
      let qs := xi.zip yi
      let iw := fun (q : Ext α × Ext α) =>
        (indexWeightR nx x incx scheme policy q.1, indexWeightR ny y incy scheme policy q.2)
      .ok { dims := arrayDims (xi.length :: mdims.drop 2)
            vals := qs.flatMap fun q => let w := iw q
              (List.range t).map fun k => eval2 (m k) ev w.1 w.2
            jac := qs.flatMap fun q => let w := iw q
              (List.range t).map fun k => (weights2 w.1 w.2).map fun (ij, c) => ((ij.1 * ny + ij.2) * t + k, c) }

/-- `interp3d(x, y, z, M, xi, yi, zi, options, extrap_value)` -/
def interp3 [HasRound α] (xs ys zs : Array α) (mdims : List Nat) (data : Array α) (xi yi zi : List (Ext α))
    (options : Nat) (ev : Ext α) : Except Err (Result α) :=
  let nx := xs.size; let ny := ys.size; let nz := zs.size
  let t := prod (mdims.drop 3)
  let x := fun j => xs.getD j 0
  let y := fun j => ys.getD j 0
  let z := fun j => zs.getD j 0
  let m := fun (l i j k : Nat) => data.getD (((i * ny + j) * nz + k) * t + l) 0
  if nx ≠ mdims.getD 0 0 then .error .sizeMismatch
  else if ny ≠ mdims.getD 1 0 then .error .sizeMismatch
  else if nz ≠ mdims.getD 2 0 then .error .sizeMismatch
  else if nx < 2 ∨ ny < 2 ∨ nz < 2 then .error .sizeMismatch
  else if xi.length ≠ yi.length ∨ xi.length ≠ zi.length then .error .sizeMismatch
  else
    match extractInterpExtrap options with
    | .error e => .error e
    | .ok (scheme, policy) =>
      let incx := decide (x 1 > x 0); let incy := decide (y 1 > y 0); let incz := decide (z 1 > z 0)
      let qs := xi.zip (yi.zip zi)
      let iw := fun (q : Ext α × Ext α × Ext α) =>
        (indexWeightR nx x incx scheme policy q.1, indexWeightR ny y incy scheme policy q.2.1,
         indexWeightR nz z incz scheme policy q.2.2)
      .ok { dims := arrayDims (xi.length :: mdims.drop 3)
            vals := qs.flatMap fun q => let w := iw q
              (List.range t).map fun l => eval3 (m l) ev w.1 w.2.1 w.2.2
            jac := qs.flatMap fun q => let w := iw q
              (List.range t).map fun l => (weights3 w.1 w.2.1 w.2.2).map fun (ijk, c) =>
                (((ijk.1 * ny + ijk.2.1) * nz + ijk.2.2) * t + l, c) }

end generic

end Adept.Interp
