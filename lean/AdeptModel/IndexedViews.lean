import AdeptModel.Views
/-
M5 (part) — integer-vector indexing: `A(idx)`, `M(rows, 1)`, `M(__, cols)`, `A(1, end, idx)`,
`A(idx1, range(…), idx2)` …  When at least one argument of `Array::operator()` is a rank-1 integer
expression that is not a `RangeIndex` (an `intVector`, `idx + 1`, `end - idx`, …) the call returns an
`internal::IndexedArray`: an expression (not an `Array`) that keeps references to the array and to the
index objects and translates its own coordinates to coordinates of the array on every access.

Transcribed from
  include/adept/IndexedArray.h   get_size_with_len, get_value_with_len (both builds),
                                 IndexedArray::IndexedArray / set_dimensions_, translate_coords_,
                                 get_value_with_len_, set_location_ / advance_location_ (read path),
                                 assign_expression_ / assign_inactive_scalar_ (write paths), empty()
  include/adept/RangeIndex.h     RangeIndex::size_with_len_ / value_with_len_ / begin(len) / end(len),
                                 AllIndex::size_with_len_ / value_with_len_, EndIndex::value_with_len_
  include/adept/Array.h          the `is_irreg_indexed` overloads of `operator()`

`end` inside any argument (scalar `end-k`, range end points, the vector expression `end - idx`)
resolves to `len - 1` of THE DIMENSION THAT ARGUMENT INDEXES (`a_dims_[OutDim]`): the recursion below
pairs every selector with its own extent.

`empty()` is modelled with every extent tested (proposed fix `fixes/C06-indexed-empty-extent.patch`; the
pinned `empty()` tests `dimensions_[0]` only, and an empty index vector or range in a later position then
makes the write loops store to cells the selection does not denote / read entry 0 of an empty vector).

Core Lean only (this file is linked into the `adept_model` driver).
-/
namespace Adept.Views

/-- one argument of `Array::operator()` in a call that returns an `IndexedArray` -/
inductive Sel
  | at (e : EndExpr)                    -- scalar `int` or rank-0 expression (`end - k`): dimension dropped
  | range (b e s : EndExpr)             -- `range(b,e)` (s = `lit 1`) / `stride(b,e,s)`
  | all                                 -- `__`
  | vec (es : List EndExpr)             -- rank-1 integer expression: its entries (`.fromEnd k` for `end - k`).
      -- The entries are those of the index object IN ITS OWN INDEX ORDER: an index vector that is itself a view
      -- (`idx(stride(0,end,2))`, a reversed `big(stride(5,0,-1))`, a column `IM(__,1)` of an intMatrix) is just another
      -- entry list — `Array<1,int>::value_with_len_(j,len) = data_[j*offset_[0]]` steps with the view's own offset —
      -- and so is a `FixedArray<int,false,n>` (its own copy of the accessor, `data_[j]`).  The selector type needs no
      -- extension; the harness builds such views around the entry list (layout prefix `sOFF.STR|`, `cK.NC|`, `rK.NR|`,
      -- selector `f:`) and the theorems about `Sel.vec` apply unchanged.
deriving Repr, DecidableEq

def Sel.isVec : Sel → Bool
  | .vec _ => true
  | _ => false

/-- the range test of the `ADEPT_BOUNDS_CHECKING` versions of `get_value_with_len` (`i < 0 || i >= len`) -/
def checkIdx (checked : Bool) (len : Nat) (i : Int) : Except Err Int :=
  if checked && (i < 0 || i ≥ (len : Int)) then .error .index_out_of_bounds else .ok i

/-- `get_size_with_len(index, len)` for a non-scalar argument.  `RangeIndex::size_with_len_` is
    `(end(len) - begin(len) + stride(len)) / stride(len)` with `begin(len)`/`end(len)` going through
    `get_index_with_len` (range-tested in the checked build): the computation of `updateRange`. -/
def selSize (checked : Bool) (len : Nat) : Sel → Except Err Nat
  | .at _ => .ok 1
  | .range b e s => do
      let (_, n, _) ← updateRange checked len 0 b e (s.resolve len)
      .ok n
  | .all => .ok len
  | .vec es => .ok es.length

/-- `get_value_with_len(index, j, len)`: value number `j` of one index object, range-tested in the
    checked build whatever the kind of the index object -/
def selValue (checked : Bool) (len : Nat) : Sel → Int → Except Err Int
  | .at e, _ => checkIdx checked len (e.resolve len)                -- `j` is 0
  | .range b _ s, j => do
      let bi ← getIndexWithLen checked b len                        -- `begin(len) + stride(len)*j`
      checkIdx checked len (bi + s.resolve len * j)
  | .all, j => checkIdx checked len j
  | .vec es, j =>
      match es[j.toNat]? with
      | some e => checkIdx checked len (e.resolve len)              -- `ind.value_with_len(j, len)`
      | none => .error .undefined                                   -- not reached: `j` is below the size

/-- `set_dimensions_<0,0>()`: one extent per non-scalar argument, in order -/
def ixDims (checked : Bool) : List Nat → List Sel → Except Err (List Nat)
  | [], [] => .ok []
  | _ :: ds, .at _ :: ss => ixDims checked ds ss
  | d :: ds, s :: ss => do
      let n ← selSize checked d s
      let rest ← ixDims checked ds ss
      .ok (n :: rest)
  | _, _ => .error .bad_rank

/-- the index expressions of one selector -/
def Sel.exprs : Sel → List EndExpr
  | .at e => [e]
  | .range b e s => [b, e, s]
  | .all => []
  | .vec es => es

/-- every index expression of the call can be evaluated for the dimension it indexes (no division by zero) -/
def selsDefined : List Nat → List Sel → Bool
  | d :: ds, s :: ss => s.exprs.all (·.defined d) && selsDefined ds ss
  | _, _ => true

/-- an `IndexedArray`: the array it refers to (`a_`), the index objects and `dimensions_` -/
structure IView where
  parent : View
  sels : List Sel
  dims : List Nat
deriving Repr

/-- `A(i0,i1,…)` with at least one integer vector among the arguments (otherwise the call is a slice
    or an element access and does not produce an `IndexedArray`) -/
def indexed (v : View) (sels : List Sel) (checked : Bool) : Except Err IView :=
  if ¬ sels.any Sel.isVec then .error .bad_rank else do
    let dims ← ixDims checked v.dims sels
    .ok ⟨v, sels, dims⟩

/-- `translate_coords_<0,0>(coords, a_coords)` completed with the term
    `get_value_with_len_<a_fastest_varying_dim>(coords[Rank-1])` that the loops add for the last
    non-scalar dimension: the coordinates in `a_` of element `ix`.  A scalar argument is resolved
    (and, in the checked build, range-tested) against the extent of ITS OWN dimension. -/
def translateCoords (checked : Bool) : List Nat → List Sel → List Int → Except Err (List Int)
  | [], [], [] => .ok []
  | d :: ds, .at e :: ss, ix => do
      let i ← selValue checked d (.at e) 0
      let r ← translateCoords checked ds ss ix
      .ok (i :: r)
  | d :: ds, s :: ss, j :: ix => do
      let i ← selValue checked d s j
      let r ← translateCoords checked ds ss ix
      .ok (i :: r)
  | _, _, _ => .error .bad_rank

/-- the cell (element offset in the parent allocation) that element `ix` of the indexed array
    denotes: `a_loc[0] + last_offset_ * value = data_ + Σ a_coords[k]·offset_[k]` -/
def ixAddr (checked : Bool) (iv : IView) (ix : List Int) : Except Err Int := do
  let c ← translateCoords checked iv.parent.dims iv.sels ix
  .ok (addr iv.parent c)

/-- `IndexedArray::empty()` (with every extent tested, see the header of this file) -/
def IView.isEmpty (iv : IView) : Bool := iv.dims.any (· == 0)

/-- `B = A(i0,…)`: the cells read, in index order; the first failing range test ends the statement -/
def ixRead (checked : Bool) (iv : IView) : Except Err (List Int) :=
  if iv.isEmpty then .ok [] else (allIndices iv.dims).mapM (ixAddr checked iv)

/-- the loops of `assign_expression_` / `assign_inactive_scalar_`: one store per element in index
    order; the first failing range test ends the statement (the stores made so far remain) -/
def storesGo (checked : Bool) (iv : IView) : List (List Int) → List Int → List (Int × Int) × Option Err
  | ix :: ixs, x :: xs =>
    match ixAddr checked iv ix with
    | .ok a =>
      let (st, e) := storesGo checked iv ixs xs
      ((a, x) :: st, e)
    | .error e => ([], some e)
  | _, _ => ([], none)

/-- `A(i0,…) = values` (values in index order): the (cell, value) stores in execution order -/
def ixStores (checked : Bool) (iv : IView) (vals : List Int) : List (Int × Int) × Option Err :=
  if iv.isEmpty then ([], none) else storesGo checked iv (allIndices iv.dims) vals

/-- memory after a sequence of stores (a later store to the same cell wins) -/
def applyStores (mem : Int → Int) : List (Int × Int) → Int → Int
  | [] => mem
  | (c, x) :: st => applyStores (fun a => if a = c then x else mem a) st

/-! ### the index map an indexed array denotes (no range tests: plain arithmetic on the selectors) -/

/-- value number `j` of one index object for a dimension of extent `d`: the scalar itself, `b + s·j`
    of a range, `j` under `__`, entry number `j` of an index vector -/
def selIndex (d : Nat) : Sel → Int → Int
  | .at e, _ => e.resolve d
  | .range b _ s, j => b.resolve d + s.resolve d * j
  | .all, j => j
  | .vec es, j => (es.getD j.toNat (.lit 0)).resolve d

/-- parent index of element `ix`: every selector evaluated against its own dimension's extent;
    scalar selectors consume no coordinate of `ix` -/
def expandSel : List Nat → List Sel → List Int → List Int
  | d :: ds, .at e :: ss, ix => selIndex d (.at e) 0 :: expandSel ds ss ix
  | d :: ds, s :: ss, i :: ix => selIndex d s i :: expandSel ds ss ix
  | _, _, _ => []

/-- the documented extents: nothing for a scalar, `(e + s - b)/s` for a range, the extent for `__`,
    the number of entries for an index vector -/
def selExtents : List Nat → List Sel → List Nat
  | _ :: ds, .at _ :: ss => selExtents ds ss
  | d :: ds, .range b e s :: ss => ((e.resolve d + s.resolve d - b.resolve d).tdiv (s.resolve d)).toNat :: selExtents ds ss
  | d :: ds, .all :: ss => d :: selExtents ds ss
  | _ :: ds, .vec es :: ss => es.length :: selExtents ds ss
  | _, _ => []

/-- number of non-scalar arguments = rank of the indexed array (`is_irreg_indexed<…>::count`) -/
def nonScalarCount : List Sel → Nat
  | [] => 0
  | .at _ :: ss => nonScalarCount ss
  | _ :: ss => nonScalarCount ss + 1

end Adept.Views
