/-
M5 (part) — views of `adept::Array<Rank,Type,IsActive>`: how each view-forming member function
derives `data_`, `dimensions_` and `offset_` of the returned array from those of `*this`.

Transcribed from
  include/adept/RangeIndex.h   EndIndex::value_with_len_, get_index_with_len (both builds), get_stride_with_len,
                               RangeIndex::begin/end/stride(len), AllIndex::begin/end/stride
  include/adept/BinaryOperation.h  value_with_len_ of BinaryOperation, BinaryOpScalarLeft, BinaryOpScalarRight and the
                               `operation` of Add, Subtract, Multiply, Divide, Max, Min on `int`s (`end` arithmetic and
                               integer-vector expressions in index position: `EndExpr`, `VExpr`)
  include/adept/Array.h        operator()(ranged ...) / update_index, operator()(all scalar: the element accessors of
                               rank 1…7, const and non-const; `elemOffset` / `elemAccess`),
                               operator[], subset, T / in_place_transpose, permute (three overloads), diag_vector,
                               submatrix_on_diagonal, reshape, soft_link, is_contiguous, empty,
                               pack_row_major_contiguous_ / pack_column_major_,
                               the two view constructors `Array(Type*, Storage*, dims, offset)` and
                               `Array(const Type*, Index, dims, offset, gradient_index)` (`View.canon`)
  include/adept/FixedArray.h   operator()(all scalar): the element accessors in Horner form (`fixedElemGo` / `fixedElemAccess`)

Every member that returns a view computes (`data_`, `dimensions_`, `offset_`) of the result — the `…Raw` functions
below — and hands them to one of the two view constructors, which (F-76) end with the loop "if any of the dimensions
is zero … all dimensions are zero" (the convention of `Array::resize` for arrays without elements): `View.canon`.
`operator()`, `subset`, `operator[]`, `permute`, `diag_vector`, `submatrix_on_diagonal`, `reshape`, `inactive_link`
use the first constructor, `soft_link` and every slicing member of `FixedArray` (FixedArray.h) the second one;
`T()` of an `Array` does not go through them (it copy-constructs and swaps in place) and is not canonicalised.

The const overloads of these members (`operator() const`, `subset const`, `operator[] const`, `T() const`,
`soft_link() const`) are separate copies of the same code in the C++; they have the same transcription (the driver
maps `cslice`, `csubset`, … to the functions below and the harness calls the const overload).  So have the members
of `Array<Rank,Type,true>` (active arrays: the same template) and of `FixedArray` (FixedArray.h: its own copy of
`operator()`, `update_index`, `operator[]`, `subset`, `permute`, `diag_vector`, `submatrix_on_diagonal`; offsets are
the packed row-major ones of the static dimensions, i.e. `fresh true dims`).

A view is (`data_` as an element offset from the start of the parent allocation, `dimensions_`,
`offset_`).  Indices are `Int` so that the address theorems also cover what the *unchecked* build
does with an inadmissible argument (it forms the view anyway).  `Index` is `int` in the C++;
overflow is outside the model.

`Err.undefined` is not a C++ exception: it marks inputs on which the C++ has no meaningful result
(division by a zero stride, or an `Array` with a negative dimension is returned and no exception is
raised, in either build).  `Err.bad_rank` marks calls that do not compile (wrong number of arguments,
`T()` on rank ≠ 2, …).

Core Lean only (this file is linked into the `adept_model` driver).
-/
namespace Adept.Views

inductive Err
  | index_out_of_bounds
  | invalid_operation
  | invalid_dimension
  | empty_array
  | undefined
  | bad_rank
deriving Repr, DecidableEq

def Err.name : Err → String
  | .index_out_of_bounds => "index_out_of_bounds"
  | .invalid_operation => "invalid_operation"
  | .invalid_dimension => "invalid_dimension"
  | .empty_array => "empty_array"
  | .undefined => "undefined"
  | .bad_rank => "bad_rank"

structure View where
  base : Int
  dims : List Nat
  strides : List Int
deriving Repr, DecidableEq

/-- Σ ixₖ·strideₖ -/
def dot : List Int → List Int → Int
  | i :: is, s :: ss => i * s + dot is ss
  | _, _ => 0

/-- element offset (from the start of the parent allocation) of the element with index `ix` -/
def addr (v : View) (ix : List Int) : Int := v.base + dot ix v.strides

/-- `ix` is a valid index of an array with extents `dims` -/
def InRange : List Int → List Nat → Prop
  | [], [] => True
  | i :: is, d :: ds => (0 ≤ i ∧ i < d) ∧ InRange is ds
  | _, _ => False

/-- class invariant of `Array`: as many offsets as dimensions -/
def View.WF (v : View) : Prop := v.dims.length = v.strides.length

/-- `Array::empty()`: only the first dimension is tested -/
def View.isEmpty (v : View) : Bool :=
  match v.dims with
  | d :: _ => d == 0
  | [] => false

/-- the loop that ends both view constructors of `Array` (F-76), as in `Array::resize` ("If any of the dimensions is
    zero, we clear the array completely and all dimensions will be zero"): `dimensions_.set_all(0)` as soon as one
    dimension is zero -/
def canonDims (dims : List Nat) : List Nat :=
  if dims.any (· == 0) then dims.map (fun _ => 0) else dims

/-- the view a view constructor builds from the (`data`, `dims`, `offset`) it is given: `data_` and `offset_` are
    stored as given, the dimensions canonicalised -/
def View.canon (v : View) : View := ⟨v.base, canonDims v.dims, v.strides⟩

/-- the view constructor applied to the outcome of a member function -/
def construct (r : Except Err View) : Except Err View :=
  match r with
  | .ok u => .ok u.canon
  | .error e => .error e

/-! ### index expressions -/

/-- the binary operations on integer expressions that can appear in index position
    (`ADEPT_DEFINE_OPERATION` in BinaryOperation.h: `+ - * /`, `max`, `min`) -/
inductive BinOp
  | add | sub | mul | div | max | min
deriving Repr, DecidableEq

/-- `Add/Subtract/Multiply/Divide/Max/Min::operation(left, right)` on `int`s, the operands in THIS order
    (`/` is the C++ integer division, which truncates towards zero; division by zero is undefined
    behaviour in the C++, see `EndExpr.defined`) -/
def BinOp.eval : BinOp → Int → Int → Int
  | .add, a, b => a + b
  | .sub, a, b => a - b
  | .mul, a, b => a * b
  | .div, a, b => a.tdiv b
  | .max, a, b => if a < b then b else a      -- `left < right ? right : left`
  | .min, a, b => if a < b then a else b      -- `left < right ? left : right`

/-- a scalar index expression: an `int`, or a rank-0 integer expression built from `end`
    (`EndIndex::value_with_len_` gives `len-1`) with the binary operations of BinaryOperation.h.
    `bin op (lit k) e` is the C++ class `BinaryOpScalarLeft` (`k OP e`:
    `value_with_len_ = operation(left.value(), right.value_with_len(j,len))`), `bin op e (lit k)` is
    `BinaryOpScalarRight` (`e OP k`: `operation(left.value_with_len(j,len), right.value())`), `bin op e₁ e₂`
    is `BinaryOperation` (`operation(left.value_with_len(j,len), right.value_with_len(j,len))`).
    `fromEnd k` abbreviates `end - k` (= `bin sub last (lit k)`, lemma `fromEnd_eq`).
    (Unary minus / `abs` … on an expression do not compile in index position in the pinned tree:
    `UnaryOperation::value_with_len_` is a template whose parameter cannot be deduced.) -/
inductive EndExpr
  | lit (k : Int)
  | fromEnd (k : Int)
  | last                                     -- `end`
  | bin (op : BinOp) (l r : EndExpr)
deriving Repr, DecidableEq

/-- `value_with_len_(0, len)` / the `int` itself -/
def EndExpr.resolve (len : Nat) : EndExpr → Int
  | .lit k => k
  | .fromEnd k => (len : Int) - 1 - k
  | .last => (len : Int) - 1
  | .bin op l r => op.eval (l.resolve len) (r.resolve len)

/-- no division by zero is executed while evaluating the expression for a dimension of this length
    (the C++ has undefined behaviour otherwise; such expressions are outside the property) -/
def EndExpr.defined (len : Nat) : EndExpr → Bool
  | .bin .div l r => l.defined len && r.defined len && r.resolve len != 0
  | .bin _ l r => l.defined len && r.defined len
  | _ => true

/-- a rank-1 integer expression used as an index vector: built from one `intVector` (`idx`), `int`s and `end` -/
inductive VExpr
  | lit (k : Int)
  | last
  | idx
  | bin (op : BinOp) (l r : VExpr)
deriving Repr, DecidableEq

/-- `value_with_len_(j, len)` of the expression when the index vector holds `xs`
    (`Array<1,int>::value_with_len_(j,len) = data_[j*offset_[0]]`) -/
def VExpr.valueWithLen (xs : List Int) (j : Nat) (len : Nat) : VExpr → Int
  | .lit k => k
  | .last => (len : Int) - 1
  | .idx => xs.getD j 0
  | .bin op l r => op.eval (l.valueWithLen xs j len) (r.valueWithLen xs j len)

/-- the scalar expression that one entry `x` of the index vector stands for -/
def VExpr.at (x : Int) : VExpr → EndExpr
  | .lit k => .lit k
  | .last => .last
  | .idx => .lit x
  | .bin op l r => .bin op (l.at x) (r.at x)

/-- the entries of the index-vector expression, one scalar expression per entry of `idx` -/
def VExpr.entries (ve : VExpr) (xs : List Int) : List EndExpr := xs.map ve.at

/-- one argument of `Array::operator()` -/
inductive Ix
  | at (e : EndExpr)                 -- scalar index
  | range (b e : EndExpr)            -- range(b,e): RangeIndex with stride 1
  | stride (b e s : EndExpr)         -- stride(b,e,s); `s` through `get_stride_with_len` (never range-tested)
  | all                              -- __
deriving Repr, DecidableEq

/-- `internal::get_index_with_len(j, len)`; the `ADEPT_BOUNDS_CHECKING` version throws -/
def getIndexWithLen (checked : Bool) (e : EndExpr) (len : Nat) : Except Err Int :=
  let j := e.resolve len
  if checked && (j < 0 || j ≥ (len : Int)) then .error .index_out_of_bounds else .ok j

/-- the ranged `update_index`: `ibegin += begin*offset`, extent `(end + stride - begin)/stride`
    with C++ (truncating) division, new offset `stride*offset` -/
def updateRange (checked : Bool) (len : Nat) (off : Int) (b e : EndExpr) (s : Int) :
    Except Err (Int × Nat × Int) := do
  let bi ← getIndexWithLen checked b len
  let ei ← getIndexWithLen checked e len
  if s = 0 then .error .undefined else
  let n := (ei + s - bi).tdiv s
  if n < 0 then .error .undefined else
  .ok (bi * off, n.toNat, s * off)

/-- `Array::update_index` for dimension of length `len` and offset `off`:
    increment of `ibegin`, and for a ranged argument the new (dimension, offset) -/
def updateIndex (checked : Bool) (len : Nat) (off : Int) : Ix → Except Err (Int × Option (Nat × Int))
  | .at e => do
      let j ← getIndexWithLen checked e len
      .ok (j * off, none)
  | .range b e => do
      let (inc, n, o) ← updateRange checked len off b e 1
      .ok (inc, some (n, o))
  | .stride b e s => do
      let (inc, n, o) ← updateRange checked len off b e (s.resolve len)
      .ok (inc, some (n, o))
  | .all =>
      -- AllIndex: begin 0, end len-1, stride 1; no bounds test
      .ok (0, some (len, off))

/-- the sequence of `update_index(0,i0,…); update_index(1,i1,…); …` in `operator()` -/
def sliceGo (checked : Bool) : List Nat → List Int → List Ix → Except Err (Int × List Nat × List Int)
  | [], [], [] => .ok (0, [], [])
  | d :: ds, s :: ss, a :: as => do
      let (inc, nd) ← updateIndex checked d s a
      let (rest, nds, nss) ← sliceGo checked ds ss as
      match nd with
      | none => .ok (inc + rest, nds, nss)
      | some (n, o) => .ok (inc + rest, n :: nds, o :: nss)
  | _, _, _ => .error .bad_rank

/-- what `Array::operator()(i0,…)` with scalar / range / stride / `__` arguments hands to the view constructor
    (`data_ + ibegin, storage_, new_dim, new_offset`).  With only scalar arguments the C++ returns a reference to
    one element: here a rank-0 view. -/
def sliceRaw (v : View) (args : List Ix) (checked : Bool) : Except Err View := do
  let (inc, nd, ns) ← sliceGo checked v.dims v.strides args
  .ok ⟨v.base + inc, nd, ns⟩

/-- `Array::operator()(i0,…)`: the constructed view (all extents zero as soon as one ranged argument selects nothing) -/
def slice (v : View) (args : List Ix) (checked : Bool) : Except Err View :=
  construct (sliceRaw v args checked)

/-- `Array::subset(b0,e0,b1,e1,…)` = `(*this)(range(b0,e0),range(b1,e1),…)` -/
def subset (v : View) (be : List (EndExpr × EndExpr)) (checked : Bool) : Except Err View :=
  slice v (be.map fun p => Ix.range p.1 p.2) checked

/-- `Array::operator[](i)`: slice the leading dimension (rank 1: the element); the constructor arguments -/
def sub1Raw (v : View) (e : EndExpr) (checked : Bool) : Except Err View :=
  match v.dims, v.strides with
  | d :: ds, s :: ss => do
      let j ← getIndexWithLen checked e d
      .ok ⟨v.base + j * s, ds, ss⟩
  | _, _ => .error .bad_rank

/-- `Array::operator[](i)` -/
def sub1 (v : View) (e : EndExpr) (checked : Bool) : Except Err View :=
  construct (sub1Raw v e checked)

/-- `Array::T()` (rank 2 only; `my_T<1>` does not exist) -/
def transpose (v : View) : Except Err View :=
  match v.dims, v.strides with
  | [d0, d1], [s0, s1] => .ok ⟨v.base, [d1, d0], [s1, s0]⟩
  | _, _ => .error .bad_rank

/-- first loop of `permute`: `idim[i]` must be in `0 … Rank-1` -/
def permuteGo (dims : List Nat) (strides : List Int) : List Int → Except Err (List Nat × List Int)
  | [] => .ok ([], [])
  | p :: ps =>
    if 0 ≤ p ∧ p < (dims.length : Int) then do
      let (nd, ns) ← permuteGo dims strides ps
      .ok (dims.getD p.toNat 0 :: nd, strides.getD p.toNat 0 :: ns)
    else .error .invalid_dimension

/-- `Array::permute(const Index* idim)`.  The second loop ("Missing dimension") requires every dimension of
    the current array to be used exactly once (a repeated `idim` entry is rejected). -/
def permuteRaw (v : View) (p : List Int) : Except Err View :=
  if p.length ≠ v.dims.length ∨ v.dims.length ≠ v.strides.length ∨ v.dims = [] then .error .bad_rank else
  if v.isEmpty then .error .empty_array else do
    let (nd, ns) ← permuteGo v.dims v.strides p
    if (List.range v.dims.length).any (fun d => decide ((p.filter (· = (d : Int))).length ≠ 1)) || nd.any (· == 0) then .error .invalid_dimension else
    .ok ⟨v.base, nd, ns⟩

/-- `Array::permute`: the constructed view (never a zero extent: such arrays are rejected above) -/
def permute (v : View) (p : List Int) : Except Err View := construct (permuteRaw v p)

/-- `Array::diag_vector(offdiag)` (rank 2).  For an `empty()` matrix the C++ returns a
    default-constructed vector (`data_ = 0`, no element); the model keeps a zero-extent view (it has
    no element either, so its base is immaterial; the driver prints `ok null`). -/
def diagVectorRaw (v : View) (k : Int) : Except Err View :=
  match v.dims, v.strides with
  | [d0, d1], [s0, s1] =>
    if d0 = 0 then .ok ⟨if k ≥ 0 then v.base + s1 * k else v.base - s0 * k, [0], [s0 + s1]⟩
    else if d0 ≠ d1 then .error .invalid_operation
    else if k ≥ 0 then
      let n : Int := min (d0 : Int) ((d1 : Int) - k)
      if n < 0 then .error .undefined else
      .ok ⟨v.base + s1 * k, [n.toNat], [s0 + s1]⟩
    else
      let n : Int := min ((d0 : Int) + k) (d1 : Int)
      if n < 0 then .error .undefined else
      .ok ⟨v.base - s0 * k, [n.toNat], [s0 + s1]⟩
  | _, _ => .error .bad_rank

/-- `diag_vector`: a rank-1 result is the same with or without the canonicalisation -/
def diagVector (v : View) (k : Int) : Except Err View := construct (diagVectorRaw v k)

/-- `Array::submatrix_on_diagonal(ibegin, iend)` (rank 2); the range test is in both builds -/
def submatrixOnDiagonalRaw (v : View) (b e : Int) : Except Err View :=
  match v.dims, v.strides with
  | [d0, d1], [s0, s1] =>
    if d0 ≠ d1 then .error .invalid_operation
    else if b < 0 ∨ b > e ∨ e ≥ (d0 : Int) then .error .index_out_of_bounds
    else
      let len := (e - b + 1).toNat
      .ok ⟨v.base + b * (s0 + s1), [len, len], [s0, s1]⟩
  | _, _ => .error .bad_rank

/-- `Array::submatrix_on_diagonal`: the constructed view (`ibegin ≤ iend`: no zero extent) -/
def submatrixOnDiagonal (v : View) (b e : Int) : Except Err View := construct (submatrixOnDiagonalRaw v b e)

def prodInt : List Int → Int
  | [] => 1
  | d :: ds => d * prodInt ds

/-- the offset loop of `reshape`: `offset[N-1] = offset_[0]; offset[i] = dims[i+1]*offset[i+1]` -/
def reshapeStrides (s0 : Int) : List Nat → List Int
  | [] => []
  | [_] => [s0]
  | _ :: d1 :: ds =>
    match reshapeStrides s0 (d1 :: ds) with
    | o :: os => (d1 : Int) * o :: o :: os
    | [] => []

/-- `Array::reshape(const ExpressionSize<NewRank>& dims)` (rank-1 `*this`, any stride) -/
def reshapeRaw (v : View) (nd : List Int) : Except Err View :=
  match v.dims, v.strides with
  | [d0], [s0] =>
    if nd = [] then .error .bad_rank
    else if prodInt nd ≠ (d0 : Int) then .error .invalid_dimension
    else if nd.any (· < 0) then .error .undefined
    else
      let ndn := nd.map Int.toNat
      .ok ⟨v.base, ndn, reshapeStrides s0 ndn⟩
  | _, _ => .error .bad_rank

/-- `reshape`: an empty vector reshaped to `(0,2)`, `(3,0)`, … has all extents zero -/
def reshape (v : View) (nd : List Int) : Except Err View := construct (reshapeRaw v nd)

/-- `Array::soft_link()`: same data, dimensions and offsets, no `Storage`, built by the second view constructor
    (`Array(data_, 0, dimensions_, offset_, gradient_index())`) -/
def softLink (v : View) : Except Err View := construct (.ok v)

/-- the loop of `is_contiguous()` counting down from `Rank-1` (i.e. with F-08 repaired);
    lists are passed reversed -/
def contigGo (expected : Int) : List Nat → List Int → Bool
  | d :: ds, s :: ss => if s ≠ expected then false else contigGo (expected * (d : Int)) ds ss
  | _, _ => true

def isContiguous (v : View) : Bool := contigGo 1 v.dims.reverse v.strides.reverse

/-- `pack_row_major_contiguous_` (`Packet<int>::size` is 1, so `pack_row_major_` is the same) -/
def packRowMajor : List Nat → List Int
  | [] => []
  | [_] => [1]
  | _ :: d1 :: ds =>
    match packRowMajor (d1 :: ds) with
    | o :: os => (d1 : Int) * o :: o :: os
    | [] => []

/-- `pack_column_major_` -/
def packColMajorGo (o : Int) : List Nat → List Int
  | [] => []
  | d :: ds => o :: packColMajorGo (o * d) ds

def packColMajor (dims : List Nat) : List Int := packColMajorGo 1 dims

/-- a freshly allocated array -/
def fresh (rowMajor : Bool) (dims : List Nat) : View :=
  ⟨0, dims, if rowMajor then packRowMajor dims else packColMajor dims⟩

/-! ### operations as data, composition -/

inductive Op
  | slice (args : List Ix)
  | subset (be : List (EndExpr × EndExpr))
  | sub1 (e : EndExpr)
  | T
  | permute (p : List Int)
  | diag (k : Int)
  | subdiag (b e : Int)
  | reshape (nd : List Int)
  | softLink
deriving Repr

/-- what the member function computes, before the view constructor (the result of the tree without F-76) -/
def applyRaw (checked : Bool) (v : View) : Op → Except Err View
  | .slice args => sliceRaw v args checked
  | .subset be => sliceRaw v (be.map fun p => Ix.range p.1 p.2) checked
  | .sub1 e => sub1Raw v e checked
  | .T => transpose v
  | .permute p => permuteRaw v p
  | .diag k => diagVectorRaw v k
  | .subdiag b e => submatrixOnDiagonalRaw v b e
  | .reshape nd => reshapeRaw v nd
  | .softLink => .ok v

/-- does the operation build its result with one of the two view constructors? (all but `T`) -/
def Op.constructs : Op → Bool
  | .T => false
  | _ => true

def apply (checked : Bool) (v : View) : Op → Except Err View
  | .slice args => slice v args checked
  | .subset be => subset v be checked
  | .sub1 e => sub1 v e checked
  | .T => transpose v
  | .permute p => permute v p
  | .diag k => diagVector v k
  | .subdiag b e => submatrixOnDiagonal v b e
  | .reshape nd => reshape v nd
  | .softLink => softLink v

/-- the index expressions of one argument -/
def Ix.exprs : Ix → List EndExpr
  | .at e => [e]
  | .range b e => [b, e]
  | .stride b e s => [b, e, s]
  | .all => []

/-- every index expression of the call can be evaluated for the dimension it indexes -/
def argsDefined : List Nat → List Ix → Bool
  | d :: ds, a :: as => a.exprs.all (·.defined d) && argsDefined ds as
  | _, _ => true

def Op.defined (v : View) : Op → Bool
  | .slice args => argsDefined v.dims args
  | .subset be => argsDefined v.dims (be.map fun p => Ix.range p.1 p.2)
  | .sub1 e => e.defined (v.dims.headD 0)
  | _ => true

/-- apply a list of operations, stopping at the first error -/
def run (checked : Bool) (v : View) : List Op → Except Err View
  | [] => .ok v
  | op :: ops =>
    match apply checked v op with
    | .ok w => run checked w ops
    | .error e => .error e

/-! ### the index maps the operations denote (new index ↦ index into `*this`) -/

def expandSlice : List Nat → List Ix → List Int → List Int
  | d :: ds, .at e :: as, ix => e.resolve d :: expandSlice ds as ix
  | d :: ds, .range b _ :: as, i :: ix => (b.resolve d + i) :: expandSlice ds as ix
  | d :: ds, .stride b _ s :: as, i :: ix => (b.resolve d + i * s.resolve d) :: expandSlice ds as ix
  | _ :: ds, .all :: as, i :: ix => i :: expandSlice ds as ix
  | _, _, _ => []

/-- coordinate `d` of the parent index under `permute p`: the new coordinate(s) `i` with `p[i] = d` -/
def scatterAt : List Int → List Int → Nat → Int
  | p :: ps, i :: ix, d => (if p = (d : Int) then i else 0) + scatterAt ps ix d
  | _, _, _ => 0

def tabulate (f : Nat → Int) (k : Nat) : Nat → List Int
  | 0 => []
  | n + 1 => f k :: tabulate f (k + 1) n

def expandPermute (rank : Nat) (p : List Int) (ix : List Int) : List Int :=
  tabulate (scatterAt p ix) 0 rank

/-- row-major linear index of `ix` in an array of extents `dims` -/
def lin : List Nat → List Int → Int
  | _ :: ds, i :: ix => i * prodInt (ds.map Int.ofNat) + lin ds ix
  | _, _ => 0

def expandOp (v : View) : Op → List Int → List Int
  | .slice args, ix => expandSlice v.dims args ix
  | .subset be, ix => expandSlice v.dims (be.map fun p => Ix.range p.1 p.2) ix
  | .sub1 e, ix => e.resolve (v.dims.headD 0) :: ix
  | .T, ix => match ix with
    | [i, j] => [j, i]
    | _ => []
  | .permute p, ix => expandPermute v.dims.length p ix
  | .diag k, ix => match ix with
    | [i] => if k ≥ 0 then [i, i + k] else [i - k, i]
    | _ => []
  | .subdiag b _, ix => match ix with
    | [i, j] => [i + b, j + b]
    | _ => []
  | .reshape nd, ix => [lin (nd.map Int.toNat) ix]
  | .softLink, ix => ix

/-- the composed index map of a list of operations (the intermediate views supply the lengths that
    `end` refers to) -/
def expandAll (checked : Bool) (v : View) : List Op → List Int → List Int
  | [], ix => ix
  | op :: ops, ix =>
    match apply checked v op with
    | .ok w => expandOp v op (expandAll checked w ops ix)
    | .error _ => []

/-! ### ELEMENT access: `operator()(i0,…,i_{R-1})` with only scalar arguments

Array.h has one such accessor per rank 1…7 and per const-ness (`operator()(I0 i0, …)` and `… const`, 14 functions,
plus the rank-1 `operator[]` pair and the active rank-1 versions); every one is the sum
`get_index_with_len(i0,dimensions_[0])*offset_[0] + … + get_index_with_len(i_{R-1},dimensions_[R-1])*offset_[R-1]`
handed to `get_scalar_reference` (`data_[offset]`, for an active array also `gradient_index()+offset`).
FixedArray.h has its own 14 (+ rank-1 `operator[]`) accessors, written in HORNER form over the static extents:
`J2*(J1*get_index_with_len(i0,J0) + get_index_with_len(i1,J1)) + get_index_with_len(i2,J2)` (rank 3).
In both, index `k` is resolved (`end` arithmetic) and, in the bounds-checking build, range-tested against the length
of dimension `k` — its OWN dimension.  The result is a reference to one element: here the element offset from the
start of the parent allocation (a rank-0 "view"). -/

/-- the indices an element access uses: argument `k` resolved against the length of dimension `k` -/
def resolveAll : List Nat → List EndExpr → List Int
  | d :: ds, e :: es => e.resolve d :: resolveAll ds es
  | _, _ => []

/-- Array.h, `operator()(I0 i0, …, I_{R-1} i_{R-1})` (const and non-const, passive and active, every rank): the sum
    of `get_index_with_len(i_k,dimensions_[k])*offset_[k]` -/
def elemOffset (checked : Bool) : List Nat → List Int → List EndExpr → Except Err Int
  | [], [], [] => .ok 0
  | d :: ds, s :: ss, e :: es => do
      let j ← getIndexWithLen checked e d
      let rest ← elemOffset checked ds ss es
      .ok (j * s + rest)
  | _, _, _ => .error .bad_rank

/-- the element an all-scalar `Array::operator()` refers to: offset of `data_[…]` from the parent allocation -/
def elemAccess (v : View) (es : List EndExpr) (checked : Bool) : Except Err Int := do
  if v.dims = [] then .error .bad_rank else
  let o ← elemOffset checked v.dims v.strides es
  .ok (v.base + o)

/-- FixedArray.h, `operator()(I0 i0, …)`: the Horner accumulation `acc ↦ J_k*acc + get_index_with_len(i_k,J_k)`
    over the static extents `J0,J1,…` (rank 1: `get_index_with_len(i0,J0)`; rank 2:
    `get_index_with_len(i0,J0)*J1 + get_index_with_len(i1,J1)`; rank 3: `J2*(J1*g0 + g1) + g2`; …) -/
def fixedElemGo (checked : Bool) : Int → List Nat → List EndExpr → Except Err Int
  | acc, [], [] => .ok acc
  | acc, d :: ds, e :: es => do
      let j ← getIndexWithLen checked e d
      fixedElemGo checked ((d : Int) * acc + j) ds es
  | _, _, _ => .error .bad_rank

/-- the element an all-scalar `FixedArray::operator()` refers to (`data_` of a FixedArray is the start of the
    allocation) -/
def fixedElemAccess (dims : List Nat) (es : List EndExpr) (checked : Bool) : Except Err Int :=
  if dims = [] then .error .bad_rank else fixedElemGo checked 0 dims es

/-- the element as a rank-0 view (what the driver prints) -/
def elemView (a : Int) : View := ⟨a, [], []⟩

/-- `Array::permute(Index i0, Index i1, Index i2 = -1, …)` (Array.h / FixedArray.h, the overload with separate
    arguments): "Incorrect number of dimensions provided to permute" when one of the first `Rank` arguments is -1,
    then `permute(idim)`.  `permute(const ExpressionSize<Rank>&)` is `permute(&idim[0])`. -/
def permuteArgs (v : View) (p : List Int) : Except Err View :=
  if p.any (· == -1) then .error .invalid_dimension else permute v p

/-! ### enumeration of a view (for the driver) -/

/-- all indices of an array with extents `dims`, last index fastest -/
def allIndices : List Nat → List (List Int)
  | [] => [[]]
  | d :: ds =>
    let rest := allIndices ds
    (List.range d).flatMap fun (i : Nat) => rest.map fun r => (i : Int) :: r

end Adept.Views
