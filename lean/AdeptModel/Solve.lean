import AdeptModel.Lapack
/-!
# M9 — marshalling of `solve` and `inv` to LAPACK (adept/solve.cpp, adept/inv.cpp, adept/cpplapack.h,
include/adept/solve.h, include/adept/inv.h), transcribed as coded

Memory is a heap of buffers (`Heap`): every `Array`/`SpecialMatrix` that the C++ creates is a fresh buffer,
the Fortran routines are handed buffers *of that heap* and overwrite them.  Operands are what the C++
sees through `operator()`: an element function with dimensions (`Mat`, `Vec`, `Sym`) — a view of any layout
or an expression; `Layout` below gives the element functions of the layouts the correspondence check uses.
Everything is generic in the LAPACK implementation `L : Impl α`.
Core Lean only.
-/
namespace Adept.Solve
open Adept.Lapack

/-! ## operands -/

/-- rank-2 operand as evaluated through `operator()(i,j)` -/
structure Mat (α : Type) where
  rows : Nat
  cols : Nat
  get : Nat → Nat → α

/-- rank-1 operand -/
structure Vec (α : Type) where
  n : Nat
  get : Nat → α

/-- `SymmMatrixOrientation` (include/adept/SpecialMatrix.h): which triangle is stored, read row-major -/
inductive Orient | rowLower | rowUpper   -- ROW_LOWER_COL_UPPER | ROW_UPPER_COL_LOWER
  deriving DecidableEq, Repr

/-- `SymmEngine<Orient>::index(i,j,offset)` -/
def symIndex (o : Orient) (i j offset : Nat) : Nat :=
  match o with
  | .rowLower => if i ≥ j then i * offset + j else i + j * offset
  | .rowUpper => if i ≤ j then i * offset + j else i + j * offset

/-- is `(i,j)` in the triangle that a `SymmMatrix` of this orientation stores? -/
def Orient.stored : Orient → Nat → Nat → Bool
  | .rowLower, i, j => decide (j ≤ i)
  | .rowUpper, i, j => decide (i ≤ j)

/-- a `SymmMatrix` operand: `get` is its `operator()`, which by construction mirrors the stored triangle -/
structure Sym (α : Type) where
  n : Nat
  orient : Orient
  get : Nat → Nat → α

/-- a `SymmMatrix` object living in storage: `data + symIndex` -/
def Sym.ofStorage {α : Type} (o : Orient) (n off offset : Nat) (buf : Buf α) : Sym α :=
  { n := n, orient := o, get := fun i j => buf (off + symIndex o i j offset) }

/-- a dense view: element `(i,j)` at `off + i*s0 + j*s1` (row-major, column-major, `.T()`, strided and
    sub-block views are all of this form) -/
def Mat.ofView {α : Type} (rows cols off s0 s1 : Nat) (buf : Buf α) : Mat α :=
  { rows := rows, cols := cols, get := fun i j => buf (off + i * s0 + j * s1) }

def Vec.ofView {α : Type} (n off s : Nat) (buf : Buf α) : Vec α :=
  { n := n, get := fun i => buf (off + i * s) }

/-- the dense matrix a symmetric operand stands for (`Array<2,T,false>(A)`, `l.cast()` of an expression) -/
def Sym.toMat {α : Type} (S : Sym α) : Mat α := { rows := S.n, cols := S.n, get := S.get }

/-! ## memory -/

structure Heap (α : Type) where
  next : Nat
  mem : Nat → Buf α

/-- `new Storage<T>`: a fresh buffer id; its contents are whatever was there (uninitialised) -/
def Heap.alloc {α : Type} (h : Heap α) : Heap α × Nat := ({ h with next := h.next + 1 }, h.next)

def Heap.store {α : Type} (h : Heap α) (id : Nat) (f : Buf α) : Heap α :=
  { h with mem := fun i => if i = id then f else h.mem i }

/-! ## the copies made by solve.cpp / inv.cpp -/

/-- `A_.resize_column_major(A.dimensions()); A_ = A;` — `pack_column_major_` gives `offset(0)=1`,
    `offset(1)=dimension(0)`: element `(i,j)` is written at `i + j*rows` -/
def fillColMajor {α : Type} (A : Mat α) (old : Buf α) : Buf α :=
  fun k => if A.rows = 0 then old k else
    if k / A.rows < A.cols then A.get (k % A.rows) (k / A.rows) else old k

/-- `b_ = b;` into an empty `Array<1>`: resized to `b`'s length, contiguous -/
def fillVec {α : Type} (b : Vec α) (old : Buf α) : Buf α :=
  fun k => if k < b.n then b.get k else old k

/-- `A_.resize(A.dimension()); A_ = A;` for a `SymmMatrix`: `offset = pack_offset(n) = n`; the assignment
    writes exactly the stored triangle (`get_row_range`), the other `n(n-1)/2` elements keep whatever the
    allocation contained -/
def fillSym {α : Type} (S : Sym α) (old : Buf α) : Buf α :=
  fun k => if S.n = 0 then old k else
    let i := k / S.n
    let j := k % S.n
    if i < S.n ∧ S.orient.stored i j = true then S.get i j else old k

/-- `Array<2> left = l.cast()` (expression overloads of solve.h / inv.h): default row-major object -/
def fillRowMajor {α : Type} (A : Mat α) (old : Buf α) : Buf α :=
  fun k => if A.cols = 0 then old k else
    if k / A.cols < A.rows then A.get (k / A.cols) (k % A.cols) else old k

/-- "Treat symmetric matrix as column-major": `uplo = (Orient == ROW_LOWER_COL_UPPER) ? 'U' : 'L'` -/
def uploOf : Orient → Uplo
  | .rowLower => .U
  | .rowUpper => .L

/-! ## results, exceptions, call log -/

inductive Exc | matrix_ill_conditioned | invalid_operation
  deriving DecidableEq, Repr

def Exc.name : Exc → String
  | .matrix_ill_conditioned => "matrix_ill_conditioned"
  | .invalid_operation => "invalid_operation"

inductive Routine | gesv | sysv | getrf | getri | sytrf | sytri
  deriving DecidableEq, Repr

def Routine.name : Routine → String
  | .gesv => "gesv" | .sysv => "sysv" | .getrf => "getrf" | .getri => "getri" | .sytrf => "sytrf" | .sytri => "sytri"

/-- workspace queries (`lwork = -1`) issued by the `cpplapack_*` wrapper before the real call -/
def Routine.queries : Routine → Nat
  | .gesv => 0 | .getrf => 0 | .sytri => 0
  | .sysv => 1 | .getri => 1 | .sytrf => 1

/-- one Fortran call as issued: arguments and the heap buffers behind the two pointers -/
structure Call where
  routine : Routine
  n : Nat
  nrhs : Nat
  lda : Nat
  ldb : Nat
  uplo : Option Uplo
  info : Int
  aBuf : Nat
  bBuf : Option Nat

structure Out (α ρ : Type) where
  heap : Heap α
  log : List Call
  res : Except Exc ρ

variable {α : Type}

/-! ## solve.cpp -/

/-- `solve(const Array<2,T,false>& A, const Array<1,T,false>& b)`.
    `cpplapack_gesv(n, nrhs, a, lda, ipiv, b, ldb)` passes `&lda` where `?gesv` expects `ldb` (its own `ldb`
    parameter is unused): transcribed as coded. -/
def solveGenVec (L : Impl α) (h : Heap α) (A : Mat α) (b : Vec α) : Out α (Vec α) :=
  let (h1, idA) := h.alloc
  let h2 := h1.store idA (fillColMajor A (h1.mem idA))
  let (h3, idb) := h2.alloc
  let h4 := h3.store idb (fillVec b (h3.mem idb))
  let n := A.rows                 -- A_.dimension(0)
  let lda := A.rows               -- A_.offset(1)
  -- (the wrapper is handed ldb = b_.dimension(0) and ignores it)
  let r := L.gesv n 1 (h4.mem idA) lda (h4.mem idb) lda
  let h5 := (h4.store idA r.a).store idb r.b
  let c : Call := { routine := .gesv, n := n, nrhs := 1, lda := lda, ldb := lda, uplo := none, info := r.info,
                    aBuf := idA, bBuf := some idb }
  { heap := h5, log := [c],
    res := if r.info ≠ 0 then .error .matrix_ill_conditioned else .ok { n := b.n, get := r.b } }

/-- `solve(const Array<2,T,false>& A, const Array<2,T,false>& B)` -/
def solveGenMat (L : Impl α) (h : Heap α) (A : Mat α) (B : Mat α) : Out α (Mat α) :=
  let (h1, idA) := h.alloc
  let h2 := h1.store idA (fillColMajor A (h1.mem idA))
  let (h3, idB) := h2.alloc
  let h4 := h3.store idB (fillColMajor B (h3.mem idB))
  let n := A.rows                 -- A_.dimension(0)
  let lda := A.rows               -- A_.offset(1)
  let r := L.gesv n B.cols (h4.mem idA) lda (h4.mem idB) lda    -- wrapper passes lda for ldb
  let h5 := (h4.store idA r.a).store idB r.b
  let c : Call := { routine := .gesv, n := n, nrhs := B.cols, lda := lda, ldb := lda, uplo := none, info := r.info,
                    aBuf := idA, bBuf := some idB }
  { heap := h5, log := [c],
    res := if r.info ≠ 0 then .error .matrix_ill_conditioned
           else .ok { rows := B.rows, cols := B.cols, get := fun i j => r.b (i + j * B.rows) } }   -- B_.offset(1) = rows

/-- `solve(const SpecialMatrix<T,SymmEngine<Orient>,false>& A, const Array<2,T,false>& B)` -/
def solveSymMat (L : Impl α) (h : Heap α) (S : Sym α) (B : Mat α) : Out α (Mat α) :=
  let (h1, idA) := h.alloc
  let h2 := h1.store idA (fillSym S (h1.mem idA))
  let (h3, idB) := h2.alloc
  let h4 := h3.store idB (fillColMajor B (h3.mem idB))
  let n := S.n                    -- A_.dimension(0)
  let lda := S.n                  -- A_.offset()
  let ldb := B.rows               -- B_.offset(1)
  let u := uploOf S.orient
  let r := L.sysv u n B.cols (h4.mem idA) lda (h4.mem idB) ldb
  let h5 := (h4.store idA r.a).store idB r.b
  let c : Call := { routine := .sysv, n := n, nrhs := B.cols, lda := lda, ldb := ldb, uplo := some u, info := r.info,
                    aBuf := idA, bBuf := some idB }
  { heap := h5, log := [c],
    res := if r.info ≠ 0 then .error .matrix_ill_conditioned
           else .ok { rows := B.rows, cols := B.cols, get := fun i j => r.b (i + j * B.rows) } }

/-- `Array<2,T,false>(X)` for a `SymmMatrix` `X`: a fresh dense row-major object holding `X(i,j)` -/
def densify (h : Heap α) (M : Mat α) : Heap α × Mat α :=
  let (h1, id) := h.alloc
  let h2 := h1.store id (fillRowMajor M (h1.mem id))
  (h2, Mat.ofView M.rows M.cols 0 M.cols 1 (h2.mem id))

/-- `solve(const SpecialMatrix<T,SymmEngine<Orient>,false>& A, const Array<1,T,false>& b)`:
    `?sysv`, and when that fails a second attempt with `?gesv` on the ORIGINAL operands
    (`return solve(Array<2,T,false>(A), b);` — fix F-21; the pinned code handed on `A_`, `b_`, i.e. the buffers
    `?sysv` had just overwritten: see `solveSymVecPinned`). -/
def solveSymVec (L : Impl α) (h : Heap α) (S : Sym α) (b : Vec α) : Out α (Vec α) :=
  let (h1, idA) := h.alloc
  let h2 := h1.store idA (fillSym S (h1.mem idA))
  let (h3, idb) := h2.alloc
  let h4 := h3.store idb (fillVec b (h3.mem idb))
  let n := S.n
  let lda := S.n
  let ldb := b.n
  let u := uploOf S.orient
  let r := L.sysv u n 1 (h4.mem idA) lda (h4.mem idb) ldb
  let h5 := (h4.store idA r.a).store idb r.b
  let c : Call := { routine := .sysv, n := n, nrhs := 1, lda := lda, ldb := ldb, uplo := some u, info := r.info,
                    aBuf := idA, bBuf := some idb }
  if r.info ≠ 0 then
    let (h6, D) := densify h5 S.toMat
    let o := solveGenVec L h6 D b
    { o with log := c :: o.log }
  else { heap := h5, log := [c], res := .ok { n := b.n, get := r.b } }

/-- the fallback as the pinned source has it: `return solve(Array<2,T,false>(A_), b_);` — the matrix is read
    back from the buffer `?sysv` has overwritten with its factorisation (defect F-21; kept for the refutation) -/
def solveSymVecPinned (L : Impl α) (h : Heap α) (S : Sym α) (b : Vec α) : Out α (Vec α) :=
  let (h1, idA) := h.alloc
  let h2 := h1.store idA (fillSym S (h1.mem idA))
  let (h3, idb) := h2.alloc
  let h4 := h3.store idb (fillVec b (h3.mem idb))
  let n := S.n
  let lda := S.n
  let ldb := b.n
  let u := uploOf S.orient
  let r := L.sysv u n 1 (h4.mem idA) lda (h4.mem idb) ldb
  let h5 := (h4.store idA r.a).store idb r.b
  let c : Call := { routine := .sysv, n := n, nrhs := 1, lda := lda, ldb := ldb, uplo := some u, info := r.info,
                    aBuf := idA, bBuf := some idb }
  if r.info ≠ 0 then
    let A_ : Sym α := Sym.ofStorage S.orient S.n 0 S.n r.a
    let b_ : Vec α := { n := b.n, get := r.b }
    let (h6, D) := densify h5 A_.toMat
    let o := solveGenVec L h6 D b_
    { o with log := c :: o.log }
  else { heap := h5, log := [c], res := .ok { n := b.n, get := r.b } }

/-! ## inv.cpp -/

/-- `inv(const Array<2,Type,false>& A)` -/
def invGen (L : Impl α) (h : Heap α) (A : Mat α) : Out α (Mat α) :=
  if A.rows ≠ A.cols then { heap := h, log := [], res := .error .invalid_operation } else
  let (h1, idA) := h.alloc
  let h2 := h1.store idA (fillColMajor A (h1.mem idA))
  let n := A.rows                 -- A_.dimension(0)
  let lda := A.rows               -- A_.offset(1)
  let f := L.getrf n (h2.mem idA) lda
  let h3 := h2.store idA f.a
  let c1 : Call := { routine := .getrf, n := n, nrhs := 0, lda := lda, ldb := 0, uplo := none, info := f.info,
                     aBuf := idA, bBuf := none }
  if f.info ≠ 0 then { heap := h3, log := [c1], res := .error .matrix_ill_conditioned } else
  let r := L.getri n (h3.mem idA) lda f.ipiv
  let h4 := h3.store idA r.a
  let c2 : Call := { routine := .getri, n := n, nrhs := 0, lda := lda, ldb := 0, uplo := none, info := r.info,
                     aBuf := idA, bBuf := none }
  { heap := h4, log := [c1, c2],
    res := if r.info ≠ 0 then .error .matrix_ill_conditioned
           else .ok { rows := A.rows, cols := A.cols, get := fun i j => r.a (i + j * A.rows) } }

/-- `inv(const SpecialMatrix<Type,SymmEngine<Orient>,false>& A)`: the result is the `SymmMatrix` `A_` itself -/
def invSym (L : Impl α) (h : Heap α) (S : Sym α) : Out α (Sym α) :=
  let (h1, idA) := h.alloc
  let h2 := h1.store idA (fillSym S (h1.mem idA))
  let n := S.n
  let lda := S.n
  let u := uploOf S.orient
  let f := L.sytrf u n (h2.mem idA) lda
  let h3 := h2.store idA f.a
  let c1 : Call := { routine := .sytrf, n := n, nrhs := 0, lda := lda, ldb := 0, uplo := some u, info := f.info,
                     aBuf := idA, bBuf := none }
  if f.info ≠ 0 then { heap := h3, log := [c1], res := .error .matrix_ill_conditioned } else
  let r := L.sytri u n (h3.mem idA) lda f.ipiv
  let h4 := h3.store idA r.a
  let c2 : Call := { routine := .sytri, n := n, nrhs := 0, lda := lda, ldb := 0, uplo := some u, info := r.info,
                     aBuf := idA, bBuf := none }
  { heap := h4, log := [c1, c2],
    res := if r.info ≠ 0 then .error .matrix_ill_conditioned else .ok (Sym.ofStorage S.orient S.n 0 S.n r.a) }

/-! ## overload resolution (solve.h, inv.h) -/

/-- a rank-2 argument as the overload set sees it: an `Array<2>` object (any view), a `SymmMatrix` object,
    or some other expression (e.g. `2.0*A`), which the generic templates first evaluate into a dense object -/
inductive MatArg (α : Type)
  | dense (m : Mat α)
  | symm (s : Sym α)
  | expr (m : Mat α)

/-- a rank-1 argument: an `Array<1>` object or another expression -/
inductive VecArg (α : Type)
  | obj (v : Vec α)
  | expr (v : Vec α)

def MatArg.mat : MatArg α → Mat α
  | .dense m => m
  | .symm s => s.toMat
  | .expr m => m

def VecArg.vec : VecArg α → Vec α
  | .obj v => v
  | .expr v => v

/-- `Array<1,PType,false> right = r.cast();` -/
def densifyVec (h : Heap α) (v : Vec α) : Heap α × Vec α :=
  let (h1, id) := h.alloc
  let h2 := h1.store id (fillVec v (h1.mem id))
  (h2, Vec.ofView v.n 0 1 (h2.mem id))

/-- `solve(A, b)` with a rank-1 right-hand side -/
def solveVec (L : Impl α) (h : Heap α) (A : MatArg α) (b : VecArg α) : Out α (Vec α) :=
  match A, b with
  | .dense m, .obj v => solveGenVec L h m v
  | .symm s, .obj v => solveSymVec L h s v
  | A, b =>                       -- generic template: `left = l.cast(); right = r.cast(); return solve(left,right);`
    let (h1, l) := densify h A.mat
    let (h2, r) := densifyVec h1 b.vec
    solveGenVec L h2 l r

/-- `solve(A, B)` with a rank-2 right-hand side (`solve(SymmMatrix, SymmMatrix)` copies `B` into a dense
    `Array<2>` first and calls the symmetric form) -/
def solveMat (L : Impl α) (h : Heap α) (A : MatArg α) (B : MatArg α) : Out α (Mat α) :=
  match A, B with
  | .dense m, .dense b => solveGenMat L h m b
  | .symm s, .dense b => solveSymMat L h s b
  | .symm s, .symm b =>
    let (h1, d) := densify h b.toMat
    solveSymMat L h1 s d
  | A, B =>
    let (h1, l) := densify h A.mat
    let (h2, r) := densify h1 B.mat
    solveGenMat L h2 l r

/-- result of `inv`: dense or symmetric -/
inductive InvRes (α : Type)
  | dense (m : Mat α)
  | symm (s : Sym α)

def InvRes.mat : InvRes α → Mat α
  | .dense m => m
  | .symm s => s.toMat

def mapRes {ρ σ : Type} (f : ρ → σ) (o : Out α ρ) : Out α σ :=
  { heap := o.heap, log := o.log, res := match o.res with | .ok r => .ok (f r) | .error e => .error e }

/-- `inv(A)` -/
def inv (L : Impl α) (h : Heap α) (A : MatArg α) : Out α (InvRes α) :=
  match A with
  | .dense m => mapRes .dense (invGen L h m)
  | .symm s => mapRes .symm (invSym L h s)
  | .expr m =>
    let (h1, d) := densify h m
    mapRes .dense (invGen L h1 d)

end Adept.Solve
