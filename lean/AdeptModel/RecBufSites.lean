import AdeptModel.RecBuf
import AdeptModel.Generated.ReserveSites
/-
Event streams of the recording sites, as functions of their sizes.  The *structure* of each stream (which
pushes happen between which checks) is transcribed by hand from the cited function; the *reservation
expression* of every `check` comes from `Generated/ReserveSites.lean`, which the translator regenerates from
the source on every run.  Core Lean only.
-/
namespace Adept.RecBuf
open Sites

/-- one recorded scalar statement: `n` operations then the left-hand side -/
def stmtEvents (n : Nat) : List Ev := List.replicate n Ev.push ++ [Ev.lhs]

/-- `Active::Active(const Expression&)`, `Active::operator=(const Expression&)`, `ActiveReference::operator=(Expression)`:
    reserve `E::n_active`, push one operation per active leaf, close the statement -/
def siteScalarAssign (reserve : Nat) (nActive : Nat) : List Ev := Ev.check reserve :: stmtEvents nActive
def siteActiveCtor (nActive : Nat) := siteScalarAssign (Active_1 nActive 0 0 0 0 0 0) nActive
def siteActiveAssign (nActive : Nat) := siteScalarAssign (Active_4 nActive 0 0 0 0 0 0) nActive
def siteActiveRefAssign (nActive : Nat) := siteScalarAssign (ActiveReference_2 nActive 0 0 0 0 0 0) nActive

/-- copy assignment `x = y` (`Active::operator=(const Active&)` ×2, `ActiveReference` ×2): reserve 1, push 1 -/
def siteCopyAssign (reserve : Nat) : List Ev := Ev.check reserve :: stmtEvents 1
def siteActiveCopy1 := siteCopyAssign (Active_2 0 0 0 0 0 0 0)
def siteActiveCopy2 := siteCopyAssign (Active_3 0 0 0 0 0 0 0)
def siteActiveRefCopy1 := siteCopyAssign (ActiveReference_0 0 0 0 0 0 0 0)
def siteActiveRefCopy2 := siteCopyAssign (ActiveReference_1 0 0 0 0 0 0 0)

/-- `Active(const PType&, Index gradient_index)` — the temporary `Array::get_rvalue` / `FixedArray::get_rvalue` return for
    an element of an active array: reserve 1, push 1 (finding F-70: the pinned constructor pushed without reserving) -/
def siteActiveElemCtor := siteCopyAssign (Active_0 0 0 0 0 0 0 0)

/-- `add_derivative_dependence(rhs, multiplier, n)`: reserve `n`, push the `k ≤ n` non-zero multipliers, close -/
def siteAddDep (reserve : Nat) (k : Nat) : List Ev := Ev.check reserve :: stmtEvents k
def siteActiveAddDep (n k : Nat) := siteAddDep (Active_5 0 0 n 0 0 0 0) k
def siteActiveRefAddDep (n k : Nat) := siteAddDep (ActiveReference_3 0 0 n 0 0 0 0) k
def siteActiveConstRefAddDep (n k : Nat) := siteAddDep (ActiveConstReference_0 0 0 n 0 0 0 0) k
def siteStackAddDep (k : Nat) := siteAddDep (Stack_0 0 0 0 0 0 0 0) k          -- single dependence: k ≤ 1
/-- `append_derivative_dependence`: reserve `n`, push `k ≤ n`, `update_lhs` (no statement event) -/
def siteAppendDep (reserve : Nat) (k : Nat) : List Ev := Ev.check reserve :: List.replicate k Ev.push
def siteActiveAppendDep (n k : Nat) := siteAppendDep (Active_6 0 0 n 0 0 0 0) k
def siteActiveRefAppendDep (n k : Nat) := siteAppendDep (ActiveReference_4 0 0 n 0 0 0 0) k
def siteActiveConstRefAppendDep (n k : Nat) := siteAppendDep (ActiveConstReference_1 0 0 n 0 0 0 0) k
def siteStackAppendDep (k : Nat) := siteAppendDep (Stack_1 0 0 0 0 0 0 0) k
/-- `Stack::push_derivative_dependence(rhs_index, multiplier, n)` (matmul): reserve `n`, push `n` -/
def sitePushDep (n : Nat) : List Ev := Ev.check (Stack_2 0 0 n 0 0 0 0) :: List.replicate n Ev.push

/-- active array ← active expression (`Array::assign_expression_<…,true,true>`, `FixedArray` and `SpecialMatrix`
    equivalents): one reservation for the whole array, then per element `nActive` pushes and a statement -/
def siteArrayAssign (reserve : Nat) (nActive size : Nat) : List Ev :=
  Ev.check reserve :: (List.replicate size (stmtEvents nActive)).flatten
def siteArrayAssignArray (nActive size : Nat) := siteArrayAssign (Array_1 nActive size 0 0 0 0 0) nActive size
def siteArrayAssignFixed (nActive size : Nat) := siteArrayAssign (FixedArray_1 nActive size 0 0 0 0 0) nActive size
def siteArrayAssignSpecial (nActive size : Nat) := siteArrayAssign (SpecialMatrix_1 nActive size 0 0 0 0 0) nActive size

/-- active array ← active scalar (`Array::operator=(const Active&)`, `FixedArray` equivalent): one operation per element -/
def siteArrayFromScalar (reserve : Nat) (size : Nat) : List Ev :=
  Ev.check reserve :: (List.replicate size (stmtEvents 1)).flatten
def siteArrayFromScalarArray (size : Nat) := siteArrayFromScalar (Array_0 0 size 0 0 0 0 0) size
def siteArrayFromScalarFixed (size : Nat) := siteArrayFromScalar (FixedArray_0 0 size 0 0 0 0 0) size

/-- conditional assignment `A.where(mask) = rhs` (`assign_conditional_<true>`): elements whose mask is false
    record nothing -/
def siteConditional (reserve : Nat) (nActive : Nat) (mask : List Bool) : List Ev :=
  Ev.check reserve :: (mask.map fun m => if m then stmtEvents nActive else []).flatten
def siteConditionalArray (nActive : Nat) (mask : List Bool) :=
  siteConditional (Array_2 nActive mask.length 0 0 0 0 0) nActive mask
def siteConditionalFixed (nActive : Nat) (mask : List Bool) :=
  siteConditional (FixedArray_2 nActive mask.length 0 0 0 0 0) nActive mask

/-- active integer-vector-indexed array ← active expression (`IndexedArray::operator=(Expression)`) -/
def siteIndexedAssign (nActive size : Nat) := siteArrayAssign (IndexedArray_1 nActive size 0 0 0 0 0) nActive size
/-- active indexed array ← active scalar (`IndexedArray::operator=(const Active&)`) -/
def siteIndexedFromScalar (size : Nat) := siteArrayFromScalar (IndexedArray_0 0 size 0 0 0 0 0) size
/-- active special matrix ← active scalar: one operation per STORED element (`stored ≤ size()`) -/
def siteSpecialFromScalar (size stored : Nat) : List Ev :=
  Ev.check (SpecialMatrix_0 0 size 0 0 0 0 0) :: (List.replicate stored (stmtEvents 1)).flatten

/-- `diag_vector(active rank-2 expression, offdiag)` (reduce.h): one reservation, then per diagonal element `nActive`
    operations and a statement (finding F-69: the pinned function recorded without any reservation) -/
def siteDiagVectorUpper (nActive n : Nat) := siteArrayAssign (reduce_2 nActive 0 n 0 0 0 0) nActive n
def siteDiagVectorLower (nActive n : Nat) := siteArrayAssign (reduce_3 nActive 0 n 0 0 0 0) nActive n

/-- matrix products with active operands (matmul.h `matmul_`): per result element, one
    `push_derivative_dependence` of the inner extent `n` for each active operand (each reserves for itself), then `push_lhs` -/
def siteMatmulElem (n : Nat) (lAct rAct : Bool) : List Ev :=
  (if lAct then sitePushDep n else []) ++ (if rAct then sitePushDep n else []) ++ [Ev.lhs]
/-- matrix × vector: one element per result row; matrix × matrix: `rows*cols` elements -/
def siteMatmul (elems n : Nat) (lAct rAct : Bool) : List Ev := (List.replicate elems (siteMatmulElem n lAct rAct)).flatten
/-- band matrix × active vector (`matmul_band`): row `i` records the in-band part of the row,
    `j_start = i<LDiags ? 0 : i-LDiags`, `j_end_plus_1 = min(dim, i+UDiags+1)` -/
def bandRowCount (dim ld ud i : Nat) : Nat := min dim (i + ud + 1) - (if i < ld then 0 else i - ld)
def siteMatmulBandVec (dim ld ud : Nat) : List Ev :=
  ((List.range dim).map fun i => sitePushDep (bandRowCount dim ld ud i) ++ [Ev.lhs]).flatten

/-- number of `push_rhs` events of a stream -/
def pushCount : List Ev → Nat
  | [] => 0
  | .push :: es => pushCount es + 1
  | .pushIdx _ _ :: es => pushCount es + 1
  | _ :: es => pushCount es

/-- the stream uses no `push_rhs_indices` -/
def noIdx : List Ev → Bool
  | [] => true
  | .pushIdx _ _ :: _ => false
  | _ :: es => noIdx es

/-- whole-array reduction of an active array (`reduce_active`): one reservation for all elements, then the
    per-element events `elems` (at most `nActive + extra_element_cost` operations each; `product` closes a statement per
    element behind its own `check_space(1)`), then the finishing events `tail`, each push of which sits behind its own check -/
def siteReduceAll (reserve : Nat) (elems : List (List Ev)) (tail : List Ev) : List Ev :=
  Ev.check reserve :: (elems.flatten ++ tail)

/-- reduction along one dimension (`reduce_dimension`): one reservation, then per strip the accumulation over the reduced
    dimension, the finishing step and the copy into the result -/
def siteReduceDim (reserve : Nat) (strips : List (List Ev)) : List Ev := Ev.check reserve :: strips.flatten

end Adept.RecBuf
