import AdeptModel.Num
import AdeptModel.Generated.UnaryTable
import AdeptModel.Generated.BinaryTable
import AdeptModel.GradAlloc
import AdeptModel.Tape
/-
M2 — rank-0 expression nodes, the scratch discipline and the recording statements of `Active<Real>`.

Transcribed from
  include/adept/Expression.h        Expression::scalar_value_and_gradient
  include/adept/Active.h            leaf members (value_at_location_store_, value_stored_, calc_gradient_),
                                    constructors, assignment forms, compound operators,
                                    add/append_derivative_dependence
  include/adept/UnaryOperation.h    struct UnaryOperation (value_at_location_store_, value_stored_, calc_gradient_ ×2)
  include/adept/BinaryOperation.h   structs BinaryOperation / BinaryOpScalarLeft / BinaryOpScalarRight
                                    (n_scratch, my_value_at_location_store_, my_value_stored_, calc_gradient_ ×2,
                                    calc_left_/calc_right_) and the two `operator/(Expression, scalar)` overloads
  include/adept/noalias.h           struct NoAlias (as repaired by fix F-11: both calc_gradient_ overloads and
                                    value_stored_ use the wrapper's own slot)
  adept/Stack.cpp / Stack.h         push_rhs, push_lhs, add/append_derivative_dependence

The formulas (operation, derivative, multipliers, forwarded slots) are NOT written here: they come from the
generated tables `UFun.fn/dexpr`, `BOp.operation/operationStore/leftMul/rightMul/leftGuard/rightGuard/
leftSlot/rightSlot`, `binStore*Slot` (translate/unary.py, translate/binary.py).  Generic over `Num`; the
executable instance is `Float`.  Core Lean only.
-/
namespace Adept.Expr
open Adept

/-- rank-0 expression trees; leaves carry the value they hold when the statement is executed -/
inductive Node (α : Type)
  | active (idx : Nat) (v : α)                       -- Active<Real>: gradient index, val_
  | passive (v : α)                                  -- an inactive rank-0 expression (internal::Scalar<T>)
  | un (f : UFun) (a : Node α)                       -- UnaryOperation<Real, f, A>
  | bin (op : BOp) (l r : Node α)                    -- BinaryOperation<Real, L, op, R>
  | binL (op : BOp) (mixed : Bool) (c : α) (r : Node α)   -- BinaryOpScalarLeft  (mixed: the scalar is not floating point)
  | binR (op : BOp) (mixed : Bool) (l : Node α) (c : α)   -- BinaryOpScalarRight (`x / c` arrives as Multiply by 1.0/c)
  | noalias (a : Node α)                             -- NoAlias<Real, A>
deriving Repr

variable {α : Type}

/-- scratch storage `ScratchVector<n_scratch>`; uninitialised in C++, arbitrary here -/
abbrev Scratch (α : Type) := Nat → α

def upd (s : Scratch α) (i : Nat) (v : α) : Scratch α := fun j => if j = i then v else s j

namespace Node

/-- `E::is_active` -/
def isActive : Node α → Bool
  | active _ _ => true
  | passive _ => false
  | un _ a => a.isActive
  | bin _ l r => l.isActive || r.isActive
  | binL _ _ _ r => r.isActive
  | binR _ _ l _ => l.isActive
  | noalias a => a.isActive

/-- `E::n_active` -/
def nActive : Node α → Nat
  | active _ _ => 1
  | passive _ => 0
  | un _ a => a.nActive
  | bin _ l r => l.nActive + r.nActive
  | binL _ _ _ r => r.nActive
  | binR _ _ l _ => l.nActive
  | noalias a => a.nActive

/-- `n_local_scratch` of the three binary templates -/
def nLocal (op : BOp) (act : Bool) : Nat := nLocalScratch op act

/-- `E::n_scratch` -/
def nScratch : Node α → Nat
  | active _ _ => 0
  | passive _ => 0
  | un _ a => 1 + a.nScratch
  | bin op l r => nLocal op (l.isActive || r.isActive) + l.nScratch + r.nScratch
  | binL op _ _ r => nLocal op r.isActive + r.nScratch
  | binR op _ l _ => nLocal op l.isActive + l.nScratch
  | noalias a => a.nScratch

variable [Num α]

/-- `value_at_location_`: plain evaluation, no scratch -/
def eval : Node α → α
  | active _ v => v
  | passive v => v
  | un f a => f.fn a.eval
  | bin op l r => op.operation false l.eval r.eval
  | binL op mixed c r => op.operation mixed c r.eval
  | binR op mixed l c => op.operation mixed l.eval c
  | noalias a => a.eval

/-- the tail of `my_value_at_location_store_<StoreResult>`: combine the children's values `x`, `y`,
    write the local scratch slots.  `usesOS`: the StoreResult=2 variant calls `Op::operation_store`. -/
def storeOp (op : BOp) (mixed : Bool) (nl : Nat) (usesOS : Bool) (x y : α) (k : Nat) (s : Scratch α) : α × Scratch α :=
  match nl with
  | 0 => (op.operation mixed x y, s)
  | 1 => let z := op.operation mixed x y; (z, upd s k z)
  | _ =>
    match usesOS, op.operationStore x y with
    | true, some (a, z) => (z, upd (upd s (k + 1) a) k z)      -- scratch[k+1] = aux; scratch[k] = result
    | _, _ => let z := op.operation mixed x y; (z, upd s k z)

/-- `value_at_location_store_<·, k>`: value and scratch after the call -/
def store : Node α → Nat → Scratch α → α × Scratch α
  | active _ v, _, s => (v, s)
  | passive v, _, s => (v, s)
  | un f a, k, s =>
    let (x, s1) := a.store (k + 1) s
    let y := f.fn x
    (y, upd s1 k y)
  | bin op l r, k, s =>
    let nl := nLocal op (l.isActive || r.isActive)
    -- the two argument evaluations are unsequenced in C++; they touch disjoint slots (C01_store_frame)
    let (x, s1) := l.store (binStoreLeftSlot nl k l.nScratch nl) s
    let (y, s2) := r.store (binStoreRightSlot nl k l.nScratch nl) s1
    storeOp op false nl binUsesOperationStore x y k s2
  | binL op mixed c r, k, s =>
    let nl := nLocal op r.isActive
    let (y, s1) := r.store (binLStoreRightSlot nl k 0 nl) s
    storeOp op mixed nl binLUsesOperationStore c y k s1
  | binR op mixed l c, k, s =>
    let nl := nLocal op l.isActive
    let (x, s1) := l.store (binRStoreLeftSlot nl k l.nScratch nl) s
    storeOp op mixed nl binRUsesOperationStore x c k s1
  | noalias a, k, s => a.store k s

/-- `value_stored_<·, k>` -/
def stored : Node α → Nat → Scratch α → α
  | active _ v, _, _ => v
  | passive v, _, _ => v
  | un _ _, k, s => s k
  | bin op l r, k, s =>
    if nLocal op (l.isActive || r.isActive) > 0 then s k else op.operation false l.eval r.eval
  | binL op mixed c r, k, s =>
    if nLocal op r.isActive > 0 then s k else op.operation mixed c r.eval
  | binR op mixed l c, k, s =>
    if nLocal op l.isActive > 0 then s k else op.operation mixed l.eval c
  | noalias a, k, s => a.stored k s

/-- the literal `1.0` of `push_rhs(1.0, gradient_index_)` -/
def one : α := Num.lit 0x3FF0000000000000 1 1

/-- `calc_gradient_<·, k>` without (`none`) / with (`some m`) an incoming multiplier: the
    `push_rhs(multiplier, index)` calls in order -/
def grad : Node α → Nat → Scratch α → Option α → List (α × Nat)
  | active idx _, _, _, m => [(m.getD one, idx)]
  | passive _, _, _, _ => []
  | un f a, k, s, m =>
    let d := f.dexpr (a.stored (k + 1) s) (s k)
    a.grad (k + 1) s (some (match m with | none => d | some w => w * d))
  | bin op l r, k, s, m =>
    let sr := op.storeResult
    let L := l.stored (k + sr) s
    let R := r.stored (k + l.nScratch + sr) s
    (if l.isActive && op.leftGuard m.isSome L R
      then l.grad (op.leftSlot m.isSome k l.nScratch sr) s (op.leftMul m L R (s k) (s (k + 1))) else []) ++
    (if r.isActive && op.rightGuard m.isSome L R
      then r.grad (op.rightSlot m.isSome k l.nScratch sr) s (op.rightMul m L R (s k) (s (k + 1))) else [])
  | binL op _ c r, k, s, m =>
    -- Op::calc_right(stack, Scalar<L>(left.value()), right, …): Scalar has n_scratch = 0 and stores nothing
    let sr := op.storeResult
    let R := r.stored (k + 0 + sr) s
    if r.isActive && op.rightGuard m.isSome c R
      then r.grad (op.rightSlot m.isSome k 0 sr) s (op.rightMul m c R (s k) (s (k + 1))) else []
  | binR op _ l c, k, s, m =>
    let sr := op.storeResult
    let L := l.stored (k + sr) s
    if l.isActive && op.leftGuard m.isSome L c
      then l.grad (op.leftSlot m.isSome k l.nScratch sr) s (op.leftMul m L c (s k) (s (k + 1))) else []
  | noalias a, k, s, m => a.grad k s m

/-- `Expression::scalar_value_and_gradient`: value and pushed operations of a whole right-hand side -/
def valueAndGradient (n : Node α) (init : Scratch α) : α × List (α × Nat) :=
  let (v, s) := n.store 0 init
  (v, n.grad 0 s none)

/-- shapes the C++ accepts: `BinaryOpScalarRight` static-asserts `!is_active || store_result < 2` -/
def wf : Node α → Bool
  | active _ _ => true
  | passive _ => true
  | un _ a => a.wf
  | bin _ l r => l.wf && r.wf
  | binL _ _ _ r => r.wf
  | binR op _ l _ => l.wf && !(l.isActive && op.storeResult ≥ 2)
  | noalias a => a.wf

end Node

/-- `operator/(Expression l, scalar r)` for an active `l`: `BinaryOpScalarRight<Multiply>(l, 1.0/r)` -/
def divByScalar [Num α] (l : Node α) (c : α) : Node α :=
  .binR .Multiply false l (divByScalarOne / c)

/-! ### recording statements of `Active<Real>` -/

structure Var (α : Type) where
  idx : Nat
  val : α

structure St (α : Type) where
  ga : GradAlloc.GA := GradAlloc.stackInit
  tape : List (Tape.Stmt α) := []       -- statements 1 … n_statements_-1
  pend : List (α × Nat) := []           -- operations pushed since the last push_lhs
  vars : List (Nat × Var α) := []       -- handle ↦ live active scalar

/-- the six comparison operators between scalars (`ADEPT_DEFINE_OPERATOR` in BinaryOperation.h: Expression OP Expression,
    Expression OP passive, passive OP Expression all compare the VALUES of the two sides, in the order written) -/
inductive CmpOp | lt | gt | le | ge | eq | ne
deriving Repr, DecidableEq

def CmpOp.holds [Num α] (o : CmpOp) (l r : α) : Bool :=
  match o with
  | .lt => Num.lt l r
  | .gt => Num.lt r l
  | .le => Num.le l r
  | .ge => Num.le r l
  | .eq => Num.le l r && Num.le r l
  | .ne => !(Num.le l r && Num.le r l)

/-- one side of a comparison: an expression (its value is used; nothing is recorded) or a passive number -/
inductive CmpSide (α : Type) | expr (e : Node α) | num (c : α)

def CmpSide.value [Num α] : CmpSide α → α
  | .expr e => e.eval
  | .num c => c

namespace St
variable [Num α]

def var? (s : St α) (h : Nat) : Option (Var α) := (s.vars.find? (·.1 = h)).map (·.2)
def setVar (s : St α) (h : Nat) (v : Var α) : St α := { s with vars := (h, v) :: s.vars.filter (·.1 ≠ h) }

def pushRhs (s : St α) (ops : List (α × Nat)) : St α := { s with pend := s.pend ++ ops }
/-- `push_lhs(idx)` closes the pending operations into a statement -/
def pushLhs (s : St α) (idx : Nat) : St α := { s with tape := s.tape ++ [⟨idx, s.pend⟩], pend := [] }

/-- `Active(const PType& rhs)`: register, `push_lhs` with no operations -/
def newPassive (s : St α) (h : Nat) (c : α) : St α × Nat :=
  let (g, i) := GradAlloc.reg1 s.ga
  ((({ s with ga := g }).pushLhs i).setVar h ⟨i, c⟩, i)

/-- `Active()`: register only, value 0.0 -/
def newDefault (s : St α) (h : Nat) : St α × Nat :=
  let (g, i) := GradAlloc.reg1 s.ga
  (({ s with ga := g }).setVar h ⟨i, Num.lit 0 0 1⟩, i)

/-- `operator=(const Expression&)`, `operator=(const Active&)`, the tail of the expression and copy constructors:
    `val_ = rhs.scalar_value_and_gradient(stack); push_lhs(gradient_index_)` -/
def assign (s : St α) (h : Nat) (x : Var α) (e : Node α) (init : Scratch α) : St α :=
  let (v, ops) := e.valueAndGradient init
  ((s.pushRhs ops).pushLhs x.idx).setVar h { x with val := v }

/-- `if (L OP R) x = e1; else x = e2;` — the recorded program is the assignment of the branch the comparison selects -/
def branch (s : St α) (h : Nat) (x : Var α) (o : CmpOp) (l r : CmpSide α) (e1 e2 : Node α) (init : Scratch α) : St α :=
  if o.holds l.value r.value then s.assign h x e1 init else s.assign h x e2 init

/-- `Active(const Active&)` / `Active(const Expression&)`: register, then as an assignment -/
def newFrom (s : St α) (h : Nat) (e : Node α) (init : Scratch α) : St α × Nat :=
  let (g, i) := GradAlloc.reg1 s.ga
  (({ s with ga := g }).assign h ⟨i, Num.lit 0 0 1⟩ e init, i)

/-- `~Active()` -/
def delete (s : St α) (h : Nat) (x : Var α) : St α :=
  { s with ga := GradAlloc.unreg1 x.idx s.ga, vars := s.vars.filter (·.1 ≠ h) }

/-- `operator=(const PType&)`: value, `push_lhs` with no operations -/
def assignPassive (s : St α) (h : Nat) (x : Var α) (c : α) : St α :=
  (s.pushLhs x.idx).setVar h { x with val := c }

/-- `x op= expression`: unpacked to `x = x op expression` -/
def compound (s : St α) (h : Nat) (x : Var α) (op : BOp) (e : Node α) (init : Scratch α) : St α :=
  s.assign h x (.bin op (.active x.idx x.val) e) init

/-- `x += c`, `x -= c` with a passive `c`: the value changes, nothing is recorded -/
def compoundPassiveAddSub (s : St α) (h : Nat) (x : Var α) (sub : Bool) (c : α) : St α :=
  s.setVar h { x with val := if sub then x.val - c else x.val + c }

/-- `x *= c` with a passive `c`: `x = x * c` (a recorded statement) -/
def compoundPassiveMul (s : St α) (h : Nat) (x : Var α) (mixed : Bool) (c : α) (init : Scratch α) : St α :=
  s.assign h x (.binR .Multiply mixed (.active x.idx x.val) c) init

/-- `x /= c` with a passive `c`: `x = x / c`, i.e. a multiplication by `1.0/c` -/
def compoundPassiveDiv (s : St α) (h : Nat) (x : Var α) (c : α) (init : Scratch α) : St α :=
  s.assign h x (divByScalar (.active x.idx x.val) c) init

/-- `Stack::add_derivative_dependence(lhs, rhs, m)`: a zero multiplier pushes no operation -/
def addDependence (s : St α) (lhs rhs : Nat) (m : α) (isZero : Bool) : St α :=
  (if isZero then s else s.pushRhs [(m, rhs)]).pushLhs lhs

/-- `Stack::append_derivative_dependence(lhs, rhs, m)`; `none`: `wrong_gradient` -/
def appendDependence (s : St α) (lhs rhs : Nat) (m : α) (isZero : Bool) : Option (St α) :=
  match s.tape.getLast? with
  | some last =>
    if last.lhs ≠ lhs then none
    else some { s with tape := s.tape.dropLast ++ [{ last with ops := last.ops ++ (if isZero then [] else [(m, rhs)]) }] }
  | none => none

/-- `Stack::new_recording()` -/
def newRecording (s : St α) : St α := { s with tape := [], pend := [], ga := GradAlloc.newRecording s.ga }

end St

end Adept.Expr
