/-
M9 (first half) — contracts of the five BLAS routines that `adept/cppblas.cpp` calls:
    ?GEMM  ?GEMV  ?SYMM  ?SYMV  ?GBMV
Semantics transcribed from the Netlib reference implementation (dgemm.f, dgemv.f, dsymm.f, dsymv.f,
dgbmv.f), 0-based:

* matrices are column-major with a leading dimension: element (i,j) of A lives at `a[i + j*lda]`;
* a vector of logical length `len` with increment `inc` has its logical element `i` at
  `x[kstart len inc + i*inc]`, `kstart = 0` for `inc > 0` and `-(len-1)*inc` otherwise — i.e. for a
  negative increment the pointer passed must address the *last* logical element (lowest in memory);
* a symmetric matrix is referenced only through its UPLO triangle;
* a band matrix with `kl` sub- and `ku` super-diagonals has element (i,j), `j ≤ i+ku`, `i ≤ j+kl`,
  at `a[(ku+i-j) + j*lda]`; nothing outside the band is referenced;
* the argument checks (`lda ≥ max(1,rows)` …) come first; the number of the first illegal parameter is
  what the reference passes to XERBLA, after which it returns without touching anything
  (`…Info = 0` means the call is accepted).  Extents are `Nat` here: `matmul.h` only ever passes
  array dimensions, so the checks for negative extents (and for an unknown character flag) cannot fire.

Only `alpha = 1`, `beta = 0` is modelled: these are the only values `matmul.h` passes, and with
`beta = 0` the reference does not read `C`/`y`.  Each routine comes with
  `…Val`    the value of a result element (sum over the inner index in ascending order from zero),
  `…C`/`…Y` the memory of the output argument after the call (relative to the pointer passed),
  `…Read…`  the list of indices (relative to the pointer passed) the routine reads from each input.
Buffers are functions `Int → α` relative to the pointer handed to the routine.

Core Lean only (linked into the `adept_model` driver).  The spy BLAS of the harness
(harness/spy_blas.cpp) is transcribed from the same reference text.  The element type is the parameter `α`:
the d-prefix and the s-prefix entry points (double / float; `Array<2,float>` operands reach the latter) share
one contract, as they share one template in the spy; the check exercises both.
-/
namespace Adept.Blas

variable {α : Type} [Add α] [Mul α] [Zero α]

/-- `Σ_{l<k} f l`, accumulated in ascending order starting from zero -/
def sumTo (f : Nat → α) : Nat → α
  | 0 => 0
  | k + 1 => sumTo f k + f k

/-- all pairs `(p,q)`, `p < m`, `q < n`, mapped through `f` -/
def pairs (m n : Nat) (f : Nat → Nat → β) : List β :=
  (List.range m).flatMap (fun p => (List.range n).map (fun q => f p q))

/-- Netlib `KX`: index of logical element 0 of a strided vector -/
def kstart (len : Nat) (inc : Int) : Int := if inc > 0 then 0 else -(((len : Int) - 1) * inc)

/-- index of logical element `i` of a strided vector -/
def vecIdx (len : Nat) (inc : Int) (i : Nat) : Int := kstart len inc + (i : Int) * inc

/-- memory of an output vector after the call: logical element `i < len` receives `val i`; written for a
    positive increment by inverting `i ↦ i*inc`, for a negative one by inverting `i ↦ (len-1-i)*(-inc)` -/
def writeVec (len : Nat) (inc : Int) (val : Nat → α) (old : Int → α) : Int → α := fun p =>
  if inc > 0 then
    if 0 ≤ p ∧ p % inc = 0 ∧ p / inc < len then val (p / inc).toNat else old p
  else if inc < 0 then
    if 0 ≤ p ∧ p % (-inc) = 0 ∧ p / (-inc) < len then val (len - 1 - (p / (-inc)).toNat) else old p
  else old p

/-- memory of an output matrix (`rows × cols`, leading dimension `ld ≥ max(1,rows)`) after the call -/
def writeMat (rows cols : Nat) (ld : Int) (val : Nat → Nat → α) (old : Int → α) : Int → α := fun p =>
  if 0 ≤ p ∧ p % ld < rows ∧ p / ld < cols then val (p % ld).toNat (p / ld).toNat else old p

/-! ### ?GEMM  `C := op(A)·op(B)`, `op(A)` m×k, `op(B)` k×n, `C` m×n -/

structure GemmArgs where
  ta : Bool          -- TRANSA = 'T'
  tb : Bool          -- TRANSB = 'T'
  m : Nat
  n : Nat
  k : Nat
  lda : Int
  ldb : Int
  ldc : Int
deriving Repr, DecidableEq

def GemmArgs.nrowa (c : GemmArgs) : Nat := if c.ta then c.k else c.m
def GemmArgs.ncola (c : GemmArgs) : Nat := if c.ta then c.m else c.k
def GemmArgs.nrowb (c : GemmArgs) : Nat := if c.tb then c.n else c.k
def GemmArgs.ncolb (c : GemmArgs) : Nat := if c.tb then c.k else c.n

/-- number of the first illegal parameter (0 = none): 8 LDA, 10 LDB, 13 LDC -/
def gemmInfo (c : GemmArgs) : Nat :=
  if c.lda < max 1 (c.nrowa : Int) then 8
  else if c.ldb < max 1 (c.nrowb : Int) then 10
  else if c.ldc < max 1 (c.m : Int) then 13
  else 0

/-- index of `op(A)(i,l)` -/
def gemmAIdx (c : GemmArgs) (i l : Nat) : Int :=
  if c.ta then (l : Int) + (i : Int) * c.lda else (i : Int) + (l : Int) * c.lda
/-- index of `op(B)(l,j)` -/
def gemmBIdx (c : GemmArgs) (l j : Nat) : Int :=
  if c.tb then (j : Int) + (l : Int) * c.ldb else (l : Int) + (j : Int) * c.ldb

def gemmVal (c : GemmArgs) (a b : Int → α) (i j : Nat) : α :=
  sumTo (fun l => a (gemmAIdx c i l) * b (gemmBIdx c l j)) c.k

def gemmC (c : GemmArgs) (a b : Int → α) (old : Int → α) : Int → α :=
  if gemmInfo c ≠ 0 then old else writeMat c.m c.n c.ldc (gemmVal c a b) old

def gemmReadA (c : GemmArgs) : List Int :=
  if gemmInfo c ≠ 0 ∨ c.m = 0 ∨ c.n = 0 then [] else pairs c.m c.k (gemmAIdx c)
def gemmReadB (c : GemmArgs) : List Int :=
  if gemmInfo c ≠ 0 ∨ c.m = 0 ∨ c.n = 0 then [] else pairs c.k c.n (gemmBIdx c)
def gemmWriteC (c : GemmArgs) : List Int :=
  if gemmInfo c ≠ 0 then [] else pairs c.m c.n (fun i j => (i : Int) + (j : Int) * c.ldc)

/-! ### ?GEMV  `y := op(A)·x`, `A` m×n -/

structure GemvArgs where
  trans : Bool
  m : Nat
  n : Nat
  lda : Int
  incx : Int
  incy : Int
deriving Repr, DecidableEq

def GemvArgs.lenx (c : GemvArgs) : Nat := if c.trans then c.m else c.n
def GemvArgs.leny (c : GemvArgs) : Nat := if c.trans then c.n else c.m

/-- 6 LDA, 8 INCX, 11 INCY -/
def gemvInfo (c : GemvArgs) : Nat :=
  if c.lda < max 1 (c.m : Int) then 6
  else if c.incx = 0 then 8
  else if c.incy = 0 then 11
  else 0

/-- index of `op(A)(i,j)`: `A(i,j)` untransposed, `A(j,i)` transposed -/
def gemvAIdx (c : GemvArgs) (i j : Nat) : Int :=
  if c.trans then (j : Int) + (i : Int) * c.lda else (i : Int) + (j : Int) * c.lda

def gemvVal (c : GemvArgs) (a x : Int → α) (i : Nat) : α :=
  sumTo (fun j => a (gemvAIdx c i j) * x (vecIdx c.lenx c.incx j)) c.lenx

def gemvY (c : GemvArgs) (a x : Int → α) (old : Int → α) : Int → α :=
  if gemvInfo c ≠ 0 then old else writeVec c.leny c.incy (gemvVal c a x) old

def gemvReadA (c : GemvArgs) : List Int :=
  if gemvInfo c ≠ 0 ∨ c.m = 0 ∨ c.n = 0 then [] else pairs c.leny c.lenx (gemvAIdx c)
def gemvReadX (c : GemvArgs) : List Int :=
  if gemvInfo c ≠ 0 ∨ c.m = 0 ∨ c.n = 0 then [] else (List.range c.lenx).map (vecIdx c.lenx c.incx)
def gemvWriteY (c : GemvArgs) : List Int :=
  if gemvInfo c ≠ 0 ∨ c.m = 0 ∨ c.n = 0 then [] else (List.range c.leny).map (vecIdx c.leny c.incy)

/-! ### symmetric matrices: only the UPLO triangle is referenced -/

/-- is `(p,q)` in the stored triangle -/
def symStored (upper : Bool) (p q : Nat) : Bool := if upper then p ≤ q else q ≤ p

/-- index at which element `(p,q)` of a symmetric matrix is read -/
def symIdx (upper : Bool) (lda : Int) (p q : Nat) : Int :=
  if symStored upper p q then (p : Int) + (q : Int) * lda else (q : Int) + (p : Int) * lda

/-- the indices of the stored triangle of an `n × n` matrix -/
def symRead (upper : Bool) (n : Nat) (lda : Int) : List Int :=
  (pairs n n (fun p q => if symStored upper p q then [(p : Int) + (q : Int) * lda] else [])).flatten

/-! ### ?SYMM  `C := A·B` (SIDE = L, A m×m) or `C := B·A` (SIDE = R, A n×n); B, C m×n -/

structure SymmArgs where
  left : Bool        -- SIDE = 'L'
  upper : Bool       -- UPLO = 'U'
  m : Nat
  n : Nat
  lda : Int
  ldb : Int
  ldc : Int
deriving Repr, DecidableEq

def SymmArgs.na (c : SymmArgs) : Nat := if c.left then c.m else c.n

/-- 7 LDA, 9 LDB, 12 LDC -/
def symmInfo (c : SymmArgs) : Nat :=
  if c.lda < max 1 (c.na : Int) then 7
  else if c.ldb < max 1 (c.m : Int) then 9
  else if c.ldc < max 1 (c.m : Int) then 12
  else 0

def symmVal (c : SymmArgs) (a b : Int → α) (i j : Nat) : α :=
  if c.left then sumTo (fun l => a (symIdx c.upper c.lda i l) * b ((l : Int) + (j : Int) * c.ldb)) c.m
  else sumTo (fun l => b ((i : Int) + (l : Int) * c.ldb) * a (symIdx c.upper c.lda l j)) c.n

def symmC (c : SymmArgs) (a b : Int → α) (old : Int → α) : Int → α :=
  if symmInfo c ≠ 0 then old else writeMat c.m c.n c.ldc (symmVal c a b) old

def symmReadA (c : SymmArgs) : List Int :=
  if symmInfo c ≠ 0 ∨ c.m = 0 ∨ c.n = 0 then [] else symRead c.upper c.na c.lda
def symmReadB (c : SymmArgs) : List Int :=
  if symmInfo c ≠ 0 ∨ c.m = 0 ∨ c.n = 0 then [] else pairs c.m c.n (fun i j => (i : Int) + (j : Int) * c.ldb)
def symmWriteC (c : SymmArgs) : List Int :=
  if symmInfo c ≠ 0 then [] else pairs c.m c.n (fun i j => (i : Int) + (j : Int) * c.ldc)

/-! ### ?SYMV  `y := A·x`, A n×n symmetric -/

structure SymvArgs where
  upper : Bool
  n : Nat
  lda : Int
  incx : Int
  incy : Int
deriving Repr, DecidableEq

/-- 5 LDA, 7 INCX, 10 INCY -/
def symvInfo (c : SymvArgs) : Nat :=
  if c.lda < max 1 (c.n : Int) then 5
  else if c.incx = 0 then 7
  else if c.incy = 0 then 10
  else 0

def symvVal (c : SymvArgs) (a x : Int → α) (i : Nat) : α :=
  sumTo (fun j => a (symIdx c.upper c.lda i j) * x (vecIdx c.n c.incx j)) c.n

def symvY (c : SymvArgs) (a x : Int → α) (old : Int → α) : Int → α :=
  if symvInfo c ≠ 0 then old else writeVec c.n c.incy (symvVal c a x) old

def symvReadA (c : SymvArgs) : List Int :=
  if symvInfo c ≠ 0 then [] else symRead c.upper c.n c.lda
def symvReadX (c : SymvArgs) : List Int :=
  if symvInfo c ≠ 0 then [] else (List.range c.n).map (vecIdx c.n c.incx)
def symvWriteY (c : SymvArgs) : List Int :=
  if symvInfo c ≠ 0 then [] else (List.range c.n).map (vecIdx c.n c.incy)

/-! ### ?GBMV  `y := op(A)·x`, A m×n band matrix -/

structure GbmvArgs where
  trans : Bool
  m : Nat
  n : Nat
  kl : Nat
  ku : Nat
  lda : Int
  incx : Int
  incy : Int
deriving Repr, DecidableEq

def GbmvArgs.lenx (c : GbmvArgs) : Nat := if c.trans then c.m else c.n
def GbmvArgs.leny (c : GbmvArgs) : Nat := if c.trans then c.n else c.m

/-- 8 LDA (`< kl+ku+1`), 10 INCX, 13 INCY -/
def gbmvInfo (c : GbmvArgs) : Nat :=
  if c.lda < (c.kl : Int) + (c.ku : Int) + 1 then 8
  else if c.incx = 0 then 10
  else if c.incy = 0 then 13
  else 0

/-- `(i,j)` lies inside the band: `max(0,j-ku) ≤ i ≤ min(m-1,j+kl)` for `i < m` -/
def inBand (kl ku : Nat) (i j : Nat) : Bool := decide (j ≤ i + ku) && decide (i ≤ j + kl)

/-- index of band element `(i,j)` -/
def bandIdx (ku : Nat) (lda : Int) (i j : Nat) : Int := ((ku : Int) + (i : Int) - (j : Int)) + (j : Int) * lda

/-- result element `r`: row `r` of `A` (no transpose) or column `r` of `A` (transpose) against `x`;
    terms outside the band are not referenced (they contribute the zero the matrix has there) -/
def gbmvVal (c : GbmvArgs) (a x : Int → α) (r : Nat) : α :=
  if c.trans then
    sumTo (fun i => if inBand c.kl c.ku i r then a (bandIdx c.ku c.lda i r) * x (vecIdx c.m c.incx i) else 0) c.m
  else
    sumTo (fun j => if inBand c.kl c.ku r j then a (bandIdx c.ku c.lda r j) * x (vecIdx c.n c.incx j) else 0) c.n

def gbmvY (c : GbmvArgs) (a x : Int → α) (old : Int → α) : Int → α :=
  if gbmvInfo c ≠ 0 then old else writeVec c.leny c.incy (gbmvVal c a x) old

def gbmvReadA (c : GbmvArgs) : List Int :=
  if gbmvInfo c ≠ 0 ∨ c.m = 0 ∨ c.n = 0 then []
  else (pairs c.m c.n (fun i j => if inBand c.kl c.ku i j then [bandIdx c.ku c.lda i j] else [])).flatten
def gbmvReadX (c : GbmvArgs) : List Int :=
  if gbmvInfo c ≠ 0 ∨ c.m = 0 ∨ c.n = 0 then [] else (List.range c.lenx).map (vecIdx c.lenx c.incx)
def gbmvWriteY (c : GbmvArgs) : List Int :=
  if gbmvInfo c ≠ 0 ∨ c.m = 0 ∨ c.n = 0 then [] else (List.range c.leny).map (vecIdx c.leny c.incy)

end Adept.Blas
