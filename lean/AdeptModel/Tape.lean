/-
M1 / M8 — the recorded tape, the tangent-linear and adjoint sweeps, and the four Jacobian
routines (serial / OpenMP × forward / reverse).

Transcribed from
  adept/Stack.cpp     Stack::compute_tangent_linear, Stack::compute_adjoint
  adept/jacobian.cpp  jacobian_forward_kernel(_extra), jacobian_forward(_openmp),
                      jacobian_reverse(_openmp), and the Matrix front ends

Vectors are lists (`getD … 0` / `set`): this is the executable layer, linked into the driver.
The proof layer (AdeptProofs/Lemmas/Tape.lean) relates it to functions `Nat → R`.
Statement 0 of the C++ tape (the null statement pushed by `new_recording`) is not stored.

`gradient_multipass_b` is indexed `[slot*W + lane]` in the forward code and `[slot][lane]`
(`std::vector<Block<W>>`) in the reverse code; both are modelled as one list per lane
(`Buf`: lane ↦ vector over slots), which is the same data.
-/
namespace Adept.Tape

variable {R : Type} [Add R] [Mul R] [Zero R] [One R] [DecidableEq R]

structure Stmt (R : Type) where
  lhs : Nat
  ops : List (R × Nat)          -- (multiplier, gradient index), in push order
deriving Repr, DecidableEq

abbrev Vec (R : Type) := List R

@[inline] def rd (g : Vec R) (i : Nat) : R := g.getD i 0

/-- `a = 0; for (iop) a += multiplier_[iop]*gradient_[index_[iop]]` -/
def rhsVal (ops : List (R × Nat)) (g : Vec R) : R :=
  ops.foldl (fun a p => a + p.1 * rd g p.2) 0

/-- one statement of `compute_tangent_linear` -/
def fwdStep (s : Stmt R) (g : Vec R) : Vec R := g.set s.lhs (rhsVal s.ops g)

def scatterStep (a : R) (g : Vec R) (p : R × Nat) : Vec R := g.set p.2 (rd g p.2 + p.1 * a)

/-- `for (iop) gradient_[index_[iop]] += multiplier_[iop]*a` -/
def scatter (ops : List (R × Nat)) (a : R) (g : Vec R) : Vec R := ops.foldl (scatterStep a) g

/-- one statement of `compute_adjoint` (with the `a != 0.0` short cut) -/
def revStep (s : Stmt R) (g : Vec R) : Vec R :=
  let a := rd g s.lhs
  let g' := g.set s.lhs 0
  if a = 0 then g' else scatter s.ops a g'

def fwd (t : List (Stmt R)) (g : Vec R) : Vec R := t.foldl (fun g s => fwdStep s g) g
def rev (t : List (Stmt R)) (g : Vec R) : Vec R := t.foldr (fun s g => revStep s g) g

/-! ### Jacobians -/

/-- multipass working buffer: one gradient vector per lane -/
abbrev Buf (R : Type) := List (Vec R)

def zeroBuf (W maxGrad : Nat) : Buf R := List.replicate W (List.replicate maxGrad 0)

/-- `gradient_multipass_b[idx*W+lane] = 1.0` -/
def seedLane (b : Buf R) (lane idx : Nat) : Buf R :=
  b.set lane ((b.getD lane []).set idx 1)

/-- seed lanes `0 … size-1` of a block whose first variable is `vars[first]` -/
def seedBlock (b : Buf R) (vars : List Nat) (first size : Nat) : Buf R :=
  (List.range size).foldl (fun b i => seedLane b i (vars.getD (first + i) 0)) b

/-- forward kernel on lanes `< nl` (`nl = W`: `jacobian_forward_kernel`,
    `nl = n_extra`: `jacobian_forward_kernel_extra`); lanes ≥ nl are untouched -/
def kernelFwd (t : List (Stmt R)) (nl : Nat) (b : Buf R) : Buf R :=
  b.mapIdx (fun i lane => if i < nl then fwd t lane else lane)

/-- reverse kernel on lanes `< nl` -/
def kernelRev (t : List (Stmt R)) (nl : Nat) (b : Buf R) : Buf R :=
  b.mapIdx (fun i lane => if i < nl then rev t lane else lane)

/-- output memory: a list of cells addressed from `jacobian_out` -/
abbrev Out (R : Type) := List R

/-- forward copy-out of one block: `jacobian_out[idep*dep_offset + (first+i)*indep_offset] = b[dep[idep]][i]`
    (the `indep_offset == 1` branch of the C++ computes the same address) -/
def copyOutFwd (out : Out R) (b : Buf R) (dep : List Nat) (first size depOff indepOff : Nat) : Out R :=
  (List.range dep.length).foldl (fun out idep =>
    (List.range size).foldl (fun out i =>
      out.set (idep * depOff + (first + i) * indepOff) (rd (b.getD i []) (dep.getD idep 0))) out) out

/-- reverse copy-out: `jacobian_out[iindep*indep_offset + (first+i)*dep_offset] = b[indep[iindep]][i]` -/
def copyOutRev (out : Out R) (b : Buf R) (indep : List Nat) (first size depOff indepOff : Nat) : Out R :=
  (List.range indep.length).foldl (fun out ii =>
    (List.range size).foldl (fun out i =>
      out.set (ii * indepOff + (first + i) * depOff) (rd (b.getD i []) (indep.getD ii 0))) out) out

structure JacCfg where
  W : Nat            -- MULTIPASS_SIZE (packet size or ADEPT_MULTIPASS_SIZE)
  maxGrad : Nat      -- max_gradient_
  depOff : Nat
  indepOff : Nat
deriving Repr

/-- one forward block: zero, seed `size` lanes, run the kernel on `nl` lanes, copy `size` lanes out -/
def fwdBlock (t : List (Stmt R)) (c : JacCfg) (indep dep : List Nat) (first size nl : Nat) (out : Out R) : Out R :=
  let b := kernelFwd t nl (seedBlock (zeroBuf c.W c.maxGrad) indep first size)
  copyOutFwd out b dep first size c.depOff c.indepOff

def revBlock (t : List (Stmt R)) (c : JacCfg) (indep dep : List Nat) (first size nl : Nat) (out : Out R) : Out R :=
  let b := kernelRev t nl (seedBlock (zeroBuf c.W c.maxGrad) dep first size)
  copyOutRev out b indep first size c.depOff c.indepOff

/-- serial `Stack::jacobian_forward`: `n / W` full blocks, then the leftover kernel on `n % W` lanes -/
def jacFwdSerial (t : List (Stmt R)) (c : JacCfg) (indep dep : List Nat) (out : Out R) : Out R :=
  let n := indep.length
  let out := (List.range (n / c.W)).foldl (fun out ib => fwdBlock t c indep dep (c.W * ib) c.W c.W out) out
  if n % c.W > 0 then fwdBlock t c indep dep (c.W * (n / c.W)) (n % c.W) (n % c.W) out else out

def jacRevSerial (t : List (Stmt R)) (c : JacCfg) (indep dep : List Nat) (out : Out R) : Out R :=
  let m := dep.length
  let out := (List.range (m / c.W)).foldl (fun out ib => revBlock t c indep dep (c.W * ib) c.W c.W out) out
  if m % c.W > 0 then revBlock t c indep dep (c.W * (m / c.W)) (m % c.W) (m % c.W) out else out

/-- block size used by the OpenMP routines for block `ib` of `nb` -/
def ompBlockSize (W n nb ib : Nat) : Nat := if ib + 1 = nb ∧ n % W > 0 then n % W else W

/-- `jacobian_forward_openmp`: `⌈n/W⌉` blocks, executed in the order `sched` (any order in which the
    threads happen to take them; each thread re-zeroes its private buffer per block); the forward
    OpenMP code always runs the full-width kernel, the reverse one runs `block_size` lanes -/
def jacFwdOmp (t : List (Stmt R)) (c : JacCfg) (indep dep : List Nat) (sched : List Nat) (out : Out R) : Out R :=
  let n := indep.length
  let nb := (n + c.W - 1) / c.W
  sched.foldl (fun out ib => fwdBlock t c indep dep (c.W * ib) (ompBlockSize c.W n nb ib) c.W out) out

def jacRevOmp (t : List (Stmt R)) (c : JacCfg) (indep dep : List Nat) (sched : List Nat) (out : Out R) : Out R :=
  let m := dep.length
  let nb := (m + c.W - 1) / c.W
  sched.foldl (fun out ib =>
    revBlock t c indep dep (c.W * ib) (ompBlockSize c.W m nb ib) (ompBlockSize c.W m nb ib) out) out

/-! ### Law-free layer (theorems `C02_…_lawfree`, `C13_…_lawfree`; Float correspondence)

Everything above runs over any carrier with `+ * 0 1`; only `revStep` needs more, because it transcribes
`if (a != 0.0)` as propositional equality.  On `double` that test is a *comparison* (`-0.0 == 0.0`, `NaN != 0.0`), so the
definitions below take it as one more operation `nz : R → Bool` of the carrier; nothing is assumed about it.
`revStep = revStepZ (fun a => decide (a ≠ 0))` (lemma `revStepZ_decide`).

The reverse Jacobian sweeps of jacobian.cpp do NOT test each lane on its own: the code is

    n_non_zero = 0;
    for (i < block_size) { a[i] = b[statement.index][i]; b[statement.index][i] = 0.0; if (a[i] != 0.0) n_non_zero = 1; }
    if (n_non_zero) for (iop) for (i < block_size) b[index_[iop]][i] += multiplier_[iop]*a[i];

(`#if MULTIPASS_SIZE > MULTIPASS_SIZE_ZERO_CHECK` compares two identifiers that are not preprocessor macros —
`MULTIPASS_SIZE` is a `static const int`, the macro of base.h is called `ADEPT_MULTIPASS_SIZE_ZERO_CHECK` — so it reads
`0 > 0` and the per-lane `i_non_zero` variant is never compiled, whatever the block width.)  A lane whose own `a[i]` is
zero therefore still executes `b[…][i] += multiplier*0` when another lane of the block is non-zero.  Over a ring that is
invisible (`kernelRev`, lane by lane, is the specification the ring theorems use); law-free it is not, so the transcription
with the block-wide flag is `kernelRevB`, and `jacRevSerialB` / `jacRevOmpB` are the routines built on it.  The order of
the two inner loops (operations outside, lanes inside) is immaterial operation for operation: different lanes are different
memory cells and every cell sees its updates in operation order either way. -/

/-- one statement of `compute_adjoint`; `nz a` is the test `a != 0.0` -/
def revStepZ (nz : R → Bool) (s : Stmt R) (g : Vec R) : Vec R :=
  let a := rd g s.lhs
  let g' := g.set s.lhs 0
  if nz a then scatter s.ops a g' else g'

/-- `Stack::compute_adjoint` with the zero test as an operation -/
def revZ (nz : R → Bool) (t : List (Stmt R)) (g : Vec R) : Vec R := t.foldr (fun s g => revStepZ nz s g) g

/-- the forward kernels statement by statement, as the C++ loops run (all lanes `< nl` do statement 1, then statement 2, …);
    `kernelFwd` is the same thing lane by lane (lemma `kernelFwdS_eq`) -/
def kernelFwdS (t : List (Stmt R)) (nl : Nat) (b : Buf R) : Buf R :=
  t.foldl (fun b s => b.mapIdx (fun i lane => if i < nl then fwdStep s lane else lane)) b

/-- the flag `n_non_zero` of the reverse Jacobian sweeps: is `a[i] != 0.0` for some lane `i < nl` -/
def anyNz (nz : R → Bool) (b : Buf R) (nl lhs : Nat) : Bool :=
  (List.range nl).any (fun i => nz (rd (b.getD i []) lhs))

/-- what one lane does for one statement once the block-wide flag `go` is known -/
def revLaneB (go : Bool) (s : Stmt R) (lane : Vec R) : Vec R :=
  if go then scatter s.ops (rd lane s.lhs) (lane.set s.lhs 0) else lane.set s.lhs 0

/-- one statement of the reverse Jacobian sweep on lanes `< nl` -/
def revStmtB (nz : R → Bool) (s : Stmt R) (nl : Nat) (b : Buf R) : Buf R :=
  let go := anyNz nz b nl s.lhs
  b.mapIdx (fun i lane => if i < nl then revLaneB go s lane else lane)

/-- the reverse sweep of `jacobian_reverse(_openmp)` on lanes `< nl`, last statement first -/
def kernelRevB (nz : R → Bool) (t : List (Stmt R)) (nl : Nat) (b : Buf R) : Buf R :=
  t.foldr (fun s b => revStmtB nz s nl b) b

def revBlockB (nz : R → Bool) (t : List (Stmt R)) (c : JacCfg) (indep dep : List Nat) (first size nl : Nat)
    (out : Out R) : Out R :=
  let b := kernelRevB nz t nl (seedBlock (zeroBuf c.W c.maxGrad) dep first size)
  copyOutRev out b indep first size c.depOff c.indepOff

/-- serial `Stack::jacobian_reverse` as compiled: `m / W` full blocks, then one block of `m % W` lanes -/
def jacRevSerialB (nz : R → Bool) (t : List (Stmt R)) (c : JacCfg) (indep dep : List Nat) (out : Out R) : Out R :=
  let m := dep.length
  let out := (List.range (m / c.W)).foldl (fun out ib => revBlockB nz t c indep dep (c.W * ib) c.W c.W out) out
  if m % c.W > 0 then revBlockB nz t c indep dep (c.W * (m / c.W)) (m % c.W) (m % c.W) out else out

/-- `jacobian_reverse_openmp` as compiled, blocks executed in the order `sched` -/
def jacRevOmpB (nz : R → Bool) (t : List (Stmt R)) (c : JacCfg) (indep dep : List Nat) (sched : List Nat)
    (out : Out R) : Out R :=
  let m := dep.length
  let nb := (m + c.W - 1) / c.W
  sched.foldl (fun out ib =>
    revBlockB nz t c indep dep (c.W * ib) (ompBlockSize c.W m nb ib) (ompBlockSize c.W m nb ib) out) out

/-- the dispatch test of `jacobian_forward` / `jacobian_reverse` -/
def useOmp (haveOmp disabled : Bool) (count W maxThreads : Nat) : Bool :=
  haveOmp && !disabled && decide (count > W) && decide (maxThreads > 1)

/-- `Stack::jacobian`: forward iff `n ≤ m` -/
def chooseForward (nIndep nDep : Nat) : Bool := decide (nIndep ≤ nDep)

end Adept.Tape
