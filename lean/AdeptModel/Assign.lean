/-
M5 (assignment part) — passive array statements of `adept::Array`, `FixedArray`, `IndexedArray`.

Transcribed from (the fixed tree: F-02/a27a596 counted innermost loops, F-03 `noalias(*this) op rhs`, F-11,
F-28 alias test of `spread`/`outer_product` operands)
  include/adept/Array.h        data_range, is_aliased_, operator=(Expression), operator=(scalar),
                               ADEPT_DEFINE_OPERATOR (op=), assign_conditional, advance_index,
                               assign_inactive_scalar_, assign_expression_, assign_conditional_(inactive_scalar_)
  include/adept/FixedArray.h   operator=(Expression) (no alias test), op=
  include/adept/IndexedArray.h operator=(Expression), op=, assign_expression_, is_aliased_
  include/adept/BinaryOperation.h / noalias.h / spread.h / outer_product.h   is_aliased_ of each node
  include/adept/where.h        Where::operator= (plain and either_or), ADEPT_WHERE_OPERATOR (+= -= *= /=)
  include/adept/Array.h / FixedArray.h / IndexedArray.h   operator=(std::initializer_list…), FixedArray::assign_conditional

Memory is one flat address space of elements (`Int → Int`): every allocation of a case is placed at a
distinct absolute element address by the driver, so that the pointer comparisons of `is_aliased_` are
comparisons of integers.  A view is `(data_, dimensions_, offset_)`; `offset_` may have either sign.
Element type `Int` (the harness uses `int` and integer-valued `double`).

How literal: the left-hand `index` is advanced exactly as the C++ does (`index += offset_[last]` in the
innermost loop, `Array::advance_index` with its carries between rows, loop conditions as coded: the counter
`i[last] < dimensions_[last]` for expressions, `k < dimensions_[last]` for scalars).  The right-hand side's
`ExpressionSize<n_arrays> ind` is abstracted to the *coordinates* it denotes: `set_location(i, ind)` sets the
cursor to `i`, `next_value(ind)` reads at the cursor and advances its last coordinate (for an `Array` leaf
`ind = Σ i_k·offset_k` and `advance_location_` adds `offset_[Rank-1]`, i.e. exactly that).  The `is_gap`
resynchronisation of `assign_conditional_` is kept.  A temporary `Array copy; copy = rhs;` owns fresh storage
no view can reach; it is represented by the function `coordinates ↦ value of rhs in the memory at the time
of the copy`.

Core Lean only (linked into `adept_model`).
-/
namespace Adept.Assign

/-! ## memory, views -/

/-- memory: a total map from element addresses to values.  A structure rather than a bare function type on
    purpose: the compiler must not eta-expand statement results (an `Int → Int` accumulator would be compiled to
    a closure that re-evaluates the right-hand side at every read) -/
structure Mem where
  get : Int → Int

instance : CoeFun Mem (fun _ => Int → Int) := ⟨Mem.get⟩

@[noinline] def write (m : Mem) (a x : Int) : Mem := ⟨fun k => if k = a then x else m.get k⟩

structure View where
  base : Int            -- data_ (absolute element address)
  dims : List Nat       -- dimensions_
  strides : List Int    -- offset_
deriving Repr, DecidableEq

/-- `Σ ix_k * offset_k` (`Array::index_`) -/
def dot : List Nat → List Int → Int
  | i :: is, s :: ss => (i : Int) * s + dot is ss
  | _, _ => 0

def View.addr (v : View) (ix : List Nat) : Int := v.base + dot ix v.strides

/-- all index tuples of an array with these extents, in index (row-major: last index fastest) order -/
def idxs : List Nat → List (List Nat)
  | [] => [[]]
  | d :: ds => (List.range d).flatMap fun i => (idxs ds).map (i :: ·)

def View.cells (v : View) : List Int := (idxs v.dims).map v.addr

/-- `Array::empty()` is `dimensions_[0] == 0` -/
def View.empty (v : View) : Bool := v.dims.head? == some 0 || v.dims.isEmpty

/-- `Array::data_range`: loop over the dimensions, widening `data_end` for non-negative offsets and
    `data_begin` for negative ones by `(dimensions_[i]-1)*offset_[i]` -/
def rangeLoop : List Nat → List Int → Int × Int → Int × Int
  | d :: ds, s :: ss, (b, e) =>
    if s ≥ 0 then rangeLoop ds ss (b, e + ((d : Int) - 1) * s)
    else rangeLoop ds ss (b + ((d : Int) - 1) * s, e)
  | _, _, be => be

def View.dataRange (v : View) : Int × Int := rangeLoop v.dims v.strides (v.base, v.base)

/-- `Array::is_aliased_(mem1, mem2)`: `ptr_begin <= mem2 && ptr_end >= mem1` -/
def View.isAliased (v : View) (mem1 mem2 : Int) : Bool :=
  decide (v.dataRange.1 ≤ mem2) && decide (v.dataRange.2 ≥ mem1)

/-! ## expressions -/

inductive BOp | add | sub | mul | div
deriving Repr, DecidableEq

/-- C++ arithmetic on `int` (division truncates towards zero) -/
def BOp.ap : BOp → Int → Int → Int
  | .add, a, b => a + b
  | .sub, a, b => a - b
  | .mul, a, b => a * b
  | .div, a, b => Int.tdiv a b

/-- how one dimension of the wrapped array is indexed: a scalar (the dimension disappears from the
    IndexedArray) or a list of indices (an intVector; `range`/`__` are expanded by the driver) -/
inductive Sel
  | at (k : Nat)
  | list (l : List Nat)
deriving Repr, DecidableEq

/-- an `IndexedArray`: the wrapped array and one selection per dimension of it -/
structure IView where
  a : View
  sel : List Sel
deriving Repr, DecidableEq

def selDims : List Sel → List Nat
  | [] => []
  | .at _ :: ss => selDims ss
  | .list l :: ss => l.length :: selDims ss

def IView.dims (w : IView) : List Nat := selDims w.sel

/-- translate coordinates of the IndexedArray into coordinates of the wrapped array (`translate_coords_`,
    `get_value_with_len_`); a scalar selection consumes no coordinate -/
def pick : List Sel → List Nat → List Nat
  | .at k :: ss, js => k :: pick ss js
  | .list l :: ss, j :: js => l.getD j 0 :: pick ss js
  | _, _ => []

def IView.addr (w : IView) (ix : List Nat) : Int := w.a.addr (pick w.sel ix)

inductive Expr
  | leaf (v : View)                          -- Array
  | ileaf (w : IView)                        -- IndexedArray
  | const (c : Int)                          -- scalar
  | bin (op : BOp) (l r : Expr)              -- BinaryOperation / BinaryOpScalarLeft / BinaryOpScalarRight
  | noalias (e : Expr)                       -- NoAlias
  | spread (d : Nat) (v : View)              -- Spread<d>: holds a shallow copy of the array
  | outer (l r : View)                       -- OuterProduct: shallow copies of both vectors
  | tmp (f : List Nat → Int)                 -- a temporary Array with storage of its own (see header)

/-- drop coordinate `d` (`Spread::set_location_`) -/
def dropAt : Nat → List Nat → List Nat
  | _, [] => []
  | 0, _ :: is => is
  | d + 1, i :: is => i :: dropAt d is

/-- value of the expression at coordinates `ix` in memory `m` (`value_at_location_`) -/
def Expr.evalAt : Expr → Mem → List Nat → Int
  | .leaf v, m, ix => m (v.addr ix)
  | .ileaf w, m, ix => m (w.addr ix)
  | .const c, _, _ => c
  | .bin op l r, m, ix => op.ap (l.evalAt m ix) (r.evalAt m ix)
  | .noalias e, m, ix => e.evalAt m ix
  | .spread d v, m, ix => m (v.addr (dropAt d ix))
  | .outer l r, m, ix => m (l.addr (ix.take 1)) * m (r.addr (ix.drop 1))
  | .tmp f, _, ix => f ix

/-- addresses read when the expression is evaluated at `ix` -/
def Expr.reads : Expr → List Nat → List Int
  | .leaf v, ix => [v.addr ix]
  | .ileaf w, ix => [w.addr ix]
  | .const _, _ => []
  | .bin _ l r, ix => l.reads ix ++ r.reads ix
  | .noalias e, ix => e.reads ix
  | .spread d v, ix => [v.addr (dropAt d ix)]
  | .outer l r, ix => [l.addr (ix.take 1), r.addr (ix.drop 1)]
  | .tmp _, _ => []

/-- `Expression::is_aliased(mem1, mem2)`, node by node:
    Array → range overlap; IndexedArray → its wrapped array; BinaryOperation → left || right; scalars → false;
    NoAlias → false; Spread / OuterProduct → their operands (fix F-28); a temporary cannot overlap -/
def Expr.isAliased : Expr → Int → Int → Bool
  | .leaf v, a, b => v.isAliased a b
  | .ileaf w, a, b => w.a.isAliased a b
  | .const _, _, _ => false
  | .bin _ l r, a, b => l.isAliased a b || r.isAliased a b
  | .noalias _, _, _ => false
  | .spread _ v, a, b => v.isAliased a b
  | .outer l r, a, b => l.isAliased a b || r.isAliased a b
  | .tmp _, _, _ => false

/-- `Array copy; copy = rhs;` evaluated in memory `m` -/
def Expr.snapshot (e : Expr) (m : Mem) : Expr := .tmp (fun ix => e.evalAt m ix)

/-! ## the loop skeleton of Array.h -/

/-- one outer-dimension counter: `i[r]`, `dimensions_[r]`, `offset_[r]` -/
structure Ctr where
  i : Nat
  dim : Nat
  off : Int
deriving Repr, DecidableEq

/-- the `while (--rank >= 0)` loop of `Array::advance_index`; `cs` holds the counters of ranks
    `Rank-2, …, 0` in that order.  `none`: the loop ran off the end (`rank == -1`, traversal finished). -/
def carry : List Ctr → Int → Option (List Ctr × Int)
  | [], _ => none
  | c :: cs, index =>
    if c.i + 1 ≥ c.dim then
      -- i[rank] = 0;  index -= offset_[rank]*(dimensions_[rank]-1);
      match carry cs (index - c.off * ((c.dim : Int) - 1)) with
      | none => none
      | some (cs', index') => some ({ c with i := 0 } :: cs', index')
    else
      -- index += offset_[rank];  break;
      some ({ c with i := c.i + 1 } :: cs, index + c.off)

/-- coordinates `i[0] … i[Rank-2]` held in the counters -/
def outerOf (cs : List Ctr) : List Nat := (cs.map (·.i)).reverse

/-- `do { <row> ; advance_index(index, my_rank, i); } while (my_rank >= 0);`
    `row outer index s` runs the body up to the end of the innermost `for` and returns the advanced `index`. -/
def rowsLoop {σ : Type} (lastDim : Nat) (lastOff : Int) (row : List Nat → Int → σ → Int × σ) :
    Nat → List Ctr → Int → σ → σ
  | 0, _, _, s => s
  | fuel + 1, cs, index, s =>
    let r := row (outerOf cs) index s
    -- advance_index:  index -= offset_[Rank-1]*dimensions_[Rank-1];
    let index := r.1 - lastOff * (lastDim : Int)
    match carry cs index with
    | none => r.2
    | some (cs', index') => rowsLoop lastDim lastOff row fuel cs' index' r.2

/-- counters for the outer dimensions (all zero); both arguments list ranks `Rank-2 … 0` in that order -/
def mkCtrs : List Nat → List Int → List Ctr
  | d :: ds, s :: ss => ⟨0, d, s⟩ :: mkCtrs ds ss
  | _, _ => []

def prodNat : List Nat → Nat
  | [] => 1
  | d :: ds => d * prodNat ds

/-- run a row body over a whole view (non-empty rank ≥ 1 arrays; the fuel is only a termination device:
    the loop leaves through `my_rank < 0`, see `AdeptProofs/Lemmas/Assign.lean`) -/
def View.traverse {σ : Type} (v : View) (row : Nat → Int → List Nat → Int → σ → Int × σ) (s : σ) : σ :=
  match v.dims.reverse, v.strides.reverse with
  | dl :: dsr, sl :: ssr =>
    rowsLoop dl sl (row dl sl) (prodNat dsr + 1) (mkCtrs dsr ssr) 0 s
  | _, _ => s

/-! ## statements on an `Array` target -/

/-- innermost loop of `assign_expression_` (non-contiguous branch, which the contiguous and packet branches
    refine): `for ( ; i[last] < dimensions_[last]; ++i[last], index += offset_[last]) data_[index] = rhs.next_value(ind);`
    `n` is the number of iterations left, `j` the cursor's last coordinate -/
def innerAssign (rhs : Expr) (base : Int) (lastOff : Int) (outer : List Nat) : Nat → Nat → Int → Mem → Int × Mem
  | 0, _, index, m => (index, m)
  | n + 1, j, index, m =>
    innerAssign rhs base lastOff outer n (j + 1) (index + lastOff) (write m (base + index) (rhs.evalAt m (outer ++ [j])))

/-- `Array::assign_expression_<Rank,false,false>(rhs)` -/
def assignExpression (lhs : View) (rhs : Expr) (m : Mem) : Mem :=
  lhs.traverse (fun dl sl outer index m => innerAssign rhs lhs.base sl outer dl 0 index m) m

/-- `Array::operator=(const Expression&)` after the dimension checks -/
def assign (lhs : View) (rhs : Expr) (m : Mem) : Mem :=
  if lhs.empty then m else
  let r := lhs.dataRange
  if rhs.isAliased r.1 r.2 then
    -- Array copy; copy = rhs; assign_expression_(copy);
    assignExpression lhs (rhs.snapshot m) m
  else
    assignExpression lhs rhs m

/-- innermost loop of `assign_inactive_scalar_` (as of fix a27a596, which superseded the `index != max_index`
    form of F-02): `for (Index k = 0; k < dimensions_[last]; ++k, index += offset_[last]) data_[index] = x;`
    — the elements are counted, so the sign (or vanishing) of the offset plays no role in termination -/
def innerScalar (x base lastOff : Int) : Nat → Int → Mem → Int × Mem
  | 0, index, m => (index, m)
  | n + 1, index, m => innerScalar x base lastOff n (index + lastOff) (write m (base + index) x)

/-- `Array::operator=(scalar)` → `assign_inactive_scalar_<Rank,false>` -/
def assignScalar (lhs : View) (x : Int) (m : Mem) : Mem :=
  if lhs.empty then m else
  lhs.traverse (fun dl sl _ index m => innerScalar x lhs.base sl dl index m) m

/-- `Array::operator op=(rhs)`: `*this = noalias(*this) op rhs` (fix F-03) -/
def compound (op : BOp) (lhs : View) (rhs : Expr) (m : Mem) : Mem :=
  assign lhs (.bin op (.noalias (.leaf lhs)) rhs) m

/-! ## boolean expressions (masks) -/

inductive Cmp | lt | le | gt | ge | eq | ne
deriving Repr, DecidableEq

def Cmp.ap : Cmp → Int → Int → Bool
  | .lt, a, b => decide (a < b)
  | .le, a, b => decide (a ≤ b)
  | .gt, a, b => decide (a > b)
  | .ge, a, b => decide (a ≥ b)
  | .eq, a, b => decide (a = b)
  | .ne, a, b => decide (a ≠ b)

inductive BExpr
  | cmp (c : Cmp) (l r : Expr)
  | not (b : BExpr)
  | and (l r : BExpr)
  | or (l r : BExpr)
  | lit (f : List Nat → Bool)          -- a boolArray (cannot overlap an int/double target)

def BExpr.evalAt : BExpr → Mem → List Nat → Bool
  | .cmp c l r, m, ix => c.ap (l.evalAt m ix) (r.evalAt m ix)
  | .not b, m, ix => !(b.evalAt m ix)
  | .and l r, m, ix => l.evalAt m ix && r.evalAt m ix
  | .or l r, m, ix => l.evalAt m ix || r.evalAt m ix
  | .lit f, _, ix => f ix

def BExpr.reads : BExpr → List Nat → List Int
  | .cmp _ l r, ix => l.reads ix ++ r.reads ix
  | .not b, ix => b.reads ix
  | .and l r, ix => l.reads ix ++ r.reads ix
  | .or l r, ix => l.reads ix ++ r.reads ix
  | .lit _, _ => []

/-- state of the innermost loop of `assign_conditional_`: memory, `is_gap`, last coordinate of the rhs cursor -/
structure WSt where
  m : Mem
  isGap : Bool
  jr : Nat

/-- innermost loop of `assign_conditional_<false>(bool_expr, rhs)`:
    `if (bool_expr.next_value(bool_ind)) { if (is_gap) { rhs.set_location(i, rhs_ind); is_gap = false; }
       data_[index] = rhs.next_value(rhs_ind); } else { is_gap = true; }` -/
def innerWhere (mask : BExpr) (rhs : Expr) (base lastOff : Int) (outer : List Nat) : Nat → Nat → Int → WSt → Int × WSt
  | 0, _, index, s => (index, s)
  | n + 1, j, index, s =>
    let s' :=
      if mask.evalAt s.m (outer ++ [j]) then
        let jr := if s.isGap then j else s.jr
        { m := write s.m (base + index) (rhs.evalAt s.m (outer ++ [jr])), isGap := false, jr := jr + 1 }
      else { s with isGap := true }
    innerWhere mask rhs base lastOff outer n (j + 1) (index + lastOff) s'

/-- `assign_conditional_<false>`: `is_gap` lives across rows; every row starts with `rhs.set_location(i, rhs_ind)` -/
def assignConditional_ (lhs : View) (mask : BExpr) (rhs : Expr) (m : Mem) : Mem :=
  (lhs.traverse (fun dl sl outer index (s : WSt) =>
      innerWhere mask rhs lhs.base sl outer dl 0 index { s with jr := 0 }) { m := m, isGap := false, jr := 0 }).m

/-- `Array::assign_conditional(bool_expr, Expression rhs)`: only `rhs` is tested for aliasing, the mask is
    evaluated lazily while the target is being written (finding F-25) -/
def assignConditional (lhs : View) (mask : BExpr) (rhs : Expr) (m : Mem) : Mem :=
  let r := lhs.dataRange
  if rhs.isAliased r.1 r.2 then assignConditional_ lhs mask (rhs.snapshot m) m
  else assignConditional_ lhs mask rhs m

/-- `Array::assign_conditional(bool_expr, scalar)` → `assign_conditional_inactive_scalar_<false>` -/
def assignConditionalScalar (lhs : View) (mask : BExpr) (x : Int) (m : Mem) : Mem :=
  if lhs.empty then m else assignConditional_ lhs mask (.const x) m

/-- right-hand side of a `where`: an array expression or a scalar -/
inductive WRhs
  | expr (e : Expr)
  | scalar (x : Int)

def whereAssign (lhs : View) (mask : BExpr) : WRhs → Mem → Mem
  | .expr e, m => assignConditional lhs mask e m
  | .scalar x, m => assignConditionalScalar lhs mask x m

/-- `A.where(B) = either_or(C, D)`: two passes, `assign_conditional(!B, D)` then `assign_conditional(B, C)`;
    the mask is evaluated twice, the second time on the memory the first pass left -/
def whereEitherOr (lhs : View) (mask : BExpr) (c d : WRhs) (m : Mem) : Mem :=
  whereAssign lhs mask c (whereAssign lhs (.not mask) d m)

/-- right-hand side of a `where` as the expression the operators of `BinaryOperation.h` see (`noalias(A) OP c` with a scalar
    `c` is a `BinaryOpScalarRight`, an Expression: the statement takes the Expression overload of `assign_conditional`) -/
def WRhs.toExpr : WRhs → Expr
  | .expr e => e
  | .scalar x => .const x

/-- `A.where(B) OP= C` (where.h, macro `ADEPT_WHERE_OPERATOR`; `OP=` one of `+= -= *= /=`):
    `array_.assign_conditional(bool_expr_, noalias(array_) OP c)`.  The pinned tree spells the operand `noalias(*this)` with `*this`
    the `Where` proxy, which does not compile (finding where-compound-does-not-compile); this is the body with `array_`. -/
def whereCompound (op : BOp) (lhs : View) (mask : BExpr) (c : WRhs) (m : Mem) : Mem :=
  assignConditional lhs mask (.bin op (.noalias (.leaf lhs)) c.toExpr) m

/-- `A.where(B) OP= either_or(C, D)`: two passes, `assign_conditional(!B, noalias(A) OP D)` then
    `assign_conditional(B, noalias(A) OP C)` -/
def whereCompoundEitherOr (op : BOp) (lhs : View) (mask : BExpr) (c d : WRhs) (m : Mem) : Mem :=
  whereCompound op lhs mask c (whereCompound op lhs (.not mask) d m)

/-! ## `FixedArray` target: no alias test at all (documented; finding F-22) -/

def fixedAssign (lhs : View) (rhs : Expr) (m : Mem) : Mem := assignExpression lhs rhs m

/-- `FixedArray::operator op=`: `*this = noalias(*this) op rhs` (fix F-03), again without alias test -/
def fixedCompound (op : BOp) (lhs : View) (rhs : Expr) (m : Mem) : Mem :=
  fixedAssign lhs (.bin op (.noalias (.leaf lhs)) rhs) m

/-- `FixedArray::assign_conditional(bool_expr, rhs)` (FixedArray.h): dimension check, then `assign_conditional_<IsActive>` —
    the same loop as `Array::assign_conditional_` (`is_gap` included) and, as for every `FixedArray` statement, no alias test;
    the scalar overload runs `assign_conditional_inactive_scalar_`, the same loop storing the scalar -/
def fixedWhereAssign (lhs : View) (mask : BExpr) (c : WRhs) (m : Mem) : Mem :=
  assignConditional_ lhs mask c.toExpr m

/-- `F.where(B) OP= C` on a `FixedArray`: `array_.assign_conditional(bool_expr_, noalias(array_) OP c)` -/
def fixedWhereCompound (op : BOp) (lhs : View) (mask : BExpr) (c : WRhs) (m : Mem) : Mem :=
  fixedWhereAssign lhs mask (.expr (.bin op (.noalias (.leaf lhs)) c.toExpr)) m

/-- `F.where(B) = either_or(C, D)` on a `FixedArray` -/
def fixedWhereEitherOr (lhs : View) (mask : BExpr) (c d : WRhs) (m : Mem) : Mem :=
  fixedWhereAssign lhs mask c (fixedWhereAssign lhs (.not mask) d m)

/-! ## `IndexedArray` target -/

/-- `IndexedArray::assign_expression_<false,false>`: the loop is written over the *coordinates* of the indexed
    array (`coords`, `advance_index(dim, coords)` without an address), the address is recomputed from them for
    every element: `a_.data()[a_loc[0] + last_offset_*index(coords[last])] = rhs.next_value(loc)` -/
def indexedAssignExpression (lhs : IView) (rhs : Expr) (m : Mem) : Mem :=
  (idxs lhs.dims).foldl (fun m ix => write m (lhs.addr ix) (rhs.evalAt m ix)) m

/-- `IndexedArray::operator=(const Expression&)`: alias test against the *whole* wrapped array,
    `copy = noalias(rhs)` -/
def indexedAssign (lhs : IView) (rhs : Expr) (m : Mem) : Mem :=
  if lhs.dims.head? == some 0 || lhs.dims.isEmpty then m else
  let r := lhs.a.dataRange
  if rhs.isAliased r.1 r.2 then indexedAssignExpression lhs (rhs.snapshot m) m
  else indexedAssignExpression lhs rhs m

/-- `IndexedArray::operator op=`: `*this = noalias(*this) op rhs` -/
def indexedCompound (op : BOp) (lhs : IView) (rhs : Expr) (m : Mem) : Mem :=
  indexedAssign lhs (.bin op (.noalias (.ileaf lhs)) rhs) m

/-- `IndexedArray::operator=(scalar)` → `assign_inactive_scalar_<false>` (coordinate loop) -/
def indexedAssignScalar (lhs : IView) (x : Int) (m : Mem) : Mem :=
  if lhs.dims.head? == some 0 || lhs.dims.isEmpty then m else
  (idxs lhs.dims).foldl (fun m ix => write m (lhs.addr ix) x) m

/-! ## initializer lists as statements (`Array.h` ~696-741, `FixedArray.h` ~434-469, `IndexedArray.h` ~583-634) -/

/-- `Array<1>::operator=(std::initializer_list<T>)` on a non-empty vector (the list is not longer than the vector, otherwise
    `size_mismatch`): `*this = 0;` then `data_[index*offset_[0]] = *i` for the elements of the list -/
def ilAssign1 (lhs : View) (xs : List Int) (m : Mem) : Mem :=
  xs.zipIdx.foldl (fun m p => write m (lhs.base + (p.2 : Int) * lhs.strides.headD 0) p.1) (assignScalar lhs 0 m)

/-- `(*this)[i]`: the sub-array at index `i` of the first dimension -/
def View.sub (v : View) (i : Nat) : View := ⟨v.base + (i : Int) * v.strides.headD 0, v.dims.tail, v.strides.tail⟩

/-- `Array<2>::operator=(std::initializer_list<std::initializer_list<T>>)` on a non-empty matrix: `(*this)[index] = *i` for the
    rows OF THE LIST only — rows of the matrix the list does not reach are not touched (finding initlist-fewer-rows-not-zeroed;
    the documentation promises zeros) -/
def ilAssign2 (lhs : View) (rows : List (List Int)) (m : Mem) : Mem :=
  rows.zipIdx.foldl (fun m p => ilAssign1 (lhs.sub p.2) p.1 m) m

/-- `FixedArray` of rank 2: `*this = 0; inactive_link() = list;` -/
def fixedIlAssign2 (lhs : View) (rows : List (List Int)) (m : Mem) : Mem :=
  ilAssign2 lhs rows (assignScalar lhs 0 m)

/-- `IndexedArray<1>::operator=(std::initializer_list)`: `Array<1,Type,false> array = list; *this = array;` -/
def indexedIlAssign1 (lhs : IView) (xs : List Int) (m : Mem) : Mem :=
  indexedAssign lhs (.tmp fun ix => xs.getD (ix.headD 0) 0) m

end Adept.Assign
