import AdeptModel.Tape
/-
C03 — active array statements and the scalar loops they denote.

Transcribed from
  include/adept/Array.h          Array::operator=(Expression) (alias test, copy path), operator=(Active),
                                 assign_expression_ (active/active and active/passive), assign_inactive_scalar_,
                                 assign_conditional_, assign_conditional_inactive_scalar_, advance_index,
                                 set_location_/advance_location_/value_at_location_/calc_gradient_, data_range, is_aliased_
  include/adept/FixedArray.h     the same loops with compile-time extents (no alias test)
  include/adept/Expression.h     next_value_and_gradient(_contiguous/_special), scalar_value_and_gradient
  include/adept/BinaryOperation.h Add, Subtract, Multiply, Divide (calc_left/calc_right, with and without multiplier),
                                 Max, Min (max/fmax, min/fmin: operation, is_left, calc_left/calc_right)
  include/adept/UnaryOperation.h UnaryMinus, Abs/Fabs (ADEPT_DEF_UNARY_FUNC: operation, derivative)
  include/adept/noalias.h        NoAlias
  include/adept/IndexedArray.h   set_location_/advance_location_ (source), assign_expression_/assign_inactive_scalar_/
                                 operator=(Active) (target), advance_index, translate_coords_
  include/adept/where.h          Where::operator= (plain and either_or)
  include/adept/reduce.h         Sum/Mean/Product/MaxVal/MinVal::accumulate_active/finish_active, reduce_active,
                                 reduce_dimension (active)
  include/adept/spread.h, outer_product.h   (as views with a zero stride, see `spreadView`, `outerL`, `outerR`)
  include/adept/Active.h, ActiveReference.h, ActiveConstReference.h   scalar statement forms (`elemStep`)
  include/adept/StackStorageOrig.h  push_rhs, push_lhs, push_lhs_range

Conventions.  Memory is a list of allocations; a cell is (allocation id, element offset).  The gradient index of a cell
is `gbase + offset` (Storage::gradient_index() + (data - storage->data()), GradientIndex.h).  Multi-indices and the
dims/strides lists used by the loops are stored INNERMOST DIMENSION FIRST (`ri`, `rdims`, `rstrides`: position k is
C++ dimension Rank-1-k), because every C++ loop here walks from the last dimension outwards.  "Index order" (last
dimension fastest) of an array with reversed extents `rd` is `p ↦ unflatR rd p` for `p = 0 … size-1`.
Core Lean only; generic in the number type (instantiated with `Rat` by the driver; doubles are exact there).
-/
namespace Adept.ArrayAD
open Adept.Tape

abbrev Cell := Nat × Int

structure Sto (R : Type) where
  gbase : Nat          -- gradient index of cell 0 (meaningless when not active)
  active : Bool
  cells : List R
deriving Repr

abbrev Mem (R : Type) := List (Nat × Sto R)

/-- Array / FixedArray / view / adouble (dims = []) geometry, natural dimension order as in the C++ object -/
structure View where
  sid : Nat
  off : Int            -- data_ - first cell of the allocation
  dims : List Nat      -- dimensions_
  strides : List Int   -- offset_
deriving Repr, DecidableEq

def View.rdims (v : View) : List Nat := v.dims.reverse
def View.rstrides (v : View) : List Int := v.strides.reverse

/-- Σ iₖ·sₖ (`Array::index_`) on innermost-first lists -/
def dotR : List Nat → List Int → Int
  | i :: is, s :: ss => (i : Int) * s + dotR is ss
  | _, _ => 0

/-- multi-index (innermost first) of position `p` in index order -/
def unflatR : List Nat → Nat → List Nat
  | [], _ => []
  | d :: ds, p => (p % d) :: unflatR ds (p / d)

def prod : List Nat → Nat
  | [] => 1
  | d :: ds => d * prod ds

section Scalar
variable {R : Type} [Zero R]

def Mem.sto? (m : Mem R) (sid : Nat) : Option (Sto R) := (m.find? (·.1 = sid)).map (·.2)

def Mem.val (m : Mem R) (c : Cell) : R :=
  match m.sto? c.1 with
  | some s => if c.2 < 0 then 0 else s.cells.getD c.2.toNat 0
  | none => 0

def Mem.isActive (m : Mem R) (sid : Nat) : Bool :=
  match m.sto? sid with | some s => s.active | none => false

def Mem.gidx (m : Mem R) (c : Cell) : Nat :=
  match m.sto? c.1 with | some s => ((s.gbase : Int) + c.2).toNat | none => 0

def Mem.store (m : Mem R) (c : Cell) (v : R) : Mem R :=
  if c.2 < 0 then m else
  m.map (fun p => if p.1 = c.1 then (p.1, { p.2 with cells := p.2.cells.set c.2.toNat v }) else p)

/-- what one element evaluation sees: the scalar expression over memory cells -/
inductive SExpr (R : Type)
  | cell (c : Cell)            -- array element / adouble / ActiveReference (active iff its allocation is)
  | const (x : R)              -- Scalar<T>
  | add (a b : SExpr R)
  | sub (a b : SExpr R)
  | mul (a b : SExpr R)
  | div (a b : SExpr R)
  | neg (a : SExpr R)
  | noalias (a : SExpr R)
  | max (a b : SExpr R)        -- policy class Max (functions max, fmax)
  | min (a b : SExpr R)        -- policy class Min (functions min, fmin)
  | abs (a : SExpr R)          -- Abs, Fabs
deriving Repr

variable [Add R] [Sub R] [Mul R] [Div R] [Neg R] [One R] [LT R] [DecidableLT R]

/-- `Abs::derivative`: `(val>0.0)-(val<0.0)` -/
def sgn (x : R) : R := (if 0 < x then 1 else 0) - (if x < 0 then 1 else 0)

/-- value_at_location_store_: Divide::operation_store computes `left * (1/right)` -/
def SExpr.eval (m : Mem R) : SExpr R → R
  | .cell c => m.val c
  | .const x => x
  | .add a b => a.eval m + b.eval m
  | .sub a b => a.eval m - b.eval m
  | .mul a b => a.eval m * b.eval m
  | .div a b => a.eval m * (1 / b.eval m)
  | .neg a => -(a.eval m)
  | .noalias a => a.eval m
  -- Max::operation `left < right ? right : left` (= fmax on numbers), Min::operation `left < right ? left : right`
  | .max a b => if a.eval m < b.eval m then b.eval m else a.eval m
  | .min a b => if a.eval m < b.eval m then a.eval m else b.eval m
  | .abs a => if a.eval m < 0 then -(a.eval m) else a.eval m

/-- calc_gradient_ without (`none`) / with (`some w`) an incoming multiplier: the `push_rhs` calls in order.
    A passive leaf pushes nothing, so the `is_active` guards of calc_left_/calc_right_ need no separate case. -/
def SExpr.grad (m : Mem R) : SExpr R → Option R → List (R × Nat)
  | .cell c, w => if m.isActive c.1 then [(w.getD 1, m.gidx c)] else []
  | .const _, _ => []
  | .add a b, w => a.grad m w ++ b.grad m w
  | .sub a b, w => a.grad m w ++ b.grad m (some (match w with | none => -1 | some w => -w))
  | .mul a b, w =>
    a.grad m (some (match w with | none => b.eval m | some w => w * b.eval m)) ++
    b.grad m (some (match w with | none => a.eval m | some w => w * a.eval m))
  | .div a b, w =>
    let inv := 1 / b.eval m
    let res := a.eval m * inv
    a.grad m (some (match w with | none => inv | some w => w * inv)) ++
    b.grad m (some (match w with | none => -res * inv | some w => -w * res * inv))
  | .neg a, w => a.grad m (some (match w with | none => -1 | some w => -w))
  | .noalias a, w => a.grad m w
  -- Max: `is_left` = `left > right`, both operands read at THEIR OWN location (`MyArrayNum` / `MyArrayNum+L::n_arrays`);
  -- calc_left pushes the left operand iff is_left, calc_right the right operand iff !is_left (a tie goes to the right);
  -- the incoming multiplier is handed on unchanged
  | .max a b, w =>
    let isLeft := decide (b.eval m < a.eval m)
    (if isLeft then a.grad m w else []) ++ (if isLeft then [] else b.grad m w)
  -- Min: `is_left` = `left <= right` (a tie goes to the left)
  | .min a b, w =>
    let isLeft := !decide (b.eval m < a.eval m)
    (if isLeft then a.grad m w else []) ++ (if isLeft then [] else b.grad m w)
  -- UnaryOperation::calc_gradient_: `derivative(val, result)` resp. `multiplier*derivative(val, result)`
  | .abs a, w => a.grad m (some (match w with | none => sgn (a.eval m) | some w => w * sgn (a.eval m)))

structure St (R : Type) where
  mem : Mem R
  tape : List (Stmt R)

/-- one scalar statement `cell = expr` (Active::operator=, ActiveReference::operator=, and the body of every
    array loop): operations of the right-hand side, `push_lhs`, store the value -/
def elemStep (s : St R) (tgt : Cell) (e : SExpr R) : St R :=
  { mem := s.mem.store tgt (e.eval s.mem),
    tape := s.tape ++ [⟨s.mem.gidx tgt, e.grad s.mem none⟩] }

/-- comparison used as a where-mask: `a > b`, possibly negated (`!mask`) -/
structure SMask (R : Type) where
  neg : Bool
  a : SExpr R
  b : SExpr R

def SMask.eval (m : Mem R) (k : SMask R) : Bool :=
  let t := decide (k.b.eval m < k.a.eval m)
  if k.neg then !t else t

/-- a statement of the denoted scalar program: `if guard then cell = expr` -/
structure SStmt (R : Type) where
  guard : Option (SMask R)
  tgt : Cell
  rhs : SExpr R

def runS (s : St R) (x : SStmt R) : St R :=
  match x.guard with
  | none => elemStep s x.tgt x.rhs
  | some g => if g.eval s.mem then elemStep s x.tgt x.rhs else s

def runProg (s : St R) (p : List (SStmt R)) : St R := p.foldl runS s

end Scalar

/-! ### array expressions -/

inductive AExpr (R : Type)
  | arr (v : View)                              -- Array, FixedArray, view; `dims = []`: an adouble (n_arrays = 0)
  | idx (v : View) (rix : List (List Nat))      -- IndexedArray source A(ix…): index vectors, innermost dimension first
  | const (x : R)
  | add (a b : AExpr R)
  | sub (a b : AExpr R)
  | mul (a b : AExpr R)
  | div (a b : AExpr R)
  | neg (a : AExpr R)
  | noalias (a : AExpr R)
  | max (a b : AExpr R)                         -- max(a, b), fmax(a, b)
  | min (a b : AExpr R)                         -- min(a, b), fmin(a, b)
  | abs (a : AExpr R)                           -- abs(a), fabs(a)
deriving Repr

def lookup (l : List Nat) (k : Nat) : Nat := l.getD k 0

/-- translate_coords_ + get_value_with_len: coordinates of the indexed array for IndexedArray coordinates `ri` -/
def xlate : List (List Nat) → List Nat → List Nat
  | l :: ls, k :: ks => lookup l k :: xlate ls ks
  | _, _ => []

section Arr
variable {R : Type}

/-- the element of the expression at multi-index `ri` (innermost first): the DENOTATION -/
def AExpr.at : AExpr R → List Nat → SExpr R
  | .arr v, ri => .cell (v.sid, v.off + dotR ri v.rstrides)
  | .idx v rix, ri => .cell (v.sid, v.off + dotR (xlate rix ri) v.rstrides)
  | .const x, _ => .const x
  | .add a b, ri => .add (a.at ri) (b.at ri)
  | .sub a b, ri => .sub (a.at ri) (b.at ri)
  | .mul a b, ri => .mul (a.at ri) (b.at ri)
  | .div a b, ri => .div (a.at ri) (b.at ri)
  | .neg a, ri => .neg (a.at ri)
  | .noalias a, ri => .noalias (a.at ri)
  | .max a b, ri => .max (a.at ri) (b.at ri)
  | .min a b, ri => .min (a.at ri) (b.at ri)
  | .abs a, ri => .abs (a.at ri)

/-- E::n_arrays -/
def AExpr.nArrays : AExpr R → Nat
  | .arr v => if v.dims.isEmpty then 0 else 1
  | .idx _ _ => 3
  | .const _ => 0
  | .add a b | .sub a b | .mul a b | .div a b | .max a b | .min a b => a.nArrays + b.nArrays
  | .neg a | .noalias a | .abs a => a.nArrays

/-- set_location_: Array → `index_(i)`; IndexedArray → (row start in the indexed array with the last coordinate 0,
    the last coordinate, the element location) -/
def AExpr.setLoc : AExpr R → List Nat → List Int
  | .arr v, ri => if v.dims.isEmpty then [] else [v.off + dotR ri v.rstrides]
  | .idx v rix, ri =>
    let row := v.off + dotR (xlate rix.tail ri.tail) v.rstrides.tail
    let j := ri.headD 0
    [row, (j : Int), row + v.rstrides.headD 0 * (lookup (rix.headD []) j : Int)]
  | .const _, _ => []
  | .add a b, ri | .sub a b, ri | .mul a b, ri | .div a b, ri | .max a b, ri | .min a b, ri => a.setLoc ri ++ b.setLoc ri
  | .neg a, ri | .noalias a, ri | .abs a, ri => a.setLoc ri

/-- advance_location_ -/
def AExpr.advLoc : AExpr R → List Int → List Int
  | .arr v, l => if v.dims.isEmpty then [] else [l.headD 0 + v.rstrides.headD 0]
  | .idx v rix, l =>
    let row := l.getD 0 0
    let j := l.getD 1 0 + 1
    -- `if (loc[1] < dimensions_[Rank-1])`: past the end of the row the old location is kept
    if j < ((rix.headD []).length : Int) then
      [row, j, row + v.rstrides.headD 0 * (lookup (rix.headD []) j.toNat : Int)]
    else [row, j, l.getD 2 0]
  | .const _, _ => []
  | .add a b, l | .sub a b, l | .mul a b, l | .div a b, l | .max a b, l | .min a b, l =>
    a.advLoc (l.take a.nArrays) ++ b.advLoc (l.drop a.nArrays)
  | .neg a, l | .noalias a, l | .abs a, l => a.advLoc l

/-- value_at_location_ / calc_gradient_ read `loc[MyArrayNum]` (an IndexedArray reads `loc[MyArrayNum+2]`) -/
def AExpr.atLoc : AExpr R → List Int → SExpr R
  | .arr v, l => if v.dims.isEmpty then .cell (v.sid, v.off) else .cell (v.sid, l.headD 0)
  | .idx v _, l => .cell (v.sid, l.getD 2 0)
  | .const x, _ => .const x
  | .add a b, l => .add (a.atLoc (l.take a.nArrays)) (b.atLoc (l.drop a.nArrays))
  | .sub a b, l => .sub (a.atLoc (l.take a.nArrays)) (b.atLoc (l.drop a.nArrays))
  | .mul a b, l => .mul (a.atLoc (l.take a.nArrays)) (b.atLoc (l.drop a.nArrays))
  | .div a b, l => .div (a.atLoc (l.take a.nArrays)) (b.atLoc (l.drop a.nArrays))
  | .neg a, l => .neg (a.atLoc l)
  | .noalias a, l => .noalias (a.atLoc l)
  -- `left.…<MyArrayNum,…>(loc, …)` and `right.…<MyArrayNum+L::n_arrays,…>(loc, …)`, in `is_left` as everywhere else
  | .max a b, l => .max (a.atLoc (l.take a.nArrays)) (b.atLoc (l.drop a.nArrays))
  | .min a b, l => .min (a.atLoc (l.take a.nArrays)) (b.atLoc (l.drop a.nArrays))
  | .abs a, l => .abs (a.atLoc l)

/-- `expr_cast<E>::is_vectorizable && rhs.all_arrays_contiguous()` (the packet-alignment part `columns_aligned_`
    is not modelled: whenever the test succeeds every array has innermost stride 1, which is all the loop uses) -/
def AExpr.contig : AExpr R → Bool
  | .arr v => v.dims.isEmpty || v.rstrides.headD 0 == 1
  | .idx _ _ => false
  | .const _ => true
  | .add a b | .sub a b | .mul a b | .div a b | .max a b | .min a b => a.contig && b.contig
  | .neg a | .noalias a => a.contig
  | .abs _ => false            -- Abs::is_vectorized = false

/-- next location: `++index` on every entry in the contiguous branch, `advance_location_` otherwise -/
def AExpr.next (e : AExpr R) (l : List Int) : List Int :=
  if e.contig then l.map (· + 1) else e.advLoc l

/-- does some allocation of this expression hold active data (`E::is_active`)? -/
def AExpr.isActive (act : Nat → Bool) : AExpr R → Bool
  | .arr v => act v.sid
  | .idx v _ => act v.sid
  | .const _ => false
  | .add a b | .sub a b | .mul a b | .div a b | .max a b | .min a b => a.isActive act || b.isActive act
  | .neg a | .noalias a | .abs a => a.isActive act

/-- Array::data_range, as the inclusive interval of element offsets touched -/
def dataRange (v : View) : Int × Int :=
  let go := (v.dims.zip v.strides).foldl (fun (p : Int × Int) (ds : Nat × Int) =>
    if ds.2 ≥ 0 then (p.1, p.2 + ((ds.1 : Int) - 1) * ds.2) else (p.1 + ((ds.1 : Int) - 1) * ds.2, p.2)) (v.off, v.off)
  go

/-- Expression::is_aliased against the target's data range (`noalias` answers false; an adouble and a
    scalar answer false; spread and outer_product, which are zero-stride views here, are flagged by `viaCopy`) -/
def AExpr.aliased (t : View) : AExpr R → Bool
  | .arr v =>
    if v.dims.isEmpty then false else
    let (b, e) := dataRange v
    let (tb, te) := dataRange t
    v.sid == t.sid && decide (b ≤ te) && decide (e ≥ tb)
  | .idx v _ =>
    let (b, e) := dataRange v
    let (tb, te) := dataRange t
    v.sid == t.sid && decide (b ≤ te) && decide (e ≥ tb)
  | .const _ => false
  | .add a b | .sub a b | .mul a b | .div a b | .max a b | .min a b => a.aliased t || b.aliased t
  | .neg a | .abs a => a.aliased t
  | .noalias _ => false

/-! ### traversal -/

/-- `Array::advance_index` after `index -= offset_[Rank-1]*dimensions_[Rank-1]`: walk the outer dimensions from the
    innermost outwards; returns (new outer index, new memory index, my_rank < 0) -/
def advIndex : List Nat → List Int → List Nat → Int → List Nat × Int × Bool
  | d :: ds, s :: ss, i :: is, index =>
    if i + 1 ≥ d then
      let (is', index', fin) := advIndex ds ss is (index - s * ((d : Int) - 1))
      (0 :: is', index', fin)
    else ((i + 1) :: is, index + s, false)
  | _, _, _, index => ([], index, true)

/-- the `do { row } while (my_rank >= 0)` loop; `row s ri index` runs the innermost loop from memory index `index`
    with outer multi-index `ri` and returns the new state; `dl`,`sl` are extent and stride of the last dimension -/
def rowsLoop {σ : Type} (row : σ → List Nat → Int → σ) (rd : List Nat) (rs : List Int) (dl : Nat) (sl : Int) :
    Nat → List Nat → Int → σ → σ
  | 0, _, _, s => s
  | fuel + 1, ri, index, s =>
    let s' := row s ri index
    -- the innermost loop leaves `index` at `index + dl*sl`; advance_index first takes that off again
    let (ri', index', fin) := advIndex rd rs ri (index + (dl : Int) * sl - sl * (dl : Int))
    if fin then s' else rowsLoop row rd rs dl sl fuel ri' index' s'

def zeros (n : Nat) : List Nat := List.replicate n 0

/-- number of rows = product of the outer extents -/
def nRows (rd : List Nat) : Nat := prod rd.tail

end Arr

section Stmts
variable {R : Type} [Zero R] [Add R] [Sub R] [Mul R] [Div R] [Neg R] [One R] [LT R] [DecidableLT R]

/-- innermost loop of assign_expression_ (active target, active expression) -/
def assignRow (t : View) (e : AExpr R) (s : St R) (ri : List Nat) (index : Int) : St R :=
  let dl := t.rdims.headD 0
  let sl := t.rstrides.headD 0
  ((List.range dl).foldl (fun (p : St R × List Int × Int) _ =>
      let (s, l, index) := p
      (elemStep s (t.sid, index) (e.atLoc l), e.next l, index + sl))
    (s, e.setLoc (0 :: ri), index)).1

/-- `assign_expression_<Rank, true, true>` -/
def assignActive (t : View) (e : AExpr R) (s : St R) : St R :=
  rowsLoop (assignRow t e) t.rdims.tail t.rstrides.tail (t.rdims.headD 0) (t.rstrides.headD 0)
    (nRows t.rdims) (zeros t.rdims.tail.length) t.off s

/-- `push_lhs_range(first, n, stride)`: n statements without operations -/
def pushLhsRange (tape : List (Stmt R)) (first : Int) (n : Nat) (stride : Int) : List (Stmt R) :=
  tape ++ (List.range n).map (fun k => ⟨(first + (k : Int) * stride).toNat, []⟩)

/-- innermost loop of `assign_expression_<Rank, true, false>` (passive expression): the whole row is pushed with
    `push_lhs_range` first, then the values are stored -/
def assignPassiveRow (t : View) (e : AExpr R) (s : St R) (ri : List Nat) (index : Int) : St R :=
  let dl := t.rdims.headD 0
  let sl := t.rstrides.headD 0
  let gb : Int := match s.mem.sto? t.sid with | some x => x.gbase | none => 0
  let s1 : St R := { s with tape := pushLhsRange s.tape (gb + index) dl sl }
  ((List.range dl).foldl (fun (p : St R × List Int × Int) _ =>
      let (s, l, index) := p
      ({ s with mem := s.mem.store (t.sid, index) ((e.atLoc l).eval s.mem) }, e.advLoc l, index + sl))
    (s1, e.setLoc (0 :: ri), index)).1

def assignPassive (t : View) (e : AExpr R) (s : St R) : St R :=
  rowsLoop (assignPassiveRow t e) t.rdims.tail t.rstrides.tail (t.rdims.headD 0) (t.rstrides.headD 0)
    (nRows t.rdims) (zeros t.rdims.tail.length) t.off s

/-- `Array::operator=(const Active&)`: `push_rhs(1.0, rhs.gradient_index()); push_lhs(...)` per element.
    (`assign_inactive_scalar_` for a passive scalar is `assignPassive t (.const c)`.) -/
def assignScalarRow (t : View) (c : Cell) (s : St R) (_ri : List Nat) (index : Int) : St R :=
  let dl := t.rdims.headD 0
  let sl := t.rstrides.headD 0
  ((List.range dl).foldl (fun (p : St R × Int) _ =>
      let (s, index) := p
      (elemStep s (t.sid, index) (.cell c), index + sl))
    (s, index)).1

def assignScalar (t : View) (c : Cell) (s : St R) : St R :=
  rowsLoop (assignScalarRow t c) t.rdims.tail t.rstrides.tail (t.rdims.headD 0) (t.rstrides.headD 0)
    (nRows t.rdims) (zeros t.rdims.tail.length) t.off s

/-- size of the packed temporary `Array<Rank> copy` (rows padded to the packet width `W` as `pack_row_major_`
    does); returns its view -/
def tempView (sid : Nat) (dims : List Nat) (W : Nat) : View × Nat :=
  match dims.reverse with
  | [] => (⟨sid, 0, [], []⟩, 1)
  | dl :: rest =>
    let rowLen := if rest.isEmpty then dl else if dl ≥ 2 * W then ((dl + W - 1) / W) * W else dl
    -- strides innermost first: 1, rowLen, rowLen*d_{R-2}, …
    let rs := (rest.foldl (fun (acc : List Int × Int) (d : Nat) => (acc.1 ++ [acc.2], acc.2 * (d : Int))) ([1], (rowLen : Int))).1
    (⟨sid, 0, dims, rs.reverse⟩, rowLen * prod rest)

def assignNoAliasCheck (act : Nat → Bool) (t : View) (e : AExpr R) (s : St R) : St R :=
  if e.isActive act then assignActive t e s else assignPassive t e s

/-- `Array::operator=(const Expression&)` for an active target: alias test, copy path.  `tmp` describes the
    temporary (allocation id, gradient index of its first cell) used if the test fires; `W` = packet width. -/
def assign (t : View) (e : AExpr R) (tmpSid tmpG W : Nat) (s : St R) : St R :=
  let act := s.mem.isActive
  if e.aliased t then
    let (tv, n) := tempView tmpSid t.dims W
    let s0 : St R := { s with mem := s.mem ++ [(tmpSid, ⟨tmpG, true, List.replicate n 0⟩)] }
    let s1 := assignNoAliasCheck act tv e s0          -- copy = rhs   (`copy` is empty: resized, no alias possible)
    let s2 := assignActive t (.arr tv) s1            -- assign_expression_<Rank,IsActive,E::is_active>(copy)
    { s2 with mem := s2.mem.filter (·.1 ≠ tmpSid) }
  else assignNoAliasCheck act t e s

/-- where-mask at array level -/
structure AMask (R : Type) where
  neg : Bool
  a : AExpr R
  b : AExpr R

def AMask.at (k : AMask R) (ri : List Nat) : SMask R := ⟨k.neg, k.a.at ri, k.b.at ri⟩
def AMask.atLoc (k : AMask R) (l : List Int) : SMask R :=
  ⟨k.neg, k.a.atLoc (l.take k.a.nArrays), k.b.atLoc (l.drop k.a.nArrays)⟩
def AMask.setLoc (k : AMask R) (ri : List Nat) : List Int := k.a.setLoc ri ++ k.b.setLoc ri
def AMask.advLoc (k : AMask R) (l : List Int) : List Int :=
  k.a.advLoc (l.take k.a.nArrays) ++ k.b.advLoc (l.drop k.a.nArrays)

/-- innermost loop of `assign_conditional_<true>`; the state carries `is_gap`, which survives row boundaries -/
def whereRow (t : View) (k : AMask R) (e : AExpr R) (sg : St R × Bool) (ri : List Nat) (index : Int) : St R × Bool :=
  let dl := t.rdims.headD 0
  let sl := t.rstrides.headD 0
  let r := (List.range dl).foldl (fun (p : St R × Bool × List Int × List Int × Int) j =>
      let (s, gap, lb, lr, index) := p
      if (k.atLoc lb).eval s.mem then
        -- `if (is_gap) { rhs.set_location(i, rhs_ind); is_gap = false; }`
        let lr := if gap then e.setLoc (j :: ri) else lr
        (elemStep s (t.sid, index) (e.atLoc lr), false, k.advLoc lb, e.advLoc lr, index + sl)
      else (s, true, k.advLoc lb, lr, index + sl))
    (sg.1, sg.2, k.setLoc (0 :: ri), e.setLoc (0 :: ri), index)
  (r.1, r.2.1)

def whereAssign (t : View) (k : AMask R) (e : AExpr R) (s : St R) : St R :=
  (rowsLoop (whereRow t k e) t.rdims.tail t.rstrides.tail (t.rdims.headD 0) (t.rstrides.headD 0)
    (nRows t.rdims) (zeros t.rdims.tail.length) t.off (s, false)).1

/-- `Array::assign_conditional` with its alias test on the right-hand side (the mask is not tested) -/
def whereStmt (t : View) (k : AMask R) (e : AExpr R) (tmpSid tmpG W : Nat) (s : St R) : St R :=
  if e.aliased t then
    let (tv, n) := tempView tmpSid t.dims W
    let s0 : St R := { s with mem := s.mem ++ [(tmpSid, ⟨tmpG, true, List.replicate n 0⟩)] }
    let s1 := assignNoAliasCheck s.mem.isActive tv e s0
    let s2 := whereAssign t k (.arr tv) s1
    { s2 with mem := s2.mem.filter (·.1 ≠ tmpSid) }
  else whereAssign t k e s

/-- `T.where(mask) = either_or(c, d)`: first `!mask` with `d`, then `mask` with `c` (where.h) -/
def eitherOr (t : View) (k : AMask R) (c d : AExpr R) (tmpSid tmpG1 tmpG2 W : Nat) (s : St R) : St R :=
  whereStmt t k c tmpSid tmpG2 W (whereStmt t { k with neg := !k.neg } d tmpSid tmpG1 W s)

/-! ### integer-vector indexed targets (IndexedArray.h) -/

/-- innermost loop of `IndexedArray::assign_expression_<true, ·>`: `a_loc` is the location of the row start in the
    indexed array, the element is `a_loc + last_offset_ * index_vector[coords[last]]` -/
def idxRow (t : View) (rix : List (List Nat)) (e : AExpr R) (s : St R) (ri : List Nat) (_index : Int) : St R :=
  let dl := (rix.headD []).length
  let aloc := t.off + dotR (xlate rix.tail ri) t.rstrides.tail
  ((List.range dl).foldl (fun (p : St R × List Int) j =>
      let (s, l) := p
      let index := aloc + t.rstrides.headD 0 * (lookup (rix.headD []) j : Int)
      (elemStep s (t.sid, index) (e.atLoc l), e.advLoc l))
    (s, e.setLoc (0 :: ri))).1

/-- `T(ix…) = expr` after the alias test; covers active and passive expressions, a passive scalar
    (`.const c`, assign_inactive_scalar_) and an adouble (`.arr` of rank 0, operator=(const Active&)):
    all four loops push per element and differ only in what the element expression is -/
def idxAssign (t : View) (rix : List (List Nat)) (e : AExpr R) (s : St R) : St R :=
  let rd := rix.map (·.length)
  rowsLoop (idxRow t rix e) rd.tail (rd.tail.map (fun _ => (0 : Int))) (rd.headD 0) 0
    (nRows rd) (zeros rd.tail.length) 0 s

def idxStmt (t : View) (rix : List (List Nat)) (e : AExpr R) (tmpSid tmpG W : Nat) (s : St R) : St R :=
  if e.aliased t then
    -- `copy = noalias(rhs); assign_expression_(copy)`
    let (tv, n) := tempView tmpSid (rix.map (·.length)).reverse W
    let s0 : St R := { s with mem := s.mem ++ [(tmpSid, ⟨tmpG, true, List.replicate n 0⟩)] }
    let s1 := assignNoAliasCheck s.mem.isActive tv e s0
    let s2 := idxAssign t rix (.arr tv) s1
    { s2 with mem := s2.mem.filter (·.1 ≠ tmpSid) }
  else idxAssign t rix e s

/-! ### reductions (reduce.h) -/

inductive RFun | sum | mean | product | minval | maxval
deriving Repr, DecidableEq

/-- accumulator of `reduce_active`: the value of `total`, whether it still holds `first_value()` = ±∞
    (minval/maxval), and the operations pushed since the last `push_lhs` -/
structure Acc (R : Type) where
  st : St R
  val : R
  fresh : Bool
  pend : List (R × Nat)

variable [NatCast R]

/-- `Func::accumulate_active(total, rhs, loc)` on the element expression `x` -/
def accumulate (f : RFun) (tot : Cell) (a : Acc R) (x : SExpr R) : Acc R :=
  let m := a.st.mem
  match f with
  | .sum | .mean =>   -- total.lvalue() += rhs.next_value_and_gradient(...)
    { a with val := a.val + x.eval m, pend := a.pend ++ x.grad m none }
  | .product =>       -- xval = next_value_and_gradient_special(stack, loc, total.value()); total *= xval
    let xv := x.eval m
    let ops := a.pend ++ x.grad m (some a.val) ++ [(xv, m.gidx tot)]
    { a with st := { a.st with tape := a.st.tape ++ [⟨m.gidx tot, ops⟩] }, val := a.val * xv, pend := [] }
  | .maxval =>        -- if (value > total) total = next_value_and_gradient(...)
    if a.fresh || decide (a.val < x.eval m) then
      { a with st := { a.st with tape := a.st.tape ++ [⟨m.gidx tot, a.pend ++ x.grad m none⟩] }, val := x.eval m,
               fresh := false, pend := [] }
    else a
  | .minval =>
    if a.fresh || decide (x.eval m < a.val) then
      { a with st := { a.st with tape := a.st.tape ++ [⟨m.gidx tot, a.pend ++ x.grad m none⟩] }, val := x.eval m,
               fresh := false, pend := [] }
    else a

def firstValue (f : RFun) : R := match f with | .product => 1 | _ => 0

/-- `Func::finish_active(total, n)` -/
def finishActive (f : RFun) (tot : Cell) (n : Nat) (a : Acc R) : Acc R :=
  let m := a.st.mem
  match f with
  | .sum => { a with st := { a.st with tape := a.st.tape ++ [⟨m.gidx tot, a.pend⟩] }, pend := [] }
  | .mean =>          -- push_lhs; total /= n   (x/c is x*(1/c), one more statement)
    let c : R := 1 / (n : R)
    { a with st := { a.st with tape := a.st.tape ++ [⟨m.gidx tot, a.pend⟩, ⟨m.gidx tot, [(c, m.gidx tot)]⟩] },
             val := a.val * c, pend := [] }
  | _ => a

/-- the element loop of `reduce_active` over an expression with (reversed) extents `rd`; the odometer of
    reduce.h keeps no memory index -/
def reduceLoop (f : RFun) (tot : Cell) (e : AExpr R) (rd : List Nat) (a : Acc R) : Acc R :=
  rowsLoop (fun (a : Acc R) ri _ =>
      ((List.range (rd.headD 0)).foldl (fun (p : Acc R × List Int) _ =>
          (accumulate f tot p.1 (e.atLoc p.2), e.advLoc p.2)) (a, e.setLoc (0 :: ri))).1)
    rd.tail (rd.tail.map (fun _ => (0 : Int))) (rd.headD 0) 0 (nRows rd) (zeros rd.tail.length) 0 a

/-- `s = f(expr)`: `Active<Type> result` (cell `tot`, fresh gradient index), `reduce_active`, then the copy into `s` -/
def reduceAll (f : RFun) (sc tot : Cell) (e : AExpr R) (rd : List Nat) (s : St R) : St R :=
  -- `total = f.first_value()`: a statement without operations (so that a recycled gradient index starts clean)
  let s0 : St R := { s with tape := s.tape ++ [⟨s.mem.gidx tot, []⟩] }
  let a0 : Acc R := ⟨s0, firstValue f, (f == .minval || f == .maxval), []⟩
  let a1 := finishActive f tot (prod rd) (reduceLoop f tot e rd a0)
  let s1 : St R := { a1.st with mem := a1.st.mem.store tot a1.val }
  elemStep s1 sc (.cell tot)

/-- reversed multi-index of the source for strip `rj` (reversed index of the result) and position `i` along the
    reduced dimension; `k` = position of the reduced dimension counted from the innermost -/
def insertAt (rj : List Nat) (k i : Nat) : List Nat := rj.take k ++ [i] ++ rj.drop k

/-- one strip of `reduce_dimension` (active): `total = first_value()` (a statement without operations), the
    elements along the reduced dimension (`set_location` per element), `finish_active`, `result(inew) = total` -/
def reduceStrip (f : RFun) (tot : Cell) (e : AExpr R) (k d : Nat) (res : View) (s : St R) (rj : List Nat) : St R :=
  let s0 : St R := { s with tape := s.tape ++ [⟨s.mem.gidx tot, []⟩] }
  let a0 : Acc R := ⟨s0, firstValue f, (f == .minval || f == .maxval), []⟩
  let a1 := (List.range d).foldl (fun a i => accumulate f tot a (e.atLoc (e.setLoc (insertAt rj k i)))) a0
  let a2 := finishActive f tot d a1
  let s1 : St R := { a2.st with mem := a2.st.mem.store tot a2.val }
  elemStep s1 (res.sid, res.off + dotR rj res.rstrides) (.cell tot)

/-- `reduce_dimension<Func>(rhs, dim, result)` with the strips taken in index order of the result (the reference form;
    `reduceDimLit` below transcribes the odometer of the C++ and is proved equal to it) -/
def reduceDim (f : RFun) (tot : Cell) (e : AExpr R) (rd : List Nat) (k : Nat) (res : View) (s : St R) : St R :=
  let rrd := rd.take k ++ rd.drop (k + 1)
  (List.range (prod rrd)).foldl (fun s p => reduceStrip f tot e k (rd.getD k 0) res s (unflatR rrd p)) s

/-! #### `reduce_dimension` with its own odometer, transcribed literally

The active `reduce_dimension` keeps the full index `i` (rank entries; entry `reduce_dim` is driven by the inner loop) and
the result index `inew` (rank-1 entries) side by side and advances both after every strip, walking the dimensions from the
last outwards and stepping over the reduced one.  Lists are innermost first, `k` = position of the reduced dimension
counted from the innermost, so "my_rank > reduce_dim" are the positions before `k`. -/

/-- the walk once the reduced dimension is behind (`my_rank < reduce_dim`): `++i[my_rank]; ++inew[my_rank];
    if (i[my_rank] >= dims[my_rank]) { i[my_rank] = 0; inew[my_rank] = 0; } else break;` — returns
    (i, inew, my_rank < 0) -/
def advBoth : List Nat → List Nat → List Nat → List Nat × List Nat × Bool
  | d :: ds, i :: is, j :: js =>
    if i + 1 ≥ d then
      let (is', js', fin) := advBoth ds is js
      (0 :: is', 0 :: js', fin)
    else ((i + 1) :: is, (j + 1) :: js, false)
  | _, is, js => (is, js, true)

/-- `my_rank = E::rank; while (--my_rank >= 0) { if (my_rank == reduce_dim) continue; ++i[my_rank]; … }`: before the
    reduced dimension (`my_rank > reduce_dim`) the partner of `i[my_rank]` is `inew[my_rank-1]` — in the innermost-first
    lists both are the current heads -/
def advStrip : List Nat → Nat → List Nat → List Nat → List Nat × List Nat × Bool
  | _ :: ds, 0, i :: is, js =>              -- `if (my_rank == reduce_dim) continue;`
    let (is', js', fin) := advBoth ds is js
    (i :: is', js', fin)
  | d :: ds, k + 1, i :: is, j :: js =>
    if i + 1 ≥ d then
      let (is', js', fin) := advStrip ds k is js
      (0 :: is', 0 :: js', fin)
    else ((i + 1) :: is, (j + 1) :: js, false)
  | _, _, is, js => (is, js, true)

/-- one strip: `i[reduce_dim] = 0; total = f.first_value(); for (; i[reduce_dim] < dims[reduce_dim]; ++i[reduce_dim])
    { rhs.set_location(i, loc); f.accumulate_active(total, rhs, loc); } finish_active; result.get_lvalue(inew) = total` -/
def reduceStripLit (f : RFun) (tot : Cell) (e : AExpr R) (k d : Nat) (res : View) (s : St R) (ri rj : List Nat) : St R :=
  let s0 : St R := { s with tape := s.tape ++ [⟨s.mem.gidx tot, []⟩] }
  let a0 : Acc R := ⟨s0, firstValue f, (f == .minval || f == .maxval), []⟩
  let a1 := (List.range d).foldl (fun a x => accumulate f tot a (e.atLoc (e.setLoc (ri.set k x)))) a0
  let a2 := finishActive f tot d a1
  let s1 : St R := { a2.st with mem := a2.st.mem.store tot a2.val }
  elemStep s1 (res.sid, res.off + dotR rj res.rstrides) (.cell tot)

/-- the `do { strip; advance } while (my_rank >= 0)` loop -/
def stripsLoop (f : RFun) (tot : Cell) (e : AExpr R) (rd : List Nat) (k : Nat) (res : View) :
    Nat → List Nat → List Nat → St R → St R
  | 0, _, _, s => s
  | fuel + 1, ri, rj, s =>
    let s' := reduceStripLit f tot e k (rd.getD k 0) res s ri rj
    let (ri', rj', fin) := advStrip rd k ri rj
    if fin then s' else stripsLoop f tot e rd k res fuel ri' rj' s'

/-- `reduce_dimension<Func>(rhs, dim, result)` as coded: `i(0)`, `inew(0)`, one strip per element of the result -/
def reduceDimLit (f : RFun) (tot : Cell) (e : AExpr R) (rd : List Nat) (k : Nat) (res : View) (s : St R) : St R :=
  stripsLoop f tot e rd k res (prod (rd.take k ++ rd.drop (k + 1))) (zeros rd.length) (zeros (rd.length - 1)) s

/-! ### diag_vector of an active rank-2 expression (reduce.h, section 5) -/

/-- number of elements of diagonal `k` of a `d0 × d1` expression: `min(dims[0], dims[1]-offdiag)` for `offdiag ≥ 0`,
    `min(dims[0]+offdiag, dims[1])` otherwise (the loops do not run when this is not positive) -/
def diagLen (d0 d1 : Nat) (k : Int) : Nat :=
  if k ≥ 0 then (min (d0 : Int) ((d1 : Int) - k)).toNat else (min ((d0 : Int) + k) (d1 : Int)).toNat

/-- the index `i` set for element `j` (innermost first: `[i[1], i[0]]`): `i = (j, j+offdiag)` for `offdiag ≥ 0`,
    `i = (j-offdiag, j)` otherwise -/
def diagIx (k : Int) (j : Nat) : List Nat :=
  if k ≥ 0 then [j + k.toNat, j] else [j, j + (-k).toNat]

/-- `diag_vector(expr, offdiag)` for an active expression: per element `arg.set_location(i, ind)`,
    `v.data()[j] = arg.next_value_and_gradient(stack, ind)`, `push_lhs(v.gradient_index()+j)`; `res` is the freshly
    allocated vector `v` (unit stride) -/
def diagVector (e : AExpr R) (d0 d1 : Nat) (k : Int) (res : View) (s : St R) : St R :=
  (List.range (diagLen d0 d1 k)).foldl
    (fun s (j : Nat) => elemStep s (res.sid, res.off + (j : Int)) (e.atLoc (e.setLoc (diagIx k j)))) s

/-! ### spread and outer_product as zero-stride views -/

/-- `spread<d>(a, n)`: dimension `d` (natural order) of extent `n` that does not move in memory -/
def spreadView (v : View) (d n : Nat) : View :=
  { v with dims := v.dims.take d ++ [n] ++ v.dims.drop d, strides := v.strides.take d ++ [0] ++ v.strides.drop d }

/-- `outer_product(a, b)(i,j) = a(i)*b(j)`: the left vector does not advance along a row -/
def outerL (a : View) (nb : Nat) : View := { a with dims := a.dims ++ [nb], strides := a.strides ++ [0] }
def outerR (b : View) (na : Nat) : View := { b with dims := na :: b.dims, strides := 0 :: b.strides }

end Stmts

/-! ### the denoted scalar programs (element by element, index order) -/
section Denote
variable {R : Type}

def View.cellAt (t : View) (ri : List Nat) : Cell := (t.sid, t.off + dotR ri t.rstrides)

/-- `T = expr`, `T op= expr` (expr = T op rhs), `T = scalar`: `for p in index order: T[p] = expr[p]` -/
def denoteAssign (t : View) (e : AExpr R) : List (SStmt R) :=
  (List.range (prod t.rdims)).map (fun p => ⟨none, t.cellAt (unflatR t.rdims p), e.at (unflatR t.rdims p)⟩)

/-- `T.where(mask) = expr`: `for p: if mask[p] then T[p] = expr[p]` -/
def denoteWhere [Zero R] [LT R] (t : View) (k : AMask R) (e : AExpr R) : List (SStmt R) :=
  (List.range (prod t.rdims)).map (fun p =>
    ⟨some (k.at (unflatR t.rdims p)), t.cellAt (unflatR t.rdims p), e.at (unflatR t.rdims p)⟩)

/-- `T(ix…) = expr`: `for p in index order of the index vectors: T[ix[p]] = expr[p]` -/
def denoteIdx (t : View) (rix : List (List Nat)) (e : AExpr R) : List (SStmt R) :=
  let rd := rix.map (·.length)
  (List.range (prod rd)).map (fun p => ⟨none, t.cellAt (xlate rix (unflatR rd p)), e.at (unflatR rd p)⟩)

/-- `v = diag_vector(expr, k)`: `for j: v[j] = expr[j, j+k]` (`k ≥ 0`) resp. `v[j] = expr[j-k, j]` (`k < 0`) -/
def denoteDiag (e : AExpr R) (d0 d1 : Nat) (k : Int) (res : View) : List (SStmt R) :=
  (List.range (diagLen d0 d1 k)).map (fun (j : Nat) => ⟨none, (res.sid, res.off + (j : Int)), e.at (diagIx k j)⟩)

end Denote

section DenoteReduce
variable {R : Type} [Zero R] [One R] [Div R] [NatCast R]

/-- the scalar accumulation loop that `f` denotes over the element expressions `xs` (index order) into the cell
    `tot`: `tot = 0; tot = tot + x …` (then `tot = tot·(1/n)` for mean), `tot = 1; tot = tot·x …`,
    `tot = ∓∞; tot = x₀; if (x > tot) tot = x …` (the stored stand-in for ∓∞ is never read) -/
def loopStmts (f : RFun) (tot : Cell) (xs : List (SExpr R)) (n : Nat) : List (SStmt R) :=
  match f with
  | .sum => ⟨none, tot, .const 0⟩ :: xs.map (fun x => ⟨none, tot, .add (.cell tot) x⟩)
  | .mean => (⟨none, tot, .const 0⟩ :: xs.map (fun x => ⟨none, tot, .add (.cell tot) x⟩)) ++
      [⟨none, tot, .mul (.cell tot) (.const (1 / (n : R)))⟩]
  | .product => ⟨none, tot, .const 1⟩ :: xs.map (fun x => ⟨none, tot, .mul (.cell tot) x⟩)
  | .maxval => ⟨none, tot, .const 0⟩ ::
      (match xs with
       | [] => []
       | x0 :: r => ⟨none, tot, x0⟩ :: r.map (fun x => ⟨some ⟨false, x, .cell tot⟩, tot, x⟩))
  | .minval => ⟨none, tot, .const 0⟩ ::
      (match xs with
       | [] => []
       | x0 :: r => ⟨none, tot, x0⟩ :: r.map (fun x => ⟨some ⟨false, .cell tot, x⟩, tot, x⟩))

/-- `s = f(expr)` as a scalar program: the accumulation loop over the index order, then `s = tot` -/
def denoteReduce (f : RFun) (sc tot : Cell) (e : AExpr R) (rd : List Nat) : List (SStmt R) :=
  loopStmts f tot ((List.range (prod rd)).map (fun p => e.at (unflatR rd p))) (prod rd) ++ [⟨none, sc, .cell tot⟩]

/-- `result = f(expr, dim)`: for every element of the result in index order, the accumulation loop along the
    reduced dimension, then `result[j] = tot` -/
def denoteRdim (f : RFun) (tot : Cell) (e : AExpr R) (rd : List Nat) (k : Nat) (res : View) : List (SStmt R) :=
  let rrd := rd.take k ++ rd.drop (k + 1)
  (List.range (prod rrd)).flatMap (fun p =>
    loopStmts f tot ((List.range (rd.getD k 0)).map (fun i => e.at (insertAt (unflatR rrd p) k i))) (rd.getD k 0) ++
      [⟨none, res.cellAt (unflatR rrd p), .cell tot⟩])

end DenoteReduce

/-- the memory cells an element expression reads -/
def SExpr.cellsOf {R : Type} : SExpr R → List Cell
  | .cell c => [c]
  | .const _ => []
  | .add a b | .sub a b | .mul a b | .div a b | .max a b | .min a b => a.cellsOf ++ b.cellsOf
  | .neg a | .noalias a | .abs a => a.cellsOf

end Adept.ArrayAD
