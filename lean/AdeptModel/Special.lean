import AdeptModel.Generated.Engines
/-!
Special matrices (`adept::SpecialMatrix<Type,Engine,IsActive>`), property C17.

Hand-written on top of `AdeptModel/Generated/Engines.lean` (the engine policy structs, regenerated from
`include/adept/SpecialMatrix.h` by `translate/engines.py` on every run).  Transcribed here, from the class
`SpecialMatrix` in the same header and from `Array::assign_expression_` (include/adept/Array.h):

  resize, data_range, is_contiguous, operator()(i,j) const / non-const, T(), submatrix_on_diagonal,
  diag_vector, set_location_ / value_at_location_ / advance_location_ (how a special matrix is read when it
  is an operand of an expression), assign_expression_ / assign_inactive_scalar (how it is written when it
  is the target of a statement), and the row loop of `Array<2>::operator=(expression)`.

Raw storage is a function `Int → Int` (element k of the `Storage` object); `base` is `data_ - storage start`.
Core Lean only (linked into the `adept_model` driver).
-/
namespace Adept.Special
open Adept.Engines

/-- raw storage: value of element k -/
abbrev Raw := Int → Int

def Raw.set (d : Raw) (k v : Int) : Raw := fun x => if x = k then v else d x

/-- the members of a `SpecialMatrix` object -/
structure SM where
  e : Engine
  dim : Int        -- dimension_
  offset : Int     -- offset_
  base : Int := 0  -- data_ (relative to the start of the storage)
deriving Repr

namespace SM

/-- `SpecialMatrix(n)` / `resize(n)`: packed storage -/
def packed (e : Engine) (n : Int) : SM := { e := e, dim := n, offset := e.pack_offset n, base := 0 }

/-- length of `data_range` = `Engine::data_size(dimension_, offset_)` -/
def rawSize (m : SM) : Int := m.e.data_size m.dim m.offset

/-- `is_contiguous()` -/
def isContiguous (m : SM) : Bool := m.offset == m.e.pack_offset m.dim

/-- `operator()(i,j) const` -> `Engine::get_scalar<false>` -/
def get (m : SM) (d : Raw) (i j : Int) : Int :=
  match m.e.get_scalar i j m.dim m.offset with
  | some k => d (m.base + k)
  | none => 0

/-- `operator()(i,j)` (lvalue) -> `Engine::get_reference<IsActive>`: the raw element referred to,
    `none` = `index_out_of_bounds` -/
def ref (m : SM) (active : Bool) (i j : Int) : Option Int :=
  match (if active then m.e.get_reference_active i j m.dim m.offset else m.e.get_reference i j m.dim m.offset) with
  | some k => some (m.base + k)
  | none => none

/-- `T()`: same data, dimension and offset, `Engine::transpose_engine` -/
def T (m : SM) : SM := { m with e := m.e.transpose }

/-- `submatrix_on_diagonal(istart, iend)`; `none` = `index_out_of_bounds` -/
def sub (m : SM) (istart iend : Int) : Option SM :=
  if istart < 0 ∨ istart > iend ∨ iend ≥ m.dim then none
  else some { m with base := m.base + (m.offset + 1) * istart, dim := iend - istart + 1 }

/-- a rank-1 view: first element, length, stride -/
structure Vec where
  base : Int
  len : Int
  stride : Int
deriving Repr

/-- `diag_vector(offdiag)`; `none` = `index_out_of_bounds` from `check_upper_diag` / `check_lower_diag` -/
def diag (m : SM) (offdiag : Int) : Option Vec :=
  if offdiag ≥ 0 then
    if m.e.check_upper_diag offdiag then none
    else some { base := m.base + m.e.upper_offset m.dim m.offset offdiag, len := m.dim - offdiag, stride := m.offset + 1 }
  else
    if m.e.check_lower_diag offdiag then none
    else some { base := m.base + m.e.lower_offset m.dim m.offset offdiag, len := m.dim + offdiag, stride := m.offset + 1 }

/-! #### a special matrix as operand of an expression -/

/-- the slots of `ExpressionSize<NArrays>` owned by one special matrix: memory index + up to two extras -/
structure Loc where
  l0 : Int
  l1 : Int
  l2 : Int
deriving Repr

/-- `set_location_` : `index[MyArrayNum] = Engine::index(i,j,offset_)`, then `Engine::set_extras` -/
def setLocation (m : SM) (i j : Int) : Loc :=
  { l0 := m.e.index i j m.offset, l1 := m.e.set_extras_1 i m.offset, l2 := m.e.set_extras_2 i m.offset }

/-- `value_at_location_` -/
def valueAt (m : SM) (d : Raw) (l : Loc) : Int :=
  match m.e.value_at_location l.l0 l.l1 l.l2 with
  | some k => d (m.base + k)
  | none => 0

/-- `advance_location_` : `loc[MyArrayNum] += Engine::row_offset(offset_, loc)` -/
def advance (m : SM) (l : Loc) : Loc := { l with l0 := l.l0 + m.e.row_offset m.offset l.l0 l.l1 l.l2 }

/-- `n` successive `next_value` calls starting from location `l` -/
def rowFrom (m : SM) (d : Raw) (l : Loc) : Nat → List Int
  | 0 => []
  | n + 1 => m.valueAt d l :: m.rowFrom d (m.advance l) n

end SM

/-- right-hand sides used by the correspondence runs: special matrices (with their storage), a dense
    `Matrix` given by its elements, multiplication by a scalar, element-wise sum -/
inductive RExpr where
  | sm (m : SM) (d : Raw)
  | dense (f : Int → Int → Int)
  | scale (a : RExpr) (c : Int)
  | add (a b : RExpr)

/-- `rhs.set_location((i,j0), ind)` followed by `n` calls of `rhs.next_value(ind)`.  Every leaf keeps its own
    slots of `ind`, so the lock-step traversal of the tree is the element-wise combination of the leaves' rows. -/
def RExpr.row : RExpr → Int → Int → Nat → List Int
  | .sm m d, i, j0, n => m.rowFrom d (m.setLocation i j0) n
  | .dense f, i, j0, n => (List.range n).map (fun (t : Nat) => f i (j0 + (t : Int)))
  | .scale a c, i, j0, n => (a.row i j0 n).map (· * c)
  | .add a b, i, j0, n => List.zipWith (· + ·) (a.row i j0 n) (b.row i j0 n)

/-- `Matrix D(rhs)` / `D = rhs` for an n x n right-hand side: `Array::assign_expression_`, one
    `set_location((i,0))` per row and `n` `next_value`s; result row by row -/
def RExpr.toDense (r : RExpr) (n : Nat) : List Int :=
  (List.range n).flatMap (fun (i : Nat) => r.row (i : Int) 0 n)

namespace SM

/-- inner loop of `assign_expression_`: `data_[index] = rhs.next_value(ind); index += index_stride` -/
def assignRow (m : SM) : List Int → Int → Int → Raw → Raw
  | [], _, _, d => d
  | v :: vs, idx, stride, d => m.assignRow vs (idx + stride) stride (d.set (m.base + idx) v)

/-- body of the row loop of `assign_expression_<false,false>` for row `i` -/
def assignRowOf (m : SM) (rhs : RExpr) (d : Raw) (i : Nat) : Raw :=
  let i : Int := i
  let js := m.e.get_row_range_j_start i m.dim m.offset
  let je := m.e.get_row_range_j_end_plus_1 i m.dim m.offset
  m.assignRow (rhs.row i js (je - js).toNat) (m.e.get_row_range_index_start i m.dim m.offset)
    (m.e.get_row_range_index_stride i m.dim m.offset) d

/-- `SpecialMatrix::operator=(expression)` without aliasing (`assign_expression_<false,false>`);
    `operator=(scalar)` (`assign_inactive_scalar`) is the same loop with a constant right-hand side -/
def assign (m : SM) (rhs : RExpr) (d : Raw) : Raw :=
  (List.range m.dim.toNat).foldl (m.assignRowOf rhs) d

/-- dense view through `operator() const`, row by row -/
def view (m : SM) (d : Raw) : List Int :=
  (List.range m.dim.toNat).flatMap (fun (i : Nat) => (List.range m.dim.toNat).map (fun (j : Nat) => m.get d (i : Int) (j : Int)))

end SM
end Adept.Special
